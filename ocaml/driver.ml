(* Unverified glue: reads one job per line (an s-expression of integers),
   applies the extracted [Model.entry : sx -> sx], prints the result on one
   line.  Integers are converted through the extracted Z operations only. *)
open Model

let rec pos_of_int n =
  if n = 1 then XH
  else if n land 1 = 0 then XO (pos_of_int (n lsr 1))
  else XI (pos_of_int (n lsr 1))

let z_of_int n =
  if n = 0 then Z0 else if n > 0 then Zpos (pos_of_int n) else Zneg (pos_of_int (-n))

let rec int_of_pos = function
  | XH -> 1
  | XO p -> 2 * int_of_pos p
  | XI p -> 2 * int_of_pos p + 1

let int_of_z = function
  | Z0 -> 0
  | Zpos p -> int_of_pos p
  | Zneg p -> - (int_of_pos p)

(* decimal string -> Z, by chunks of 15 digits *)
let z_of_string s =
  let neg = String.length s > 0 && s.[0] = '-' in
  let s = if neg then String.sub s 1 (String.length s - 1) else s in
  let n = String.length s in
  let acc = ref Z0 in
  let i = ref 0 in
  while !i < n do
    let len = min 15 (n - !i) in
    let chunk = int_of_string (String.sub s !i len) in
    let scale = int_of_float (10. ** float_of_int len) in
    acc := z_muladd !acc (z_of_int scale) (z_of_int chunk);
    i := !i + len
  done;
  if neg then z_muladd !acc (z_of_int (-1)) Z0 else !acc

let string_of_z z =
  let cs = z_to_dec z in
  let b = Buffer.create 16 in
  List.iter (fun c -> Buffer.add_char b (Char.chr (int_of_z c))) cs;
  Buffer.contents b

(* tokens *)
let tokenize (line : string) : string list =
  let toks = ref [] in
  let n = String.length line in
  let i = ref 0 in
  while !i < n do
    let c = line.[!i] in
    if c = '(' || c = ')' then (toks := String.make 1 c :: !toks; incr i)
    else if c = ' ' || c = '\t' || c = '\r' then incr i
    else begin
      let j = ref !i in
      while !j < n && (let d = line.[!j] in d <> '(' && d <> ')' && d <> ' ' && d <> '\t' && d <> '\r') do incr j done;
      toks := String.sub line !i (!j - !i) :: !toks;
      i := !j
    end
  done;
  List.rev !toks

exception Bad

let rec parse_one toks =
  match toks with
  | [] -> raise Bad
  | "(" :: rest ->
    let items, rest' = parse_list rest [] in
    (SL items, rest')
  | ")" :: _ -> raise Bad
  | a :: rest -> (SZ (z_of_string a), rest)
and parse_list toks acc =
  match toks with
  | ")" :: rest -> (List.rev acc, rest)
  | [] -> raise Bad
  | _ -> let x, rest = parse_one toks in parse_list rest (x :: acc)

let rec print_sx b = function
  | SZ z -> Buffer.add_string b (string_of_z z)
  | SL l ->
    Buffer.add_char b '(';
    List.iteri (fun i x -> if i > 0 then Buffer.add_char b ' '; print_sx b x) l;
    Buffer.add_char b ')'

let () =
  try
    while true do
      let line = input_line stdin in
      if String.length line > 0 then begin
        let out =
          try
            let x, rest = parse_one (tokenize line) in
            if rest <> [] then raise Bad;
            let b = Buffer.create 256 in
            print_sx b (entry x);
            Buffer.contents b
          with Bad | Failure _ -> "!bad-job"
             | Stack_overflow -> "!stack-overflow"
        in
        print_string out; print_newline ()
      end
    done
  with End_of_file -> ()
