#!/bin/bash
# Full clean build of the framework, offline: every Coq file (.vo, never -vos),
# every extracted model.  Fails on any Admitted/Axiom-like declaration.
set -e
cd "$(dirname "$0")"
if grep -rnE '\b(Admitted|admit|Axiom|Parameter|Conjecture|Admit Obligations|Unset Guard Checking|bypass_check|Unset Positivity|Unset Universe Checking)\b' coq --include='*.v' | grep -v '^coq/Gen/.*(\* *generated'; then
  echo "forbidden declaration found" >&2; exit 2
fi
python3 tools/setup_build.py
