(* sx entry point of the debugger-evaluation model (T-dbg jobs of tools/props/c13.py).

   job:   (1 di state (expr ...))  ->  (result ...)
   di:    (env globals gconsts main (routine ...))
     env      ((name ((field ty) ...)) ...)        latest definition first
     decls    ((name ty) ...)
     consts   ((name cval) ...)                    cval: () | (pyval)
     routine  (start end params locals consts)
     ty       (1 k) | (2 name) | (3 ((lb ub) ...) elem) | (4 elem)      as LayoutEntry
     pyval    (1 z) | (2 bits64) | (3 str)
   state: (heap cur)    heap: segments as MachineEntry.seg_sx, cur = -1 for None
   expr:  (1 ty pyval) | (2 str) | (3 name (expr ...) (field ...)) | (4 op l r) | (5 op a) | (6 a)
          op = value of qbee.expr.Operator
   result: (0 pyval) | (1) aggregate | (2) EvalError | (3 k) crash | (4) unmodelled *)
From Coq Require Import ZArith List Bool.
From QV Require Import Sx Strs Fl Cell Machine Cpu MachineEntry Layout Fold DbgEval.
Import ListNotations.
Open Scope Z_scope.

Fixpoint ty_sx (fuel : nat) (x : sx) : option ty :=
  match fuel with
  | O => None
  | S f =>
    match x with
    | SL [SZ 1; SZ k] => Some (TBuiltin k)
    | SL [SZ 2; n] => option_map TRecord (get_str n)
    | SL [SZ 3; SL bs; e] =>
      match map_opt (fun b => match b with SL [SZ lb; SZ ub] => Some (lb, ub) | _ => None end) bs,
            ty_sx f e with
      | Some bs', Some e' => Some (TArray bs' e')
      | _, _ => None
      end
    | SL [SZ 4; e] => option_map TDynArray (ty_sx f e)
    | _ => None
    end
  end.

Definition decl_sx (x : sx) : option (str * ty) :=
  match x with
  | SL [n; t] => match get_str n, ty_sx 8 t with
                 | Some n', Some t' => Some (n', t')
                 | _, _ => None
                 end
  | _ => None
  end.

Definition decls_sx (x : sx) : option decls :=
  match x with SL l => map_opt decl_sx l | _ => None end.

Definition env_sx (x : sx) : option renv :=
  match x with
  | SL l => map_opt (fun r => match r with
                              | SL [n; fs] => match get_str n, decls_sx fs with
                                              | Some n', Some fs' => Some (n', fs')
                                              | _, _ => None
                                              end
                              | _ => None
                              end) l
  | _ => None
  end.

Definition pyval_sx (x : sx) : option pyval :=
  match x with
  | SL [SZ 1; SZ z] => Some (PInt z)
  | SL [SZ 2; SZ b] => Some (PFlt (fl_of_bits b))
  | SL [SZ 3; t] => option_map PStrV (get_str t)
  | _ => None
  end.

Definition sx_pyval (v : pyval) : sx :=
  match v with
  | PInt z => SL [SZ 1; SZ z]
  | PFlt f => SL [SZ 2; SZ (bits_of_fl f)]
  | PStrV t => SL [SZ 3; sx_str t]
  end.

Definition consts_sx (x : sx) : option (list (str * option pyval)) :=
  match x with
  | SL l => map_opt (fun c => match c with
                              | SL [n; SL []] => option_map (fun n' => (n', None)) (get_str n)
                              | SL [n; SL [v]] =>
                                match get_str n, pyval_sx v with
                                | Some n', Some v' => Some (n', Some v')
                                | _, _ => None
                                end
                              | _ => None
                              end) l
  | _ => None
  end.

Definition routine_sx (x : sx) : option routine :=
  match x with
  | SL [SZ a; SZ b; ps; ls; cs] =>
    match decls_sx ps, decls_sx ls, consts_sx cs with
    | Some ps', Some ls', Some cs' => Some (mkRoutine a b ps' ls' cs')
    | _, _, _ => None
    end
  | _ => None
  end.

Definition di_sx (x : sx) : option dbginfo :=
  match x with
  | SL [e; gs; gc; mn; SL rs] =>
    match env_sx e, decls_sx gs, consts_sx gc, routine_sx mn, map_opt routine_sx rs with
    | Some e', Some gs', Some gc', Some mn', Some rs' => Some (mkDI e' gs' gc' mn' rs')
    | _, _, _, _, _ => None
    end
  | _ => None
  end.

Definition binop_z (z : Z) : option binop :=
  if z =? 1 then Some OAdd else if z =? 2 then Some OSub else if z =? 3 then Some OMul
  else if z =? 4 then Some ODiv else if z =? 5 then Some OMod else if z =? 6 then Some OIntdiv
  else if z =? 7 then Some OExp else if z =? 8 then Some OEq else if z =? 9 then Some ONe
  else if z =? 10 then Some OLt else if z =? 11 then Some OGt else if z =? 12 then Some OLe
  else if z =? 13 then Some OGe else if z =? 17 then Some OAnd else if z =? 18 then Some OOr
  else if z =? 19 then Some OXor else if z =? 20 then Some OEqv else if z =? 21 then Some OImp
  else None.

Definition unop_z (z : Z) : option unop :=
  if z =? 14 then Some UNeg else if z =? 15 then Some UPlus else if z =? 16 then Some UNot else None.

Fixpoint expr_sx (fuel : nat) (x : sx) : option dexpr :=
  match fuel with
  | O => None
  | S f =>
    match x with
    | SL [SZ 1; SZ ty; v] => option_map (ENum ty) (pyval_sx v)
    | SL [SZ 2; t] => option_map EStr (get_str t)
    | SL [SZ 3; n; SL idx; SL path] =>
      match get_str n, map_opt (expr_sx f) idx, map_opt get_str path with
      | Some n', Some idx', Some path' => Some (ELv n' idx' path')
      | _, _, _ => None
      end
    | SL [SZ 4; SZ op; l; r] =>
      match binop_z op, expr_sx f l, expr_sx f r with
      | Some op', Some l', Some r' => Some (EBin op' l' r')
      | _, _, _ => None
      end
    | SL [SZ 5; SZ op; a] =>
      match unop_z op, expr_sx f a with
      | Some op', Some a' => Some (EUn op' a')
      | _, _ => None
      end
    | SL [SZ 6; a] => option_map EParen (expr_sx f a)
    | _ => None
    end
  end.

(* only the heap and the current frame are read by the evaluator *)
Definition mem_state (h : list seg) (c : option Z) : st :=
  mkSt 0 0 [] h c false H_NONE None true TNone false 0 false 0 0 None empty_script [].

Definition state_sx (x : sx) : option st :=
  match x with
  | SL [SL hp; SZ c] =>
    match map_opt seg_sx hp with
    | Some h => Some (mem_state h (if c <? 0 then None else Some c))
    | None => None
    end
  | _ => None
  end.

Definition sx_dres (r : dres) : sx :=
  match r with
  | DVal v => SL [SZ 0; sx_pyval v]
  | DAgg => SL [SZ 1]
  | DEvalError => SL [SZ 2]
  | DCrash k => SL [SZ 3; SZ k]
  | DUnmodelled => SL [SZ 4]
  end.

Definition dbgeval_entry (x : sx) : sx :=
  match x with
  | SL [SZ 1; d; s; SL es] =>
    match di_sx d, state_sx s, map_opt (expr_sx 40) es with
    | Some d', Some s', Some es' => SL (map (fun e => sx_dres (dbg_print d' s' e)) es')
    | _, _, _ => sx_bad
    end
  | _ => sx_bad
  end.
