(* Constant folder of the compiler (qbee/expr.py: Type.coerce, NumericLiteral,
   BinaryOp.type/eval/_eval_numeric/_eval_string, UnaryOp.type/eval, Expr.fold)
   and the code the generator emits for the same constant expression
   (qbee/qvm_codegen.py: gen_num_literal, gen_str_literal, gen_paren,
   gen_binary_op, gen_unary_op, gen_code_for_conv, QvmInstr.final and the
   operand packing of QvmCode.assembled), run on the machine model (Cpu.exec).
   Faithful to the code as it is, including its defects; [fold_fixed] is the
   folder after fixes/C02-fold.diff.  No proofs in this file. *)
From Coq Require Import ZArith List Bool Lia.
From QV Require Import Sx Strs Fl Dec NumFmt Cell Machine Cpu.
Import ListNotations.
Open Scope Z_scope.

(* ---------- syntax ---------- *)

Inductive binop :=
| OAdd | OSub | OMul | ODiv | OMod | OIntdiv | OExp
| OEq | ONe | OLt | OGt | OLe | OGe
| OAnd | OOr | OXor | OEqv | OImp.

Inductive unop := UNeg | UPlus | UNot.

(* types: 1 INTEGER, 2 LONG, 3 SINGLE, 4 DOUBLE, 5 STRING, 0 UNKNOWN *)
Definition TU : Z := 0.

Inductive cexpr :=
| CNum (ty : Z) (v : pyval)
| CStrLit (s : str)
| CBin (op : binop) (l r : cexpr)
| CUn (op : unop) (a : cexpr)
| CParen (e : cexpr).

Definition is_num (ty : Z) : bool := (1 <=? ty) && (ty <=? 4).
Definition is_integral_ty (ty : Z) : bool := (ty =? 1) || (ty =? 2).

Definition is_logical (op : binop) : bool :=
  match op with OAnd | OOr | OXor | OEqv | OImp => true | _ => false end.
Definition is_cmp (op : binop) : bool :=
  match op with OEq | ONe | OLt | OGt | OLe | OGe => true | _ => false end.
Definition is_add (op : binop) : bool := match op with OAdd => true | _ => false end.
Definition is_div (op : binop) : bool := match op with ODiv => true | _ => false end.
Definition is_mod (op : binop) : bool := match op with OMod => true | _ => false end.
Definition is_intdiv (op : binop) : bool := match op with OIntdiv => true | _ => false end.

(* BinaryOp.type.  Type.__eq__ is False whenever UNKNOWN is involved, so the
   "== Type.UNKNOWN" tests of the Python never fire; [=? 5] on TU is false and
   [negb (=? 5)] is true exactly as Python's == / != on an UNKNOWN type. *)
Definition join_type (op : binop) (lt rt : Z) : Z :=
  if (lt =? 4) || (rt =? 4) then 4
  else if (lt =? 3) || (rt =? 3) then 3
  else if (lt =? 2) || (rt =? 2) then (if is_div op then 3 else 2)
  else if (lt =? 1) || (rt =? 1) then (if is_div op then 3 else 1)
  else 5.

Definition bin_type (op : binop) (lt rt : Z) : Z :=
  if is_logical op then
    if negb (is_num lt) || negb (is_num rt) then TU
    else if (lt =? rt) && (rt =? 1) then 1 else 2
  else if is_cmp op then 1
  else if ((lt =? 5) && negb (rt =? 5)) || ((rt =? 5) && negb (lt =? 5)) then TU
  else if (lt =? 5) && (rt =? 5) && negb (is_add op) then TU
  else if is_mod op || is_intdiv op then      (* INTDIV like MOD since the fix commit for D46 *)
    if negb (is_num lt) || negb (is_num rt) then TU
    else if (lt =? 1) && (rt =? 1) then 1 else 2
  else join_type op lt rt.

(* UnaryOp.type *)
Definition un_type (op : unop) (aty : Z) : Z :=
  match op with
  | UNot => if aty =? 1 then 1 else 2
  | _ => aty
  end.

Fixpoint static_type (e : cexpr) : Z :=
  match e with
  | CNum ty _ => ty
  | CStrLit _ => 5
  | CBin op l r => bin_type op (static_type l) (static_type r)
  | CUn op a => un_type op (static_type a)
  | CParen a => static_type a
  end.

(* ---------- Python values and exceptions ---------- *)

(* host exceptions escaping the compiler *)
Inductive fkind := KValue | KType | KEval | KStruct | KOverflow | KAssert | KKey | KZeroDiv.

Definition fkind_id (k : fkind) : Z :=
  match k with KValue => 1 | KType => 2 | KEval => 3 | KStruct => 4 | KOverflow => 5
             | KAssert => 6 | KKey => 7 | KZeroDiv => 8 end.

(* result of Expr.eval: a value, a complex number (float ** of a negative base),
   OverflowError / ZeroDivisionError (the two exceptions Expr.fold catches), any
   other exception, or a case this model does not describe *)
Inductive fres :=
| FVal (v : pyval)
| FComplex
| FOverflow
| FZeroDiv
| FCrash (k : fkind)
| FUnmodelled.

Definition ascii (s : str) : bool := forallb (fun c => (0 <=? c) && (c <? 128)) s.

(* float(z): OverflowError when z does not fit a double *)
Definition of_Z_opt (z : Z) : option fl :=
  match of_Z z with FInf _ => None | f => Some f end.

(* Type.coerce(value) *)
Definition coerce (ty : Z) (v : pyval) : fres :=
  if ty =? 3 then
    match v with
    | PInt z =>
      (* struct.pack('>f', int): struct.error both when the int does not fit a
         double ("required argument is not a float") and when it does not fit
         binary32 ("int too large to convert") *)
      match of_Z_opt z with
      | None => FCrash KStruct
      | Some f => match to_single f with Some f' => FVal (PFlt f') | None => FCrash KStruct end
      end
    | PFlt f => match to_single f with Some f' => FVal (PFlt f') | None => FOverflow end
    | PStrV _ => FCrash KStruct
    end
  else if ty =? 4 then
    match v with
    | PInt z => match of_Z_opt z with Some f => FVal (PFlt f) | None => FOverflow end
    | PFlt f => FVal v
    | PStrV s => if negb (ascii s) then FUnmodelled else
                 match py_float s with Some f => FVal (PFlt f) | None => FCrash KValue end
    end
  else if (ty =? 1) || (ty =? 2) then
    match v with
    | PInt z => FVal v
    | PFlt f =>
      match f with
      | FNaN => FCrash KValue
      | FInf _ => FOverflow
      | _ => match fround f with Some z => FVal (PInt z) | None => FUnmodelled end
      end
    | PStrV s => if negb (ascii s) then FUnmodelled else
                 match py_int s with Some z => FVal (PInt z) | None => FCrash KValue end
    end
  else FCrash KValue.                      (* py_type of UNKNOWN *)

Definition coerce_res (ty : Z) (r : fres) : fres :=
  match r with
  | FVal v => coerce ty v
  | FComplex => FCrash (if ty =? 3 then KStruct else KType)
  | _ => r
  end.

(* Type.py_type(value): what NumericLiteral.__init__ / .eval do (int() truncates) *)
Definition py_type_conv (ty : Z) (v : pyval) : fres :=
  if (ty =? 1) || (ty =? 2) then
    match v with
    | PInt z => FVal v
    | PFlt f =>
      match f with
      | FNaN => FCrash KValue
      | FInf _ => FCrash KOverflow
      | _ => match ftrunc f with Some z => FVal (PInt z) | None => FUnmodelled end
      end
    | PStrV s => if negb (ascii s) then FUnmodelled else
                 match py_int s with Some z => FVal (PInt z) | None => FCrash KValue end
    end
  else if (ty =? 3) || (ty =? 4) then
    match v with
    | PInt z => match of_Z_opt z with Some f => FVal (PFlt f) | None => FCrash KOverflow end
    | PFlt f => FVal v
    | PStrV s => if negb (ascii s) then FUnmodelled else
                 match py_float s with Some f => FVal (PFlt f) | None => FCrash KValue end
    end
  else FCrash KValue.

Definition qbool (b : bool) : Z := if b then -1 else 0.

(* ctypes integer wrap-around to [bits] bits, two's complement *)
Definition wrap (bits x : Z) : Z :=
  (x + 2 ^ (bits - 1)) mod 2 ^ bits - 2 ^ (bits - 1).

(* the nested function limit(x) of _eval_numeric; [lty] = static type of the
   LEFT operand, [T] = type of the node.  c_long is 64 bits wide. *)
Definition limit (lty T : Z) (r : fres) : fres :=
  if negb (is_integral_ty lty) then r else
  match r with
  | FVal (PInt x) =>
    if T =? 1 then (if wrap 16 x =? x then r else FOverflow)
    else if T =? 2 then (if wrap 64 x =? x then r else FOverflow)
    else FUnmodelled
  | FVal (PFlt f) =>
    if (T =? 1) || (T =? 2) then FCrash KType        (* c_short(0.5) *)
    else if T =? 3 then
      match f with
      | FNaN => FOverflow
      | _ => match fcmp (c_float f) f with Some Eq => r | _ => FOverflow end
      end
    else if T =? 4 then (if is_nan f then FOverflow else r)
    else FUnmodelled
  | FVal (PStrV _) => FUnmodelled
  | FComplex => FCrash KType
  | _ => r
  end.

(* Python float // on finite / infinite operands, divisor non-zero (see
   floatobject.c float_floor_div); None = quotient too large to be described
   by "exact floor, exactly representable" *)
Definition ffloordiv (x y : fl) : option fl :=
  match x, y with
  | FNaN, _ | _, FNaN => Some FNaN
  | FInf _, _ => Some FNaN
  | FFin n m e, FInf b =>
    if m <=? 0 then Some (fzero (xorb n b))
    else if Bool.eqb n b then Some (fzero false) else Some (FFin true 1 0)
  | FFin n1 m1 e1, FFin n2 m2 e2 =>
    if m1 <=? 0 then Some (fzero (xorb n1 n2))
    else
      let e := Z.min e1 e2 in
      let a := smant n1 (Z.shiftl m1 (e1 - e)) in
      let b := smant n2 (Z.shiftl m2 (e2 - e)) in
      let q := a / b in
      if q =? 0 then Some (fzero false)
      else if Z.abs q <? 2 ^ 50 then Some (of_Z q) else None
  end.

(* Python int ** int *)
Definition int_pow (x y : Z) : fres :=
  if y <? 0 then
    if x =? 0 then FZeroDiv
    else FVal (PFlt f_one)                  (* some float: only its type matters to the caller *)
  else if x =? 0 then FVal (PInt (if y =? 0 then 1 else 0))
  else if x =? 1 then FVal (PInt 1)
  else if x =? -1 then FVal (PInt (if Z.odd y then -1 else 1))
  else if 64 <=? y then FVal (PInt (2 ^ 64 * (if (x <? 0) && Z.odd y then -1 else 1)))  (* |x| >= 2: stands for a value of magnitude >= 2^64 *)
  else FVal (PInt (x ^ y)).

Definition cmp_int (op : binop) (x y : Z) : Z :=
  match op with
  | OEq => qbool (x =? y) | ONe => qbool (negb (x =? y))
  | OLt => qbool (x <? y) | OGt => qbool (x >? y)
  | OLe => qbool (x <=? y) | OGe => qbool (x >=? y)
  | _ => 0
  end.

Definition cmp_flt (op : binop) (x y : fl) : Z :=
  match op with
  | OEq => qbool (feqb x y) | ONe => qbool (negb (feqb x y))
  | OLt => qbool (fltb x y) | OGt => qbool (fltb y x)
  | OLe => qbool (fleb x y) | OGe => qbool (fleb y x)
  | _ => 0
  end.

(* the operator table of _eval_numeric applied to the coerced operands *)
Definition num_op (op : binop) (lty T : Z) (a b : pyval) : fres :=
  match a, b with
  | PInt x, PInt y =>
    match op with
    | OEq | ONe | OLt | OGt | OLe | OGe => FVal (PInt (cmp_int op x y))
    | OAnd => limit lty T (FVal (PInt (Z.land x y)))
    | OOr => limit lty T (FVal (PInt (Z.lor x y)))
    | OXor => limit lty T (FVal (PInt (Z.lxor x y)))
    | OEqv => limit lty T (FVal (PInt (Z.lnot (Z.lxor x y))))
    | OImp => limit lty T (FVal (PInt (Z.lor (Z.lnot x) y)))
    | OAdd => limit lty T (FVal (PInt (x + y)))
    | OSub => limit lty T (FVal (PInt (x - y)))
    | OMul => limit lty T (FVal (PInt (x * y)))
    | ODiv => FUnmodelled                  (* never: DIV is typed SINGLE/DOUBLE *)
    | OMod => if y =? 0 then FZeroDiv else limit lty T (FVal (PInt (x mod y)))
    | OIntdiv => if y =? 0 then FZeroDiv else limit lty T (FVal (PInt (x / y)))
    | OExp => limit lty T (int_pow x y)
    end
  | PFlt x, PFlt y =>
    match op with
    | OEq | ONe | OLt | OGt | OLe | OGe => FVal (PInt (cmp_flt op x y))
    | OAnd | OOr | OXor | OEqv | OImp => FCrash KType
    | OAdd => limit lty T (FVal (PFlt (fadd x y)))
    | OSub => limit lty T (FVal (PFlt (fsub x y)))
    | OMul => limit lty T (FVal (PFlt (fmul x y)))
    | ODiv => if is_zero y then FZeroDiv else limit lty T (FVal (PFlt (fdiv x y)))
    | OMod => FUnmodelled                  (* never: MOD is typed INTEGER/LONG *)
    | OIntdiv =>
      if is_zero y then FZeroDiv
      else match ffloordiv x y with
           | Some q => limit lty T (FVal (PFlt q))
           | None => FUnmodelled
           end
    | OExp =>
      match py_pow a b with
      | PowV v => limit lty T (FVal v)
      | PowZeroDiv => FZeroDiv
      | PowOverflow => FOverflow
      | PowComplex => limit lty T FComplex
      | PowUnknown => FUnmodelled
      end
    end
  | _, _ => FUnmodelled
  end.

(* UnaryOp.eval after the operand type check *)
Definition un_eval (op : unop) (aty : Z) (r : fres) : fres :=
  match r with
  | FVal v =>
    let r1 :=
      match op, v with
      | _, PStrV _ => FCrash KType
      | UNot, PInt z => FVal (PInt (Z.lnot z))
      | UNot, PFlt f =>
        match f with
        | FNaN => FCrash KValue
        | FInf _ => FOverflow
        | _ => match fround f with Some z => FVal (PInt (Z.lnot z)) | None => FUnmodelled end
        end
      | UNeg, PInt z => FVal (PInt (- z))
      | UNeg, PFlt f => FVal (PFlt (fneg f))
      | UPlus, _ => FVal v
      end in
    let hi := if aty =? 1 then 32767 else 2147483647 in
    let lo := if aty =? 1 then -32768 else -2147483648 in
    match r1 with
    | FVal (PInt z) => if (z >? hi) || (z <? lo) then FVal (PInt lo) else r1
    | FVal (PFlt f) => if fltb (of_Z hi) f || fltb f (of_Z lo) then FVal (PInt lo) else r1
    | _ => r1
    end
  | FComplex => FCrash KType
  | _ => r
  end.

Definition fbind (r : fres) (k : pyval -> fres) : fres :=
  match r with FVal v => k v | _ => r end.

(* Expr.eval *)
Fixpoint fold_eval (e : cexpr) : fres :=
  match e with
  | CNum ty v => py_type_conv ty v
  | CStrLit s => FVal (PStrV s)
  | CParen a => fold_eval a
  | CUn op a =>
    if negb (is_num (static_type a)) then FCrash KEval
    else un_eval op (static_type a) (fold_eval a)
  | CBin op l r =>
    let lt := static_type l in
    let rt := static_type r in
    if is_num lt && is_num rt then
      let T := bin_type op lt rt in
      fbind (coerce_res T (fold_eval l)) (fun a =>
      fbind (coerce_res T (fold_eval r)) (fun b =>
      num_op op lt T a b))
    else if (lt =? 5) && (rt =? 5) then
      (* _eval_string: concatenation whatever the operator *)
      match fold_eval l with
      | FVal (PStrV a) =>
        match fold_eval r with
        | FVal (PStrV b) => FVal (PStrV (a ++ b))
        | FVal _ => FCrash KType
        | x => x
        end
      | FVal _ => FCrash KType
      | x => x
      end
    else FCrash KEval
  end.

Inductive foldres :=
| Folded (ty : Z) (v : pyval)
| NotFolded
| CompilerCrash (k : fkind)
| FoldUnmodelled.

(* Expr.fold on a constant expression *)
Definition fold (e : cexpr) : foldres :=
  match fold_eval e with
  | FVal v =>
    let ty := static_type e in
    if is_num ty then
      match py_type_conv ty v with
      | FVal v' => Folded ty v'
      | FCrash k => CompilerCrash k
      | _ => FoldUnmodelled
      end
    else Folded 5 v
  | FComplex => CompilerCrash KType
  | FOverflow | FZeroDiv => NotFolded
  | FCrash k => CompilerCrash k
  | FUnmodelled => FoldUnmodelled
  end.

(* ArrayDimRange.static_lbound/ubound: int(round(expr.eval())) *)
Inductive boundres := BVal (z : Z) | BCrash (k : fkind) | BUnmodelled.
Definition static_bound (e : cexpr) : boundres :=
  match fold_eval e with
  | FVal (PInt z) => BVal z
  | FVal (PFlt f) =>
    match f with
    | FNaN => BCrash KValue
    | FInf _ => BCrash KOverflow
    | _ => match fround f with Some z => BVal z | None => BUnmodelled end
    end
  | FVal (PStrV _) => BCrash KType
  | FComplex => BCrash KType
  | FOverflow => BCrash KOverflow
  | FZeroDiv => BCrash KZeroDiv
  | FCrash k => BCrash k
  | FUnmodelled => BUnmodelled
  end.

(* ---------- code generation for a constant expression ---------- *)

(* the checks of Pass2 (process_binary_op_pre / process_unary_op_pre) plus the
   absence of UNKNOWN-typed nodes, which every statement that can hold an
   expression rejects: the expressions that reach the code generator *)
Fixpoint type_ok (e : cexpr) : bool :=
  match e with
  | CNum ty _ => is_num ty
  | CStrLit _ => true
  | CParen a => type_ok a
  | CUn _ a => type_ok a && is_num (static_type a)
  | CBin op l r =>
    type_ok l && type_ok r &&
    let lt := static_type l in let rt := static_type r in
    ((is_num lt && is_num rt) || ((lt =? 5) && (rt =? 5) && (is_cmp op || is_add op)))
  end.

(* QvmInstr.final: value in (-2, -1, 0, 1, 2) -> push2 .. pushm2.  Python's
   "in" compares numerically (1.0 == 1, -0.0 == 0); on canonical floats - the
   only ones that cross the harness boundary (fl_of_bits) or result from Fl
   operations on canonical inputs - that is the structural test below. *)
Definition small_const (v : pyval) : option Z :=
  match v with
  | PInt z => if (-2 <=? z) && (z <=? 2) then Some z else None
  | PFlt (FFin _ 0 0) => Some 0
  | PFlt (FFin false 1 0) => Some 1
  | PFlt (FFin true 1 0) => Some (-1)
  | PFlt (FFin false 1 1) => Some 2
  | PFlt (FFin true 1 1) => Some (-2)
  | _ => None
  end.

Inductive cgres := CgOk (l : list instr) | CgCrash (k : fkind) | CgIllTyped | CgUnmodelled.

(* the assembled push of a numeric literal of type ty holding the (already
   py_type-converted) value v.  push! carries the literal's double; it is
   rounded to binary32 when the instruction is loaded (struct.pack('>f') in the
   assembler = the to_single of Cpu.exec's push 3), after the assembler's
   OverflowError check made here. *)
Definition push_lit (ty : Z) (v : pyval) : cgres :=
  match small_const v with
  | Some c => CgOk [IPushC ty c]
  | None =>
    match ty, v with
    | 1, PInt z => if in_int z then CgOk [IPushI z] else CgCrash KStruct
    | 2, PInt z => if in_long z then CgOk [IPushL z] else CgCrash KStruct
    | 3, PFlt f => match to_single f with Some _ => CgOk [IPushS f] | None => CgCrash KOverflow end
    | 4, PFlt f => CgOk [IPushD f]
    | _, _ => CgUnmodelled
    end
  end.

Fixpoint str_index (s : str) (l : list str) (i : Z) : option Z :=
  match l with
  | [] => None
  | x :: r => if str_eqb x s then Some i else str_index s r (i + 1)
  end.

(* QvmCode.add_string_literal over the expression, in generation order *)
Fixpoint lits_of (e : cexpr) (acc : list str) : list str :=
  match e with
  | CNum _ _ => acc
  | CStrLit s => match str_index s acc 0 with Some _ => acc | None => acc ++ [s] end
  | CBin _ l r => lits_of r (lits_of l acc)
  | CUn _ a => lits_of a acc
  | CParen a => lits_of a acc
  end.

Definition conv_code (from to : Z) : list instr :=
  if from =? to then [] else [IConv from to].

Definition cmp_operand_type (lt rt : Z) : Z :=
  if (lt =? 5) && (rt =? 5) then 5
  else if (lt =? 4) || (rt =? 4) then 4
  else if (lt =? 3) || (rt =? 3) then 3
  else if (lt =? 2) || (rt =? 2) then 2 else 1.

(* operand type chosen by gen_binary_op *)
Definition operand_type (op : binop) (lt rt : Z) : Z :=
  if is_cmp op then cmp_operand_type lt rt
  else if is_mod op || is_logical op || is_intdiv op then
    (if bin_type op lt rt =? 1 then 1 else 2)
  else bin_type op lt rt.

Definition op_code (op : binop) : list instr :=
  match op with
  | OAdd => [IAdd] | OSub => [ISub] | OMul => [IMul] | ODiv => [IDiv] | OMod => [IMod]
  | OIntdiv => [IIdiv] | OExp => [IExp]
  | OEq => [ICmp; IEq] | ONe => [ICmp; INe] | OLt => [ICmp; ILt] | OGt => [ICmp; IGt]
  | OLe => [ICmp; ILe] | OGe => [ICmp; IGe]
  | OAnd => [IAnd] | OOr => [IOr] | OXor => [IXor] | OEqv => [IEqv] | OImp => [IImp]
  end.

Definition cg_app (a : cgres) (k : list instr -> cgres) : cgres :=
  match a with CgOk l => k l | _ => a end.

Fixpoint cg (lits : list str) (e : cexpr) : cgres :=
  match e with
  | CNum ty v =>
    match py_type_conv ty v with
    | FVal v' => push_lit ty v'
    | _ => CgUnmodelled
    end
  | CStrLit s =>
    match str_index s lits 0 with
    | Some i => CgOk [IPushStr i]
    | None => CgCrash KValue
    end
  | CParen a => cg lits a
  | CUn op a =>
    cg_app (cg lits a) (fun la =>
    match op with
    | UNeg => CgOk (la ++ [INeg])
    | UPlus => CgOk la
    | UNot =>
      let aty := static_type a in
      CgOk (la ++ conv_code aty (if aty =? 1 then 1 else 2) ++ [INot])
    end)
  | CBin op l r =>
    let lt := static_type l in let rt := static_type r in
    let ot := operand_type op lt rt in
    cg_app (cg lits l) (fun ll =>
    cg_app (cg lits r) (fun lr =>
    CgOk (ll ++ conv_code lt ot ++ lr ++ conv_code rt ot ++ op_code op)))
  end.

Definition cg_expr (e : cexpr) : cgres :=
  if type_ok e then cg (lits_of e []) e else CgIllTyped.

(* ---------- run-time evaluation of the generated code ---------- *)

Fixpoint run_instrs (m : module) (l : list instr) : M unit :=
  match l with
  | [] => ret tt
  | i :: r => exec m i ;; run_instrs m r
  end.

Definition expr_module (lits : list str) : module := mkModule [] lits [] 0 None.
Definition empty_script : script := mkScript [] [] [] [].

Inductive rres :=
| RVal (c : cell)
| RTrap (code : Z)
| RCrash (k : crash)
| RAsmCrash (k : fkind)       (* the literal cannot be assembled: compile failure at every level *)
| RIllTyped
| RBadStack
| RUnmodelled.

Definition rt_eval (e : cexpr) : rres :=
  match cg_expr e with
  | CgOk l =>
    let m := expr_module (lits_of e []) in
    match run_instrs m l (init_state m empty_script) with
    | R _ s => match stack s with [c] => RVal c | _ => RBadStack end
    | T code _ _ => RTrap code
    | ZD _ => RTrap T_DIVISION_BY_ZERO
    | X CrPowUnknown _ => RUnmodelled
    | X k _ => RCrash k
    | NI _ => RBadStack
    end
  | CgCrash k => RAsmCrash k
  | CgIllTyped => RIllTyped
  | CgUnmodelled => RUnmodelled
  end.

(* the cell of type ty holding exactly the Python value v *)
Definition cell_of_val (ty : Z) (v : pyval) : option cell :=
  match ty, v with
  | 1, PInt z => Some (CI z)
  | 2, PInt z => Some (CL z)
  | 3, PFlt f => Some (CS f)
  | 4, PFlt f => Some (CD f)
  | 5, PStrV s => Some (CStr s)
  | _, _ => None
  end.

(* the cell a literal of type ty and value v is loaded as; None = not encodable *)
Definition lit_cell (ty : Z) (v : pyval) : option cell :=
  match ty, v with
  | 1, PInt z => if in_int z then Some (CI z) else None
  | 2, PInt z => if in_long z then Some (CL z) else None
  | 3, PFlt f => match to_single f with Some f' => Some (CS f') | None => None end
  | 4, PFlt f => Some (CD f)
  | 5, PStrV s => Some (CStr s)
  | _, _ => None
  end.

(* run-time conversion of a static bound to LONG (gen_static_array_init) *)
Definition rt_bound (e : cexpr) : rres :=
  match cg_expr e with
  | CgOk l =>
    let m := expr_module (lits_of e []) in
    match run_instrs m (l ++ conv_code (static_type e) 2) (init_state m empty_script) with
    | R _ s => match stack s with [c] => RVal c | _ => RBadStack end
    | T code _ _ => RTrap code
    | ZD _ => RTrap T_DIVISION_BY_ZERO
    | X CrPowUnknown _ => RUnmodelled
    | X k _ => RCrash k
    | NI _ => RBadStack
    end
  | CgCrash k => RAsmCrash k
  | CgIllTyped => RIllTyped
  | CgUnmodelled => RUnmodelled
  end.

(* ---------- the folder after fixes/C02-fold.diff ---------- *)

(* Type.checked(value) = the value a cell of that type holds after the store
   (can_hold + coerce), None = the machine traps or the host raises *)
Definition checked (ty : Z) (v : pyval) : option pyval :=
  match ty, v with
  | 1, PInt z => if in_int z then Some v else None
  | 2, PInt z => if in_long z then Some v else None
  | 1, PFlt f =>
    match fcmp (of_Z (-32768)) f, fcmp f (of_Z 32767) with
    | Some (Lt | Eq), Some (Lt | Eq) => option_map PInt (fround f)
    | _, _ => None
    end
  | 2, PFlt f =>
    match fcmp (of_Z (-2147483648)) f, fcmp f (of_Z 2147483648) with
    | Some (Lt | Eq), Some Lt => option_map PInt (fround f)
    | _, _ => None
    end
  | 3, PInt z => option_map PFlt (to_single (of_Z z))
  | 3, PFlt f => option_map PFlt (to_single f)
  | 4, PInt z => Some (PFlt (of_Z z))
  | 4, PFlt f => Some v
  | 5, PStrV s => Some v
  | _, _ => None
  end.

(* BinaryOp.type after the fix: \ is typed like MOD *)
Definition bin_type_fixed (op : binop) (lt rt : Z) : Z :=
  if is_intdiv op then bin_type OMod lt rt else bin_type op lt rt.

Fixpoint static_type_fixed (e : cexpr) : Z :=
  match e with
  | CNum ty _ => ty
  | CStrLit _ => 5
  | CBin op l r => bin_type_fixed op (static_type_fixed l) (static_type_fixed r)
  | CUn op a => un_type op (static_type_fixed a)
  | CParen a => static_type_fixed a
  end.

Definition operand_type_fixed (op : binop) (lt rt : Z) : Z :=
  if is_cmp op then cmp_operand_type lt rt else bin_type_fixed op lt rt.

(* three-way comparison of cpu._exec_cmp *)
Definition cmp3 (a b : pyval) : option Z :=
  match a, b with
  | PInt x, PInt y => Some (match x ?= y with Eq => 0 | Lt => -1 | Gt => 1 end)
  | PFlt x, PFlt y => Some (match fcmp x y with Some Eq => 0 | Some Lt => -1 | _ => 1 end)
  | PStrV x, PStrV y => cmp_vals (CStr x) (CStr y)
  | _, _ => None
  end.

Definition cmp_test (op : binop) (c : Z) : Z :=
  match op with
  | OEq => qbool (c =? 0) | ONe => qbool (negb (c =? 0))
  | OLt => qbool (c <? 0) | OGt => qbool (c >? 0)
  | OLe => qbool (c <=? 0) | OGe => qbool (c >=? 0)
  | _ => 0
  end.

(* the raw Python result of the operator on two operands of the operand type;
   None = an exception (the folder refuses) or not modelled (second component) *)
Inductive raw := RawV (v : pyval) | RawRefuse | RawUnmodelled.

Definition raw_op (op : binop) (a b : pyval) : raw :=
  if is_cmp op then
    match cmp3 a b with Some c => RawV (PInt (cmp_test op c)) | None => RawRefuse end
  else
  match a, b with
  | PInt x, PInt y =>
    match op with
    | OAnd => RawV (PInt (Z.land x y)) | OOr => RawV (PInt (Z.lor x y))
    | OXor => RawV (PInt (Z.lxor x y)) | OEqv => RawV (PInt (Z.lnot (Z.lxor x y)))
    | OImp => RawV (PInt (Z.lor (Z.lnot x) y))
    | OAdd => RawV (PInt (x + y)) | OSub => RawV (PInt (x - y)) | OMul => RawV (PInt (x * y))
    | OMod => if y =? 0 then RawRefuse else RawV (PInt (x mod y))
    | OIntdiv => if y =? 0 then RawRefuse else RawV (PInt (x / y))
    | OExp =>
      match py_pow a b with
      | PowV v => RawV v
      | PowUnknown => RawUnmodelled
      | _ => RawRefuse
      end
    | _ => RawRefuse
    end
  | PFlt x, PFlt y =>
    match op with
    | OAdd => RawV (PFlt (fadd x y)) | OSub => RawV (PFlt (fsub x y))
    | OMul => RawV (PFlt (fmul x y))
    | ODiv => if is_zero y then RawRefuse else RawV (PFlt (fdiv x y))
    | OExp =>
      match py_pow a b with
      | PowV v => RawV v
      | PowUnknown => RawUnmodelled
      | _ => RawRefuse
      end
    | _ => RawRefuse
    end
  | PStrV x, PStrV y =>
    match op with OAdd => RawV (PStrV (x ++ y)) | _ => RawRefuse end
  | _, _ => RawRefuse
  end.

Inductive fxres := FxV (v : pyval) | FxRefuse | FxUnmodelled.

Definition fx_checked (ty : Z) (v : pyval) : fxres :=
  match checked ty v with Some v' => FxV v' | None => FxRefuse end.

Definition fx_bind (r : fxres) (k : pyval -> fxres) : fxres :=
  match r with FxV v => k v | _ => r end.

(* Type.converted(value): what the conv instruction does at run time (nothing
   when the types are equal, as gen_code_for_conv emits nothing) *)
Definition conv_fixed (from to : Z) (v : pyval) : fxres :=
  if from =? to then FxV v else
  match v with
  | PInt z => fx_checked to (if (to =? 3) || (to =? 4) then PFlt (of_Z z) else v)
  | PFlt f =>
    if (to =? 1) || (to =? 2) then
      match f with
      | FNaN | FInf _ => FxRefuse
      | _ => match fround f with Some z => fx_checked to (PInt z) | None => FxRefuse end
      end
    else fx_checked to v
  | PStrV _ => FxRefuse
  end.

(* Expr.eval after the fix: the value of the run-time cell, or a refusal *)
Fixpoint eval_fixed (e : cexpr) : fxres :=
  match e with
  | CNum ty v =>
    match py_type_conv ty v with
    | FVal v' => if is_num ty then fx_checked ty v' else FxRefuse   (* NumericLiteral.eval: Type.stored(value) *)
    | _ => FxRefuse
    end
  | CStrLit s => FxV (PStrV s)
  | CParen a => eval_fixed a
  | CUn op a =>
    let aty := static_type_fixed a in
    if negb (is_num aty) then FxRefuse else
    fx_bind (eval_fixed a) (fun v =>
    match op with
    | UPlus => FxV v
    | UNeg =>
      match v with
      | PInt z => fx_checked aty (PInt (- z))
      | PFlt f => fx_checked aty (PFlt (fneg f))
      | _ => FxRefuse
      end
    | UNot =>
      let rty := if aty =? 1 then 1 else 2 in
      fx_bind (conv_fixed aty rty v) (fun w =>
      match w with PInt z => fx_checked rty (PInt (Z.lnot z)) | _ => FxRefuse end)
    end)
  | CBin op l r =>
    let lt := static_type_fixed l in let rt := static_type_fixed r in
    let T := bin_type_fixed op lt rt in
    let ot := operand_type_fixed op lt rt in
    if negb ((is_num lt && is_num rt) || ((lt =? 5) && (rt =? 5) && (is_cmp op || is_add op)))
    then FxRefuse else
    fx_bind (eval_fixed l) (fun lv =>
    fx_bind (conv_fixed lt ot lv) (fun a =>
    fx_bind (eval_fixed r) (fun rv =>
    fx_bind (conv_fixed rt ot rv) (fun b =>
    match raw_op op a b with
    | RawV v => fx_checked T v
    | RawRefuse => FxRefuse
    | RawUnmodelled => FxUnmodelled
    end))))
  end.

Definition fold_fixed (e : cexpr) : foldres :=
  match eval_fixed e with
  | FxV v => Folded (static_type_fixed e) v
  | FxRefuse => NotFolded
  | FxUnmodelled => FoldUnmodelled
  end.

(* code generation after the fix: only the type of \ changed; a literal that
   is negative zero keeps its sign (QvmInstr.final) *)
Definition is_neg_zero (v : pyval) : bool :=
  match v with PFlt (FFin true 0 0) => true | _ => false end.

Definition push_lit_fixed (ty : Z) (v : pyval) : cgres :=
  if is_neg_zero v then
    match ty, v with
    | 3, PFlt f => CgOk [IPushS f]
    | 4, PFlt f => CgOk [IPushD f]
    | _, _ => CgUnmodelled
    end
  else push_lit ty v.

Fixpoint type_ok_fixed (e : cexpr) : bool :=
  match e with
  | CNum ty _ => is_num ty
  | CStrLit _ => true
  | CParen a => type_ok_fixed a
  | CUn _ a => type_ok_fixed a && is_num (static_type_fixed a)
  | CBin op l r =>
    type_ok_fixed l && type_ok_fixed r &&
    let lt := static_type_fixed l in let rt := static_type_fixed r in
    ((is_num lt && is_num rt) || ((lt =? 5) && (rt =? 5) && (is_cmp op || is_add op)))
  end.

Fixpoint cg_fixed (lits : list str) (e : cexpr) : cgres :=
  match e with
  | CNum ty v =>
    match py_type_conv ty v with
    | FVal v' => push_lit_fixed ty v'
    | _ => CgUnmodelled
    end
  | CStrLit s =>
    match str_index s lits 0 with
    | Some i => CgOk [IPushStr i]
    | None => CgCrash KValue
    end
  | CParen a => cg_fixed lits a
  | CUn op a =>
    cg_app (cg_fixed lits a) (fun la =>
    match op with
    | UNeg => CgOk (la ++ [INeg])
    | UPlus => CgOk la
    | UNot =>
      let aty := static_type_fixed a in
      CgOk (la ++ conv_code aty (if aty =? 1 then 1 else 2) ++ [INot])
    end)
  | CBin op l r =>
    let lt := static_type_fixed l in let rt := static_type_fixed r in
    let ot := operand_type_fixed op lt rt in
    cg_app (cg_fixed lits l) (fun ll =>
    cg_app (cg_fixed lits r) (fun lr =>
    CgOk (ll ++ conv_code lt ot ++ lr ++ conv_code rt ot ++ op_code op)))
  end.

Definition rt_eval_fixed (e : cexpr) : rres :=
  if negb (type_ok_fixed e) then RIllTyped else
  match cg_fixed (lits_of e []) e with
  | CgOk l =>
    let m := expr_module (lits_of e []) in
    match run_instrs m l (init_state m empty_script) with
    | R _ s => match stack s with [c] => RVal c | _ => RBadStack end
    | T code _ _ => RTrap code
    | ZD _ => RTrap T_DIVISION_BY_ZERO
    | X CrPowUnknown _ => RUnmodelled
    | X k _ => RCrash k
    | NI _ => RBadStack
    end
  | CgCrash k => RAsmCrash k
  | CgIllTyped => RIllTyped
  | CgUnmodelled => RUnmodelled
  end.
