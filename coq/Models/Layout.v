(* Storage layout: qvm/memlayout.py, the array header of qvm/cpu.py
   (Array.__init__, _exec_initarr*, _exec_allocarr) and the element index of
   _exec_arridx, over an abstract declaration language.  Faithful to the code
   including its defects (see get_params_size below).  No proofs in this file.

   Names are strings (code points).  A Python exception (KeyError from a
   dict lookup, ValueError from list.index) is [None]. *)
From Coq Require Import ZArith List Bool.
From QV Require Import Sx Strs.
Import ListNotations.
Open Scope Z_scope.

(* qbee.expr.Type as memlayout sees it *)
Inductive ty :=
| TBuiltin (k : Z)                            (* 1 INTEGER 2 LONG 3 SINGLE 4 DOUBLE 5 STRING *)
| TRecord (name : str)                        (* user defined *)
| TArray (bounds : list (Z * Z)) (elem : ty)  (* is_static_array: constant (lbound, ubound) per dimension;
                                                 elem = array_base_type (a builtin or a record in qbee) *)
| TDynArray (elem : ty).                      (* is_array and not is_static_array (run-time bounds, or a `p()` parameter):
                                                 one reference cell; elem only matters for user_type_name *)

Definition fields := list (str * ty).         (* TypeBlock.fields, declaration order *)

(* compilation.user_types, LATEST definition first.  Pass1 rejects a field
   whose type is not yet defined, so a record only mentions records that
   come later in this list: acyclicity is structural. *)
Definition renv := list (str * fields).

Definition decls := list (str * ty).          (* routine.params / local_vars / global_vars: name -> type, insertion order *)

Fixpoint prod_list (l : list Z) : Z :=
  match l with [] => 1 | x :: r => x * prod_list r end.

Definition dims (bounds : list (Z * Z)) : list Z :=
  map (fun b => snd b - fst b + 1) bounds.

Definition rank (bounds : list (Z * Z)) : Z := Z.of_nat (length bounds).

(* 3 + len(type.array_dims) * 2 : reserved, n_dims, element_size, then (lbound, ubound) per dimension *)
Definition header_size (bounds : list (Z * Z)) : Z := 3 + rank bounds * 2.

Fixpoint sum_opt (l : list (option Z)) : option Z :=
  match l with
  | [] => Some 0
  | Some a :: r => match sum_opt r with Some b => Some (a + b) | None => None end
  | None :: _ => None
  end.

(* get_type_size for a type whose records are resolved by [rs] *)
Fixpoint size_with (rs : str -> option Z) (t : ty) : option Z :=
  match t with
  | TBuiltin _ => Some 1
  | TRecord n => rs n
  | TArray bounds e =>
    match size_with rs e with
    | Some es => Some (prod_list (dims bounds) * es + header_size bounds)
    | None => None
    end
  | TDynArray _ => Some 1
  end.

(* context.user_types[name] then the sum over the fields *)
Fixpoint rec_size (env : renv) (n : str) : option Z :=
  match env with
  | [] => None                                 (* KeyError *)
  | (n', fs) :: env' =>
    if str_eqb n n' then sum_opt (map (fun f => size_with (rec_size env') (snd f)) fs)
    else rec_size env' n
  end.

(* memlayout.get_type_size *)
Definition type_size (env : renv) (t : ty) : option Z := size_with (rec_size env) t.

(* the common loop of get_local_var_idx / get_global_var_idx *)
Fixpoint var_idx_from (env : renv) (ds : decls) (v : str) (idx : Z) : option Z :=
  match ds with
  | [] => None                                 (* KeyError *)
  | (n, t) :: r =>
    if str_eqb v n then Some idx
    else match type_size env t with
         | Some sz => var_idx_from env r v (idx + sz)
         | None => None
         end
  end.

(* memlayout.get_local_var_idx: params first, then local_vars; a parameter is
   counted with get_type_size of its declared type although the frame holds
   ONE reference cell per parameter (defect D14 for record parameters) *)
Definition local_var_idx (env : renv) (params locals : decls) (v : str) : option Z :=
  var_idx_from env (params ++ locals) v 0.

(* memlayout.get_global_var_idx over compilation.global_vars (DIM SHARED
   variables, then - added by QvmCodeGen.init_code - the STATIC variables of
   every routine under Variable.full_name) *)
Definition global_var_idx (env : renv) (globals : decls) (v : str) : option Z :=
  var_idx_from env globals v 0.

Definition sizes_sum (env : renv) (ds : decls) : option Z :=
  sum_opt (map (fun d => type_size env (snd d)) ds).

(* memlayout.get_params_size: the first operand of `frame` = number of cells
   popped from the operand stack.  Faithful: the declared size (D14). *)
Definition params_size (env : renv) (params : decls) : option Z := sizes_sum env params.

(* what the callers push (gen_code_for_args: one value per argument) *)
Definition params_size_fixed (params : decls) : Z := Z.of_nat (length params).

(* memlayout.get_local_vars_size *)
Definition local_vars_size (env : renv) (locals : decls) : option Z := sizes_sum env locals.

Definition frame_size (env : renv) (params locals : decls) : option Z :=
  match params_size env params, local_vars_size env locals with
  | Some a, Some b => Some (a + b)
  | _, _ => None
  end.

(* ---- records ---- *)

(* context.user_types[name]: the fields and the environment its field types live in *)
Fixpoint lookup_rec (env : renv) (n : str) : option (fields * renv) :=
  match env with
  | [] => None
  | (n', fs) :: env' => if str_eqb n n' then Some (fs, env') else lookup_rec env' n
  end.

(* list(struct.fields).index(var), sum of the sizes before it, struct.fields[var] *)
Fixpoint field_offset (env : renv) (fs : fields) (f : str) (acc : Z) : option (Z * ty) :=
  match fs with
  | [] => None                                 (* ValueError *)
  | (n, t) :: r =>
    if str_eqb f n then Some (acc, t)
    else match type_size env t with
         | Some sz => field_offset env r f (acc + sz)
         | None => None
         end
  end.

(* base_type.user_type_name: arrays keep the name of their element type; None for builtins *)
Definition user_type_name (t : ty) : option str :=
  match t with
  | TRecord n => Some n
  | TArray _ (TRecord n) => Some n
  | TDynArray (TRecord n) => Some n
  | _ => None
  end.

(* memlayout.get_dotted_index(base_type, dotted_vars, context): for every
   dotted name, the record of the current base type is looked up, the sizes of
   the fields before the named one are added, and the field's type becomes the
   base type *)
Fixpoint dotted_index (env : renv) (base : ty) (path : list str) : option Z :=
  match path with
  | [] => Some 0
  | f :: rest =>
    match user_type_name base with
    | None => None                             (* user_types[None]: KeyError *)
    | Some n =>
      match lookup_rec env n with
      | None => None
      | Some (fs, env') =>
        match field_offset env' fs f 0 with
        | None => None
        | Some (off, ft) =>
          match dotted_index env' ft rest with
          | Some o => Some (off + o)
          | None => None
          end
        end
      end
    end
  end.

(* ---- arrays ---- *)

(* number of element cells of a static array inside a frame / the globals
   (get_type_size): product of the dimension sizes times the element size *)
Definition array_cells (es : Z) (bounds : list (Z * Z)) : Z := prod_list (dims bounds) * es.

(* Array.__init__ (allocarr): `size *= (ubound - lbound + 1) * element_size`
   for every dimension, i.e. element_size is multiplied in once per dimension:
   rank >= 2 with element_size >= 2 over-allocates (harmless for disjointness;
   see LayoutProofs.heap_array_cells_ge) *)
Definition heap_array_cells (es : Z) (bounds : list (Z * Z)) : Z :=
  fold_left (fun acc b => acc * ((snd b - fst b + 1) * es)) bounds 1.

(* row-major offset of an index tuple (source order) in units of elements;
   None = wrong number of indices or an index outside lbound..ubound
   (INVALID_DIMENSIONS / INDEX_OUT_OF_RANGE trap in _exec_arridx) *)
Fixpoint elem_number (bounds : list (Z * Z)) (idxs : list Z) : option Z :=
  match bounds, idxs with
  | [], [] => Some 0
  | (lb, ub) :: bs, i :: is_ =>
    if (i <? lb) || (i >? ub) then None
    else match elem_number bs is_ with
         | Some r => Some ((i - lb) * prod_list (dims bs) + r)
         | None => None
         end
  | _, _ => None
  end.

(* the cell _exec_arridx returns for an array whose header starts at [base]:
   base + 3 + 2*rank + sum_k (prod_{j>k} dim_j) * element_size * (i_k - lb_k) *)
Definition elem_index (base es : Z) (bounds : list (Z * Z)) (idxs : list Z) : option Z :=
  match elem_number bounds idxs with
  | Some n => Some (base + header_size bounds + n * es)
  | None => None
  end.

(* the literal accumulation of _exec_arridx (second loop), for the tie with Cpu.exec_arridx *)
Fixpoint arridx_acc (es : Z) (idxs : list Z) (bounds : list (Z * Z)) (acc : Z) : Z :=
  match idxs, bounds with
  | i :: l', (lb, _) :: bs' => arridx_acc es l' bs' (acc + prod_list (dims bs') * es * (i - lb))
  | _, _ => acc
  end.

(* ---- STATIC / SHARED names (qbee/evalctx.py Variable.full_name) ---- *)

Definition static_prefix : str := [95; 115; 116; 97; 116; 105; 99; 95].   (* "_static_" *)

Definition static_full_name (routine name : str) : str :=
  static_prefix ++ routine ++ [ch_us] ++ name.

(* QvmCodeGen.init_code: code._globals = global_vars, then for every routine
   (dict order) its static_vars under their full names *)
Definition globals_of (shared : decls) (routines : list (str * decls)) : decls :=
  shared ++ flat_map (fun r => map (fun d => (static_full_name (fst r) (fst d), snd d)) (snd r)) routines.
