(* Abstract stack typing of QVM instructions (the core of the bytecode
   verifier used for C03) and the verifier itself: linear decoding, jump
   targets on instruction boundaries, per-pc stack shapes by a worklist. *)
From Coq Require Import ZArith List Bool Lia.
From QV Require Import Sx Strs Fl Cell Machine Cpu.
Import ListNotations.
Open Scope Z_scope.

Definition tys (l : list cell) : list Z := map cell_ty l.

Definition numeric (t : Z) : bool := (1 <=? t) && (t <=? 4).
Definition integral (t : Z) : bool := (t =? 1) || (t =? 2).

(* abstract effect on the list of cell types (top first) of the instructions
   that only touch the operand stack and the program counter *)
Definition eff (i : instr) (t : list Z) : option (list Z) :=
  match i with
  | IAbs | INeg | ISign =>
    match t with a :: r => if numeric a then Some (a :: r) else None | _ => None end
  | INot =>
    match t with a :: r => if integral a then Some (a :: r) else None | _ => None end
  | IAdd =>
    match t with
    | b :: a :: r => if (a =? b) && (numeric a || (a =? 5)) then Some (a :: r) else None
    | _ => None end
  | ISub | IMul =>
    match t with
    | b :: a :: r => if (a =? b) && numeric a then Some (a :: r) else None
    | _ => None end
  | IDiv =>
    match t with
    | b :: a :: r => if (a =? b) && numeric a then Some ((if integral a then 3 else a) :: r) else None
    | _ => None end
  | IIdiv | IMod | IAnd | IOr | IXor | IEqv | IImp =>
    match t with
    | b :: a :: r => if (a =? b) && integral a then Some (a :: r) else None
    | _ => None end
  | ICmp =>
    match t with
    | b :: a :: r => if (a =? b) && (numeric a || (a =? 5)) then Some (1 :: r) else None
    | _ => None end
  | IEq | INe =>
    match t with a :: r => if a =? 1 then Some (1 :: r) else None | _ => None end
  | IGe | IGt | ILe | ILt =>
    match t with a :: r => if numeric a then Some (1 :: r) else None | _ => None end
  | ICint =>
    match t with a :: r => if numeric a then Some (1 :: r) else None | _ => None end
  | IClng | IInt =>
    match t with a :: r => if numeric a then Some (2 :: r) else None | _ => None end
  | IConv s d =>
    match t with
    | a :: r => if (a =? s) && numeric s && numeric d then Some (d :: r) else None
    | _ => None end
  | IPushI _ => Some (1 :: t)
  | IPushL _ => Some (2 :: t)
  | IPushS _ => Some (3 :: t)
  | IPushD _ => Some (4 :: t)
  | IPushC ty _ => if numeric ty then Some (ty :: t) else None
  | IPop => match t with _ :: r => Some r | _ => None end
  | IDupl => match t with a :: r => Some (a :: a :: r) | _ => None end
  | ISwap => match t with a :: b :: r => Some (b :: a :: r) | _ => None end
  | ISwapprev => match t with a :: p1 :: p2 :: r => Some (a :: p2 :: p1 :: r) | _ => None end
  | IAsc => match t with a :: r => if a =? 5 then Some (1 :: r) else None | _ => None end
  | IChr => match t with a :: r => if a =? 1 then Some (5 :: r) else None | _ => None end
  | ILcase | IUcase | ILtrim | IRtrim =>
    match t with a :: r => if a =? 5 then Some (5 :: r) else None | _ => None end
  | INtos => match t with a :: r => if numeric a then Some (5 :: r) else None | _ => None end
  | ISpace => match t with a :: r => if a =? 1 then Some (5 :: r) else None | _ => None end
  | IStrlen => match t with a :: r => if a =? 5 then Some (2 :: r) else None | _ => None end
  | IStrleft | IStrright =>
    match t with n :: s :: r => if (n =? 1) && (s =? 5) then Some (5 :: r) else None | _ => None end
  | IStrmid =>
    match t with
    | l :: st :: s :: r => if integral l && (st =? 1) && (s =? 5) then Some (5 :: r) else None
    | _ => None end
  | IStrfind =>
    match t with
    | s2 :: s1 :: st :: r => if (s2 =? 5) && (s1 =? 5) && (st =? 2) then Some (2 :: r) else None
    | _ => None end
  | IStrrep =>
    match t with
    | c :: n :: r => if ((c =? 1) || (c =? 5)) && (n =? 1) then Some (5 :: r) else None
    | _ => None end
  | IJz _ => match t with a :: r => if a =? 1 then Some r else None | _ => None end
  | IJmp _ => Some t
  | _ => None
  end.

Definition ok_trap (c : Z) : bool :=
  (c =? T_INVALID_CELL_VALUE) || (c =? T_INVALID_OPERAND_VALUE).

(* after the fixes of D17/D18/D37 no stack instruction can raise a host
   exception from a well-typed stack: the guard is empty *)
Definition crash_guard (i : instr) (stk : list cell) : bool := false.

(* abstract execution of a straight-line block *)
Fixpoint eff_list (l : list instr) (t : list Z) : option (list Z) :=
  match l with
  | [] => Some t
  | i :: r => match eff i t with Some t' => eff_list r t' | None => None end
  end.
