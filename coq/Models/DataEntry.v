(* sx dispatcher for the DATA / READ / RESTORE models and specification.
   jobs
     (1 text)            -> (parse_data  data_stmt  spec)
                            parse_data : (0) | (1 items)
                            data_stmt  : (items? rest)   or (9) when the text has TAB/LF
                            spec       : (items? rest inner_quote lone_quote)
     (4 parts (p i) ops) -> (results (p i))      DataDevice, every op executed
                            op: (1 ty) READ | (2 idx) RESTORE
     (5 evs ops)         -> (model spec fixed parts)   compiled program; parts = data section
                            ev: (0 label) | (1 items) | (2 label-in-sub)
                            op: (0 ty) READ | (1) RESTORE | (1 label) RESTORE label
   item: (0) Empty | (1 str) *)
From Coq Require Import ZArith List Bool.
From QV Require Import Sx Strs Fl NumFmt Cell DataText DataDev DataSpec.
Import ListNotations.
Open Scope Z_scope.

Definition sx_item (it : ditem) : sx :=
  match it with DEmpty => SL [SZ 0] | DItem s => SL [SZ 1; sx_str s] end.

Definition item_sx (x : sx) : option ditem :=
  match x with
  | SL [SZ 0] => Some DEmpty
  | SL [SZ 1; s] => option_map DItem (get_str s)
  | _ => None
  end.

Definition sx_items (l : list ditem) : sx := SL (map sx_item l).

Definition sx_opt_items (o : option (list ditem)) : sx :=
  match o with None => SL [SZ 0] | Some l => SL [SZ 1; sx_items l] end.

Definition sx_rres (r : rres) : sx :=
  match r with
  | RVal c => SL [SZ 0; sx_cell c]
  | RDevErr k => SL [SZ 1; SZ k]
  | RInvalidCell => SL [SZ 2]
  | RAssert => SL [SZ 3]
  end.

Definition sx_ending (e : ending) : sx :=
  match e with EDone => SL [SZ 0] | ETrap r => SL [SZ 1; sx_rres r] end.

Definition sx_pres (p : pres) : sx :=
  match p with
  | PRun vs e => SL [SZ 0; SL (map sx_cell vs); sx_ending e]
  | PCompile CDuplicateLabel => SL [SZ 1; SZ 1]
  | PCompile CLabelNotDefined => SL [SZ 1; SZ 2]
  | PCompile CValueError => SL [SZ 1; SZ 3]
  end.

Definition sx_sres (p : sres) : sx :=
  match p with
  | SRun vs SDone => SL [SZ 0; SL (map sx_cell vs); SZ 0]
  | SRun vs SRuntimeError => SL [SZ 0; SL (map sx_cell vs); SZ 1]
  | SInvalid => SL [SZ 1]
  end.

Definition dop_sx (x : sx) : option dop :=
  match x with
  | SL [SZ 1; SZ ty] => Some (DRead ty)
  | SL [SZ 2; SZ i] => Some (DRestore i)
  | _ => None
  end.

Definition part_sx (x : sx) : option (list ditem) :=
  match x with SL l => map_opt item_sx l | _ => None end.

Definition ev_sx (x : sx) : option ev :=
  match x with
  | SL [SZ 0; l] => option_map ELabel (get_str l)
  | SL [SZ 1; SL its] => option_map EData (map_opt item_sx its)
  | SL [SZ 2; l] => option_map ESubLabel (get_str l)
  | _ => None
  end.

Definition op_sx (x : sx) : option op :=
  match x with
  | SL [SZ 0; SZ ty] => Some (ORead ty)
  | SL [SZ 1] => Some (ORestore None)
  | SL [SZ 1; l] => option_map (fun s => ORestore (Some s)) (get_str l)
  | _ => None
  end.

Definition text_job (t : str) : sx :=
  let ds := if ds_supported t
            then let '(o, rest) := data_stmt t in SL [sx_opt_items o; sx_str rest]
            else SL [SZ 9] in
  let sp := stmt_of_line t in
  SL [sx_opt_items (parse_data t);
      ds;
      SL [sx_opt_items (ss_items sp); sx_str (ss_rest sp);
          sx_bool (ss_inner_quote sp); sx_bool (ss_lone_quote sp)]].

Definition data_entry (x : sx) : sx :=
  match x with
  | SL [SZ 1; t] =>
    match get_str t with Some t => text_job t | None => sx_bad end
  | SL [SZ 4; SL parts; SL [SZ p; SZ i]; SL ops] =>
    match map_opt part_sx parts, map_opt dop_sx ops with
    | Some d, Some os =>
      let '(rs, (p', i')) := exec_ops d (p, i) os in
      SL [SL (map sx_rres rs); SL [SZ p'; SZ i']]
    | _, _ => sx_bad
    end
  | SL [SZ 5; SL evs; SL ops] =>
    match map_opt ev_sx evs, map_opt op_sx ops with
    | Some es, Some os =>
      SL [sx_pres (run_prog es os); sx_sres (spec_prog es os); sx_pres (run_prog_fixed es os);
          SL (map sx_items (parts_of (group es)))]
    | _, _ => sx_bad
    end
  | _ => sx_bad
  end.
