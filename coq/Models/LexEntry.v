From Coq Require Import ZArith List Bool.
From QV Require Import Sx Strs Lex.
Import ListNotations.
Open Scope Z_scope.

(* token -> (kind (parts...)) ; kinds: 1 word(run suf) 2 num(run ext suf) 3 hex(run suf)
   4 str(body closed) 5 op(o) 6 colon 7 data(kw payload) 8 rem(kw body) 9 apos(body)
   10 newline *)
Definition sx_tok (t : token) : sx :=
  match t with
  | TWord run suf => SL [SZ 1; sx_str run; sx_str suf]
  | TNum run ext suf => SL [SZ 2; sx_str run; sx_str ext; sx_str suf]
  | THex run suf => SL [SZ 3; sx_str run; sx_str suf]
  | TStr body closed => SL [SZ 4; sx_str body; sx_bool closed]
  | TOp o => SL [SZ 5; sx_str o]
  | TColon => SL [SZ 6]
  | TData kw p => SL [SZ 7; sx_str kw; sx_str p]
  | TRem kw b => SL [SZ 8; sx_str kw; sx_str b]
  | TApos b => SL [SZ 9; sx_str b]
  | TNewline => SL [SZ 10]
  end.

Definition sx_ltok (p : ltok) : sx :=
  SL [sx_str (fst p); sx_tok (snd p); sx_str (text (snd p))].

(* (1 text)  -> (0 canon-text)
   (2 text)  -> (0 ((ws tok text)...) tail layout-ok)
   (3 text)  -> (0 canon-text canon-of-canon-text)  *)
Definition lex_entry (x : sx) : sx :=
  match x with
  | SL [SZ 1; t] =>
    match get_str t with
    | Some s => SL [SZ 0; sx_str (canon s)]
    | None => sx_bad
    end
  | SL [SZ 2; t] =>
    match get_str t with
    | Some s =>
      let (l, tail) := lex_layout s in
      SL [SZ 0; SL (map sx_ltok l); sx_str tail;
          sx_bool (lay_ok l (hd_error tail) && forallb is_blank tail)]
    | None => sx_bad
    end
  | SL [SZ 3; t] =>
    match get_str t with
    | Some s => let c := canon s in SL [SZ 0; sx_str c; sx_str (canon c)]
    | None => sx_bad
    end
  | _ => sx_bad
  end.
