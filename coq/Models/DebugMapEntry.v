From Coq Require Import ZArith List Bool.
From QV Require Import Sx DebugMap.
Import ListNotations.
Open Scope Z_scope.

(* node: (id kind a b)  kind 0 = Stmt, 1 = Block, 2 = SubBlock/FunctionBlock, 3 = other *)
Definition node_sx (x : sx) : option node :=
  match x with
  | SL [SZ i; SZ 0; SZ _; SZ _] => Some (mkNode i KStmt)
  | SL [SZ i; SZ 1; SZ a; SZ b] => Some (mkNode i (KBlock a b))
  | SL [SZ i; SZ 2; SZ a; SZ b] => Some (mkNode i (KRoutine a b))
  | SL [SZ i; SZ 3; SZ _; SZ _] => Some (mkNode i KOther)
  | _ => None
  end.

(* item: (0 size) | (1 node) | (2 node) | (3) *)
Definition item_sx (x : sx) : option item :=
  match x with
  | SL [SZ 0; SZ sz] => Some (Ins sz)
  | SL [SZ 1; n] => option_map Start (node_sx n)
  | SL [SZ 2; n] => option_map End (node_sx n)
  | SL [SZ 3] => Some EmptyBlock
  | _ => None
  end.

Definition rec_sx (x : sx) : option rec :=
  match x with
  | SL [SZ n; SZ s; SZ e] => Some (mkRec n s e)
  | _ => None
  end.

Definition cnode_sx (x : sx) : option cnode :=
  match x with
  | SL [n; SZ s; SZ e] => option_map (fun n => (n, s, e)) (node_sx n)
  | _ => None
  end.

Definition sx_rec (r : rec) : sx := SL [SZ (r_node r); SZ (r_start r); SZ (r_end r)].

Definition sx_dres (d : dres) : sx :=
  match d with
  | DOk routines stmts others sz =>
    SL [SZ 0;
        SL (map (fun kv : Z * (Z * Z) => let '(k, (s, e)) := kv in SL [SZ k; SZ s; SZ e]) routines);
        SL (map sx_rec stmts); SL (map sx_rec others); SZ sz]
  | DAssert => SL [SZ 1]
  | DPopEmpty => SL [SZ 2]
  end.

Definition sx_fres (f : fres) : sx :=
  match f with
  | FFound r => SL [SZ 0; sx_rec r]
  | FNone => SL [SZ 1]
  | FNameError => SL [SZ 2]
  | FRecursion => SL [SZ 3]
  end.

(* (1 items)                          debug_map
   (2 stmts addr (call?))             find_stmt_at; call = () or (target)
   (3 text offset)                    index_to_line_col
   (4 empties blocks stmts)           finalize on an arbitrary table *)
Definition debugmap_entry (x : sx) : sx :=
  match x with
  | SL [SZ 1; SL items] =>
    match map_opt item_sx items with
    | Some l => sx_dres (debug_map l)
    | None => sx_bad
    end
  | SL [SZ 2; SL stmts; SZ addr; SL call] =>
    match map_opt rec_sx stmts with
    | Some l =>
      match call with
      | [] => sx_fres (find_stmt_at None l addr)
      | [SZ t] => sx_fres (find_stmt_at (Some t) l addr)
      | _ => sx_bad
      end
    | None => sx_bad
    end
  | SL [SZ 3; text; SZ off] =>
    match get_str text with
    | Some t => match index_to_line_col t off with
                | Some (l, c) => SL [SZ l; SZ c]
                | None => SL []
                end
    | None => sx_bad
    end
  | SL [SZ 4; SL empties; SL blocks; SL stmts] =>
    match get_zs empties, map_opt cnode_sx blocks, map_opt rec_sx stmts with
    | Some e, Some b, Some s => SL (map sx_rec (finalize e b s))
    | _, _, _ => sx_bad
    end
  | _ => sx_bad
  end.
