(* sx dispatcher for Models/Fold.v *)
From Coq Require Import ZArith List Bool.
From QV Require Import Sx Strs Fl Cell Machine Cpu Fold.
Import ListNotations.
Open Scope Z_scope.

Definition pyval_sx (x : sx) : option pyval :=
  match x with
  | SL [SZ 0; SZ z] => Some (PInt z)
  | SL [SZ 1; SZ b] => Some (PFlt (fl_of_bits b))
  | SL [SZ 2; s] => option_map PStrV (get_str s)
  | _ => None
  end.

Definition sx_pyval (v : pyval) : sx :=
  match v with
  | PInt z => SL [SZ 0; SZ z]
  | PFlt f => SL [SZ 1; SZ (bits_of_fl f)]
  | PStrV s => SL [SZ 2; sx_str s]
  end.

(* Operator enum values of qbee/expr.py *)
Definition binop_of (z : Z) : option binop :=
  if z =? 1 then Some OAdd else if z =? 2 then Some OSub else if z =? 3 then Some OMul
  else if z =? 4 then Some ODiv else if z =? 5 then Some OMod else if z =? 6 then Some OIntdiv
  else if z =? 7 then Some OExp else if z =? 8 then Some OEq else if z =? 9 then Some ONe
  else if z =? 10 then Some OLt else if z =? 11 then Some OGt else if z =? 12 then Some OLe
  else if z =? 13 then Some OGe else if z =? 17 then Some OAnd else if z =? 18 then Some OOr
  else if z =? 19 then Some OXor else if z =? 20 then Some OEqv else if z =? 21 then Some OImp
  else None.

Definition unop_of (z : Z) : option unop :=
  if z =? 14 then Some UNeg else if z =? 15 then Some UPlus else if z =? 16 then Some UNot
  else None.

Fixpoint cexpr_sx (fuel : nat) (x : sx) : option cexpr :=
  match fuel with
  | O => None
  | S f =>
    match x with
    | SL [SZ 0; SZ ty; v] => option_map (CNum ty) (pyval_sx v)
    | SL [SZ 1; s] => option_map CStrLit (get_str s)
    | SL [SZ 2; SZ op; l; r] =>
      match binop_of op, cexpr_sx f l, cexpr_sx f r with
      | Some o, Some a, Some b => Some (CBin o a b)
      | _, _, _ => None
      end
    | SL [SZ 3; SZ op; a] =>
      match unop_of op, cexpr_sx f a with
      | Some o, Some b => Some (CUn o b)
      | _, _ => None
      end
    | SL [SZ 4; a] => option_map CParen (cexpr_sx f a)
    | _ => None
    end
  end.

Definition sx_foldres (r : foldres) : sx :=
  match r with
  | Folded ty v => SL [SZ 0; SZ ty; sx_pyval v]
  | NotFolded => SL [SZ 1]
  | CompilerCrash k => SL [SZ 2; SZ (fkind_id k)]
  | FoldUnmodelled => SL [SZ 9]
  end.

Definition sx_rres (r : rres) : sx :=
  match r with
  | RVal c => SL [SZ 0; sx_cell c]
  | RTrap code => SL [SZ 1; SZ code]
  | RCrash k => SL [SZ 2; SZ (crash_id k)]
  | RAsmCrash k => SL [SZ 3; SZ (fkind_id k)]
  | RBadStack => SL [SZ 7]
  | RIllTyped => SL [SZ 8]
  | RUnmodelled => SL [SZ 9]
  end.

Definition sx_instr (i : instr) : sx :=
  match i with
  | IPushI z => SL [SZ 39; SZ z]
  | IPushL z => SL [SZ 40; SZ z]
  | IPushS f => SL [SZ 41; SZ (bits_of_fl (match to_single f with Some f' => f' | None => f end))]   (* the operand as loaded *)
  | IPushD f => SL [SZ 42; SZ (bits_of_fl f)]
  | IPushStr i => SL [SZ 43; SZ i]
  | IPushC ty c => SL [SZ 44; SZ ty; SZ c]
  | IConv a b => SL [SZ 6; SZ a; SZ b]
  | IAdd => SL [SZ 2] | ISub => SL [SZ 93] | IMul => SL [SZ 33] | IDiv => SL [SZ 19]
  | IMod => SL [SZ 32] | IIdiv => SL [SZ 25] | IExp => SL [SZ 22] | ICmp => SL [SZ 105]
  | IEq => SL [SZ 20] | INe => SL [SZ 34] | ILt => SL [SZ 31] | IGt => SL [SZ 102]
  | ILe => SL [SZ 30] | IGe => SL [SZ 24] | IAnd => SL [SZ 3] | IOr => SL [SZ 38]
  | IXor => SL [SZ 99] | IEqv => SL [SZ 21] | IImp => SL [SZ 26] | INeg => SL [SZ 35]
  | INot => SL [SZ 37]
  | _ => SL [SZ 0]
  end.

Definition sx_cgres (r : cgres) : sx :=
  match r with
  | CgOk l => SL [SZ 0; SL (map sx_instr l)]
  | CgCrash k => SL [SZ 3; SZ (fkind_id k)]
  | CgIllTyped => SL [SZ 8]
  | CgUnmodelled => SL [SZ 9]
  end.

Definition sx_boundres (r : boundres) : sx :=
  match r with
  | BVal z => SL [SZ 0; SZ z]
  | BCrash k => SL [SZ 2; SZ (fkind_id k)]
  | BUnmodelled => SL [SZ 9]
  end.

(* (1 e)  -> (static_type  fold  static_type_fixed  fold_fixed  static_bound)
   (2 e)  -> (cg_expr  rt_eval  literals  rt_bound)
   (3 e)  -> (cg_fixed  rt_eval_fixed) *)
Definition fold_entry (x : sx) : sx :=
  match x with
  | SL [SZ 1; e] =>
    match cexpr_sx 64 e with
    | Some c => SL [SZ (static_type c); sx_foldres (fold c);
                    SZ (static_type_fixed c); sx_foldres (fold_fixed c);
                    sx_boundres (static_bound c)]
    | None => sx_bad
    end
  | SL [SZ 2; e] =>
    match cexpr_sx 64 e with
    | Some c => SL [sx_cgres (cg_expr c); sx_rres (rt_eval c);
                    SL (map sx_str (lits_of c [])); sx_rres (rt_bound c)]
    | None => sx_bad
    end
  | SL [SZ 3; e] =>
    match cexpr_sx 64 e with
    | Some c => SL [sx_cgres (if type_ok_fixed c then cg_fixed (lits_of c []) c else CgIllTyped);
                    sx_rres (rt_eval_fixed c)]
    | None => sx_bad
    end
  | _ => sx_bad
  end.
