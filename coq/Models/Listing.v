(* The three views of a code section:
   - [listing_code]: the code part of QvmCode.__str__ (qbee/qvm_codegen.py),
     printed from the assembly items (QvmInstr.final tuples);
   - [assemble]: QvmCode.assembled (operand packing, label patching, literal
     and device indexing; variable indices arrive resolved, see [AVar]);
   - [disasm]: QModule.disassemble (qvm/module.py) on the bytes;
   and the specification [expected_dis]: what the disassembly of the assembled
   items must show (mnemonic, operands after label / variable / device /
   literal resolution), computed without encoding or decoding anything.
   No proofs here (Proofs/ListingProofs.v). *)
From Coq Require Import String Ascii.
From Coq Require Import ZArith List Bool.
From QV Require Import Sx Strs Fl Dec Machine Cpu Instrs Codec InstrCheck.
Import ListNotations.
Open Scope Z_scope.

(* ------------------------------------------------------------------ *)
(* text helpers *)

Definition hexdigit (d : Z) : Z := if d <? 10 then 48 + d else 87 + d.

Fixpoint hex_fuel (fuel : nat) (z : Z) (acc : str) : str :=
  match fuel with
  | O => hexdigit z :: acc
  | S f => if z <? 16 then hexdigit z :: acc
           else hex_fuel f (z / 16) (hexdigit (z mod 16) :: acc)
  end.

(* format(z, 'x') for z >= 0 *)
Definition hex (z : Z) : str := hex_fuel (Z.to_nat (Z.log2 z)) z [].

Definition padr (n : nat) (s : str) : str := s ++ repeat 32 (n - List.length s).
Definition padl0 (n : nat) (s : str) : str := repeat 48 (n - List.length s) ++ s.

Fixpoint join (sep : str) (l : list str) : str :=
  match l with
  | [] => []
  | [x] => x
  | x :: r => x ++ sep ++ join sep r
  end.

Definition comma_sp : str := [44; 32].

(* ------------------------------------------------------------------ *)
(* operand tokens *)

Inductive dtok :=
| TNum (z : Z)        (* str(int) *)
| THex (z : Z)        (* f'0x{z:x}' *)
| TFlt (f : fl)       (* str(float) *)
| TSym (s : str).     (* a name, printed as it is *)

Definition tok_text (t : dtok) : str :=
  match t with
  | TNum z => Z_to_dec z
  | THex z => [48; 120] ++ hex z
  | TFlt f => py_repr f
  | TSym s => s
  end.

(* ------------------------------------------------------------------ *)
(* QModule.disassemble *)

(* the disassembler unpacks the push$ operand with '>H' *)
Definition u16_of (z : Z) : Z := if z <? 0 then z + 65536 else z.

Definition dis_args (i : instr) : list dtok :=
  match i with
  | IAllocarr n es => [TNum n; TNum es]
  | IArridx n => [TNum n]
  | ICall t | IErrhand t | IJmp t | IJz t => [THex t]
  | IFrame p l => [TNum p; TNum l]
  | IInitarrg i n es | IInitarrl i n es => [TNum i; TNum n; TNum es]
  | IIo d o => [TNum d; TNum o]
  | IPushI z | IPushL z => [TNum z]
  | IPushS f | IPushD f => [TFlt f]
  | IPushStr idx => [TNum (u16_of idx)]
  | IPushrefg i | IPushrefl i | IRead _ _ i | IStore _ i => [TNum i]
  | IReadidx _ _ v i | IStoreidx _ v i => [TNum v; TNum i]
  | _ => []
  end.

(* one disassembled instruction *)
Record dline := mkDline {
  dl_off : Z;
  dl_op : str;
  dl_args : list dtok;
  dl_comment : option str;       (* the literal of push$ *)
}.

Definition nth_lit (lits : list str) (idx : Z) : option str :=
  if idx <? 0 then None else nth_error lits (Z.to_nat idx).

(* None = IndexError: literals[value] *)
Definition dis_entry (lits : list str) (off : Z) (i : instr) : option dline :=
  match i with
  | IPushStr idx =>
    match nth_lit lits (u16_of idx) with
    | Some s => Some (mkDline off (instr_name i) (dis_args i) (Some s))
    | None => None
    end
  | _ => Some (mkDline off (instr_name i) (dis_args i) None)
  end.

Inductive dres (A : Type) :=
| DisOk (a : A)
| DisExit              (* perror('Unknown op code') *)
| DisStruct            (* struct.error: operand bytes missing *)
| DisIndex.            (* IndexError: literal index out of range *)
Arguments DisOk {A}. Arguments DisExit {A}. Arguments DisStruct {A}. Arguments DisIndex {A}.

Fixpoint dis_from (fuel : nat) (lits : list str) (off : Z) (bs : list Z) : dres (list dline) :=
  match bs with
  | [] => DisOk []
  | _ :: _ =>
    match fuel with
    | O => DisStruct
    | S f =>
      match decode bs with
      | DOk i n =>
        match dis_entry lits off i with
        | None => DisIndex
        | Some e =>
          match dis_from f lits (off + n) (skipn (Z.to_nat n) bs) with
          | DisOk r => DisOk (e :: r)
          | err => err
          end
        end
      | DUnknown => DisExit
      | DTrunc => DisStruct
      end
    end
  end.

Definition dis_items (lits : list str) (code : list Z) : dres (list dline) :=
  dis_from (List.length code) lits 0 code.

Definition quote (s : str) : str := [34] ++ s ++ [34].

(* f'{op_idx:08x}: {op: <12} {args: <12}' [+ f'; {comments}'], .strip(), + '\n' *)
Definition dline_text (d : dline) : str :=
  let a := join comma_sp (map tok_text (dl_args d)) in
  let head := padl0 8 (hex (dl_off d)) ++ [58; 32] in
  let base := match a with
              | [] => head ++ padr 12 (dl_op d)
              | _ => head ++ padr 12 (dl_op d) ++ [32] ++ padr 12 a
              end in
  let line := match dl_comment d with
              | Some c => base ++ [59; 32] ++ quote c
              | None => base
              end in
  py_strip line ++ [10].

Definition render_dis (l : list dline) : str := flat_map dline_text l.

Definition disasm (lits : list str) (code : list Z) : dres str :=
  match dis_items lits code with
  | DisOk l => DisOk (render_dis l)
  | DisExit => DisExit | DisStruct => DisStruct | DisIndex => DisIndex
  end.

(* ------------------------------------------------------------------ *)
(* assembly items (QvmInstr.final) *)

Inductive aarg :=
| AInt (z : Z)                     (* a Python int *)
| AFlt (f : fl)                    (* a Python float *)
| ASym (s : str)                   (* a label, device, operation, or quoted literal *)
| AVar (name : str) (idx : Z).     (* a variable name with the index memlayout gives it *)

Inductive aitem :=
| ALabel (name : str)              (* ('_label', name) *)
| AMark                            (* _dbg_info_start/_end, _empty_block *)
| AOp (op : str) (args : list aarg).

Definition arg_text (a : aarg) : str :=
  match a with
  | AInt z => Z_to_dec z
  | AFlt f => py_repr f
  | ASym s => s
  | AVar n _ => n
  end.

(* code part of QvmCode.__str__ *)
Definition item_text (it : aitem) : str :=
  match it with
  | ALabel n => n ++ [58; 10]
  | AMark => []
  | AOp op args =>
    repeat 32 4 ++ py_strip (padr 12 op ++ join comma_sp (map arg_text args)) ++ [10]
  end.

Definition listing_code (l : list aitem) : str := flat_map item_text l.

(* ------------------------------------------------------------------ *)
(* QvmCode.assembled *)

(* every operand-carrying instruction shape on numeric operands a b c *)
Definition candidates (a b c : Z) : list instr :=
  [IAbs; IAdd; IAllocarr a b; IAnd; IArridx a; IAsc; ICall a; IChr; ICint; IClng; ICmp;
   IConv 1 2; IConv 1 3; IConv 1 4; IConv 2 1; IConv 2 3; IConv 2 4;
   IConv 3 1; IConv 3 2; IConv 3 4; IConv 4 1; IConv 4 2; IConv 4 3;
   IDeref 1; IDeref 2; IDeref 3; IDeref 4; IDeref 5;
   IDiv; IDupl; IEq; IEqv; IErrget; IErrhand a; IErrline; IErrraise; IErrres; IErrresn; IExp;
   IFrame a b; IGe; IGt; IHalt; IIdiv; IIjmp; IInitarrg a b c; IInitarrl a b c; IInt; IImp;
   IIo a b; IJmp a; IJz a; ILbound; ILcase; ILe; ILt; ILtrim; IMod; IMul; INe; INeg; INop;
   INot; INtos; IOr; IPop; IPushI a; IPushL a; IPushStr a;
   IPushC 1 (-2); IPushC 2 (-2); IPushC 3 (-2); IPushC 4 (-2);
   IPushC 1 (-1); IPushC 2 (-1); IPushC 3 (-1); IPushC 4 (-1);
   IPushC 1 0; IPushC 2 0; IPushC 3 0; IPushC 4 0;
   IPushC 1 1; IPushC 2 1; IPushC 3 1; IPushC 4 1;
   IPushC 1 2; IPushC 2 2; IPushC 3 2; IPushC 4 2;
   IPushrefg a; IPushrefl a;
   IRead false 1 a; IRead false 2 a; IRead false 3 a; IRead false 4 a; IRead false 5 a;
   IRead false 7 a;
   IRead true 1 a; IRead true 2 a; IRead true 3 a; IRead true 4 a; IRead true 5 a;
   IRead true 7 a;
   IReadidx false 1 a b; IReadidx false 2 a b; IReadidx false 3 a b; IReadidx false 4 a b;
   IReadidx false 5 a b; IReadidx false 7 a b;
   IReadidx true 1 a b; IReadidx true 2 a b; IReadidx true 3 a b; IReadidx true 4 a b;
   IReadidx true 5 a b; IReadidx true 7 a b;
   IRefidx; IRet; IRetv; IRtrim; ISdbl; ISign; ISpace; ISub;
   IStore false a; IStore true a; IStoreidx false a b; IStoreidx true a b; IStoreref;
   IStrfind; IStrleft; IStrlen; IStrmid; IStrrep; IStrright; ISwap; ISwapprev;
   IUbound; IUcase; IXor].

(* the instruction named op on the numeric operands vals (None: unknown
   mnemonic or wrong operand count) *)
Definition mk_plain (op : str) (vals : list Z) : option instr :=
  match find (fun i => str_eqb (instr_name i) op)
             (candidates (nth 0 vals 0) (nth 1 vals 0) (nth 2 vals 0)) with
  | Some i => if Nat.eqb (List.length (instr_operands i)) (List.length vals) then Some i else None
  | None => None
  end.

Inductive ares (A : Type) :=
| AOk (a : A)
| AKeyError        (* unknown label / mnemonic / device / operation / literal *)
| AStructError     (* struct.error: operand outside its field *)
| AAssert          (* wrong operand count or operand type *)
| AOverflow.       (* OverflowError: struct.pack('>f') of a too large value *)
Arguments AOk {A}. Arguments AKeyError {A}. Arguments AStructError {A}.
Arguments AAssert {A}. Arguments AOverflow {A}.

Definition abind {A B} (x : ares A) (f : A -> ares B) : ares B :=
  match x with
  | AOk a => f a | AKeyError => AKeyError | AStructError => AStructError
  | AAssert => AAssert | AOverflow => AOverflow
  end.

Definition assoc (k : str) (l : list (str * Z)) : option Z :=
  match find (fun e => str_eqb (fst e) k) l with Some e => Some (snd e) | None => None end.

Definition device_ids (dev op : str) : option (Z * Z) :=
  match find (fun e => str_eqb (fst (fst e)) dev) qvm_devices with
  | Some (_, id, ops) => match assoc op ops with Some o => Some (id, o) | None => None end
  | None => None
  end.

(* value[1:-1] of a quoted literal *)
Definition unquote (s : str) : option str :=
  match s with
  | 34 :: r => match rev r with 34 :: m => Some (rev m) | [] => Some [] | _ => None end
  | _ => None
  end.

(* list.index *)
Definition lit_index (lits : list str) (s : str) : option Z :=
  (fix go (l : list str) (i : Z) : option Z :=
     match l with
     | [] => None
     | x :: r => if str_eqb x s then Some i else go r (i + 1)
     end) lits 0.

(* struct.pack('>f', v) / ('>d', v) as bit patterns *)
Definition pack32 (f : fl) : option Z :=
  match to_single f with Some g => Some (bits32_of_fl g) | None => None end.
Definition pack64 (f : fl) : Z := bits_of_fl f.

Notation is_op op name := (str_eqb op (L name)) (only parsing).

Definition is_label_op (op : str) : bool := is_op op "call" || is_op op "jmp" || is_op op "jz".

(* int(value) of the operand of push% / push& *)
Definition as_int (a : aarg) : option Z :=
  match a with
  | AInt z => Some z
  | AFlt f => ftrunc f
  | _ => None
  end.
Definition as_float (a : aarg) : option fl :=
  match a with
  | AInt z => Some (of_Z z)
  | AFlt f => Some f
  | _ => None
  end.

Definition num_arg (a : aarg) : option Z :=
  match a with
  | AInt z => Some z
  | AVar _ idx => Some idx
  | _ => None
  end.

Definition of_plain (op : str) (vals : list Z) : ares winstr :=
  match mk_plain op vals with Some i => AOk (WI i) | None => AKeyError end.

(* one instruction; [lab] resolves a label name *)
Definition asm_one (lits : list str) (lab : str -> option Z) (op : str) (args : list aarg)
  : ares winstr :=
  if is_label_op op then
    match args with
    | [ASym l] => match lab l with Some t => of_plain op [t] | None => AKeyError end
    | _ => AAssert
    end
  else if is_op op "errhand" then
    match args with
    | [AInt z] => if (z =? 0) || (z =? 1) then of_plain op [z] else AKeyError
    | [ASym l] => match lab l with Some t => of_plain op [t] | None => AKeyError end
    | _ => AAssert
    end
  else if is_op op "io" then
    match args with
    | [ASym d; ASym o] =>
      match device_ids d o with Some (di, oi) => of_plain op [di; oi] | None => AKeyError end
    | _ => AAssert
    end
  else if is_op op "push$" then
    match args with
    | [ASym q] =>
      match unquote q with
      | Some s => match lit_index lits s with Some i => of_plain op [i] | None => AKeyError end
      | None => AAssert
      end
    | _ => AAssert
    end
  else if is_op op "push!" then
    match args with
    | [a] => match as_float a with
             | Some f => match pack32 f with Some b => AOk (WPushS b) | None => AOverflow end
             | None => AAssert
             end
    | _ => AAssert
    end
  else if is_op op "push#" then
    match args with
    | [a] => match as_float a with Some f => AOk (WPushD (pack64 f)) | None => AAssert end
    | _ => AAssert
    end
  else if is_op op "push%" || is_op op "push&" then
    match args with
    | [a] => match as_int a with Some z => of_plain op [z] | None => AAssert end
    | _ => AAssert
    end
  else
    match map_opt num_arg args with
    | Some vals => of_plain op vals
    | None => AAssert
    end.

Definition enc_size (w : winstr) : ares Z :=
  match encode_w w with Some bs => AOk (len bs) | None => AStructError end.

(* first pass: offsets of the labels (labels[name] = cur_offset; a later
   definition of the same name wins, so the table is consulted newest first) *)
Fixpoint label_pass (lits : list str) (l : list aitem) (off : Z) (acc : list (str * Z))
  : ares (list (str * Z) * Z) :=
  match l with
  | [] => AOk (acc, off)
  | ALabel n :: r => label_pass lits r off ((n, off) :: acc)
  | AMark :: r => label_pass lits r off acc
  | AOp op args :: r =>
    abind (asm_one lits (fun _ => Some 0) op args) (fun w =>
    abind (enc_size w) (fun n => label_pass lits r (off + n) acc))
  end.

Fixpoint emit_pass (lits : list str) (lab : str -> option Z) (l : list aitem) : ares (list winstr) :=
  match l with
  | [] => AOk []
  | AOp op args :: r =>
    abind (asm_one lits lab op args) (fun w =>
    abind (emit_pass lits lab r) (fun ws => AOk (w :: ws)))
  | _ :: r => emit_pass lits lab r
  end.

Definition assemble_w (lits : list str) (l : list aitem) : ares (list winstr * list (str * Z)) :=
  abind (label_pass lits l 0 []) (fun '(labels, _) =>
  abind (emit_pass lits (fun n => assoc n labels) l) (fun ws => AOk (ws, labels))).

Definition assemble (lits : list str) (l : list aitem) : ares (list Z * list (str * Z)) :=
  abind (assemble_w lits l) (fun '(ws, labels) =>
  match encode_code ws with
  | Some bs => AOk (bs, labels)
  | None => AStructError
  end).

(* ------------------------------------------------------------------ *)
(* specification: what the disassembly of the items must show *)

Definition table_size (op : str) : option Z :=
  match find (fun e => str_eqb (e_name e) op) instr_table with
  | Some e => Some (e_size e)
  | None => None
  end.

(* offsets by the generated table alone *)
Fixpoint spec_labels (l : list aitem) (off : Z) (acc : list (str * Z)) : option (list (str * Z)) :=
  match l with
  | [] => Some acc
  | ALabel n :: r => spec_labels r off ((n, off) :: acc)
  | AMark :: r => spec_labels r off acc
  | AOp op _ :: r =>
    match table_size op with
    | Some n => spec_labels r (off + n) acc
    | None => None
    end
  end.

(* the operand tokens and comment the disassembly must show for one item *)
Definition spec_args (lits : list str) (labels : list (str * Z)) (op : str) (args : list aarg)
  : option (list dtok * option str) :=
  if is_label_op op then
    match args with
    | [ASym l] => match assoc l labels with Some t => Some ([THex t], None) | None => None end
    | _ => None
    end
  else if is_op op "errhand" then
    match args with
    | [AInt z] => Some ([THex z], None)
    | [ASym l] => match assoc l labels with Some t => Some ([THex t], None) | None => None end
    | _ => None
    end
  else if is_op op "io" then
    match args with
    | [ASym d; ASym o] =>
      match device_ids d o with Some (di, oi) => Some ([TNum di; TNum oi], None) | None => None end
    | _ => None
    end
  else if is_op op "push$" then
    match args with
    | [ASym q] =>
      match unquote q with
      | Some s => match lit_index lits s with
                  | Some i => Some ([TNum i], Some s)
                  | None => None
                  end
      | None => None
      end
    | _ => None
    end
  else if is_op op "push!" then
    match args with
    | [a] => match as_float a with
             | Some f => match pack32 f with
                         | Some b => Some ([TFlt (fl_of_bits32 b)], None)   (* the value at operand width *)
                         | None => None
                         end
             | None => None
             end
    | _ => None
    end
  else if is_op op "push#" then
    match args with
    | [a] => match as_float a with
             | Some f => Some ([TFlt (fl_of_bits (pack64 f))], None)
             | None => None
             end
    | _ => None
    end
  else if is_op op "push%" || is_op op "push&" then
    match args with
    | [a] => match as_int a with Some z => Some ([TNum z], None) | None => None end
    | _ => None
    end
  else
    match map_opt num_arg args with
    | Some vals => Some (map TNum vals, None)
    | None => None
    end.

Fixpoint spec_lines (lits : list str) (labels : list (str * Z)) (l : list aitem) (off : Z)
  : option (list dline) :=
  match l with
  | [] => Some []
  | AOp op args :: r =>
    match table_size op, spec_args lits labels op args with
    | Some n, Some (toks, c) =>
      match spec_lines lits labels r (off + n) with
      | Some ls => Some (mkDline off op toks c :: ls)
      | None => None
      end
    | _, _ => None
    end
  | _ :: r => spec_lines lits labels r off
  end.

Definition expected_dis (lits : list str) (l : list aitem) : option (list dline) :=
  match spec_labels l 0 [] with
  | Some labels => spec_lines lits labels l 0
  | None => None
  end.
