(* sx entry point of the debugger model (T-dbg).
   job:    (1 module dbginfo script fuel (cmd ...))
           dbginfo = ((start end line soff id) ...)
           cmd     = 1 step | 2 next | 3 stepi | 4 nexti | 5 continue | (6 L) break | (7 L) delbr
   result: (snapshot_after_start (snapshot_after_each_command ...) final_state)
   snapshot = (status pc halted reason line nevents nticks resumed last depth (bps) (msgs)) *)
From Coq Require Import ZArith List Bool.
From QV Require Import Sx Strs Fl Cell Machine Cpu MachineEntry Debugger.
Import ListNotations.
Open Scope Z_scope.

Definition srec_sx (x : sx) : option srec :=
  match x with
  | SL [SZ a; SZ b; SZ l; SZ o; SZ i] => Some (mkRec a b l o i)
  | _ => None
  end.

Definition cmd_sx (x : sx) : option cmd :=
  match x with
  | SZ 1 => Some CStep | SZ 2 => Some CNext | SZ 3 => Some CStepi | SZ 4 => Some CNexti
  | SZ 5 => Some CContinue
  | SL [SZ 6; SZ l] => Some (CBreak l)
  | SL [SZ 7; SZ l] => Some (CDelbr l)
  | _ => None
  end.

Definition sx_status (k : dstatus) : sx :=
  match k with
  | Live => SZ 0 | Crashed c => SL [SZ 1; SZ (crash_id c)] | NeedIn => SZ 2 | NoFuel => SZ 3
  end.

Definition sx_msg (x : msg) : sx :=
  match x with
  | MHalted => SZ 1 | MHit => SZ 2 | MEmptyProg => SZ 3
  | MSet a l => SL [SZ 4; SZ a; SZ l]
  | MImprecise l => SL [SZ 5; SZ l]
  | MCannotLine => SZ 6 | MCannotRoutine => SZ 7
  | MDeleting a l => SL [SZ 8; SZ a; SZ l]
  | MNoSuchBp => SZ 9 | MErrLine => SZ 10 | MErrRoutine => SZ 11
  end.

Definition sx_hit (h : option hit) : sx :=
  match h with None => SZ 0 | Some HitTemp => SZ 1 | Some (HitUser a) => SL [SZ 2; SZ a] end.

Definition snapshot (m : module) (di : dbginfo) (d : dbg) : sx :=
  let s := d_st d in
  SL [sx_status (d_status d); SZ (pc s); sx_bool (halted s); SZ (reason s);
      SZ (match cur_line m di s with Some l => l | None => -1 end);
      SZ (Z.of_nat (length (events s))); SZ (mn (d_m d)); sx_bool (mres (d_m d));
      sx_hit (mlast (d_m d)); SZ (depth s);
      SL (map SZ (d_bps d)); SL (map sx_msg (d_msgs d))].

Fixpoint trace (m : module) (di : dbginfo) (fuel : nat) (d : dbg) (h : list cmd) (acc : list sx)
  : list sx * dbg :=
  match h with
  | [] => (rev acc, d)
  | c :: r => let d' := exec_cmd m di fuel d c in trace m di fuel d' r (snapshot m di d' :: acc)
  end.

Definition one_history (m : module) (di : dbginfo) (sc : script) (f : nat) (h : list cmd) : sx :=
  let d0 := start m di f (init_state m sc) in
  let '(snaps, d) := trace m di f d0 h [] in
  SL [snapshot m di d0; SL snaps; sx_st (d_st d)].

Definition cmds_sx (x : sx) : option (list cmd) :=
  match x with SL cx => map_opt cmd_sx cx | _ => None end.

(* (1 module dbginfo script fuel (cmd ...))            one history
   (2 module dbginfo script fuel ((cmd ...) ...))      several histories of the same program *)
Definition debugger_entry (x : sx) : sx :=
  match x with
  | SL [SZ 1; mx; SL dx; scx; SZ fuel; SL cx] =>
    match module_sx mx, map_opt srec_sx dx, script_sx scx, map_opt cmd_sx cx with
    | Some m, Some di, Some sc, Some h => one_history m di sc (Z.to_nat fuel) h
    | _, _, _, _ => sx_bad
    end
  | SL [SZ 2; mx; SL dx; scx; SZ fuel; SL hx] =>
    match module_sx mx, map_opt srec_sx dx, script_sx scx, map_opt cmds_sx hx with
    | Some m, Some di, Some sc, Some hs =>
      SL (map (one_history m di sc (Z.to_nat fuel)) hs)
    | _, _, _, _ => sx_bad
    end
  | _ => sx_bad
  end.
