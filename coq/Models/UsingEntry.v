(* sx dispatcher for the PRINT USING model (Models/Using.v), the USING branch of
   _exec_print (Models/Print.v) and the C19 specification (Models/UsingSpec.v).

   (1 fmt (vals...))   PrintUsingFormatter(fmt).format(vals)      -> ures
   (2 fmt)             PrintUsingFormatter(fmt).fmt_parts         -> (0 parts) | (2 1)
   (3 fmt (vals...))   model, guard reasons and specification     -> (ures reasons spec)
   (4 (cells...))      TerminalDevice._exec_print on the cells    -> pout
   values: (1 z) (2 z) int, (3 bits) (4 bits) float, (5 str) string *)
From Coq Require Import ZArith List Bool.
From QV Require Import Sx Strs Fl Cell Using UsingSpec Print PrintEntry.
Import ListNotations.
Open Scope Z_scope.

Definition uval_sx (x : sx) : option uval :=
  match x with
  | SL [SZ 1; SZ z] | SL [SZ 2; SZ z] => Some (UInt z)
  | SL [SZ 3; SZ b] | SL [SZ 4; SZ b] => Some (UFlt (fl_of_bits b))
  | SL [SZ 5; s] => option_map UStr (get_str s)
  | _ => None
  end.

Definition sx_ures (r : ures) : sx :=
  match r with
  | UOk s => SL [SZ 0; sx_str s]
  | UCrash k => SL [SZ 2; SZ (sx_ucrash k)]
  end.

Definition sx_opt {A} (f : A -> sx) (o : option A) : sx :=
  match o with Some a => SL [f a] | None => SL [] end.

Definition sx_part (p : upart) : sx :=
  match p with
  | PNon s => SL [SZ 0; sx_str s]
  | PStrF c => SL [SZ 1; SZ c]
  | PNumF w o =>
    SL [SZ 2; SZ w;
        sx_opt (fun p : bool * Z => SL [sx_bool (fst p); SZ (snd p)]) (o_sign o);
        sx_bool (o_comma o);
        sx_opt SZ (o_decpt o);
        SZ (o_real o)]
  end.

Definition using_entry (x : sx) : sx :=
  match x with
  | SL [SZ 1; f; SL vs] =>
    match get_str f, map_opt uval_sx vs with
    | Some fmt, Some vals => sx_ures (using_format fmt vals)
    | _, _ => sx_bad
    end
  | SL [SZ 2; f] =>
    match get_str f with
    | Some fmt =>
      match parse_format fmt with
      | Some parts => SL [SZ 0; SL (map sx_part parts)]
      | None => SL [SZ 2; SZ 1]
      end
    | None => sx_bad
    end
  | SL [SZ 3; f; SL vs] =>
    match get_str f, map_opt uval_sx vs with
    | Some fmt, Some vals =>
      SL [sx_ures (using_format fmt vals);
          SL (map SZ (using_reasons fmt vals));
          sx_opt sx_str (using_spec fmt vals)]
    | _, _ => sx_bad
    end
  | SL [SZ 4; SL cs] =>
    match map_opt cell_sx cs with
    | Some l => sx_pout (exec_print l)
    | None => sx_bad
    end
  | _ => sx_bad
  end.
