(* Model of the code generator for PURE scalar expressions
   (qbee/qvm_codegen.py: gen_num_literal, gen_str_literal, gen_lvalue for a local
   scalar, gen_paren, gen_unary_op, gen_binary_op with gen_code_for_conv) at
   optimisation level 0, together with qbee's static typing of expressions
   (qbee/expr.py BinaryOp.type, UnaryOp.type).  Faithful to the code including
   its defects (INTDIV on a float operand is typed float; ^ on integral operands
   is typed integral).  No proofs here. *)
From Coq Require Import ZArith List Bool Lia.
From QV Require Import Sx Strs Fl Cell Machine Cpu SemBase.
Import ListNotations.
Open Scope Z_scope.

Inductive pexpr :=
| PLit (c : cell)                  (* numeric literal *)
| PStrLit (idx : Z) (s : str)      (* string literal, at index idx of the literal table *)
| PVar (i : Z) (t : vty)           (* local scalar variable: frame cell i, declared type t *)
| PUn (o : unop) (e : pexpr)
| PBin (o : binop) (l r : pexpr)
| PPar (e : pexpr).

(* ---- qbee's static types ---- *)

Definition q_binop_ty (o : binop) (lt rt : vty) : option vty :=
  if is_logic o then
    match lt, rt with
    | TStr, _ | _, TStr => None
    | TI, TI => Some TI
    | _, _ => Some TL
    end
  else if is_rel o then
    match lt, rt with
    | TStr, TStr => Some TI
    | TStr, _ | _, TStr => None
    | _, _ => Some TI
    end
  else
    match lt, rt with
    | TStr, TStr => match o with OAdd => Some TStr | _ => None end
    | TStr, _ | _, TStr => None
    | _, _ =>
      match o with
      | OMod | OIDiv => match lt, rt with TI, TI => Some TI | _, _ => Some TL end   (* `\` like MOD since the fix commit for D46 *)
      | _ =>
        match join lt rt with
        | TD => Some TD
        | TS => Some TS
        | t => match o with ODiv => Some TS | _ => Some t end
        end
      end
    end.

Definition q_unop_ty (o : unop) (t : vty) : option vty :=
  match t with
  | TStr => None
  | _ => match o with
         | UNot => Some (match t with TI => TI | _ => TL end)
         | _ => Some t
         end
  end.

Fixpoint q_ty (e : pexpr) : option vty :=
  match e with
  | PLit c => match c with CStr _ | CRef _ _ => None | _ => Some (ty_of c) end
  | PStrLit _ _ => Some TStr
  | PVar _ t => Some t
  | PUn o a => match q_ty a with Some t => q_unop_ty o t | None => None end
  | PBin o l r =>
    match q_ty l, q_ty r with
    | Some lt, Some rt => q_binop_ty o lt rt
    | _, _ => None
    end
  | PPar a => q_ty a
  end.

(* ---- code ---- *)

Definition conv_code (from to : vty) : list instr :=
  if vty_eqb from to then [] else [IConv (rank from) (rank to)].

(* QvmInstr.final: push with a value in -2..2 becomes the operand-less form *)
Definition small_const (c : cell) : option Z :=
  match c with
  | CI z | CL z => if (-2 <=? z) && (z <=? 2) then Some z else None
  | CS f | CD f =>
    if feqb f (of_Z 0) then Some 0 else if feqb f (of_Z 1) then Some 1
    else if feqb f (of_Z 2) then Some 2 else if feqb f (of_Z (-1)) then Some (-1)
    else if feqb f (of_Z (-2)) then Some (-2) else None
  | _ => None
  end.

Definition push_lit (c : cell) : list instr :=
  match small_const c with
  | Some k => [IPushC (rank (ty_of c)) k]
  | None =>
    match c with
    | CI z => [IPushI z] | CL z => [IPushL z]
    | CS f => [IPushS f] | CD f => [IPushD f]
    | _ => []
    end
  end.

Definition op_instrs (o : binop) : list instr :=
  match o with
  | OAdd => [IAdd] | OSub => [ISub] | OMul => [IMul] | ODiv => [IDiv]
  | OIDiv => [IIdiv] | OMod => [IMod] | OPow => [IExp]
  | OEq => [ICmp; IEq] | ONe => [ICmp; INe] | OLt => [ICmp; ILt]
  | OGt => [ICmp; IGt] | OLe => [ICmp; ILe] | OGe => [ICmp; IGe]
  | OAnd => [IAnd] | OOr => [IOr] | OXor => [IXor] | OEqv => [IEqv] | OImp => [IImp]
  end.

(* the type both operands are converted to (gen_binary_op) *)
Definition operand_ty (o : binop) (lt rt node : vty) : vty :=
  if is_rel o then join lt rt
  else if is_logic o || (match o with OIDiv | OMod => true | _ => false end) then
    match node with TI => TI | _ => TL end
  else node.

Fixpoint cg (e : pexpr) : list instr :=
  match e with
  | PLit c => push_lit c
  | PStrLit idx _ => [IPushStr idx]
  | PVar i t => [IRead true (rank t) i]
  | PPar a => cg a
  | PUn o a =>
    cg a ++
    match o with
    | UNeg => [INeg]
    | UPlus => []
    | UNot =>
      match q_ty a with
      | Some t => conv_code t (match t with TI => TI | _ => TL end) ++ [INot]
      | None => [INot]
      end
    end
  | PBin o l r =>
    match q_ty l, q_ty r, q_ty e with
    | Some lt, Some rt, Some nt =>
      let t := operand_ty o lt rt nt in
      cg l ++ conv_code lt t ++ cg r ++ conv_code rt t ++ op_instrs o
    | _, _, _ => cg l ++ cg r ++ op_instrs o
    end
  end.

(* sequential execution of an instruction list with Cpu.exec *)
Fixpoint exec_list (m : module) (l : list instr) : M unit :=
  match l with
  | [] => ret tt
  | i :: r => bind (exec m i) (fun _ => exec_list m r)
  end.

(* ---- the reference meaning of a pure expression ---- *)

(* environment: the value of frame cell i (None: never assigned) *)
Fixpoint peval (q : Z -> bool) (rho : Z -> option cell) (e : pexpr) : pres cell :=
  match e with
  | PLit c => POk c
  | PStrLit _ s => POk (CStr s)
  | PVar i t => match rho i with Some c => POk c | None => POk (default_of t) end
  | PPar a => peval q rho a
  | PUn o a => pdo v <- peval q rho a; unop_sem q o v
  | PBin o l r => pdo a <- peval q rho l; pdo b <- peval q rho r; binop_sem q o a b
  end.

(* trap code of an error class *)
Definition trap_of_err (e : err) : Z :=
  match e with
  | EDivZero => T_DIVISION_BY_ZERO
  | EOverflow => T_INVALID_CELL_VALUE
  | ESubscript => T_INDEX_OUT_OF_RANGE
  | EIllegal => T_INVALID_OPERAND_VALUE
  | EOutOfData | EReadSyntax => T_DEVICE_ERROR
  | ETypeMismatch => T_TYPE_MISMATCH
  | EExhausted => 0
  end.

(* operator/type combinations on which qbee and the reference semantics agree
   and which the proved theorem covers: integral operands, no division-like
   operator, no exponentiation *)
Definition integral (t : vty) : bool := match t with TI | TL => true | _ => false end.
Definition agree_op (o : binop) (lt rt : vty) : bool :=
  integral lt && integral rt &&
  match o with ODiv | OIDiv | OMod | OPow => false | _ => true end.

Definition wf_cell (c : cell) : bool :=
  match c with CI z => in_int z | CL z => in_long z | _ => true end.

(* the sub-language of the proved theorem *)
Fixpoint in_fragment (e : pexpr) : bool :=
  match e with
  | PLit c => integral (ty_of c) && wf_cell c
  | PStrLit _ _ => false
  | PVar i t => integral t && (0 <=? i)
  | PPar a => in_fragment a
  | PUn _ a => in_fragment a
  | PBin o l r =>
    in_fragment l && in_fragment r &&
    match q_ty l, q_ty r with
    | Some lt, Some rt => agree_op o lt rt
    | _, _ => false
    end
  end.
