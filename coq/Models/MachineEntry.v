(* sx codecs for modules and machine states; entry point for T-isa (one tick on
   a constructed state) and T-run (whole runs from the initial state). *)
From Coq Require Import ZArith List Bool.
From QV Require Import Sx Strs Fl Cell Machine Cpu.
Import ListNotations.
Open Scope Z_scope.

Definition ditem_sx (x : sx) : option ditem :=
  match x with
  | SL [] => Some DEmpty
  | SL [s] => option_map DText (get_str s)
  | _ => None
  end.

Definition pair_sx (x : sx) : option (Z * Z) :=
  match x with SL [SZ a; SZ b] => Some (a, b) | _ => None end.

(* (code literals data nglobals stmts)   stmts: () = none, ((s e) ...) wrapped in a list = Some *)
Definition module_sx (x : sx) : option module :=
  match x with
  | SL [SL code; SL lits; SL data; SZ ng; SL st] =>
    match get_zs code, map_opt get_str lits,
          map_opt (fun p => match p with SL items => map_opt ditem_sx items | _ => None end) data with
    | Some c, Some l, Some d =>
      match st with
      | [] => Some (mkModule c l d ng None)
      | [SL recs] => match map_opt pair_sx recs with
                     | Some r => Some (mkModule c l d ng (Some r))
                     | None => None end
      | _ => None
      end
    | _, _, _ => None
    end
  | _ => None
  end.

Definition optcell_sx (x : sx) : option (option cell) :=
  match x with
  | SL [] => Some None
  | _ => match cell_sx x with Some c => Some (Some c) | None => None end
  end.

Definition sx_optcell (o : option cell) : sx :=
  match o with None => SL [] | Some c => sx_cell c end.

(* segment: (kind cells)  kind: 0 globals | (1 prev code_start ret_addr orig) frame, prev = -1 for None | 2 array *)
Definition seg_sx (x : sx) : option seg :=
  match x with
  | SL [k; SL cells] =>
    match map_opt optcell_sx cells with
    | None => None
    | Some cs =>
      match k with
      | SZ 0 => Some (mkSeg cs SGlobals)
      | SZ 2 => Some (mkSeg cs SArray)
      | SL [SZ 1; SZ prev; SZ cstart; SZ ra; SZ orig] =>
        Some (mkSeg cs (SFrame (if prev <? 0 then None else Some prev) cstart ra orig))
      | _ => None
      end
    end
  | _ => None
  end.

Definition sx_seg (s : seg) : sx :=
  SL [match s_kind s with
      | SGlobals => SZ 0
      | SArray => SZ 2
      | SFrame prev cstart ra orig =>
        SL [SZ 1; SZ (match prev with Some p => p | None => -1 end); SZ cstart; SZ ra; SZ orig]
      end;
      SL (map sx_optcell (s_cells s))].

Definition script_sx (x : sx) : option script :=
  match x with
  | SL [SL lines; SL rnd; SL timer; SL inkey] =>
    match map_opt get_str lines, get_zs rnd, get_zs timer, map_opt get_str inkey with
    | Some l, Some r, Some t, Some k =>
      Some (mkScript l (map fl_of_bits r) (map fl_of_bits t) k)
    | _, _, _, _ => None
    end
  | _ => None
  end.

Definition sx_event (e : event) : sx := SL (SZ (ev_id e) :: ev_args e).

Definition sx_tt (t : ttarget) : sx :=
  match t with TNone => SZ (-1) | TNext => SZ (-2) | TAddr a => SZ a end.
Definition tt_sx (z : Z) : ttarget :=
  if z =? -1 then TNone else if z =? -2 then TNext else TAddr z.

(* state: (pc stack heap cur halted reason last_trap kw ttarget active trapped_addr irq dpart didx last_rnd script)
   stack listed bottom -> top; cur = -1 for None; last_trap = 0 for None; last_rnd: () or (bits) *)
Definition st_sx (x : sx) : option st :=
  match x with
  | SL [SZ pc_; SL stk; SL hp; SZ cur_; SZ halted_; SZ reason_; SZ lt; SZ kw; SZ tt_; SZ act;
        SZ ta; SZ irq_; SZ dp; SZ di; SL lr; sc] =>
    match map_opt cell_sx stk, map_opt seg_sx hp, script_sx sc with
    | Some stk', Some hp', Some sc' =>
      Some (mkSt pc_ 0 (rev stk') hp' (if cur_ <? 0 then None else Some cur_)
                 (negb (halted_ =? 0)) reason_ (if lt =? 0 then None else Some lt) (negb (kw =? 0))
                 (tt_sx tt_) (negb (act =? 0)) ta (negb (irq_ =? 0)) dp di
                 (match lr with [SZ b] => Some (fl_of_bits b) | _ => None end) sc' [])
    | _, _, _ => None
    end
  | _ => None
  end.

Definition sx_st (s : st) : sx :=
  SL [SZ (pc s); SL (map sx_cell (rev (stack s))); SL (map sx_seg (heap s));
      SZ (match cur s with Some c => c | None => -1 end);
      sx_bool (halted s); SZ (reason s);
      SZ (match last_trap s with Some t => t | None => 0 end);
      sx_tt (ttarget_ s); sx_bool (handler_active s); SZ (trapped_addr s);
      SZ (data_part s); SZ (data_idx s);
      SL (map sx_event (rev (events s)))].

Definition sx_tick_out (t : tick_out) : sx :=
  match t with
  | Next s => SL [SZ 0; sx_st s]
  | Crash k s => SL [SZ 1; SZ (crash_id k); sx_st s]
  | NeedInput s => SL [SZ 2; sx_st s]
  end.

Definition sx_stop (k : stop) : sx :=
  match k with
  | StHalt => SZ 0 | StFuel => SZ 1 | StCrash c => SL [SZ 2; SZ (crash_id c)] | StNeedInput => SZ 3
  end.

(* (1 module state)            one tick
   (2 module script fuel)      run from the initial state; fuel as Z
   (3 module state n)          n ticks (stops early on crash / halt) *)
Definition machine_entry (x : sx) : sx :=
  match x with
  | SL [SZ 1; m; s] =>
    match module_sx m, st_sx s with
    | Some m', Some s' => sx_tick_out (tick m' s')
    | _, _ => sx_bad
    end
  | SL [SZ 2; m; sc; SZ fuel] =>
    match module_sx m, script_sx sc with
    | Some m', Some sc' =>
      let '(s, k, n) := run m' (Z.to_nat fuel) (init_state m' sc') 0 in
      SL [sx_stop k; SZ n; sx_st s]
    | _, _ => sx_bad
    end
  | SL [SZ 4; m; sc; SZ k; SZ fuel] =>
    (* run k ticks, raise the interrupt flag, continue *)
    match module_sx m, script_sx sc with
    | Some m', Some sc' =>
      let '(s1, k1, n1) := run m' (Z.to_nat k) (init_state m' sc') 0 in
      match k1 with
      | StFuel =>
        let '(s, k2, n) := run m' (Z.to_nat fuel) (set_irq s1 true) n1 in
        SL [sx_stop k2; SZ n; sx_st s]
      | _ => SL [sx_stop k1; SZ n1; sx_st s1]
      end
    | _, _ => sx_bad
    end
  | _ => sx_bad
  end.
