(* Executable model of the peephole pass QvmCode.optimize (qbee/qvm_codegen.py
   288-465), of the compile-time evaluators it calls (expr.UnaryOp.eval,
   expr.BinaryOp.eval on two literals of the same type, Type.can_hold /
   py_type in the push+conv rule) and of the part of QvmCode.assembled that
   computes offsets and label targets.  Faithful to the Python including its
   quirks; host exceptions escaping optimize() are explicit results.
   No proofs in this file. *)
From Coq Require Import ZArith List Bool Lia.
From QV Require Import Sx Strs Fl Cell Machine.
Import ListNotations.
Open Scope Z_scope.

(* ---------- the instruction list the pass looks at ---------- *)

Inductive unop := UNot | UNeg.
Inductive binop := BAdd | BSub | BMul | BDiv | BAnd | BOr | BXor | BEqv | BImp | BIdiv | BMod | BExp.
Inductive mkind := MLabel | MDbgStart | MDbgEnd | MEmpty.

(* type_char codes: 1 '%'  2 '&'  3 '!'  4 '#'  5 '$'  7 '@'  0 ''   (= CellType numbers)
   scope codes:     0 None 1 'l'  2 'g'
   args of read/store, labels, marker payloads and opaque instructions are
   interned by the harness to integers (optimize only compares them). *)
Inductive pins :=
| PPush (tc : Z) (v : pyval)
| PConv (src dst : Z)
| PRead (scope : Z) (tc : Z) (args : list Z)
| PStore (scope : Z) (args : list Z)
| PUn (o : unop)
| PBin (o : binop)
| PJmp (l : Z)
| PIjmp
| PRet
| PRetv
| PJz (l : Z)
| PHalt
| PMark (k : mkind) (id : Z)      (* every op whose name starts with "_" *)
| POther (id : Z).                (* everything else *)

Definition nop : pins := POther (-1).     (* QvmInstr('nop') stands in for a missing predecessor *)

Definition is_mark (p : pins) : bool := match p with PMark _ _ => true | _ => false end.
Definition is_jump (p : pins) : bool :=
  match p with PJmp _ | PIjmp | PRet | PRetv => true | _ => false end.
Definition is_dbg_mark (p : pins) : bool :=
  match p with PMark MLabel _ => false | PMark _ _ => true | _ => false end.

(* what the assembler and the listing drop, labels kept *)
Definition erase_marks (l : list pins) : list pins := filter (fun p => negb (is_dbg_mark p)) l.
Definition marks (l : list pins) : list pins := filter is_mark l.

(* ---------- compile-time evaluation ---------- *)

(* host exceptions that can escape optimize() *)
Definition E_OVERFLOW := 1.  Definition E_VALUE := 2.  Definition E_TYPE := 3.
Definition E_EVAL := 4.      Definition E_KEY := 5.

Inductive fres :=
| FVal (v : pyval)     (* folded to this Python value *)
| FSkip                (* not folded (exception caught / cannot hold) *)
| FCrash (k : Z)       (* host exception escapes optimize() *)
| FUnk.                (* outside the modelled domain (counted by the harness) *)

Definition fbind (r : fres) (k : pyval -> fres) : fres :=
  match r with FVal v => k v | FSkip => FSkip | FCrash e => FCrash e | FUnk => FUnk end.

(* int(v) *)
Definition py_int_of (v : pyval) : fres :=
  match v with
  | PInt z => FVal (PInt z)
  | PFlt FNaN => FCrash E_VALUE
  | PFlt (FInf _) => FCrash E_OVERFLOW
  | PFlt f => match ftrunc f with Some z => FVal (PInt z) | None => FUnk end
  | PStrV _ => FUnk
  end.

(* float(v); [ovf] = what an OverflowError means at the call site *)
Definition py_float_of (ovf : fres) (v : pyval) : fres :=
  match v with
  | PInt z => match of_Z z with FInf _ => ovf | f => FVal (PFlt f) end
  | PFlt f => FVal (PFlt f)
  | PStrV _ => FUnk
  end.

(* round(f) of a float *)
Definition py_round (ovf : fres) (f : fl) : fres :=
  match f with
  | FNaN => FCrash E_VALUE
  | FInf _ => ovf
  | _ => match fround f with Some z => FVal (PInt z) | None => FUnk end
  end.

(* Type.from_type_char(tc).py_type(v): the value a NumericLiteral stores *)
Definition lit_value (tc : Z) (v : pyval) : fres :=
  if (tc =? 1) || (tc =? 2) then py_int_of v
  else if (tc =? 3) || (tc =? 4) then py_float_of (FCrash E_OVERFLOW) v
  else if tc =? 5 then match v with PStrV _ => FVal v | _ => FUnk end
  else FCrash E_KEY.

(* the push+conv rule: round / can_hold / py_type *)
Definition conv_fold (dst : Z) (v : pyval) : fres :=
  if (dst =? 1) || (dst =? 2) then
    match v with
    | PStrV _ => FSkip
    | _ =>
      fbind (match v with PFlt f => py_round (FCrash E_OVERFLOW) f | _ => FVal v end)
            (fun a => match a with
                      | PInt z => if (if dst =? 1 then in_int z else in_long z)
                                  then FVal (PInt z) else FSkip
                      | _ => FUnk
                      end)
    end
  else if dst =? 3 then
    match v with
    | PInt z => match of_Z z with
                | FInf _ => FSkip
                | f => match to_single f with Some _ => FVal (PFlt f) | None => FSkip end
                end
    | PFlt f => match to_single f with Some _ => FVal (PFlt f) | None => FSkip end
    | PStrV _ => FSkip
    end
  else if dst =? 4 then
    match v with
    | PStrV _ => FSkip
    | _ => py_float_of (FCrash E_OVERFLOW) v
    end
  else if dst =? 5 then
    match v with PStrV _ => FVal v | _ => FSkip end
  else FCrash E_KEY.

(* expr.UnaryOp.eval on NumericLiteral(v, type tc), incl. the clamp *)
Definition fold1 (o : unop) (tc : Z) (v : pyval) : fres :=
  fbind (lit_value tc v) (fun a =>
  if tc =? 5 then FCrash E_EVAL else
  fbind (match o with
         | UNot =>
           fbind (match a with PFlt f => py_round (FCrash E_OVERFLOW) f | _ => FVal a end)
                 (fun r => match r with PInt z => FVal (PInt (Z.lnot z)) | _ => FUnk end)
         | UNeg =>
           match a with
           | PInt z => FVal (PInt (- z))
           | PFlt f => FVal (PFlt (fneg f))
           | _ => FUnk
           end
         end) (fun r =>
  let lo := if tc =? 1 then -32768 else -2147483648 in
  let hi := if tc =? 1 then 32767 else 2147483647 in
  match r with
  | PInt z => FVal (PInt (if (z >? hi) || (z <? lo) then lo else z))
  | PFlt f => if fltb (of_Z hi) f || fltb f (of_Z lo) then FVal (PInt lo) else FVal r
  | _ => FUnk
  end)).

(* BinaryOp.type for two operands of type tc *)
Definition rtype (o : binop) (tc : Z) : Z :=
  match o with
  | BAnd | BOr | BXor | BEqv | BImp | BMod => if tc =? 1 then 1 else 2
  | BDiv => if tc =? 4 then 4 else 3
  | _ => tc
  end.

(* Type.coerce inside eval(): OverflowError is caught by optimize (FSkip) *)
Definition coerce (rt : Z) (v : pyval) : fres :=
  if rt =? 3 then
    match v with
    | PInt z => match of_Z z with
                | FInf _ => FSkip
                | f => match to_single f with Some f' => FVal (PFlt f') | None => FSkip end
                end
    | PFlt f => match to_single f with Some f' => FVal (PFlt f') | None => FSkip end
    | PStrV _ => FUnk
    end
  else if rt =? 4 then py_float_of FSkip v
  else
    match v with
    | PInt z => FVal v
    | PFlt f => py_round FSkip f
    | PStrV _ => FUnk
    end.

Definition two63 : Z := 9223372036854775808.

Definition binop_apply (o : binop) (x y : pyval) : fres :=
  match x, y with
  | PInt a, PInt b =>
    match o with
    | BAdd => FVal (PInt (a + b))
    | BSub => FVal (PInt (a - b))
    | BMul => FVal (PInt (a * b))
    | BAnd => FVal (PInt (Z.land a b))
    | BOr => FVal (PInt (Z.lor a b))
    | BXor => FVal (PInt (Z.lxor a b))
    | BEqv => FVal (PInt (Z.lnot (Z.lxor a b)))
    | BImp => FVal (PInt (Z.lor (Z.lnot a) b))
    | BMod => if b =? 0 then FSkip else FVal (PInt (a mod b))
    | BIdiv => if b =? 0 then FSkip else FVal (PInt (a / b))
    | BExp =>
      if b >=? 0 then
        (* |a| >= 2 and b >= 64: the power exceeds every limit() range, which
           raises OverflowError; not computing it keeps the model executable *)
        if (2 <=? Z.abs a) && (64 <=? b) then FSkip else FVal (PInt (a ^ b))
      else if a =? 0 then FSkip            (* ZeroDivisionError *)
      else FCrash E_TYPE                   (* a float reaches ctypes.c_short/c_long *)
    | BDiv => FUnk
    end
  | PFlt a, PFlt b =>
    match o with
    | BAdd => FVal (PFlt (fadd a b))
    | BSub => FVal (PFlt (fsub a b))
    | BMul => FVal (PFlt (fmul a b))
    | BDiv => if is_zero b then FSkip else FVal (PFlt (fdiv a b))
    | BExp =>
      match py_pow x y with
      | PowV v => FVal v
      | PowZeroDiv => FSkip
      | PowOverflow => FSkip
      | PowComplex => FUnk
      | PowUnknown => FUnk
      end
    | _ => FUnk           (* float // : not modelled; logical ops and MOD never get floats *)
    end
  | _, _ => FUnk
  end.

(* limit(): only when the operand type is integral *)
Definition limit (tc rt : Z) (r : pyval) : fres :=
  if (tc =? 3) || (tc =? 4) then FVal r
  else
    match r with
    | PInt z =>
      if rt =? 1 then (if in_int z then FVal r else FSkip)
      else if rt =? 2 then (if (- two63 <=? z) && (z <? two63) then FVal r else FSkip)   (* c_long is 64 bits wide *)
      else FUnk
    | PFlt f =>
      if rt =? 3 then
        match to_single f with
        | Some f' => if feqb f' f then FVal (PFlt f') else FSkip
        | None => FSkip
        end
      else FUnk
    | _ => FUnk
    end.

(* BinaryOp(NumericLiteral(a, tc), NumericLiteral(b, tc), o).eval() as used by the push/push/op rule *)
Definition fold2 (o : binop) (tc : Z) (a b : pyval) : fres :=
  fbind (lit_value tc a) (fun la =>
  fbind (lit_value tc b) (fun lb =>
  if tc =? 5 then
    match la, lb with
    | PStrV x, PStrV y => FVal (PStrV (x ++ y))      (* _eval_string: concatenation, whatever the operator *)
    | _, _ => FUnk
    end
  else
    let rt := rtype o tc in
    fbind (coerce rt la) (fun x =>
    fbind (coerce rt lb) (fun y =>
    fbind (binop_apply o x y) (fun r => limit tc rt r))))).

(* ---------- the loop ---------- *)

Definition get (l : list pins) (i : Z) : pins := nth (Z.to_nat i) l nop.
Definition del (l : list pins) (i : Z) : list pins :=
  firstn (Z.to_nat i) l ++ skipn (S (Z.to_nat i)) l.
Definition setn (l : list pins) (i : Z) (x : pins) : list pins :=
  firstn (Z.to_nat i) l ++ x :: skipn (S (Z.to_nat i)) l.

Fixpoint zs_eqb (a b : list Z) : bool :=
  match a, b with
  | [], [] => true
  | x :: a', y :: b' => (x =? y) && zs_eqb a' b'
  | _, _ => false
  end.

(* prev1.args[0] == 0 *)
Definition py_eq0 (v : pyval) : bool :=
  match v with PInt z => z =? 0 | PFlt f => is_zero f | PStrV _ => false end.

Inductive sres := SNext (l : list pins) (i : Z) | SCrash (k : Z) | SUnk.

Section Opt.
Variable convf : Z -> pyval -> fres.
Variable f1 : unop -> Z -> pyval -> fres.
Variable f2 : binop -> Z -> pyval -> pyval -> fres.

(* rule 1: push + conv *)
Definition r_push_conv (l : list pins) (i : Z) (cur prev1 : pins) : option sres :=
  match cur, prev1 with
  | PConv src dst, PPush tc v =>
    if src =? tc then
      Some (match convf dst v with
            | FVal v' => SNext (del (setn l (i - 1) (PPush dst v')) i) (i - 1)
            | FSkip => SNext l (i + 1)
            | FCrash k => SCrash k
            | FUnk => SUnk
            end)
    else None
  | _, _ => None
  end.

(* rule 2: read + store of the same variable *)
Definition r_read_store (l : list pins) (i : Z) (cur prev1 : pins) : option sres :=
  match cur, prev1 with
  | PStore sc args, PRead sc' _ args' =>
    if (sc =? sc') && zs_eqb args args' then Some (SNext (del (del l i) (i - 1)) (i - 2))
    else None
  | _, _ => None
  end.

(* rule 3: push + not/neg (no try/except around eval) *)
Definition r_push_un (l : list pins) (i : Z) (cur prev1 : pins) : option sres :=
  match cur, prev1 with
  | PUn o, PPush tc v =>
    Some (match f1 o tc v with
          | FVal v' => SNext (del (setn l (i - 1) (PPush tc v')) i) (i - 1)
          | FSkip => SUnk
          | FCrash k => SCrash k
          | FUnk => SUnk
          end)
  | _, _ => None
  end.

(* rule 4: push + push + binary op, same type char *)
Definition r_push_bin (l : list pins) (i : Z) (cur prev1 prev2 : pins) : option sres :=
  match cur, prev1, prev2 with
  | PBin o, PPush t1 b, PPush t2 a =>
    if t1 =? t2 then
      Some (match f2 o t1 a b with
            | FVal v' => SNext (del (del (setn l (i - 2) (PPush t1 v')) i) (i - 1)) (i - 2)
            | FSkip => SNext l (i + 1)
            | FCrash k => SCrash k
            | FUnk => SUnk
            end)
    else None
  | _, _, _ => None
  end.

(* rule 5: two jump-like instructions in a row *)
Definition r_jmp_jmp (l : list pins) (i : Z) (cur prev1 : pins) : option sres :=
  if is_jump cur && is_jump prev1 then Some (SNext (del l i) (i - 1)) else None.

(* rules 6 and 7 and the final i += 1: rule 6 has no [continue]; rule 7 then
   tests the stale [cur]/[prev1] against the already updated list and index *)
Definition r_tail (l : list pins) (i : Z) (cur prev1 : pins) : sres :=
  let '(l1, i1) :=
    match cur, prev1 with
    | PJz t, PPush tc v =>
      if tc =? 1 then
        if py_eq0 v then (setn (del l (i - 1)) (i - 1) (PJmp t), i - 1)
        else (del (del l i) (i - 1), i - 2)
      else (l, i)
    | _, _ => (l, i)
    end in
  let '(l2, i2) :=
    match prev1 with
    | PHalt => if is_mark cur then (l1, i1) else (del l1 i1, i1 - 1)
    | _ => (l1, i1)
    end in
  SNext l2 (i2 + 1).

Definition orelse (a : option sres) (b : sres) : sres :=
  match a with Some r => r | None => b end.

(* one iteration of the while body; 0 <= i < len l *)
Definition step (l : list pins) (i : Z) : sres :=
  let cur := get l i in
  let prev1 := if 0 <? i then get l (i - 1) else nop in
  let prev2 := if 1 <? i then get l (i - 2) else nop in
  orelse (r_push_conv l i cur prev1)
  (orelse (r_read_store l i cur prev1)
  (orelse (r_push_un l i cur prev1)
  (orelse (r_push_bin l i cur prev1 prev2)
  (orelse (r_jmp_jmp l i cur prev1)
  (r_tail l i cur prev1))))).

Inductive ostatus := ODone | OFuel | OCrash (k : Z) | OUnk.

Fixpoint opt_loop (fuel : nat) (l : list pins) (i : Z) : list pins * ostatus :=
  match fuel with
  | O => (l, OFuel)
  | S f =>
    match l with
    | [] => (l, ODone)                       (* while self._instrs and ... *)
    | _ =>
      if i <? Z.of_nat (length l) then
        let i0 := if i <? 0 then 0 else i in
        match step l i0 with
        | SNext l' i' => opt_loop f l' i'
        | SCrash k => (l, OCrash k)
        | SUnk => (l, OUnk)
        end
      else (l, ODone)
    end
  end.

End Opt.

Definition optimize_st (fuel : nat) (l : list pins) : list pins * ostatus :=
  opt_loop conv_fold fold1 fold2 fuel l 0.

Definition optimize (fuel : nat) (l : list pins) : list pins := fst (optimize_st fuel l).

(* enough for every list: each iteration lowers 3*len - i *)
Definition opt_fuel (l : list pins) : nat := 3 * length l + 3.

(* ---------- the offset / label part of QvmCode.assembled ---------- *)

(* encoded size of an instruction (marks emit nothing).  Opaque instructions
   get their size from the harness ([osize]). *)
Definition small_const (v : pyval) : bool :=
  match v with
  | PInt z => (-2 <=? z) && (z <=? 2)
  | PFlt f => feqb f (of_Z (-2)) || feqb f (of_Z (-1)) || is_zero f || feqb f (of_Z 1) || feqb f (of_Z 2)
  | PStrV _ => false
  end.

Definition isize (osize : Z -> Z) (p : pins) : Z :=
  match p with
  | PPush tc v =>
    if small_const v then 1
    else if tc =? 1 then 3 else if tc =? 2 then 5 else if tc =? 3 then 5
    else if tc =? 4 then 9 else 3
  | PConv _ _ | PUn _ | PBin _ | PIjmp | PRet | PRetv | PHalt => 1
  | PRead _ _ _ | PStore _ _ => 3
  | PJmp _ | PJz _ => 5
  | PMark _ _ => 0
  | POther id => osize id
  end.

Record asm_out := mkAsm {
  a_code : list (pins * Z * Z);      (* emitted instruction, its offset, current routine label *)
  a_labels : list (Z * Z);           (* label id -> offset, in order of definition *)
  a_len : Z;
}.

(* [routine_of id]: Some r when label id names a routine (_sub_/_func_ prefix) *)
Fixpoint asm_go (size : pins -> Z) (routine_of : Z -> option Z)
         (l : list pins) (off cur : Z) : asm_out :=
  match l with
  | [] => mkAsm [] [] off
  | PMark MLabel id :: r =>
    let cur' := match routine_of id with Some c => c | None => cur end in
    let o := asm_go size routine_of r off cur' in
    mkAsm (a_code o) ((id, off) :: a_labels o) (a_len o)
  | PMark _ _ :: r => asm_go size routine_of r off cur       (* debug collector calls only *)
  | p :: r =>
    let o := asm_go size routine_of r (off + size p) cur in
    mkAsm ((p, off, cur) :: a_code o) (a_labels o) (a_len o)
  end.

Definition asm (size : pins -> Z) (routine_of : Z -> option Z) (l : list pins) : asm_out :=
  asm_go size routine_of l 0 0.

(* labels[label]: a later definition of the same name overwrites an earlier one *)
Fixpoint label_addr (labels : list (Z * Z)) (id : Z) : option Z :=
  match labels with
  | [] => None
  | (k, o) :: r =>
    match label_addr r id with
    | Some o' => Some o'
    | None => if k =? id then Some o else None
    end
  end.
