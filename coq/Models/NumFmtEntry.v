From Coq Require Import ZArith List Bool.
From QV Require Import Sx Strs Fl Dec NumFmt.
Import ListNotations.
Open Scope Z_scope.

Definition sx_optfl (o : option fl) : sx :=
  match o with Some f => SL [SZ (bits_of_fl f)] | None => SL [] end.
Definition sx_optZ (o : option Z) : sx :=
  match o with Some z => SL [SZ z] | None => SL [] end.

(* 1: format_number int   (1 z)
   2: format_number float (2 single bits)
   3: repr                (3 bits)
   4: round(x, nd)        (4 bits nd)
   5: int(s)              (5 str)
   6: float(s)            (6 str) *)
Definition numfmt_entry (x : sx) : sx :=
  match x with
  | SL [SZ 1; SZ z] => sx_str (fmt_int z)
  | SL [SZ 2; SZ single; SZ b] => sx_str (fmt_float (negb (single =? 0)) (fl_of_bits b))
  | SL [SZ 3; SZ b] => sx_str (py_repr (fl_of_bits b))
  | SL [SZ 4; SZ b; SZ nd] => SZ (bits_of_fl (py_round_nd (fl_of_bits b) nd))
  | SL [SZ 5; s] => match get_str s with Some s => sx_optZ (py_int s) | None => sx_bad end
  | SL [SZ 6; s] => match get_str s with Some s => sx_optfl (py_float s) | None => sx_bad end
  | _ => sx_bad
  end.
