(* INPUT.  Three parts, no proofs here:

   1. the SPECIFICATION (what property C18 demands), independent of the code
      model: prompt text, the fields of a response line, which field texts
      are well-formed numbers a type holds, the run of a statement over a
      list of response lines (spec_run);
   2. the CODE: a faithful model of qvm/machine.py TerminalDevice._exec_input
      over an operand stack of cells (head = top) and a list of response
      lines (exec_input), the tiny models of grammar.parse_input (stmt_of_form)
      and of what qvm_codegen.gen_input pushes (encode_input) and stores
      afterwards (do_stores);
   3. exec_input_fixed: the code after the proposed repair of defect D13
      (fixes/C18-D13.diff): convert every field first, push afterwards. *)
From Coq Require Import ZArith List Bool Lia.
From QV Require Import Sx Strs Fl Dec NumFmt Cell.
Import ListNotations.
Open Scope Z_scope.

(* ------------------------------------------------------------------ *)
(* shared vocabulary: terminal events and variable types               *)

Inductive ev :=
| EPrint (s : str)                    (* impl.terminal_print(s) *)
| EInput (same_line : Z) (line : str) (* impl.terminal_input(same_line) returned line *).

Inductive vty := VInt | VLong | VSingle | VDouble | VString.

(* expr.Type.type_id = BuiltinType value = CellType value *)
Definition ty_id (t : vty) : Z :=
  match t with VInt => 1 | VLong => 2 | VSingle => 3 | VDouble => 4 | VString => 5 end.

Definition s_question : str := [63; 32].                      (* "? " *)
Definition s_redo : str :=                                     (* "Redo from start\r\n" *)
  [82; 101; 100; 111; 32; 102; 114; 111; 109; 32; 115; 116; 97; 114; 116; 13; 10].

(* ------------------------------------------------------------------ *)
(* 1. SPECIFICATION                                                     *)

(* the three prompt forms of the statement:  INPUT v.. | INPUT "p"; v.. | INPUT "p", v.. *)
Inductive pform := FNone | FSemi (p : str) | FComma (p : str).

(* text shown before the user types: the literal prompt, then "? " when there
   is no prompt or the prompt is followed by a semicolon *)
Definition spec_prompt_text (f : pform) : str :=
  match f with
  | FNone => s_question
  | FSemi p => p ++ s_question
  | FComma p => p
  end.

(* the fields of a response line: split at every comma, white space trimmed
   on both sides (white space = what Python's str.strip removes; on terminal
   lines that is blanks and tabs) *)
Definition spec_fields (line : str) : list str := map py_strip (split_commas line).

(* numeral syntax the specification admits.  Deliberately the plain decimal
   forms only:
     integer variable:  [+|-] digit+
     float variable:    [+|-] (digit+ [. digit*] | . digit+) [(e|E) [+|-] digit+]
   The statement of C18 is one-directional ("accepted ONLY IF well-formed"),
   so QBASIC forms outside this grammar (the D exponent of doubles = D23 under
   C16, a fraction typed for an integer variable, &H..) are simply not
   acceptable here, which is also what the code does with them. *)
Fixpoint all_digits (s : str) : bool :=
  match s with [] => true | c :: r => is_digit c && all_digits r end.

Definition unsigned_int_syntax (s : str) : bool :=
  match s with [] => false | _ => all_digits s end.

Definition drop_sign (s : str) : str :=
  match s with
  | c :: r => if (c =? ch_minus) || (c =? ch_plus) then r else s
  | [] => []
  end.

Definition int_syntax (s : str) : bool := unsigned_int_syntax (drop_sign s).

Fixpoint take_digits (s : str) : str * str :=
  match s with
  | c :: r => if is_digit c then let '(d, rest) := take_digits r in (c :: d, rest) else ([], s)
  | [] => ([], [])
  end.

Definition exp_syntax (s : str) : bool :=
  match s with
  | [] => true
  | c :: r => ((c =? ch_e) || (c =? ch_E)) && unsigned_int_syntax (drop_sign r)
  end.

Definition float_syntax (s0 : str) : bool :=
  let s := drop_sign s0 in
  let '(ip, r) := take_digits s in
  match r with
  | c :: r' =>
    if c =? ch_dot then
      let '(fp, r'') := take_digits r' in
      (negb (Nat.eqb (length ip) 0) || negb (Nat.eqb (length fp) 0)) && exp_syntax r''
    else negb (Nat.eqb (length ip) 0) && exp_syntax r
  | [] => negb (Nat.eqb (length ip) 0)
  end.

(* the value a well-formed field denotes, as a cell of the variable's type;
   None = not a well-formed number the type can hold.  Numeric values are
   those of NumFmt.py_int / py_float (correct rounding to binary64), a SINGLE
   additionally rounded to binary32.

   [strict = true] is what C18 demands: the numeral syntax above and a finite
   value (an overflowing numeral is not "held" by the type).
   [strict = false] is the same definition RELATIVE to the numerals Python's
   int()/float() read: no syntax test, no finiteness test.  It admits
   "1_0", "nan", "inf", "infinity", "1e400": defect D29. *)
Definition spec_value (strict : bool) (t : vty) (f : str) : option cell :=
  match t with
  | VInt => if negb strict || int_syntax f then
              match py_int f with Some z => if in_int z then Some (CI z) else None | None => None end
            else None
  | VLong => if negb strict || int_syntax f then
               match py_int f with Some z => if in_long z then Some (CL z) else None | None => None end
             else None
  | VSingle => if negb strict || float_syntax f then
                 match py_float f with
                 | Some x => if negb strict || is_finite x then option_map CS (to_single x) else None
                 | None => None
                 end
               else None
  | VDouble => if negb strict || float_syntax f then
                 match py_float f with
                 | Some x => if negb strict || is_finite x then Some (CD x) else None
                 | None => None
                 end
               else None
  | VString => Some (CStr f)
  end.

(* a line is acceptable iff it has exactly one field per variable and every
   field has a value; the result lists the values in variable order *)
Fixpoint spec_values (strict : bool) (ts : list vty) (fs : list str) : option (list cell) :=
  match ts, fs with
  | [], [] => Some []
  | t :: ts', f :: fs' =>
    match spec_value strict t f, spec_values strict ts' fs' with
    | Some c, Some cs => Some (c :: cs)
    | _, _ => None
    end
  | _, _ => None
  end.

Definition spec_accept (strict : bool) (ts : list vty) (line : str) : option (list cell) :=
  spec_values strict ts (spec_fields line).

(* outcome of one INPUT statement over a list of response lines *)
Inductive sres :=
| SDone (evs : list ev) (vals : list cell)   (* values assigned to variable 1..k *)
| SExhausted (evs : list ev).                (* the user never typed an acceptable line *)

Definition spec_ask (f : pform) (sl : Z) (line : str) : list ev :=
  [EPrint (spec_prompt_text f); EInput sl line].

Definition s_pre (pre : list ev) (r : sres) : sres :=
  match r with
  | SDone e v => SDone (pre ++ e) v
  | SExhausted e => SExhausted (pre ++ e)
  end.

Fixpoint spec_run (strict : bool) (f : pform) (sl : Z) (ts : list vty) (lines : list str) : sres :=
  match lines with
  | [] => SExhausted [EPrint (spec_prompt_text f)]
  | l :: rest =>
    match spec_accept strict ts l with
    | Some vals => SDone (spec_ask f sl l) vals
    | None => s_pre (spec_ask f sl l ++ [EPrint s_redo]) (spec_run strict f sl ts rest)
    end
  end.

(* the text of a run: consecutive terminal_print calls concatenated; texts
   are compared, not the way they are cut into calls.  [norm] joins adjacent
   prints: the result alternates one EPrint (possibly empty) and one EInput
   and ends in an EPrint. *)
Fixpoint norm_acc (evs : list ev) (acc : str) : list ev :=
  match evs with
  | [] => [EPrint acc]
  | EPrint s :: r => norm_acc r (acc ++ s)
  | EInput sl l :: r => EPrint acc :: EInput sl l :: norm_acc r []
  end.

Definition norm (evs : list ev) : list ev := norm_acc evs [].

(* ------------------------------------------------------------------ *)
(* 2. THE CODE                                                          *)

Inductive trapk := TTypeMismatch | TStackEmpty | TDeviceError.

Inductive ires :=
| IDone (evs : list ev) (st : list cell)
| ITrap (k : trapk) (evs : list ev) (st : list cell)
| IExhausted (evs : list ev) (st : list cell).   (* harness condition: no more lines *)

Definition i_pre (pre : list ev) (r : ires) : ires :=
  match r with
  | IDone e s => IDone (pre ++ e) s
  | ITrap k e s => ITrap k (pre ++ e) s
  | IExhausted e s => IExhausted (pre ++ e) s
  end.

(* one field -> one cell of type id [ty]   (the body of the for loop) *)
Inductive conv := CvOk (c : cell) | CvBad | CvUnknown.

Definition convert (ty : Z) (v : str) : conv :=
  if ty =? 1 then
    match py_int v with
    | Some z => if (z <? -32768) || (z >? 32767) then CvBad else CvOk (CI z)
    | None => CvBad
    end
  else if ty =? 2 then
    match py_int v with
    | Some z => if (z <? -2147483648) || (z >=? 2147483648) then CvBad else CvOk (CL z)
    | None => CvBad
    end
  else if ty =? 3 then
    match py_float v with
    | Some x => match to_single x with        (* can_hold: struct.pack('>f') *)
                | Some y => CvOk (CS y)       (* CellValue coerces: pack/unpack *)
                | None => CvBad
                end
    | None => CvBad
    end
  else if ty =? 4 then
    match py_float v with
    | Some x => CvOk (CD x)
    | None => CvBad
    end
  else if ty =? 5 then CvOk (CStr v)
  else CvUnknown.

Inductive pvres :=
| PVOk (st : list cell)        (* return True *)
| PVReject (st : list cell)    (* return False *)
| PVTrap (st : list cell).     (* _device_error: unknown type id *)

(* for v, vtype in reversed(list(zip(values, var_types))): convert, push.
   [pairs] is already reversed (rightmost field first). *)
Fixpoint push_rev (pairs : list (str * Z)) (st : list cell) : pvres :=
  match pairs with
  | [] => PVOk st
  | (v, ty) :: r =>
    match convert ty v with
    | CvOk c => push_rev r (c :: st)
    | CvBad => PVReject st
    | CvUnknown => PVTrap st
    end
  end.

Definition fields (line : str) : list str := map py_strip (split_commas line).

Definition push_vars (line : str) (tys : list Z) (st : list cell) : pvres :=
  let vs := fields line in
  if Nat.eqb (length vs) (length tys) then push_rev (rev (combine vs tys)) st
  else PVReject st.

Definition ask (q : bool) (prompt : str) (sl : Z) (line : str) : list ev :=
  EPrint prompt :: (if q then [EPrint s_question] else []) ++ [EInput sl line].

Definition ask_only (q : bool) (prompt : str) : list ev :=
  EPrint prompt :: (if q then [EPrint s_question] else []).

(* the while True loop *)
Fixpoint input_loop (pv : str -> list Z -> list cell -> pvres)
         (q : bool) (prompt : str) (sl : Z) (tys : list Z)
         (lines : list str) (st : list cell) : ires :=
  match lines with
  | [] => IExhausted (ask_only q prompt) st
  | l :: rest =>
    match pv l tys st with
    | PVOk st' => IDone (ask q prompt sl l) st'
    | PVReject st' =>
      i_pre (ask q prompt sl l ++ [EPrint s_redo]) (input_loop pv q prompt sl tys rest st')
    | PVTrap st' => ITrap TDeviceError (ask q prompt sl l) st'
    end
  end.

(* cpu.pop(CellType.INTEGER) n times; the popped values consed = the list
   after list(reversed(var_types)) *)
Inductive popres :=
| PopOk (tys : list Z) (st : list cell)
| PopTrap (k : trapk) (st : list cell).

Fixpoint pop_types (n : Z) (st : list cell) (acc : list Z) : popres :=
  if n <=? 0 then PopOk acc st else
  match st with
  | [] => PopTrap TStackEmpty []
  | CI z :: r => pop_types (n - 1) r (z :: acc)
  | _ :: r => PopTrap TTypeMismatch r     (* the cell is popped before the type test *)
  end.

Definition exec_input_gen (pv : str -> list Z -> list cell -> pvres)
           (lines : list str) (st : list cell) : ires :=
  match st with
  | [] => ITrap TStackEmpty [] []
  | CI nvars :: st1 =>
    if nvars <=? 0 then ITrap TDeviceError [] st1 else
    match pop_types nvars st1 [] with
    | PopTrap k st2 => ITrap k [] st2
    | PopOk tys st2 =>
      match st2 with
      | [] => ITrap TStackEmpty [] []
      | CI q :: st3 =>
        match st3 with
        | [] => ITrap TStackEmpty [] []
        | CStr prompt :: st4 =>
          match st4 with
          | [] => ITrap TStackEmpty [] []
          | CI sl :: st5 => input_loop pv (negb (q =? 0)) prompt sl tys lines st5
          | _ :: st5 => ITrap TTypeMismatch [] st5
          end
        | _ :: st4 => ITrap TTypeMismatch [] st4
        end
      | _ :: st3 => ITrap TTypeMismatch [] st3
      end
    end
  | _ :: st1 => ITrap TTypeMismatch [] st1
  end.

Definition exec_input := exec_input_gen push_vars.

(* ---- grammar.parse_input and qvm_codegen.gen_input ---- *)

Record istmt := {
  i_same_line : bool;     (* INPUT ; ...  *)
  i_prompt : str;
  i_question : bool;
  i_tys : list vty;
}.

(* parse_input: no prompt -> StringLiteral(''), question; "p"; -> question; "p", -> none *)
Definition stmt_of_form (same_line : bool) (f : pform) (ts : list vty) : istmt :=
  match f with
  | FNone => {| i_same_line := same_line; i_prompt := []; i_question := true; i_tys := ts |}
  | FSemi p => {| i_same_line := same_line; i_prompt := p; i_question := true; i_tys := ts |}
  | FComma p => {| i_same_line := same_line; i_prompt := p; i_question := false; i_tys := ts |}
  end.

Definition flag (b : bool) : Z := if b then -1 else 0.

(* cells pushed by gen_input before "io terminal,input", in push order *)
Definition encode_input (s : istmt) : list cell :=
  [CI (flag (i_same_line s)); CStr (i_prompt s); CI (flag (i_question s))]
  ++ map (fun t => CI (ty_id t)) (i_tys s)
  ++ [CI (Z.of_nat (length (i_tys s)))].

(* the operand stack when the io instruction executes: last pushed on top *)
Definition stack_at_io (s : istmt) (st : list cell) : list cell := rev (encode_input s) ++ st.

(* after the io: "for var in node.var_list: gen_lvalue_write(var)": each store
   pops the top cell and writes it to the next target, first variable first *)
Fixpoint do_stores (targets : list Z) (st : list cell) (written : list (Z * cell))
  : option (list cell * list (Z * cell)) :=
  match targets with
  | [] => Some (st, written)
  | t :: ts =>
    match st with
    | c :: r => do_stores ts r (written ++ [(t, c)])
    | [] => None
    end
  end.

(* ------------------------------------------------------------------ *)
(* 3. THE CODE AFTER THE REPAIR OF D13                                  *)

(* convert right to left into a pending list, push it only when every field
   converted *)
Fixpoint convert_rev (pairs : list (str * Z)) (pending : list cell) : option (option (list cell)) :=
  (* Some (Some cells) = all converted; Some None = a bad field; None = unknown type id *)
  match pairs with
  | [] => Some (Some pending)
  | (v, ty) :: r =>
    match convert ty v with
    | CvOk c => convert_rev r (c :: pending)
    | CvBad => Some None
    | CvUnknown => None
    end
  end.

Definition push_vars_fixed (line : str) (tys : list Z) (st : list cell) : pvres :=
  let vs := fields line in
  if Nat.eqb (length vs) (length tys) then
    match convert_rev (rev (combine vs tys)) [] with
    | Some (Some cells) => PVOk (cells ++ st)
    | Some None => PVReject st
    | None => PVTrap st
    end
  else PVReject st.

Definition exec_input_fixed := exec_input_gen push_vars_fixed.

(* ------------------------------------------------------------------ *)
(* projections used in statements                                      *)

Definition ires_evs (r : ires) : list ev :=
  match r with IDone e _ | ITrap _ e _ | IExhausted e _ => e end.

Definition ires_stack (r : ires) : list cell :=
  match r with IDone _ s | ITrap _ _ s | IExhausted _ s => s end.

(* the cells a rejected line leaves behind in the code as it is (D13):
   what push_vars pushed on an empty stack before it returned False *)
Definition stale (tys : list Z) (line : str) : list cell :=
  match push_vars line tys [] with PVReject s => s | _ => [] end.

(* what the code shows for one rejected line: the prompt, the line, the message *)
Definition redo_block (q : bool) (p : str) (sl : Z) (b : str) : list ev :=
  ask q p sl b ++ [EPrint s_redo].

(* a run of the code meets a run of the specification, the operand stack
   having been [st] before the statement: same texts (up to the way they are
   cut into terminal_print calls), the specified values on top of [st], first
   variable's value on top, nothing else *)
Definition meets (r : ires) (s : sres) (st : list cell) : Prop :=
  match s with
  | SDone e v => exists e', r = IDone e' (v ++ st) /\ forall acc, norm_acc e' acc = norm_acc e acc
  | SExhausted e => exists e', r = IExhausted e' st /\ forall acc, norm_acc e' acc = norm_acc e acc
  end.
