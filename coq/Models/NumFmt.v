(* Model of qvm/utils.py format_number (number -> text as PRINT / STR$ show it)
   and of the three text -> number paths used by READ / INPUT (Python int(),
   float()).  Floats are Base/Fl values; Python repr / round come from Base/Dec. *)
From Coq Require Import ZArith List Bool Lia.
From QV Require Import Sx Strs Fl Dec.
Import ListNotations.
Open Scope Z_scope.

Inductive nty := TInt | TLong | TSingle | TDouble.

Definition nty_of_id (z : Z) : option nty :=
  if z =? 1 then Some TInt else if z =? 2 then Some TLong
  else if z =? 3 then Some TSingle else if z =? 4 then Some TDouble else None.

Definition fmt_int (z : Z) : str :=
  if z >=? 0 then ch_space :: Z_to_dec z else Z_to_dec z.

Fixpoint index_of (c : Z) (s : str) (i : Z) : option Z :=
  match s with
  | [] => None
  | d :: r => if d =? c then Some i else index_of c r (i + 1)
  end.

Definition mem_ch (c : Z) (s : str) : bool :=
  match index_of c s 0 with Some _ => true | None => false end.

Definition strip_dot0 (s : str) : str :=
  match rev s with
  | 48 :: 46 :: r => rev r
  | _ => s
  end.

Definition c_float (x : fl) : fl :=
  match x with
  | FFin n m e => if m <=? 0 then x else round32 n m e false
  | _ => x
  end.

Definition fl_ge0 (x : fl) : bool :=
  match x with
  | FNaN => false
  | FInf n => negb n
  | FFin n m _ => (m <=? 0) || negb n
  end.

Definition fmt_float (single : bool) (x0 : fl) : str :=
  let x := if single then c_float x0 else x0 in
  let x1 :=
    if single then
      let sn := py_repr x in
      match index_of ch_dot sn 0 with
      | Some bd => if mem_ch ch_e sn then x else py_round_nd x (7 - bd)
      | None => x
      end
    else x in
  let s := strip_dot0 (py_repr x1) in
  let s := map (fun c => if c =? ch_e then (if single then ch_E else ch_D) else c) s in
  if fl_ge0 x1 then ch_space :: s else s.

(* ---- text -> number ---- *)

(* Python int(s) for the ASCII subset: optional blanks, sign, digits with
   single underscores between digits.  None = ValueError. *)
Fixpoint int_digits (s : str) (acc : Z) (prev_digit : bool) : option Z :=
  match s with
  | [] => if prev_digit then Some acc else None
  | c :: r =>
    if is_digit c then int_digits r (acc * 10 + (c - 48)) true
    else if (c =? ch_us) && prev_digit then
      match r with
      | d :: _ => if is_digit d then int_digits r acc false else None
      | [] => None
      end
    else None
  end.

Definition py_int (s0 : str) : option Z :=
  let s := py_strip s0 in
  match s with
  | [] => None
  | c :: r =>
    if c =? ch_minus then option_map Z.opp (int_digits r 0 false)
    else if c =? ch_plus then int_digits r 0 false
    else int_digits s 0 false
  end.

(* Python float(s), ASCII subset: [sign] (digits [. digits] | . digits) [e [sign] digits]
   with underscores between digits, or inf / infinity / nan (any case). *)
Definition lower (c : Z) : Z := if (65 <=? c) && (c <=? 90) then c + 32 else c.

(* digit run with single underscores: returns (value, count, rest) *)
Fixpoint digit_run (s : str) (acc cnt : Z) (prev_digit : bool) : option (Z * Z * str) :=
  match s with
  | [] => Some (acc, cnt, [])
  | c :: r =>
    if is_digit c then digit_run r (acc * 10 + (c - 48)) (cnt + 1) true
    else if (c =? ch_us) then
      if prev_digit then
        match r with
        | d :: _ => if is_digit d then digit_run r acc cnt false else None
        | [] => None
        end
      else None
    else Some (acc, cnt, s)
  end.

Definition parse_exp (s : str) : option Z :=
  match s with
  | [] => Some 0
  | c :: r =>
    if lower c =? ch_e then
      let '(neg, r') := match r with
                        | d :: r'' => if d =? ch_minus then (true, r'')
                                      else if d =? ch_plus then (false, r'') else (false, r)
                        | [] => (false, r) end in
      match digit_run r' 0 0 false with
      | Some (v, cnt, []) => if cnt =? 0 then None else Some (if neg then - v else v)
      | _ => None
      end
    else None
  end.

Definition py_float_mag (neg : bool) (s : str) : option fl :=
  let ls := map lower s in
  if str_eqb ls s_inf || str_eqb ls (s_inf ++ [105; 110; 105; 116; 121]) then Some (FInf neg)
  else if str_eqb ls s_nan then Some FNaN
  else
    match digit_run s 0 0 false with
    | None => None
    | Some (ip, icnt, r) =>
      let after_frac :=
        match r with
        | c :: r' =>
          if c =? ch_dot then
            (* an underscore may not follow the dot directly *)
            match r' with
            | u :: _ => if u =? ch_us then None else
                match digit_run r' ip 0 false with
                | Some (v, fcnt, r'') => Some (v, fcnt, r'')
                | None => None
                end
            | [] => Some (ip, 0, [])
            end
          else Some (ip, 0, r)
        | [] => Some (ip, 0, [])
        end in
      match after_frac with
      | None => None
      | Some (v, fcnt, r2) =>
        if (icnt =? 0) && (fcnt =? 0) then None
        else match parse_exp r2 with
             | None => None
             | Some ex =>
               (* guard against astronomically large exponents: clamp, the
                  result is 0 or inf either way *)
               let ex' := if ex >? 100000 then 100000 else if ex <? -100000 then -100000 else ex in
               Some (dec_to_fl neg v (ex' - fcnt))
             end
      end
    end.

Definition py_float (s0 : str) : option fl :=
  let s := py_strip s0 in
  match s with
  | [] => None
  | c :: r =>
    if c =? ch_minus then py_float_mag true r
    else if c =? ch_plus then py_float_mag false r
    else py_float_mag false s
  end.
