(* Boundary / frame checker run on every decoded module (translation
   validation): jump, call and error-handler targets are instruction starts,
   local variable operands lie inside the frame declared by the nearest
   preceding [frame p l], global operands lie below n_global_cells; and the
   frame declarations against the storage the routines need.
   No proofs here (Proofs/TargetsProofs.v). *)
From Coq Require Import ZArith List Bool.
From QV Require Import Sx Strs Fl Machine Cpu Instrs Codec.
Import ListNotations.
Open Scope Z_scope.

(* the code address an instruction transfers control to (errhand 0 = off,
   errhand 1 = resume next are reserved codes, not addresses) *)
Definition jump_target (i : instr) : option Z :=
  match i with
  | ICall t | IJmp t | IJz t => Some t
  | IErrhand t => if (t =? 0) || (t =? 1) then None else Some t
  | _ => None
  end.

(* (first, last) frame cell index an instruction names in its operands *)
Definition local_extent (i : instr) : option (Z * Z) :=
  match i with
  | IPushrefl v | IRead true _ v | IStore true v => Some (v, v)
  | IReadidx true _ v k | IStoreidx true v k => Some (v, v + k)
  | IInitarrl v n _ => Some (v, v + 2 + 2 * n)      (* array header cells *)
  | _ => None
  end.

Definition global_extent (i : instr) : option (Z * Z) :=
  match i with
  | IPushrefg v | IRead false _ v | IStore false v => Some (v, v)
  | IReadidx false _ v k | IStoreidx false v k => Some (v, v + k)
  | IInitarrg v n _ => Some (v, v + 2 + 2 * n)
  | _ => None
  end.

Definition frame_step (cur : option Z) (i : instr) : option Z :=
  match i with IFrame p l => Some (p + l) | _ => cur end.

(* frame size declared by the last [frame] of a prefix *)
Definition frame_of (pre : list (Z * instr)) : option Z :=
  fold_left (fun cur e => frame_step cur (snd e)) pre None.

Definition zin (z : Z) (l : list Z) : bool := existsb (Z.eqb z) l.

Definition target_okb (starts : list Z) (i : instr) : bool :=
  match jump_target i with Some t => zin t starts | None => true end.

Definition local_okb (cur : option Z) (i : instr) : bool :=
  match local_extent i with
  | Some (a, b) => match cur with Some size => (0 <=? a) && (a <=? b) && (b <? size) | None => false end
  | None => true
  end.

Definition global_okb (ng : Z) (i : instr) : bool :=
  match global_extent i with
  | Some (a, b) => (0 <=? a) && (a <=? b) && (b <? ng)
  | None => true
  end.

(* failing instructions: (offset, reason) with 1 = target, 2 = local, 3 = global *)
Fixpoint targets_walk (starts : list Z) (ng : Z) (cur : option Z) (l : list (Z * instr))
  : list (Z * Z) :=
  match l with
  | [] => []
  | (off, i) :: r =>
    (if target_okb starts i then [] else [(off, 1)]) ++
    (if local_okb cur i then [] else [(off, 2)]) ++
    (if global_okb ng i then [] else [(off, 3)]) ++
    targets_walk starts ng (frame_step cur i) r
  end.

Definition targets_fails (prog : list (Z * instr)) (ng : Z) : list (Z * Z) :=
  targets_walk (map fst prog) ng None prog.

Definition targets_ok (prog : list (Z * instr)) (ng : Z) : bool :=
  match targets_fails prog ng with [] => true | _ => false end.

(* ---- declarative statement ---- *)

Definition is_frame (i : instr) : Prop := exists p l, i = IFrame p l.

(* size is declared by the nearest [frame] before the end of pre *)
Definition nearest_frame (pre : list (Z * instr)) (size : Z) : Prop :=
  exists pre1 foff p l mid,
    pre = pre1 ++ (foff, IFrame p l) :: mid /\ size = p + l /\
    Forall (fun e => ~ is_frame (snd e)) mid.

Definition targets_spec (prog : list (Z * instr)) (ng : Z) : Prop :=
  forall pre off i post, prog = pre ++ (off, i) :: post ->
    (forall t, jump_target i = Some t -> In t (map fst prog)) /\
    (forall a b, local_extent i = Some (a, b) ->
       exists size, nearest_frame pre size /\ 0 <= a <= b /\ b < size) /\
    (forall a b, global_extent i = Some (a, b) -> 0 <= a <= b /\ b < ng).

(* ---- frame declarations against the routines' storage ---- *)

Definition sumz (l : list Z) : Z := fold_right Z.add 0 l.

(* the cells a routine's frame needs: one reference cell per parameter
   (_exec_frame pops exactly params_size arguments, call sites push one value
   per parameter), plus the cells of the locals *)
Definition need_params (param_sizes : list Z) : Z := Z.of_nat (List.length param_sizes).
Definition need_locals (local_sizes : list Z) : Z := sumz local_sizes.

Definition instr_at (prog : list (Z * instr)) (off : Z) : option instr :=
  match find (fun e => fst e =? off) prog with Some e => Some (snd e) | None => None end.

(* 0 = declaration equals the need; 1 = parameters declared with the sum of
   their type sizes (memlayout.get_params_size) which differs from the need;
   2 = any other difference; 3 = no frame instruction at the routine entry *)
Definition frame_check (prog : list (Z * instr)) (entry_off : Z) (param_sizes local_sizes : list Z) : Z :=
  match instr_at prog entry_off with
  | Some (IFrame p l) =>
    if (p =? need_params param_sizes) && (l =? need_locals local_sizes) then 0
    else if (p =? sumz param_sizes) && (l =? need_locals local_sizes) then 1
    else 2
  | _ => 3
  end.
