(* C19 - the SPECIFICATION: what the property demands of PRINT USING.  This
   file does not describe the code (that is Models/Using.v); it only borrows
   the data types (values, field descriptions, parts) and the scanner's field
   boundaries.

   One numeric field, described by its width [w] (all positions: '#', ',',
   '.', and the sign position), the number [k] of '#' after the decimal
   point, the thousands-separator request and the sign request, shows a value
   [v] as follows.
     - n = |v| * 10^k rounded to the nearest integer, ties to even, computed
       on the EXACT value of v ([Dec.exact_dec]: a binary64 m*2^e is exactly
       N*10^q).  (The property text says "rounded"; QBASIC rounds CINT-style,
       half to even; the code rounds half to even on the exact binary value.
       [rne_div_nearest] in Proofs/UsingProofs.v shows that the result is a
       nearest k-decimal number, whatever the tie rule.)
     - digits = integer part of n / 10^k in decimal (at least "0"), commas
       between groups of three when requested, then, if the field has a
       decimal point, "." and exactly k digits.
     - sign: "-" for v < 0; for v >= 0 "+" if the field asks for '+', else
       nothing (leading position) or a blank (trailing position).
     - the sign stands immediately left of the digits (leading) or right of
       them (trailing); the text is right-aligned with blanks in exactly [w]
       positions; if it is longer than [w] it is printed unpadded behind "%". *)
From Coq Require Import ZArith List Bool Lia.
From QV Require Import Sx Strs Fl Dec Using.
Import ListNotations.
Open Scope Z_scope.

(* nearest integer to a / p (p > 0, a >= 0), ties to even *)
Definition rne_div (a p : Z) : Z :=
  let d := a / p in
  let r := a mod p in
  if 2 * r <? p then d
  else if p <? 2 * r then d + 1
  else if Z.even d then d else d + 1.

(* |v| * 10^k rounded to an integer; None for strings, nan, inf *)
Definition scaled_round (v : uval) (k : Z) : option Z :=
  match v with
  | UInt z => Some (Z.abs z * 10 ^ k)
  | UFlt (FFin _ m e) =>
    if m <=? 0 then Some 0
    else
      let '(N, q) := exact_dec m e in           (* |v| = N * 10^q *)
      Some (if 0 <=? q + k then N * 10 ^ (q + k) else rne_div N (10 ^ (- (q + k))))
  | _ => None
  end.

Definition is_negative (v : uval) : bool :=
  match v with
  | UInt z => z <? 0
  | UFlt (FFin n m _) => n && (0 <? m)
  | UFlt (FInf n) => n
  | _ => false
  end.

(* exactly k decimal digits of r (r < 10^k), most significant first *)
Fixpoint frac_digits (k : nat) (r : Z) : str :=
  match k with
  | O => []
  | S k' => frac_digits k' (r / 10) ++ [ch_0 + r mod 10]
  end.

(* decimal digits of n >= 0 with a comma before every group of three *)
Fixpoint int_grouped (fuel : nat) (n : Z) : str :=
  match fuel with
  | O => nat_digits n
  | S f => if n <? 1000 then nat_digits n
           else int_grouped f (n / 1000) ++ [ch_comma] ++ frac_digits 3 (n mod 1000)
  end.

Definition spec_digits (comma point : bool) (k n : Z) : str :=
  let ip := n / 10 ^ k in
  let ips := if comma then int_grouped (Z.to_nat (Z.log2 ip)) ip else nat_digits ip in
  if point then ips ++ [ch_dot] ++ frac_digits (Z.to_nat k) (n mod 10 ^ k) else ips.

Definition has_point (o : numopts) : bool :=
  match o_decpt o with Some _ => true | None => false end.

Definition sign_req (o : numopts) : bool * Z :=
  match o_sign o with Some p => p | None => (false, ch_minus) end.

Definition spec_sign (o : numopts) (v : uval) : str :=
  let '(at_end, st) := sign_req o in
  if is_negative v then [ch_minus]
  else if st =? ch_plus then [ch_plus]
  else if at_end then [ch_space] else [].

(* the unpadded text: sign and digits *)
Definition spec_core (o : numopts) (v : uval) : option str :=
  match scaled_round v (o_frac o) with
  | None => None
  | Some n =>
    let ds := spec_digits (o_comma o) (has_point o) (o_frac o) n in
    Some (if fst (sign_req o) then ds ++ spec_sign o v else spec_sign o v ++ ds)
  end.

Definition spec_field (w : Z) (o : numopts) (v : uval) : option str :=
  match spec_core o v with
  | None => None
  | Some t =>
    Some (if zlen t <=? w then spaces (Z.to_nat (w - zlen t)) ++ t else ch_pct :: t)
  end.

(* a format without fields: every character stands for itself, "_c" for c.
   None when a field character occurs unescaped or the format ends in "_". *)
Definition is_special (c : Z) : bool :=
  (c =? ch_hash) || (c =? ch_plus) || (c =? ch_minus) || (c =? ch_amp) || (c =? ch_bang)
  || (c =? ch_us).

Fixpoint literal_text (s : str) : option str :=
  match s with
  | [] => Some []
  | c :: r =>
    if c =? ch_us then
      match r with
      | d :: r' => option_map (cons d) (literal_text r')
      | [] => None
      end
    else if is_special c then None
    else option_map (cons c) (literal_text r)
  end.

(* the whole format: literals copied, "&" the whole string, "!" its first
   character, numeric fields by [spec_field]; values taken left to right, one
   per field, none left over.  None = the property does not say (count or
   type mismatch, "!" with an empty string, nan/inf). *)
Fixpoint spec_parts (parts : list upart) (vals : list uval) : option str :=
  match parts with
  | [] => match vals with [] => Some [] | _ => None end
  | PNon s :: r => option_map (app s) (spec_parts r vals)
  | PStrF c :: r =>
    match vals with
    | UStr s :: vs =>
      if c =? ch_bang then
        match s with
        | d :: _ => option_map (cons d) (spec_parts r vs)
        | [] => None
        end
      else option_map (app s) (spec_parts r vs)
    | _ => None
    end
  | PNumF w o :: r =>
    match vals with
    | v :: vs =>
      match spec_field w o v, spec_parts r vs with
      | Some t, Some rest => Some (t ++ rest)
      | _, _ => None
      end
    | [] => None
    end
  end.

Definition using_spec (fmt : str) (vals : list uval) : option str :=
  match parse_format fmt with
  | Some parts => spec_parts parts vals
  | None => None
  end.

(* the statement: text, then a line break unless it ends in a separator *)
Definition using_stmt_spec (fmt : str) (vals : list uval) (ends_in_sep : bool)
  : option (list str) :=
  match using_spec fmt vals with
  | Some t => Some (if ends_in_sep then [t] else [t; crlf])
  | None => None
  end.

(* ---------- the guard: where the unchanged code is known to meet the
   specification.  Each reason is a defect class of the unchanged tree
   (DESIGN.md section 6, D16 / D24) or a limit of the statement. ---------- *)

Definition r_float_no_point : Z := 1.      (* D24: no decimal point and a SINGLE/DOUBLE value *)
Definition r_trailing_sign_decimal : Z := 2. (* D24: trailing sign after a decimal point *)
Definition r_comma_after_point : Z := 3.   (* D24: ',' after the decimal point *)
Definition r_point_no_decimals : Z := 4.   (* "#." : the point is not printed *)
Definition r_trailing_sign_tight : Z := 5. (* trailing sign, v >= 0, digits fill the field *)
Definition r_not_finite : Z := 6.
Definition r_int_too_big : Z := 7.         (* |z| >= 2^53: format() goes through float *)
Definition r_malformed : Z := 9.           (* a field description the scanner never produces *)
Definition r_trailing_us : Z := 10.        (* D16 *)
Definition r_too_few : Z := 11.            (* D16 *)
Definition r_too_many : Z := 12.           (* D16 *)
Definition r_num_for_str : Z := 13.        (* D16 *)
Definition r_str_for_num : Z := 14.        (* D16 *)
Definition r_bang_empty : Z := 15.         (* D16 *)

Definition code_decimals (w : Z) (o : numopts) : Z :=
  match o_decpt o with Some d => w - d | None => 0 end.

(* what the scanner guarantees about a field description *)
Definition opts_wf (o : numopts) : bool :=
  (0 <=? o_frac o)
  && (has_point o || (o_frac o =? 0))
  && ((snd (sign_req o) =? ch_plus) || (snd (sign_req o) =? ch_minus)).

Definition field_reasons (w : Z) (o : numopts) (v : uval) : list Z :=
  match v with
  | UStr _ => [r_str_for_num]
  | UFlt FNaN | UFlt (FInf _) => [r_not_finite]
  | _ =>
    (if opts_wf o then [] else [r_malformed]) ++
    (match v with
     | UFlt _ => if has_point o then [] else [r_float_no_point]
     | UInt z => if Z.abs z <? 2 ^ 53 then [] else [r_int_too_big]
     | _ => []
     end)
    ++ (if has_point o && negb (code_decimals w o =? o_frac o)
        then (if fst (sign_req o) then [r_trailing_sign_decimal] else [r_comma_after_point])
        else [])
    ++ (if has_point o && (o_frac o =? 0) && (code_decimals w o =? 0)
        then [r_point_no_decimals] else [])
    ++ (if fst (sign_req o) && negb (is_negative v) then
          match scaled_round v (o_frac o) with
          | Some n =>
            if zlen (spec_digits (o_comma o) (has_point o) (o_frac o) n) + 2 <=? w
            then [] else [r_trailing_sign_tight]
          | None => []
          end
        else [])
  end.

Fixpoint parts_reasons (parts : list upart) (vals : list uval) : list Z :=
  match parts with
  | [] => match vals with [] => [] | _ => [r_too_many] end
  | PNon _ :: r => parts_reasons r vals
  | PStrF c :: r =>
    match vals with
    | [] => [r_too_few]
    | UStr s :: vs =>
      (if (c =? ch_bang) && (zlen s =? 0) then [r_bang_empty] else []) ++ parts_reasons r vs
    | _ :: vs => r_num_for_str :: parts_reasons r vs
    end
  | PNumF w o :: r =>
    match vals with
    | [] => [r_too_few]
    | v :: vs => field_reasons w o v ++ parts_reasons r vs
    end
  end.

Definition using_reasons (fmt : str) (vals : list uval) : list Z :=
  match parse_format fmt with
  | Some parts => parts_reasons parts vals
  | None => [r_trailing_us]
  end.

Definition field_guard (w : Z) (o : numopts) (v : uval) : bool :=
  match field_reasons w o v with [] => true | _ => false end.

Definition using_guard (fmt : str) (vals : list uval) : bool :=
  match using_reasons fmt vals with [] => true | _ => false end.
