(* sx entry point of the layout model (T-fn jobs of tools/props/c04.py). *)
From Coq Require Import ZArith List Bool.
From QV Require Import Sx Strs Layout.
Import ListNotations.
Open Scope Z_scope.

(* ty: (1 k) | (2 name) | (3 ((lb ub) ...) elem) | (4 elem) *)
Fixpoint ty_sx (fuel : nat) (x : sx) : option ty :=
  match fuel with
  | O => None
  | S f =>
    match x with
    | SL [SZ 1; SZ k] => Some (TBuiltin k)
    | SL [SZ 2; n] => option_map TRecord (get_str n)
    | SL [SZ 3; SL bs; e] =>
      match map_opt (fun b => match b with SL [SZ lb; SZ ub] => Some (lb, ub) | _ => None end) bs,
            ty_sx f e with
      | Some bs', Some e' => Some (TArray bs' e')
      | _, _ => None
      end
    | SL [SZ 4; e] => option_map TDynArray (ty_sx f e)
    | _ => None
    end
  end.

Definition decl_sx (x : sx) : option (str * ty) :=
  match x with
  | SL [n; t] => match get_str n, ty_sx 8 t with
                 | Some n', Some t' => Some (n', t')
                 | _, _ => None
                 end
  | _ => None
  end.

Definition decls_sx (x : sx) : option decls :=
  match x with SL l => map_opt decl_sx l | _ => None end.

Definition env_sx (x : sx) : option renv :=
  match x with
  | SL l => map_opt (fun r => match r with
                              | SL [n; fs] => match get_str n, decls_sx fs with
                                              | Some n', Some fs' => Some (n', fs')
                                              | _, _ => None
                                              end
                              | _ => None
                              end) l
  | _ => None
  end.

Definition sx_optz (o : option Z) : sx :=
  match o with Some z => SL [SZ 0; SZ z] | None => SL [SZ 1] end.

Definition bounds_sx (x : sx) : option (list (Z * Z)) :=
  match x with
  | SL bs => map_opt (fun b => match b with SL [SZ lb; SZ ub] => Some (lb, ub) | _ => None end) bs
  | _ => None
  end.

Fixpoint decl_first (ds : decls) (v : str) : option ty :=
  match ds with
  | [] => None
  | (n, t) :: r => if str_eqb v n then Some t else decl_first r v
  end.

Definition layout_entry (x : sx) : sx :=
  match x with
  | SL [SZ 1; e; t] =>
    match env_sx e, ty_sx 8 t with
    | Some env, Some t' => sx_optz (type_size env t')
    | _, _ => sx_bad
    end
  | SL [SZ 2; e; ps; ls; v] =>
    match env_sx e, decls_sx ps, decls_sx ls, get_str v with
    | Some env, Some ps', Some ls', Some v' => sx_optz (local_var_idx env ps' ls' v')
    | _, _, _, _ => sx_bad
    end
  | SL [SZ 3; e; gs; v] =>
    match env_sx e, decls_sx gs, get_str v with
    | Some env, Some gs', Some v' => sx_optz (global_var_idx env gs' v')
    | _, _, _ => sx_bad
    end
  | SL [SZ 4; e; ps; ls] =>
    match env_sx e, decls_sx ps, decls_sx ls with
    | Some env, Some ps', Some ls' =>
      SL [sx_optz (params_size env ps'); sx_optz (local_vars_size env ls'); SZ (params_size_fixed ps')]
    | _, _, _ => sx_bad
    end
  | SL [SZ 5; e; t; SL path] =>
    match env_sx e, ty_sx 8 t, map_opt get_str path with
    | Some env, Some t', Some p => sx_optz (dotted_index env t' p)
    | _, _, _ => sx_bad
    end
  | SL [SZ 6; SZ base; SZ es; bs; SL idxs] =>
    match bounds_sx bs, get_zs idxs with
    | Some bs', Some is_ => sx_optz (elem_index base es bs' is_)
    | _, _ => sx_bad
    end
  | SL [SZ 7; SZ es; bs] =>
    match bounds_sx bs with
    | Some bs' => SL [SZ (array_cells es bs'); SZ (heap_array_cells es bs'); SZ (header_size bs')]
    | None => sx_bad
    end
  | SL [SZ 8; sh; SL rs] =>
    match decls_sx sh,
          map_opt (fun r => match r with
                            | SL [n; ds] => match get_str n, decls_sx ds with
                                            | Some n', Some ds' => Some (n', ds')
                                            | _, _ => None
                                            end
                            | _ => None
                            end) rs with
    | Some sh', Some rs' => SL (map (fun d => sx_str (fst d)) (globals_of sh' rs'))
    | _, _ => sx_bad
    end
  (* routine report: index of every parameter and local, then the frame operands *)
  | SL [SZ 9; e; ps; ls] =>
    match env_sx e, decls_sx ps, decls_sx ls with
    | Some env, Some ps', Some ls' =>
      SL [SL (map (fun d => sx_optz (local_var_idx env ps' ls' (fst d))) (ps' ++ ls'));
          sx_optz (params_size env ps'); sx_optz (local_vars_size env ls')]
    | _, _, _ => sx_bad
    end
  (* whole-compilation report (one job per program):
     (10 env shared ((rname params locals statics) ...) ((rname var path) ...) ((rname var) ...) (gname ...)) *)
  | SL [SZ 10; e; sh; SL rs; SL qs; SL vqs; SL gqs] =>
    match env_sx e, decls_sx sh,
          map_opt (fun r => match r with
                            | SL [n; ps; ls; st] =>
                              match get_str n, decls_sx ps, decls_sx ls, decls_sx st with
                              | Some n', Some ps', Some ls', Some st' => Some (n', (ps', ls', st'))
                              | _, _, _, _ => None
                              end
                            | _ => None
                            end) rs with
    | Some env, Some sh', Some rs' =>
      let globs := globals_of sh' (map (fun r => (fst r, snd (snd r))) rs') in
      let find_r (n : str) :=
        find (fun r => str_eqb n (fst r)) rs' in
      SL [SL (map (fun r => let '(n, (ps, ls, st)) := r in
                            SL [SL (map (fun d => sx_optz (local_var_idx env ps ls (fst d))) (ps ++ ls));
                                sx_optz (params_size env ps); sx_optz (local_vars_size env ls);
                                SZ (params_size_fixed ps)]) rs');
          SL (map (fun d => sx_str (fst d)) globs);
          SL (map (fun d => SL [sx_optz (global_var_idx env globs (fst d));
                                sx_optz (type_size env (snd d))]) globs);
          sx_optz (sizes_sum env globs);
          SL (map (fun q => match q with
                            | SL [rn; vn; SL path] =>
                              match get_str rn, get_str vn, map_opt get_str path with
                              | Some rn', Some vn', Some p =>
                                match find_r rn' with
                                | Some (_, (ps, ls, st)) =>
                                  match decl_first (ps ++ ls ++ st ++ sh') vn' with
                                  | Some t => sx_optz (dotted_index env t p)
                                  | None => sx_bad
                                  end
                                | None => sx_bad
                                end
                              | _, _, _ => sx_bad
                              end
                            | _ => sx_bad
                            end) qs);
          SL (map (fun q => match q with
                            | SL [rn; vn] =>
                              match get_str rn, get_str vn with
                              | Some rn', Some vn' =>
                                match find_r rn' with
                                | Some (_, (ps, ls, _)) => sx_optz (local_var_idx env ps ls vn')
                                | None => sx_bad
                                end
                              | _, _ => sx_bad
                              end
                            | _ => sx_bad
                            end) vqs);
          SL (map (fun q => match get_str q with
                            | Some g => sx_optz (global_var_idx env globs g)
                            | None => sx_bad
                            end) gqs)]
    | _, _, _ => sx_bad
    end
  | _ => sx_bad
  end.
