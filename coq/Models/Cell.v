(* Typed cells of the QVM (qvm/cell.py CellValue) and their sx encoding. *)
From Coq Require Import ZArith List Bool Lia.
From QV Require Import Sx Strs Fl.
Import ListNotations.
Open Scope Z_scope.

Inductive cell :=
| CI (z : Z)            (* INTEGER *)
| CL (z : Z)            (* LONG *)
| CS (f : fl)           (* SINGLE *)
| CD (f : fl)           (* DOUBLE *)
| CStr (s : str)        (* STRING *)
| CRef (seg : Z) (idx : Z).   (* REFERENCE: segment id, cell index *)

(* CellType numbering of qvm/cell.py *)
Definition cell_ty (c : cell) : Z :=
  match c with
  | CI _ => 1 | CL _ => 2 | CS _ => 3 | CD _ => 4 | CStr _ => 5 | CRef _ _ => 7
  end.

Definition is_numeric (c : cell) : bool :=
  match c with CI _ | CL _ | CS _ | CD _ => true | _ => false end.

Definition is_integral (c : cell) : bool :=
  match c with CI _ | CL _ => true | _ => false end.

Definition in_int (z : Z) : bool := (-32768 <=? z) && (z <=? 32767).
Definition in_long (z : Z) : bool := (-2147483648 <=? z) && (z <? 2147483648).

(* sx: (1 z) (2 z) (3 bits64) (4 bits64) (5 str) (7 seg idx) *)
Definition sx_cell (c : cell) : sx :=
  match c with
  | CI z => SL [SZ 1; SZ z]
  | CL z => SL [SZ 2; SZ z]
  | CS f => SL [SZ 3; SZ (bits_of_fl f)]
  | CD f => SL [SZ 4; SZ (bits_of_fl f)]
  | CStr s => SL [SZ 5; sx_str s]
  | CRef g i => SL [SZ 7; SZ g; SZ i]
  end.

Definition cell_sx (x : sx) : option cell :=
  match x with
  | SL [SZ 1; SZ z] => Some (CI z)
  | SL [SZ 2; SZ z] => Some (CL z)
  | SL [SZ 3; SZ b] => Some (CS (fl_of_bits b))
  | SL [SZ 4; SZ b] => Some (CD (fl_of_bits b))
  | SL [SZ 5; s] => option_map CStr (get_str s)
  | SL [SZ 7; SZ g; SZ i] => Some (CRef g i)
  | _ => None
  end.
