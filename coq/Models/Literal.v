(* Model of the VAL path, qvm/cpu.py _exec_sdbl:

     literal = grammar.numeric_literal.parse_string(string)[0]
     value = float(literal.eval())          except ParseException: value = 0.0

   i.e. the pyparsing element qbee/grammar.py numeric_literal (three regular
   expressions tried in order + an optional type character, leading blanks and
   tabs skipped, NO parse_all: anything after the match is ignored), its parse
   action parse_num_literal, qbee/expr.py NumericLiteral.parse and .eval().

   Only pyparsing's ParseException is caught.  parse_num_literal turns every
   ValueError of NumericLiteral.parse into qbee.exceptions.SyntaxError, which
   is NOT a ParseException: it escapes _exec_sdbl (and QvmCpu.tick) as a host
   exception.  The model makes that explicit: [VSyntaxError code].

   Restricted to ASCII: the exponent part of the first regular expression is
   written with \d, which in Python also matches non-ASCII decimal digits
   (and int()/float() accept them); code points >= 128 are treated here as
   ordinary non-digit characters.  No proofs in this file. *)
From Coq Require Import ZArith List Bool Lia.
From QV Require Import Sx Strs Fl Dec NumFmt.
Import ListNotations.
Open Scope Z_scope.

(* ---- the grammar element ---- *)

Fixpoint span (p : Z -> bool) (s : str) : str * str :=
  match s with
  | c :: r => if p c then let '(a, b) := span p r in (c :: a, b) else ([], s)
  | [] => ([], [])
  end.

Definition is_sign (c : Z) : bool := (c =? ch_plus) || (c =? ch_minus).
Definition is_expmark (c : Z) : bool := (c =? 101) || (c =? 69) || (c =? 100) || (c =? 68).
Definition is_hex (c : Z) : bool :=
  is_digit c || ((97 <=? c) && (c <=? 102)) || ((65 <=? c) && (c <=? 70)).
Definition is_oct (c : Z) : bool := (48 <=? c) && (c <=? 55).
(* type_char = Regex('[%&$#!]') *)
Definition is_type_char (c : Z) : bool :=
  (c =? ch_pct) || (c =? ch_amp) || (c =? 36) || (c =? ch_hash) || (c =? ch_bang).

(* ( [eEdD] sign? digits+ )?  : the whole group or nothing *)
Definition scan_exp (s : str) : str * str :=
  match s with
  | c :: r =>
    if is_expmark c then
      let '(sg, r1) := match r with
                       | d :: r' => if is_sign d then ([d], r') else ([], r)
                       | [] => ([], r) end in
      let '(ds, r2) := span is_digit r1 in
      match ds with
      | [] => ([], s)
      | _ => (c :: sg ++ ds, r2)
      end
    else ([], s)
  | [] => ([], s)
  end.

(* sign? ( digits+ ( '.' digits{0,} )? | '.' digits+ ) ( [eEdD] sign? digits+ )?
   (the first regular expression of numeric_literal; re.match: anchored
   at the start, greedy; every later part is optional so the first way to
   match is the one taken).  Some (matched text, rest) *)
Definition scan_dec (s : str) : option (str * str) :=
  let '(sg, s1) := match s with
                   | c :: r => if is_sign c then ([c], r) else ([], s)
                   | [] => ([], s) end in
  let '(ip, s2) := span is_digit s1 in
  let body :=
    match ip with
    | _ :: _ =>
      match s2 with
      | c :: r => if c =? ch_dot then
                    let '(fp, s3) := span is_digit r in Some (ip ++ ch_dot :: fp, s3)
                  else Some (ip, s2)
      | [] => Some (ip, s2)
      end
    | [] =>
      match s2 with
      | c :: r => if c =? ch_dot then
                    let '(fp, s3) := span is_digit r in
                    match fp with [] => None | _ => Some (ch_dot :: fp, s3) end
                  else None
      | [] => None
      end
    end in
  match body with
  | None => None
  | Some (b, s3) => let '(ex, s4) := scan_exp s3 in Some (sg ++ b ++ ex, s4)
  end.

(* '&' [Hh] hexdigits+ ('%&')?   and   '&' [Oo] octdigits+ ('%&')?  *)
Definition scan_radix (mark_lo mark_up : Z) (isd : Z -> bool) (s : str) : option (str * str) :=
  match s with
  | a :: h :: r =>
    if (a =? ch_amp) && ((h =? mark_lo) || (h =? mark_up)) then
      let '(ds, r1) := span isd r in
      match ds with
      | [] => None
      | _ =>
        match r1 with
        | p :: q :: r2 => if (p =? ch_pct) && (q =? ch_amp)
                          then Some (a :: h :: ds ++ [p; q], r2)
                          else Some (a :: h :: ds, r1)
        | _ => Some (a :: h :: ds, r1)
        end
      end
    else None
  | _ => None
  end.

(* numeric_literal.parse_string(s): default white space of the grammar module
   is ' ' and '\t' (set_default_whitespace_chars); it is skipped before the
   number and again before the optional type character.  None = ParseException.
   Some (token, type char or None) *)
Definition tokenize (s : str) : option (str * option Z) :=
  let s0 := drop_while is_blank s in
  let m := match scan_dec s0 with
           | Some r => Some r
           | None => match scan_radix 104 72 is_hex s0 with
                     | Some r => Some r
                     | None => scan_radix 111 79 is_oct s0
                     end
           end in
  match m with
  | None => None
  | Some (tok, rest) =>
    match drop_while is_blank rest with
    | c :: _ => if is_type_char c then Some (tok, Some c) else Some (tok, None)
    | [] => Some (tok, None)
    end
  end.

(* ---- NumericLiteral.parse ---- *)

Inductive lty := LtInteger | LtLong | LtSingle | LtDouble.
Inductive pyval := PInt (z : Z) | PFloat (f : fl).

(* the ValueError messages, in the order they appear in the source:
   1 '$' type character (raised by the parse action itself)
   2 Invalid type char for integral value
   3 type char does not match DOUBLE scientific value
   4 type char does not match SINGLE scientific value
   5 numeric value incompatible with type char
   6 does not fit in INTEGER   7 does not fit in LONG   8 does not fit in SINGLE
   9 int(text, base) failed (the "%&" suffix is passed to int()) *)
Inductive lit_result := LitOk (t : lty) (v : pyval) | LitErr (code : Z).

Definition lty_of_char (c : Z) : lty :=
  if c =? ch_pct then LtInteger else if c =? ch_amp then LtLong
  else if c =? ch_bang then LtSingle else LtDouble.

Definition hex_digit_val (c : Z) : Z :=
  if is_digit c then c - 48 else if 97 <=? c then c - 87 else c - 55.

(* int(s, base) on a string of valid digits; None if another character occurs
   or the string is empty *)
Fixpoint radix_val (base : Z) (isd : Z -> bool) (s : str) (acc : Z) (any : bool) : option Z :=
  match s with
  | [] => if any then Some acc else None
  | c :: r => if isd c then radix_val base isd r (acc * base + hex_digit_val c) true else None
  end.

Definition range_check (t : lty) (v : pyval) : lit_result :=
  match t, v with
  | LtInteger, PInt z => if (z <? -32768) || (z >? 32767) then LitErr 6 else LitOk t v
  | LtLong, PInt z => if (z <? -2147483648) || (z >? 2147483647) then LitErr 7 else LitOk t v
  | LtSingle, PFloat f => match to_single f with None => LitErr 8 | Some _ => LitOk t v end
  | _, _ => LitOk t v
  end.

Definition is_int_ty (t : lty) : bool :=
  match t with LtInteger | LtLong => true | _ => false end.

Definition starts_amp (s : str) : bool :=
  match s with c :: _ => c =? ch_amp | [] => false end.

(* token.startswith('&') : base 16 after "&h", otherwise 8 *)
Definition parse_radix (tok : str) (tc : option Z) : lit_result :=
  let t0 := match tc with Some c => lty_of_char c | None => LtSingle end in
  let bad_tc := match tc with
                | Some c => negb ((c =? ch_pct) || (c =? ch_amp))
                | None => false end in
  if bad_tc then LitErr 2 else
  match tok with
  | _ :: mk :: ds =>
    let r := if mk =? 104 then radix_val 16 is_hex ds 0 false
             else radix_val 8 is_oct ds 0 false in
    match r with
    | None => LitErr 9
    | Some v =>
      let t := match tc with
               | Some _ => t0
               | None => if (-32768 <=? v) && (v <=? 32767) then LtInteger else LtLong
               end in
      range_check t (PInt v)
    end
  | _ => LitErr 9
  end.

Definition parse_dec (tok : str) (tc : option Z) : lit_result :=
  let t0 := match tc with Some c => lty_of_char c | None => LtSingle end in
  let has_d := mem_ch 100 tok in
  let has_e := mem_ch 101 tok in
  let has_dot := mem_ch ch_dot tok in
  let tc_is (c : Z) := match tc with Some c' => c' =? c | None => true end in
  if has_d && negb (tc_is ch_hash) then LitErr 3
  else if negb has_d && has_e && negb (tc_is ch_bang) then LitErr 4
  else
    let t := if has_d then LtDouble
             else if has_e then LtSingle
             else match tc with
                  | Some _ => t0
                  | None => if has_dot then LtSingle else LtLong
                  end in
    let tok' := if has_d then map (fun c => if c =? 100 then 101 else c) tok else tok in
    let v := if is_int_ty t then option_map PInt (py_int tok')
             else option_map PFloat (py_float tok') in
    match v with
    | None => LitErr 5
    | Some v =>
      let t' := match tc, t, v with
                | None, LtLong, PInt z =>
                  if (-32768 <=? z) && (z <? 32768) then LtInteger else LtLong
                | _, _, _ => t
                end in
      range_check t' v
    end.

Definition literal_parse (tok0 : str) (tc : option Z) : lit_result :=
  let tok := map lower tok0 in
  if starts_amp tok then parse_radix tok tc else parse_dec tok tc.

(* ---- _exec_sdbl ---- *)

Inductive val_result :=
| VOk (f : fl)                  (* DOUBLE pushed *)
| VSyntaxError (code : Z).      (* qbee.exceptions.SyntaxError escapes the instruction *)

Definition val_text (s : str) : val_result :=
  match tokenize s with
  | None => VOk (fzero false)
  | Some (tok, tc) =>
    let dollar := match tc with Some c => c =? 36 | None => false end in
    if dollar then VSyntaxError 1 else
    match literal_parse tok tc with
    | LitErr c => VSyntaxError c
    | LitOk _ (PInt z) => VOk (of_Z z)
    | LitOk _ (PFloat f) => VOk f
    end
  end.
