(* C16: the READ and INPUT text -> number paths for ONE numeric field
   (qvm/machine.py DataDevice._exec_read lines 445-477 on a non-empty DATA
   item; TerminalDevice._exec_input.push_vars lines 336-383 with one variable),
   and the STR$ call site of format_number (cpu._exec_ntos).  No proofs in this file. *)
From Coq Require Import ZArith List Bool Lia.
From QV Require Import Sx Strs Fl Dec NumFmt Cell.
Import ListNotations.
Open Scope Z_scope.

Inductive rd_result :=
| RdCell (c : cell)      (* pushed *)
| RdBadType              (* READ: ValueError -> trap DEVICE_ERROR / BAD_ARG_TYPE *)
| RdInvalidCell          (* READ: CellValue refuses the value: trap INVALID_CELL_VALUE *)
| InReject.              (* INPUT: push_vars returns False: "Redo from start" *)

(* DataDevice._exec_read with data_type = ty on the item text s *)
Definition read_num (ty : nty) (s : str) : rd_result :=
  match ty with
  | TInt => match py_int s with
            | None => RdBadType
            | Some z => if in_int z then RdCell (CI z) else RdInvalidCell end
  | TLong => match py_int s with
             | None => RdBadType
             | Some z => if in_long z then RdCell (CL z) else RdInvalidCell end
  | TSingle => match py_float s with
               | None => RdBadType
               | Some f => match to_single f with
                           | Some r => RdCell (CS r)
                           | None => RdInvalidCell end
               end
  | TDouble => match py_float s with
               | None => RdBadType
               | Some f => RdCell (CD f) end
  end.

(* push_vars(line, [ty]): split at commas, strip, parse, range check *)
Definition input_num (ty : nty) (s : str) : rd_result :=
  if mem_ch ch_comma s then InReject else
  match ty with
  | TInt => match py_int s with
            | None => InReject
            | Some z => if in_int z then RdCell (CI z) else InReject end
  | TLong => match py_int s with
             | None => InReject
             | Some z => if in_long z then RdCell (CL z) else InReject end
  | TSingle => match py_float s with
               | None => InReject
               | Some f => match to_single f with
                           | Some r => RdCell (CS r)
                           | None => InReject end
               end
  | TDouble => match py_float s with
               | None => InReject
               | Some f => RdCell (CD f) end
  end.

(* STR$: cpu._exec_ntos: pop; not numeric -> trap TYPE_MISMATCH; push
   format_number(value.value, value.type).  (The PRINT call site,
   print_number inside TerminalDevice._exec_print, is Models/Print.v num_text.) *)
Inductive ntos_result := NtosOk (s : str) | NtosTypeMismatch.

Definition exec_ntos (c : cell) : ntos_result :=
  match c with
  | CI z => NtosOk (fmt_int z)
  | CL z => NtosOk (fmt_int z)
  | CS f => NtosOk (fmt_float true f)
  | CD f => NtosOk (fmt_float false f)
  | _ => NtosTypeMismatch
  end.
