(* Executable model of the debugger commands of qvm/dbg.py
   (step next stepi nexti continue break <line> delbr <line>) together with
   QvmCpu.run / QvmCpu.next / add_breakpoint / del_breakpoint of qvm/cpu.py,
   over the machine model (Machine.v, Cpu.v).  Faithful to the Python as it is,
   including: run() re-initialising halted/halt_reason at entry, breakpoint
   predicates evaluated after EVERY tick (also after the tick that halted the
   machine), next() recognising "the call returned" by pc only, the [unhalted]
   guard letting TRAP/BREAKPOINT-reason halts through.  Host exceptions of the
   debugger code are explicit results.  No proofs in this file. *)
From Coq Require Import ZArith List Bool Lia.
From QV Require Import Sx Strs Fl Cell Machine Cpu.
Import ListNotations.
Open Scope Z_scope.

Definition H_BREAKPOINT := 5.

(* ---------- debug info: DebugInfo.stmts ---------- *)

(* one DebugNodeRecord: code range, source line, source offset (sort key of
   parse_breakpoint_spec) and an identity: two records have the same r_id iff
   the Python dataclass == holds for them (index of the first equal record) *)
Record srec := mkRec { r_start : Z; r_end : Z; r_line : Z; r_soff : Z; r_id : Z }.
Definition dbginfo := list srec.     (* sorted as DebugInfo.stmts *)

Definition rec_size (r : srec) : Z := r_end r - r_start r.
Definition rec_eqb (a b : srec) : bool := r_id a =? r_id b.

Inductive res (A : Type) := Ok (a : A) | Err (k : crash).
Arguments Ok {A}. Arguments Err {A}.

(* the scan of DebugInfo.find_stmt: smallest containing range, first on ties
   (records are never Block instances: the second half of find_stmt is dead) *)
Definition find_rec (di : dbginfo) (addr : Z) : option srec :=
  fold_left (fun best r =>
               if (r_start r <=? addr) && (addr <? r_end r) then
                 match best with
                 | Some b => if rec_size r <? rec_size b then Some r else best
                 | None => Some r
                 end
               else best) di None.

(* DebugInfo.find_stmt(addr, cpu) *)
Definition dfind_stmt (m : module) (di : dbginfo) (addr : Z) : res (option srec) :=
  if addr =? 0 then
    match m_code m with
    | [] => Err CrIndex
    | _ =>
      match decode (m_code m) with
      | DOk (ICall t) _ => if t =? 0 then Err CrRuntime (* RecursionError *) else Ok (find_rec di t)
      | DOk (IPushStr idx) _ =>
        match nthZ (m_literals m) idx with Some _ => Ok None | None => Err CrIndex end
      | DOk _ _ => Ok None
      | DUnknown => Err CrAttr       (* get_instruction_at returned None: None.op *)
      | DTrunc => Err CrStruct
      end
    end
  else Ok (find_rec di addr).

Fixpoint index_of (di : dbginfo) (r : srec) (i : nat) : nat :=
  match di with
  | [] => i
  | x :: t => if rec_eqb x r then i else index_of t r (S i)
  end.

Fixpoint skip_empty (fuel : nat) (di : dbginfo) (idx : nat) (stmt : srec) : srec :=
  match fuel with
  | O => stmt
  | S f =>
    if rec_size stmt =? 0 then
      match nth_error di (S idx) with
      | None => stmt
      | Some r => skip_empty f di (S idx) r
      end
    else stmt
  end.

(* Cmd.find_nonempty_stmt *)
Definition find_nonempty (m : module) (di : dbginfo) (addr : Z) : res (option srec) :=
  match dfind_stmt m di addr with
  | Err k => Err k
  | Ok None => Ok None
  | Ok (Some r) => Ok (Some (skip_empty (length di) di (index_of di r 0) r))
  end.

(* new_stmt != stmt *)
Definition stmt_neq (a b : option srec) : bool :=
  match a, b with
  | None, None => false
  | Some x, Some y => negb (rec_eqb x y)
  | _, _ => true
  end.

(* ---------- the cpu fields outside Machine.st ---------- *)

Inductive hit := HitUser (a : Z) | HitTemp.

(* mn / mres are bookkeeping for the specification (not fields of the Python
   objects): number of cpu.tick() calls made so far, and whether the debugger
   ever drove a finished machine: tick() called with halted set or pc past the
   end of the code, or run() entered with halted set (run() hides this by
   resetting halted) *)
Record mach := mkMach {
  ms : st;
  mlast : option hit;       (* cpu.last_breakpoint *)
  mn : Z;
  mres : bool;
}.

Definition with_st (x : mach) (s : st) : mach := mkMach s (mlast x) (mn x) (mres x).

(* the temporary breakpoint of do_step / cpu.next *)
Inductive tbp :=
| TNoTemp
| TStep (stmt : option srec)      (* step_breakpoint: non-empty statement at pc differs from stmt *)
| TNext (a : Z).                  (* lambda cpu: cpu.pc == prev_pc + size *)

Inductive rres :=
| RDone (x : mach)                (* returned True *)
| RBp (x : mach) (h : hit)        (* returned False: a breakpoint predicate held *)
| RCrash (k : crash) (x : mach)
| RNeedIn (x : mach)
| RFuel (x : mach).

Definition user_hit (bps : list Z) (p : Z) : option Z := find (fun a => p =? a) bps.

(* for bp in self.breakpoints: if bp(self) - user breakpoints first, the
   temporary one was appended last *)
Definition check_bps (m : module) (di : dbginfo) (bps : list Z) (t : tbp) (s : st) : res (option hit) :=
  match user_hit bps (pc s) with
  | Some a => Ok (Some (HitUser a))
  | None =>
    match t with
    | TNoTemp => Ok None
    | TNext a => Ok (if pc s =? a then Some HitTemp else None)
    | TStep stmt =>
      match find_nonempty m di (pc s) with
      | Err k => Err k
      | Ok None => Ok None
      | Ok (Some r) =>
        Ok (match stmt with
            | None => Some HitTemp
            | Some r0 => if rec_eqb r r0 then None else Some HitTemp
            end)
      end
    end
  end.

(* one cpu.tick() with the bookkeeping *)
Definition mtick (m : module) (x : mach) : rres :=
  let x1 := mkMach (ms x) (mlast x) (mn x + 1)
                   (mres x || halted (ms x) || (pc (ms x) >=? code_len m)) in
  match tick m (ms x) with
  | Next s' => RDone (with_st x1 s')
  | Crash k s' => RCrash k (with_st x1 s')
  | NeedInput s' => RNeedIn (with_st x1 s')
  end.

(* the while loop of QvmCpu.run *)
Fixpoint run_loop (m : module) (di : dbginfo) (bps : list Z) (t : tbp) (fuel : nat) (x : mach) : rres :=
  match fuel with
  | O => RFuel x
  | S f =>
    let s := ms x in
    if halted s then RDone x
    else if pc s >=? code_len m then RDone (with_st x (set_halt s (halted s) H_END_OF_CODE))
    else
      match mtick m x with
      | RDone x' =>
        match check_bps m di bps t (ms x') with
        | Err k => RCrash k x'
        | Ok (Some h) =>
          RBp (mkMach (set_halt (ms x') (halted (ms x')) H_BREAKPOINT) (Some h) (mn x') (mres x')) h
        | Ok None => run_loop m di bps t f x'
        end
      | r => r
      end
  end.

(* QvmCpu.run(): last_breakpoint = None; halted = False; halt_reason = NONE; loop *)
Definition cpu_run (m : module) (di : dbginfo) (bps : list Z) (t : tbp) (fuel : nat) (x : mach) : rres :=
  run_loop m di bps t fuel
           (mkMach (set_halt (ms x) false H_NONE) None (mn x) (mres x || halted (ms x))).

(* QvmCpu.next(): RDone = returned True, RBp = returned False *)
Definition cpu_next (m : module) (di : dbginfo) (bps : list Z) (fuel : nat) (x : mach) : rres :=
  let s := ms x in
  if (pc s <? 0) || (pc s >=? code_len m) then RCrash CrIndex x
  else
    match decode (skipn (Z.to_nat (pc s)) (m_code m)) with
    | DUnknown => RCrash CrAttr x        (* instr is None: None.op *)
    | DTrunc => RCrash CrStruct x
    | DOk (ICall _) size =>
      match cpu_run m di bps (TNext (pc s + size)) fuel x with
      | RBp x' HitTemp => RDone x'
      | r => r
      end
    | DOk (IPushStr idx) _ =>
      match nthZ (m_literals m) idx with
      | Some _ => mtick m x
      | None => RCrash CrIndex x
      end
    | DOk _ _ => mtick m x
    end.

(* ---------- Cmd ---------- *)

Inductive msg :=
| MHalted                      (* Machine is halted. *)
| MHit                         (* Hit breakpoint *)
| MEmptyProg                   (* Empty program finished running already. *)
| MSet (addr line : Z)         (* Setting a breakpoint at line L (address A) *)
| MImprecise (line : Z)        (* Could not set a breakpoint at that precise line; set at line L *)
| MCannotLine                  (* Cannot set breakpoint: No such line number *)
| MCannotRoutine               (* Cannot set breakpoint: no such routine *)
| MDeleting (addr line : Z)    (* Deleting breakpoint at ... *)
| MNoSuchBp                    (* No such breakpoint *)
| MErrLine                     (* Error: No such line number *)
| MErrRoutine.                 (* Error: no such routine *)

Inductive cmd := CStep | CNext | CStepi | CNexti | CContinue | CBreak (l : Z) | CDelbr (l : Z).

Inductive dstatus := Live | Crashed (k : crash) | NeedIn | NoFuel.

Record dbg := mkDbg {
  d_m : mach;
  d_bps : list Z;              (* start addresses of the user breakpoints, in cpu.breakpoints order *)
  d_status : dstatus;
  d_msgs : list msg;           (* what the last command printed *)
}.

Definition d_st (d : dbg) : st := ms (d_m d).

Definition finish (d : dbg) (r : rres) (hitmsg : bool) : dbg :=
  match r with
  | RDone x => mkDbg x (d_bps d) Live []
  | RBp x (HitUser _) => mkDbg x (d_bps d) Live (if hitmsg then [MHit] else [])
  | RBp x HitTemp => mkDbg x (d_bps d) Live []
  | RCrash k x => mkDbg x (d_bps d) (Crashed k) []
  | RNeedIn x => mkDbg x (d_bps d) NeedIn []
  | RFuel x => mkDbg x (d_bps d) NoFuel []
  end.

(* the @unhalted decorator *)
Definition blocked (s : st) : bool :=
  halted s && ((reason s =? H_INSTRUCTION) || (reason s =? H_END_OF_CODE)).

Definition do_step (m : module) (di : dbginfo) (fuel : nat) (d : dbg) : dbg :=
  match find_nonempty m di (pc (d_st d)) with
  | Err k => mkDbg (d_m d) (d_bps d) (Crashed k) []
  | Ok stmt => finish d (cpu_run m di (d_bps d) (TStep stmt) fuel (d_m d)) true
  end.

(* while not halted: if not cpu.next(): print; break; if find_nonempty(pc) != stmt: break *)
Fixpoint next_loop (m : module) (di : dbginfo) (bps : list Z) (stmt : option srec)
         (fuel0 fuel : nat) (x : mach) : rres :=
  match fuel with
  | O => RFuel x
  | S f =>
    if halted (ms x) then RDone x
    else
      match cpu_next m di bps fuel0 x with
      | RDone x' =>
        match find_nonempty m di (pc (ms x')) with
        | Err k => RCrash k x'
        | Ok new => if stmt_neq new stmt then RDone x' else next_loop m di bps stmt fuel0 f x'
        end
      | r => r
      end
  end.

Definition do_next (m : module) (di : dbginfo) (fuel : nat) (d : dbg) : dbg :=
  match find_nonempty m di (pc (d_st d)) with
  | Err k => mkDbg (d_m d) (d_bps d) (Crashed k) []
  | Ok stmt => finish d (next_loop m di (d_bps d) stmt fuel fuel (d_m d)) true
  end.

(* sorted(stmts, key=source_start_offset): stable *)
Fixpoint insert_soff (r : srec) (l : list srec) : list srec :=
  match l with
  | [] => [r]
  | x :: t => if r_soff r <? r_soff x then r :: l else x :: insert_soff r t
  end.
Definition sort_soff (di : dbginfo) : list srec :=
  fold_left (fun acc r => insert_soff r acc) di [].

(* parse_breakpoint_spec for a decimal line number: the first statement in
   source order at or after the line that has at least one instruction *)
Definition resolve_line (di : dbginfo) (l : Z) : option srec :=
  find (fun r => (r_line r >=? l) && (rec_size r >? 0)) (sort_soff di).

Fixpoint remove_first (a : Z) (l : list Z) : list Z :=
  match l with
  | [] => []
  | x :: t => if x =? a then t else x :: remove_first a t
  end.

Definition do_break (di : dbginfo) (l : Z) (d : dbg) : dbg :=
  if l <? 0 then mkDbg (d_m d) (d_bps d) Live [MCannotRoutine]
  else
    match resolve_line di l with
    | None => mkDbg (d_m d) (d_bps d) Live [MCannotLine]
    | Some r =>
      mkDbg (d_m d) (d_bps d ++ [r_start r]) Live
            ((if r_line r >? l then [MImprecise (r_line r)] else []) ++ [MSet (r_start r) (r_line r)])
    end.

Definition do_delbr (di : dbginfo) (l : Z) (d : dbg) : dbg :=
  if l <? 0 then mkDbg (d_m d) (d_bps d) Live [MErrRoutine]
  else
    match resolve_line di l with
    | None => mkDbg (d_m d) (d_bps d) Live [MErrLine]
    | Some r =>
      let pre := if r_line r >? l then [MImprecise (r_line r)] else [] in
      if existsb (fun a => a =? r_start r) (d_bps d) then
        mkDbg (d_m d) (remove_first (r_start r) (d_bps d)) Live (pre ++ [MDeleting (r_start r) (r_line r)])
      else mkDbg (d_m d) (d_bps d) Live (pre ++ [MNoSuchBp])
    end.

Definition exec_cmd (m : module) (di : dbginfo) (fuel : nat) (d : dbg) (c : cmd) : dbg :=
  match d_status d with
  | Live =>
    match c with
    | CBreak l => do_break di l d
    | CDelbr l => do_delbr di l d
    | _ =>
      if blocked (d_st d) then mkDbg (d_m d) (d_bps d) Live [MHalted]
      else
        match c with
        | CStep => do_step m di fuel d
        | CNext => do_next m di fuel d
        | CStepi => finish d (mtick m (d_m d)) false
        | CNexti => finish d (cpu_next m di (d_bps d) fuel (d_m d)) true
        | CContinue => finish d (cpu_run m di (d_bps d) TNoTemp fuel (d_m d)) true
        | _ => d
        end
    end
  | _ => d
  end.

Definition exec_cmds (m : module) (di : dbginfo) (fuel : nat) (d : dbg) (h : list cmd) : dbg :=
  fold_left (exec_cmd m di fuel) h d.

(* ---------- Cmd.__init__: load_instructions + start_debugging ---------- *)

(* load_instructions decodes the code linearly with cpu.get_instruction_at,
   which calls cpu._trap for an unknown opcode *)
Fixpoint sweep (m : module) (fuel : nat) (addr : Z) (s : st) : tick_out :=
  match fuel with
  | O => Next s
  | S f =>
    if addr >=? code_len m then Next s
    else
      match decode (skipn (Z.to_nat addr) (m_code m)) with
      | DOk (IPushStr idx) size =>
        match nthZ (m_literals m) idx with
        | Some _ => sweep m f (addr + size) s
        | None => Crash CrIndex s
        end
      | DOk _ size => sweep m f (addr + size) s
      | DUnknown =>
        match do_trap m T_INVALID_OP_CODE true s with
        | Next s' => sweep m f (addr + 1) s'
        | o => o
        end
      | DTrunc => Crash CrStruct s
      end
  end.

(* while not halted and not find_stmt(pc): tick() *)
Fixpoint start_loop (m : module) (di : dbginfo) (fuel : nat) (x : mach) : rres :=
  match fuel with
  | O => RFuel x
  | S f =>
    if halted (ms x) then RDone x
    else
      match dfind_stmt m di (pc (ms x)) with
      | Err k => RCrash k x
      | Ok (Some _) => RDone x
      | Ok None =>
        match mtick m x with
        | RDone x' => start_loop m di f x'
        | r => r
        end
      end
  end.

Definition start (m : module) (di : dbginfo) (fuel : nat) (s0 : st) : dbg :=
  match sweep m (S (length (m_code m))) 0 s0 with
  | Crash k s => mkDbg (mkMach s None 0 false) [] (Crashed k) []
  | NeedInput s => mkDbg (mkMach s None 0 false) [] NeedIn []
  | Next s =>
    if negb (pc s =? 0) then mkDbg (mkMach s None 0 false) [] (Crashed CrAssert) []
    else
      match start_loop m di fuel (mkMach s None 0 false) with
      | RDone x => mkDbg x [] Live (if halted (ms x) then [MEmptyProg] else [])
      | r => finish (mkDbg (mkMach s None 0 false) [] Live []) r false
      end
  end.

(* the whole session: Cmd(machine, module) followed by a command history *)
Definition session (m : module) (di : dbginfo) (sc : script) (fuel : nat) (h : list cmd) : dbg :=
  exec_cmds m di fuel (start m di fuel (init_state m sc)) h.

(* ---------- observations ---------- *)

(* the source line the debugger shows: find_nonempty_stmt(pc).source_start_line *)
Definition cur_line (m : module) (di : dbginfo) (s : st) : option Z :=
  match find_nonempty m di (pc s) with
  | Ok (Some r) => Some (r_line r)
  | _ => None
  end.

(* number of activations: the CallFrame chain from cur_frame *)
Fixpoint frame_depth (fuel : nat) (hp : list seg) (c : option Z) : Z :=
  match fuel with
  | O => 0
  | S f =>
    match c with
    | None => 0
    | Some g =>
      match nthZ hp g with
      | Some (mkSeg _ (SFrame prev _ _ _)) => 1 + frame_depth f hp prev
      | _ => 1
      end
    end
  end.
Definition depth (s : st) : Z := frame_depth (length (heap s)) (heap s) (cur s).
