(* C20 - determinism: the order-sensitive pieces of the compiler as functions.

   The machine side needs no new model: [Cpu.run m fuel s ticks] takes the
   module, the fuel, the state (which contains the device script) and the tick
   counter and nothing else - no clock, no hash seed, no process history can be
   mentioned in a Gallina term, so "a run is a function of (module, script)" is
   a typing fact.  What is not a typing fact and is proved in
   Proofs/DeterminismProofs.v: the result does not depend on the fuel once the
   run stops by itself, and two machines scheduled alternately behave as if
   each ran alone.

   The compiler side: the places of qbee where Python containers with an
   implementation-defined or history-defined order are used.
   - qbee/grammar.py parse_deftype builds a SET of letters; qbee/compiler.py
     process_def_type_pre iterates it: for letter in node.letters:
     def_letter_types[letter.lower()] = node.type
   - qbee/compiler.py all_labels is a set; it is only ever used through
     [in] / [not in] / [.add]
   - compilation.data is a defaultdict(list) keyed by the last label seen,
     QvmCode._data likewise; part index = list(keys).index(label); Python
     dicts keep insertion order
   - QvmCode._string_literals is a list used as an ordered set
     (add_string_literal: if value not in list: append).
   No proofs here. *)
From Coq Require Import ZArith List Bool.
From QV Require Import Sx Strs Machine Cpu.
Import ListNotations.
Open Scope Z_scope.

(* ---------- Python dict (insertion ordered) as an association list ---------- *)
Section Dict.
  Context {K V : Type}.
  Variable keqb : K -> K -> bool.

  Definition mem (k : K) (l : list K) : bool := existsb (keqb k) l.

  Fixpoint dict_get (d : list (K * V)) (k : K) : option V :=
    match d with
    | [] => None
    | (k', v) :: r => if keqb k k' then Some v else dict_get r k
    end.

  (* d[k] = v : an existing key keeps its position, a new key goes last *)
  Fixpoint dict_set (d : list (K * V)) (k : K) (v : V) : list (K * V) :=
    match d with
    | [] => [(k, v)]
    | (k', v') :: r => if keqb k k' then (k', v) :: r else (k', v') :: dict_set r k v
    end.

  Definition dict_keys (d : list (K * V)) : list K := map fst d.

  (* list(d.keys()).index(k) *)
  Fixpoint index_of (k : K) (l : list K) (i : nat) : option nat :=
    match l with
    | [] => None
    | x :: r => if keqb k x then Some i else index_of k r (S i)
    end.
End Dict.

(* ---------- DEFtype ---------- *)
(* str.lower() on one ASCII letter *)
Definition lower (c : Z) : Z := if (65 <=? c) && (c <=? 90) then c + 32 else c.

(* one DEFtype statement: the letters in the order in which the set happens to
   be iterated, and the type id *)
Definition apply_deftype (tab : list (Z * Z)) (letters : list Z) (ty : Z) : list (Z * Z) :=
  fold_left (fun t l => dict_set Z.eqb t (lower l) ty) letters tab.

Definition apply_deftypes (tab : list (Z * Z)) (stmts : list (list Z * Z)) : list (Z * Z) :=
  fold_left (fun t st => apply_deftype t (fst st) (snd st)) stmts tab.

(* def_letter_types.get(letter): the only way the table is read
   (compiler.py 270-272, 301-303; evalctx.py 103) *)
Definition letter_type (tab : list (Z * Z)) (c : Z) : option Z := dict_get Z.eqb tab c.

(* letters of the ranges in source order: range(ord(start), ord(end)+1) or one letter *)
Definition range_letters (r : Z * option Z) : list Z :=
  match r with
  | (a, None) => [a]
  | (a, Some b) => map (fun i => a + Z.of_nat i) (seq 0 (Z.to_nat (b + 1 - a)))
  end.

(* ---------- the label set ---------- *)
(* A set whose enumeration order is unspecified: a list; [ins] is the (hash
   seed dependent) way a new element is placed.  The compiler's observations:
   [in] and [add]. *)
Inductive lverdict := LOk | LDuplicate (i : nat) | LUndefined (i : nat).

Section Labels.
  Variable ins : str -> list str -> list str.

  (* Pass1 process_label_pre / process_lineno_pre: duplicate test, then add *)
  Fixpoint declare (decls : list str) (s : list str) (i : nat) : list str + nat :=
    match decls with
    | [] => inl s
    | d :: r => if mem str_eqb d s then inr i else declare r (ins d s) (S i)
    end.

  (* GOTO / GOSUB / RESTORE / ON ERROR GOTO / RESUME label: membership test *)
  Fixpoint first_undefined (uses : list str) (s : list str) (i : nat) : option nat :=
    match uses with
    | [] => None
    | u :: r => if mem str_eqb u s then first_undefined r s (S i) else Some i
    end.

  Definition check_labels (decls uses : list str) : lverdict :=
    match declare decls [] 0 with
    | inr i => LDuplicate i
    | inl s => match first_undefined uses s 0 with
               | Some i => LUndefined i
               | None => LOk
               end
    end.
End Labels.

(* two concrete placements, used by the correspondence *)
Definition ins_front (x : str) (l : list str) : list str := x :: l.
Definition ins_back (x : str) (l : list str) : list str := l ++ [x].

(* ---------- DATA grouping ---------- *)
Section Data.
  Context {K I : Type}.
  Variable keqb : K -> K -> bool.

  (* defaultdict(list): d[k].extend(items) *)
  Definition dict_extend (d : list (K * list I)) (k : K) (items : list I) : list (K * list I) :=
    dict_set keqb d k (match dict_get keqb d k with Some old => old | None => [] end ++ items).

  (* the DATA statements in source order, each with the label in force *)
  Definition group_data (stmts : list (K * list I)) : list (K * list I) :=
    fold_left (fun d st => dict_extend d (fst st) (snd st)) stmts [].

  (* first occurrences, in order; [seen] = keys already present *)
  Fixpoint first_occ (seen : list K) (ks : list K) : list K :=
    match ks with
    | [] => []
    | k :: r => if mem keqb k seen then first_occ seen r else k :: first_occ (seen ++ [k]) r
    end.

  Definition items_of (k : K) (stmts : list (K * list I)) : list I :=
    flat_map (fun st => if keqb k (fst st) then snd st else []) stmts.
End Data.

(* key of a DATA statement: None = no label seen yet *)
Definition okey_eqb (a b : option str) : bool :=
  match a, b with
  | None, None => true
  | Some x, Some y => str_eqb x y
  | _, _ => false
  end.

(* ---------- string literal table ---------- *)
Definition add_literal (tab : list str) (v : str) : list str :=
  if mem str_eqb v tab then tab else tab ++ [v].
Definition literal_table (occ : list str) : list str := fold_left add_literal occ [].

(* ---------- two machines scheduled alternately ---------- *)
Definition rstate := (st * stop * Z)%type.

(* give a machine that has not stopped [f] more ticks *)
Definition cont (m : module) (f : nat) (r : rstate) : rstate :=
  let '(s, k, n) := r in
  match k with StFuel => run m f s n | _ => r end.

(* [order]: true = machine 1 gets the next tick, false = machine 2 *)
Fixpoint sched (m1 m2 : module) (order : list bool) (r1 r2 : rstate) : rstate * rstate :=
  match order with
  | [] => (r1, r2)
  | true :: o => sched m1 m2 o (cont m1 1 r1) r2
  | false :: o => sched m1 m2 o r1 (cont m2 1 r2)
  end.

Definition count_b (b : bool) (l : list bool) : nat := length (filter (Bool.eqb b) l).
