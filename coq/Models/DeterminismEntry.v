(* sx entry point for the small compiler-side models of C20 (T-fn style tie). *)
From Coq Require Import ZArith List Bool.
From QV Require Import Sx Strs Machine Cpu Determinism.
Import ListNotations.
Open Scope Z_scope.

Definition deftype_stmt_sx (x : sx) : option (list Z * Z) :=
  match x with
  | SL [SZ ty; SL ls] => match get_zs ls with Some l => Some (l, ty) | None => None end
  | _ => None
  end.

Definition okey_sx (x : sx) : option (option str) :=
  match x with
  | SL [] => Some None
  | SL [s] => match get_str s with Some k => Some (Some k) | None => None end
  | _ => None
  end.

Definition sx_okey (k : option str) : sx :=
  match k with None => SL [] | Some s => SL [sx_str s] end.

Definition data_stmt_sx (x : sx) : option (option str * list str) :=
  match x with
  | SL [k; SL items] =>
    match okey_sx k, map_opt get_str items with
    | Some k', Some it => Some (k', it)
    | _, _ => None
    end
  | _ => None
  end.

Definition sx_verdict (v : lverdict) : sx :=
  match v with
  | LOk => SZ 0
  | LDuplicate i => SL [SZ 1; SZ (Z.of_nat i)]
  | LUndefined i => SL [SZ 2; SZ (Z.of_nat i)]
  end.

Definition letters_az : list Z := map (fun i => 97 + Z.of_nat i) (seq 0 26).

(* (1 ((ty letters) ...))         -> 26 lookups a..z (-1 = no entry)
   (2 ((key items) ...))          -> ((key items) ...) grouped
   (3 mode (decl ...) (use ...))  -> verdict; mode 0 = new element first, 1 = last
   (4 (lit ...))                  -> literal table
   (5 ((a) | (a b) ...))          -> letters of the ranges in source order *)
Definition determinism_entry (x : sx) : sx :=
  match x with
  | SL [SZ 1; SL stmts] =>
    match map_opt deftype_stmt_sx stmts with
    | Some ss =>
      let tab := apply_deftypes [] ss in
      SL (map (fun c => SZ (match letter_type tab c with Some t => t | None => -1 end)) letters_az)
    | None => sx_bad
    end
  | SL [SZ 2; SL stmts] =>
    match map_opt data_stmt_sx stmts with
    | Some ss =>
      SL (map (fun p => SL [sx_okey (fst p); SL (map sx_str (snd p))]) (group_data okey_eqb ss))
    | None => sx_bad
    end
  | SL [SZ 3; SZ mode; SL decls; SL uses] =>
    match map_opt get_str decls, map_opt get_str uses with
    | Some d, Some u =>
      sx_verdict (check_labels (if mode =? 0 then ins_front else ins_back) d u)
    | _, _ => sx_bad
    end
  | SL [SZ 4; SL occ] =>
    match map_opt get_str occ with
    | Some o => SL (map sx_str (literal_table o))
    | None => sx_bad
    end
  | SL [SZ 5; SL rs] =>
    match map_opt (fun r => match r with
                            | SL [SZ a] => Some (a, None)
                            | SL [SZ a; SZ b] => Some (a, Some b)
                            | _ => None end) rs with
    | Some l => SL (map SZ (flat_map range_letters l))
    | None => sx_bad
    end
  | _ => sx_bad
  end.
