(* Entry point used by the correspondence check of Base/Fl.v against Python
   floats (bit patterns in, bit patterns out). *)
From Coq Require Import ZArith List Bool.
From QV Require Import Sx Strs Fl.
Import ListNotations.
Open Scope Z_scope.

Definition sx_optz (o : option Z) : sx :=
  match o with Some z => SL [SZ z] | None => SL [] end.

Definition sx_cmp (o : option comparison) : sx :=
  match o with
  | None => SZ 2
  | Some Eq => SZ 0
  | Some Lt => SZ (-1)
  | Some Gt => SZ 1
  end.

Definition fl_entry (x : sx) : sx :=
  match x with
  | SL [SZ 1; SZ a; SZ b] => SZ (bits_of_fl (fadd (fl_of_bits a) (fl_of_bits b)))
  | SL [SZ 2; SZ a; SZ b] => SZ (bits_of_fl (fsub (fl_of_bits a) (fl_of_bits b)))
  | SL [SZ 3; SZ a; SZ b] => SZ (bits_of_fl (fmul (fl_of_bits a) (fl_of_bits b)))
  | SL [SZ 4; SZ a; SZ b] => SZ (bits_of_fl (fdiv (fl_of_bits a) (fl_of_bits b)))
  | SL [SZ 5; SZ a; SZ b] => sx_cmp (fcmp (fl_of_bits a) (fl_of_bits b))
  | SL [SZ 6; SZ z] => SZ (bits_of_fl (of_Z z))
  | SL [SZ 7; SZ a] => sx_optz (ffloor (fl_of_bits a))
  | SL [SZ 8; SZ a] => sx_optz (ftrunc (fl_of_bits a))
  | SL [SZ 9; SZ a] => sx_optz (fround (fl_of_bits a))
  | SL [SZ 10; SZ a] => sx_optz (option_map bits_of_fl (to_single (fl_of_bits a)))
  | SL [SZ 11; SZ a] => sx_optz (option_map bits32_of_fl (to_single (fl_of_bits a)))
  | SL [SZ 12; SZ b32] => SZ (bits_of_fl (fl_of_bits32 b32))
  | SL [SZ 13; SZ a] => SZ (bits_of_fl (fl_of_bits a))
  | _ => sx_bad
  end.
