(* sx dispatcher of the Blocks model.
   job   (1 (stmt ...))   -> front    (assembler + Pass1 block checks + stray markers)
         (2 (stmt ...))   -> assemble (parse_string only)
   stmt  (code arg line)  code 0..21 in the order of the constructors of skind;
                          arg: loop-variable id (5, 6; -1 = NEXT without variable),
                          0/1 condition flag (7, 8), field-name id (20), else 0
   out   (0 (tree ...))   tree = (0 code line) | (1 bkind oline (tree ...) eline)
         (1 errcode bkind line)
         (2 crashcode) *)
From Coq Require Import ZArith List Bool.
From QV Require Import Sx Blocks.
Import ListNotations.
Open Scope Z_scope.

Definition skind_of (code arg : Z) : option skind :=
  match code with
  | 0 => Some SSimple | 1 => Some SIfOpen | 2 => Some SElseIf | 3 => Some SElse
  | 4 => Some SEndIf | 5 => Some (SFor arg)
  | 6 => Some (SNext (if arg <? 0 then None else Some arg))
  | 7 => Some (SDo (negb (arg =? 0))) | 8 => Some (SLoop (negb (arg =? 0)))
  | 9 => Some SWhile | 10 => Some SWend | 11 => Some SSelect | 12 => Some SCase
  | 13 => Some SCaseElse | 14 => Some SEndSelect | 15 => Some SSubOpen | 16 => Some SEndSub
  | 17 => Some SFunctionOpen | 18 => Some SEndFunction | 19 => Some STypeOpen
  | 20 => Some (SField arg) | 21 => Some SEndType
  | _ => None
  end.

Definition skind_code (k : skind) : Z :=
  match k with
  | SSimple => 0 | SIfOpen => 1 | SElseIf => 2 | SElse => 3 | SEndIf => 4 | SFor _ => 5
  | SNext _ => 6 | SDo _ => 7 | SLoop _ => 8 | SWhile => 9 | SWend => 10 | SSelect => 11
  | SCase => 12 | SCaseElse => 13 | SEndSelect => 14 | SSubOpen => 15 | SEndSub => 16
  | SFunctionOpen => 17 | SEndFunction => 18 | STypeOpen => 19 | SField _ => 20
  | SEndType => 21
  end.

Definition stmt_of (x : sx) : option stmt :=
  match x with
  | SL [SZ code; SZ arg; SZ line] =>
    match skind_of code arg with Some k => Some (mkS k line) | None => None end
  | _ => None
  end.

Definition bkind_code (k : bkind) : Z :=
  match k with
  | BIf => 1 | BFor => 2 | BDo => 3 | BWhile => 4 | BSelect => 5 | BSub => 6
  | BFunction => 7 | BType => 8
  end.

Definition berr_code (e : berr) : Z * Z :=
  match e with
  | EEndWithoutStart k => (1, bkind_code k)
  | EExpectedEnd k => (2, bkind_code k)
  | ENotClosed k => (3, bkind_code k)
  | ENextVar => (4, 0) | EDoLoopCond => (5, 0) | ESelectBeforeCase => (6, 0)
  | ETypeIllegal => (7, 0) | ETypeDup => (8, 0) | EElseWithoutIf => (9, 0)
  | EIllegalInSub => (10, 0) | ETypeEmpty => (11, 0)
  end.

Fixpoint sx_tree (t : tree) : sx :=
  match t with
  | TStmt s => SL [SZ 0; SZ (skind_code (sk s)); SZ (sl s)]
  | TBlock k o b e => SL [SZ 1; SZ (bkind_code k); SZ (sl o); SL (map sx_tree b); SZ (sl e)]
  end.

Definition sx_result (r : result) : sx :=
  match r with
  | ROk ts => SL [SZ 0; SL (map sx_tree ts)]
  | RErr e ln => let (c, k) := berr_code e in SL [SZ 1; SZ c; SZ k; SZ ln]
  | RCrash CAssertIf => SL [SZ 2; SZ 1]
  | RCrash CCodegen => SL [SZ 2; SZ 2]
  end.

Definition blocks_entry (x : sx) : sx :=
  match x with
  | SL [SZ 1; SL l] =>
    match map_opt stmt_of l with Some ss => sx_result (front ss) | None => sx_bad end
  | SL [SZ 2; SL l] =>
    match map_opt stmt_of l with Some ss => sx_result (assemble ss) | None => sx_bad end
  | _ => sx_bad
  end.
