(* The debug map: qvm/debug_info.py (DebugInfoCollector, DebugInfo.add_node,
   finalize, find_stmt) together with the offset bookkeeping of
   QvmCode.assembled (qbee/qvm_codegen.py 557-589, 691) and
   qbee/utils.py convert_index_to_line_col.  No proofs here.

   [assembled] walks the instruction list of the compiled program.  Every
   element is a real instruction (1 opcode byte + operand bytes), a label
   (no effect on offsets or on the collector: dropped), or one of the three
   pseudo-instructions _dbg_info_start node / _dbg_info_end node /
   _empty_block.  That walk is the [item] list below. *)
From Coq Require Import ZArith List Bool.
Import ListNotations.
Open Scope Z_scope.

(* ---- nodes ----
   Python compares AST nodes by identity ([Node] defines no __eq__): a node is
   its identity [nid]; [nk] is what the isinstance tests of add_node see.
   A Block carries the identities of its start_stmt / end_stmt nodes. *)
Inductive nkind :=
| KStmt                                   (* Stmt, not a Block *)
| KBlock (start_stmt end_stmt : Z)        (* Block, not a routine *)
| KRoutine (start_stmt end_stmt : Z)      (* SubBlock / FunctionBlock: a Block with a routine record *)
| KOther.                                 (* any other Node (expression) *)

Record node := mkNode { nid : Z; nk : nkind }.

Inductive item :=
| Ins (size : Z)
| Start (n : node)
| End (n : node)
| EmptyBlock.

(* ---- DebugInfoCollector driven by assembled ---- *)
Definition cnode := (node * Z * Z)%type.        (* (node, start_offset, end_offset) *)

Record cst := mkC {
  c_off : Z;                       (* cur_offset *)
  c_stack : list (node * Z);       (* _stack, top first *)
  c_nodes : list cnode;            (* _nodes, in order of end_node calls *)
  c_empty : list Z                 (* _empty_blocks *)
}.

Inductive cres :=
| COk (s : cst)
| CAssert          (* assert start_node == node, 'Incorrect debug info' *)
| CPopEmpty.       (* IndexError: pop from empty list *)

Definition step (s : cst) (i : item) : cres :=
  match i with
  | Ins sz => COk (mkC (c_off s + sz) (c_stack s) (c_nodes s) (c_empty s))
  | Start n => COk (mkC (c_off s) ((n, c_off s) :: c_stack s) (c_nodes s) (c_empty s))
  | End n =>
    match c_stack s with
    | [] => CPopEmpty
    | (m, so) :: rest =>
      if nid m =? nid n
      then COk (mkC (c_off s) rest (c_nodes s ++ [(n, so, c_off s)]) (c_empty s))
      else CAssert
    end
  | EmptyBlock => COk (mkC (c_off s) (c_stack s) (c_nodes s) (c_empty s ++ [c_off s]))
  end.

Fixpoint run (s : cst) (l : list item) : cres :=
  match l with
  | [] => COk s
  | i :: r => match step s i with COk s' => run s' r | e => e end
  end.

Definition cinit (off : Z) : cst := mkC off [] [] [].

(* ---- DebugInfo.add_node ---- *)
Record rec := mkRec { r_node : Z; r_start : Z; r_end : Z }.

Record dinfo := mkD {
  d_routines : list (Z * (Z * Z));   (* dict name -> record; the name is the routine node *)
  d_blocks : list cnode;
  d_stmts : list rec;
  d_others : list rec
}.

Definition dempty : dinfo := mkD [] [] [] [].

(* Python dict assignment: an existing key keeps its position *)
Fixpoint dict_set (k : Z) (v : Z * Z) (d : list (Z * (Z * Z))) : list (Z * (Z * Z)) :=
  match d with
  | [] => [(k, v)]
  | (k', v') :: r => if k' =? k then (k', v) :: r else (k', v') :: dict_set k v r
  end.

Definition add_node (d : dinfo) (x : cnode) : dinfo :=
  let '(n, s, e) := x in
  match nk n with
  | KRoutine _ _ =>
    mkD (dict_set (nid n) (s, e) (d_routines d)) (d_blocks d ++ [x]) (d_stmts d) (d_others d)
  | KBlock _ _ => mkD (d_routines d) (d_blocks d ++ [x]) (d_stmts d) (d_others d)
  | KStmt => mkD (d_routines d) (d_blocks d) (d_stmts d ++ [mkRec (nid n) s e]) (d_others d)
  | KOther => mkD (d_routines d) (d_blocks d) (d_stmts d) (d_others d ++ [mkRec (nid n) s e])
  end.

Definition add_nodes (ns : list cnode) : dinfo := fold_left add_node ns dempty.

(* ---- DebugInfo.finalize ---- *)
Definition rsize (r : rec) : Z := r_end r - r_start r.

(* list.sort(key=...) is stable: insertion sort that puts an element before
   the first strictly greater key of the already sorted tail *)
Fixpoint ins_by (key : rec -> Z) (x : rec) (l : list rec) : list rec :=
  match l with
  | [] => [x]
  | y :: r => if key x <=? key y then x :: l else y :: ins_by key x r
  end.

Definition sort_by (key : rec -> Z) (l : list rec) : list rec :=
  fold_right (ins_by key) [] l.

(* get_children: block_start <= start and block_end >= end and end - start > 0 *)
Definition is_child (bs be : Z) (r : rec) : bool :=
  (bs <=? r_start r) && (be >=? r_end r) && (rsize r >? 0).

Definition block_stmts (k : nkind) : option (Z * Z) :=
  match k with
  | KBlock a b | KRoutine a b => Some (a, b)
  | _ => None
  end.

Definition marker_records (ss es bs be : Z) (empties : list Z) : list rec :=
  flat_map (fun a => if (bs <=? a) && (a <? be)
                     then [mkRec ss bs a; mkRec es a be] else []) empties.

(* one iteration of "for block, start_offset, end_offset in self.blocks" *)
Definition process_block (empties : list Z) (stmts : list rec) (b : cnode) : list rec :=
  let '(n, bs, be) := b in
  match block_stmts (nk n) with
  | None => stmts
  | Some (ss, es) =>
    match filter (is_child bs be) stmts with
    | [] => stmts ++ marker_records ss es bs be empties
    | c :: cs =>
      let children := sort_by r_start (c :: cs) in
      let first := hd c children in
      let last_ := last children c in
      stmts ++ [mkRec ss bs (r_start first); mkRec es (r_end last_) be]
    end
  end.

Definition process_blocks (empties : list Z) (blocks : list cnode) (stmts : list rec) : list rec :=
  fold_left (process_block empties) blocks stmts.

Definition finalize (empties : list Z) (blocks : list cnode) (stmts : list rec) : list rec :=
  sort_by r_start (process_blocks empties blocks stmts).

(* ---- the whole of assembled's debug side ---- *)
Inductive dres :=
| DOk (routines : list (Z * (Z * Z))) (stmts : list rec) (others : list rec) (code_size : Z)
| DAssert
| DPopEmpty.

Definition debug_map (l : list item) : dres :=
  match run (cinit 0) l with
  | COk s =>
    let d := add_nodes (c_nodes s) in
    DOk (d_routines d) (finalize (c_empty s) (d_blocks d) (d_stmts d)) (d_others d) (c_off s)
  | CAssert => DAssert
  | CPopEmpty => DPopEmpty
  end.

(* ---- DebugInfo.find_stmt ---- *)
Definition contains (addr : Z) (r : rec) : bool :=
  (r_start r <=? addr) && (addr <? r_end r).

(* isinstance(stmt, Block) applied to a DebugNodeRecord: never true *)
Definition rec_is_block (r : rec) : bool := false.

Inductive fres :=
| FFound (r : rec)
| FNone
| FNameError        (* the "if blocks:" branch uses undefined names *)
| FRecursion.       (* addr = 0 and the first instruction is "call 0" *)

Definition find_stmt (stmts : list rec) (addr : Z) : fres :=
  let matching := filter (contains addr) stmts in
  let blocks := filter rec_is_block matching in
  let non_blocks := filter (fun r => negb (rec_is_block r)) matching in
  match sort_by rsize non_blocks with
  | r :: _ => FFound r
  | [] => match blocks with [] => FNone | _ :: _ => FNameError end
  end.

(* the addr == 0 indirection; [first_call] is the operand of the instruction
   at offset 0 when that instruction is a call *)
Definition find_stmt_at (first_call : option Z) (stmts : list rec) (addr : Z) : fres :=
  if addr =? 0 then
    match first_call with
    | None => FNone
    | Some t => if t =? 0 then FRecursion else find_stmt stmts t
    end
  else find_stmt stmts addr.

(* ---- qbee/utils.py convert_index_to_line_col ----
   line is 1-based; col counts from 0 on the first line and from 1 on every
   later line (col = 1 is assigned at the newline); an offset at or beyond the
   end of the text gives (None, None) *)
Fixpoint idx2lc (text : list Z) (offset : nat) (line col : Z) : option (Z * Z) :=
  match text with
  | [] => None
  | c :: r =>
    match offset with
    | O => Some (line, col)
    | S k => if c =? 10 then idx2lc r k (line + 1) 1 else idx2lc r k line (col + 1)
    end
  end.

Definition index_to_line_col (text : list Z) (offset : Z) : option (Z * Z) :=
  if offset <? 0 then None else idx2lc text (Z.to_nat offset) 1 0.
