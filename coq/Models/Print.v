(* PRINT: the layout specification (print_text), the argument protocol
   (encode_print = what gen_print_stmt pushes, exec_print = what
   TerminalDevice._exec_print does with the popped cells). *)
From Coq Require Import ZArith List Bool Lia.
From QV Require Import Sx Strs Fl Dec NumFmt Cell Using.
Import ListNotations.
Open Scope Z_scope.

(* ---------- specification: layout of one PRINT statement ---------- *)

Inductive pitem :=
| PNum (txt : str)     (* a numeric item, already as its number text *)
| PStr (s : str)
| PSemi
| PComma.

Definition zone : Z := 14.

Definition pad_to_zone (buf : str) : str :=
  buf ++ spaces (Z.to_nat (zone - Z.of_nat (length buf) mod zone)).

Definition put_item (buf : str) (it : pitem) : str :=
  match it with
  | PNum t => buf ++ t ++ [ch_space]
  | PStr s => buf ++ s
  | PSemi => buf
  | PComma => pad_to_zone buf
  end.

Definition body (items : list pitem) : str := fold_left put_item items [].

Definition is_sep (it : pitem) : bool :=
  match it with PSemi | PComma => true | _ => false end.

Definition ends_in_sep (items : list pitem) : bool :=
  match rev items with
  | it :: _ => is_sep it
  | [] => false
  end.

Definition print_text (items : list pitem) : str :=
  if ends_in_sep items then body items else body items ++ crlf.

(* ---------- the code: argument protocol ---------- *)

(* a printed value as a cell; number text by NumFmt *)
Definition num_text (c : cell) : option str :=
  match c with
  | CI z | CL z => Some (fmt_int z)
  | CS f => Some (fmt_float true f)
  | CD f => Some (fmt_float false f)
  | _ => None
  end.

Inductive parg := AVal (c : cell) | ASemi | AComma.

Definition encode_arg (a : parg) : list cell :=
  match a with
  | AVal c => [CI 0; c]
  | ASemi => [CI 1]
  | AComma => [CI 2]
  end.

(* cells pushed by gen_print_stmt, in push order, followed by the count *)
Definition encode_print (fmt : option cell) (args : list parg) : list cell :=
  let pre := match fmt with Some f => [CI 3; f] | None => [] end in
  let l := pre ++ flat_map encode_arg args in
  l ++ [CI (Z.of_nat (length l))].

(* Python "arg == k" for a cell value and a small integer *)
Definition val_eq_int (c : cell) (k : Z) : bool :=
  match c with
  | CI z | CL z => z =? k
  | CS f | CD f => feqb f (of_Z k)
  | _ => false
  end.

Inductive pcrash := PIndexError | PUsing (k : ucrash) | PAttrError | PTypeError.

Inductive pres :=
| POk (fmt : option cell) (args : list parg)
| PTrapBadArg                (* _device_error -> DEVICE_ERROR trap *)
| PCrash (k : pcrash).

(* the while loop of _exec_print over the reversed-back argument list *)
Fixpoint decode_args (fuel : nat) (l : list cell) (fmt : option cell) (acc : list parg) : pres :=
  match fuel with
  | O => POk fmt (rev acc)
  | S f =>
    match l with
    | [] => POk fmt (rev acc)
    | t :: r =>
      if val_eq_int t 0 then
        match r with
        | v :: r' => decode_args f r' fmt (AVal v :: acc)
        | [] => PCrash PIndexError
        end
      else if val_eq_int t 1 then decode_args f r fmt (ASemi :: acc)
      else if val_eq_int t 2 then decode_args f r fmt (AComma :: acc)
      else if val_eq_int t 3 then
        match fmt with
        | Some _ => PTrapBadArg
        | None =>
          match r with
          | v :: r' => decode_args f r' (Some v) acc
          | [] => PCrash PIndexError
          end
        end
      else PTrapBadArg
    end
  end.

Definition decode_print (l : list cell) : pres := decode_args (length l) l None [].

Definition item_of_arg (a : parg) : option pitem :=
  match a with
  | ASemi => Some PSemi
  | AComma => Some PComma
  | AVal c =>
    match c with
    | CStr s => Some (PStr s)
    | CRef _ _ => None
    | _ => option_map PNum (num_text c)
    end
  end.

Definition uval_of_cell (c : cell) : option uval :=
  match c with
  | CI z | CL z => Some (UInt z)
  | CS f | CD f => Some (UFlt f)
  | CStr s => Some (UStr s)
  | CRef _ _ => None
  end.

Inductive pout :=
| OutText (calls : list str)     (* terminal_print calls, in order *)
| OutTrap
| OutCrash (k : pcrash).

Definition arg_is_sep (a : parg) : bool :=
  match a with ASemi | AComma => true | AVal _ => false end.

(* what _exec_print does after decoding *)
Definition emit (fmt : option cell) (args : list parg) : pout :=
  match fmt with
  | Some f =>
    (* PrintUsingFormatter(...) is built first, then printables[-1] is read *)
    match f with
    | CStr fs =>
      match parse_format fs with
      | None => OutCrash (PUsing UIndexError)
      | Some parts =>
        match rev args with
        | [] => OutCrash PIndexError             (* printables[-1] on an empty list *)
        | last :: _ =>
          let newline := negb (arg_is_sep last) in
          let vals := flat_map (fun a => match a with AVal c => [c] | _ => [] end) args in
          match map_opt uval_of_cell vals with
          | None => OutCrash PTypeError
          | Some uv =>
            match render parts (zlen (map (fun _ => 0) parts)) uv 0 [] with
            | UOk s => OutText (if newline then [s; crlf] else [s])
            | UCrash k => OutCrash (PUsing k)
            end
          end
        end
      end
    | _ => OutCrash PTypeError          (* len() of a non-string format value *)
    end
  | None =>
    match map_opt item_of_arg args with
    | Some items => OutText [print_text items]
    | None => OutCrash PTypeError
    end
  end.

Definition exec_print (l : list cell) : pout :=
  match decode_print l with
  | POk fmt args => emit fmt args
  | PTrapBadArg => OutTrap
  | PCrash k => OutCrash k
  end.
