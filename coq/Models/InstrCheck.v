(* Decidable agreement between the generated instruction table (Gen/Instrs.v,
   regenerated from qvm/instrs.py on every run) and the hand-written decoder
   Cpu.decode / mnemonics Codec.instr_name.  The obligations
   [... = true] are discharged by vm_compute in Proofs/InstrsOk.v; the same
   functions are extracted so that a failing obligation can be reported entry
   by entry. *)
From Coq Require Import ZArith List Bool.
From QV Require Import Sx Strs Fl Machine Cpu Instrs Codec.
Import ListNotations.
Open Scope Z_scope.

Definition tentry := (list Z * Z * list opk)%type.
Definition e_name (e : tentry) : str := fst (fst e).
Definition e_op (e : tentry) : Z := snd (fst e).
Definition e_kinds (e : tentry) : list opk := snd e.
Definition e_size (e : tentry) : Z := 1 + sumZ (map opk_size (e_kinds e)).

Fixpoint nodup_by {A} (eqb : A -> A -> bool) (l : list A) : bool :=
  match l with
  | [] => true
  | x :: r => negb (existsb (eqb x) r) && nodup_by eqb r
  end.

Definition opcodes_unique (t : list tentry) : bool := nodup_by Z.eqb (map e_op t).
Definition mnemonics_unique (t : list tentry) : bool := nodup_by str_eqb (map e_name t).

(* operand values of a decoded instruction, in operand order *)
Inductive oval := OvZ (z : Z) | OvF (f : fl).

Definition instr_operands (i : instr) : list oval :=
  match i with
  | IAllocarr n es => [OvZ n; OvZ es]
  | IArridx n => [OvZ n]
  | ICall t | IErrhand t | IJmp t | IJz t => [OvZ t]
  | IFrame p l => [OvZ p; OvZ l]
  | IInitarrg i n es | IInitarrl i n es => [OvZ i; OvZ n; OvZ es]
  | IIo d o => [OvZ d; OvZ o]
  | IPushI z | IPushL z | IPushStr z => [OvZ z]
  | IPushS f | IPushD f => [OvF f]
  | IPushrefg i | IPushrefl i | IRead _ _ i | IStore _ i => [OvZ i]
  | IReadidx _ _ v i | IStoreidx _ v i => [OvZ v; OvZ i]
  | _ => []
  end.

(* what an operand of kind k reads from bytes that are all 255 *)
Definition all_ones (k : opk) : oval :=
  match k with
  | KU8 => OvZ 255
  | KI16 => OvZ (-1)
  | KU16 => OvZ 65535
  | KI32 => OvZ (-1)
  | KLabel => OvZ 4294967295
  | KF32 => OvF FNaN
  | KF64 => OvF FNaN
  | KStrLit => OvZ (-1)          (* StringLiteral._decode reads '>h' *)
  end.

Definition oval_eqb (a b : oval) : bool :=
  match a, b with
  | OvZ x, OvZ y => x =? y
  | OvF FNaN, OvF FNaN => true
  | _, _ => false
  end.

Fixpoint list_eqb {A} (eqb : A -> A -> bool) (a b : list A) : bool :=
  match a, b with
  | [], [] => true
  | x :: a', y :: b' => eqb x y && list_eqb eqb a' b'
  | _, _ => false
  end.

(* 0 = agrees; 1 = the opcode does not decode; 2 = other mnemonic; 3 = other
   size; 4 = an operand is read with another width/signedness; 5 = the
   decoder accepts fewer operand bytes than the table says *)
Definition entry_check (e : tentry) : Z :=
  let nb := Z.to_nat (e_size e - 1) in
  match decode (e_op e :: repeat 255 nb) with
  | DOk i n =>
    if negb (str_eqb (instr_name i) (e_name e)) then 2
    else if negb (n =? e_size e) then 3
    else if negb (list_eqb oval_eqb (instr_operands i) (map all_ones (e_kinds e))) then 4
    else match nb with
         | O => 0
         | S nb' => match decode (e_op e :: repeat 255 nb') with DTrunc => 0 | _ => 5 end
         end
  | _ => 1
  end.

Definition table_agrees (t : list tentry) : bool := forallb (fun e => entry_check e =? 0) t.

Fixpoint zrange (n : nat) (from : Z) : list Z :=
  match n with O => [] | S n' => from :: zrange n' (from + 1) end.

Definition all_bytes : list Z := zrange (Z.to_nat 256) 0.

(* a byte that is no opcode of the table must be rejected by the decoder *)
Definition unknown_check (t : list tentry) (b : Z) : bool :=
  if existsb (fun e => e_op e =? b) t then true
  else match decode (b :: repeat 255 16) with DUnknown => true | _ => false end.

Definition unknown_agrees (t : list tentry) : bool := forallb (unknown_check t) all_bytes.

(* failing entries, for the report: (mnemonic, opcode, code) and stray bytes *)
Definition failing_entries (t : list tentry) : list (str * Z * Z) :=
  flat_map (fun e => let c := entry_check e in
                     if c =? 0 then [] else [(e_name e, e_op e, c)]) t.
Definition stray_bytes (t : list tentry) : list Z :=
  filter (fun b => negb (unknown_check t b)) all_bytes.
