(* DATA text -> items.  Faithful models of
     qbee/utils.py  parse_data            (the 4-state tokeniser), and of
     qbee/grammar.py data_stmt + its parse action (tokens of the pyparsing
       rule, re-joined with single blanks, then parse_data).
   No proofs here (Proofs/DataProofs.v).  The specification the property
   demands is in Models/DataSpec.v. *)
From Coq Require Import ZArith List Bool.
From QV Require Import Sx Strs.
Import ListNotations.
Open Scope Z_scope.

(* An item of a DATA statement: qbee.utils.Empty.value is distinct from '' *)
Inductive ditem :=
| DEmpty
| DItem (s : str).

Definition ditem_eqb (a b : ditem) : bool :=
  match a, b with
  | DEmpty, DEmpty => true
  | DItem x, DItem y => str_eqb x y
  | _, _ => false
  end.

(* ---------- qbee/utils.py parse_data ---------- *)

Inductive pst := PBefore | PUnq | PQuo | PAfter.

(* (state, items, item) : the three loop variables *)
Definition pstate : Type := pst * list ditem * str.

(* whitespace = ' \t' is Strs.is_blank *)
Definition pd_step (q : pstate) (c : Z) : option pstate :=
  let '(s, items, item) := q in
  match s with
  | PBefore =>
    if is_blank c then Some q
    else if c =? ch_comma then Some (PBefore, items ++ [DEmpty], item)
    else if c =? ch_quote then Some (PQuo, items, item)
    else Some (PUnq, items, item ++ [c])
  | PUnq =>
    if c =? ch_comma then Some (PBefore, items ++ [DItem (py_strip item)], [])
    else Some (PUnq, items, item ++ [c])
  | PQuo =>
    if c =? ch_quote then Some (PAfter, items ++ [DItem item], [])
    else Some (PQuo, items, item ++ [c])
  | PAfter =>
    if is_blank c then Some q
    else if c =? ch_comma then Some (PBefore, items, item)
    else None                                  (* return None *)
  end.

Fixpoint pd_run (q : pstate) (s : str) : option pstate :=
  match s with
  | [] => Some q
  | c :: r => match pd_step q c with
              | Some q' => pd_run q' r
              | None => None
              end
  end.

(* the code after the loop *)
Definition pd_finish (q : pstate) : list ditem :=
  let '(s, items, item) := q in
  match s with
  | PUnq => items ++ [DItem (py_strip item)]
  | PBefore => match item with
               | [] => items ++ [DEmpty]
               | _ => items ++ [DItem item]
               end
  | PQuo => items ++ [DItem item]
  | PAfter => items
  end.

Definition pd_init : pstate := (PBefore, [], []).

(* None = the function returns None (the parse action turns it into a SyntaxError) *)
Definition parse_data (s : str) : option (list ditem) :=
  option_map pd_finish (pd_run pd_init s).

(* ---------- qbee/grammar.py data_stmt ----------
     quoted_string   = Regex(Q[^Q]*Q)         (Q is the double quote)
     unquoted_string = Regex([^Q\n:]+)
     unclosed_quoted_string = Regex(Q[^Q\n]+) + FollowedBy(LineEnd())
     data_stmt = DATA - (quoted | unquoted | comma)[...] + unclosed[...]
   pyparsing skips ' ' and '\t' before every token.  The alternative [comma]
   is never reached (an unquoted_string may start with a comma).  The model
   is for ONE LINE without '\n' and without '\t' (parse_string expands tabs
   before matching; the entry point refuses such texts).
   Result: the tokens and the unconsumed rest of the line (after the blanks
   pyparsing would skip). *)

Fixpoint span (p : Z -> bool) (s : str) : str * str :=
  match s with
  | [] => ([], [])
  | c :: r => if p c then let '(a, b) := span p r in (c :: a, b) else ([], s)
  end.

Definition not_quote (c : Z) : bool := negb (c =? ch_quote).
Definition unq_char (c : Z) : bool :=
  negb ((c =? ch_quote) || (c =? ch_colon) || (c =? ch_lf)).

Fixpoint ds_tokens (fuel : nat) (s : str) : list str * str :=
  match fuel with
  | O => ([], s)
  | S f =>
    let s1 := drop_while is_blank s in
    match s1 with
    | [] => ([], [])
    | c :: r =>
      if c =? ch_quote then
        let '(q, r2) := span not_quote r in
        match r2 with
        | _ :: r3 =>                                   (* quoted_string *)
          let '(ts, rest) := ds_tokens f r3 in
          ((c :: q ++ [ch_quote]) :: ts, rest)
        | [] =>                                        (* no closing quote *)
          match r with
          | [] => ([], s1)                             (* Q[^Q\n]+ needs one character *)
          | _ => ([s1], [])                            (* unclosed_quoted_string to the line end *)
          end
        end
      else if unq_char c then
        let '(u, r2) := span unq_char s1 in
        let '(ts, rest) := ds_tokens f r2 in
        (u :: ts, rest)
      else ([], s1)                                    (* ':' ends the statement *)
    end
  end.

(* ' '.join(tokens) *)
Fixpoint join_sp (l : list str) : str :=
  match l with
  | [] => []
  | [t] => t
  | t :: r => t ++ ch_space :: join_sp r
  end.

(* the parse action: (DataStmt(joined).items, rest); items None = SyntaxError *)
Definition data_stmt (s : str) : option (list ditem) * str :=
  let '(ts, rest) := ds_tokens (S (length s)) s in
  (parse_data (join_sp ts), rest).

(* texts the grammar model covers *)
Definition ds_supported (s : str) : bool :=
  forallb (fun c => negb ((c =? ch_tab) || (c =? ch_lf))) s.
