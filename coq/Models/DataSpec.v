(* C15: the SPECIFICATION (what the property demands), independent of how the
   code is organised.  Nothing here mentions tokeniser states, parts, part
   indices or the (part, index) cursor.
     1. the item grammar of a DATA text (fields, render, well-formedness);
     2. the extent of a DATA statement inside a line (a colon outside a
        quoted item ends it);
     3. READ / RESTORE on a program abstracted as the source-ordered list of
        Label / Data events: one flat item list, a position in it. *)
From Coq Require Import ZArith List Bool.
From QV Require Import Sx Strs Fl NumFmt Cell DataText DataDev.
Import ListNotations.
Open Scope Z_scope.

(* ---------- 1. the item grammar ----------
   text   ::= field { ',' field } [ ',' open ]   |   open
   field  ::= ws                      empty item
           |  ws u ws                 unquoted item u, trimmed
           |  ws Q q Q ws             quoted item q, verbatim (Q = the double quote)
   open   ::= ws Q q                  quoted item without closing quote (last field only)
   ws     ::= { ' ' | TAB } *)

Inductive field :=
| FEmpty (w : str)
| FPlain (w1 u w2 : str)
| FQuoted (w1 q w2 : str)
| FOpen (w1 q : str).

Definition all_blank (w : str) : bool := forallb is_blank w.
Definition no_char (c : Z) (s : str) : bool := forallb (fun x => negb (x =? c)) s.

Definition last_ch (s : str) : option Z :=
  match rev s with c :: _ => Some c | [] => None end.

(* an unquoted item: not empty, no comma, does not start with a blank or a
   quote, does not end with a blank *)
Definition plain_ok (u : str) : bool :=
  match u with
  | [] => false
  | c :: _ =>
    negb (is_blank c) && negb (c =? ch_quote) && no_char ch_comma u &&
    match last_ch u with Some d => negb (is_blank d) | None => false end
  end.

Definition field_ok (f : field) : bool :=
  match f with
  | FEmpty w => all_blank w
  | FPlain w1 u w2 => all_blank w1 && plain_ok u && all_blank w2
  | FQuoted w1 q w2 => all_blank w1 && no_char ch_quote q && all_blank w2
  | FOpen w1 q => all_blank w1 && no_char ch_quote q
  end.

Definition is_open (f : field) : bool :=
  match f with FOpen _ _ => true | _ => false end.

(* non-empty list of fields; an open field only in last position *)
Fixpoint fields_ok (fs : list field) : bool :=
  match fs with
  | [] => false
  | [f] => field_ok f
  | f :: r => field_ok f && negb (is_open f) && fields_ok r
  end.

Definition render_field (f : field) : str :=
  match f with
  | FEmpty w => w
  | FPlain w1 u w2 => w1 ++ u ++ w2
  | FQuoted w1 q w2 => w1 ++ ch_quote :: q ++ ch_quote :: w2
  | FOpen w1 q => w1 ++ ch_quote :: q
  end.

Fixpoint render (fs : list field) : str :=
  match fs with
  | [] => []
  | [f] => render_field f
  | f :: r => render_field f ++ ch_comma :: render r
  end.

Definition item_of (f : field) : ditem :=
  match f with
  | FEmpty _ => DEmpty
  | FPlain _ u _ => DItem u
  | FQuoted _ q _ => DItem q
  | FOpen _ q => DItem q
  end.

(* [items] are the items of the DATA text [t] *)
Definition data_items_spec (t : str) (items : list ditem) : Prop :=
  exists fs, fields_ok fs = true /\ render fs = t /\ map item_of fs = items.

(* the alphabet restriction under which the code's str.strip() is "trim blanks":
   no white-space character other than blank and TAB (\n \v \f \r \x1c-\x1f \x85 \xa0) *)
Definition plain_text (t : str) : bool :=
  forallb (fun c => negb (is_py_space c) || is_blank c) t.

(* ---------- 2. extent of the statement in a line ---------- *)

Inductive xmode := XStart | XPlain | XQuoted | XAfter.

(* (text of the statement, rest of the line starting at the colon),
   flag: a quote occurred inside an unquoted item *)
Fixpoint extent (m : xmode) (s : str) : str * str * bool :=
  match s with
  | [] => ([], [], false)
  | c :: r =>
    let go m' fl := let '(a, b, f) := extent m' r in (c :: a, b, fl || f) in
    match m with
    | XQuoted => if c =? ch_quote then go XAfter false else go XQuoted false
    | _ =>
      if c =? ch_colon then ([], s, false)
      else if c =? ch_comma then go XStart false
      else match m with
           | XStart => if is_blank c then go XStart false
                       else if c =? ch_quote then go XQuoted false
                       else go XPlain false
           | XPlain => go XPlain (c =? ch_quote)
           | _ => go XAfter false
           end
    end
  end.

(* the mode in which the statement text ends *)
Fixpoint end_mode (m : xmode) (s : str) : xmode :=
  match s with
  | [] => m
  | c :: r =>
    match m with
    | XQuoted => if c =? ch_quote then end_mode XAfter r else end_mode XQuoted r
    | _ =>
      if c =? ch_comma then end_mode XStart r
      else match m with
           | XStart => if is_blank c then end_mode XStart r
                       else if c =? ch_quote then end_mode XQuoted r
                       else end_mode XPlain r
           | XPlain => end_mode XPlain r
           | _ => end_mode XAfter r
           end
    end
  end.

Record stmt_spec := {
  ss_items : option (list ditem);   (* None: the text is not generated by the grammar *)
  ss_rest : str;                    (* from the terminating colon on; [] = whole line *)
  ss_inner_quote : bool;            (* a quote inside an unquoted item *)
  ss_lone_quote : bool              (* the text ends with an opening quote (empty open item) *)
}.

(* items by the reference tokeniser = the grammar above (Proofs: data_items_iff) *)
Definition stmt_of_line (s : str) : stmt_spec :=
  let '(t, rest, iq) := extent XStart s in
  {| ss_items := parse_data t;
     ss_rest := rest;
     ss_inner_quote := iq;
     ss_lone_quote := match end_mode XStart t, last_ch t with
                      | XQuoted, Some c => c =? ch_quote
                      | _, _ => false
                      end |}.

(* ---------- 3. READ / RESTORE ---------- *)

(* all items of all DATA statements in source order *)
Definition all_items (evs : list ev) : list ditem :=
  flat_map (fun e => match e with EData its => its | _ => [] end) evs.

(* number of items before module-level label l = position of the first item of
   the first DATA statement at or after the label (= length of all_items when
   no DATA follows).  None: no such module-level label. *)
Fixpoint label_pos (l : label) (evs : list ev) (n : nat) : option nat :=
  match evs with
  | [] => None
  | ELabel l' :: r => if str_eqb l l' then Some n else label_pos l r n
  | EData its :: r => label_pos l r (n + length its)
  | ESubLabel _ :: r => label_pos l r n
  end.

Inductive sending :=
| SDone
| SRuntimeError.        (* out of data, text into a numeric variable, value out of range *)

Fixpoint spec_run (evs : list ev) (pos : nat) (ops : list op) : list cell * sending :=
  match ops with
  | [] => ([], SDone)
  | ORead ty :: r =>
    match nth_error (all_items evs) pos with
    | None => ([], SRuntimeError)
    | Some it =>
      match convert ty it with
      | RVal c => let '(cs, e) := spec_run evs (S pos) r in (c :: cs, e)
      | _ => ([], SRuntimeError)
      end
    end
  | ORestore None :: r => spec_run evs 0 r
  | ORestore (Some l) :: r =>
    match label_pos l evs 0 with
    | Some n => spec_run evs n r
    | None => ([], SRuntimeError)      (* excluded by prog_valid *)
    end
  end.

(* a legal program: labels unique, every RESTORE target is a module-level label *)
Definition prog_valid (evs : list ev) (ops : list op) : bool :=
  negb (has_dup (labels_of evs)) &&
  forallb (fun l => mem_label l (main_labels_of evs)) (targets_of ops).

Inductive sres :=
| SRun (vals : list cell) (e : sending)
| SInvalid.                            (* must be rejected with a diagnostic *)

Definition spec_prog (evs : list ev) (ops : list op) : sres :=
  if prog_valid evs ops then let '(vs, e) := spec_run evs 0 ops in SRun vs e
  else SInvalid.

(* how an outcome of the code is read in the terms of the specification *)
Definition abstract_ending (e : ending) : option sending :=
  match e with
  | EDone => Some SDone
  | ETrap (RDevErr _) => Some SRuntimeError
  | ETrap RInvalidCell => Some SRuntimeError
  | ETrap _ => None
  end.

Definition abstract_pres (p : pres) : option sres :=
  match p with
  | PRun vs e => option_map (SRun vs) (abstract_ending e)
  | PCompile CDuplicateLabel => Some SInvalid
  | PCompile CLabelNotDefined => Some SInvalid
  | PCompile CValueError => None         (* an internal error is never the demanded behaviour *)
  end.

(* ---------- 4. guards used in the theorem statements (all decidable) ---------- *)

(* every DATA statement carries at least one item (always: C15_data_never_empty_list) *)
Definition data_nonempty (evs : list ev) : bool :=
  forallb (fun e => match e with EData [] => false | _ => true end) evs.

Definition parts_nonempty (d : dparts) : bool :=
  forallb (fun p => match p with [] => false | _ => true end) d.

(* every READ variable has one of the five scalar types (always so in a compiled program) *)
Definition ops_typed (ops : list op) : bool :=
  forallb (fun o => match o with ORead ty => (1 <=? ty) && (ty <=? 5) | _ => true end) ops.

(* no RESTORE without label (D11) *)
Definition no_bare_restore (ops : list op) : bool :=
  forallb (fun o => match o with ORestore None => false | _ => true end) ops.

(* the statement directly after module-level label l, skipping nothing, is a DATA (D12) *)
Fixpoint label_has_data (l : label) (evs : list ev) : bool :=
  match evs with
  | [] => false
  | ELabel l' :: r =>
    (str_eqb l l' && match r with EData _ :: _ => true | _ => false end) || label_has_data l r
  | _ :: r => label_has_data l r
  end.

Definition targets_own_data (evs : list ev) (ops : list op) : bool :=
  forallb (fun l => label_has_data l evs) (targets_of ops).
