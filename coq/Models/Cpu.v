(* QVM instructions: decoding (cpu.get_instruction_at), _exec_* and tick/_trap. *)
From Coq Require Import ZArith List Bool Lia.
From QV Require Import Sx Strs Fl Dec NumFmt Literal Cell Using Print Machine Instrs.
Import ListNotations.
Open Scope Z_scope.

Inductive instr :=
| IAbs | IAdd | IAllocarr (n es : Z) | IAnd | IArridx (n : Z) | IAsc | ICall (t : Z) | IChr
| ICint | IClng | ICmp | IConv (src dst : Z) | IDeref (ty : Z) | IDiv | IDupl | IEq | IEqv
| IErrget | IErrhand (t : Z) | IErrline | IErrraise | IErrres | IErrresn | IExp
| IFrame (p l : Z) | IGe | IGt | IHalt | IIdiv | IIjmp | IInitarrg (i n es : Z)
| IInitarrl (i n es : Z) | IInt | IImp | IIo (d o : Z) | IJmp (t : Z) | IJz (t : Z)
| ILbound | ILcase | ILe | ILt | ILtrim | IMod | IMul | INe | INeg | INop | INot | INtos
| IOr | IPop | IPushI (z : Z) | IPushL (z : Z) | IPushS (f : fl) | IPushD (f : fl)
| IPushStr (idx : Z) | IPushC (ty c : Z) | IPushrefg (i : Z) | IPushrefl (i : Z)
| IRead (local_ : bool) (ty : Z) (i : Z)            (* ty 1..5, 7 = reference *)
| IReadidx (local_ : bool) (ty : Z) (v i : Z)
| IRefidx | IRet | IRetv | IRtrim | ISdbl | ISign | ISpace | ISub
| IStore (local_ : bool) (i : Z) | IStoreidx (local_ : bool) (v i : Z) | IStoreref
| IStrfind | IStrleft | IStrlen | IStrmid | IStrrep | IStrright | ISwap | ISwapprev
| IUbound | IUcase | IXor.

(* ---- operand decoding (big endian) ---- *)
Definition u8 (l : list Z) : option (Z * list Z) :=
  match l with a :: r => Some (a, r) | _ => None end.
Definition u16 (l : list Z) : option (Z * list Z) :=
  match l with a :: b :: r => Some (a * 256 + b, r) | _ => None end.
Definition i16 (l : list Z) : option (Z * list Z) :=
  match u16 l with Some (v, r) => Some (if v >=? 32768 then v - 65536 else v, r) | None => None end.
Definition u32 (l : list Z) : option (Z * list Z) :=
  match l with a :: b :: c :: d :: r => Some (((a * 256 + b) * 256 + c) * 256 + d, r) | _ => None end.
Definition i32 (l : list Z) : option (Z * list Z) :=
  match u32 l with Some (v, r) => Some (if v >=? 2147483648 then v - 4294967296 else v, r) | None => None end.
Definition u64 (l : list Z) : option (Z * list Z) :=
  match u32 l with
  | Some (hi, r) => match u32 r with Some (lo, r') => Some (hi * 4294967296 + lo, r') | None => None end
  | None => None
  end.

(* (instruction, size) at the head of a byte list.  None = unknown opcode;
   a truncated operand is [Some (None)]: struct.error in the real decoder *)
Inductive dec := DUnknown | DTrunc | DOk (i : instr) (size : Z).

Definition d0 (i : instr) : dec := DOk i 1.
Definition d1 {A} (rd : list Z -> option (A * list Z)) (sz : Z) (r : list Z) (k : A -> instr) : dec :=
  match rd r with Some (a, _) => DOk (k a) (1 + sz) | None => DTrunc end.
Definition d2 {A B} (rd1 : list Z -> option (A * list Z)) (rd2 : list Z -> option (B * list Z))
           (sz : Z) (r : list Z) (k : A -> B -> instr) : dec :=
  match rd1 r with
  | Some (a, r') => match rd2 r' with Some (b, _) => DOk (k a b) (1 + sz) | None => DTrunc end
  | None => DTrunc
  end.
Definition d3 {A B C} (rd1 : list Z -> option (A * list Z)) (rd2 : list Z -> option (B * list Z))
           (rd3 : list Z -> option (C * list Z)) (sz : Z) (r : list Z) (k : A -> B -> C -> instr) : dec :=
  match rd1 r with
  | Some (a, r') =>
    match rd2 r' with
    | Some (b, r'') => match rd3 r'' with Some (c, _) => DOk (k a b c) (1 + sz) | None => DTrunc end
    | None => DTrunc
    end
  | None => DTrunc
  end.

Definition decode (l : list Z) : dec :=
  match l with
  | [] => DTrunc
  | op :: r =>
    (* opcode numbers of qvm/instrs.py; cross-checked with the generated table *)
    if op =? 136 then d0 IAbs else if op =? 2 then d0 IAdd
    else if op =? 101 then d2 u8 i32 5 r IAllocarr
    else if op =? 3 then d0 IAnd
    else if op =? 4 then d1 u8 1 r IArridx
    else if op =? 121 then d0 IAsc
    else if op =? 5 then d1 u32 4 r ICall
    else if op =? 116 then d0 IChr else if op =? 129 then d0 ICint else if op =? 130 then d0 IClng
    else if op =? 105 then d0 ICmp
    else if op =? 6 then d0 (IConv 1 2) else if op =? 7 then d0 (IConv 1 3)
    else if op =? 8 then d0 (IConv 1 4) else if op =? 9 then d0 (IConv 2 1)
    else if op =? 10 then d0 (IConv 2 3) else if op =? 11 then d0 (IConv 2 4)
    else if op =? 12 then d0 (IConv 3 1) else if op =? 13 then d0 (IConv 3 2)
    else if op =? 14 then d0 (IConv 3 4) else if op =? 15 then d0 (IConv 4 1)
    else if op =? 16 then d0 (IConv 4 2) else if op =? 17 then d0 (IConv 4 3)
    else if op =? 18 then d0 (IDeref 1) else if op =? 122 then d0 (IDeref 2)
    else if op =? 123 then d0 (IDeref 3) else if op =? 124 then d0 (IDeref 4)
    else if op =? 125 then d0 (IDeref 5)
    else if op =? 19 then d0 IDiv else if op =? 103 then d0 IDupl else if op =? 20 then d0 IEq
    else if op =? 21 then d0 IEqv else if op =? 138 then d0 IErrget
    else if op =? 139 then d1 u32 4 r IErrhand
    else if op =? 141 then d0 IErrline else if op =? 142 then d0 IErrraise
    else if op =? 143 then d0 IErrres else if op =? 144 then d0 IErrresn
    else if op =? 22 then d0 IExp
    else if op =? 23 then d2 u16 u16 4 r IFrame
    else if op =? 24 then d0 IGe else if op =? 102 then d0 IGt else if op =? 100 then d0 IHalt
    else if op =? 25 then d0 IIdiv else if op =? 109 then d0 IIjmp
    else if op =? 126 then d3 u16 u8 i32 7 r IInitarrg
    else if op =? 127 then d3 u16 u8 i32 7 r IInitarrl
    else if op =? 111 then d0 IInt else if op =? 26 then d0 IImp
    else if op =? 27 then d2 u8 u8 2 r IIo
    else if op =? 28 then d1 u32 4 r IJmp else if op =? 29 then d1 u32 4 r IJz
    else if op =? 133 then d0 ILbound else if op =? 115 then d0 ILcase
    else if op =? 30 then d0 ILe else if op =? 31 then d0 ILt else if op =? 131 then d0 ILtrim
    else if op =? 32 then d0 IMod else if op =? 33 then d0 IMul else if op =? 34 then d0 INe
    else if op =? 35 then d0 INeg else if op =? 36 then d0 INop else if op =? 37 then d0 INot
    else if op =? 117 then d0 INtos else if op =? 38 then d0 IOr else if op =? 104 then d0 IPop
    else if op =? 39 then d1 i16 2 r IPushI
    else if op =? 40 then d1 i32 4 r IPushL
    else if op =? 41 then d1 u32 4 r (fun b => IPushS (fl_of_bits32 b))
    else if op =? 42 then d1 u64 8 r (fun b => IPushD (fl_of_bits b))
    else if op =? 43 then d1 i16 2 r IPushStr
    else if (44 <=? op) && (op <=? 63) then
      let k := op - 44 in d0 (IPushC (k mod 4 + 1) (k / 4 - 2))
    else if op =? 64 then d1 u16 2 r IPushrefg
    else if op =? 65 then d1 u16 2 r IPushrefl
    else if (66 <=? op) && (op <=? 71) then
      d1 u16 2 r (IRead false (if op =? 71 then 7 else op - 65))
    else if (72 <=? op) && (op <=? 77) then
      d1 u16 2 r (IRead true (if op =? 77 then 7 else op - 71))
    else if (78 <=? op) && (op <=? 83) then
      d2 u16 u16 4 r (IReadidx false (if op =? 83 then 7 else op - 77))
    else if (84 <=? op) && (op <=? 89) then
      d2 u16 u16 4 r (IReadidx true (if op =? 89 then 7 else op - 83))
    else if op =? 90 then d0 IRefidx else if op =? 91 then d0 IRet else if op =? 92 then d0 IRetv
    else if op =? 132 then d0 IRtrim else if op =? 113 then d0 ISdbl else if op =? 106 then d0 ISign
    else if op =? 112 then d0 ISpace else if op =? 93 then d0 ISub
    else if op =? 94 then d1 u16 2 r (IStore false)
    else if op =? 95 then d1 u16 2 r (IStore true)
    else if op =? 96 then d2 u16 u16 4 r (IStoreidx false)
    else if op =? 97 then d2 u16 u16 4 r (IStoreidx true)
    else if op =? 98 then d0 IStoreref
    else if op =? 135 then d0 IStrfind else if op =? 118 then d0 IStrleft
    else if op =? 110 then d0 IStrlen else if op =? 120 then d0 IStrmid
    else if op =? 128 then d0 IStrrep else if op =? 119 then d0 IStrright
    else if op =? 107 then d0 ISwap else if op =? 108 then d0 ISwapprev
    else if op =? 134 then d0 IUbound else if op =? 114 then d0 IUcase else if op =? 99 then d0 IXor
    else DUnknown
  end.

(* ---- instruction semantics ---- *)

Definition type_mismatch {A} : M A := trap T_TYPE_MISMATCH.

(* _bitwise *)
Definition bitwise (op : Z -> Z -> Z) : M unit :=
  do b <- pop; do a <- pop;
  if negb (is_integral a) then type_mismatch
  else if negb (is_integral b) then type_mismatch
  else if negb (cell_ty a =? cell_ty b) then type_mismatch
  else match a, b with
       | CI x, CI y => push 1 (PInt (op x y))
       | CL x, CL y => push 2 (PInt (op x y))
       | _, _ => crashM CrAssert
       end.

(* binary arithmetic with the "both numeric and same type" prelude of sub/mul/exp *)
(* _exec_exp: an integral power that is certainly out of range (|base| >= 2, exponent > 64) traps
   before the big number is computed (and before the trap message would try to print it) *)
Definition pow_surely_overflows (a b : cell) : bool :=
  match a, b with
  | CI x, CI y | CL x, CL y => (y >? 64) && (Z.abs x >? 1)
  | _, _ => false
  end.

(* base 0, 1, -1 with an exponent above 64: the value of x ** y without iterating y times *)
Definition pow_small_base (a b : cell) : option Z :=
  match a, b with
  | CI x, CI y | CL x, CL y =>
    if (y >? 64) && (Z.abs x <=? 1)
    then Some (if x =? 0 then 0 else if x =? 1 then 1 else if Z.odd y then -1 else 1)
    else None
  | _, _ => None
  end.

Definition arith_prelude : M (cell * cell) :=
  do b <- pop; do a <- pop;
  if negb (is_numeric a) then type_mismatch
  else if negb (is_numeric b) then type_mismatch
  else if negb (cell_ty a =? cell_ty b) then type_mismatch
  else ret (a, b).

Definition pv (c : cell) : pyval :=
  match c with
  | CI z | CL z => PInt z
  | CS f | CD f => PFlt f
  | CStr s => PStrV s
  | CRef _ _ => PInt 0
  end.

(* _exec_exp after the operand checks, as written before the overflow guard: a ** b, then push *)
Definition exp_tail_ref (a b : cell) : M unit :=
  match py_pow (pv a) (pv b) with
  | PowV v => push (cell_ty a) v
  | PowZeroDiv => (fun s => ZD s)
  | PowOverflow => trap T_INVALID_CELL_VALUE
  | PowComplex => trap T_INVALID_OPERAND_VALUE
  | PowUnknown => crashM CrPowUnknown
  end.

(* the executable form: decides the two cases with an exponent above 64 without iterating
   (Proofs/ExpShortcut.v: exp_tail = exp_tail_ref) *)
Definition exp_tail (a b : cell) : M unit :=
  if pow_surely_overflows a b then trap T_INVALID_CELL_VALUE else
  match pow_small_base a b with
  | Some v => push (cell_ty a) (PInt v)
  | None => exp_tail_ref a b
  end.


Definition push_opt (ty : Z) (o : option pyval) : M unit :=
  match o with Some v => push ty v | None => crashM CrType end.

Definition read_array_bounds (n : nat) : M (list (Z * Z)) :=
  (fix go (n : nat) (acc : list (Z * Z)) : M (list (Z * Z)) :=
     match n with
     | O => ret acc     (* bounds.reverse() after appending = first popped last *)
     | S n' =>
       do ub <- pop_long; do lb <- pop_long;
       if lb >? ub then trap T_INDEX_OUT_OF_RANGE
       else go n' ((lb, ub) :: acc)
     end) n [].

Definition header_cells (n es : Z) (bounds : list (Z * Z)) : list (option cell) :=
  [None; Some (CL n); Some (CL es)] ++
  flat_map (fun '(lb, ub) => [Some (CL lb); Some (CL ub)]) bounds.

(* Array.__init__: CellValue(LONG, ...) range checks can trap *)
Definition check_long (z : Z) : M unit :=
  if in_long z then ret tt else trap T_INVALID_CELL_VALUE.

Fixpoint check_bounds_long (bs : list (Z * Z)) : M unit :=
  match bs with
  | [] => ret tt
  | (lb, ub) :: r => check_long lb;; check_long ub;; check_bounds_long r
  end.

Definition array_size (es : Z) (bounds : list (Z * Z)) : Z :=
  fold_left (fun acc '(lb, ub) => acc * ((ub - lb + 1) * es)) bounds 1.

Definition cell_val_Z (o : option cell) : M Z :=
  match o with
  | Some (CI z) | Some (CL z) => ret z
  | Some _ => crashM CrType
  | None => crashM CrAttr          (* None.value *)
  end.

Fixpoint prod_list (l : list Z) : Z :=
  match l with [] => 1 | x :: r => x * prod_list r end.

(* _exec_arridx *)
Definition exec_arridx (n : Z) : M unit :=
  do (g, base) <- pop_ref;
  do idxs <- (fix go (k : nat) (acc : list Z) : M (list Z) :=
                match k with
                | O => ret acc
                | S k' => do z <- pop_long; go k' (acc ++ [z])
                end) (Z.to_nat n) [];
  do c1 <- seg_get g (base + 1);
  do nd <- cell_val_Z c1;
  (if negb (nd =? n) then trap T_INVALID_DIMENSIONS else ret tt);;
  do c2 <- seg_get g (base + 2);
  do es <- cell_val_Z c2;
  (* bounds check, dimension by dimension over reversed(indices) *)
  do bl <- (fix go (l : list Z) (b : Z) (acc : list (Z * Z)) : M (list (Z * Z) * Z) :=
              match l with
              | [] => ret (acc, b)
              | i :: r =>
                do cl <- seg_get g b; do lb <- cell_val_Z cl;
                do cu <- seg_get g (b + 1); do ub <- cell_val_Z cu;
                if (i <? lb) || (i >? ub) then trap T_INDEX_OUT_OF_RANGE
                else go r (b + 2) (acc ++ [(lb, ub)])
              end) (rev idxs) (base + 3) [];
  let '(bounds, b0) := bl in
  let dims := map (fun '(lb, ub) => ub - lb + 1) bounds in
  let idx := (fix go (l : list Z) (bs : list (Z * Z)) (ds : list Z) (acc : Z) : Z :=
                match l, bs, ds with
                | i :: l', (lb, _) :: bs', _ :: ds' => go l' bs' ds' (acc + prod_list ds' * es * (i - lb))
                | _, _, _ => acc
                end) (rev idxs) bounds dims b0 in
  push_cell (CRef g idx).

Definition find_stmt (stmts : list (Z * Z)) (addr : Z) : option (Z * Z) :=
  (* smallest range containing addr; ties: first in list order (stable sort) *)
  fold_left (fun best '(a, b) =>
               if (a <=? addr) && (addr <? b) then
                 match best with
                 | Some (a', b') => if b - a <? b' - a' then Some (a, b) else best
                 | None => Some (a, b)
                 end
               else best) stmts None.

Definition first_call_target (m : module) : option Z :=
  match decode (m_code m) with
  | DOk (ICall t) _ => Some t
  | _ => None
  end.

(* DebugInfo.find_stmt(addr, cpu) incl. the addr == 0 indirection *)
Definition find_stmt_at (m : module) (stmts : list (Z * Z)) (addr : Z) : M (option (Z * Z)) :=
  if addr =? 0 then
    match decode (m_code m) with
    | DOk (ICall t) _ =>
      if t =? 0 then crashM CrRuntime   (* RecursionError *)
      else ret (find_stmt stmts t)
    | DOk _ _ => ret None
    | DUnknown => crashM CrAttr         (* instr is None: None.op *)
    | DTrunc => crashM CrStruct
    end
  else ret (find_stmt stmts addr).

Definition exec_errres (m : module) (next : bool) : M unit :=
  match m_stmts m with
  | None => trap T_CANNOT_RESUME
  | Some stmts =>
    do s <- get;
    do r <- find_stmt_at m stmts (trapped_addr s);
    match r with
    | None => trap T_CANNOT_RESUME
    | Some (a, b) => modify (fun s => set_handler_active (set_pc s (if next then b else a)) false)
    end
  end.

Definition read_generic (local_ : bool) (ty : Z) (cellidx defidx : Z) : M unit :=
  if ty =? 7 then
    (* readl@/readg@ (only the non-idx forms exist) *)
    do v <- read_var local_ cellidx;
    match v with
    | None => trap T_NULL_REFERENCE
    | Some (CRef g i) => push_cell (CRef g i)
    | Some _ => trap_badkw T_TYPE_MISMATCH
    end
  else
    do v <- read_var local_ cellidx;
    match v with
    | Some c => repush c
    | None =>
      let d := default_cell ty in
      write_var local_ defidx d;; repush d
    end.

Definition exec_initarr (local_ : bool) (i n es : Z) : M unit :=
  do bounds <- read_array_bounds (Z.to_nat n);
  do g <- (if local_ then cur_frame else ret 0);
  check_long n;; seg_set g (i + 1) (Some (CL n));;
  check_long es;; seg_set g (i + 2) (Some (CL es));;
  (fix go (bs : list (Z * Z)) (k : Z) : M unit :=
     match bs with
     | [] => ret tt
     | (lb, ub) :: r =>
       seg_set g (i + 3 + 2 * k) (Some (CL lb));;
       seg_set g (i + 3 + 2 * k + 1) (Some (CL ub));;
       go r (k + 1)
     end) bounds 0.

Definition exec (m : module) (i : instr) : M unit :=
  match i with
  | IAbs =>
    do n <- pop;
    if negb (is_numeric n) then type_mismatch else
    match n with
    | CI z => push 1 (PInt (Z.abs z)) | CL z => push 2 (PInt (Z.abs z))
    | CS f => push 3 (PFlt (fabs f)) | CD f => push 4 (PFlt (fabs f))
    | _ => crashM CrAssert
    end
  | IAdd =>
    do b <- pop; do a <- pop;
    if is_numeric a && negb (is_numeric b) then type_mismatch
    else if (cell_ty a =? 5) && is_numeric b then type_mismatch
    else if negb (cell_ty a =? cell_ty b) then type_mismatch
    else match a with
         | CRef _ _ => crashM CrType      (* Reference + Reference *)
         | _ => push_opt (cell_ty a) (py_add (pv a) (pv b))
         end
  | IAllocarr n es =>
    do bounds <- read_array_bounds (Z.to_nat n);
    check_long n;; check_long es;; check_bounds_long bounds;;
    let hdr := header_cells n es bounds in
    let size := array_size es bounds in
    let total := Z.of_nat (length hdr) + size in
    if total <? Z.of_nat (length hdr) then
      (* MemorySegment(len(header)+size) is shorter than the header: set_cell
         raises IndexError inside Array.__init__; the half-built segment exists *)
      do _ <- alloc_seg (mkSeg (firstn (Z.to_nat total) hdr) SArray);
      crashM CrIndex
    else
    do g <- alloc_seg (mkSeg (hdr ++ repeat None (Z.to_nat size)) SArray);
    push_cell (CRef g 0)
  | IAnd => bitwise Z.land
  | IArridx n => exec_arridx n
  | IAsc =>
    do s <- pop_str;
    match s with
    | [] => trap T_INVALID_OPERAND_VALUE
    | c :: _ => push 1 (PInt c)
    end
  | ICall t =>
    do s <- get; push 2 (PInt (pc s));; modify (fun s => set_pc s t)
  | IChr =>
    do c <- pop_int;
    if (c <? 0) || (c >? 255) then trap T_INVALID_OPERAND_VALUE
    else push 5 (PStrV [cp437_decode cp437_upper c])
  | ICint =>
    do v <- pop;
    if negb (is_numeric v) then type_mismatch else
    match v with
    | CI z | CL z => push 1 (PInt z)
    | CS f | CD f =>
      match f with
      | FNaN => trap T_INVALID_CELL_VALUE | FInf _ => trap T_INVALID_CELL_VALUE
      | _ => match fround f with Some z => push 1 (PInt z) | None => crashM CrAssert end
      end
    | _ => crashM CrAssert
    end
  | IClng =>
    do v <- pop;
    if negb (is_numeric v) then type_mismatch else
    match v with
    | CI z | CL z => push 2 (PInt z)
    | CS f | CD f =>
      match f with
      | FNaN => trap T_INVALID_CELL_VALUE | FInf _ => trap T_INVALID_CELL_VALUE
      | _ => match fround f with Some z => push 2 (PInt z) | None => crashM CrAssert end
      end
    | _ => crashM CrAssert
    end
  | ICmp =>
    do b <- pop; do a <- pop;
    if negb (cell_ty a =? cell_ty b) then crashM CrType   (* trap() called with 3 positional arguments *)
    else match cmp_vals a b with
         | Some r => push 1 (PInt r)
         | None =>
           (* two references: == is identity, < raises TypeError *)
           crashM CrType
         end
  | IConv src dst =>
    do c <- pop_ty src;
    match c with
    | CI z | CL z => push dst (if (dst =? 3) || (dst =? 4) then PFlt (of_Z z) else PInt z)
    | CS f | CD f =>
      if (dst =? 1) || (dst =? 2) then
        match f with
        | FNaN => trap T_INVALID_CELL_VALUE | FInf _ => trap T_INVALID_CELL_VALUE
        | _ => match fround f with Some z => push dst (PInt z) | None => crashM CrAssert end
        end
      else push dst (PFlt f)
    | _ => crashM CrAssert
    end
  | IDeref ty =>
    do (g, i) <- pop_ref;
    do v <- seg_get g i;
    match v with
    | Some c => repush c
    | None => let d := default_cell ty in seg_set g i (Some d);; repush d
    end
  | IDiv =>
    do divisor <- pop; do dividend <- pop;
    if negb (is_numeric divisor) then type_mismatch
    else if negb (is_numeric dividend) then type_mismatch
    else if negb (cell_ty divisor =? cell_ty dividend) then type_mismatch
    else
      let rty := if is_integral dividend then 3 else cell_ty dividend in
      match dividend, divisor with
      | CI x, CI y | CL x, CL y =>
        if y =? 0 then (fun s => ZD s) else push rty (PFlt (fdiv (of_Z x) (of_Z y)))
      | CS x, CS y | CD x, CD y =>
        if is_zero y then (fun s => ZD s) else push rty (PFlt (fdiv x y))
      | _, _ => crashM CrAssert
      end
  | IDupl =>
    (* self.stack.pop(): IndexError on an empty stack *)
    do s <- get;
    match stack s with
    | [] => crashM CrIndex
    | c :: _ => push_cell c
    end
  | IEq => do v <- pop_int; push 1 (PInt (if v =? 0 then -1 else 0))
  | IEqv => bitwise (fun a b => Z.lnot (Z.lxor a b))
  | IErrget =>
    do s <- get;
    match last_trap s with
    | Some t => push 1 (PInt t)
    | None => push 1 (PInt 0)
    end
  | IErrhand t =>
    do s <- get;
    if (t =? 0) && handler_active s then
      match last_trap s with
      | Some c => (fun s' => T c (last_kw_ok s') s')
      | None => (fun s' => X CrAssert (set_trapped_addr s' (prev_pc s')))   (* Trapped(None) -> _trap: assert False *)
      end
    else if handler_active s then trap T_ERRHAND_IN_HANDLER
    else modify (fun s => set_ttarget s (if t =? 0 then TNone else if t =? 1 then TNext else TAddr t))
  | IErrline | IErrraise | INop => crashM CrAssert       (* no _exec_ function *)
  | IErrres => exec_errres m false
  | IErrresn => exec_errres m true
  | IExp =>
    do (a, b) <- arith_prelude; exp_tail a b
  | IFrame p l =>
    do ret_addr <- pop_long;
    do s <- get;
    do g <- alloc_seg (mkSeg (repeat None (Z.to_nat (p + l))) (SFrame (cur s) (pc s) ret_addr (p + l)));
    modify (fun s => set_cur s (Some g));;
    (fix go (k : nat) : M unit :=
       match k with
       | O => ret tt
       | S k' =>
         let idx := Z.of_nat k' in
         do v <- pop;
         (match v with
          | CRef _ _ => seg_set g idx (Some v)
          | _ =>
            (* set_temp_reference: append a temporary, store a reference to it *)
            do sg <- get_seg g;
            let n := Z.of_nat (length (s_cells sg)) in
            (fun s => match setZ (heap s) g (mkSeg (s_cells sg ++ [Some v]) (s_kind sg)) with
                      | Some h => R tt (set_heap s h)
                      | None => X CrAssert s
                      end);;
            seg_set g idx (Some (CRef g n))
          end);;
         go k'
       end) (Z.to_nat p);;
    push 2 (PInt ret_addr)
  | IGe =>
    do v <- pop;
    if negb (is_numeric v) then crashM CrName else
    push 1 (PInt (match cmp0 v with Some (Gt | Eq) => -1 | _ => 0 end))
  | IGt =>
    do v <- pop;
    if negb (is_numeric v) then crashM CrName else
    push 1 (PInt (match cmp0 v with Some Gt => -1 | _ => 0 end))
  | ILe =>
    do v <- pop;
    if negb (is_numeric v) then crashM CrName else
    push 1 (PInt (match cmp0 v with Some (Lt | Eq) => -1 | _ => 0 end))
  | ILt =>
    do v <- pop;
    if negb (is_numeric v) then crashM CrName else
    push 1 (PInt (match cmp0 v with Some Lt => -1 | _ => 0 end))
  | IHalt => modify (fun s => set_halt s true H_INSTRUCTION)
  | IIdiv =>
    do b <- pop; do a <- pop;
    if negb (is_integral a) then type_mismatch
    else if negb (is_integral b) then type_mismatch
    else if negb (cell_ty a =? cell_ty b) then type_mismatch
    else match a, b with
         | CI x, CI y | CL x, CL y =>
           if y =? 0 then (fun s => ZD s) else push (cell_ty a) (PInt (x / y))
         | _, _ => crashM CrAssert
         end
  | IIjmp => do t <- pop_long; modify (fun s => set_pc s t)
  | IImp => bitwise (fun a b => Z.lor (Z.lnot a) b)
  | IInitarrg i n es => exec_initarr false i n es
  | IInitarrl i n es => exec_initarr true i n es
  | IInt =>
    do v <- pop;
    if negb (is_numeric v) then type_mismatch else
    match v with
    | CI z | CL z => push 2 (PInt z)
    | CS f | CD f =>
      match f with
      | FNaN => trap T_INVALID_CELL_VALUE | FInf _ => trap T_INVALID_CELL_VALUE
      | _ => match ffloor f with Some z => push 2 (PInt z) | None => crashM CrAssert end
      end
    | _ => crashM CrAssert
    end
  | IIo d o => exec_io m d o
  | IJmp t => modify (fun s => set_pc s t)
  | IJz t => do v <- pop_int; if v =? 0 then modify (fun s => set_pc s t) else ret tt
  | ILbound | IUbound =>
    let off := match i with IUbound => 4 | _ => 3 end in
    do dim <- pop_long;
    do (g, base) <- pop_ref;
    do c <- seg_get g (base + 1);
    match c with
    | None => trap T_UNINITIALIZED_MEM
    | Some cc =>
      do nd <- cell_val_Z (Some cc);
      if (dim <? 1) || (dim >? nd) then trap T_INDEX_OUT_OF_RANGE
      else
        do b <- seg_get g (base + off + (dim - 1) * 2);
        do z <- cell_val_Z b;
        push 2 (PInt z)
    end
  | ILcase => do s <- pop_str; push 5 (PStrV (map py_lower s))
  | IUcase => do s <- pop_str; push 5 (PStrV (map py_upper s))
  | ILtrim => do s <- pop_str; push 5 (PStrV (lstrip_sp s))
  | IRtrim => do s <- pop_str; push 5 (PStrV (rstrip_sp s))
  | IMod =>
    do b <- pop; do a <- pop;
    if negb (is_integral a) then type_mismatch
    else if negb (cell_ty a =? cell_ty b) then type_mismatch
    else match a, b with
         | CI x, CI y | CL x, CL y =>
           if y =? 0 then (fun s => ZD s) else push (cell_ty a) (PInt (x mod y))
         | _, _ => crashM CrAssert
         end
  | IMul => do (a, b) <- arith_prelude; push_opt (cell_ty a) (py_mul (pv a) (pv b))
  | ISub => do (a, b) <- arith_prelude; push_opt (cell_ty a) (py_sub (pv a) (pv b))
  | INe => do v <- pop_int; push 1 (PInt (if v =? 0 then 0 else -1))
  | INeg =>
    do v <- pop;
    if negb (is_numeric v) then type_mismatch else
    match v with
    | CI z => push 1 (PInt (- z)) | CL z => push 2 (PInt (- z))
    | CS f => push 3 (PFlt (fneg f)) | CD f => push 4 (PFlt (fneg f))
    | _ => crashM CrAssert
    end
  | INot =>
    do v <- pop;
    if negb (is_integral v) then type_mismatch else
    match v with
    | CI z => push 1 (PInt (Z.lnot z)) | CL z => push 2 (PInt (Z.lnot z))
    | _ => crashM CrAssert
    end
  | INtos =>
    do v <- pop;
    if negb (is_numeric v) then type_mismatch else
    match num_text v with
    | Some t => push 5 (PStrV t)
    | None => crashM CrAssert
    end
  | IOr => bitwise Z.lor
  | IXor => bitwise Z.lxor
  | IPop => do _ <- pop; ret tt
  | IPushI z => push 1 (PInt z)
  | IPushL z => push 2 (PInt z)
  | IPushS f => push 3 (PFlt f)
  | IPushD f => push 4 (PFlt f)
  | IPushStr idx =>
    match nthZ (m_literals m) idx with
    | Some s => push 5 (PStrV s)
    | None => crashM CrIndex
    end
  | IPushC ty c => push ty (if (ty =? 3) || (ty =? 4) then PFlt (of_Z c) else PInt c)
  | IPushrefg i => push_cell (CRef 0 i)
  | IPushrefl i => do g <- cur_frame; push_cell (CRef g i)
  | IRead local_ ty i => read_generic local_ ty i i
  | IReadidx local_ ty v i =>
    if ty =? 7 then crashM CrAssert     (* readidx?@ has no _exec_ function *)
    else read_generic local_ ty (v + i) (v + i)
  | IRefidx =>
    do idx <- pop;
    do (g, i) <- pop_ref;
    if negb (is_integral idx) then trap_badkw T_TYPE_MISMATCH else
    match idx with
    | CI z | CL z => push_cell (CRef g (i + z))
    | _ => crashM CrAssert
    end
  | IRet =>
    do s <- get;
    if handler_active s then trap T_NO_RESUME else
    do g <- cur_frame;
    do sg <- get_seg g;
    (match s_kind sg with
     | SFrame prev _ _ _ => modify (fun s => set_cur s prev)
     | _ => crashM CrAttr
     end);;
    do t <- pop_long;
    modify (fun s => set_pc s t)
  | IRetv =>
    do s <- get;
    if handler_active s then trap T_NO_RESUME else
    do g <- cur_frame;
    do sg <- get_seg g;
    (match s_kind sg with
     | SFrame prev _ _ _ => modify (fun s => set_cur s prev)
     | _ => crashM CrAttr
     end);;
    do rv <- pop;
    do rv' <- (match rv with
               | CRef g' i' => seg_get g' i'
               | _ => ret (Some rv)
               end);
    do t <- pop_long;
    modify (fun s => set_pc s t);;
    match rv' with
    | Some c => repush c
    | None => crashM CrAttr       (* None.type *)
    end
  | ISdbl =>
    (* VAL: the numeric_literal grammar + NumericLiteral.parse (Models/Literal.v);
       only ParseException is caught by _exec_sdbl, qbee's SyntaxError escapes (D61) *)
    do s <- pop_str;
    match val_text s with
    | VOk f => push 4 (PFlt f)
    | VSyntaxError _ => crashM CrSyntax
    end
  | ISign =>
    do v <- pop;
    if negb (is_numeric v) then crashM CrName else
    match v with
    | CI z => push 1 (PInt (Z.sgn z)) | CL z => push 2 (PInt (Z.sgn z))
    | CS f | CD f =>
      let sg := match fcmp f (fzero false) with Some Gt => 1 | Some Lt => -1 | _ => 0 end in
      push (cell_ty v) (PFlt (of_Z sg))
    | _ => crashM CrAssert
    end
  | ISpace =>
    do n <- pop_int;
    if n <? 0 then trap T_INVALID_OPERAND_VALUE else push 5 (PStrV (spaces (Z.to_nat n)))
  | IStore local_ i =>
    do v <- pop;
    if local_ then
      (* cur_frame.set_cell: IndexError -> INVALID_LOCAL_VAR_IDX *)
      do g <- cur_frame; do sg <- get_seg g;
      match setZ (s_cells sg) i (Some v) with
      | Some _ => seg_set g i (Some v)
      | None => trap T_INVALID_VAR_IDX
      end
    else
      do sg <- get_seg 0;
      match setZ (s_cells sg) i (Some v) with
      | Some _ => seg_set 0 i (Some v)
      | None => trap T_INVALID_VAR_IDX
      end
  | IStoreidx local_ v i =>
    do c <- pop;
    do g <- (if local_ then cur_frame else ret 0);
    do sg <- get_seg g;
    match setZ (s_cells sg) (v + i) (Some c) with
    | Some _ => seg_set g (v + i) (Some c)
    | None => trap T_INVALID_VAR_IDX
    end
  | IStoreref =>
    do (g, i) <- pop_ref;
    do v <- pop;
    seg_set g i (Some v)
  | IStrfind =>
    do s2 <- pop_str; do s1 <- pop_str; do start <- pop_long;
    if start <=? 0 then trap T_INVALID_OPERAND_VALUE else
    match py_find s1 s2 (start - 1) with
    | Some p => push 2 (PInt (p + 1))
    | None => push 2 (PInt 0)
    end
  | IStrleft =>
    do n <- pop_int; do s <- pop_str;
    if n <? 0 then trap T_INVALID_OPERAND_VALUE else push 5 (PStrV (py_slice s None (Some n)))
  | IStrright =>
    do n <- pop_int; do s <- pop_str;
    if n <? 0 then trap T_INVALID_OPERAND_VALUE
    else push 5 (PStrV (if n =? 0 then s else py_slice s (Some (- n)) None))
  | IStrlen => do s <- pop_str; push 2 (PInt (Z.of_nat (length s)))
  | IStrmid =>
    do len <- pop; do start <- pop_int; do s <- pop_str;
    if start <=? 0 then trap T_INVALID_OPERAND_VALUE else
    do l <- (match len with
             | CL _ => ret (Z.of_nat (length s) - start + 1)
             | CI z => ret z
             | _ => crashM CrName          (* Type.INTEGER: undefined name *)
             end);
    if l <? 0 then trap T_INVALID_OPERAND_VALUE
    else push 5 (PStrV (py_slice s (Some (start - 1)) (Some (start - 1 + l))))
  | IStrrep =>
    do ch <- pop; do len <- pop_int;
    if len <? 0 then trap T_INVALID_OPERAND_VALUE else
    match ch with
    | CI z =>
      if (z <? 0) || (z >? 255) then trap T_INVALID_OPERAND_VALUE
      else push 5 (PStrV (repeat (cp437_decode cp437_upper z) (Z.to_nat len)))
    | CStr s =>
      match s with
      | [] => trap T_INVALID_OPERAND_VALUE
      | c :: _ => push 5 (PStrV (repeat c (Z.to_nat len)))
      end
    | _ => type_mismatch
    end
  | ISwap =>
    do a <- pop; do b <- pop; repush a;; repush b
  | ISwapprev =>
    do top <- pop; do p1 <- pop; do p2 <- pop; repush p1;; repush p2;; repush top
  end.

(* ---- tick / _trap ---- *)

Inductive tick_out :=
| Next (s : st)
| Crash (k : crash) (s : st)
| NeedInput (s : st).

(* QvmCpu._trap *)
Definition do_trap (m : module) (code : Z) (kw_ok : bool) (s0 : st) : tick_out :=
  let s := set_last_trap s0 (Some code) kw_ok in
  let report (s : st) := if kw_ok then Next (set_halt s true H_TRAP) else Crash CrKey s in
  if negb (handler_active s) && (match ttarget_ s with TNone => false | _ => true end) then
    match ttarget_ s with
    | TNext =>
      match exec_errres m true s with
      | R _ s' => Next s'
      | T _ _ s' => report (set_trapped_addr s' (prev_pc s'))   (* cannot resume: the original error is reported *)
      | ZD s' => Crash CrAssert s'
      | X k s' => Crash k s'
      | NI s' => NeedInput s'
      end
    | TAddr a => Next (set_handler_active (set_pc s a) true)
    | TNone => Next s
    end
  else report s.              (* the diagnostic print reads a missing kwarg -> KeyError *)

Definition code_len (m : module) : Z := Z.of_nat (length (m_code m)).

Definition end_check (m : module) (t : tick_out) : tick_out :=
  match t with
  | Next s =>
    if negb (halted s) && (pc s >=? code_len m) then Next (set_halt s true H_END_OF_CODE)
    else Next s
  | _ => t
  end.

Definition tick (m : module) (s : st) : tick_out :=
  if irq s then do_trap m T_KEYBOARD_INTERRUPT true (set_irq s false)
  else
    let s1 := set_prev_pc s (pc s) in
    if (pc s <? 0) || (pc s >=? code_len m) then Crash CrIndex s1
    else
      match decode (skipn (Z.to_nat (pc s)) (m_code m)) with
      | DUnknown =>
        (* _trap called directly: trapped_addr is not updated; pc += 1; return *)
        match do_trap m T_INVALID_OP_CODE true s1 with
        | Next s2 => Next (set_pc s2 (pc s2 + 1))
        | o => o
        end
      | DTrunc => Crash CrAssert s1
      | DOk i size =>
        let s2 := set_pc s1 (pc s1 + size) in
        (* a push$ literal index out of range fails while decoding *)
        match i with
        | IPushStr idx =>
          match nthZ (m_literals m) idx with
          | None => Crash CrIndex s1
          | Some _ =>
            end_check m
              (match exec m i s2 with
               | R _ s3 => Next s3
               | T c kw s3 => do_trap m c kw (set_trapped_addr s3 (prev_pc s3))
               | ZD s3 => do_trap m T_DIVISION_BY_ZERO true (set_trapped_addr s3 (prev_pc s3))
               | X k s3 => Crash k s3
               | NI s3 => NeedInput s3
               end)
          end
        | _ =>
          end_check m
            (match exec m i s2 with
             | R _ s3 => Next s3
             | T c kw s3 => do_trap m c kw (set_trapped_addr s3 (prev_pc s3))
             | ZD s3 => do_trap m T_DIVISION_BY_ZERO true (set_trapped_addr s3 (prev_pc s3))
             | X k s3 => Crash k s3
             | NI s3 => NeedInput s3
             end)
        end
      end.

Inductive stop := StHalt | StFuel | StCrash (k : crash) | StNeedInput.

(* the harness loop: tick until halted, pc past the end, a host exception, or fuel *)
Fixpoint run (m : module) (fuel : nat) (s : st) (ticks : Z) : st * stop * Z :=
  match fuel with
  | O => (s, StFuel, ticks)
  | S f =>
    if halted s || (pc s >=? code_len m) then (s, StHalt, ticks)
    else match tick m s with
         | Next s' => run m f s' (ticks + 1)
         | Crash k s' => (s', StCrash k, ticks + 1)
         | NeedInput s' => (s', StNeedInput, ticks + 1)
         end
  end.
