(* Model of the block assembler of qbee: qbee/parser.py parse_string (the block
   stack), qbee/stmt.py Block.create and the create_block methods of IfBlock,
   ForBlock, LoopBlock, SelectBlock, TypeBlock (Sub/Function/While: no check),
   followed by the two later stages that decide the fate of misplaced ELSE /
   ELSEIF / CASE / field statements: Pass1 (process_else_pre, process_else_if_pre,
   process_sub_block_pre, process_function_block_pre, process_type_block_pre) and
   the code generator (no generator for a stray marker: InternalError /
   AttributeError).

   Input: the statement stream.  The pyparsing grammar is NOT modelled: every
   source line yields its statements (a line "NEXT j, i" yields two NEXT
   statements, as parse_next_stmt does), classified by node class, with the
   1-based line number.  Python exceptions are explicit result constructors.
   No proofs here (Proofs/BlocksProofs.v). *)
From Coq Require Import ZArith List Bool.
Import ListNotations.
Open Scope Z_scope.

(* the eight entries of Block.known_blocks *)
Inductive bkind := BIf | BFor | BDo | BWhile | BSelect | BSub | BFunction | BType.

Definition bkind_eqb (a b : bkind) : bool :=
  match a, b with
  | BIf, BIf | BFor, BFor | BDo, BDo | BWhile, BWhile | BSelect, BSelect
  | BSub, BSub | BFunction, BFunction | BType, BType => true
  | _, _ => false
  end.

Inductive skind :=
| SSimple                       (* any statement that is neither of the following *)
| SIfOpen | SElseIf | SElse | SEndIf          (* IfBeginStmt ElseIfStmt ElseStmt EndIfStmt *)
| SFor (v : Z) | SNext (v : option Z)         (* base_var of the loop variable, as an id *)
| SDo (c : bool) | SLoop (c : bool)           (* c: the statement carries a condition *)
| SWhile | SWend
| SSelect | SCase | SCaseElse | SEndSelect
| SSubOpen | SEndSub | SFunctionOpen | SEndFunction
| STypeOpen | SField (name : Z) | SEndType.   (* SField: a bare "name AS type" VarDeclClause *)

Record stmt := mkS { sk : skind; sl : Z }.

(* isinstance(stmt, block_start_types) / block_end_types *)
Definition opener (k : skind) : option bkind :=
  match k with
  | SIfOpen => Some BIf | SFor _ => Some BFor | SDo _ => Some BDo | SWhile => Some BWhile
  | SSelect => Some BSelect | SSubOpen => Some BSub | SFunctionOpen => Some BFunction
  | STypeOpen => Some BType
  | _ => None
  end.

Definition ender (k : skind) : option bkind :=
  match k with
  | SEndIf => Some BIf | SNext _ => Some BFor | SLoop _ => Some BDo | SWend => Some BWhile
  | SEndSelect => Some BSelect | SEndSub => Some BSub | SEndFunction => Some BFunction
  | SEndType => Some BType
  | _ => None
  end.

Inductive tree :=
| TStmt (s : stmt)
| TBlock (k : bkind) (o : stmt) (b : list tree) (e : stmt).

(* loc_start of a node: a block starts where its opening statement starts *)
Definition tline (t : tree) : Z :=
  match t with TStmt s => sl s | TBlock _ o _ _ => sl o end.

Inductive berr :=
| EEndWithoutStart (k : bkind)  (* SyntaxError "<END> without <START>", loc = start of the line *)
| EExpectedEnd (k : bkind)      (* SyntaxError "Expected <END of k>", loc = the terminator found *)
| ENotClosed (k : bkind)        (* SyntaxError "<k> block not closed", loc = the opener *)
| ENextVar                      (* CompileError BLOCK_MISMATCH, node = NEXT's variable *)
| EDoLoopCond                   (* CompileError BLOCK_MISMATCH, node = LOOP *)
| ESelectBeforeCase             (* SyntaxError "Statements illegal between SELECT CASE and CASE" *)
| ETypeIllegal                  (* SyntaxError "Statement illegal in TYPE block" *)
| ETypeDup                      (* SyntaxError "Duplicate definition" (field name) *)
| EElseWithoutIf                (* CompileError ELSE_WITHOUT_IF  (Pass1) *)
| EIllegalInSub                 (* CompileError ILLEGAL_IN_SUB   (Pass1) *)
| ETypeEmpty.                   (* CompileError ELEMENT_NOT_DEFINED (Pass1, TYPE without fields) *)

Inductive crash :=
| CAssertIf      (* AssertionError in IfBlock.__init__: a (None, body) arm *)
| CCodegen.      (* InternalError / AttributeError: no code can be generated for a stray marker *)

Inductive result :=
| ROk (ts : list tree)
| RErr (e : berr) (line : Z)
| RCrash (c : crash).

(* ---- create_block ------------------------------------------------------ *)

Inductive cres := COk | CErr (e : berr) (line : Z) | CCrash (c : crash).

(* IfBlock.create_block: after ELSE, cur_if_cond is None; a further ELSE or
   ELSEIF appends (None, body) to if_blocks and IfBlock.__init__ asserts. *)
Fixpoint if_scan (seen_else : bool) (b : list tree) : cres :=
  match b with
  | [] => COk
  | TStmt s :: r =>
    match sk s with
    | SElseIf => if seen_else then CCrash CAssertIf else if_scan false r
    | SElse => if seen_else then CCrash CAssertIf else if_scan true r
    | _ => if_scan seen_else r
    end
  | TBlock _ _ _ _ :: r => if_scan seen_else r
  end.

(* TypeBlock.create_block *)
Fixpoint type_scan (names : list Z) (b : list tree) : cres :=
  match b with
  | [] => COk
  | TStmt s :: r =>
    match sk s with
    | SField n => if existsb (Z.eqb n) names then CErr ETypeDup (sl s)
                  else type_scan (names ++ [n]) r
    | _ => CErr ETypeIllegal (sl s)
    end
  | TBlock _ o _ _ :: _ => CErr ETypeIllegal (sl o)
  end.

Definition create_block (k : bkind) (o e : stmt) (b : list tree) : cres :=
  match k with
  | BIf => if_scan false b
  | BFor =>
    match sk o, sk e with
    | SFor v, SNext (Some w) => if Z.eqb v w then COk else CErr ENextVar (sl e)
    | _, _ => COk
    end
  | BDo =>
    match sk o, sk e with
    | SDo true, SLoop true => CErr EDoLoopCond (sl e)
    | _, _ => COk
    end
  | BSelect =>
    match b with
    | [] => COk
    | TStmt s :: _ => match sk s with SCase => COk | _ => CErr ESelectBeforeCase (sl s) end
    | TBlock _ o' _ _ :: _ => CErr ESelectBeforeCase (sl o')
    end
  | BType => type_scan [] b
  | BWhile | BSub | BFunction => COk
  end.

(* ---- parse_string: the block stack ------------------------------------ *)

Definition frame := (bkind * stmt * list tree)%type.  (* kind, opener, enclosing body so far *)

Inductive sres := SOk (stack : list frame) (cur : list tree) | SErr (e : berr) (line : Z)
                | SCrash (c : crash).

Definition step (stack : list frame) (cur : list tree) (s : stmt) : sres :=
  match opener (sk s) with
  | Some k => SOk ((k, s, cur) :: stack) []
  | None =>
    match ender (sk s) with
    | Some ke =>
      match stack with
      | [] => SErr (EEndWithoutStart ke) (sl s)
      | (ko, o, prev) :: stack' =>
        if bkind_eqb ko ke then
          match create_block ko o s cur with
          | COk => SOk stack' (prev ++ [TBlock ko o cur s])
          | CErr e ln => SErr e ln
          | CCrash c => SCrash c
          end
        else SErr (EExpectedEnd ko) (sl s)
      end
    | None => SOk stack (cur ++ [TStmt s])
    end
  end.

Fixpoint run (stack : list frame) (cur : list tree) (l : list stmt) : result :=
  match l with
  | [] =>
    match stack with
    | [] => ROk cur
    | (k, o, _) :: _ => RErr (ENotClosed k) (sl o)
    end
  | s :: r =>
    match step stack cur s with
    | SOk stack' cur' => run stack' cur' r
    | SErr e ln => RErr e ln
    | SCrash c => RCrash c
    end
  end.

Definition assemble (l : list stmt) : result := run [] [] l.

(* ---- Pass1 on the assembled tree (only the block-structure checks) ----- *)

Section FirstSome.
  Context {A B : Type} (f : A -> option B).
  Fixpoint first_some (l : list A) : option B :=
    match l with
    | [] => None
    | x :: r => match f x with Some y => Some y | None => first_some r end
    end.
End FirstSome.

Definition is_if (k : bkind) : bool := match k with BIf => true | _ => false end.
Definition is_routine (k : bkind) : bool :=
  match k with BSub | BFunction => true | _ => false end.

(* par: kind of the direct parent block.  The ELSE/ELSEIF markers that are
   direct children of an IF block are kept in else_stmt / elseif_stmts, not in
   child_fields: they are not visited.  in_if: some ancestor is an IfBlock
   (node.parents()); in_rt: some ancestor is a Sub/Function block. *)
Fixpoint pass1 (par : option bkind) (in_if in_rt : bool) (t : tree) : option (berr * Z) :=
  match t with
  | TStmt s =>
    match sk s with
    | SElse | SElseIf =>
      match par with
      | Some BIf => None
      | _ => if in_if then None else Some (EElseWithoutIf, sl s)
      end
    | _ => None
    end
  | TBlock k o b e =>
    let pre :=
      match k with
      | BSub | BFunction => if in_rt then Some (EIllegalInSub, sl o) else None
      | BType => if in_rt then Some (EIllegalInSub, sl o)
                 else match b with [] => Some (ETypeEmpty, sl o) | _ => None end
      | _ => None
      end in
    match pre with
    | Some x => Some x
    | None => first_some (pass1 (Some k) (in_if || is_if k) (in_rt || is_routine k)) b
    end
  end.

(* ---- code generation: a marker that no block consumed ------------------ *)

(* a stray CASE ELSE does not crash: gen_case_else_stmt needs no SELECT *)
Fixpoint stray (par : option bkind) (t : tree) : bool :=
  match t with
  | TStmt s =>
    match sk s with
    | SElse | SElseIf => match par with Some BIf => false | _ => true end
    | SCase => match par with Some BSelect => false | _ => true end
    | SField _ => match par with Some BType => false | _ => true end
    | _ => false
    end
  | TBlock k _ b _ => existsb (stray (Some k)) b
  end.

Definition front (l : list stmt) : result :=
  match assemble l with
  | ROk ts =>
    match first_some (pass1 None false false) ts with
    | Some (e, ln) => RErr e ln
    | None => if existsb (stray None) ts then RCrash CCodegen else ROk ts
    end
  | r => r
  end.

(* the statements of a tree in source order *)
Fixpoint flatten (t : tree) : list stmt :=
  match t with
  | TStmt s => [s]
  | TBlock _ o b e => o :: flat_map flatten b ++ [e]
  end.

Definition flatten_forest (ts : list tree) : list stmt := flat_map flatten ts.
