(* Binary module codec.
   - instruction level: [encode_w] (the assembler's operand packing, struct.pack
     formats of qbee/qvm_codegen.py QvmCode.assembled) against [Cpu.decode]
     (qvm/cpu.py get_instruction_at);
   - code level: [decode_code] walks a code section instruction by instruction;
   - section level: [encode_module] (QvmCode.__bytes__) and [decode_module]
     (qvm/module.py QModule.parse, parse_literals_section, parse_data_section,
     parse_globals_section) including their failure modes (perror = SystemExit,
     struct.error, UnboundLocalError).
   No proofs here (Proofs/CodecProofs.v). *)
From Coq Require Import String Ascii.
From Coq Require Import ZArith List Bool.
From QV Require Import Sx Strs Fl Machine Cpu Instrs.
Import ListNotations.
Open Scope Z_scope.

Definition len {A} (l : list A) : Z := Z.of_nat (List.length l).

Fixpoint s2l (s : string) : str :=
  match s with
  | EmptyString => []
  | String a r => Z.of_N (N_of_ascii a) :: s2l r
  end.

(* a string literal as its code points, computed when the definition is read, so
   that no Coq [string] remains in the models (and in the extracted code) *)
Notation L x := (ltac:(let v := eval vm_compute in (s2l x) in exact v)) (only parsing).

(* ------------------------------------------------------------------ *)
(* mnemonics (qvm/instrs.py names) of the hand-written instruction type *)

Definition tchar (ty : Z) : str :=
  if ty =? 1 then [37] else if ty =? 2 then [38] else if ty =? 3 then [33]
  else if ty =? 4 then [35] else if ty =? 5 then [36] else if ty =? 7 then [64] else [63].

Definition smallc (c : Z) : str :=
  if c =? -2 then L "m2" else if c =? -1 then L "m1" else if c =? 0 then L "0"
  else if c =? 1 then L "1" else if c =? 2 then L "2" else L "?".

Definition scope_ch (local_ : bool) : str := if local_ then L "l" else L "g".

Definition instr_name (i : instr) : str :=
  match i with
  | IAbs => L "abs" | IAdd => L "add" | IAllocarr _ _ => L "allocarr" | IAnd => L "and"
  | IArridx _ => L "arridx" | IAsc => L "asc" | ICall _ => L "call" | IChr => L "chr"
  | ICint => L "cint" | IClng => L "clng" | ICmp => L "cmp"
  | IConv s d => L "conv" ++ tchar s ++ tchar d
  | IDeref ty => L "deref" ++ tchar ty
  | IDiv => L "div" | IDupl => L "dupl" | IEq => L "eq" | IEqv => L "eqv"
  | IErrget => L "errget" | IErrhand _ => L "errhand" | IErrline => L "errline"
  | IErrraise => L "errraise" | IErrres => L "errres" | IErrresn => L "errresn"
  | IExp => L "exp" | IFrame _ _ => L "frame" | IGe => L "ge" | IGt => L "gt"
  | IHalt => L "halt" | IIdiv => L "idiv" | IIjmp => L "ijmp"
  | IInitarrg _ _ _ => L "initarrg" | IInitarrl _ _ _ => L "initarrl"
  | IInt => L "int" | IImp => L "imp" | IIo _ _ => L "io" | IJmp _ => L "jmp"
  | IJz _ => L "jz" | ILbound => L "lbound" | ILcase => L "lcase" | ILe => L "le"
  | ILt => L "lt" | ILtrim => L "ltrim" | IMod => L "mod" | IMul => L "mul"
  | INe => L "ne" | INeg => L "neg" | INop => L "nop" | INot => L "not"
  | INtos => L "ntos" | IOr => L "or" | IPop => L "pop"
  | IPushI _ => L "push%" | IPushL _ => L "push&" | IPushS _ => L "push!"
  | IPushD _ => L "push#" | IPushStr _ => L "push$"
  | IPushC ty c => L "push" ++ smallc c ++ tchar ty
  | IPushrefg _ => L "pushrefg" | IPushrefl _ => L "pushrefl"
  | IRead l ty _ => L "read" ++ scope_ch l ++ tchar ty
  | IReadidx l ty _ _ => L "readidx" ++ scope_ch l ++ tchar ty
  | IRefidx => L "refidx" | IRet => L "ret" | IRetv => L "retv" | IRtrim => L "rtrim"
  | ISdbl => L "sdbl" | ISign => L "sign" | ISpace => L "space" | ISub => L "sub"
  | IStore l _ => L "store" ++ scope_ch l
  | IStoreidx l _ _ => L "storeidx" ++ scope_ch l
  | IStoreref => L "storeref" | IStrfind => L "strfind" | IStrleft => L "strleft"
  | IStrlen => L "strlen" | IStrmid => L "strmid" | IStrrep => L "strrep"
  | IStrright => L "strright" | ISwap => L "swap" | ISwapprev => L "swapprev"
  | IUbound => L "ubound" | IUcase => L "ucase" | IXor => L "xor"
  end.

(* ------------------------------------------------------------------ *)
(* operand packing (struct.pack big endian); None = struct.error *)

Definition be16 (z : Z) : list Z := [z / 256; z mod 256].
Definition be32 (z : Z) : list Z := be16 (z / 65536) ++ be16 (z mod 65536).
Definition be64 (z : Z) : list Z := be32 (z / 4294967296) ++ be32 (z mod 4294967296).

Definition in_range (lo z hi : Z) : bool := (lo <=? z) && (z <=? hi).

Definition enc_u8 (z : Z) : option (list Z) := if in_range 0 z 255 then Some [z] else None.
Definition enc_u16 (z : Z) : option (list Z) := if in_range 0 z 65535 then Some (be16 z) else None.
Definition enc_i16 (z : Z) : option (list Z) :=
  if in_range (-32768) z 32767 then Some (be16 (if z <? 0 then z + 65536 else z)) else None.
Definition enc_u32 (z : Z) : option (list Z) := if in_range 0 z 4294967295 then Some (be32 z) else None.
Definition enc_i32 (z : Z) : option (list Z) :=
  if in_range (-2147483648) z 2147483647 then Some (be32 (if z <? 0 then z + 4294967296 else z)) else None.
Definition enc_u64 (z : Z) : option (list Z) :=
  if in_range 0 z 18446744073709551615 then Some (be64 z) else None.

Definition cat2 (a b : option (list Z)) : option (list Z) :=
  match a, b with Some x, Some y => Some (x ++ y) | _, _ => None end.

Definition op0 (op : Z) : option (list Z) := Some [op].
Definition op1 (op : Z) (a : option (list Z)) : option (list Z) := cat2 (Some [op]) a.
Definition op2 (op : Z) (a b : option (list Z)) : option (list Z) := cat2 (Some [op]) (cat2 a b).
Definition op3 (op : Z) (a b c : option (list Z)) : option (list Z) :=
  cat2 (Some [op]) (cat2 a (cat2 b c)).

(* the wire view of an instruction: what the byte stream determines.  The two
   float pushes carry their IEEE bit pattern (struct.pack('>f'/'>d') output) *)
Inductive winstr :=
| WI (i : instr)
| WPushS (bits : Z)
| WPushD (bits : Z).

Definition instr_of_w (w : winstr) : instr :=
  match w with
  | WI i => i
  | WPushS b => IPushS (fl_of_bits32 b)
  | WPushD b => IPushD (fl_of_bits b)
  end.

Definition w_of_instr (i : instr) : winstr :=
  match i with
  | IPushS f => WPushS (bits32_of_fl f)
  | IPushD f => WPushD (bits_of_fl f)
  | _ => WI i
  end.

Definition conv_opcode (s d : Z) : option Z :=
  if in_range 1 s 4 && in_range 1 d 4 && negb (s =? d)
  then Some (6 + (s - 1) * 3 + (if d <? s then d - 1 else d - 2)) else None.

Definition deref_opcode (ty : Z) : option Z :=
  if ty =? 1 then Some 18 else if in_range 2 ty 5 then Some (120 + ty) else None.

Definition ty_slot (ty : Z) : option Z :=     (* % & ! # $ @ -> 0..5 *)
  if in_range 1 ty 5 then Some (ty - 1) else if ty =? 7 then Some 5 else None.

Definition encode_plain (i : instr) : option (list Z) :=
  match i with
  | IAbs => op0 136 | IAdd => op0 2
  | IAllocarr n es => op2 101 (enc_u8 n) (enc_i32 es)
  | IAnd => op0 3
  | IArridx n => op1 4 (enc_u8 n)
  | IAsc => op0 121
  | ICall t => op1 5 (enc_u32 t)
  | IChr => op0 116 | ICint => op0 129 | IClng => op0 130 | ICmp => op0 105
  | IConv s d => match conv_opcode s d with Some o => op0 o | None => None end
  | IDeref ty => match deref_opcode ty with Some o => op0 o | None => None end
  | IDiv => op0 19 | IDupl => op0 103 | IEq => op0 20 | IEqv => op0 21 | IErrget => op0 138
  | IErrhand t => op1 139 (enc_u32 t)
  | IErrline => op0 141 | IErrraise => op0 142 | IErrres => op0 143 | IErrresn => op0 144
  | IExp => op0 22
  | IFrame p l => op2 23 (enc_u16 p) (enc_u16 l)
  | IGe => op0 24 | IGt => op0 102 | IHalt => op0 100 | IIdiv => op0 25 | IIjmp => op0 109
  | IInitarrg i n es => op3 126 (enc_u16 i) (enc_u8 n) (enc_i32 es)
  | IInitarrl i n es => op3 127 (enc_u16 i) (enc_u8 n) (enc_i32 es)
  | IInt => op0 111 | IImp => op0 26
  | IIo d o => op2 27 (enc_u8 d) (enc_u8 o)
  | IJmp t => op1 28 (enc_u32 t)
  | IJz t => op1 29 (enc_u32 t)
  | ILbound => op0 133 | ILcase => op0 115 | ILe => op0 30 | ILt => op0 31 | ILtrim => op0 131
  | IMod => op0 32 | IMul => op0 33 | INe => op0 34 | INeg => op0 35 | INop => op0 36
  | INot => op0 37 | INtos => op0 117 | IOr => op0 38 | IPop => op0 104
  | IPushI z => op1 39 (enc_i16 z)
  | IPushL z => op1 40 (enc_i32 z)
  | IPushS _ => None            (* wire form: WPushS *)
  | IPushD _ => None            (* wire form: WPushD *)
  | IPushStr idx => op1 43 (enc_u16 idx)      (* written '>H'; the machine reads '>h' *)
  | IPushC ty c =>
    if in_range 1 ty 4 && in_range (-2) c 2 then op0 (44 + (c + 2) * 4 + (ty - 1)) else None
  | IPushrefg i => op1 64 (enc_u16 i)
  | IPushrefl i => op1 65 (enc_u16 i)
  | IRead l ty i =>
    match ty_slot ty with
    | Some k => op1 ((if l then 72 else 66) + k) (enc_u16 i)
    | None => None
    end
  | IReadidx l ty v i =>
    match ty_slot ty with
    | Some k => op2 ((if l then 84 else 78) + k) (enc_u16 v) (enc_u16 i)
    | None => None
    end
  | IRefidx => op0 90 | IRet => op0 91 | IRetv => op0 92 | IRtrim => op0 132 | ISdbl => op0 113
  | ISign => op0 106 | ISpace => op0 112 | ISub => op0 93
  | IStore l i => op1 (if l then 95 else 94) (enc_u16 i)
  | IStoreidx l v i => op2 (if l then 97 else 96) (enc_u16 v) (enc_u16 i)
  | IStoreref => op0 98 | IStrfind => op0 135 | IStrleft => op0 118 | IStrlen => op0 110
  | IStrmid => op0 120 | IStrrep => op0 128 | IStrright => op0 119 | ISwap => op0 107
  | ISwapprev => op0 108 | IUbound => op0 134 | IUcase => op0 114 | IXor => op0 99
  end.

Definition encode_w (w : winstr) : option (list Z) :=
  match w with
  | WI i => encode_plain i
  | WPushS b => op1 41 (enc_u32 b)
  | WPushD b => op1 42 (enc_u64 b)
  end.

Definition encode_instr (i : instr) : option (list Z) := encode_w (w_of_instr i).

(* the machine reads the push$ operand signed: indices above 32767 do not
   survive (D30) *)
Definition pushstr_small (w : winstr) : Prop :=
  match w with WI (IPushStr idx) => idx <= 32767 | _ => True end.
Definition pushstr_smallb (w : winstr) : bool :=
  match w with WI (IPushStr idx) => idx <=? 32767 | _ => true end.

Fixpoint encode_code (ws : list winstr) : option (list Z) :=
  match ws with
  | [] => Some []
  | w :: r => cat2 (encode_w w) (encode_code r)
  end.

(* ------------------------------------------------------------------ *)
(* walking a code section *)

Inductive cresult :=
| COk (l : list (Z * instr))
| CUnknown (off op : Z)        (* unknown opcode at off *)
| CTrunc (off : Z).            (* operand bytes missing *)

Fixpoint decode_code_from (fuel : nat) (off : Z) (bs : list Z) : cresult :=
  match bs with
  | [] => COk []
  | b0 :: _ =>
    match fuel with
    | O => CTrunc off
    | S f =>
      match decode bs with
      | DOk i n =>
        match decode_code_from f (off + n) (skipn (Z.to_nat n) bs) with
        | COk r => COk ((off, i) :: r)
        | e => e
        end
      | DUnknown => CUnknown off b0
      | DTrunc => CTrunc off
      end
    end
  end.

Definition decode_code (bs : list Z) : cresult := decode_code_from (List.length bs) 0 bs.

(* (offset, instruction) pairs of a wire instruction list starting at off *)
Fixpoint with_offsets (off : Z) (ws : list winstr) : list (Z * instr) :=
  match ws with
  | [] => []
  | w :: r =>
    (off, instr_of_w w) ::
    with_offsets (off + match encode_w w with Some bs => len bs | None => 0 end) r
  end.

(* ------------------------------------------------------------------ *)
(* cp437 *)

Definition cp_dec (b : Z) : Z := cp437_decode cp437_upper b.

Fixpoint index_from (c : Z) (l : list Z) (i : Z) : option Z :=
  match l with
  | [] => None
  | x :: r => if x =? c then Some i else index_from c r (i + 1)
  end.

(* str.encode('cp437') of one character; None = UnicodeEncodeError *)
Definition cp_enc (c : Z) : option Z :=
  if in_range 0 c 127 then Some c
  else match index_from c cp437_upper 0 with Some i => Some (128 + i) | None => None end.

(* ------------------------------------------------------------------ *)
(* sections: writer *)

Inductive eres (A : Type) :=
| EOk (a : A)
| EStructError          (* struct.error: a count or length outside its field *)
| EUnicodeError.        (* UnicodeEncodeError: a character outside cp437 *)
Arguments EOk {A}. Arguments EStructError {A}. Arguments EUnicodeError {A}.

Definition ebind {A B} (x : eres A) (f : A -> eres B) : eres B :=
  match x with EOk a => f a | EStructError => EStructError | EUnicodeError => EUnicodeError end.

Definition enc_text (s : str) : eres (list Z) :=
  match map_opt cp_enc s with Some bs => EOk bs | None => EUnicodeError end.

(* struct.pack('>H', len(literal)) + literal.encode('cp437') *)
Definition enc_literal (s : str) : eres (list Z) :=
  if 65535 <? len s then EStructError
  else ebind (enc_text s) (fun bs => EOk (be16 (len s) ++ bs)).

Fixpoint enc_literals (ls : list str) : eres (list Z) :=
  match ls with
  | [] => EOk []
  | s :: r => ebind (enc_literal s) (fun a => ebind (enc_literals r) (fun b => EOk (a ++ b)))
  end.

(* struct.pack('>h', -1) | struct.pack('>h', len(item)) + item.encode('cp437') *)
Definition enc_item (it : ditem) : eres (list Z) :=
  match it with
  | DEmpty => EOk [255; 255]
  | DText s =>
    if 32767 <? len s then EStructError
    else ebind (enc_text s) (fun bs => EOk (be16 (len s) ++ bs))
  end.

Fixpoint enc_items (l : list ditem) : eres (list Z) :=
  match l with
  | [] => EOk []
  | it :: r => ebind (enc_item it) (fun a => ebind (enc_items r) (fun b => EOk (a ++ b)))
  end.

(* struct.pack('>h', len(data_part)) + items *)
Definition enc_part (p : list ditem) : eres (list Z) :=
  if 32767 <? len p then EStructError
  else ebind (enc_items p) (fun bs => EOk (be16 (len p) ++ bs)).

Fixpoint enc_parts (l : list (list ditem)) : eres (list Z) :=
  match l with
  | [] => EOk []
  | p :: r => ebind (enc_part p) (fun a => ebind (enc_parts r) (fun b => EOk (a ++ b)))
  end.

(* struct.pack('>H', len(self._data)) + parts *)
Definition enc_data (d : list (list ditem)) : eres (list Z) :=
  if 65535 <? len d then EStructError
  else ebind (enc_parts d) (fun bs => EOk (be16 (len d) ++ bs)).

Record bmod := mkBmod {
  b_literals : list str;
  b_data : list (list ditem);
  b_nglobals : Z;
  b_code : list Z;              (* bytes *)
}.

(* bytes([id]) + struct.pack('>I', len(section)) + section *)
Definition enc_section (id : Z) (body : list Z) : eres (list Z) :=
  if 4294967295 <? len body then EStructError else EOk (id :: be32 (len body) ++ body).

(* QvmCode.__bytes__ without the debug section: the section bodies are built
   first (literals, data, globals, code), then framed *)
Definition encode_module (m : bmod) : eres (list Z) :=
  ebind (enc_literals (b_literals m)) (fun lits =>
  ebind (enc_data (b_data m)) (fun dat =>
  ebind (if in_range 0 (b_nglobals m) 4294967295 then EOk (be32 (b_nglobals m)) else EStructError)
        (fun glb =>
  ebind (enc_section 1 lits) (fun s1 =>
  ebind (enc_section 2 dat) (fun s2 =>
  ebind (enc_section 3 glb) (fun s3 =>
  ebind (enc_section 4 (b_code m)) (fun s4 =>
  EOk (s1 ++ s2 ++ s3 ++ s4)))))))).

(* ------------------------------------------------------------------ *)
(* sections: reader *)

Inductive pres (A : Type) :=
| POk (a : A)
| PExit                 (* perror(...) -> exit(1) *)
| PStructError          (* struct.error: unpack of a short slice *)
| PUnbound.             (* UnboundLocalError: no globals section *)
Arguments POk {A}. Arguments PExit {A}. Arguments PStructError {A}. Arguments PUnbound {A}.

Definition pbind {A B} (x : pres A) (f : A -> pres B) : pres B :=
  match x with POk a => f a | PExit => PExit | PStructError => PStructError | PUnbound => PUnbound end.

(* a Python slice section[idx:idx+size] followed by idx += size: the taken
   bytes, the remaining bytes and whether idx went past the end *)
Definition take (size : Z) (bs : list Z) : list Z * list Z * bool :=
  let n := Z.to_nat size in
  let v := firstn n bs in
  (v, skipn n bs, len v <? size).

(* parse_literals_section: while idx < len(section) *)
Fixpoint parse_literals (fuel : nat) (bs : list Z) : pres (list str) :=
  match bs with
  | [] => POk []
  | _ =>
    match fuel with
    | O => PExit
    | S f =>
      match u16 bs with
      | None => PStructError
      | Some (size, r) =>
        let '(v, r', over) := take size r in
        if over then PExit            (* idx > len: loop ends, idx != len(section) *)
        else pbind (parse_literals f r') (fun ls => POk (map cp_dec v :: ls))
      end
    end
  end.

(* one item; state = (remaining bytes, idx already past the end) *)
Definition parse_item (st : list Z * bool) : pres (ditem * (list Z * bool)) :=
  let '(bs, over) := st in
  if over then PStructError           (* empty slice *)
  else match i16 bs with
       | None => PStructError
       | Some (size, r) =>
         if size <? 0 then POk (DEmpty, (r, false))
         else let '(v, r', over') := take size r in
              POk (DText (map cp_dec v), (r', over'))
       end.

Fixpoint parse_items (n : nat) (st : list Z * bool) : pres (list ditem * (list Z * bool)) :=
  match n with
  | O => POk ([], st)
  | S n' =>
    pbind (parse_item st) (fun '(it, st') =>
    pbind (parse_items n' st') (fun '(its, st'') => POk (it :: its, st'')))
  end.

Definition parse_part (st : list Z * bool) : pres (list ditem * (list Z * bool)) :=
  let '(bs, over) := st in
  if over then PStructError
  else match u16 bs with
       | None => PStructError
       | Some (nitems, r) => parse_items (Z.to_nat nitems) (r, false)
       end.

Fixpoint parse_parts (n : nat) (st : list Z * bool) : pres (list (list ditem) * (list Z * bool)) :=
  match n with
  | O => POk ([], st)
  | S n' =>
    pbind (parse_part st) (fun '(p, st') =>
    pbind (parse_parts n' st') (fun '(ps, st'') => POk (p :: ps, st'')))
  end.

Definition parse_data (bs : list Z) : pres (list (list ditem)) :=
  match u16 bs with
  | None => PStructError
  | Some (nparts, r) =>
    pbind (parse_parts (Z.to_nat nparts) (r, false)) (fun '(ps, (rest, over)) =>
    match rest, over with
    | [], false => POk ps
    | _, _ => PExit                   (* idx != len(section) *)
    end)
  end.

Definition parse_globals (bs : list Z) : pres Z :=
  match bs with
  | [_; _; _; _] => match u32 bs with Some (v, _) => POk v | None => PStructError end
  | _ => PExit
  end.

Record pstate := mkPstate {
  ps_literals : list str;
  ps_data : list (list ditem);
  ps_nglobals : option Z;
  ps_code : list Z;
  ps_seen : list Z;
}.

Definition ps_init : pstate := mkPstate [] [] None [] [].

Definition zmem (z : Z) (l : list Z) : bool := existsb (Z.eqb z) l.

(* QModule.parse: while idx < len(bcode).  A debug section (5) is outside this
   model: its body is skipped and its presence reported *)
Fixpoint parse_sections (fuel : nat) (bs : list Z) (st : pstate) : pres pstate :=
  match bs with
  | [] => POk st
  | ty :: r0 =>
    match fuel with
    | O => PExit
    | S f =>
      if zmem ty (ps_seen st) then PExit else
      match u32 r0 with
      | None => PStructError
      | Some (slen, r1) =>
        (* the slice is clamped to the input so that a huge length field costs nothing *)
        let '(body, rest, over) := take (Z.min slen (len r1 + 1)) r1 in
        if over then PExit else
        let seen := ty :: ps_seen st in
        pbind
          (if ty =? 1 then
             pbind (parse_literals (List.length body) body) (fun ls =>
             POk (mkPstate ls (ps_data st) (ps_nglobals st) (ps_code st) seen))
           else if ty =? 2 then
             pbind (parse_data body) (fun d =>
             POk (mkPstate (ps_literals st) d (ps_nglobals st) (ps_code st) seen))
           else if ty =? 3 then
             pbind (parse_globals body) (fun g =>
             POk (mkPstate (ps_literals st) (ps_data st) (Some g) (ps_code st) seen))
           else if ty =? 4 then
             POk (mkPstate (ps_literals st) (ps_data st) (ps_nglobals st) body seen)
           else if ty =? 5 then
             POk (mkPstate (ps_literals st) (ps_data st) (ps_nglobals st) (ps_code st) seen)
           else PExit)
          (fun st' => parse_sections f rest st')
      end
    end
  end.

(* result: the module and whether a debug section was present *)
Definition decode_module_dbg (bs : list Z) : pres (bmod * bool) :=
  pbind (parse_sections (List.length bs) bs ps_init) (fun st =>
  match ps_nglobals st with
  | None => PUnbound
  | Some g => POk (mkBmod (ps_literals st) (ps_data st) g (ps_code st), zmem 5 (ps_seen st))
  end).

Definition decode_module (bs : list Z) : pres bmod :=
  pbind (decode_module_dbg bs) (fun '(m, _) => POk m).

(* ------------------------------------------------------------------ *)
(* field widths (the guard of decode_encode_module) *)

Definition text_ok (s : str) : Prop := Forall (fun c => cp_enc c <> None) s.
Definition byte_ok (b : Z) : Prop := 0 <= b <= 255.

Definition item_ok (it : ditem) : Prop :=
  match it with DEmpty => True | DText s => len s <= 32767 /\ text_ok s end.

Definition lit_size (s : str) : Z := 2 + len s.
Definition item_size (it : ditem) : Z := match it with DEmpty => 2 | DText s => 2 + len s end.
Definition sumZ (l : list Z) : Z := fold_right Z.add 0 l.
Definition part_size (p : list ditem) : Z := 2 + sumZ (map item_size p).

Record sizes_ok (m : bmod) : Prop := mkSizesOk {
  so_lit : Forall (fun s => len s <= 65535 /\ text_ok s) (b_literals m);
  so_lit_sec : sumZ (map lit_size (b_literals m)) <= 4294967295;
  so_parts : len (b_data m) <= 65535;             (* '>H' written, '>H' read *)
  so_part : Forall (fun p => len p <= 32767 /\ Forall item_ok p) (b_data m);
                                                  (* '>h' written, '>H' read *)
  so_data_sec : 2 + sumZ (map part_size (b_data m)) <= 4294967295;
  so_glob : 0 <= b_nglobals m <= 4294967295;
  so_code : Forall byte_ok (b_code m);
  so_code_sec : len (b_code m) <= 4294967295;
}.
