(* C14 - lexical model of QBASIC source text as qbee reads it, and the canonical
   respelling [canon].  No proofs here (Proofs/LexProofs.v).

   The pyparsing grammar (qbee/grammar.py) is not modelled as a parser; what is
   modelled is the way it cuts a text into lexical items:
     - blanks and tabs separate items and are otherwise ignored
       (set_default_whitespace_chars: blank and tab);
     - lines are cut at LF only (parser.py: input_string.split);
     - string literals: double quote, any characters but a double quote, double
       quote (an unclosed one runs to the end of the line);
     - an apostrophe starts a comment running to the end of the line; the keyword REM
       (CaselessKeyword: not followed by a letter, digit, _ or $) starts a
       comment statement running to the end of the line;
     - the keyword DATA is followed by a payload read verbatim up to the end of
       the line or a colon outside double quotes (data_clause / unquoted_string /
       unclosed_quoted_string);
     - identifiers / keywords are  letter alnum*  with an optional type
       character % & ! # $ glued to it (Combine(untyped_identifier + type_char));
       record fields are separate items (dot, then an identifier);
     - numbers: digits, dot, exponent with optional sign, &H.. / &O.., one
       optional type character;
     - the comparison operators are single items (one Regex):
       <= >= <> >< =< =>.
   The lexer is LOSSLESS: every item carries the blanks in front of it, so the
   text is the concatenation of the items (LexProofs.unlex_lex). *)
From Coq Require Import ZArith List Bool.
From QV Require Import Sx Strs.
Import ListNotations.
Open Scope Z_scope.

(* ---- character classes ---- *)

Definition is_upper (c : Z) : bool := (65 <=? c) && (c <=? 90).
Definition is_lower (c : Z) : bool := (97 <=? c) && (c <=? 122).
Definition lower_ch (c : Z) : Z := if is_upper c then c + 32 else c.
Definition lower (s : str) : str := map lower_ch s.
Definition is_alpha (c : Z) : bool := is_upper c || is_lower c.
Definition is_alnum (c : Z) : bool := is_alpha c || is_digit c.
Definition is_numch (c : Z) : bool := is_alnum c || (c =? 46).
(* % & ! # $ *)
Definition is_numsuffix (c : Z) : bool := (c =? 37) || (c =? 38) || (c =? 33) || (c =? 35).
Definition is_suffix (c : Z) : bool := is_numsuffix c || (c =? 36).
Definition is_dollar (c : Z) : bool := c =? 36.
Definition is_sign (c : Z) : bool := (c =? 43) || (c =? 45).
Definition is_expch (c : Z) : bool := (lower_ch c =? 101) || (lower_ch c =? 100).
Definition is_ho (c : Z) : bool := (lower_ch c =? 104) || (lower_ch c =? 111).
Definition is_relch (c : Z) : bool := (c =? 60) || (c =? 61) || (c =? 62).
Definition is_nl (c : Z) : bool := c =? 10.
Definition not_nl (c : Z) : bool := negb (c =? 10).
Definition is_strch (c : Z) : bool := negb ((c =? 34) || (c =? 10)).
Definition is_colon (c : Z) : bool := c =? 58.

Definition hd_is (p : Z -> bool) (s : str) : bool :=
  match s with c :: _ => p c | [] => false end.
Definition ohd (p : Z -> bool) (oc : option Z) : bool :=
  match oc with Some c => p c | None => false end.
Definition onhd (p : Z -> bool) (oc : option Z) : bool := negb (ohd p oc).
Definition at_eol (oc : option Z) : bool :=
  match oc with None => true | Some c => c =? 10 end.
Definition is_nil {A} (l : list A) : bool := match l with [] => true | _ => false end.

Fixpoint span (p : Z -> bool) (s : str) : str * str :=
  match s with
  | [] => ([], [])
  | c :: r => if p c then let (a, b) := span p r in (c :: a, b) else ([], s)
  end.

Definition take_suffix (p : Z -> bool) (s : str) : str * str :=
  match s with
  | c :: r => if p c then ([c], r) else ([], s)
  | [] => ([], [])
  end.

Definition suf_ok (p : Z -> bool) (suf : str) : bool :=
  match suf with [] => true | [c] => p c | _ => false end.

Definition ends_exp (run : str) : bool :=
  match rev run with c :: _ => is_expch c | [] => false end.

(* ---- tokens (structured: the parts the lexer distinguishes) ---- *)

Inductive token : Type :=
| TWord (run suf : str)          (* keyword or identifier: letter alnum*, type character *)
| TNum (run ext suf : str)       (* digits/dot/letters run, exponent sign + digits, type character *)
| THex (run suf : str)           (* ampersand run suf  (&H.., &O..) *)
| TStr (body : str) (closed : bool)
| TOp (o : str)                  (* one character, or a two-character comparison operator *)
| TColon
| TData (kw payload : str)       (* DATA statement: keyword spelling + verbatim payload *)
| TRem (kw body : str)           (* REM comment statement *)
| TApos (body : str)             (* apostrophe comment *)
| TNewline.

Definition text (t : token) : str :=
  match t with
  | TWord run suf => run ++ suf
  | TNum run ext suf => run ++ ext ++ suf
  | THex run suf => 38 :: run ++ suf
  | TStr body true => 34 :: body ++ [34]
  | TStr body false => 34 :: body
  | TOp o => o
  | TColon => [58]
  | TData kw p => kw ++ p
  | TRem kw b => kw ++ b
  | TApos b => 39 :: b
  | TNewline => [10]
  end.

Definition kw_rem : str := [114; 101; 109].
Definition kw_data : str := [100; 97; 116; 97].
Definition is_rem (run : str) : bool := str_eqb (lower run) kw_rem.
Definition is_dat (run : str) : bool := str_eqb (lower run) kw_data.

(* DATA payload: up to the end of the line or a colon outside double quotes *)
Fixpoint scan_data (inq : bool) (s : str) : str * str :=
  match s with
  | [] => ([], [])
  | c :: r =>
    if (c =? 10) || (negb inq && (c =? 58)) then ([], s)
    else let (a, b) := scan_data (if c =? 34 then negb inq else inq) r in (c :: a, b)
  end.

Fixpoint data_ok (inq : bool) (p : str) : bool :=
  match p with
  | [] => true
  | c :: r => negb ((c =? 10) || (negb inq && (c =? 58)))
              && data_ok (if c =? 34 then negb inq else inq) r
  end.

(* quote state after the payload *)
Fixpoint data_inq (inq : bool) (p : str) : bool :=
  match p with
  | [] => inq
  | c :: r => data_inq (if c =? 34 then negb inq else inq) r
  end.

(* ---- one token; [c] is the first character, not a blank ---- *)

Definition lex_str (s : str) : token * str :=
  let (body, r) := span is_strch s in
  match r with
  | q :: r' => if q =? 34 then (TStr body true, r') else (TStr body false, r)
  | [] => (TStr body false, [])
  end.

Definition lex_num (c : Z) (s : str) : token * str :=
  let (run0, r) := span is_numch s in
  let run := c :: run0 in
  let (ext, r1) :=
    match r with
    | sg :: r' =>
      if is_sign sg && ends_exp run
      then let (run2, r2) := span is_alnum r' in (sg :: run2, r2)
      else ([], r)
    | [] => ([], [])
    end in
  let (suf, r2) := take_suffix is_numsuffix r1 in
  (TNum run ext suf, r2).

Definition lex_hex (s : str) : token * str :=
  let (run, r) := span is_alnum s in
  let (suf, r2) := take_suffix is_numsuffix r in
  (THex run suf, r2).

Definition lex_word (c : Z) (s : str) : token * str :=
  let (run0, r) := span is_alnum s in
  let run := c :: run0 in
  if is_rem run && negb (hd_is is_dollar r) then
    let (b, r') := span not_nl r in (TRem run b, r')
  else if is_dat run && negb (hd_is is_dollar r) then
    let (p, r') := scan_data false r in (TData run p, r')
  else
    let (suf, r2) := take_suffix is_suffix r in (TWord run suf, r2).

Definition lex_rel (c : Z) (s : str) : token * str :=
  match s with
  | d :: r => if is_relch d && negb (d =? c) then (TOp [c; d], r) else (TOp [c], s)
  | [] => (TOp [c], [])
  end.

Definition next_tok (c : Z) (s : str) : token * str :=
  if c =? 10 then (TNewline, s)
  else if c =? 34 then lex_str s
  else if c =? 39 then let (b, r) := span not_nl s in (TApos b, r)
  else if c =? 58 then (TColon, s)
  else if is_digit c || ((c =? 46) && hd_is is_digit s) then lex_num c s
  else if (c =? 38) && hd_is is_ho s then lex_hex s
  else if is_alpha c then lex_word c s
  else if is_relch c then lex_rel c s
  else (TOp [c], s).

(* ---- layout-preserving lexer ---- *)

Definition ltok : Type := (str * token)%type.   (* blanks in front, token *)

Fixpoint lexl (fuel : nat) (s : str) : list ltok * str :=
  match fuel with
  | O => ([], [])
  | S f =>
    let (ws, r) := span is_blank s in
    match r with
    | [] => ([], ws)
    | c :: r' =>
      let (t, rest) := next_tok c r' in
      let (l, tail) := lexl f rest in
      ((ws, t) :: l, tail)
    end
  end.

Definition lex_layout (s : str) : list ltok * str := lexl (S (length s)) s.

Definition lex (s : str) : list token := map snd (fst (lex_layout s)).

Fixpoint unlex (l : list ltok) (tail : str) : str :=
  match l with
  | [] => tail
  | (ws, t) :: l' => ws ++ text t ++ unlex l' tail
  end.

(* ---- the image of the lexer, characterised token by token ----
   [tok_ok t]: t is internally what the lexer produces;
   [stops t oc]: the lexer ends token t when the next character is oc
   (None = end of text). *)

Definition is_word (run : str) : bool :=
  match run with c :: r => is_alpha c && forallb is_alnum r | [] => false end.

Definition op_start (c : Z) : bool :=
  negb (is_blank c) && negb (c =? 10) && negb (c =? 34) && negb (c =? 39) && negb (c =? 58)
  && negb (is_digit c) && negb (is_alpha c).

Definition tok_ok (t : token) : bool :=
  match t with
  | TNewline | TColon => true
  | TStr body _ => forallb is_strch body
  | TApos b => forallb not_nl b
  | TRem kw b => is_word kw && is_rem kw && forallb not_nl b
                 && negb (hd_is is_dollar b) && negb (hd_is is_alnum b)
  | TData kw p => is_word kw && negb (is_rem kw) && is_dat kw && data_ok false p
                  && negb (hd_is is_dollar p) && negb (hd_is is_alnum p)
  | TWord run suf =>
      is_word run &&
      (if is_rem run || is_dat run then str_eqb suf [36] else suf_ok is_suffix suf)
  | TNum run ext suf =>
      match run with
      | c :: run0 =>
        (is_digit c || ((c =? 46) && hd_is is_digit run0)) && forallb is_numch run0
        && match ext with
           | [] => true
           | sg :: run2 => is_sign sg && ends_exp run && forallb is_alnum run2
           end
        && suf_ok is_numsuffix suf
      | [] => false
      end
  | THex run suf => hd_is is_ho run && forallb is_alnum run && suf_ok is_numsuffix suf
  | TOp [c] => op_start c
  | TOp [c; d] => is_relch c && is_relch d && negb (d =? c)
  | TOp _ => false
  end.

Definition stops (t : token) (oc : option Z) : bool :=
  match t with
  | TNewline | TColon => true
  | TStr _ closed => closed || at_eol oc
  | TApos _ | TRem _ _ => at_eol oc
  | TData _ p => at_eol oc || (negb (data_inq false p) && ohd is_colon oc)
  | TNum run ext suf =>
      negb (is_nil suf) ||
      (onhd is_numsuffix oc &&
       (if is_nil ext
        then onhd is_numch oc && negb (ends_exp run && ohd is_sign oc)
        else onhd is_alnum oc))
  | THex _ suf => negb (is_nil suf) || (onhd is_numsuffix oc && onhd is_alnum oc)
  | TWord _ suf => negb (is_nil suf) || (onhd is_suffix oc && onhd is_alnum oc)
  | TOp [c] =>
      if is_relch c then onhd (fun d => is_relch d && negb (d =? c)) oc
      else if c =? 46 then onhd is_digit oc
      else if c =? 38 then onhd is_ho oc
      else true
  | TOp _ => true
  end.

(* first character of a layout, [nxt] if it is empty *)
Definition hd_lay (l : list ltok) (nxt : option Z) : option Z :=
  match l with
  | [] => nxt
  | (ws, t) :: _ => hd_error (ws ++ text t)
  end.

Fixpoint lay_ok (l : list ltok) (nxt : option Z) : bool :=
  match l with
  | [] => true
  | (ws, t) :: l' =>
    forallb is_blank ws && tok_ok t && stops t (hd_lay l' nxt) && lay_ok l' nxt
  end.

(* ---- canonical respelling ---- *)

Definition norm_op (o : str) : str :=
  if str_eqb o [62; 60] then [60; 62]          (* >< -> <> *)
  else if str_eqb o [61; 60] then [60; 61]     (* =< -> <= *)
  else if str_eqb o [61; 62] then [62; 61]     (* => -> >= *)
  else o.

Definition norm_tok (t : token) : list token :=
  match t with
  | TWord run suf => [TWord (lower run) suf]
  | TOp o => [TOp (norm_op o)]
  | TData kw p => [TData (lower kw) p]
  | TRem kw _ => [TRem (lower kw) []]
  | TApos _ => []
  | _ => [t]
  end.

(* cut at TNewline; always at least one line *)
Fixpoint lines (l : list token) : list (list token) :=
  match l with
  | [] => [[]]
  | TNewline :: r => [] :: lines r
  | t :: r => match lines r with
              | h :: tl => (t :: h) :: tl
              | [] => [[t]]
              end
  end.

(* a line is dropped when nothing is left on it, or only a REM statement *)
Definition keep_line (l : list token) : bool :=
  match l with
  | [] => false
  | [TRem _ _] => false
  | _ => true
  end.

Definition normalise (toks : list token) : list (list token) :=
  filter keep_line (lines (flat_map norm_tok toks)).

Definition is_data_tok (t : token) : bool :=
  match t with TData _ _ => true | _ => false end.

(* one blank between tokens; a DATA payload is verbatim and already contains
   its own trailing blanks, so nothing is added after it *)
Fixpoint render_line (l : list token) : str :=
  match l with
  | [] => []
  | [t] => text t
  | t :: r => text t ++ (if is_data_tok t then [] else [32]) ++ render_line r
  end.

Definition render (ls : list (list token)) : str :=
  flat_map (fun l => render_line l ++ [10]) ls.

Definition canon (s : str) : str := render (normalise (lex s)).

(* ---- the catalogue of rewritings (relations on texts, through the layout) ---- *)

(* what may stand between the token before (last of l1) and the next token [t]
   with blanks [ws] in front of it: the lexer must still end the token before
   at that point *)
Definition last_tok (l : list ltok) : option token :=
  match rev l with (_, t) :: _ => Some t | [] => None end.

Definition sep_ok (l1 : list ltok) (ws : str) (t : token) : bool :=
  match last_tok l1 with
  | None => true
  | Some p => stops p (hd_error (ws ++ text t))
  end.

Definition tail_ok (l : list ltok) (tail : str) : bool :=
  match last_tok l with
  | None => true
  | Some p => stops p (hd_error tail)
  end.

(* at the start of a line *)
Definition line_start (l1 : list ltok) : bool :=
  match last_tok l1 with
  | None => true
  | Some TNewline => true
  | Some _ => false
  end.

Definition same_case (a b : str) : Prop := lower a = lower b.

(* r_case: respell the letters of one word (keyword, identifier, DATA or REM
   keyword) in another letter case *)
Inductive r_case : str -> str -> Prop :=
| rc_word : forall s l1 ws run suf l2 tail run',
    lex_layout s = (l1 ++ (ws, TWord run suf) :: l2, tail) ->
    same_case run run' ->
    r_case s (unlex (l1 ++ (ws, TWord run' suf) :: l2) tail)
| rc_data : forall s l1 ws kw p l2 tail kw',
    lex_layout s = (l1 ++ (ws, TData kw p) :: l2, tail) ->
    same_case kw kw' ->
    r_case s (unlex (l1 ++ (ws, TData kw' p) :: l2) tail)
| rc_rem : forall s l1 ws kw b l2 tail kw',
    lex_layout s = (l1 ++ (ws, TRem kw b) :: l2, tail) ->
    same_case kw kw' ->
    r_case s (unlex (l1 ++ (ws, TRem kw' b) :: l2) tail).

(* r_blank: replace the blanks/tabs in front of a token (or at the end of the
   text) by other blanks/tabs, possibly none - provided the token before still
   ends there ([sep_ok]: e.g. no blanks may be removed between two words, none
   added after a comment, a DATA payload or an unclosed string, where they
   would become part of that token) *)
Inductive r_blank : str -> str -> Prop :=
| rb_mid : forall s l1 ws t l2 tail ws',
    lex_layout s = (l1 ++ (ws, t) :: l2, tail) ->
    forallb is_blank ws' = true ->
    sep_ok l1 ws' t = true ->
    r_blank s (unlex (l1 ++ (ws', t) :: l2) tail)
| rb_tail : forall s l tail tail',
    lex_layout s = (l, tail) ->
    forallb is_blank tail' = true ->
    tail_ok l tail' = true ->
    r_blank s (unlex l tail').

Definition rem_body_ok (b : str) : bool :=
  forallb not_nl b && negb (hd_is is_dollar b) && negb (hd_is is_alnum b).

(* r_comment: change the text of a comment, add an apostrophe comment at the end of a
   line or of the text, add a line that is empty or holds only a comment *)
Inductive r_comment : str -> str -> Prop :=
| rm_apos_text : forall s l1 ws b l2 tail b',
    lex_layout s = (l1 ++ (ws, TApos b) :: l2, tail) ->
    forallb not_nl b' = true ->
    r_comment s (unlex (l1 ++ (ws, TApos b') :: l2) tail)
| rm_rem_text : forall s l1 ws kw b l2 tail b',
    lex_layout s = (l1 ++ (ws, TRem kw b) :: l2, tail) ->
    rem_body_ok b' = true ->
    r_comment s (unlex (l1 ++ (ws, TRem kw b') :: l2) tail)
| rm_add_eol : forall s l1 ws l2 tail ws1 b,
    lex_layout s = (l1 ++ (ws, TNewline) :: l2, tail) ->
    forallb is_blank ws1 = true ->
    forallb not_nl b = true ->
    sep_ok l1 ws1 (TApos b) = true ->
    r_comment s (unlex (l1 ++ (ws1, TApos b) :: ([], TNewline) :: l2) tail)
| rm_add_end : forall s l tail b,
    lex_layout s = (l, tail) ->
    forallb not_nl b = true ->
    sep_ok l tail (TApos b) = true ->
    r_comment s (unlex (l ++ [(tail, TApos b)]) [])
| rm_add_empty_line : forall s l1 l2 tail ws,
    lex_layout s = (l1 ++ l2, tail) ->
    line_start l1 = true ->
    forallb is_blank ws = true ->
    r_comment s (unlex (l1 ++ (ws, TNewline) :: l2) tail)
| rm_add_apos_line : forall s l1 l2 tail ws b,
    lex_layout s = (l1 ++ l2, tail) ->
    line_start l1 = true ->
    forallb is_blank ws = true ->
    forallb not_nl b = true ->
    r_comment s (unlex (l1 ++ (ws, TApos b) :: ([], TNewline) :: l2) tail)
| rm_add_rem_line : forall s l1 l2 tail ws kw b,
    lex_layout s = (l1 ++ l2, tail) ->
    line_start l1 = true ->
    forallb is_blank ws = true ->
    is_word kw && is_rem kw = true ->
    rem_body_ok b = true ->
    r_comment s (unlex (l1 ++ (ws, TRem kw b) :: ([], TNewline) :: l2) tail).

Definition is_relop2 (o : str) : bool :=
  match o with [c; d] => is_relch c && is_relch d && negb (d =? c) | _ => false end.

(* r_relop: the other spelling of a two-character comparison operator *)
Inductive r_relop : str -> str -> Prop :=
| rr_swap : forall s l1 ws o l2 tail o',
    lex_layout s = (l1 ++ (ws, TOp o) :: l2, tail) ->
    is_relop2 o = true -> is_relop2 o' = true ->
    norm_op o' = norm_op o ->
    sep_ok l1 ws (TOp o') = true ->
    r_relop s (unlex (l1 ++ (ws, TOp o') :: l2) tail).

Inductive rewrite1 : str -> str -> Prop :=
| rw_case : forall s s', r_case s s' -> rewrite1 s s'
| rw_blank : forall s s', r_blank s s' -> rewrite1 s s'
| rw_comment : forall s s', r_comment s s' -> rewrite1 s s'
| rw_relop : forall s s', r_relop s s' -> rewrite1 s s'.

(* finite compositions, in either direction (removing = inverse of adding) *)
Inductive rewrites : str -> str -> Prop :=
| rws_refl : forall s, rewrites s s
| rws_step : forall s s' s'', rewrite1 s s' -> rewrites s' s'' -> rewrites s s''
| rws_back : forall s s' s'', rewrite1 s' s -> rewrites s' s'' -> rewrites s s''.
