From Coq Require Import ZArith List Bool.
From QV Require Import Sx Strs Fl Dec NumFmt Cell Literal NumSpec NumText.
Import ListNotations.
Open Scope Z_scope.

Definition sx_rd (r : rd_result) : sx :=
  match r with
  | RdCell c => SL [SZ 0; sx_cell c]
  | RdBadType => SL [SZ 1]
  | RdInvalidCell => SL [SZ 2]
  | InReject => SL [SZ 3]
  end.

Definition sx_val (r : val_result) : sx :=
  match r with
  | VOk f => SL [SZ 0; SZ (bits_of_fl f)]
  | VSyntaxError c => SL [SZ 1; SZ c]
  end.

Definition sx_ntos (r : ntos_result) : sx :=
  match r with NtosOk s => SL [SZ 0; sx_str s] | NtosTypeMismatch => SL [SZ 1] end.

(* closeness of each read-back value y (bit pattern; -1 = none) *)
Definition close_of (x : fl) (neg : bool) (c k : Z) (y : sx) : sx :=
  match y with
  | SZ b => if b <? 0 then SZ (-1) else sx_bool (reads_back_close x (fl_of_bits b) neg c k)
  | _ => SZ (-1)
  end.

(* (1 ty v text (ys...))  one value, its text as produced by the implementation:
      -> (model text, READ text, INPUT text, VAL text, STR$ call site, verdict)
      verdict, ty = 1,2 : (plain-form?)
               ty = 3,4 : (numeral? digits half? sign? (closeness of each y))
   (2 text)               VAL on an arbitrary text
   (3 ty text)            READ and INPUT on an arbitrary text *)
Definition numtext_entry (j : sx) : sx :=
  match j with
  | SL [SZ 1; SZ tyid; SZ v; t; SL ys] =>
    match nty_of_id tyid, get_str t with
    | Some ty, Some text =>
      let c := match ty with
               | TInt => CI v | TLong => CL v
               | TSingle => CS (fl_of_bits v) | TDouble => CD (fl_of_bits v) end in
      let mtext := match ty with
                   | TInt | TLong => fmt_int v
                   | TSingle => fmt_float true (fl_of_bits v)
                   | TDouble => fmt_float false (fl_of_bits v) end in
      let verdict :=
        match ty with
        | TInt | TLong => SL [sx_bool (plain_int_text v text)]
        | _ =>
          let x := fl_of_bits v in
          let tv := judge_text x text in
          let cl := match dec_of_text text with
                    | Some (neg, c, k) => map (close_of x neg c k) ys
                    | None => map (fun _ => SZ (-1)) ys end in
          SL [sx_bool (tv_numeral tv); SZ (tv_digits tv); sx_bool (tv_half tv);
              sx_bool (tv_sign tv); SL cl]
        end in
      SL [sx_str mtext; sx_rd (read_num ty text); sx_rd (input_num ty text);
          sx_val (val_text text); sx_ntos (exec_ntos c); verdict]
    | _, _ => sx_bad
    end
  | SL [SZ 2; t] =>
    match get_str t with Some text => sx_val (val_text text) | None => sx_bad end
  | SL [SZ 3; SZ tyid; t] =>
    match nty_of_id tyid, get_str t with
    | Some ty, Some text => SL [sx_rd (read_num ty text); sx_rd (input_num ty text)]
    | _, _ => sx_bad
    end
  | _ => sx_bad
  end.
