(* Certificates for REAL compiled modules (C03).  The stack types of a region
   of stack instructions are recorded RELATIVE to the operand-stack depth at
   the start of the current source statement (debug records of the module):
   what lies below belongs to the callers (GOSUB / procedure return addresses,
   operands of an enclosing expression that called a FUNCTION) and differs
   between visits.  [obs_run] replays a run with [tick] and collects, at every
   stack instruction, (address, relative types); a second visit with different
   relative types is a CONFLICT (two control-flow paths join with different
   stack shapes).  The collected certificate is then checked STATICALLY by
   [check_cert] (Models/VerifierCfg.v) against the decoded code: every
   successor of every observed instruction - including the branch the run
   did not take, when it was observed at another time - must carry exactly the
   abstract result types.  By C03_cert_frame the relative certificate is valid
   under every stack tail, and by C03_cfg_run it is then an invariant of EVERY
   execution that stays in the observed region, whatever the data.
   No proofs here. *)
From Coq Require Import ZArith List Bool.
From QV Require Import Sx Strs Fl Cell Machine Cpu Verifier Monitor VerifierCfg.
Import ListNotations.
Open Scope Z_scope.

Definition cert_shift (r : list Z) (c : VerifierCfg.cert) : VerifierCfg.cert :=
  map (fun p => (fst p, snd p ++ r)) c.

(* the top (len - base) cells, None when the stack is below the base *)
Definition rel_types (base : Z) (stk : list cell) : option (list Z) :=
  let n := Z.of_nat (length stk) in
  if n <? base then None else Some (tys (firstn (Z.to_nat (n - base)) stk)).

Record obs := mkObs {
  o_cert : VerifierCfg.cert;
  o_conflicts : list Z;        (* addresses seen with two different relative shapes *)
  o_bases : list (Z * Z);      (* per frame (segment id, -1 = module level): operand-stack depth
                                  at the last statement start executed in that frame - a FUNCTION
                                  called inside an expression returns into the middle of the
                                  caller's statement *)
  o_seen : Z;                  (* stack instructions executed *)
}.

Definition frame_key (s : st) : Z := match cur s with Some g => g | None => -1 end.

Fixpoint set_base (k v : Z) (l : list (Z * Z)) : list (Z * Z) :=
  match l with
  | [] => [(k, v)]
  | (k0, v0) :: r => if k0 =? k then (k, v) :: r else (k0, v0) :: set_base k v r
  end.

Definition obs_tick (m : module) (s : st) (o : obs) : obs :=
  let p := pc s in
  if irq s || (p <? 0) || (p >=? code_len m) then o else
  let bases := if stmt_start m p then set_base (frame_key s) (Z.of_nat (length (stack s))) (o_bases o)
               else o_bases o in
  match decode (skipn (Z.to_nat p) (m_code m)) with
  | DOk i _ =>
    if stack_instr i then
      match assocZ (frame_key s) bases with
      | Some base =>
        match rel_types base (stack s) with
        | Some t =>
          match cert_at (o_cert o) p with
          | Some t0 =>
            if tys_eqb t0 t then mkObs (o_cert o) (o_conflicts o) bases (o_seen o + 1)
            else mkObs (o_cert o) (p :: o_conflicts o) bases (o_seen o + 1)
          | None => mkObs ((p, t) :: o_cert o) (o_conflicts o) bases (o_seen o + 1)
          end
        | None => mkObs (o_cert o) (o_conflicts o) bases (o_seen o + 1)
        end
      | None => mkObs (o_cert o) (o_conflicts o) bases (o_seen o + 1)
      end
    else mkObs (o_cert o) (o_conflicts o) bases (o_seen o)
  | _ => mkObs (o_cert o) (o_conflicts o) bases (o_seen o)
  end.

Fixpoint obs_run (m : module) (fuel : nat) (s : st) (o : obs) : obs :=
  match fuel with
  | O => o
  | S f =>
    if halted s || (pc s >=? code_len m) then o
    else
      let o' := obs_tick m s o in
      match tick m s with
      | Next s' => obs_run m f s' o'
      | _ => o'
      end
  end.

(* addresses whose local check fails *)
Definition cert_failing (m : module) (c : VerifierCfg.cert) : list Z :=
  map fst (filter (fun p => negb (check_at m c (fst p) (snd p))) c).
