From Coq Require Import ZArith List Bool.
From QV Require Import Sx Tokens.
Import ListNotations.
Open Scope Z_scope.

(* tree: (0 n) leaf | (1 op l r) ; token: (0 tree) node | (1 k) string *)
Fixpoint tree_sx_fuel (fuel : nat) (x : sx) : option tree :=
  match fuel with
  | O => None
  | S f =>
    match x with
    | SL [SZ 0; SZ n] => Some (Leaf n)
    | SL [SZ 1; SZ op; l; r] =>
      match tree_sx_fuel f l, tree_sx_fuel f r with
      | Some a, Some b => Some (Bin op a b)
      | _, _ => None
      end
    | _ => None
    end
  end.

Definition tok_sx (x : sx) : option tok :=
  match x with
  | SL [SZ 0; t] => option_map TNode (tree_sx_fuel 64 t)
  | SL [SZ 1; SZ k] => Some (TStr k)
  | _ => None
  end.

Fixpoint sx_tree (t : tree) : sx :=
  match t with
  | Leaf n => SL [SZ 0; SZ n]
  | Bin op l r => SL [SZ 1; SZ op; sx_tree l; sx_tree r]
  end.

Definition sx_crash (c : crash) : Z :=
  match c with
  | CAssert => 1 | CKeyError => 2 | CInternalError => 3
  | CAttributeError => 4 | CIndexError => 5
  end.

Definition sx_res (r : res) : sx :=
  match r with
  | RTree t => SL [SZ 0; sx_tree t]
  | RCrash c => SL [SZ 1; SZ (sx_crash c)]
  end.

Definition sx_pos (o : option (Z * Z)) : sx :=
  match o with
  | Some (l, c) => SL [SZ l; SZ c]
  | None => SL []
  end.

(* (1 toks)      parse_left
   (2 toks)      parse_right
   (3 toks)      (well_shaped-left well_shaped-right exponent-shape k|-1)
   (4 text off)  line_col
   (5 text loc)  display_target *)
Definition tokens_entry (x : sx) : sx :=
  match x with
  | SL [SZ 1; SL ts] =>
    match map_opt tok_sx ts with
    | Some l => sx_res (parse_left l)
    | None => sx_bad
    end
  | SL [SZ 2; SL ts] =>
    match map_opt tok_sx ts with
    | Some l => sx_res (parse_right l)
    | None => sx_bad
    end
  | SL [SZ 3; SL ts] =>
    match map_opt tok_sx ts with
    | Some l => SL [sx_bool (well_shaped is_binop_str l);
                    sx_bool (well_shaped is_caret_str l);
                    SZ (match exponent_shape l with
                        | Some k => Z.of_nat k
                        | None => -1
                        end)]
    | None => sx_bad
    end
  | SL [SZ 4; t; SZ off] =>
    match get_str t with
    | Some s => sx_pos (line_col s off)
    | None => sx_bad
    end
  | SL [SZ 5; t; SZ loc] =>
    match get_str t with
    | Some s => sx_pos (display_target s loc)
    | None => sx_bad
    end
  | _ => sx_bad
  end.
