(* Control-flow level of the bytecode verifier used for C03: a CERTIFICATE
   assigns to code addresses the list of operand-stack cell types (top first)
   with which the instruction at that address is entered; [check_cert] checks
   it locally, instruction by instruction, against the decoded code section:
   the instruction is a stack instruction ([Verifier.eff] is defined on the
   certified types), and every successor address (fall-through, jump target,
   both for jz) is either certified with exactly the resulting types or not
   certified at all (the region of stack instructions is left there: frame,
   call, ret, memory and device instructions are outside [eff]).
   No proofs here (Proofs/VerifierCfgProofs.v). *)
From Coq Require Import ZArith List Bool.
From QV Require Import Sx Strs Fl Cell Machine Cpu Verifier.
Import ListNotations.
Open Scope Z_scope.

Definition cert := list (Z * list Z).

Fixpoint cert_at (c : cert) (a : Z) : option (list Z) :=
  match c with
  | [] => None
  | (b, t) :: r => if a =? b then Some t else cert_at r a
  end.

Fixpoint tys_eqb (x y : list Z) : bool :=
  match x, y with
  | [], [] => true
  | a :: x', b :: y' => (a =? b) && tys_eqb x' y'
  | _, _ => false
  end.

(* the successor is certified with exactly t, or is outside the certified region *)
Definition succ_ok (c : cert) (a : Z) (t : list Z) : bool :=
  match cert_at c a with Some t0 => tys_eqb t0 t | None => true end.

Definition check_at (m : module) (c : cert) (a : Z) (t : list Z) : bool :=
  (0 <=? a) && (a <? code_len m) &&
  match decode (skipn (Z.to_nat a) (m_code m)) with
  | DOk i size =>
    match eff i t with
    | Some t' =>
      match i with
      | IJmp tgt => succ_ok c tgt t'
      | IJz tgt => succ_ok c tgt t' && succ_ok c (a + size) t'
      | _ => succ_ok c (a + size) t'
      end
    | None => false
    end
  | _ => false
  end.

Definition check_cert (m : module) (c : cert) : bool :=
  forallb (fun p => check_at m c (fst p) (snd p)) c.

(* n ticks, all of them answering Next *)
Fixpoint ticks (m : module) (n : nat) (s : st) : option st :=
  match n with
  | O => Some s
  | S k => match tick m s with Next s1 => ticks m k s1 | _ => None end
  end.
