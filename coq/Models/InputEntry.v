(* sx dispatcher of the INPUT model and specification.
   (1 variant (cells bottom->top) (lines))   exec_input (variant 0) / exec_input_fixed (1)
        -> (0 evs stack) done | (1 trap evs stack) | (2 evs stack) lines exhausted
           trap: 1 TYPE_MISMATCH 2 STACK_EMPTY 3 DEVICE_ERROR; stack bottom->top
   (2 strict same_line form (type ids) (lines))   spec_run, events normalised
        -> (0 evs vals) | (1 evs)            form: (0) | (1 prompt) | (2 prompt)
   (3 same_line form (type ids))             cells gen_input pushes, bottom->top
   (5 strict (type ids) line)                spec_accept -> (1 vals) | (0)
   events: (0 text) terminal_print, (1 same_line line) terminal_input *)
From Coq Require Import ZArith List Bool.
From QV Require Import Sx Strs Fl Cell Input.
Import ListNotations.
Open Scope Z_scope.

Definition sx_ev (e : ev) : sx :=
  match e with
  | EPrint s => SL [SZ 0; sx_str s]
  | EInput sl l => SL [SZ 1; SZ sl; sx_str l]
  end.

Definition sx_trapk (k : trapk) : Z :=
  match k with TTypeMismatch => 1 | TStackEmpty => 2 | TDeviceError => 3 end.

Definition sx_stack (st : list cell) : sx := SL (map sx_cell (rev st)).

Definition sx_ires (r : ires) : sx :=
  match r with
  | IDone e s => SL [SZ 0; SL (map sx_ev e); sx_stack s]
  | ITrap k e s => SL [SZ 1; SZ (sx_trapk k); SL (map sx_ev e); sx_stack s]
  | IExhausted e s => SL [SZ 2; SL (map sx_ev e); sx_stack s]
  end.

Definition sx_sres (r : sres) : sx :=
  match r with
  | SDone e v => SL [SZ 0; SL (map sx_ev (norm e)); SL (map sx_cell v)]
  | SExhausted e => SL [SZ 1; SL (map sx_ev (norm e))]
  end.

Definition vty_of_id (z : Z) : option vty :=
  if z =? 1 then Some VInt else if z =? 2 then Some VLong else if z =? 3 then Some VSingle
  else if z =? 4 then Some VDouble else if z =? 5 then Some VString else None.

Definition vtys_sx (l : list sx) : option (list vty) :=
  match get_zs l with
  | Some zs => map_opt vty_of_id zs
  | None => None
  end.

Definition form_sx (x : sx) : option pform :=
  match x with
  | SL [SZ 0] => Some FNone
  | SL [SZ 1; p] => option_map FSemi (get_str p)
  | SL [SZ 2; p] => option_map FComma (get_str p)
  | _ => None
  end.

Definition input_entry (x : sx) : sx :=
  match x with
  | SL [SZ 1; SZ variant; SL cs; SL ls] =>
    match map_opt cell_sx cs, map_opt get_str ls with
    | Some st, Some lines =>
      if variant =? 0 then sx_ires (exec_input lines (rev st))
      else if variant =? 1 then sx_ires (exec_input_fixed lines (rev st))
      else sx_bad
    | _, _ => sx_bad
    end
  | SL [SZ 2; SZ strict; SZ sl; f; SL ts; SL ls] =>
    match form_sx f, vtys_sx ts, map_opt get_str ls with
    | Some fm, Some tys, Some lines =>
      sx_sres (spec_run (negb (strict =? 0)) fm (flag (negb (sl =? 0))) tys lines)
    | _, _, _ => sx_bad
    end
  | SL [SZ 3; SZ sl; f; SL ts] =>
    match form_sx f, vtys_sx ts with
    | Some fm, Some tys => SL (map sx_cell (encode_input (stmt_of_form (negb (sl =? 0)) fm tys)))
    | _, _ => sx_bad
    end
  | SL [SZ 5; SZ strict; SL ts; l] =>
    match vtys_sx ts, get_str l with
    | Some tys, Some line =>
      match spec_accept (negb (strict =? 0)) tys line with
      | Some v => SL [SZ 1; SL (map sx_cell v)]
      | None => SL [SZ 0]
      end
    | _, _ => sx_bad
    end
  | _ => sx_bad
  end.
