(* SPECIFICATION of the static typing of operators and of coercibility (what C05
   demands), stated independently of the code; the code's decision is the
   generated table Gen/TypeTable.v.  Definitions only.

   type kinds: 1 INTEGER  2 LONG  3 SINGLE  4 DOUBLE  5 STRING  6,7 two distinct
   user-defined (record) types.  A rule answers None for a static type error. *)
From Coq Require Import ZArith List Bool.
From QV Require Import TypeTable.
Import ListNotations.
Open Scope Z_scope.

Definition numeric (t : Z) : bool := (1 <=? t) && (t <=? 4).
Definition is_string (t : Z) : bool := t =? 5.

(* INTEGER < LONG < SINGLE < DOUBLE *)
Definition wider (a b : Z) : Z := Z.max a b.

Definition is_cmp (op : Z) : bool := (OP_CMP_EQ <=? op) && (op <=? OP_CMP_GE).
Definition is_logical_bin (op : Z) : bool := (OP_AND <=? op) && (op <=? OP_IMP).

(* the rule of the language:
   - a comparison of two numbers or of two strings is an INTEGER (truth value);
   - AND OR XOR EQV IMP, MOD and \ work on integers: INTEGER when both operands are
     INTEGER, else LONG;
   - / is at least SINGLE;
   - + - * ^ give the wider operand type; + also concatenates two strings;
   - every other combination (a string with a number, a string with another
     operator, a record with anything) is a type error. *)
Definition rule_bin (op a b : Z) : option Z :=
  if is_cmp op then
    if (numeric a && numeric b) || (is_string a && is_string b) then Some 1 else None
  else if is_logical_bin op || (op =? OP_MOD) || (op =? OP_INTDIV) then
    if numeric a && numeric b then Some (if (a =? 1) && (b =? 1) then 1 else 2) else None
  else if op =? OP_DIV then
    if numeric a && numeric b then Some (if wider a b <=? 2 then 3 else wider a b) else None
  else if (op =? OP_ADD) && is_string a && is_string b then Some 5
  else if numeric a && numeric b then Some (wider a b)
  else None.

(* unary - + keep the type of a number; NOT gives INTEGER for INTEGER, else LONG *)
Definition rule_un (op a : Z) : option Z :=
  if numeric a then Some (if op =? OP_NOT then (if a =? 1 then 1 else 2) else a) else None.

(* numbers convert to numbers; a string only to a string; a record only to the
   same record type *)
Definition rule_coerce (a b : Z) : bool := (numeric a && numeric b) || (a =? b).

(* what the code decides for an operator application: a type, unless the Pass2
   check raised TYPE_MISMATCH or the type is Type.UNKNOWN / the property raised *)
Definition effective (ty raised : Z) : option Z :=
  if (raised =? 0) && (0 <? ty) then Some ty else None.

(* accepted/rejected and, when accepted, string or number *)
Definition verdict_kind (r : option Z) : option bool :=
  match r with None => None | Some t => Some (is_string t) end.

Definition bin_entry_verdict_ok (e : Z * Z * Z * Z * Z) : bool :=
  let '(op, a, b, ty, raised) := e in
  match verdict_kind (effective ty raised), verdict_kind (rule_bin op a b) with
  | None, None => true
  | Some x, Some y => Bool.eqb x y
  | _, _ => false
  end.

Definition opt_eqb (x y : option Z) : bool :=
  match x, y with
  | None, None => true
  | Some a, Some b => a =? b
  | _, _ => false
  end.

Definition bin_entry_exact_ok (e : Z * Z * Z * Z * Z) : bool :=
  let '(op, a, b, ty, raised) := e in opt_eqb (effective ty raised) (rule_bin op a b).

(* the one place where the code's numeric result type differs from the rule:
   integer division with a floating operand *)
Definition intdiv_float (e : Z * Z * Z * Z * Z) : bool :=
  let '(op, a, b, _, _) := e in (op =? OP_INTDIV) && ((3 <=? a) || (3 <=? b)).

Definition un_entry_ok (e : Z * Z * Z * Z) : bool :=
  let '(op, a, ty, raised) := e in opt_eqb (effective ty raised) (rule_un op a).

Definition coerce_entry_ok (e : Z * Z * Z) : bool :=
  let '(a, b, v) := e in Bool.eqb (v =? 1) (rule_coerce a b) && ((v =? 0) || (v =? 1)).

(* the tables cover the whole domain: every operator x every kind (pair) *)
Definition kinds : list Z := [1; 2; 3; 4; 5; 6; 7].
Definition bin_ops : list Z :=
  map (fun o => fst (fst (fst o))) (filter (fun o => snd (fst (fst o)) =? 0) op_table).
Definition un_ops : list Z :=
  map (fun o => fst (fst (fst o))) (filter (fun o => snd (fst (fst o)) =? 1) op_table).

Definition bin_domain : list (Z * Z * Z) :=
  flat_map (fun op => flat_map (fun a => map (fun b => (op, a, b)) kinds) kinds) bin_ops.

Definition bin_keys : list (Z * Z * Z) :=
  map (fun e : Z * Z * Z * Z * Z => let '(op, a, b, _, _) := e in (op, a, b)) binop_table.

Definition key3_eqb (x y : Z * Z * Z) : bool :=
  let '(a, b, c) := x in let '(a', b', c') := y in (a =? a') && (b =? b') && (c =? c').

Fixpoint keys3_eqb (x y : list (Z * Z * Z)) : bool :=
  match x, y with
  | [], [] => true
  | a :: x', b :: y' => key3_eqb a b && keys3_eqb x' y'
  | _, _ => false
  end.

Definition un_domain : list (Z * Z) := flat_map (fun op => map (fun a => (op, a)) kinds) un_ops.
Definition un_keys : list (Z * Z) :=
  map (fun e : Z * Z * Z * Z => let '(op, a, _, _) := e in (op, a)) unop_table.
Definition coerce_domain : list (Z * Z) := flat_map (fun a => map (fun b => (a, b)) kinds) kinds.
Definition coerce_keys : list (Z * Z) :=
  map (fun e : Z * Z * Z => let '(a, b, _) := e in (a, b)) coerce_table.

Fixpoint keys2_eqb (x y : list (Z * Z)) : bool :=
  match x, y with
  | [], [] => true
  | (a, b) :: x', (a', b') :: y' => (a =? a') && (b =? b') && keys2_eqb x' y'
  | _, _ => false
  end.
