(* Run-time monitor for C03: the executable invariant evaluated at every tick
   of a model run (which the T-run tie keeps equal to the real run):
   1 premise of eff_sound fails for a stack instruction   2 forbidden trap
   3 a cell holds a value of another type than declared    4 pc not on an
   instruction boundary   5 stack depth at a statement boundary   6 host crash *)
From Coq Require Import ZArith List Bool Lia.
From QV Require Import Sx Strs Fl Cell Machine Cpu Verifier.
Import ListNotations.
Open Scope Z_scope.

Record cert := mkCert {
  c_glob : list Z;                 (* declared type per global cell; 0 = unconstrained *)
  c_frames : list (Z * list Z);    (* code_start of the routine -> declared type per frame cell *)
}.

Definition decl_ok (d : Z) (c : option cell) : bool :=
  match c with
  | None => true
  | Some c => (d =? 0) || (cell_ty c =? d)
  end.

Fixpoint cells_ok (ds : list Z) (cs : list (option cell)) : bool :=
  match ds, cs with
  | d :: ds', c :: cs' => decl_ok d c && cells_ok ds' cs'
  | _, _ => true      (* temporaries appended after the declared cells are unconstrained *)
  end.

Fixpoint assocZ {A} (k : Z) (l : list (Z * A)) : option A :=
  match l with
  | [] => None
  | (k', v) :: r => if k =? k' then Some v else assocZ k r
  end.

Definition seg_ok (ct : cert) (sg : seg) : bool :=
  match s_kind sg with
  | SGlobals => cells_ok (c_glob ct) (s_cells sg)
  | SFrame _ cs _ _ =>
    match assocZ cs (c_frames ct) with
    | Some ds => cells_ok ds (s_cells sg)
    | None => false
    end
  | SArray => true
  end.

Definition heap_ok (ct : cert) (h : list seg) : bool := forallb (seg_ok ct) h.

(* instructions in the domain of eff *)
Definition stack_instr (i : instr) : bool :=
  match i with
  | IAbs | INeg | ISign | INot | IAdd | ISub | IMul | IDiv | IIdiv | IMod | IAnd | IOr | IXor
  | IEqv | IImp | ICmp | IEq | INe | IGe | IGt | ILe | ILt | ICint | IClng | IInt | IConv _ _
  | IPushI _ | IPushL _ | IPushS _ | IPushD _ | IPushC _ _ | IPop | IDupl | ISwap | ISwapprev
  | IAsc | IChr | ILcase | IUcase | ILtrim | IRtrim | INtos | ISpace | IStrlen | IStrleft
  | IStrright | IStrmid | IStrfind | IStrrep | IJz _ | IJmp _ => true
  | _ => false
  end.

Definition forbidden_trap (c : Z) : bool :=
  (c =? T_TYPE_MISMATCH) || (c =? T_STACK_EMPTY) || (c =? T_INVALID_OP_CODE) ||
  (c =? T_INVALID_VAR_IDX) || (c =? T_NULL_REFERENCE).

(* linear decode: offsets of instruction starts *)
Fixpoint boundaries (fuel : nat) (code : list Z) (off : Z) : list Z * bool :=
  match fuel with
  | O => ([], false)
  | S f =>
    match code with
    | [] => ([off], true)
    | _ =>
      match decode code with
      | DOk _ size =>
        let '(bs, ok) := boundaries f (skipn (Z.to_nat size) code) (off + size) in
        (off :: bs, ok)
      | _ => ([off], false)
      end
    end
  end.

Definition memZ (x : Z) (l : list Z) : bool := existsb (Z.eqb x) l.

(* jump / call / errhand targets of the whole code *)
Fixpoint targets (fuel : nat) (code : list Z) : list Z :=
  match fuel with
  | O => []
  | S f =>
    match decode code with
    | DOk i size =>
      let rest := targets f (skipn (Z.to_nat size) code) in
      match i with
      | ICall t | IJmp t | IJz t => t :: rest
      | IErrhand t => if (t =? 0) || (t =? 1) then rest else t :: rest
      | _ => rest
      end
    | _ => []
    end
  end.

Record mon := mkMon {
  viol : list (Z * Z * Z * Z);     (* (tick, kind, pc, detail) most recent first *)
  depths : list (Z * (Z * Z));      (* frame id -> (entry depth, active gosubs) *)
  trapped_before : bool;
}.

Definition add_viol (mn : mon) (v : Z * Z * Z * Z) : mon :=
  mkMon (v :: viol mn) (depths mn) (trapped_before mn).

Definition upd_depth (mn : mon) (g : Z) (f : Z * Z -> Z * Z) : mon :=
  mkMon (viol mn)
        (map (fun '(k, v) => if k =? g then (k, f v) else (k, v)) (depths mn))
        (trapped_before mn).

Definition stmt_start (m : module) (p : Z) : bool :=
  match m_stmts m with
  | Some recs => existsb (fun '(a, b) => (a =? p) && (a <? b)) recs
  | None => false
  end.

Definition zlen {A} (l : list A) : Z := Z.of_nat (length l).

(* one monitored tick *)
Definition mon_tick (m : module) (ct : cert) (bnd : list Z) (n : Z) (s : st) (mn : mon)
  : tick_out * mon :=
  let p := pc s in
  let mn1 := if irq s then mn else
             if memZ p bnd then mn else add_viol mn (n, 4, p, 0) in
  (* statement-boundary depth *)
  let is_frame := match (if (p <? 0) || (p >=? code_len m) then DTrunc
                          else decode (skipn (Z.to_nat p) (m_code m))) with
                  | DOk (IFrame _ _) _ => true | _ => false end in
  let mn2 :=
    (* the first instruction of a routine (frame) runs before the routine is entered *)
    if stmt_start m p && negb is_frame then
      match cur s with
      | Some g =>
        match assocZ g (depths mn1) with
        | Some (d, gs) =>
          if zlen (stack s) =? d + gs then mn1
          else add_viol mn1 (n, 5, p, zlen (stack s) - (d + gs))
        | None => mn1
        end
      | None => mn1
      end
    else mn1 in
  let dec := if (p <? 0) || (p >=? code_len m) then DTrunc
             else decode (skipn (Z.to_nat p) (m_code m)) in
  (* premise of the safety theorem *)
  let mn3 :=
    match dec with
    | DOk i _ =>
      if irq s then mn2
      else if stack_instr i then
        match eff i (tys (stack s)) with
        | Some _ => mn2
        | None => add_viol mn2 (n, 1, p, 0)
        end
      else mn2
    | _ => mn2
    end in
  let r := tick m s in
  match r with
  | Next s' =>
    (* a trap taken during this tick *)
    let trapped := match dec with
                   | DOk i size =>
                     if irq s then None else
                     match exec m i (set_pc (set_prev_pc s p) (p + size)) with
                     | T c _ _ => Some c
                     | ZD _ => Some T_DIVISION_BY_ZERO
                     | _ => None
                     end
                   | DUnknown => Some T_INVALID_OP_CODE
                   | DTrunc => None
                   end in
    let mn4 := match trapped with
               | Some c => let mn' := mkMon (viol mn3) (depths mn3) true in
                           if forbidden_trap c then add_viol mn' (n, 2, p, c) else mn'
               | None => mn3
               end in
    let mn5 := if heap_ok ct (heap s') then mn4 else add_viol mn4 (n, 3, p, 0) in
    (* bookkeeping for depths *)
    let mn6 :=
      match dec, trapped with
      | DOk (IFrame _ _) _, None =>
        match cur s' with
        | Some g => mkMon (viol mn5) ((g, (zlen (stack s'), 0)) :: depths mn5) (trapped_before mn5)
        | None => mn5
        end
      | DOk (ICall t) _, None =>
        (match decode (skipn (Z.to_nat t) (m_code m)), cur s with
         | DOk (IFrame _ _) _, _ => mn5
         | _, Some g => upd_depth mn5 g (fun '(d, gs) => (d, gs + 1))
         | _, None => mn5
         end)
      | DOk IIjmp _, None =>
        (match cur s with
         | Some g => upd_depth mn5 g (fun '(d, gs) => (d, gs - 1))
         | None => mn5
         end)
      | _, _ => mn5
      end in
    (r, mn6)
  | Crash k s' => (r, add_viol mn3 (n, 6, p, crash_id k))
  | NeedInput _ => (r, mn3)
  end.

Fixpoint mon_run (m : module) (ct : cert) (bnd : list Z) (fuel : nat) (s : st) (n : Z) (mn : mon)
  : st * stop * Z * mon :=
  match fuel with
  | O => (s, StFuel, n, mn)
  | S f =>
    if halted s || (pc s >=? code_len m) then (s, StHalt, n, mn)
    else match mon_tick m ct bnd n s mn with
         | (Next s', mn') => mon_run m ct bnd f s' (n + 1) mn'
         | (Crash k s', mn') => (s', StCrash k, n + 1, mn')
         | (NeedInput s', mn') => (s', StNeedInput, n + 1, mn')
         end
  end.

(* static part: every byte decodes, every target is a boundary *)
Definition static_check (m : module) : list Z * bool * list Z :=
  let fuel := S (length (m_code m)) in
  let '(bnd, ok) := boundaries fuel (m_code m) 0 in
  let bad := filter (fun t => negb (memZ t bnd)) (targets fuel (m_code m)) in
  (bnd, ok, bad).
