(* sx <-> instruction lists, and the job dispatcher of the peephole model. *)
From Coq Require Import ZArith List Bool.
From QV Require Import Sx Strs Fl Cell Machine Peephole.
Import ListNotations.
Open Scope Z_scope.

(* Python value: (0 z) int | (1 bits64) float | (2 str) *)
Definition pyval_sx (x : sx) : option pyval :=
  match x with
  | SL [SZ 0; SZ z] => Some (PInt z)
  | SL [SZ 1; SZ b] => Some (PFlt (fl_of_bits b))
  | SL [SZ 2; s] => option_map PStrV (get_str s)
  | _ => None
  end.

Definition sx_pyval (v : pyval) : sx :=
  match v with
  | PInt z => SL [SZ 0; SZ z]
  | PFlt f => SL [SZ 1; SZ (bits_of_fl f)]
  | PStrV s => SL [SZ 2; sx_str s]
  end.

Definition unop_z (k : Z) : option unop :=
  if k =? 0 then Some UNot else if k =? 1 then Some UNeg else None.
Definition z_unop (o : unop) : Z := match o with UNot => 0 | UNeg => 1 end.

Definition binops : list binop :=
  [BAdd; BSub; BMul; BDiv; BAnd; BOr; BXor; BEqv; BImp; BIdiv; BMod; BExp].
Definition binop_z (k : Z) : option binop :=
  if (k <? 0) then None else nth_error binops (Z.to_nat k).
Definition z_binop (o : binop) : Z :=
  match o with
  | BAdd => 0 | BSub => 1 | BMul => 2 | BDiv => 3 | BAnd => 4 | BOr => 5 | BXor => 6
  | BEqv => 7 | BImp => 8 | BIdiv => 9 | BMod => 10 | BExp => 11
  end.

Definition mkind_z (k : Z) : option mkind :=
  if k =? 0 then Some MLabel else if k =? 1 then Some MDbgStart
  else if k =? 2 then Some MDbgEnd else if k =? 3 then Some MEmpty else None.
Definition z_mkind (k : mkind) : Z :=
  match k with MLabel => 0 | MDbgStart => 1 | MDbgEnd => 2 | MEmpty => 3 end.

Definition pins_sx (x : sx) : option pins :=
  match x with
  | SL [SZ 1; SZ tc; v] => option_map (PPush tc) (pyval_sx v)
  | SL [SZ 2; SZ s; SZ d] => Some (PConv s d)
  | SL [SZ 3; SZ sc; SZ tc; a] => option_map (PRead sc tc) (get_str a)
  | SL [SZ 4; SZ sc; a] => option_map (PStore sc) (get_str a)
  | SL [SZ 5; SZ k] => option_map PUn (unop_z k)
  | SL [SZ 6; SZ k] => option_map PBin (binop_z k)
  | SL [SZ 7; SZ l] => Some (PJmp l)
  | SL [SZ 8] => Some PIjmp
  | SL [SZ 9] => Some PRet
  | SL [SZ 10] => Some PRetv
  | SL [SZ 11; SZ l] => Some (PJz l)
  | SL [SZ 12] => Some PHalt
  | SL [SZ 13; SZ k; SZ id] => option_map (fun m => PMark m id) (mkind_z k)
  | SL [SZ 14; SZ id] => Some (POther id)
  | _ => None
  end.

Definition sx_pins (p : pins) : sx :=
  match p with
  | PPush tc v => SL [SZ 1; SZ tc; sx_pyval v]
  | PConv s d => SL [SZ 2; SZ s; SZ d]
  | PRead sc tc a => SL [SZ 3; SZ sc; SZ tc; sx_str a]
  | PStore sc a => SL [SZ 4; SZ sc; sx_str a]
  | PUn o => SL [SZ 5; SZ (z_unop o)]
  | PBin o => SL [SZ 6; SZ (z_binop o)]
  | PJmp l => SL [SZ 7; SZ l]
  | PIjmp => SL [SZ 8]
  | PRet => SL [SZ 9]
  | PRetv => SL [SZ 10]
  | PJz l => SL [SZ 11; SZ l]
  | PHalt => SL [SZ 12]
  | PMark k id => SL [SZ 13; SZ (z_mkind k); SZ id]
  | POther id => SL [SZ 14; SZ id]
  end.

Definition sx_status (s : ostatus) : sx :=
  match s with
  | ODone => SL [SZ 0]
  | OFuel => SL [SZ 1]
  | OCrash k => SL [SZ 2; SZ k]
  | OUnk => SL [SZ 3]
  end.

Definition sx_list (l : list pins) : sx := SL (map sx_pins l).

Definition sx_opt (l : list pins) : sx :=
  let '(l', s) := optimize_st (opt_fuel l) l in
  SL [sx_status s; sx_list l'].

Definition sx_fres (r : fres) : sx :=
  match r with
  | FVal v => SL [SZ 0; sx_pyval v]
  | FSkip => SL [SZ 1]
  | FCrash k => SL [SZ 2; SZ k]
  | FUnk => SL [SZ 3]
  end.

Fixpoint assoc_z (l : list sx) (k : Z) : option Z :=
  match l with
  | SL [SZ a; SZ b] :: r => if a =? k then Some b else assoc_z r k
  | _ => None
  end.

(* jobs
   (1 (instrs))                       -> (status (instrs'))            optimize
   (2 (instrs))                       -> (instrs')                     erase_marks
   (3 (instrs))                       -> ((status (erase (optimize l))) (status' (optimize (erase l))))
   (4 (instrs) ((id size)...) ((labelid routine)...))
                                      -> (len ((labelid offset)...) (offsets of emitted instrs))
   (5 k tc v)                         -> fold1 ; (6 k tc a b) -> fold2 ; (7 dst v) -> conv_fold *)
Definition peephole_entry (x : sx) : sx :=
  match x with
  | SL [SZ 1; SL is] =>
    match map_opt pins_sx is with Some l => sx_opt l | None => sx_bad end
  | SL [SZ 2; SL is] =>
    match map_opt pins_sx is with Some l => sx_list (erase_marks l) | None => sx_bad end
  | SL [SZ 3; SL is] =>
    match map_opt pins_sx is with
    | Some l =>
      let '(l1, s1) := optimize_st (opt_fuel l) l in
      let e := erase_marks l in
      let '(l2, s2) := optimize_st (opt_fuel e) e in
      SL [SL [sx_status s1; sx_list (erase_marks l1)]; SL [sx_status s2; sx_list l2]]
    | None => sx_bad
    end
  | SL [SZ 4; SL is; SL sizes; SL routines] =>
    match map_opt pins_sx is with
    | Some l =>
      let osize id := match assoc_z sizes id with Some s => s | None => 1 end in
      let o := asm (isize osize) (assoc_z routines) l in
      SL [SZ (a_len o);
          SL (map (fun '(k, off) => SL [SZ k; SZ off]) (a_labels o));
          SL (map (fun '(_, off, cur) => SL [SZ off; SZ cur]) (a_code o))]
    | None => sx_bad
    end
  | SL [SZ 5; SZ k; SZ tc; v] =>
    match unop_z k, pyval_sx v with
    | Some o, Some pv => sx_fres (fold1 o tc pv)
    | _, _ => sx_bad
    end
  | SL [SZ 6; SZ k; SZ tc; a; b] =>
    match binop_z k, pyval_sx a, pyval_sx b with
    | Some o, Some pa, Some pb => sx_fres (fold2 o tc pa pb)
    | _, _, _ => sx_bad
    end
  | SL [SZ 7; SZ dst; v] =>
    match pyval_sx v with Some pv => sx_fres (conv_fold dst pv) | None => sx_bad end
  | _ => sx_bad
  end.
