(* sx dispatcher of the C09 models (Codec, Listing, Targets, InstrCheck). *)
From Coq Require Import ZArith List Bool.
From QV Require Import Sx Strs Fl Machine Cpu Instrs Codec InstrCheck Listing Targets.
Import ListNotations.
Open Scope Z_scope.

Definition sx_zs (l : list Z) : sx := SL (map SZ l).

Definition sx_item (it : ditem) : sx :=
  match it with DEmpty => SL [SZ 0] | DText s => SL [SZ 1; sx_str s] end.

Definition item_sx (x : sx) : option ditem :=
  match x with
  | SL [SZ 0] => Some DEmpty
  | SL [SZ 1; s] => option_map DText (get_str s)
  | _ => None
  end.

Definition strs_sx (x : sx) : option (list str) :=
  match x with SL l => map_opt get_str l | _ => None end.

Definition data_sx (x : sx) : option (list (list ditem)) :=
  match x with
  | SL ps => map_opt (fun p => match p with SL its => map_opt item_sx its | _ => None end) ps
  | _ => None
  end.

Definition aarg_sx (x : sx) : option aarg :=
  match x with
  | SL [SZ 0; SZ z] => Some (AInt z)
  | SL [SZ 1; SZ b] => Some (AFlt (fl_of_bits b))
  | SL [SZ 2; s] => option_map ASym (get_str s)
  | SL [SZ 3; s; SZ i] => option_map (fun n => AVar n i) (get_str s)
  | _ => None
  end.

Definition aitem_sx (x : sx) : option aitem :=
  match x with
  | SL [SZ 0; s] => option_map ALabel (get_str s)
  | SL [SZ 1] => Some AMark
  | SL [SZ 2; s; SL args] =>
    match get_str s, map_opt aarg_sx args with
    | Some op, Some al => Some (AOp op al)
    | _, _ => None
    end
  | _ => None
  end.

Definition aitems_sx (x : sx) : option (list aitem) :=
  match x with SL l => map_opt aitem_sx l | _ => None end.

Definition sx_err (k : Z) : sx := SL [SZ 1; SZ k].

Definition sx_oval (o : oval) : sx :=
  match o with OvZ z => SL [SZ 0; SZ z] | OvF f => SL [SZ 1; SZ (bits_of_fl f)] end.

Definition rcert_sx (x : sx) : option (Z * list Z * list Z) :=
  match x with
  | SL [SZ off; SL ps; SL ls] =>
    match get_zs ps, get_zs ls with
    | Some p, Some l => Some (off, p, l)
    | _, _ => None
    end
  | _ => None
  end.

Definition codec_entry (x : sx) : sx :=
  match x with
  | SL [SZ 1; bs] =>                                   (* QModule.parse *)
    match get_str bs with
    | Some b =>
      match decode_module_dbg b with
      | POk (m, dbg) =>
        SL [SZ 0; SL (map sx_str (b_literals m));
            SL (map (fun p => SL (map sx_item p)) (b_data m));
            SZ (b_nglobals m); sx_zs (b_code m); sx_bool dbg]
      | PExit => sx_err 1 | PStructError => sx_err 2 | PUnbound => sx_err 3
      end
    | None => sx_bad
    end
  | SL [SZ 2; ls; ds; SZ ng; cs] =>                    (* QvmCode.__bytes__ *)
    match strs_sx ls, data_sx ds, get_str cs with
    | Some l, Some d, Some c =>
      match encode_module (mkBmod l d ng c) with
      | EOk bs => SL [SZ 0; sx_zs bs]
      | EStructError => sx_err 1 | EUnicodeError => sx_err 2
      end
    | _, _, _ => sx_bad
    end
  | SL [SZ 3; ls; cs] =>                               (* QModule.disassemble *)
    match strs_sx ls, get_str cs with
    | Some l, Some c =>
      match disasm l c with
      | DisOk t => SL [SZ 0; sx_str t]
      | DisExit => sx_err 1 | DisStruct => sx_err 2 | DisIndex => sx_err 3
      end
    | _, _ => sx_bad
    end
  | SL [SZ 4; its] =>                                  (* code part of QvmCode.__str__ *)
    match aitems_sx its with
    | Some l => SL [SZ 0; sx_str (listing_code l)]
    | None => sx_bad
    end
  | SL [SZ 5; ls; its] =>                              (* QvmCode.assembled *)
    match strs_sx ls, aitems_sx its with
    | Some l, Some il =>
      match assemble l il with
      | AOk (bs, labels) =>
        SL [SZ 0; sx_zs bs; SL (map (fun e => SL [sx_str (fst e); SZ (snd e)]) labels)]
      | AKeyError => sx_err 1 | AStructError => sx_err 2 | AAssert => sx_err 3
      | AOverflow => sx_err 4
      end
    | _, _ => sx_bad
    end
  | SL [SZ 6; cs; SZ ng] =>                            (* targets / operands *)
    match get_str cs with
    | Some c =>
      match decode_code c with
      | COk prog => SL [SZ 0; SL (map (fun e => SL [SZ (fst e); SZ (snd e)]) (targets_fails prog ng));
                        sx_bool (targets_ok prog ng)]
      | CUnknown off op => SL [SZ 1; SZ 1; SZ off; SZ op]
      | CTrunc off => SL [SZ 1; SZ 2; SZ off]
      end
    | None => sx_bad
    end
  | SL [SZ 7; cs; SL rcs] =>                           (* frame declarations *)
    match get_str cs, map_opt rcert_sx rcs with
    | Some c, Some rl =>
      match decode_code c with
      | COk prog =>
        SL [SZ 0; SL (map (fun '(off, ps, ls) =>
                             SL [SZ (frame_check prog off ps ls);
                                 match instr_at prog off with
                                 | Some (IFrame p l) => SL [SZ p; SZ l]
                                 | _ => SL []
                                 end]) rl)]
      | _ => sx_err 1
      end
    | _, _ => sx_bad
    end
  | SL [SZ 8] =>                                       (* table agreement, entry by entry *)
    SL [SZ 0;
        SL (map (fun '(n, op, c) => SL [sx_str n; SZ op; SZ c]) (failing_entries instr_table));
        sx_zs (stray_bytes instr_table);
        sx_bool (opcodes_unique instr_table); sx_bool (mnemonics_unique instr_table)]
  | SL [SZ 9; ls; its] =>                              (* specification of the disassembly *)
    match strs_sx ls, aitems_sx its with
    | Some l, Some il =>
      match expected_dis l il with
      | Some dl => SL [SZ 0; sx_str (render_dis dl)]
      | None => sx_err 1
      end
    | _, _ => sx_bad
    end
  | SL [SZ 10; cs] =>                                  (* the machine's instruction decoder *)
    match get_str cs with
    | Some c =>
      match decode_code c with
      | COk prog =>
        SL [SZ 0; SL (map (fun e => SL [SZ (fst e); sx_str (instr_name (snd e));
                                        SL (map sx_oval (instr_operands (snd e)))]) prog)]
      | CUnknown off op => SL [SZ 1; SZ 1; SZ off; SZ op]
      | CTrunc off => SL [SZ 1; SZ 2; SZ off]
      end
    | None => sx_bad
    end
  | SL [SZ 11; SL ins] =>                              (* operand packing of numeric instructions *)
    match map_opt (fun x => match x with
                            | SL [s; SL vs] =>
                              match get_str s, get_zs vs with
                              | Some op, Some vals => Some (op, vals)
                              | _, _ => None
                              end
                            | _ => None
                            end) ins with
    | Some l =>
      SL [SZ 0; SL (map (fun '(op, vals) =>
                           match mk_plain op vals with
                           | Some i => match encode_plain i with
                                       | Some bs => SL [SZ 0; sx_zs bs]
                                       | None => sx_err 2
                                       end
                           | None => sx_err 1
                           end) l)]
    | None => sx_bad
    end
  | _ => sx_bad
  end.
