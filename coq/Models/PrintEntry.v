From Coq Require Import ZArith List Bool.
From QV Require Import Sx Strs Fl Cell Using Print.
Import ListNotations.
Open Scope Z_scope.

Definition sx_ucrash (k : ucrash) : Z :=
  match k with UIndexError => 1 | URuntimeError => 2 | UTypeError => 3
             | UOverflowError => 4 | UValueError => 5 end.

Definition sx_pout (o : pout) : sx :=
  match o with
  | OutText calls => SL [SZ 0; SL (map sx_str calls)]
  | OutTrap => SL [SZ 1]
  | OutCrash PIndexError => SL [SZ 2; SZ 1]
  | OutCrash (PUsing k) => SL [SZ 2; SZ (sx_ucrash k)]
  | OutCrash PAttrError => SL [SZ 2; SZ 6]
  | OutCrash PTypeError => SL [SZ 2; SZ 3]
  end.

Definition parg_sx (x : sx) : option parg :=
  match x with
  | SZ 1 => Some ASemi
  | SZ 2 => Some AComma
  | SL [SZ 0; c] => option_map AVal (cell_sx c)
  | _ => None
  end.

(* (1 (cells...))            exec_print on the decoded argument list
   (3 (fmt?) (args...))      exec_print (encoded_args fmt args) *)
Definition print_entry (x : sx) : sx :=
  match x with
  | SL [SZ 1; SL cs] =>
    match map_opt cell_sx cs with
    | Some l => sx_pout (exec_print l)
    | None => sx_bad
    end
  | SL [SZ 3; SL f; SL args] =>
    match map_opt cell_sx f, map_opt parg_sx args with
    | Some fl, Some al =>
      let fmt := match fl with [c] => Some c | _ => None end in
      sx_pout (exec_print ((match fmt with Some c => [CI 3; c] | None => [] end)
                             ++ flat_map encode_arg al))
    | _, _ => sx_bad
    end
  | _ => sx_bad
  end.
