(* Debugger expression evaluation: qvm/eval.py (QvmEval.eval_lvalue, eval_var,
   read_array, read_struct, QArray.at, QStruct.get_field), Cmd.find_routine and
   the evaluation half of Cmd.do_print (qvm/dbg.py), Lvalue.type / base_type
   (qbee/expr.py) as they behave when the tree is bound to a QvmEval context,
   and BinaryOp.eval / UnaryOp.eval over such leaves (the arithmetic itself is
   Models/Fold.v: coerce_res, num_op, un_eval, bin_type, un_type).

   Faithful to the code as it is, including:
   - the routine an Lvalue is TYPED in is always the main routine (the parsed
     tree has no parent, EvaluationContext.get_node_routine returns
     main_routine), while its STORAGE is looked up in the routine of the current
     frame; QvmEval.def_letter_types is empty (DEFtype is unknown to it);
   - STATIC variables are not in QvmEval.global_vars (only DIM SHARED ones);
   - every exception other than EvalError escapes do_print (explicit DCrash).
   The evaluator only reads the machine state: it is a function of (tables,
   state, expression) and returns no state.  No proofs in this file. *)
From Coq Require Import ZArith List Bool.
From QV Require Import Sx Strs Fl Cell Machine Cpu Layout Fold.
Import ListNotations.
Open Scope Z_scope.

(* ---------- expressions (what grammar.expr parses to, function calls excluded) ---------- *)

Inductive dexpr :=
| ENum (ty : Z) (v : pyval)                                  (* NumericLiteral(value, type) *)
| EStr (s : str)                                             (* StringLiteral *)
| ELv (name : str) (idx : list dexpr) (path : list str)      (* Lvalue(base_var, array_indices, dotted_vars) *)
| EBin (op : binop) (l r : dexpr)
| EUn (op : unop) (a : dexpr)
| EParen (a : dexpr).

(* ---------- the debug section as the debugger uses it ---------- *)

Record routine := mkRoutine {
  r_start : Z;                         (* DebugRoutineRecord.start_offset / end_offset *)
  r_end : Z;
  r_params : decls;                    (* Routine.params, Routine.local_vars (insertion order) *)
  r_locals : decls;
  r_consts : list (str * option pyval) (* Routine.local_consts: name -> value of expr.eval(); None = not a plain value *)
}.

Record dbginfo := mkDI {
  d_env : renv;                        (* user_types, latest definition first (as Layout.renv) *)
  d_globals : decls;                   (* compilation.global_vars: DIM SHARED only *)
  d_gconsts : list (str * option pyval);   (* DebugInfo.global_consts: name -> (type, value) *)
  d_main : routine;                    (* main_routine (r_start / r_end unused) *)
  d_routines : list routine            (* DebugInfo.routines.values() -> node.routine, dict order *)
}.

(* ---------- results ---------- *)

(* ids of the host exceptions (tools/implfns/machfn.py CRASH + 13.. ) *)
Definition K_INDEX := 1.   Definition K_TYPE := 2.   Definition K_ATTR := 4.
Definition K_KEY := 5.     Definition K_VALUE := 6.  Definition K_OVERFLOW := 7.
Definition K_ASSERT := 9.  Definition K_STRUCT := 10.
Definition K_ZERODIV := 13. Definition K_COMPILE := 14.

Inductive dres :=
| DVal (v : pyval)       (* print(value) of an int / float / str *)
| DAgg                   (* something else is printed: QStruct, QArray, a Reference, a complex *)
| DEvalError             (* "Eval error: ..." *)
| DCrash (k : Z)         (* the exception escapes do_print *)
| DUnmodelled.

Inductive res (A : Type) :=
| Ok (a : A) | EvalErr | Crash (k : Z) | Unmod.
Arguments Ok {A}. Arguments EvalErr {A}. Arguments Crash {A}. Arguments Unmod {A}.

Definition rbind {A B} (r : res A) (f : A -> res B) : res B :=
  match r with Ok a => f a | EvalErr => EvalErr | Crash k => Crash k | Unmod => Unmod end.
Notation "'rdo' x <- m ; f" := (rbind m (fun x => f)) (at level 200, x pattern, m at level 100, f at level 200).

(* result of Expr.eval() inside the debugger *)
Inductive xres :=
| XF (r : fres)          (* as the folder: value / OverflowError / ZeroDivisionError / other exception *)
| XAgg                   (* a non-primitive Python object *)
| XEvalErr
| XCrash (k : Z).

Definition XV (v : pyval) : xres := XF (FVal v).
Definition XUn : xres := XF FUnmodelled.

Definition fkind_crash (k : fkind) : Z :=
  match k with
  | KValue => K_VALUE | KType => K_TYPE | KEval => 0 | KStruct => K_STRUCT | KOverflow => K_OVERFLOW
  | KAssert => K_ASSERT | KKey => K_KEY | KZeroDiv => K_ZERODIV
  end.

Definition dres_of (x : xres) : dres :=
  match x with
  | XF (FVal v) => DVal v
  | XF FComplex => DAgg
  | XF FOverflow => DCrash K_OVERFLOW
  | XF FZeroDiv => DCrash K_ZERODIV
  | XF (FCrash KEval) => DEvalError
  | XF (FCrash k) => DCrash (fkind_crash k)
  | XF FUnmodelled => DUnmodelled
  | XAgg => DAgg
  | XEvalErr => DEvalError
  | XCrash k => DCrash k
  end.

(* ---------- tables ---------- *)

Fixpoint assoc {A} (l : list (str * A)) (n : str) : option A :=
  match l with
  | [] => None
  | (k, a) :: r => if str_eqb n k then Some a else assoc r n
  end.

Definition has_key {A} (l : list (str * A)) (n : str) : bool :=
  match assoc l n with Some _ => true | None => false end.

(* Cmd.find_routine(addr): the first routine record whose code range holds
   addr, else the main routine *)
Fixpoint find_in (rs : list routine) (addr : Z) : option routine :=
  match rs with
  | [] => None
  | r :: rest => if (r_start r <=? addr) && (addr <? r_end r) then Some r else find_in rest addr
  end.

Definition find_routine (di : dbginfo) (addr : Z) : routine :=
  match find_in (d_routines di) addr with Some r => r | None => d_main di end.

(* Type.from_type_char(identifier[-1]) *)
Definition suffix_type (n : str) : option Z :=
  match rev n with
  | c :: _ =>
    if c =? ch_pct then Some 1 else if c =? ch_amp then Some 2 else if c =? ch_bang then Some 3
    else if c =? ch_hash then Some 4 else if c =? 36 then Some 5 else None
  | [] => None
  end.

(* Lvalue.base_type = parent_routine.get_variable(base_var).type with
   parent_routine = the MAIN routine and context.def_letter_types = {} *)
Definition main_type (di : dbginfo) (n : str) : ty :=
  match assoc (r_params (d_main di)) n with
  | Some t => t
  | None =>
    match assoc (r_locals (d_main di)) n with
    | Some t => t
    | None =>
      match assoc (d_globals di) n with
      | Some t => t
      | None => match suffix_type n with Some k => TBuiltin k | None => TBuiltin 3 end
      end
    end
  end.

(* type codes of Fold (0 UNKNOWN, 1..5) extended with 6 = user defined
   (record, array of records), 7 = array of a builtin type *)
Definition ty_code (t : ty) : Z :=
  match t with
  | TBuiltin k => k
  | _ => match user_type_name t with Some _ => 6 | None => 7 end
  end.

(* the dotted part of Lvalue.type: None = CompileError *)
Fixpoint path_type (env : renv) (t : ty) (path : list str) : option ty :=
  match path with
  | [] => Some t
  | f :: rest =>
    match user_type_name t with
    | None => None
    | Some n =>
      match lookup_rec env n with
      | None => None
      | Some (fs, _) =>
        match assoc fs f with
        | None => None
        | Some ft => path_type env ft rest
        end
      end
    end
  end.

Definition lv_type (di : dbginfo) (n : str) (has_idx : bool) (path : list str) : option Z :=
  let bt := main_type di n in
  let t1 := match bt with
            | TArray _ e => if has_idx then e else bt
            | TDynArray e => if has_idx then e else bt
            | _ => bt
            end in
  option_map ty_code (path_type (d_env di) t1 path).

(* BinaryOp.type on the extended codes *)
Definition dbin_type (op : binop) (lt rt : Z) : Z :=
  if ((lt =? 6) || (rt =? 6)) && negb (is_logical op) && negb (is_cmp op) then TU
  else bin_type op lt rt.

Definition is_nil {A} (l : list A) : bool := match l with [] => true | _ => false end.

(* Expr.type; None = CompileError raised by an Lvalue below *)
Fixpoint dtype (di : dbginfo) (e : dexpr) : option Z :=
  match e with
  | ENum ty _ => Some ty
  | EStr _ => Some 5
  | ELv n idx path => lv_type di n (negb (is_nil idx)) path
  | EBin op l r =>
    match dtype di l with
    | None => None
    | Some lt => match dtype di r with None => None | Some rt => Some (dbin_type op lt rt) end
    end
  | EUn op a => option_map (un_type op) (dtype di a)
  | EParen a => dtype di a
  end.

(* ---------- reading machine memory ---------- *)

(* segment.get_cell(idx): IndexError outside the segment *)
Definition get_cell (h : list seg) (g i : Z) : res (option cell) :=
  match nthZ h g with
  | None => Unmod
  | Some sg => match nthZ (s_cells sg) i with Some c => Ok c | None => Crash K_INDEX end
  end.

(* QvmEval.eval_var: (segment, index) of the base variable *)
Definition eval_var (di : dbginfo) (R : routine) (frame : Z) (n : str) : res (Z * Z) :=
  let local_ :=
    match local_var_idx (d_env di) (r_params R) (r_locals R) n with
    | Some i => Ok (frame, i)
    | None => EvalErr                           (* KeyError -> EvalError('Unknown variable') *)
    end in
  if has_key (d_globals di) n then
    match global_var_idx (d_env di) (d_globals di) n with
    | Some i => Ok (0, i)
    | None => local_                            (* except KeyError: pass *)
    end
  else local_.

(* values held by structs and array cells *)
Inductive sval :=
| SV (v : pyval)
| SObj                                          (* a Reference object *)
| SRec (fs : list (str * sval)).

Definition cell_sval (c : cell) : sval :=
  match c with
  | CI z | CL z => SV (PInt z)
  | CS f | CD f => SV (PFlt f)
  | CStr s => SV (PStrV s)
  | CRef _ _ => SObj
  end.

(* field_type.py_type(0) for numeric fields, '' otherwise *)
Definition default_val (t : ty) : pyval :=
  match t with
  | TBuiltin 1 | TBuiltin 2 => PInt 0
  | TBuiltin 3 | TBuiltin 4 => PFlt (fzero false)
  | _ => PStrV []
  end.

(* the loop over struct.fields.items() of read_struct: [rd] reads a nested
   record, [sz] = get_type_size *)
Fixpoint read_fields (h : list seg) (rd : str -> Z -> res sval) (sz : ty -> option Z) (g : Z)
                     (fs : fields) (idx : Z) : res (list (str * sval)) :=
  match fs with
  | [] => Ok []
  | (f, t) :: r =>
    rdo v <- match t with
             | TRecord m => rd m idx
             | _ => rdo c <- get_cell h g idx;
                    Ok (match c with Some c' => cell_sval c' | None => SV (default_val t) end)
             end;
    match sz t with
    | None => Crash K_KEY
    | Some n => rdo rest <- read_fields h rd sz g r (idx + n); Ok ((f, v) :: rest)
    end
  end.

(* QvmEval.read_struct(segment, base_idx, struct_type): every field is read *)
Fixpoint read_struct (h : list seg) (env : renv) (n : str) (g base : Z) : res sval :=
  match env with
  | [] => Crash K_KEY                            (* self.user_types[struct_type.name] *)
  | (n', fs) :: env' =>
    if str_eqb n n' then
      rdo l <- read_fields h (fun m i => read_struct h env' m g i) (type_size env') g fs base;
      Ok (SRec l)
    else read_struct h env' n g base
  end.

(* QStruct.get_field(fields...) *)
Fixpoint get_field (v : sval) (path : list str) : res sval :=
  match path with
  | [] => Ok v
  | f :: rest =>
    match v with
    | SRec fs =>
      match assoc fs f with
      | None => EvalErr                          (* No such field *)
      | Some fv =>
        match rest with
        | [] => Ok fv
        | _ => match fv with
               | SRec _ => get_field fv rest
               | _ => EvalErr                    (* Attempting to read field from non-struct *)
               end
        end
      end
    | _ => EvalErr
    end
  end.

(* the nested lists built by read_array *)
Inductive atree :=
| ACell (c : option cell)
| ARec (s : sval)
| ANode (l : list atree).

(* for _ in range(lbound, ubound + 1): sub_array = read(base_idx); base_idx += stride *)
Fixpoint read_loop (rd : Z -> res atree) (stride : Z) (n : nat) (b : Z) : res (list atree) :=
  match n with
  | O => Ok []
  | S n' => rdo x <- rd b; rdo r <- read_loop rd stride n' (b + stride); Ok (x :: r)
  end.

(* read_sub_array: one list per index of the first remaining dimension; the
   base index advances by prod(remaining dimension sizes) * element_size *)
Fixpoint read_sub (leaf : Z -> res atree) (es : Z) (bs : list (Z * Z)) (base : Z) : res atree :=
  match bs with
  | [] => leaf base
  | (lb, ub) :: bs' =>
    rdo l <- read_loop (read_sub leaf es bs') (prod_list (dims bs') * es) (Z.to_nat (ub - lb + 1)) base;
    Ok (ANode l)
  end.

Definition cell_int (c : option cell) : res Z :=
  match c with
  | Some (CI z) | Some (CL z) => Ok z
  | Some _ => Unmod
  | None => Crash K_ATTR                         (* None.value *)
  end.

(* the (lbound, ubound) pairs of the header *)
Fixpoint read_bounds (h : list seg) (g : Z) (n : nat) (b : Z) : res (list (Z * Z)) :=
  match n with
  | O => Ok []
  | S n' =>
    rdo cl <- get_cell h g b; rdo lb <- cell_int cl;
    rdo cu <- get_cell h g (b + 1); rdo ub <- cell_int cu;
    rdo r <- read_bounds h g n' (b + 2);
    Ok ((lb, ub) :: r)
  end.

(* QvmEval.read_array(segment, base_idx, element_type) -> (nested lists, bounds) *)
Definition read_array (h : list seg) (env : renv) (elem : ty) (g base : Z) : res (atree * list (Z * Z)) :=
  rdo c1 <- get_cell h g (base + 1);
  match c1 with
  | None => EvalErr                              (* Array not initialized *)
  | Some _ =>
    rdo nd <- cell_int c1;
    rdo c2 <- get_cell h g (base + 2);
    rdo es <- cell_int c2;
    rdo bs <- read_bounds h g (Z.to_nat nd) (base + 3);
    match bs with
    | [] => Crash K_INDEX                        (* bounds[0] *)
    | _ =>
      let leaf := fun b =>
        match elem with
        | TRecord m => rdo s <- read_struct h env m g b; Ok (ARec s)
        | _ => rdo c <- get_cell h g b; Ok (ACell c)
        end in
      rdo t <- read_sub leaf es bs (base + 3 + 2 * Z.of_nat (length bs));
      Ok (t, bs)
    end
  end.

(* QArray.at(indices...) after the length check: the nested function arridx *)
Fixpoint arr_at (t : atree) (idxs : list Z) (bs : list (Z * Z)) : res atree :=
  match idxs, bs with
  | i :: rest, (lb, ub) :: bs' =>
    if (i <? lb) || (i >? ub) then EvalErr
    else match t with
         | ANode l =>
           match nth_error l (Z.to_nat (i - lb)) with
           | None => Crash K_INDEX
           | Some t' => match rest with [] => Ok t' | _ => arr_at t' rest bs' end
           end
         | _ => Crash K_TYPE
         end
  | _, _ => Unmod
  end.

Definition array_at (elem : ty) (t : atree) (bs : list (Z * Z)) (idxs : list Z) : res sval :=
  if negb (Nat.eqb (length idxs) (length bs)) then EvalErr      (* Incorrect number of array indices *)
  else
    rdo x <- arr_at t idxs bs;
    match x with
    | ACell None => Ok (SV (default_val elem))
    | ACell (Some c) => Ok (cell_sval c)
    | ARec s => Ok s
    | ANode _ => Ok SObj
    end.

(* indices[i] = int(round(indices[i])) for numbers, EvalError otherwise *)
Definition index_of (v : pyval) : res Z :=
  match v with
  | PInt z => Ok z
  | PFlt FNaN => Crash K_VALUE
  | PFlt (FInf _) => Crash K_OVERFLOW
  | PFlt f => match fround f with Some z => Ok z | None => Unmod end
  | PStrV _ => EvalErr
  end.

(* the list comprehension [i.eval() for i in array_indices]: the first
   exception propagates *)
Fixpoint idx_values (l : list xres) : res (list (option pyval)) :=
  match l with
  | [] => Ok []
  | x :: r =>
    rdo v <- match x with
             | XF (FVal v) => Ok (Some v)
             | XAgg | XF FComplex => Ok None
             | XEvalErr | XF (FCrash KEval) => EvalErr
             | XCrash k => Crash k
             | XF FOverflow => Crash K_OVERFLOW
             | XF FZeroDiv => Crash K_ZERODIV
             | XF (FCrash k) => Crash (fkind_crash k)
             | XF FUnmodelled => Unmod
             end;
    rdo rest <- idx_values r; Ok (v :: rest)
  end.

Fixpoint idx_ints (l : list (option pyval)) : res (list Z) :=
  match l with
  | [] => Ok []
  | Some v :: r => rdo z <- index_of v; rdo rest <- idx_ints r; Ok (z :: rest)
  | None :: _ => EvalErr                          (* not a Number *)
  end.

Definition xres_of_sval (r : res sval) : xres :=
  match r with
  | Ok (SV v) => XV v
  | Ok _ => XAgg
  | EvalErr => XEvalErr
  | Crash k => XCrash k
  | Unmod => XUn
  end.

Section Eval.
Variable di : dbginfo.
Variable s : st.

(* cpu.cur_frame and its code_start *)
Definition frame_info : res (Z * Z) :=
  match cur s with
  | None => Crash K_ATTR                         (* None.code_start *)
  | Some g =>
    match nthZ (heap s) g with
    | Some sg => match s_kind sg with SFrame _ cs _ _ => Ok (g, cs) | _ => Unmod end
    | None => Unmod
    end
  end.

(* QvmEval.eval_lvalue; [idxr] = the results of evaluating the index expressions *)
Definition eval_lvalue (n : str) (idxr : list xres) (path : list str) : xres :=
  match frame_info with
  | EvalErr => XEvalErr | Crash k => XCrash k | Unmod => XUn
  | Ok (g, cs) =>
    let R := find_routine di cs in
    let has_idx := negb (is_nil idxr) in
    let lc := assoc (r_consts R) n in
    let gc := assoc (d_gconsts di) n in
    let is_c := match lc, gc with None, None => false | _, _ => true end in
    if is_c && (has_idx || negb (is_nil path)) then XCrash K_VALUE
    else
    match lc with
    | Some (Some v) => XV v
    | Some None => XUn
    | None =>
    match gc with
    | Some (Some v) => XV v
    | Some None => XUn
    | None =>
      let bt := main_type di n in
      match eval_var di R g n with
      | EvalErr => XEvalErr | Crash k => XCrash k | Unmod => XUn
      | Ok (g0, i0) =>
        match get_cell (heap s) g0 i0 with
        | EvalErr => XEvalErr | Crash k => XCrash k | Unmod => XUn
        | Ok c0 =>
          (* one reference is followed *)
          let followed :=
            match c0 with
            | Some (CRef g1 i1) => rdo c1 <- get_cell (heap s) g1 i1; Ok (g1, i1, c1)
            | _ => Ok (g0, i0, c0)
            end in
          match followed with
          | EvalErr => XEvalErr | Crash k => XCrash k | Unmod => XUn
          | Ok (g1, i1, c1) =>
            match bt with
            | TBuiltin _ =>
              match c1 with
              | None => XEvalErr                 (* does not have a value yet *)
              | Some c => xres_of_sval (Ok (cell_sval c))
              end
            | TArray _ elem | TDynArray elem =>
              xres_of_sval (
                rdo ab <- read_array (heap s) (d_env di) elem g1 i1;
                let '(t, bs) := ab in
                if has_idx then
                  rdo vals <- idx_values idxr;
                  rdo ints <- idx_ints vals;
                  rdo v <- array_at elem t bs ints;
                  match path with
                  | [] => Ok v
                  | _ => match v with SRec _ => get_field v path | _ => EvalErr end
                  end
                else
                  match path with
                  | [] => Ok SObj
                  | _ => EvalErr                 (* Cannot read a field from a non-struct value *)
                  end)
            | TRecord m =>
              xres_of_sval (
                rdo v <- read_struct (heap s) (d_env di) m g1 i1;
                if has_idx then EvalErr          (* Cannot read an array element from a struct *)
                else get_field v path)
            end
          end
        end
      end
    end
    end
  end.

Definition xbind (x : xres) (k : fres -> xres) : xres :=
  match x with
  | XF r => k r
  | XAgg => XUn
  | _ => x
  end.

(* continue only with a plain value *)
Definition vbind (r : fres) (k : pyval -> xres) : xres :=
  match r with FVal v => k v | _ => XF r end.

(* Expr.eval() on a tree bound to the QvmEval context *)
Fixpoint deval (e : dexpr) : xres :=
  match e with
  | ENum ty v => XF (py_type_conv ty v)
  | EStr t => XV (PStrV t)
  | EParen a => deval a
  | ELv n idx path =>
    eval_lvalue n (map deval idx) path
  | EUn op a =>
    match dtype di a with
    | None => XCrash K_COMPILE
    | Some aty =>
      if negb (is_num aty) then XEvalErr
      else xbind (deval a) (fun r => XF (un_eval op aty r))
    end
  | EBin op l r =>
    match dtype di l with
    | None => XCrash K_COMPILE
    | Some lt =>
      if is_num lt then
        match dtype di r with
        | None => XCrash K_COMPILE
        | Some rt =>
          if is_num rt then
            let T := dbin_type op lt rt in
            xbind (deval l) (fun rl => vbind (coerce_res T rl) (fun a =>
            xbind (deval r) (fun rr => vbind (coerce_res T rr) (fun b =>
            XF (num_op op lt T a b)))))
          else XEvalErr
        end
      else if lt =? 5 then
        match dtype di r with
        | None => XCrash K_COMPILE
        | Some rt =>
          if rt =? 5 then
            (* _eval_string: left.eval() + right.eval() *)
            match deval l with
            | XF (FVal a) =>
              match deval r with
              | XF (FVal b) =>
                match a, b with
                | PStrV x, PStrV y => XV (PStrV (x ++ y))
                | PStrV _, _ | _, PStrV _ => XCrash K_TYPE       (* str + number *)
                | PInt x, PInt y => XV (PInt (x + y))            (* numbers under a STRING static type *)
                | PFlt x, PFlt y => XV (PFlt (fadd x y))
                | _, _ => XUn
                end
              | XAgg => XUn
              | x => x
              end
            | XAgg => XUn
            | x => x
            end
          else XEvalErr
        end
      else XEvalErr                              (* non-primitive values *)
    end
  end.

(* Cmd.do_print after a successful parse *)
Definition dbg_print (e : dexpr) : dres := dres_of (deval e).

End Eval.
