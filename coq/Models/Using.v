(* Model of qvm/using.py (PrintUsingFormatter): the format-string scanner
   (parse_format = parse_format_string + parse_numeric_format_string), the
   field renderer (render_num = format_number, render = format) and the pieces
   of Python's format() mini-language it uses ('{:}', '{:,}', '{:.Nf}',
   '{:,.Nf}' on int and float).  Faithful to the code including its defects
   (DESIGN.md D16, D24): compared on every run of ./check C19 with the real
   class - scanner result, text and host exception (tools/props/c19.py).
   The only addition is the ghost field o_frac, which the renderer never reads. *)
From Coq Require Import ZArith List Bool Lia.
From QV Require Import Sx Strs Fl Dec.
Import ListNotations.
Open Scope Z_scope.

(* a value handed to the formatter *)
Inductive uval := UInt (z : Z) | UFlt (f : fl) | UStr (s : str).

Inductive ucrash := UIndexError | URuntimeError | UTypeError | UOverflowError | UValueError.
Inductive ures := UOk (s : str) | UCrash (k : ucrash).

Record numopts := {
  o_sign : option (bool * Z);        (* (at_end, sign char) *)
  o_comma : bool;
  o_decpt : option Z;                (* value of "sharps" when the dot was seen *)
  o_real : Z;
  o_frac : Z;                        (* GHOST (not in the code, never read by the
                                        renderer): number of '#' after the point;
                                        used by the specification and the guard *)
}.

Inductive upart :=
| PNon (s : str)
| PStrF (c : Z)
| PNumF (width : Z) (o : numopts).

Definition is_pm (c : Z) : bool := (c =? ch_plus) || (c =? ch_minus).

(* parse_numeric_format_string's main loop, after the optional leading sign.
   Returns (chars consumed in the loop, sharps, options). *)
Fixpoint num_loop (s : str) (lead_sign : bool) (n sharps real frac : Z)
         (sign : option (bool * Z)) (comma : bool) (decpt : option Z)
  : Z * Z * numopts :=
  let mk sign := {| o_sign := sign; o_comma := comma; o_decpt := decpt;
                    o_real := real; o_frac := frac |} in
  let fin := (n, sharps, mk sign) in
  match s with
  | [] => fin
  | c :: r =>
    if negb lead_sign && is_pm c then (n + 1, sharps + 1, mk (Some (true, c)))
    else if c =? ch_hash then
      num_loop r lead_sign (n + 1) (sharps + 1) (real + 1)
               (match decpt with Some _ => frac + 1 | None => frac end) sign comma decpt
    else if c =? ch_comma then num_loop r lead_sign (n + 1) (sharps + 1) real frac sign true decpt
    else if c =? ch_dot then
      match decpt with
      | Some _ => fin
      | None => num_loop r lead_sign (n + 1) (sharps + 1) real frac sign comma (Some (sharps + 1))
      end
    else fin
  end.

Definition parse_numeric (s : str) : Z * Z * numopts :=
  match s with
  | c :: r =>
    if is_pm c then num_loop r true 1 1 0 0 (Some (false, c)) false None
    else num_loop s false 0 0 0 0 None false None
  | [] => num_loop s false 0 0 0 0 None false None
  end.

Fixpoint drop (n : nat) (s : str) : str :=
  match n, s with
  | O, _ => s
  | S n', _ :: r => drop n' r
  | S _, [] => []
  end.

Definition flush (nf : str) (acc : list upart) : list upart :=
  match nf with [] => acc | _ => PNon (rev nf) :: acc end.

(* parse_format_string.  [nf] is the pending literal text (reversed), [acc]
   the parts so far (reversed).  None = IndexError (format ends in "_"). *)
Fixpoint scan (fuel : nat) (s : str) (nf : str) (acc : list upart) (redo : bool)
  : option (list upart) :=
  match fuel with
  | O => Some (rev (flush nf acc))
  | S f =>
    match s with
    | [] => Some (rev (flush nf acc))
    | c :: r =>
      let second (s : str) (nf : str) (acc : list upart) :=
        match s with
        | [] => Some (rev (flush nf acc))
        | c :: r =>
          if (c =? ch_amp) || (c =? ch_bang) then scan f r [] (PStrF c :: flush nf acc) false
          else if c =? ch_us then
            match r with
            | d :: r' => scan f r' (d :: nf) acc false
            | [] => None
            end
          else scan f r (c :: nf) acc false
        end in
      if ((c =? ch_hash) || is_pm c) && negb redo then
        let acc1 := flush nf acc in
        let '(n, sharps, o) := parse_numeric s in
        if o_real o =? 0 then scan f s [] acc1 true
        else second (drop (Z.to_nat n) s) [] (PNumF sharps o :: acc1)
      else second s nf acc
    end
  end.

Definition parse_format (s : str) : option (list upart) :=
  scan (S (2 * length s)) s [] [] false.

(* ---- Python format() ---- *)

Fixpoint group3_rev (s : str) (cnt : nat) : str :=
  match s with
  | [] => []
  | c :: r => match cnt with
              | 3%nat => ch_comma :: c :: group3_rev r 1
              | _ => c :: group3_rev r (S cnt)
              end
  end.

(* insert thousands separators into a digit string *)
Definition group3 (s : str) : str := rev (group3_rev (rev s) 0).

Fixpoint span_digits (s : str) : str * str :=
  match s with
  | c :: r => if is_digit c then let '(a, b) := span_digits r in (c :: a, b) else ([], s)
  | [] => ([], [])
  end.

(* apply grouping to the leading digit run (integer part) *)
Definition group_int_part (s : str) : str :=
  let '(a, b) := span_digits s in group3 a ++ b.

Definition pad_zeros (n : Z) (s : str) : str :=
  repeat ch_0 (Z.to_nat (n - Z.of_nat (length s))) ++ s.

(* '{:.<prec>f}'.format(x) for x >= 0 *)
Definition py_fixed (x : fl) (prec : Z) : str :=
  match x with
  | FNaN => s_nan
  | FInf _ => s_inf
  | FFin _ m e =>
    let '(N, q) := if m <=? 0 then (0, 0) else exact_dec m e in
    let s := q + prec in
    let D := if s >=? 0 then N * 10 ^ s
             else let p := 10 ^ (- s) in
                  let d := N / p in
                  let r := N - d * p in
                  if 2 * r >? p then d + 1 else if 2 * r <? p then d
                  else if Z.odd d then d + 1 else d in
    let ds := pad_zeros (prec + 1) (nat_digits D) in
    let ip := firstn (length ds - Z.to_nat prec) ds in
    let fp := skipn (length ds - Z.to_nat prec) ds in
    if prec <=? 0 then ip else ip ++ [ch_dot] ++ fp
  end.

Definition py_format_num (v : uval) (comma : bool) (prec : option Z) : ures :=
  match v with
  | UStr _ => UCrash UTypeError
  | UInt z =>
    let a := Z.abs z in
    match prec with
    | None => UOk (if comma then group3 (nat_digits a) else nat_digits a)
    | Some p => let s := py_fixed (of_Z a) p in
                UOk (if comma then group_int_part s else s)
    end
  | UFlt f =>
    let a := fabs f in
    match prec with
    | None => let s := py_repr a in UOk (if comma then group_int_part s else s)
    | Some p => let s := py_fixed a p in UOk (if comma then group_int_part s else s)
    end
  end.

Definition uval_neg (v : uval) : bool :=
  match v with
  | UInt z => z <? 0
  | UFlt (FFin n m _) => n && negb (m <=? 0)
  | UFlt (FInf n) => n
  | _ => false
  end.

Definition zlen (s : str) : Z := Z.of_nat (length s).

(* PrintUsingFormatter.format_number *)
Definition render_num (width : Z) (o : numopts) (v : uval) : ures :=
  match v with
  | UStr _ => UCrash UTypeError
  | _ =>
    let prec := match o_decpt o with Some d => Some (width - d) | None => None end in
    match py_format_num v (o_comma o) prec with
    | UCrash k => UCrash k
    | UOk body =>
      let '(at_end, sign_type) := match o_sign o with Some p => p | None => (false, ch_minus) end in
      let neg := uval_neg v in
      let sign := if sign_type =? ch_minus then (if neg then ch_minus else ch_space)
                  else (if neg then ch_minus else ch_plus) in
      let r1 := if at_end then
                  (if sign =? ch_minus then body ++ [sign] else ch_space :: body ++ [sign])
                else sign :: body in
      let r2 := if zlen r1 <? width then spaces (Z.to_nat (width - zlen r1)) ++ r1 else r1 in
      let r3 := if (sign =? ch_space) && (zlen r2 >? width) then
                  (if at_end then removelast r2 else tl r2)
                else r2 in
      UOk (if zlen r3 >? width then ch_pct :: r3 else r3)
    end
  end.

(* PrintUsingFormatter.format *)
Fixpoint render (parts : list upart) (nparts : Z) (vals : list uval) (i : Z) (out : str) : ures :=
  match parts with
  | [] => match vals with [] => UOk out | _ => UCrash URuntimeError end
  | PNon s :: r => render r nparts vals i (out ++ s)
  | PStrF c :: r =>
    if i >=? nparts then UCrash URuntimeError else
    match vals with
    | [] => UCrash UIndexError
    | UStr s :: vs =>
      if c =? ch_bang then
        match s with
        | [] => UCrash UIndexError
        | d :: _ => render r nparts vs (i + 1) (out ++ [d])
        end
      else render r nparts vs (i + 1) (out ++ s)
    | _ :: _ => UCrash URuntimeError
    end
  | PNumF w o :: r =>
    if i >=? nparts then UCrash URuntimeError else
    match vals with
    | [] => UCrash UIndexError
    | v :: vs =>
      match render_num w o v with
      | UOk s => render r nparts vs (i + 1) (out ++ s)
      | UCrash k => UCrash k
      end
    end
  end.

Definition using_format (fmt : str) (vals : list uval) : ures :=
  match parse_format fmt with
  | None => UCrash UIndexError
  | Some parts => render parts (zlen (map (fun _ => 0) parts)) vals 0 []
  end.
