(* Executable model of the QVM (qvm/cpu.py + the devices of qvm/machine.py).
   Faithful to the Python including its host exceptions, which are explicit
   outcomes here.  No proofs in this file. *)
From Coq Require Import ZArith List Bool Lia.
From QV Require Import Sx Strs Fl Dec NumFmt Cell Using Print.
Import ListNotations.
Open Scope Z_scope.

(* ---------- static module ---------- *)

Inductive ditem := DEmpty | DText (s : str).

Record module := mkModule {
  m_code : list Z;                         (* bytes *)
  m_literals : list str;
  m_data : list (list ditem);
  m_nglobals : Z;
  m_stmts : option (list (Z * Z));         (* debug records (start, end), sorted as DebugInfo.stmts; None = no debug info *)
}.

(* ---------- trap codes (qvm/trap.py) ---------- *)
Definition T_INVALID_OP_CODE := 1.
Definition T_DEVICE_NOT_AVAILABLE := 2.
Definition T_DEVICE_ERROR := 3.
Definition T_STACK_EMPTY := 4.
Definition T_INVALID_VAR_IDX := 5.
Definition T_TYPE_MISMATCH := 7.
Definition T_NULL_REFERENCE := 8.
Definition T_INVALID_OPERAND_VALUE := 9.
Definition T_INVALID_CELL_VALUE := 10.
Definition T_INDEX_OUT_OF_RANGE := 11.
Definition T_INVALID_DIMENSIONS := 12.
Definition T_KEYBOARD_INTERRUPT := 13.
Definition T_DIVISION_BY_ZERO := 14.
Definition T_UNINITIALIZED_MEM := 15.
Definition T_NO_RESUME := 16.
Definition T_ERRHAND_IN_HANDLER := 17.
Definition T_CANNOT_RESUME := 18.

(* HaltReason *)
Definition H_NONE := 1.
Definition H_INSTRUCTION := 2.
Definition H_TRAP := 3.
Definition H_END_OF_CODE := 4.

(* host exceptions *)
Inductive crash :=
| CrIndex | CrType | CrName | CrAttr | CrKey | CrValue | CrOverflow | CrRuntime
| CrAssert | CrStruct | CrTrapped | CrUnboundLocal | CrSyntax | CrPowUnknown.

Definition crash_id (k : crash) : Z :=
  match k with
  | CrIndex => 1 | CrType => 2 | CrName => 3 | CrAttr => 4 | CrKey => 5 | CrValue => 6
  | CrOverflow => 7 | CrRuntime => 8 | CrAssert => 9 | CrStruct => 10 | CrTrapped => 11
  | CrUnboundLocal => 12 | CrSyntax => 13 | CrPowUnknown => 99
  end.

(* ---------- memory ---------- *)

Inductive segkind :=
| SGlobals
| SFrame (prev : option Z) (code_start ret_addr orig_size : Z)
| SArray.

Record seg := mkSeg { s_cells : list (option cell); s_kind : segkind }.

Inductive ttarget := TNone | TNext | TAddr (a : Z).

(* an observable device call: impl method id and canonical arguments *)
Record event := mkEv { ev_id : Z; ev_args : list sx }.

Record script := mkScript {
  sc_lines : list str;
  sc_rnd : list fl;
  sc_timer : list fl;
  sc_inkey : list str;
}.

Record st := mkSt {
  pc : Z;
  prev_pc : Z;
  stack : list cell;                 (* head = top *)
  heap : list seg;                   (* segment id = position; 0 = globals *)
  cur : option Z;                    (* current frame segment id *)
  halted : bool;
  reason : Z;
  last_trap : option Z;
  last_kw_ok : bool;                 (* can _trap print the kwargs of the last trap? *)
  ttarget_ : ttarget;
  handler_active : bool;
  trapped_addr : Z;
  irq : bool;
  data_part : Z;
  data_idx : Z;
  last_rnd : option fl;
  scr : script;
  events : list event;               (* most recent first *)
}.

Definition init_state (m : module) (sc : script) : st :=
  {| pc := 0; prev_pc := 0; stack := [];
     heap := [mkSeg (repeat None (Z.to_nat (m_nglobals m))) SGlobals];
     cur := None; halted := false; reason := H_NONE; last_trap := None; last_kw_ok := true;
     ttarget_ := TNone; handler_active := false; trapped_addr := 0; irq := false;
     data_part := 0; data_idx := 0; last_rnd := None; scr := sc; events := [] |}.

(* ---------- outcome monad ---------- *)

Inductive out (A : Type) :=
| R (a : A) (s : st)
| T (code : Z) (kw_ok : bool) (s : st)      (* Trapped raised *)
| ZD (s : st)                                (* ZeroDivisionError *)
| X (k : crash) (s : st)                     (* any other host exception *)
| NI (s : st).                               (* scripted input exhausted (harness condition) *)
Arguments R {A}. Arguments T {A}. Arguments ZD {A}. Arguments X {A}. Arguments NI {A}.

Definition M (A : Type) := st -> out A.

Definition ret {A} (a : A) : M A := fun s => R a s.
Definition bind {A B} (m : M A) (f : A -> M B) : M B :=
  fun s => match m s with
           | R a s' => f a s'
           | T c k s' => T c k s'
           | ZD s' => ZD s'
           | X k s' => X k s'
           | NI s' => NI s'
           end.
Notation "'do' x <- m ; f" := (bind m (fun x => f)) (at level 200, x pattern, m at level 100, f at level 200).
Notation "m ;; f" := (bind m (fun _ => f)) (at level 199, right associativity).

Definition trap {A} (code : Z) : M A := fun s => T code true s.
Definition trap_badkw {A} (code : Z) : M A := fun s => T code false s.
Definition crashM {A} (k : crash) : M A := fun s => X k s.
Definition get : M st := fun s => R s s.
Definition put (s' : st) : M unit := fun _ => R tt s'.

Definition upd_stack (f : list cell -> list cell) : M unit :=
  fun s => R tt (mkSt (pc s) (prev_pc s) (f (stack s)) (heap s) (cur s) (halted s) (reason s)
                      (last_trap s) (last_kw_ok s) (ttarget_ s) (handler_active s)
                      (trapped_addr s) (irq s) (data_part s) (data_idx s) (last_rnd s)
                      (scr s) (events s)).

Definition set_stack (s : st) (l : list cell) : st :=
  mkSt (pc s) (prev_pc s) l (heap s) (cur s) (halted s) (reason s)
       (last_trap s) (last_kw_ok s) (ttarget_ s) (handler_active s)
       (trapped_addr s) (irq s) (data_part s) (data_idx s) (last_rnd s) (scr s) (events s).
Definition set_pc (s : st) (p : Z) : st :=
  mkSt p (prev_pc s) (stack s) (heap s) (cur s) (halted s) (reason s)
       (last_trap s) (last_kw_ok s) (ttarget_ s) (handler_active s)
       (trapped_addr s) (irq s) (data_part s) (data_idx s) (last_rnd s) (scr s) (events s).
Definition set_prev_pc (s : st) (p : Z) : st :=
  mkSt (pc s) p (stack s) (heap s) (cur s) (halted s) (reason s)
       (last_trap s) (last_kw_ok s) (ttarget_ s) (handler_active s)
       (trapped_addr s) (irq s) (data_part s) (data_idx s) (last_rnd s) (scr s) (events s).
Definition set_heap (s : st) (h : list seg) : st :=
  mkSt (pc s) (prev_pc s) (stack s) h (cur s) (halted s) (reason s)
       (last_trap s) (last_kw_ok s) (ttarget_ s) (handler_active s)
       (trapped_addr s) (irq s) (data_part s) (data_idx s) (last_rnd s) (scr s) (events s).
Definition set_cur (s : st) (c : option Z) : st :=
  mkSt (pc s) (prev_pc s) (stack s) (heap s) c (halted s) (reason s)
       (last_trap s) (last_kw_ok s) (ttarget_ s) (handler_active s)
       (trapped_addr s) (irq s) (data_part s) (data_idx s) (last_rnd s) (scr s) (events s).
Definition set_halt (s : st) (h : bool) (r : Z) : st :=
  mkSt (pc s) (prev_pc s) (stack s) (heap s) (cur s) h r
       (last_trap s) (last_kw_ok s) (ttarget_ s) (handler_active s)
       (trapped_addr s) (irq s) (data_part s) (data_idx s) (last_rnd s) (scr s) (events s).
Definition set_last_trap (s : st) (t : option Z) (kw : bool) : st :=
  mkSt (pc s) (prev_pc s) (stack s) (heap s) (cur s) (halted s) (reason s)
       t kw (ttarget_ s) (handler_active s)
       (trapped_addr s) (irq s) (data_part s) (data_idx s) (last_rnd s) (scr s) (events s).
Definition set_ttarget (s : st) (t : ttarget) : st :=
  mkSt (pc s) (prev_pc s) (stack s) (heap s) (cur s) (halted s) (reason s)
       (last_trap s) (last_kw_ok s) t (handler_active s)
       (trapped_addr s) (irq s) (data_part s) (data_idx s) (last_rnd s) (scr s) (events s).
Definition set_handler_active (s : st) (b : bool) : st :=
  mkSt (pc s) (prev_pc s) (stack s) (heap s) (cur s) (halted s) (reason s)
       (last_trap s) (last_kw_ok s) (ttarget_ s) b
       (trapped_addr s) (irq s) (data_part s) (data_idx s) (last_rnd s) (scr s) (events s).
Definition set_trapped_addr (s : st) (a : Z) : st :=
  mkSt (pc s) (prev_pc s) (stack s) (heap s) (cur s) (halted s) (reason s)
       (last_trap s) (last_kw_ok s) (ttarget_ s) (handler_active s)
       a (irq s) (data_part s) (data_idx s) (last_rnd s) (scr s) (events s).
Definition set_irq (s : st) (b : bool) : st :=
  mkSt (pc s) (prev_pc s) (stack s) (heap s) (cur s) (halted s) (reason s)
       (last_trap s) (last_kw_ok s) (ttarget_ s) (handler_active s)
       (trapped_addr s) b (data_part s) (data_idx s) (last_rnd s) (scr s) (events s).
Definition set_data (s : st) (p i : Z) : st :=
  mkSt (pc s) (prev_pc s) (stack s) (heap s) (cur s) (halted s) (reason s)
       (last_trap s) (last_kw_ok s) (ttarget_ s) (handler_active s)
       (trapped_addr s) (irq s) p i (last_rnd s) (scr s) (events s).
Definition set_last_rnd (s : st) (r : option fl) : st :=
  mkSt (pc s) (prev_pc s) (stack s) (heap s) (cur s) (halted s) (reason s)
       (last_trap s) (last_kw_ok s) (ttarget_ s) (handler_active s)
       (trapped_addr s) (irq s) (data_part s) (data_idx s) r (scr s) (events s).
Definition set_scr (s : st) (c : script) : st :=
  mkSt (pc s) (prev_pc s) (stack s) (heap s) (cur s) (halted s) (reason s)
       (last_trap s) (last_kw_ok s) (ttarget_ s) (handler_active s)
       (trapped_addr s) (irq s) (data_part s) (data_idx s) (last_rnd s) c (events s).
Definition add_event (s : st) (e : event) : st :=
  mkSt (pc s) (prev_pc s) (stack s) (heap s) (cur s) (halted s) (reason s)
       (last_trap s) (last_kw_ok s) (ttarget_ s) (handler_active s)
       (trapped_addr s) (irq s) (data_part s) (data_idx s) (last_rnd s) (scr s) (e :: events s).

Definition modify (f : st -> st) : M unit := fun s => R tt (f s).
Definition emit_ev (id : Z) (args : list sx) : M unit := modify (fun s => add_event s (mkEv id args)).

(* ---------- cells: CellValue.__init__ ---------- *)

(* a Python value about to be boxed *)
Inductive pyval := PInt (z : Z) | PFlt (f : fl) | PStrV (s : str).

(* Type.can_hold + Type.coerce; ty = 1..5.  Errors: trap INVALID_CELL_VALUE, or
   the host exceptions of round()/int() on inf/nan *)
Definition mk_cell (ty : Z) (v : pyval) : M cell :=
  match ty, v with
  | 1, PInt z => if in_int z then ret (CI z) else trap T_INVALID_CELL_VALUE
  | 1, PFlt f =>
    match fcmp (of_Z (-32768)) f, fcmp f (of_Z 32767) with
    | Some (Lt | Eq), Some (Lt | Eq) =>
      match fround f with Some z => ret (CI z) | None => crashM CrValue end
    | _, _ => trap T_INVALID_CELL_VALUE
    end
  | 2, PInt z => if in_long z then ret (CL z) else trap T_INVALID_CELL_VALUE
  | 2, PFlt f =>
    match fcmp (of_Z (-2147483648)) f, fcmp f (of_Z 2147483648) with
    | Some (Lt | Eq), Some Lt =>
      match fround f with Some z => ret (CL z) | None => crashM CrValue end
    | _, _ => trap T_INVALID_CELL_VALUE
    end
  | 3, PInt z => match to_single (of_Z z) with
                 | Some f => ret (CS f) | None => trap T_INVALID_CELL_VALUE end
  | 3, PFlt f => match to_single f with
                 | Some f' => ret (CS f') | None => trap T_INVALID_CELL_VALUE end
  | 4, PInt z => ret (CD (of_Z z))
  | 4, PFlt f => ret (CD f)
  | 5, PStrV s => ret (CStr s)
  | _, _ => trap T_INVALID_CELL_VALUE
  end.

Definition push_cell (c : cell) : M unit := upd_stack (fun l => c :: l).

Definition push (ty : Z) (v : pyval) : M unit :=
  do c <- mk_cell ty v; push_cell c.

Definition pyval_of (c : cell) : option pyval :=
  match c with
  | CI z | CL z => Some (PInt z)
  | CS f | CD f => Some (PFlt f)
  | CStr s => Some (PStrV s)
  | CRef _ _ => None
  end.

(* push(c.type, c.value) for an existing cell: re-boxing is the identity on
   well-formed cells (references are pushed as such) *)
Definition repush (c : cell) : M unit := push_cell c.

Definition pop : M cell :=
  fun s => match stack s with
           | c :: r => R c (set_stack s r)
           | [] => T T_STACK_EMPTY true s
           end.

(* cpu.pop(expected_type) *)
Definition pop_ty (ty : Z) : M cell :=
  do c <- pop;
  if cell_ty c =? ty then ret c else trap T_TYPE_MISMATCH.

Definition pop_int : M Z := do c <- pop_ty 1; match c with CI z => ret z | _ => crashM CrAssert end.
Definition pop_long : M Z := do c <- pop_ty 2; match c with CL z => ret z | _ => crashM CrAssert end.
Definition pop_str : M str := do c <- pop_ty 5; match c with CStr z => ret z | _ => crashM CrAssert end.
Definition pop_ref : M (Z * Z) :=
  do c <- pop_ty 7; match c with CRef g i => ret (g, i) | _ => crashM CrAssert end.

(* ---------- segments, with Python list indexing ---------- *)

Definition nthZ {A} (l : list A) (i : Z) : option A :=
  let n := Z.of_nat (length l) in
  let j := if i <? 0 then i + n else i in
  if (j <? 0) || (j >=? n) then None else nth_error l (Z.to_nat j).

Fixpoint set_nth {A} (l : list A) (n : nat) (a : A) : list A :=
  match l, n with
  | [], _ => []
  | _ :: r, O => a :: r
  | x :: r, S n' => x :: set_nth r n' a
  end.

Definition setZ {A} (l : list A) (i : Z) (a : A) : option (list A) :=
  let n := Z.of_nat (length l) in
  let j := if i <? 0 then i + n else i in
  if (j <? 0) || (j >=? n) then None else Some (set_nth l (Z.to_nat j) a).

Definition get_seg (g : Z) : M seg :=
  fun s => match nthZ (heap s) g with
           | Some sg => R sg s
           | None => X CrAssert s
           end.

(* segment.get_cell(idx): IndexError when out of range *)
Definition seg_get (g i : Z) : M (option cell) :=
  do sg <- get_seg g;
  match nthZ (s_cells sg) i with
  | Some c => ret c
  | None => crashM CrIndex
  end.

Definition seg_set (g i : Z) (c : option cell) : M unit :=
  do sg <- get_seg g;
  match setZ (s_cells sg) i c with
  | Some cells' =>
    fun s => match setZ (heap s) g (mkSeg cells' (s_kind sg)) with
             | Some h => R tt (set_heap s h)
             | None => X CrAssert s
             end
  | None => crashM CrIndex
  end.

Definition alloc_seg (sg : seg) : M Z :=
  fun s => R (Z.of_nat (length (heap s))) (set_heap s (heap s ++ [sg])).

(* cur_frame; None -> AttributeError on any attribute use *)
Definition cur_frame : M Z :=
  fun s => match cur s with Some g => R g s | None => X CrAttr s end.

Definition scope_seg (local_ : bool) : M Z :=
  if local_ then cur_frame else ret 0.

(* read_var / write_var: IndexError -> INVALID_*_VAR_IDX trap *)
Definition read_var (local_ : bool) (i : Z) : M (option cell) :=
  do g <- scope_seg local_;
  do sg <- get_seg g;
  match nthZ (s_cells sg) i with
  | Some c => ret c
  | None => trap T_INVALID_VAR_IDX
  end.

Definition write_var (local_ : bool) (i : Z) (c : cell) : M unit :=
  do g <- scope_seg local_;
  do sg <- get_seg g;
  match setZ (s_cells sg) i (Some c) with
  | Some _ => seg_set g i (Some c)
  | None => trap T_INVALID_VAR_IDX
  end.

Definition default_cell (ty : Z) : cell :=
  match ty with
  | 1 => CI 0 | 2 => CL 0 | 3 => CS (fzero false) | 4 => CD (fzero false) | _ => CStr []
  end.

(* ---------- arithmetic helpers ---------- *)

Definition num_val (c : cell) : option pyval :=
  match c with
  | CI z | CL z => Some (PInt z)
  | CS f | CD f => Some (PFlt f)
  | _ => None
  end.

Definition py_add (a b : pyval) : option pyval :=
  match a, b with
  | PInt x, PInt y => Some (PInt (x + y))
  | PFlt x, PFlt y => Some (PFlt (fadd x y))
  | PStrV x, PStrV y => Some (PStrV (x ++ y))
  | _, _ => None
  end.

Definition py_sub (a b : pyval) : option pyval :=
  match a, b with
  | PInt x, PInt y => Some (PInt (x - y))
  | PFlt x, PFlt y => Some (PFlt (fsub x y))
  | _, _ => None
  end.

Definition py_mul (a b : pyval) : option pyval :=
  match a, b with
  | PInt x, PInt y => Some (PInt (x * y))
  | PFlt x, PFlt y => Some (PFlt (fmul x y))
  | _, _ => None
  end.

(* Python ** on two values of the same type.  Floats: only integer-valued
   exponents of small magnitude are modelled (exact power, correctly rounded);
   anything else is CrPowUnknown and excluded by the harness. *)
Inductive powres := PowV (v : pyval) | PowZeroDiv | PowOverflow | PowComplex | PowUnknown.

Definition int_of_fl (f : fl) : option Z :=
  match f with
  | FFin n m e => if e >=? 0 then Some (smant n (Z.shiftl m e)) else (if m <=? 0 then Some 0 else None)
  | _ => None
  end.

Definition fpow_int (x : fl) (n : Z) : powres :=
  match x with
  | FFin neg m e =>
    if n =? 0 then PowV (PFlt f_one)
    else if m <=? 0 then
      (if n <? 0 then PowZeroDiv
       else PowV (PFlt (fzero (neg && Z.odd n))))
    else
      let rneg := neg && Z.odd n in
      if n >? 0 then
        match round64 rneg (m ^ n) (e * n) false with
        | FInf _ => PowOverflow
        | r => PowV (PFlt r)
        end
      else
        (* 1 / x^|n| *)
        match fdiv f_one (FFin false (m ^ (- n)) (e * (- n))) with
        | FInf _ => PowOverflow
        | FFin _ m' e' => PowV (PFlt (FFin rneg m' e'))
        | FNaN => PowUnknown
        end
  | _ => PowUnknown
  end.

Definition py_pow (a b : pyval) : powres :=
  match a, b with
  | PInt x, PInt y =>
    if y >=? 0 then PowV (PInt (x ^ y))
    else if x =? 0 then PowZeroDiv
    else if x =? 1 then PowV (PFlt f_one)
    else if x =? -1 then PowV (PFlt (if Z.odd y then fneg f_one else f_one))
    else
      (* |x| >= 2: the float result has magnitude <= 1/2 and is rounded to an
         integer by the cell constructor; 2 ** -1 = 0.5 exactly *)
      if (Z.abs x =? 2) && (y =? -1) then PowV (PFlt (FFin (x <? 0) 1 (-1)))
      else PowV (PFlt (FFin ((x <? 0) && Z.odd y) 1 (-2)))   (* stands for a value in (0, 1/2) *)
  | PFlt x, PFlt y =>
    match int_of_fl y with
    | Some n => if Z.abs n <=? 64 then fpow_int x n else PowUnknown
    | None =>
      match x, y with
      | FFin true m _, FFin _ _ _ => if m <=? 0 then PowUnknown else PowComplex
      | _, _ => PowUnknown
      end
    end
  | _, _ => PowUnknown
  end.

(* comparison of two same-typed cell values, Python semantics: 0 / -1 / 1 *)
Definition cmp_vals (a b : cell) : option Z :=
  match a, b with
  | CI x, CI y | CL x, CL y =>
    Some (match x ?= y with Eq => 0 | Lt => -1 | Gt => 1 end)
  | CS x, CS y | CD x, CD y =>
    Some (match fcmp x y with Some Eq => 0 | Some Lt => -1 | _ => 1 end)
  | CStr x, CStr y =>
    (fix go (x y : str) : option Z :=
       match x, y with
       | [], [] => Some 0
       | [], _ :: _ => Some (-1)
       | _ :: _, [] => Some 1
       | c :: x', d :: y' => if c <? d then Some (-1) else if c >? d then Some 1 else go x' y'
       end) x y
  | _, _ => None
  end.

(* sign tests used by ge/gt/le/lt on a numeric cell: compare with zero *)
Definition cmp0 (c : cell) : option comparison :=
  match c with
  | CI z | CL z => Some (z ?= 0)
  | CS f | CD f => match fcmp f (fzero false) with Some r => Some r | None => None end
  | _ => None
  end.

(* ---------- cp437 / case mapping (ASCII part exact; 128..255 via table later) ---------- *)

Definition py_upper (c : Z) : Z := if (97 <=? c) && (c <=? 122) then c - 32 else c.
Definition py_lower (c : Z) : Z := if (65 <=? c) && (c <=? 90) then c + 32 else c.

(* bytes([n]).decode('cp437') for n < 128 is chr(n); the upper half is a
   table the generated file provides; the models here carry code points, the
   harness restricts CHR$/STRING$ arguments above 127 to the generated table *)
Definition cp437_decode (tbl : list Z) (n : Z) : Z :=
  if n <? 128 then n else nth (Z.to_nat (n - 128)) tbl n.

(* ---------- string helpers (Python slicing) ---------- *)

Definition clampZ (lo hi x : Z) : Z := Z.max lo (Z.min hi x).

(* s[a:b] with Python's treatment of negative and out-of-range bounds *)
Definition py_slice (s : str) (a b : option Z) : str :=
  let n := Z.of_nat (length s) in
  let norm x := if x <? 0 then Z.max 0 (x + n) else Z.min n x in
  let a' := match a with Some x => norm x | None => 0 end in
  let b' := match b with Some x => norm x | None => n end in
  if b' <=? a' then [] else firstn (Z.to_nat (b' - a')) (skipn (Z.to_nat a') s).

Fixpoint prefix_eqb (p s : str) : bool :=
  match p, s with
  | [], _ => true
  | c :: p', d :: s' => (c =? d) && prefix_eqb p' s'
  | _ :: _, [] => false
  end.

(* str.index(sub, start): position or None *)
Fixpoint find_from (sub s : str) (pos : Z) : option Z :=
  if prefix_eqb sub s then Some pos
  else match s with
       | [] => None
       | _ :: r => find_from sub r (pos + 1)
       end.

Definition py_find (s sub : str) (start : Z) : option Z :=
  let n := Z.of_nat (length s) in
  if start >? n then None
  else find_from sub (skipn (Z.to_nat start) s) start.

Fixpoint lstrip_sp (s : str) : str :=
  match s with c :: r => if c =? 32 then lstrip_sp r else s | [] => [] end.
Definition rstrip_sp (s : str) : str := rev (lstrip_sp (rev s)).

(* ---------- devices ---------- *)

Definition E_PRINT := 1.  Definition E_INPUT := 2.  Definition E_CLS := 3.
Definition E_COLOR := 4.  Definition E_VIEW_PRINT := 5.  Definition E_SET_MODE := 6.
Definition E_WIDTH := 7.  Definition E_LOCATE := 8.  Definition E_INKEY := 9.
Definition E_BEEP := 10.  Definition E_PLAY := 11.  Definition E_SOUND := 12.
Definition E_GET_TIME := 13.  Definition E_RNG_SEED := 14.  Definition E_RNG_NEXT := 15.
Definition E_RNG_WITH_SEED := 16.  Definition E_SET_SEGMENT := 17.
Definition E_SET_DEFAULT_SEGMENT := 18.  Definition E_PEEK := 19.  Definition E_POKE := 20.
Definition E_BSAVE := 21.  Definition E_BLOAD := 22.  Definition E_KILL := 23.

Definition sxf (f : fl) : sx := SL [SZ 0; SZ (bits_of_fl f)].

(* Device._get_arg_from_stack(arg_type): value, or DEVICE_ERROR trap on a type mismatch *)
Definition dev_arg (ty : Z) : M cell :=
  do c <- pop;
  if cell_ty c =? ty then ret c else trap T_DEVICE_ERROR.

Definition dev_arg_int : M Z := do c <- dev_arg 1; match c with CI z => ret z | _ => crashM CrAssert end.
Definition dev_arg_long : M Z := do c <- dev_arg 2; match c with CL z => ret z | _ => crashM CrAssert end.
Definition dev_arg_single : M fl := do c <- dev_arg 3; match c with CS z => ret z | _ => crashM CrAssert end.

Definition take_line : M str :=
  fun s => match sc_lines (scr s) with
           | l :: r => R l (set_scr s (mkScript r (sc_rnd (scr s)) (sc_timer (scr s)) (sc_inkey (scr s))))
           | [] => NI s
           end.
Definition take_rnd : M fl :=
  fun s => match sc_rnd (scr s) with
           | l :: r => R l (set_scr s (mkScript (sc_lines (scr s)) r (sc_timer (scr s)) (sc_inkey (scr s))))
           | [] => NI s
           end.
Definition take_timer : M fl :=
  fun s => match sc_timer (scr s) with
           | l :: r => R l (set_scr s (mkScript (sc_lines (scr s)) (sc_rnd (scr s)) r (sc_inkey (scr s))))
           | [] => NI s
           end.
Definition take_inkey : M str :=
  fun s => match sc_inkey (scr s) with
           | l :: r => R l (set_scr s (mkScript (sc_lines (scr s)) (sc_rnd (scr s)) (sc_timer (scr s)) r))
           | [] => R [] s
           end.

Fixpoint pop_n (n : nat) (acc : list cell) : M (list cell) :=
  match n with
  | O => ret acc
  | S n' => do c <- pop; pop_n n' (c :: acc)
  end.

(* TerminalDevice._exec_print; nargs popped as INTEGER through _get_arg_from_stack *)
Definition dev_print : M unit :=
  do n <- dev_arg_int;
  (* range(nargs): negative counts pop nothing *)
  do args <- pop_n (Z.to_nat n) [];
  match exec_print args with
  | OutText calls =>
    fun s => R tt (fold_left (fun s' t => add_event s' (mkEv E_PRINT [sx_str t])) calls s)
  | OutTrap => trap T_DEVICE_ERROR
  | OutCrash PIndexError => crashM CrIndex
  | OutCrash PTypeError => crashM CrType
  | OutCrash PAttrError => crashM CrAttr
  | OutCrash (PUsing UIndexError) => crashM CrIndex
  | OutCrash (PUsing URuntimeError) => crashM CrRuntime
  | OutCrash (PUsing UTypeError) => crashM CrType
  | OutCrash (PUsing UOverflowError) => crashM CrOverflow
  | OutCrash (PUsing UValueError) => crashM CrValue
  end.

(* TerminalDevice._exec_input *)
Definition can_hold_single (f : fl) : bool :=
  match to_single f with Some _ => true | None => false end.

(* push_vars (after the fix of D13): every field is converted first; cells are
   pushed only when the whole line is acceptable *)
Fixpoint conv_fields (l : list (str * Z)) : M (option (list (Z * pyval))) :=
  match l with
  | [] => ret (Some [])
  | (v, ty) :: r =>
    let continue (c : Z * pyval) :=
      do o <- conv_fields r; ret (option_map (cons c) o) in
    if ty =? 1 then
      match py_int v with
      | Some z => if in_int z then continue (1, PInt z) else ret None
      | None => ret None
      end
    else if ty =? 2 then
      match py_int v with
      | Some z => if in_long z then continue (2, PInt z) else ret None
      | None => ret None
      end
    else if ty =? 3 then
      match py_float v with
      | Some f => if can_hold_single f then continue (3, PFlt f) else ret None
      | None => ret None
      end
    else if ty =? 4 then
      match py_float v with
      | Some f => continue (4, PFlt f)
      | None => ret None
      end
    else if ty =? 5 then continue (5, PStrV v)
    else trap T_DEVICE_ERROR
  end.

Fixpoint push_all (l : list (Z * pyval)) : M unit :=
  match l with
  | [] => ret tt
  | (ty, v) :: r => push ty v;; push_all r
  end.

Definition push_fields (l : list (str * Z)) : M bool :=
  do o <- conv_fields l;
  match o with
  | Some cells => push_all cells;; ret true
  | None => ret false
  end.

Fixpoint zip {A B} (a : list A) (b : list B) : list (A * B) :=
  match a, b with
  | x :: a', y :: b' => (x, y) :: zip a' b'
  | _, _ => []
  end.

Fixpoint input_loop (fuel : nat) (prompt : str) (question : bool) (same_line : Z) (types : list Z) : M unit :=
  match fuel with
  | O => fun s => NI s
  | S f =>
    emit_ev E_PRINT [sx_str prompt];;
    (if question then emit_ev E_PRINT [sx_str [63; 32]] else ret tt);;
    do line <- take_line;
    emit_ev E_INPUT [SZ same_line; sx_str line];;
    let values := map py_strip (split_commas line) in
    if negb (Nat.eqb (length values) (length types)) then
      emit_ev E_PRINT [sx_str ([82; 101; 100; 111; 32; 102; 114; 111; 109; 32; 115; 116; 97; 114; 116] ++ crlf)];;
      input_loop f prompt question same_line types
    else
      do ok <- push_fields (rev (zip values types));
      if ok then ret tt
      else
        emit_ev E_PRINT [sx_str ([82; 101; 100; 111; 32; 102; 114; 111; 109; 32; 115; 116; 97; 114; 116] ++ crlf)];;
        input_loop f prompt question same_line types
  end.

Fixpoint pop_ints (n : nat) (acc : list Z) : M (list Z) :=
  match n with
  | O => ret acc
  | S n' => do z <- pop_int; pop_ints n' (z :: acc)
  end.

Definition dev_input : M unit :=
  do nvars <- pop_int;
  (if nvars <=? 0 then trap T_DEVICE_ERROR else ret tt);;
  do types <- pop_ints (Z.to_nat nvars) [];
  do q <- pop_int;
  do prompt <- pop_str;
  do same_line <- pop_int;
  fun s => input_loop (S (length (sc_lines (scr s)))) prompt (negb (q =? 0)) same_line types s.

(* DataDevice *)
Definition dev_read (m : module) : M unit :=
  do ty <- pop_int;
  do s <- get;
  match nthZ (m_data m) (data_part s) with
  | None => trap T_DEVICE_ERROR
  | Some part =>
    match nthZ part (data_idx s) with
    | None => trap T_DEVICE_ERROR
    | Some item =>
      (if ty =? 1 then
         match item with
         | DEmpty => push 1 (PInt 0)
         | DText t => match py_int t with Some z => push 1 (PInt z) | None => trap T_DEVICE_ERROR end
         end
       else if ty =? 2 then
         match item with
         | DEmpty => push 2 (PInt 0)
         | DText t => match py_int t with Some z => push 2 (PInt z) | None => trap T_DEVICE_ERROR end
         end
       else if ty =? 3 then
         match item with
         | DEmpty => push 3 (PFlt (fzero false))
         | DText t => match py_float t with Some f => push 3 (PFlt f) | None => trap T_DEVICE_ERROR end
         end
       else if ty =? 4 then
         match item with
         | DEmpty => push 4 (PFlt (fzero false))
         | DText t => match py_float t with Some f => push 4 (PFlt f) | None => trap T_DEVICE_ERROR end
         end
       else if ty =? 5 then
         match item with
         | DEmpty => push 5 (PStrV [])
         | DText t => push 5 (PStrV t)
         end
       else crashM CrAssert);;
      modify (fun s' =>
        let idx := data_idx s' + 1 in
        if idx >=? Z.of_nat (length part) then set_data s' (data_part s' + 1) 0
        else set_data s' (data_part s') idx)
    end
  end.

Definition dev_restore : M unit :=
  do p <- pop_int;
  modify (fun s => set_data s p 0).

Definition dev_rnd : M unit :=
  do arg <- dev_arg_single;
  (match fcmp arg (fzero false) with
   | Some Eq =>
     do s <- get;
     match last_rnd s with
     | Some _ => ret tt
     | None => do v <- take_rnd; emit_ev E_RNG_NEXT [];; modify (fun s => set_last_rnd s (Some v))
     end
   | Some Lt =>
     do v <- take_rnd; emit_ev E_RNG_WITH_SEED [sxf arg];; modify (fun s => set_last_rnd s (Some v))
   | _ =>
     do v <- take_rnd; emit_ev E_RNG_NEXT [];; modify (fun s => set_last_rnd s (Some v))
   end);;
  do s <- get;
  match last_rnd s with
  | Some v => push 3 (PFlt v)
  | None => crashM CrAssert
  end.

Definition dev_locate : M unit :=
  do stop <- dev_arg_int;
  do start <- dev_arg_int;
  do cursor <- dev_arg_int;
  do column <- dev_arg_int;
  do row <- dev_arg_int;
  let column' := if column >=? 1 then column - 1 else column in
  let row' := if row >=? 1 then row - 1 else row in
  emit_ev E_LOCATE [SZ row'; SZ column'; SZ cursor; SZ start; SZ stop].

Definition dev_set_mode : M unit :=
  do vpage <- dev_arg_int;
  do apage <- dev_arg_int;
  do cs <- dev_arg_int;
  do mode <- dev_arg_int;
  if negb ((vpage =? -1) && (apage =? -1) && (cs =? -1)) then trap T_DEVICE_ERROR
  else emit_ev E_SET_MODE [SZ mode; SZ cs; SZ apage; SZ vpage].

(* device dispatch: _exec_io + Device.execute *)
Definition exec_io (m : module) (dev op : Z) : M unit :=
  if dev =? 2 then
    if op =? 1 then emit_ev E_CLS []
    else if op =? 2 then dev_print
    else if op =? 3 then
      do border <- dev_arg_int; do bg <- dev_arg_int; do fg <- dev_arg_int;
      emit_ev E_COLOR [SZ fg; SZ bg; SZ border]
    else if op =? 4 then
      do bottom <- pop_int; do top <- pop_int; emit_ev E_VIEW_PRINT [SZ top; SZ bottom]
    else if op =? 5 then dev_set_mode
    else if op =? 6 then
      do lines <- dev_arg_int; do columns <- dev_arg_int; emit_ev E_WIDTH [SZ columns; SZ lines]
    else if op =? 7 then dev_locate
    else if op =? 8 then dev_input
    else if op =? 9 then do k <- take_inkey; emit_ev E_INKEY [];; push 5 (PStrV k)
    else crashM CrAssert     (* execute(None): assert isinstance(op, str) *)
  else if dev =? 3 then
    if op =? 1 then emit_ev E_BEEP []
    else if op =? 2 then do c <- pop_str; emit_ev E_PLAY [sx_str c]
    else if op =? 3 then do d <- pop_long; do f <- pop_int; emit_ev E_SOUND [SZ f; SZ d]
    else crashM CrAssert
  else if dev =? 5 then
    if op =? 1 then do v <- take_timer; emit_ev E_GET_TIME [];; push 3 (PFlt v)
    else crashM CrAssert
  else if dev =? 6 then
    if op =? 1 then do sd <- dev_arg_single; emit_ev E_RNG_SEED [sxf sd]
    else if op =? 2 then dev_rnd
    else crashM CrAssert
  else if dev =? 7 then
    if op =? 1 then
      do value <- dev_arg_int;
      if (value <? 0) || (value >? 255) then trap T_DEVICE_ERROR
      else do offset <- dev_arg_long; emit_ev E_POKE [SZ offset; SZ value]
    else if op =? 2 then
      do offset <- dev_arg_long; emit_ev E_PEEK [SZ offset];; push 1 (PInt 0)
    else if op =? 3 then
      do sg <- dev_arg_long;
      if (sg <? 0) || (sg >? 65535) then trap T_DEVICE_ERROR else emit_ev E_SET_SEGMENT [SZ sg]
    else if op =? 4 then emit_ev E_SET_DEFAULT_SEGMENT []
    else if op =? 5 then
      do len <- pop_long; do off <- pop_long; do fs <- pop_str; emit_ev E_BSAVE [sx_str fs; SZ off; SZ len]
    else if op =? 6 then
      do off <- pop_long; do fs <- pop_str; emit_ev E_BLOAD [sx_str fs; SZ off]
    else crashM CrAssert
  else if dev =? 8 then
    if op =? 1 then dev_read m
    else if op =? 2 then dev_restore
    else crashM CrAssert
  else if dev =? 9 then
    if op =? 1 then do fs <- pop_str; emit_ev E_KILL [sx_str fs]
    else crashM CrAssert
  else crashM CrKey.   (* get_device_op_name_by_id(None, ..): QVM_DEVICES[None] -> KeyError, before the DEVICE_NOT_AVAILABLE trap *)
