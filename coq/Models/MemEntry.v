(* Entry point for the C04 T-isa sequences: n ticks of the machine model from a
   constructed state (encodings of MachineEntry.v); everything else is passed
   on to machine_entry. *)
From Coq Require Import ZArith List Bool.
From QV Require Import Sx Strs Fl Cell Machine Cpu MachineEntry.
Import ListNotations.
Open Scope Z_scope.

Fixpoint ticks (m : module) (n : nat) (s : st) (k : Z) : sx :=
  match n with
  | O => SL [SZ 0; SZ k; sx_st s]
  | S n' =>
    if halted s || (pc s >=? code_len m) then SL [SZ 0; SZ k; sx_st s]
    else match tick m s with
         | Next s' => ticks m n' s' (k + 1)
         | Crash c s' => SL [SZ 1; SZ k; SZ (crash_id c); sx_st s']
         | NeedInput s' => SL [SZ 2; SZ k; sx_st s']
         end
  end.

(* (3 module state n) *)
Definition mem_entry (x : sx) : sx :=
  match x with
  | SL [SZ 3; m; s; SZ n] =>
    match module_sx m, st_sx s with
    | Some m', Some s' => ticks m' (Z.to_nat n) s' 0
    | _, _ => sx_bad
    end
  | _ => machine_entry x
  end.
