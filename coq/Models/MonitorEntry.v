From Coq Require Import ZArith List Bool.
From QV Require Import Sx Strs Fl Cell Machine Cpu MachineEntry Verifier VerifierCfg CertObs Monitor.
Import ListNotations.
Open Scope Z_scope.

Definition cert_sx (x : sx) : option cert :=
  match x with
  | SL [SL g; SL fr] =>
    match get_zs g,
          map_opt (fun p => match p with
                            | SL [SZ cs; SL ds] => match get_zs ds with Some d => Some (cs, d) | None => None end
                            | _ => None end) fr with
    | Some g', Some fr' => Some (mkCert g' fr')
    | _, _ => None
    end
  | _ => None
  end.

Definition sx_viol (v : Z * Z * Z * Z) : sx :=
  let '(n, k, p, d) := v in SL [SZ n; SZ k; SZ p; SZ d].

(* (1 module script cert fuel) -> (static_ok bad_targets stop ticks violations trapped final_state) *)
Definition monitor_entry (x : sx) : sx :=
  match x with
  | SL [SZ 1; m; sc; ct; SZ fuel] =>
    match module_sx m, script_sx sc, cert_sx ct with
    | Some m', Some sc', Some ct' =>
      let '(bnd, ok, bad) := static_check m' in
      let '(s, k, n, mn) := mon_run m' ct' bnd (Z.to_nat fuel) (init_state m' sc') 0
                                    (mkMon [] [] false) in
      SL [sx_bool ok; SL (map SZ bad); sx_stop k; SZ n; SL (map sx_viol (rev (viol mn)));
          sx_bool (trapped_before mn); sx_st s]
    | _, _, _ => sx_bad
    end
  (* (2 module script fuel) -> (certificate_ok conflicts failing_addresses size stack_instructions_seen) *)
  | SL [SZ 2; m; sc; SZ fuel] =>
    match module_sx m, script_sx sc with
    | Some m', Some sc' =>
      let o := obs_run m' (Z.to_nat fuel) (init_state m' sc') (mkObs [] [] [] 0) in
      SL [sx_bool (check_cert m' (o_cert o)); SL (map SZ (rev (o_conflicts o)));
          SL (map SZ (cert_failing m' (o_cert o))); SZ (Z.of_nat (length (o_cert o))); SZ (o_seen o)]
    | _, _ => sx_bad
    end
  | _ => sx_bad
  end.
