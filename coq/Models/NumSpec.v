(* C16: what the property DEMANDS of a number text - independent of the model
   of the code (Models/NumFmt.v, Models/Literal.v): an own reader of decimal
   numerals and exact rational comparisons in Z.  No proofs in this file.

   A text denotes the decimal  (-1)^neg * c * 10^k.  "Significant digits" and
   "one unit of the last shown digit" are taken after removing the trailing
   zeros of c (so  123456800  shows the 7 digits 1234568 and its unit is 100;
   this is the reading most favourable to the code). *)
From Coq Require Import ZArith List Bool Lia.
From QV Require Import Sx Strs Fl Dec.
Import ListNotations.
Open Scope Z_scope.

Fixpoint take_digits (s : str) : str * str :=
  match s with
  | c :: r => if is_digit c then let '(a, b) := take_digits r in (c :: a, b) else ([], s)
  | [] => ([], [])
  end.

Fixpoint digs_val (s : str) (acc : Z) : Z :=
  match s with
  | c :: r => digs_val r (acc * 10 + (c - 48))
  | [] => acc
  end.

(* integers: the plain decimal form with a leading blank or minus sign *)
Definition plain_int_text (z : Z) (t : str) : bool :=
  match t with
  | lead :: ds =>
    (lead =? (if z <? 0 then ch_minus else ch_space))
    && negb (match ds with [] => true | _ => false end)
    && forallb is_digit ds
    && (digs_val ds 0 =? Z.abs z)
    && (match ds with c :: _ :: _ => negb (c =? ch_0) | _ => true end)   (* no leading zeros *)
  | [] => false
  end.

(* a decimal numeral as PRINT shows it:
   [blank] [-] digits [. digits] [ (E|D) (+|-) digits ]      -> (neg, c, k) *)
Definition dec_of_text (t : str) : option (bool * Z * Z) :=
  let t1 := match t with c :: r => if c =? ch_space then r else t | [] => t end in
  let '(neg, t2) := match t1 with
                    | c :: r => if c =? ch_minus then (true, r) else (false, t1)
                    | [] => (false, t1) end in
  let '(ip, t3) := take_digits t2 in
  match ip with
  | [] => None
  | _ =>
    let '(fp, t4) := match t3 with
                     | c :: r => if c =? ch_dot then take_digits r else ([], t3)
                     | [] => ([], t3) end in
    let dot_ok := match t3 with
                  | c :: _ => if c =? ch_dot then negb (match fp with [] => true | _ => false end)
                              else true
                  | [] => true end in
    if negb dot_ok then None else
    let c := digs_val (ip ++ fp) 0 in
    let k := - Z.of_nat (length fp) in
    match t4 with
    | [] => Some (neg, c, k)
    | m :: sg :: r =>
      if ((m =? ch_E) || (m =? ch_D)) && ((sg =? ch_plus) || (sg =? ch_minus)) then
        let '(ed, t5) := take_digits r in
        match ed, t5 with
        | _ :: _, [] =>
          let ex := digs_val ed 0 in
          Some (neg, c, k + (if sg =? ch_minus then - ex else ex))
        | _, _ => None
        end
      else None
    | _ => None
    end
  end.

(* remove trailing zeros of c > 0 *)
Definition norm_dec (c k : Z) : Z * Z :=
  strip10 (S (Z.to_nat (Z.log2 c))) c k.

Definition sig_digits (c : Z) : Z :=
  let '(c', _) := norm_dec c 0 in Z.of_nat (length (nat_digits c')).

(* exact comparison of  x = (-1)^n m 2^e  with  d = (-1)^neg c 10^k :
   both multiplied by 2^a 10^b with a = max(0,-e), b = max(0,-k) *)
Definition sc_bin (n : bool) (m e a b : Z) : Z := smant n m * 2 ^ (e + a) * 10 ^ b.
Definition sc_dec (neg : bool) (c k a b : Z) : Z := smant neg c * 2 ^ a * 10 ^ (k + b).

(* | x - d | <= half a unit of the last shown digit of d *)
Definition within_half_unit (x : fl) (neg : bool) (c k : Z) : bool :=
  match x with
  | FFin n m e =>
    let '(c', k') := norm_dec c k in
    let a := Z.max 0 (- e) in
    let b := Z.max 0 (- k') in
    2 * Z.abs (sc_bin n m e a b - sc_dec neg c' k' a b) <=? sc_dec false 1 k' a b
  | _ => false
  end.

(* | y - d | <= | x - d | : the value read back is at least as close to the
   text as the value that was printed (for a correctly rounded reader this is
   "y is the value of the type nearest to the text") *)
Definition reads_back_close (x y : fl) (neg : bool) (c k : Z) : bool :=
  match x, y with
  | FFin n m e, FFin n' m' e' =>
    let a := Z.max 0 (Z.max (- e) (- e')) in
    let b := Z.max 0 (- k) in
    let d := sc_dec neg c k a b in
    Z.abs (sc_bin n' m' e' a b - d) <=? Z.abs (sc_bin n m e a b - d)
  | _, _ => false
  end.

Definition sign_agrees (x : fl) (neg : bool) (c : Z) : bool :=
  match x with
  | FFin n m _ => if (m <=? 0) then (c =? 0) else Bool.eqb n neg
  | _ => false
  end.

(* the demand on the text of one finite SINGLE / DOUBLE value:
   (numeral, digits <= 7/17, within half a unit, sign) *)
Record text_verdict := { tv_numeral : bool; tv_digits : Z; tv_half : bool; tv_sign : bool }.

Definition judge_text (x : fl) (t : str) : text_verdict :=
  match dec_of_text t with
  | None => {| tv_numeral := false; tv_digits := 0; tv_half := false; tv_sign := false |}
  | Some (neg, c, k) =>
    {| tv_numeral := true; tv_digits := sig_digits c;
       tv_half := within_half_unit x neg c k; tv_sign := sign_agrees x neg c |}
  end.

Definition float_text_ok (single : bool) (x : fl) (t : str) : bool :=
  let v := judge_text x t in
  tv_numeral v && (tv_digits v <=? (if single then 7 else 17)) && tv_half v && tv_sign v.

(* same digits: the texts agree after the first character (blank / minus) *)
Definition same_digits (a b : str) : bool := str_eqb (tl a) (tl b).
