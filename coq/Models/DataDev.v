(* READ / RESTORE.  Faithful models of
     qvm/machine.py DataDevice._exec_read / _exec_restore on module.data
       (a list of parts, each a list of items) with the cursor
       (data_part, data_idx), including Python's negative-index wrap,
     qbee/compiler.py Pass1 (labels, DATA grouped under "last label seen",
       CompilationUnit.data : defaultdict), the label checks of
       process_restore_pre,
     qbee/qvm_codegen.py init_code / get_data_label_index / gen_restore_stmt /
       gen_read_stmt (what index RESTORE pushes).
   No proofs here (Proofs/DataProofs.v); the specification is Models/DataSpec.v. *)
From Coq Require Import ZArith List Bool.
From QV Require Import Sx Strs Fl NumFmt Cell DataText.
Import ListNotations.
Open Scope Z_scope.

(* ---------- the device ---------- *)

Definition dparts : Type := list (list ditem).
Definition cursor : Type := (Z * Z)%type.          (* (data_part, data_idx) *)

Definition zlen {A} (l : list A) : Z := Z.of_nat (length l).

(* Python l[i]: negative indices count from the end; None = IndexError *)
Definition py_nth {A} (l : list A) (i : Z) : option A :=
  let n := zlen l in
  if (0 <=? i) && (i <? n) then nth_error l (Z.to_nat i)
  else if (- n <=? i) && (i <? 0) then nth_error l (Z.to_nat (i + n))
  else None.

Inductive rres :=
| RVal (c : cell)           (* value pushed; cursor advanced *)
| RDevErr (code : Z)        (* Trapped DEVICE_ERROR; Device.Error: 4 OP_FAILED = out of data,
                               2 BAD_ARG_TYPE = int()/float() raised ValueError *)
| RInvalidCell              (* Trapped INVALID_CELL_VALUE raised by CellValue() in cpu.push *)
| RAssert.                  (* data_type outside 1..5: `assert False` *)

(* the typed conversion + cpu.push (CellValue: can_hold, then coerce) *)
Definition convert (ty : Z) (it : ditem) : rres :=
  match ty with
  | 1 =>
    match it with
    | DEmpty => RVal (CI 0)
    | DItem s => match py_int s with
                 | Some z => if in_int z then RVal (CI z) else RInvalidCell
                 | None => RDevErr 2
                 end
    end
  | 2 =>
    match it with
    | DEmpty => RVal (CL 0)
    | DItem s => match py_int s with
                 | Some z => if in_long z then RVal (CL z) else RInvalidCell
                 | None => RDevErr 2
                 end
    end
  | 3 =>
    match it with
    | DEmpty => RVal (CS (fzero false))
    | DItem s => match py_float s with
                 | Some f => match to_single f with
                             | Some g => RVal (CS g)
                             | None => RInvalidCell
                             end
                 | None => RDevErr 2
                 end
    end
  | 4 =>
    match it with
    | DEmpty => RVal (CD (fzero false))
    | DItem s => match py_float s with
                 | Some f => RVal (CD f)
                 | None => RDevErr 2
                 end
    end
  | 5 =>
    match it with
    | DEmpty => RVal (CStr [])
    | DItem s => RVal (CStr s)
    end
  | _ => RAssert
  end.

(* _exec_read after the type id was popped.  On every trap the cursor is unchanged. *)
Definition exec_read (d : dparts) (cur : cursor) (ty : Z) : rres * cursor :=
  let '(p, i) := cur in
  match py_nth d p with
  | None => (RDevErr 4, cur)
  | Some part =>
    match py_nth part i with
    | None => (RDevErr 4, cur)
    | Some it =>
      match convert ty it with
      | RVal c =>
        if i + 1 >=? zlen part then (RVal c, (p + 1, 0)) else (RVal c, (p, i + 1))
      | r => (r, cur)
      end
    end
  end.

Definition exec_restore (part_idx : Z) : cursor := (part_idx, 0).

Definition cur_init : cursor := (0, 0).

(* device operations as the code generator emits them *)
Inductive dop :=
| DRead (ty : Z)
| DRestore (idx : Z).

(* every operation executed, also after a trap (ON ERROR ... RESUME NEXT view);
   RESTORE yields no result *)
Fixpoint exec_ops (d : dparts) (cur : cursor) (ops : list dop) : list rres * cursor :=
  match ops with
  | [] => ([], cur)
  | DRead ty :: r =>
    let '(res, cur') := exec_read d cur ty in
    let '(rs, cf) := exec_ops d cur' r in
    (res :: rs, cf)
  | DRestore i :: r => exec_ops d (exec_restore i) r
  end.

(* a program without error handler: stops at the first trap *)
Inductive ending :=
| EDone
| ETrap (r : rres).

Fixpoint run_ops (d : dparts) (cur : cursor) (ops : list dop) : list cell * ending :=
  match ops with
  | [] => ([], EDone)
  | DRead ty :: r =>
    match exec_read d cur ty with
    | (RVal c, cur') => let '(cs, e) := run_ops d cur' r in (c :: cs, e)
    | (res, _) => ([], ETrap res)
    end
  | DRestore i :: r => run_ops d (exec_restore i) r
  end.

(* ---------- the compiler ---------- *)

Definition label : Type := str.                    (* canonical label / line-number name *)

(* the program as far as DATA is concerned, in source order *)
Inductive ev :=
| ELabel (l : label)             (* module-level label or line number *)
| EData (items : list ditem)     (* one DATA statement *)
| ESubLabel (l : label).         (* a label inside a SUB/FUNCTION: not a legal module-level
                                    RESTORE target, but Pass1 records it as "last label" *)

(* READ v (type id of v) / RESTORE [label] in the executed code *)
Inductive op :=
| ORead (ty : Z)
| ORestore (target : option label).

Definition key : Type := option label.             (* None = '_toplevel_data' *)

Definition key_eqb (a b : key) : bool :=
  match a, b with
  | None, None => true
  | Some x, Some y => str_eqb x y
  | _, _ => false
  end.

(* defaultdict(list): data[k].extend(items) keeps insertion order of the keys *)
Fixpoint dict_extend (acc : list (key * list ditem)) (k : key) (its : list ditem)
  : list (key * list ditem) :=
  match acc with
  | [] => [(k, its)]
  | (k', v) :: r => if key_eqb k' k then (k', v ++ its) :: r
                    else (k', v) :: dict_extend r k its
  end.

(* Pass1: process_label_pre / process_lineno_pre set _last_label; process_data_pre extends *)
Definition gstep (st : key * list (key * list ditem)) (e : ev) : key * list (key * list ditem) :=
  let '(last, acc) := st in
  match e with
  | ELabel l => (Some l, acc)
  | ESubLabel l => (Some l, acc)
  | EData its => (last, dict_extend acc last its)
  end.

Definition group (evs : list ev) : list (key * list ditem) :=
  snd (fold_left gstep evs (None, [])).

Definition parts_of (g : list (key * list ditem)) : dparts := map snd g.

(* list(self._data.keys()).index(label); None = ValueError *)
Fixpoint key_index (g : list (key * list ditem)) (k : key) (i : Z) : option Z :=
  match g with
  | [] => None
  | (k', _) :: r => if key_eqb k' k then Some i else key_index r k (i + 1)
  end.

Definition labels_of (evs : list ev) : list label :=
  flat_map (fun e => match e with ELabel l | ESubLabel l => [l] | EData _ => [] end) evs.

Definition main_labels_of (evs : list ev) : list label :=
  flat_map (fun e => match e with ELabel l => [l] | _ => [] end) evs.

Definition mem_label (l : label) (ls : list label) : bool := existsb (str_eqb l) ls.

Fixpoint has_dup (ls : list label) : bool :=
  match ls with
  | [] => false
  | l :: r => mem_label l r || has_dup r
  end.

Inductive cerr :=
| CDuplicateLabel           (* CompileError DUPLICATE_LABEL (Pass1) *)
| CLabelNotDefined          (* CompileError LABEL_NOT_DEFINED (process_restore_pre) *)
| CValueError.              (* ValueError escaping get_data_label_index (code generation) *)

Inductive cres :=
| COk (d : dparts) (code : list dop)
| CErr (e : cerr).

(* gen_read_stmt / gen_restore_stmt; None = ValueError *)
Fixpoint gen_ops (g : list (key * list ditem)) (ops : list op) : option (list dop) :=
  match ops with
  | [] => Some []
  | ORead ty :: r => option_map (cons (DRead ty)) (gen_ops g r)
  | ORestore None :: r => option_map (cons (DRestore (-1))) (gen_ops g r)
  | ORestore (Some l) :: r =>
    match key_index g (Some l) 0 with
    | Some i => option_map (cons (DRestore i)) (gen_ops g r)
    | None => None
    end
  end.

Definition targets_of (ops : list op) : list label :=
  flat_map (fun o => match o with ORestore (Some l) => [l] | _ => [] end) ops.

Definition compile (evs : list ev) (ops : list op) : cres :=
  if has_dup (labels_of evs) then CErr CDuplicateLabel
  else if negb (forallb (fun l => mem_label l (main_labels_of evs)) (targets_of ops))
  then CErr CLabelNotDefined
  else let g := group evs in
       match gen_ops g ops with
       | Some code => COk (parts_of g) code
       | None => CErr CValueError
       end.

Inductive pres :=
| PRun (vals : list cell) (e : ending)
| PCompile (e : cerr).

Definition run_prog (evs : list ev) (ops : list op) : pres :=
  match compile evs ops with
  | COk d code => let '(vs, e) := run_ops d cur_init code in PRun vs e
  | CErr e => PCompile e
  end.

(* the same with the repair of fixes/C15-D11.diff applied: bare RESTORE pushes 0 *)
Fixpoint gen_ops_fixed (g : list (key * list ditem)) (ops : list op) : option (list dop) :=
  match ops with
  | [] => Some []
  | ORead ty :: r => option_map (cons (DRead ty)) (gen_ops_fixed g r)
  | ORestore None :: r => option_map (cons (DRestore 0)) (gen_ops_fixed g r)
  | ORestore (Some l) :: r =>
    match key_index g (Some l) 0 with
    | Some i => option_map (cons (DRestore i)) (gen_ops_fixed g r)
    | None => None
    end
  end.

Definition run_prog_fixed (evs : list ev) (ops : list op) : pres :=
  if has_dup (labels_of evs) then PCompile CDuplicateLabel
  else if negb (forallb (fun l => mem_label l (main_labels_of evs)) (targets_of ops))
  then PCompile CLabelNotDefined
  else let g := group evs in
       match gen_ops_fixed g ops with
       | Some code => let '(vs, e) := run_ops (parts_of g) cur_init code in PRun vs e
       | None => PCompile CValueError
       end.
