(* C06 - the two grammar parse actions with arity assumptions that are pure
   list manipulations (qbee/grammar.py parse_left_assoc_binary_expr,
   parse_right_assoc_binary_expr) and the position arithmetic a diagnostic
   needs (qbee/utils.py convert_index_to_line_col, display_with_context).
   Python exceptions (assert, dict lookup, Node.children's InternalError,
   attribute assignment on a str) are explicit [RCrash] results.
   No proofs here. *)
From Coq Require Import ZArith List Bool.
From QV Require Import Sx.
Import ListNotations.
Open Scope Z_scope.

(* ---- expression trees and the tokens pyparsing hands to a parse action ---- *)

(* an operand is an already built node; [Leaf n] stands for any node that is
   not the result of the action itself (a literal, an lvalue, a parenthesised
   expression, the result of a higher-precedence rule ...) *)
Inductive tree : Type :=
| Leaf (n : Z)
| Bin (op : Z) (l r : tree).

(* a token is a node or a string (operator / keyword text); strings are
   numbered by their index in the alphabet
     0 "^"  1 "+"  2 "-"  3 "*"  4 "/"  5 "\"  6 "mod"  7 "and"  8 "or"
     9 "xor"  10 "eqv"  11 "imp"  12 "="  13 "<>"  14 "<"  15 ">"  16 "<="
     17 ">="  18 "><"  19 "=<"  20 "=>"  21 "not"  22 any other string *)
Inductive tok : Type :=
| TNode (t : tree)
| TStr (k : Z).

Inductive crash : Type :=
| CAssert            (* AssertionError *)
| CKeyError          (* Operator.binary_op_from_token: dict lookup *)
| CInternalError     (* Node.__new__ -> children: "Child ... is not a Node" *)
| CAttributeError    (* node.loc_start = ... on a str *)
| CIndexError.       (* toks[i+1] past the end (only without the parity assert) *)

Inductive res : Type :=
| RTree (t : tree)
| RCrash (c : crash).

(* Operator.binary_op_from_token: operator ids
   EXP 0 ADD 1 SUB 2 MUL 3 DIV 4 INTDIV 5 MOD 6 AND 7 OR 8 XOR 9 EQV 10
   IMP 11 CMP_EQ 12 CMP_NE 13 CMP_LT 14 CMP_GT 15 CMP_LE 16 CMP_GE 17 *)
Definition binop_of_str (k : Z) : option Z :=
  if (0 <=? k) && (k <=? 17) then Some k
  else if k =? 18 then Some 13
  else if k =? 19 then Some 16
  else if k =? 20 then Some 17
  else None.

(* BinaryOp(l, r, op): Node.__new__ walks the children, each must be a Node *)
Definition mk_bin (op : Z) (l r : tok) : option tree :=
  match l, r with
  | TNode a, TNode b => Some (Bin op a b)
  | _, _ => None
  end.

(* node.loc_start = loc_start; return node *)
Definition finish (node : tok) : res :=
  match node with
  | TNode t => RTree t
  | TStr _ => RCrash CAttributeError
  end.

(* for i in range(1, len(toks), 2): op = binary_op_from_token(toks[i]);
   node = BinaryOp(node, toks[i+1], op) *)
Fixpoint left_loop (node : tok) (rest : list tok) : res :=
  match rest with
  | [] => finish node
  | o :: x :: rest' =>
    match o with
    | TStr k =>
      match binop_of_str k with
      | Some op =>
        match mk_bin op node x with
        | Some t => left_loop (TNode t) rest'
        | None => RCrash CInternalError
        end
      | None => RCrash CKeyError
      end
    | TNode _ => RCrash CKeyError
    end
  | [_] => RCrash CIndexError
  end.

Definition parse_left (toks : list tok) : res :=
  if Nat.even (length toks) then RCrash CAssert
  else match toks with
       | [] => RCrash CAssert
       | n :: rest => left_loop n rest
       end.

Definition is_caret (t : tok) : bool :=
  match t with TStr 0 => true | _ => false end.

(* node = toks[-1]; for i in range(-2, -len(toks)-1, -2): assert toks[i] == '^';
   node = BinaryOp(toks[i-1], node, EXP).  [rest] is the reversed prefix. *)
Fixpoint right_loop (node : tok) (rest : list tok) : res :=
  match rest with
  | [] => finish node
  | o :: x :: rest' =>
    if is_caret o then
      match mk_bin 0 x node with
      | Some t => right_loop (TNode t) rest'
      | None => RCrash CInternalError
      end
    else RCrash CAssert
  | [_] => RCrash CIndexError
  end.

Definition parse_right (toks : list tok) : res :=
  if Nat.even (length toks) then RCrash CAssert
  else match rev toks with
       | [] => RCrash CAssert
       | n :: rest => right_loop n rest
       end.

(* ---- the shapes the grammar produces ---- *)

(* operand (operator operand)*  with every operator string accepted by [isop] *)
Fixpoint shape_ok (isop : Z -> bool) (rest : list tok) : bool :=
  match rest with
  | [] => true
  | TStr k :: TNode _ :: r => isop k && shape_ok isop r
  | _ => false
  end.

Definition well_shaped (isop : Z -> bool) (toks : list tok) : bool :=
  match toks with
  | TNode _ :: rest => shape_ok isop rest
  | _ => false
  end.

Definition is_binop_str (k : Z) : bool :=
  match binop_of_str k with Some _ => true | None => false end.

Definition is_caret_str (k : Z) : bool := k =? 0.

(* what exponent_expr = Located(atom + (exponent_op + exponent_expr)[...])
   really hands to parse_right_assoc_binary_expr: the atom rule keeps its
   leading sign tokens ("+"/"-", addsub_op[...]) in the token list, and the
   nested exponent_expr has already been reduced to one node:
       sign^k  operand  [ "^" node ]                                   *)
Definition is_sign (t : tok) : bool :=
  match t with TStr 1 => true | TStr 2 => true | _ => false end.

Fixpoint strip_signs (toks : list tok) : nat * list tok :=
  match toks with
  | t :: r => if is_sign t then let '(n, r') := strip_signs r in (S n, r') else (O, toks)
  | [] => (O, [])
  end.

(* Some k: the list is a real exponent_expr shape with k leading signs *)
Definition exponent_shape (toks : list tok) : option nat :=
  let '(k, r) := strip_signs toks in
  match r with
  | [TNode _] => Some k
  | [TNode _; TStr 0; TNode _] => Some k
  | _ => None
  end.

(* ---- specification side: what a correct fold of a flat list is ---- *)

Definition encode (a : tree) (pairs : list (Z * tree)) : list tok :=
  TNode a :: flat_map (fun p => [TStr (fst p); TNode (snd p)]) pairs.

Definition opid (k : Z) : Z :=
  match binop_of_str k with Some o => o | None => -1 end.

(* ((a o1 b) o2 c) ... *)
Definition left_nest (a : tree) (pairs : list (Z * tree)) : tree :=
  fold_left (fun acc p => Bin (opid (fst p)) acc (snd p)) pairs a.

(* a ^ (b ^ (c ...)) *)
Fixpoint right_nest (a : tree) (pairs : list (Z * tree)) : tree :=
  match pairs with
  | [] => a
  | (_, b) :: r => Bin 0 a (right_nest b r)
  end.

Inductive item : Type := IAtom (n : Z) | IOp (op : Z).

Fixpoint inorder (t : tree) : list item :=
  match t with
  | Leaf n => [IAtom n]
  | Bin op l r => inorder l ++ IOp op :: inorder r
  end.

Definition items (a : Z) (pairs : list (Z * Z)) : list item :=
  IAtom a :: flat_map (fun p => [IOp (opid (fst p)); IAtom (snd p)]) pairs.

Definition leaves (pairs : list (Z * Z)) : list (Z * tree) :=
  map (fun p => (fst p, Leaf (snd p))) pairs.

(* ---- positions ---- *)

Definition ch_nl : Z := 10.

(* qbee.utils.convert_index_to_line_col: for idx, char in enumerate(text):
   if idx == offset: break; if char == '\n': line += 1; col = 1; continue;
   col += 1; else: return None, None.   (col starts at 0 on the first line
   and at 1 on every later line: kept as it is) *)
Fixpoint line_col_go (s : str) (idx line col off : Z) : option (Z * Z) :=
  match s with
  | [] => None
  | c :: r =>
    if idx =? off then Some (line, col)
    else if c =? ch_nl then line_col_go r (idx + 1) (line + 1) 1 off
    else line_col_go r (idx + 1) line (col + 1) off
  end.

Definition line_col (s : str) (off : Z) : option (Z * Z) := line_col_go s 0 1 0 off.

(* qbee.utils.display_with_context(text, loc_start): the loop that finds the
   target line.  [i] start of the current line, [pos] index of the next
   character, [line] current line number.  A line [i, nl] is the target iff
   i <= loc_start <= nl; a last line without '\n' gets one appended.  None =
   no target line: `target_line + n_context_lines` raises TypeError. *)
Fixpoint target_go (s : str) (i pos line loc : Z) : option (Z * Z) :=
  match s with
  | [] =>
    if i <? pos then
      if (i <=? loc) && (loc <=? pos) then Some (line, loc - i + 1) else None
    else None
  | c :: r =>
    if c =? ch_nl then
      if (i <=? loc) && (loc <=? pos) then Some (line, loc - i + 1)
      else target_go r (pos + 1) (pos + 1) (line + 1) loc
    else target_go r i (pos + 1) line loc
  end.

Definition display_target (s : str) (loc : Z) : option (Z * Z) := target_go s 0 0 1 loc.

Definition count_nl (s : str) : Z :=
  Z.of_nat (length (filter (fun c => c =? ch_nl) s)).
