From Coq Require Import ZArith List Bool Lia.
From QV Require Import Sx Strs Fl Dec NumFmt Cell Using Print.
Import ListNotations.
Open Scope Z_scope.

(* ---- layout ---- *)

Lemma body_app a b : body (a ++ b) = fold_left put_item b (body a).
Proof. unfold body. apply fold_left_app. Qed.

Lemma body_snoc items it : body (items ++ [it]) = put_item (body items) it.
Proof. rewrite body_app. reflexivity. Qed.

Lemma num_then_blank items t : body (items ++ [PNum t]) = body items ++ t ++ [ch_space].
Proof. apply body_snoc. Qed.

Lemma str_verbatim items s : body (items ++ [PStr s]) = body items ++ s.
Proof. apply body_snoc. Qed.

Lemma semi_nothing items : body (items ++ [PSemi]) = body items.
Proof. apply body_snoc. Qed.

Lemma pad_to_zone_spec buf :
  exists n : nat,
    pad_to_zone buf = buf ++ spaces n /\
    (1 <= n <= 14)%nat /\
    (Z.of_nat (length (pad_to_zone buf))) mod 14 = 0 /\
    Z.of_nat (length buf) < Z.of_nat (length (pad_to_zone buf)) <= Z.of_nat (length buf) + 14.
Proof.
  unfold pad_to_zone, zone.
  set (L := Z.of_nat (length buf)).
  assert (HL : 0 <= L) by (unfold L; lia).
  assert (Hm : 0 <= L mod 14 < 14) by (apply Z.mod_pos_bound; lia).
  exists (Z.to_nat (14 - L mod 14)). split; [reflexivity|].
  rewrite app_length, spaces_length.
  split; [lia|]. split.
  - rewrite Nat2Z.inj_add, Z2Nat.id by lia. fold L.
    pose proof (Z.div_mod L 14 ltac:(lia)) as Hd.
    replace (L + (14 - L mod 14)) with ((L / 14 + 1) * 14) by lia.
    apply Z.mod_mul; lia.
  - rewrite Nat2Z.inj_add, Z2Nat.id by lia. fold L. lia.
Qed.

Lemma comma_to_zone items :
  exists n : nat,
    body (items ++ [PComma]) = body items ++ spaces n /\
    (1 <= n <= 14)%nat /\
    (Z.of_nat (length (body (items ++ [PComma])))) mod 14 = 0 /\
    Z.of_nat (length (body items)) < Z.of_nat (length (body (items ++ [PComma])))
      <= Z.of_nat (length (body items)) + 14.
Proof. rewrite body_snoc. cbn [put_item]. apply pad_to_zone_spec. Qed.

Lemma ends_in_sep_snoc items it : ends_in_sep (items ++ [it]) = is_sep it.
Proof. unfold ends_in_sep. rewrite rev_unit. reflexivity. Qed.

Lemma newline_rule items :
  (ends_in_sep items = false -> print_text items = body items ++ crlf) /\
  (ends_in_sep items = true -> print_text items = body items).
Proof. unfold print_text. destruct (ends_in_sep items); split; intro H; try reflexivity; discriminate. Qed.

Lemma print_alone : print_text [] = crlf.
Proof. reflexivity. Qed.

(* ---- protocol ---- *)

Lemma encode_arg_len a : (1 <= length (encode_arg a) <= 2)%nat.
Proof. destruct a; simpl; lia. Qed.

Lemma decode_args_encode args :
  forall fuel fmt acc,
    (length (flat_map encode_arg args) <= fuel)%nat ->
    decode_args fuel (flat_map encode_arg args) fmt acc = POk fmt (rev acc ++ args).
Proof.
  induction args as [|a args IH]; intros fuel fmt acc Hf.
  - simpl. rewrite app_nil_r. destruct fuel; reflexivity.
  - cbn [flat_map] in *. rewrite app_length in Hf.
    destruct a as [c| |]; cbn [encode_arg app length] in *.
    + destruct fuel as [|fuel]; [lia|]. cbn [decode_args val_eq_int]. cbn.
      rewrite IH by lia. cbn [rev]. now rewrite <- app_assoc.
    + destruct fuel as [|fuel]; [lia|]. cbn [decode_args val_eq_int]. cbn.
      rewrite IH by lia. cbn [rev]. now rewrite <- app_assoc.
    + destruct fuel as [|fuel]; [lia|]. cbn [decode_args val_eq_int]. cbn.
      rewrite IH by lia. cbn [rev]. now rewrite <- app_assoc.
Qed.

Lemma decode_fmt_step fuel f l acc :
  decode_args (S fuel) (CI 3 :: f :: l) None acc = decode_args fuel l (Some f) acc.
Proof. reflexivity. Qed.

Definition encoded_args (fmt : option cell) (args : list parg) : list cell :=
  (match fmt with Some f => [CI 3; f] | None => [] end) ++ flat_map encode_arg args.

Lemma encode_print_shape fmt args :
  encode_print fmt args =
  encoded_args fmt args ++ [CI (Z.of_nat (length (encoded_args fmt args)))].
Proof. reflexivity. Qed.

Lemma print_protocol_roundtrip fmt args :
  decode_print (encoded_args fmt args) = POk fmt args.
Proof.
  unfold decode_print, encoded_args. destruct fmt as [f|].
  - change ([CI 3; f] ++ flat_map encode_arg args) with (CI 3 :: f :: flat_map encode_arg args).
    cbn [length]. rewrite decode_fmt_step. now rewrite decode_args_encode by lia.
  - cbn [app]. now rewrite decode_args_encode by lia.
Qed.

(* the text produced for a plain PRINT is print_text of the items, whatever
   the item values are (also values that look like protocol tags) *)
Lemma exec_print_plain args items :
  map_opt item_of_arg args = Some items ->
  exec_print (encoded_args None args) = OutText [print_text items].
Proof.
  intro H. unfold exec_print. rewrite print_protocol_roundtrip. cbn [emit]. now rewrite H.
Qed.
