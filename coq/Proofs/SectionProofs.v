(* Proofs about the section-level module codec of Models/Codec.v. *)
From Coq Require Import ZArith List Bool Lia ZifyBool.
From QV Require Import Sx Strs Fl Machine Cpu Instrs Codec CodecProofs.
Import ListNotations.
Open Scope Z_scope.
Ltac Zify.zify_post_hook ::= Z.to_euclidean_division_equations.

Lemma len_nonneg {A} (l : list A) : 0 <= len l.
Proof. unfold len. lia. Qed.

Lemma len_be16 z : len (be16 z) = 2. Proof. reflexivity. Qed.
Lemma len_be32 z : len (be32 z) = 4. Proof. reflexivity. Qed.
Lemma sumZ_cons x l : sumZ (x :: l) = x + sumZ l. Proof. reflexivity. Qed.

(* ------------------------------------------------------------------ *)
(* cp437 *)

Lemma index_from_spec c l : forall i j,
  index_from c l i = Some j -> i <= j /\ nth (Z.to_nat (j - i)) l c = c /\ j - i < len l.
Proof.
  induction l as [|x r IH]; intros i j H; simpl in H; [discriminate|].
  destruct (x =? c) eqn:E.
  - injection H as <-. rewrite Z.sub_diag. simpl. rewrite len_cons. unfold len. split; [lia|]. split; lia.
  - apply IH in H. destruct H as (H1 & H2 & H3). split; [lia|].
    replace (Z.to_nat (j - i)) with (S (Z.to_nat (j - (i + 1)))) by lia.
    simpl. rewrite len_cons. split; [assumption | lia].
Qed.

Lemma nth_default_irrel {A} (l : list A) n d d' : (n < length l)%nat -> nth n l d = nth n l d'.
Proof. intros. apply nth_indep. assumption. Qed.

Lemma cp_dec_enc c b : cp_enc c = Some b -> cp_dec b = c.
Proof.
  unfold cp_enc, cp_dec, cp437_decode, in_range. destruct (_ && _) eqn:E.
  - intros [= <-]. replace (c <? 128) with true by lia. reflexivity.
  - destruct (index_from c cp437_upper 0) as [i|] eqn:I; [|discriminate].
    intros Hb. assert (exists d, d = 128 + i /\ b = d) as (d & Hd & ->).
    { exists (128 + i). split; congruence. }
    clear Hb. apply index_from_spec in I. destruct I as (I1 & I2 & I3).
    replace (d <? 128) with false by lia.
    replace (d - 128) with (i - 0) by lia.
    etransitivity; [|exact I2]. apply nth_indep. unfold len in I3. lia.
Qed.

Lemma enc_chars_dec s : forall v, map_opt cp_enc s = Some v -> map cp_dec v = s /\ len v = len s.
Proof.
  induction s as [|c r IH]; intros v H; simpl in H.
  - injection H as <-. split; reflexivity.
  - destruct (cp_enc c) as [b|] eqn:E; [|discriminate].
    destruct (map_opt cp_enc r) as [vr|] eqn:Er; [|discriminate].
    injection H as <-. destruct (IH _ eq_refl) as (I1 & I2).
    simpl. rewrite (cp_dec_enc _ _ E), I1. rewrite !len_cons, I2. split; reflexivity.
Qed.

Lemma text_ok_enc s : text_ok s -> exists v, map_opt cp_enc s = Some v.
Proof.
  induction 1 as [|c r Hc Hr IH]; simpl; [eauto|].
  destruct (cp_enc c); [|congruence]. destruct IH as (v & ->). eauto.
Qed.

(* ------------------------------------------------------------------ *)
(* literals section *)

Lemma take_app (v b : list Z) size :
  len v = size -> take size (v ++ b) = (v, b, false).
Proof.
  intros <-. unfold take. cbv zeta. rewrite firstn_len_app, skipn_len_app.
  replace (len v <? len v) with false by lia. reflexivity.
Qed.

Lemma take_parts (v b : list Z) size :
  len v = size ->
  firstn (Z.to_nat size) (v ++ b) = v /\ skipn (Z.to_nat size) (v ++ b) = b /\
  (len v <? size) = false.
Proof.
  intros <-. rewrite firstn_len_app, skipn_len_app.
  repeat split. lia.
Qed.

Ltac take_solve v b L :=
  let T1 := fresh in let T2 := fresh in let T3 := fresh in
  destruct (take_parts v b _ L) as (T1 & T2 & T3);
  unfold take; cbv zeta; rewrite ?T1, ?T2, ?T3; clear T1 T2 T3.

Lemma enc_text_inv s bs : enc_text s = EOk bs -> map cp_dec bs = s /\ len bs = len s.
Proof.
  unfold enc_text. destruct (map_opt cp_enc s) eqn:E; [|discriminate].
  intros [= <-]. now apply enc_chars_dec.
Qed.

Lemma ebind_inv {A B} (x : eres A) (f : A -> eres B) b :
  ebind x f = EOk b -> exists a, x = EOk a /\ f a = EOk b.
Proof. destruct x; simpl; try discriminate. eauto. Qed.

Lemma enc_literal_inv s a :
  enc_literal s = EOk a ->
  exists v, a = be16 (len s) ++ v /\ map cp_dec v = s /\ len v = len s /\ len s <= 65535.
Proof.
  unfold enc_literal. destruct (65535 <? len s) eqn:E; [discriminate|].
  intros H. apply ebind_inv in H. destruct H as (v & Hv & [= <-]).
  apply enc_text_inv in Hv. destruct Hv. exists v. repeat split; auto. lia.
Qed.

Lemma parse_literals_ok ls : forall bs fuel,
  enc_literals ls = EOk bs -> (length bs <= fuel)%nat -> parse_literals fuel bs = POk ls.
Proof.
  induction ls as [|s r IH]; intros bs fuel H L.
  - simpl in H. injection H as <-. destruct fuel; reflexivity.
  - simpl in H. apply ebind_inv in H. destruct H as (a & Ha & H).
    apply ebind_inv in H. destruct H as (b & Hb & [= <-]).
    apply enc_literal_inv in Ha. destruct Ha as (v & -> & Hv & Lv & Ls).
    pose proof (len_nonneg s).
    destruct fuel as [|f]; [unfold be16 in L; simpl in L; lia|].
    unfold be16 at 1. cbn [app parse_literals].
    change ((len s / 256) :: (len s mod 256) :: v ++ b) with (be16 (len s) ++ (v ++ b)).
    rewrite u16_be16 by lia.
    take_solve v b Lv.
    rewrite (IH b f Hb). 2:{ unfold be16 in L. simpl in L. rewrite !app_length in L. simpl in L. lia. }
    simpl. rewrite Hv. reflexivity.
Qed.

Lemma enc_literals_len ls :
  Forall (fun s => len s <= 65535 /\ text_ok s) ls ->
  exists bs, enc_literals ls = EOk bs /\ len bs = sumZ (map lit_size ls).
Proof.
  induction 1 as [|s r (Hs & Ht) Hr IH].
  - exists []. split; reflexivity.
  - destruct IH as (b & Hb & Lb). destruct (text_ok_enc _ Ht) as (v & Hv).
    destruct (enc_chars_dec _ _ Hv) as (_ & Lv).
    exists ((be16 (len s) ++ v) ++ b). split.
    + simpl. unfold enc_literal, enc_text. replace (65535 <? len s) with false by lia.
      rewrite Hv. simpl. rewrite Hb. reflexivity.
    + rewrite !len_app, len_be16, Lb, Lv. cbn [map]. rewrite sumZ_cons.
      change (lit_size s) with (2 + len s). lia.
Qed.

(* ------------------------------------------------------------------ *)
(* data section *)

Lemma enc_item_inv it a :
  enc_item it = EOk a ->
  forall rest, parse_item (a ++ rest, false) = POk (it, (rest, false)).
Proof.
  destruct it as [|s]; simpl.
  - intros [= <-] rest. reflexivity.
  - destruct (32767 <? len s) eqn:E; [discriminate|]. intros H rest.
    apply ebind_inv in H. destruct H as (v & Hv & Ha). cbv beta in Ha.
    assert (a = be16 (len s) ++ v) as -> by (injection Ha as <-; reflexivity).
    apply enc_text_inv in Hv. destruct Hv as (Hv & Lv).
    pose proof (len_nonneg s).
    unfold parse_item. rewrite <- app_assoc. rewrite i16_be16_small by lia.
    replace (len s <? 0) with false by lia.
    take_solve v rest Lv. rewrite Hv. reflexivity.
Qed.

Lemma parse_items_ok its : forall a rest,
  enc_items its = EOk a ->
  parse_items (length its) (a ++ rest, false) = POk (its, (rest, false)).
Proof.
  induction its as [|it r IH]; intros a rest H; simpl in H.
  - injection H as <-. reflexivity.
  - apply ebind_inv in H. destruct H as (x & Hx & H).
    apply ebind_inv in H. destruct H as (y & Hy & [= <-]).
    cbn [length parse_items]. rewrite <- app_assoc.
    rewrite (enc_item_inv _ _ Hx). cbn [pbind]. rewrite (IH _ _ Hy). reflexivity.
Qed.

Lemma to_nat_len {A} (l : list A) : Z.to_nat (len l) = length l.
Proof. unfold len. apply Nat2Z.id. Qed.

Lemma parse_part_ok p a rest :
  enc_part p = EOk a -> parse_part (a ++ rest, false) = POk (p, (rest, false)).
Proof.
  unfold enc_part. destruct (32767 <? len p) eqn:E; [discriminate|]. intros H.
  apply ebind_inv in H. destruct H as (x & Hx & Ha). cbv beta in Ha.
  assert (a = be16 (len p) ++ x) as -> by (injection Ha as <-; reflexivity).
  pose proof (len_nonneg p).
  unfold parse_part. rewrite <- app_assoc. rewrite u16_be16 by lia.
  rewrite to_nat_len. now apply parse_items_ok.
Qed.

Lemma parse_parts_ok ps : forall a rest,
  enc_parts ps = EOk a ->
  parse_parts (length ps) (a ++ rest, false) = POk (ps, (rest, false)).
Proof.
  induction ps as [|p r IH]; intros a rest H; simpl in H.
  - injection H as <-. reflexivity.
  - apply ebind_inv in H. destruct H as (x & Hx & H).
    apply ebind_inv in H. destruct H as (y & Hy & [= <-]).
    cbn [length parse_parts]. rewrite <- app_assoc.
    rewrite (parse_part_ok _ _ _ Hx). cbn [pbind]. rewrite (IH _ _ Hy). reflexivity.
Qed.

Lemma parse_data_ok d a : enc_data d = EOk a -> parse_data a = POk d.
Proof.
  unfold enc_data. destruct (65535 <? len d) eqn:E; [discriminate|]. intros H.
  apply ebind_inv in H. destruct H as (x & Hx & Ha). cbv beta in Ha.
  assert (a = be16 (len d) ++ x) as -> by (injection Ha as <-; reflexivity).
  pose proof (len_nonneg d).
  unfold parse_data. rewrite u16_be16 by lia. rewrite to_nat_len.
  rewrite <- (app_nil_r x). rewrite (parse_parts_ok _ _ _ Hx). reflexivity.
Qed.

Lemma enc_items_len p :
  Forall item_ok p -> exists bs, enc_items p = EOk bs /\ len bs = sumZ (map item_size p).
Proof.
  induction 1 as [|it r Hi Hr IH].
  - exists []. split; reflexivity.
  - destruct IH as (b & Hb & Lb). destruct it as [|s].
    + exists ([255; 255] ++ b). split; [simpl; rewrite Hb; reflexivity|].
      rewrite len_app, Lb. cbn [map]. rewrite sumZ_cons. reflexivity.
    + destruct Hi as (Hs & Ht). destruct (text_ok_enc _ Ht) as (v & Hv).
      destruct (enc_chars_dec _ _ Hv) as (_ & Lv).
      exists ((be16 (len s) ++ v) ++ b). split.
      * simpl. unfold enc_text. replace (32767 <? len s) with false by lia.
        rewrite Hv. simpl. rewrite Hb. reflexivity.
      * rewrite !len_app, len_be16, Lb, Lv. cbn [map]. rewrite sumZ_cons.
        change (item_size (DText s)) with (2 + len s). lia.
Qed.

Lemma enc_parts_len d :
  Forall (fun p => len p <= 32767 /\ Forall item_ok p) d ->
  exists bs, enc_parts d = EOk bs /\ len bs = sumZ (map part_size d).
Proof.
  induction 1 as [|p r (Hp & Hi) Hr IH].
  - exists []. split; reflexivity.
  - destruct IH as (b & Hb & Lb). destruct (enc_items_len _ Hi) as (x & Hx & Lx).
    exists ((be16 (len p) ++ x) ++ b). split.
    + simpl. unfold enc_part. replace (32767 <? len p) with false by lia.
      rewrite Hx. simpl. rewrite Hb. reflexivity.
    + rewrite !len_app, len_be16, Lb, Lx. cbn [map]. rewrite sumZ_cons.
      change (part_size p) with (2 + sumZ (map item_size p)). lia.
Qed.

(* ------------------------------------------------------------------ *)
(* module *)

Lemma section_step f ty body rest st :
  0 <= len body <= 4294967295 -> zmem ty (ps_seen st) = false ->
  parse_sections (S f) ((ty :: be32 (len body) ++ body) ++ rest) st =
  pbind
    (if ty =? 1 then
       pbind (parse_literals (List.length body) body) (fun ls =>
       POk (mkPstate ls (ps_data st) (ps_nglobals st) (ps_code st) (ty :: ps_seen st)))
     else if ty =? 2 then
       pbind (parse_data body) (fun d =>
       POk (mkPstate (ps_literals st) d (ps_nglobals st) (ps_code st) (ty :: ps_seen st)))
     else if ty =? 3 then
       pbind (parse_globals body) (fun g =>
       POk (mkPstate (ps_literals st) (ps_data st) (Some g) (ps_code st) (ty :: ps_seen st)))
     else if ty =? 4 then
       POk (mkPstate (ps_literals st) (ps_data st) (ps_nglobals st) body (ty :: ps_seen st))
     else if ty =? 5 then
       POk (mkPstate (ps_literals st) (ps_data st) (ps_nglobals st) (ps_code st) (ty :: ps_seen st))
     else PExit)
    (fun st' => parse_sections f rest st').
Proof.
  intros L S. change ((ty :: be32 (len body) ++ body) ++ rest)
    with (ty :: ((be32 (len body) ++ body) ++ rest)).
  cbn [parse_sections]. rewrite S. rewrite <- !app_assoc. rewrite u32_be32 by lia.
  replace (Z.min (len body) (len (body ++ rest) + 1)) with (len body)
    by (rewrite len_app; pose proof (len_nonneg rest); lia).
  take_solve body rest (eq_refl (len body)). reflexivity.
Qed.

Lemma enc_section_inv id body s :
  enc_section id body = EOk s -> s = id :: be32 (len body) ++ body /\ len body <= 4294967295.
Proof.
  unfold enc_section. destruct (4294967295 <? len body) eqn:E; [discriminate|].
  intros [= <-]. split; [reflexivity | lia].
Qed.

Lemma parse_globals_be32 g : 0 <= g <= 4294967295 -> parse_globals (be32 g) = POk g.
Proof.
  intros H. unfold parse_globals. change (be32 g) with
    [g / 65536 / 256; (g / 65536) mod 256; g mod 65536 / 256; (g mod 65536) mod 256].
  change [g / 65536 / 256; (g / 65536) mod 256; g mod 65536 / 256; (g mod 65536) mod 256]
    with (be32 g ++ []) at 2.
  rewrite u32_be32 by lia. reflexivity.
Qed.

Lemma decode_encode_module_gen m bs :
  encode_module m = EOk bs -> decode_module_dbg bs = POk (m, false).
Proof.
  unfold encode_module. intros H.
  apply ebind_inv in H. destruct H as (lits & Hl & H).
  apply ebind_inv in H. destruct H as (dat & Hd & H).
  apply ebind_inv in H. destruct H as (glb & Hg & H).
  apply ebind_inv in H. destruct H as (s1 & H1 & H).
  apply ebind_inv in H. destruct H as (s2 & H2 & H).
  apply ebind_inv in H. destruct H as (s3 & H3 & H).
  apply ebind_inv in H. destruct H as (s4 & H4 & [= <-]).
  apply enc_section_inv in H1, H2, H3, H4.
  destruct H1 as (-> & L1). destruct H2 as (-> & L2). destruct H3 as (-> & L3). destruct H4 as (-> & L4).
  unfold in_range in Hg. destruct (_ && _) eqn:G in Hg; [|discriminate]. injection Hg as <-.
  unfold decode_module_dbg.
  match goal with |- context [parse_sections ?n _ _] => remember n as fuel eqn:Hf end.
  assert (4 <= fuel)%nat as F.
  { subst fuel. rewrite !app_length. simpl. lia. }
  destruct fuel as [|[|[|[|k]]]]; try lia. clear Hf F.
  pose proof (len_nonneg lits). pose proof (len_nonneg dat). pose proof (len_nonneg (b_code m)).
  rewrite section_step by (auto; lia). simpl Z.eqb. cbn iota.
  rewrite (parse_literals_ok _ _ _ Hl) by lia. cbn [pbind].
  rewrite section_step by (auto; lia). simpl Z.eqb. cbn iota.
  rewrite (parse_data_ok _ _ Hd). cbn [pbind].
  rewrite section_step by (auto; unfold be32, be16, len; simpl; lia). simpl Z.eqb. cbn iota.
  rewrite parse_globals_be32 by lia. cbn [pbind].
  rewrite <- (app_nil_r (4 :: be32 (len (b_code m)) ++ b_code m)).
  rewrite section_step by (auto; lia). simpl Z.eqb. cbn iota. cbn [pbind].
  destruct k; cbn [parse_sections pbind]; cbn; destruct m; reflexivity.
Qed.

Lemma sizes_ok_encodes m : sizes_ok m -> exists bs, encode_module m = EOk bs.
Proof.
  intros [Hl Hls Hp Hpt Hds Hg Hc Hcs].
  destruct (enc_literals_len _ Hl) as (lits & El & Ll).
  destruct (enc_parts_len _ Hpt) as (parts & Ep & Lp).
  unfold encode_module. rewrite El. cbn [ebind].
  unfold enc_data. replace (65535 <? len (b_data m)) with false by lia.
  rewrite Ep. cbn [ebind].
  unfold in_range. replace ((0 <=? b_nglobals m) && (b_nglobals m <=? 4294967295)) with true by lia.
  cbn [ebind]. unfold enc_section.
  replace (4294967295 <? len lits) with false by lia. cbn [ebind].
  replace (4294967295 <? len (be16 (len (b_data m)) ++ parts)) with false.
  2:{ rewrite len_app, len_be16, Lp. lia. }
  cbn [ebind].
  replace (4294967295 <? len (be32 (b_nglobals m))) with false by reflexivity. cbn [ebind].
  replace (4294967295 <? len (b_code m)) with false by lia. cbn [ebind]. eauto.
Qed.

Theorem decode_encode_module m :
  sizes_ok m -> exists bs, encode_module m = EOk bs /\ decode_module bs = POk m.
Proof.
  intros S. destruct (sizes_ok_encodes m S) as (bs & E). exists bs. split; [assumption|].
  unfold decode_module. rewrite (decode_encode_module_gen _ _ E). reflexivity.
Qed.

(* the writer refuses what the reader's field could carry: a DATA part of
   32768 items (count written '>h', read '>H') - D30 at section level *)
Lemma wide_part_rejected :
  let m := mkBmod [] [repeat DEmpty (Z.to_nat 32768)] 0 [] in
  encode_module m = EStructError /\ len (hd [] (b_data m)) <= 65535.
Proof. split; vm_compute; [reflexivity | discriminate]. Qed.
