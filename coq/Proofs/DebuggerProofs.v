(* Proofs about the debugger model (Models/Debugger.v) over the machine model.
   Main invariant: whatever the command history, the machine component is the
   state reached by [mn] applications of [tick] to the initial state, up to the
   two fields the debugger itself overwrites (halted, reason); and as long as
   the debugger never drives a finished machine ([mres] = false) it is exactly
   a prefix of the free run. *)
From Coq Require Import ZArith List Bool Lia.
From QV Require Import Sx Strs Fl Cell Machine Cpu Debugger MachineFrame.
Import ListNotations.
Open Scope Z_scope.

(* ---------- n applications of tick ---------- *)

Fixpoint ticks (m : module) (n : nat) (s : st) : option st :=
  match n with
  | O => Some s
  | S k => match tick m s with Next s' => ticks m k s' | _ => None end
  end.

Lemma ticks_snoc m n : forall s a b,
  ticks m n s = Some a -> tick m a = Next b -> ticks m (S n) s = Some b.
Proof.
  induction n; intros s a b H T; simpl in *.
  - inversion H; subst. rewrite T. reflexivity.
  - destruct (tick m s) eqn:E; try discriminate. apply (IHn _ _ _ H T).
Qed.

Lemma ticks_add m a : forall b s s1, ticks m a s = Some s1 -> ticks m (a + b) s = ticks m b s1.
Proof.
  induction a; intros b s s1 H; simpl in *.
  - inversion H; reflexivity.
  - destruct (tick m s); try discriminate. apply IHa; assumption.
Qed.

Lemma ticks_prefix m n : forall j s a, ticks m n s = Some a -> (j <= n)%nat -> exists b, ticks m j s = Some b.
Proof.
  induction n; intros j s a H L.
  - assert (j = O) by lia. subst. exists s. reflexivity.
  - destruct j; [exists s; reflexivity |]. simpl in *.
    destruct (tick m s); try discriminate. apply (IHn j s0 a H). lia.
Qed.

Lemma ticks_ext m n : forall s a, ticks m n s = Some a -> ext (events s) (events a).
Proof.
  induction n; intros s a H; simpl in *.
  - inversion H; apply ext_refl.
  - pose proof (tick_ext m s) as E. destruct (tick m s) eqn:T; try discriminate.
    eapply ext_trans; [exact E | apply IHn; exact H].
Qed.

(* all states before index n are running: not halted, pc inside the code *)
Definition finished (m : module) (s : st) : bool := halted s || (pc s >=? code_len m).
Definition alive (m : module) (s : st) : Prop := finished m s = false.
Definition prefix_alive (m : module) (s0 : st) (n : nat) : Prop :=
  forall j sj, (j < n)%nat -> ticks m j s0 = Some sj -> alive m sj.

(* ---------- the invariant ---------- *)

Definition Inv (m : module) (s0 : st) (x : mach) : Prop :=
  exists sp,
    ticks m (Z.to_nat (mn x)) s0 = Some sp /\ 0 <= mn x /\ eqh sp (ms x) /\
    (mres x = false ->
       halted sp = halted (ms x) /\
       (halted sp = true -> reason (ms x) = reason sp \/ reason (ms x) = H_BREAKPOINT) /\
       prefix_alive m s0 (Z.to_nat (mn x))).

Definition rres_ok (m : module) (s0 : st) (r : rres) : Prop :=
  match r with
  | RDone x | RBp x _ | RFuel x => Inv m s0 x
  | RCrash _ _ | RNeedIn _ => True
  end.

(* the debugger overwrites halted/reason *)
Lemma Inv_edit m s0 x h r l res' :
  Inv m s0 x ->
  (res' = false -> mres x = false /\ h = halted (ms x) /\
                   (h = true -> r = H_BREAKPOINT \/ r = reason (ms x))) ->
  Inv m s0 (mkMach (set_halt (ms x) h r) l (mn x) res').
Proof.
  intros [sp [T [P [E HS]]]] G. exists sp. simpl.
  split; [exact T |]. split; [exact P |]. split; [apply eqh_set_halt_r; exact E |].
  intros H. destruct (G H) as [G1 [G2 G3]]. destruct (HS G1) as [S1 [S2 S3]].
  split; [congruence |]. split; [| exact S3].
  intros Hh. subst h. rewrite <- S1 in G3.
  destruct (G3 Hh) as [-> | ->]; [right; reflexivity | apply (S2 Hh)].
Qed.

Lemma Inv_mtick m s0 x : Inv m s0 x -> rres_ok m s0 (mtick m x).
Proof.
  intros [sp [T [P [E HS]]]]. unfold mtick.
  destruct (tick m (ms x)) as [s' | k s' | s'] eqn:Tk; simpl; try exact I.
  destruct (tick_eqh m sp (ms x) E) as [K Q]. rewrite Tk in K, Q.
  destruct (tick m sp) as [sp' | |] eqn:Tp; simpl in K, Q; try contradiction.
  exists sp'. simpl.
  assert (N : Z.to_nat (mn x + 1) = S (Z.to_nat (mn x))) by lia.
  split; [rewrite N; apply (ticks_snoc m _ s0 sp sp' T Tp) |].
  split; [lia |]. split; [exact Q |].
  intros R. apply orb_false_iff in R. destruct R as [R R3]. apply orb_false_iff in R. destruct R as [R1 R2].
  destruct (HS R1) as [S1 [S2 S3]].
  assert (Hsp : halted sp = false) by congruence.
  destruct (tick_nh m sp (ms x) sp' E Hsp R2 Tp) as [s2' [T2 [Q2 [H2 F2]]]].
  rewrite Tk in T2. inversion T2; subst s2'.
  split; [congruence |]. split.
  - intros Hh. left. rewrite (F2 Hh). reflexivity.
  - rewrite N. intros j sj Lj Tj.
    destruct (Nat.eq_dec j (Z.to_nat (mn x))) as [-> | Nj].
    + rewrite T in Tj. inversion Tj; subst sj. unfold alive, finished.
      rewrite Hsp, (eqh_pc _ _ E), R3. reflexivity.
    + apply (S3 j sj); [lia | exact Tj].
Qed.

Lemma run_loop_inv m di bps t s0 : forall fuel x,
  Inv m s0 x -> rres_ok m s0 (run_loop m di bps t fuel x).
Proof.
  induction fuel; intros x HI; simpl; [exact HI |].
  destruct (halted (ms x)) eqn:Hh; [exact HI |].
  destruct (pc (ms x) >=? code_len m).
  - simpl. unfold with_st. apply Inv_edit; [exact HI |].
    intros R. split; [exact R |]. split; [symmetry; exact Hh |]. intros Hx. discriminate.
  - pose proof (Inv_mtick m s0 x HI) as HM.
    destruct (mtick m x) as [x' | x' h | k x' | x' | x'] eqn:Em; simpl in *; try exact HM.
    destruct (check_bps m di bps t (ms x')) as [[h|] | k]; simpl.
    + apply (Inv_edit m s0 x' (halted (ms x')) H_BREAKPOINT (Some h) (mres x') HM).
      intros R. split; [exact R |]. split; [reflexivity |]. intros _. left. reflexivity.
    + apply IHfuel. exact HM.
    + exact I.
Qed.

Lemma cpu_run_inv m di bps t s0 fuel x :
  Inv m s0 x -> rres_ok m s0 (cpu_run m di bps t fuel x).
Proof.
  intros HI. unfold cpu_run. apply run_loop_inv.
  apply (Inv_edit m s0 x false H_NONE None (mres x || halted (ms x)) HI).
  intros R. apply orb_false_iff in R. destruct R as [R1 R2].
  split; [exact R1 |]. split; [congruence |]. discriminate.
Qed.

Lemma cpu_next_inv m di bps s0 fuel x :
  Inv m s0 x -> rres_ok m s0 (cpu_next m di bps fuel x).
Proof.
  intros HI. unfold cpu_next.
  destruct ((pc (ms x) <? 0) || (pc (ms x) >=? code_len m)); [exact I |].
  destruct (decode (skipn (Z.to_nat (pc (ms x))) (m_code m))) as [| | i size]; try exact I.
  pose proof (Inv_mtick m s0 x HI) as HM.
  destruct i; try exact HM.
  - pose proof (cpu_run_inv m di bps (TNext (pc (ms x) + size)) s0 fuel x HI) as HR.
    destruct (cpu_run m di bps (TNext (pc (ms x) + size)) fuel x) as [x' | x' [a|] | | |]; exact HR.
  - destruct (nthZ (m_literals m) idx); [exact HM | exact I].
Qed.

Lemma next_loop_inv m di bps stmt s0 fuel0 : forall fuel x,
  Inv m s0 x -> rres_ok m s0 (next_loop m di bps stmt fuel0 fuel x).
Proof.
  induction fuel; intros x HI; simpl; [exact HI |].
  destruct (halted (ms x)); [exact HI |].
  pose proof (cpu_next_inv m di bps s0 fuel0 x HI) as HN.
  destruct (cpu_next m di bps fuel0 x) as [x' | x' h | k x' | x' | x']; simpl in *; try exact HN.
  destruct (find_nonempty m di (pc (ms x'))); [| exact I].
  destruct (stmt_neq a stmt); [exact HN | apply IHfuel; exact HN].
Qed.

Lemma start_loop_inv m di s0 : forall fuel x,
  Inv m s0 x -> rres_ok m s0 (start_loop m di fuel x).
Proof.
  induction fuel; intros x HI; simpl; [exact HI |].
  destruct (halted (ms x)); [exact HI |].
  destruct (dfind_stmt m di (pc (ms x))) as [[r|] | k]; try exact HI; [| exact I].
  pose proof (Inv_mtick m s0 x HI) as HM.
  destruct (mtick m x) as [x' | x' h | k x' | x' | x']; simpl in *; try exact HM.
  apply IHfuel; exact HM.
Qed.

(* ---------- sessions ---------- *)

Definition dInv (m : module) (s0 : st) (d : dbg) : Prop := d_status d = Live -> Inv m s0 (d_m d).

Lemma finish_inv m s0 d r b : rres_ok m s0 r -> dInv m s0 (finish d r b).
Proof.
  intros H. unfold dInv, finish.
  destruct r as [x | x [a|] | k x | x | x]; simpl; intros L; try discriminate; exact H.
Qed.

Lemma exec_cmd_inv m di fuel s0 d c : dInv m s0 d -> dInv m s0 (exec_cmd m di fuel d c).
Proof.
  intros HD. unfold exec_cmd.
  destruct (d_status d) eqn:Es; try exact HD.
  assert (HI : Inv m s0 (d_m d)) by (apply HD; exact Es).
  assert (Hsame : forall bp st ms_, dInv m s0 (mkDbg (d_m d) bp st ms_)) by (intros; intro; exact HI).
  destruct c.
  - destruct (blocked (d_st d)); [apply Hsame |].
    unfold do_step. destruct (find_nonempty m di (pc (d_st d))); [| apply Hsame].
    apply finish_inv. apply cpu_run_inv. exact HI.
  - destruct (blocked (d_st d)); [apply Hsame |].
    unfold do_next. destruct (find_nonempty m di (pc (d_st d))); [| apply Hsame].
    apply finish_inv. apply next_loop_inv. exact HI.
  - destruct (blocked (d_st d)); [apply Hsame |]. apply finish_inv. apply Inv_mtick. exact HI.
  - destruct (blocked (d_st d)); [apply Hsame |]. apply finish_inv. apply cpu_next_inv. exact HI.
  - destruct (blocked (d_st d)); [apply Hsame |]. apply finish_inv. apply cpu_run_inv. exact HI.
  - unfold do_break. destruct (l <? 0); [apply Hsame |].
    destruct (resolve_line di l); apply Hsame.
  - unfold do_delbr. destruct (l <? 0); [apply Hsame |].
    destruct (resolve_line di l); [| apply Hsame].
    destruct (existsb _ _); apply Hsame.
Qed.

Lemma exec_cmds_inv m di fuel s0 : forall h d, dInv m s0 d -> dInv m s0 (exec_cmds m di fuel d h).
Proof.
  induction h as [|c h IH]; intros d HD; simpl; [exact HD |].
  apply IH. apply exec_cmd_inv. exact HD.
Qed.

(* load_instructions leaves the machine alone when the code decodes linearly
   (no unknown opcode met by the linear sweep); true of every compiled module *)
Fixpoint sweep_clean (m : module) (fuel : nat) (addr : Z) : bool :=
  match fuel with
  | O => true
  | S f =>
    if addr >=? code_len m then true
    else
      match decode (skipn (Z.to_nat addr) (m_code m)) with
      | DOk (IPushStr idx) size =>
        match nthZ (m_literals m) idx with Some _ => sweep_clean m f (addr + size) | None => true end
      | DOk _ size => sweep_clean m f (addr + size)
      | DUnknown => false
      | DTrunc => true
      end
  end.

Definition loads_clean (m : module) : bool := sweep_clean m (S (length (m_code m))) 0.

Lemma sweep_clean_ok m s : forall fuel addr,
  sweep_clean m fuel addr = true ->
  match sweep m fuel addr s with Next s' => s' = s | _ => True end.
Proof.
  induction fuel; intros addr H; simpl in *; [reflexivity |].
  destruct (addr >=? code_len m); [reflexivity |].
  destruct (decode (skipn (Z.to_nat addr) (m_code m))) as [| | i size]; try discriminate; try exact I.
  destruct i; try (apply IHfuel; exact H).
  destruct (nthZ (m_literals m) idx); [apply IHfuel; exact H | exact I].
Qed.

Lemma Inv_init m s0 : Inv m s0 (mkMach s0 None 0 false).
Proof.
  exists s0. simpl. split; [reflexivity |]. split; [lia |]. split; [apply eqh_refl |].
  intros _. split; [reflexivity |]. split; [intros _; left; reflexivity |].
  intros j sj L. lia.
Qed.

Lemma start_inv m di fuel s0 : loads_clean m = true -> dInv m s0 (start m di fuel s0).
Proof.
  intros C. unfold start.
  pose proof (sweep_clean_ok m s0 _ _ C) as HS.
  destruct (sweep m (S (length (m_code m))) 0 s0) as [s | k s | s]; try (intro L; discriminate).
  subst s.
  destruct (negb (pc s0 =? 0)); [intro L; discriminate |].
  pose proof (start_loop_inv m di s0 fuel _ (Inv_init m s0)) as HL.
  destruct (start_loop m di fuel (mkMach s0 None 0 false)) as [x | x h | k x | x | x] eqn:E.
  - intro L. exact HL.
  - apply finish_inv. exact HL.
  - apply finish_inv. exact HL.
  - apply finish_inv. exact HL.
  - apply finish_inv. exact HL.
Qed.

Lemma session_inv m di sc fuel h :
  loads_clean m = true -> dInv m (init_state m sc) (session m di sc fuel h).
Proof. intros C. unfold session. apply exec_cmds_inv. apply start_inv. exact C. Qed.

(* ---------- the free run (Cpu.run) in terms of ticks ---------- *)

Lemma run_spec m : forall fuel s k sf N,
  run m fuel s k = (sf, StHalt, N) ->
  exists n, ticks m n s = Some sf /\ N = k + Z.of_nat n /\ finished m sf = true /\ prefix_alive m s n.
Proof.
  induction fuel; intros s k sf N H; simpl in H; [inversion H |].
  fold (finished m s) in H.
  destruct (finished m s) eqn:F.
  - inversion H; subst. exists O. simpl. split; [reflexivity |]. split; [lia |]. split; [exact F |].
    intros j sj L. lia.
  - destruct (tick m s) as [s' | |] eqn:T; try (inversion H; fail).
    destruct (IHfuel s' (k + 1) sf N H) as [n [T' [EN [F' PA]]]].
    exists (S n). simpl. rewrite T. split; [exact T' |]. split; [lia |]. split; [exact F' |].
    intros j sj L Tj. destruct j; simpl in Tj.
    + inversion Tj; subst. exact F.
    + rewrite T in Tj. apply (PA j sj); [lia | exact Tj].
Qed.

Lemma first_finished m s0 n n' a b :
  ticks m n s0 = Some a -> prefix_alive m s0 n -> finished m a = true ->
  ticks m n' s0 = Some b -> prefix_alive m s0 n' -> finished m b = true ->
  n = n' /\ a = b.
Proof.
  intros Ta Pa Fa Tb Pb Fb.
  destruct (lt_eq_lt_dec n n') as [[L | E] | L].
  - specialize (Pb n a L Ta). unfold alive in Pb. congruence.
  - subst. rewrite Ta in Tb. inversion Tb. split; reflexivity.
  - specialize (Pa n' b L Tb). unfold alive in Pa. congruence.
Qed.

(* ---------- T1: commands only tick ---------- *)

Lemma commands_only_tick m di sc fuel h :
  loads_clean m = true ->
  let d := session m di sc fuel h in
  d_status d = Live ->
  exists sp, ticks m (Z.to_nat (mn (d_m d))) (init_state m sc) = Some sp /\
             set_halt sp false 0 = set_halt (d_st d) false 0.
Proof.
  intros C d L. destruct (session_inv m di sc fuel h C L) as [sp [T [P [E _]]]].
  exists sp. split; [exact T | exact E].
Qed.

Lemma events_are_tick_events m di sc fuel h :
  loads_clean m = true ->
  let d := session m di sc fuel h in
  d_status d = Live ->
  exists sp, ticks m (Z.to_nat (mn (d_m d))) (init_state m sc) = Some sp /\
             events (d_st d) = events sp.
Proof.
  intros C d L. destruct (session_inv m di sc fuel h C L) as [sp [T [P [E _]]]].
  exists sp. split; [exact T | symmetry; apply eqh_events; exact E].
Qed.

(* ---------- T2: prefix of the free run ---------- *)

Lemma events_prefix_of_free_run m di sc fuel h fuel' sf N :
  loads_clean m = true ->
  let d := session m di sc fuel h in
  d_status d = Live -> mres (d_m d) = false ->
  run m fuel' (init_state m sc) 0 = (sf, StHalt, N) ->
  mn (d_m d) <= N /\ exists l, events sf = l ++ events (d_st d).
Proof.
  intros C d L R HR.
  destruct (session_inv m di sc fuel h C L) as [sp [T [P [E HS]]]].
  destruct (HS R) as [S1 [S2 S3]].
  destruct (run_spec m fuel' _ 0 sf N HR) as [n [Tn [EN [Fn PAn]]]].
  assert (Le : (Z.to_nat (mn (d_m d)) <= n)%nat).
  { destruct (le_lt_dec (Z.to_nat (mn (d_m d))) n) as [Le | Lt]; [exact Le |].
    specialize (S3 n sf Lt Tn). unfold alive in S3. congruence. }
  split; [lia |].
  replace n with (Z.to_nat (mn (d_m d)) + (n - Z.to_nat (mn (d_m d))))%nat in Tn by lia.
  rewrite (ticks_add m _ _ _ _ T) in Tn.
  destruct (ticks_ext m _ _ _ Tn) as [l Hl]. exists l. rewrite Hl. f_equal.
  exact (eqh_events _ _ E).
Qed.

(* ---------- T3: transparency ---------- *)

Lemma transparent m di sc fuel h fuel' sf N :
  loads_clean m = true ->
  let d := session m di sc fuel h in
  d_status d = Live -> mres (d_m d) = false -> halted (d_st d) = true ->
  run m fuel' (init_state m sc) 0 = (sf, StHalt, N) ->
  set_halt (d_st d) true 0 = set_halt sf true 0 /\
  halted sf = true /\
  (reason (d_st d) = reason sf \/ reason (d_st d) = H_BREAKPOINT) /\
  events (d_st d) = events sf /\
  mn (d_m d) = N.
Proof.
  intros C d L R Hh HR.
  destruct (session_inv m di sc fuel h C L) as [sp [T [P [E HS]]]].
  destruct (HS R) as [S1 [S2 S3]].
  destruct (run_spec m fuel' _ 0 sf N HR) as [n [Tn [EN [Fn PAn]]]].
  assert (Fsp : finished m sp = true).
  { unfold finished. replace (halted sp) with true; [reflexivity |]. rewrite S1. symmetry. exact Hh. }
  destruct (first_finished m _ _ _ _ _ T S3 Fsp Tn PAn Fn) as [En Es]. subst sf.
  split; [| split; [| split; [| split]]].
  - symmetry. apply (f_equal (fun s => set_halt s true 0)) in E. exact E.
  - rewrite S1. exact Hh.
  - refine (S2 _). rewrite S1. exact Hh.
  - symmetry. exact (eqh_events _ _ E).
  - rewrite EN, <- En, Z2Nat.id by exact P. reflexivity.
Qed.

(* ---------- where run() returns ---------- *)

Definition stop_ok (m : module) (di : dbginfo) (bps : list Z) (t : tbp) (r : rres) : Prop :=
  match r with
  | RDone x' => finished m (ms x') = true
  | RBp x' (HitUser a) => pc (ms x') = a /\ In a bps /\ mlast x' = Some (HitUser a)
  | RBp x' HitTemp =>
    user_hit bps (pc (ms x')) = None /\
    match t with
    | TNoTemp => False
    | TNext a => pc (ms x') = a
    | TStep stmt => exists r, find_nonempty m di (pc (ms x')) = Ok (Some r) /\ stmt_neq (Some r) stmt = true
    end
  | _ => True
  end.

Lemma user_hit_some bps p a : user_hit bps p = Some a -> p = a /\ In a bps.
Proof.
  unfold user_hit. intros H. apply find_some in H. destruct H as [H1 H2].
  apply Z.eqb_eq in H2. split; assumption.
Qed.

Lemma check_bps_spec m di bps t s h :
  check_bps m di bps t s = Ok (Some h) ->
  match h with
  | HitUser a => pc s = a /\ In a bps
  | HitTemp =>
    user_hit bps (pc s) = None /\
    match t with
    | TNoTemp => False
    | TNext a => pc s = a
    | TStep stmt => exists r, find_nonempty m di (pc s) = Ok (Some r) /\ stmt_neq (Some r) stmt = true
    end
  end.
Proof.
  unfold check_bps. destruct (user_hit bps (pc s)) as [a|] eqn:U.
  - intros H. inversion H; subst. apply user_hit_some; exact U.
  - destruct t as [| stmt | a].
    + discriminate.
    + destruct (find_nonempty m di (pc s)) as [[r|] | k] eqn:F; try discriminate.
      destruct stmt as [r0|].
      * destruct (rec_eqb r r0) eqn:Q; [discriminate |]. intros H. inversion H; subst.
        split; [reflexivity |]. exists r. split; [reflexivity |]. simpl. rewrite Q. reflexivity.
      * intros H. inversion H; subst. split; [reflexivity |]. exists r. split; reflexivity.
    + destruct (pc s =? a) eqn:Q; [| discriminate]. intros H. inversion H; subst.
      split; [reflexivity |]. apply Z.eqb_eq; exact Q.
Qed.

Lemma mtick_shape m x : match mtick m x with RBp _ _ | RFuel _ => False | _ => True end.
Proof. unfold mtick. destruct (tick m (ms x)); exact I. Qed.

Lemma run_loop_stop m di bps t : forall fuel x, stop_ok m di bps t (run_loop m di bps t fuel x).
Proof.
  induction fuel; intros x; simpl; [exact I |].
  destruct (halted (ms x)) eqn:Hh.
  - simpl. unfold finished. rewrite Hh. reflexivity.
  - destruct (pc (ms x) >=? code_len m) eqn:Hp.
    + simpl. unfold finished. simpl. rewrite Hp. first [reflexivity | apply orb_true_r].
    + pose proof (mtick_shape m x) as Sh.
      destruct (mtick m x) as [x' | x' h | k x' | x' | x']; simpl; try exact I; try contradiction.
      destruct (check_bps m di bps t (ms x')) as [[h|] | k] eqn:C; simpl; try exact I.
      * pose proof (check_bps_spec m di bps t (ms x') h C) as Sp.
        destruct h as [a|]; simpl.
        -- destruct Sp as [S1 S2]. split; [exact S1 |]. split; [exact S2 | reflexivity].
        -- exact Sp.
      * apply IHfuel.
Qed.

Lemma cpu_run_stop m di bps t fuel x : stop_ok m di bps t (cpu_run m di bps t fuel x).
Proof. unfold cpu_run. apply run_loop_stop. Qed.

(* ---------- T4: continue returns halted or at a breakpoint ---------- *)

Lemma breakpoint_stops_only_at_bp m di fuel d :
  d_status d = Live -> blocked (d_st d) = false ->
  let d' := exec_cmd m di fuel d CContinue in
  d_status d' = Live ->
  (finished m (d_st d') = true /\ d_msgs d' = []) \/
  (In (pc (d_st d')) (d_bps d) /\ d_msgs d' = [MHit] /\ mlast (d_m d') = Some (HitUser (pc (d_st d')))).
Proof.
  intros L B d' L'. unfold d', exec_cmd in *. rewrite L, B in *.
  pose proof (cpu_run_stop m di (d_bps d) TNoTemp fuel (d_m d)) as S.
  destruct (cpu_run m di (d_bps d) TNoTemp fuel (d_m d)) as [x | x [a|] | k x | x | x]; simpl in *;
    try discriminate.
  - left. split; [exact S | reflexivity].
  - right. destruct S as [S1 [S2 S3]]. unfold d_st. simpl. rewrite S1. repeat split; assumption.
  - destruct S as [_ []].
Qed.

(* ---------- T5: delbr ---------- *)

Lemma remove_first_count a l :
  count_occ Z.eq_dec (remove_first a l) a = pred (count_occ Z.eq_dec l a).
Proof.
  induction l as [|x l IH]; simpl; [reflexivity |].
  destruct (x =? a) eqn:Q.
  - apply Z.eqb_eq in Q. subst. destruct (Z.eq_dec a a); [reflexivity | contradiction].
  - apply Z.eqb_neq in Q. simpl. destruct (Z.eq_dec x a); [contradiction | exact IH].
Qed.

Lemma remove_first_count_other a b l : a <> b ->
  count_occ Z.eq_dec (remove_first a l) b = count_occ Z.eq_dec l b.
Proof.
  intros N. induction l as [|x l IH]; simpl; [reflexivity |].
  destruct (x =? a) eqn:Q.
  - apply Z.eqb_eq in Q. subst. destruct (Z.eq_dec a b); [contradiction | reflexivity].
  - simpl. destruct (Z.eq_dec x b); [rewrite IH; reflexivity | exact IH].
Qed.

Lemma delbr_removes m fuel di l d r :
  d_status d = Live -> 0 <= l -> resolve_line di l = Some r ->
  let d' := exec_cmd m di fuel d (CDelbr l) in
  let a := r_start r in
  count_occ Z.eq_dec (d_bps d') a = pred (count_occ Z.eq_dec (d_bps d) a) /\
  (forall b, b <> a -> count_occ Z.eq_dec (d_bps d') b = count_occ Z.eq_dec (d_bps d) b) /\
  d_m d' = d_m d.
Proof.
  intros L P R d' a. unfold d', exec_cmd, do_delbr. rewrite L.
  assert (Q : (l <? 0) = false) by (apply Z.ltb_ge; exact P). rewrite Q, R.
  destruct (existsb (fun a0 => a0 =? r_start r) (d_bps d)) eqn:X; simpl.
  - split; [apply remove_first_count |]. split; [| reflexivity].
    intros b N. apply remove_first_count_other. intro E. apply N. symmetry. exact E.
  - split; [| split; [reflexivity | reflexivity]].
    assert (Z0 : count_occ Z.eq_dec (d_bps d) a = O).
    { apply count_occ_not_In. intros I. assert (existsb (fun a0 => a0 =? r_start r) (d_bps d) = true).
      { apply existsb_exists. exists a. split; [exact I | apply Z.eqb_refl]. }
      congruence. }
    rewrite Z0. reflexivity.
Qed.

(* a breakpoint that is not (any longer) in the list never stops continue *)
Lemma absent_breakpoint_never_stops m di fuel d a :
  d_status d = Live -> blocked (d_st d) = false -> ~ In a (d_bps d) ->
  let d' := exec_cmd m di fuel d CContinue in
  d_status d' = Live -> d_msgs d' = [MHit] -> pc (d_st d') <> a.
Proof.
  intros L B NI d' L' M.
  destruct (breakpoint_stops_only_at_bp m di fuel d L B L') as [[_ E] | [I _]].
  - fold d' in E. rewrite E in M. discriminate.
  - intros Q. apply NI. rewrite <- Q. exact I.
Qed.

(* ---------- how a line breakpoint is resolved ---------- *)

Lemma insert_soff_in r l x : In x (insert_soff r l) <-> x = r \/ In x l.
Proof.
  induction l as [|y l IH]; simpl.
  - split; intros [H | H]; auto; contradiction.
  - destruct (r_soff r <? r_soff y); simpl.
    + split; intros [H | H]; auto.
    + rewrite IH. split; intros H; tauto.
Qed.

Lemma sort_soff_in_gen di : forall acc x,
  In x (fold_left (fun acc r => insert_soff r acc) di acc) <-> In x di \/ In x acc.
Proof.
  induction di as [|r di IH]; intros acc x; simpl.
  - tauto.
  - rewrite IH, insert_soff_in.
    split; [intros [H | [H | H]] | intros [[H | H] | H]]; subst; auto.
Qed.

Lemma sort_soff_in di x : In x (sort_soff di) <-> In x di.
Proof. unfold sort_soff. rewrite sort_soff_in_gen. simpl. tauto. Qed.

Fixpoint sorted_soff (l : list srec) : Prop :=
  match l with
  | [] => True
  | x :: t => (forall y, In y t -> r_soff x <= r_soff y) /\ sorted_soff t
  end.

Lemma insert_soff_sorted r l : sorted_soff l -> sorted_soff (insert_soff r l).
Proof.
  induction l as [|y l IH]; simpl; intros S.
  - split; [intros ? [] | exact I].
  - destruct S as [S1 S2]. destruct (r_soff r <? r_soff y) eqn:Q; simpl.
    + apply Z.ltb_lt in Q. split; [| split; assumption].
      intros z [-> | Hz]; [lia | specialize (S1 z Hz); lia].
    + apply Z.ltb_ge in Q. split; [| apply IH; exact S2].
      intros z Hz. apply insert_soff_in in Hz. destruct Hz as [-> | Hz]; [exact Q | apply S1; exact Hz].
Qed.

Lemma sort_soff_sorted di : sorted_soff (sort_soff di).
Proof.
  unfold sort_soff. assert (G : forall acc, sorted_soff acc ->
    sorted_soff (fold_left (fun acc r => insert_soff r acc) di acc)).
  { induction di as [|r di IH]; intros acc S; simpl; [exact S |]. apply IH. apply insert_soff_sorted. exact S. }
  apply G. exact I.
Qed.

Lemma find_sorted_first f l r : sorted_soff l -> find f l = Some r ->
  In r l /\ f r = true /\ forall y, In y l -> f y = true -> r_soff r <= r_soff y.
Proof.
  induction l as [|x l IH]; simpl; intros S H; [discriminate |].
  destruct S as [S1 S2]. destruct (f x) eqn:Fx.
  - inversion H; subst. split; [left; reflexivity |]. split; [exact Fx |].
    intros y [-> | Hy] _; [lia | apply S1; exact Hy].
  - destruct (IH S2 H) as [I1 [I2 I3]]. split; [right; exact I1 |]. split; [exact I2 |].
    intros y [-> | Hy] Fy; [congruence | apply I3; assumption].
Qed.

(* the address of `break L`: a statement record at or after line L with at least
   one instruction, the first such in source order *)
Lemma resolve_line_spec di l r :
  resolve_line di l = Some r ->
  In r di /\ l <= r_line r /\ 0 < rec_size r /\
  forall y, In y di -> l <= r_line y -> 0 < rec_size y -> r_soff r <= r_soff y.
Proof.
  unfold resolve_line. intros H.
  destruct (find_sorted_first _ _ _ (sort_soff_sorted di) H) as [I1 [I2 I3]].
  apply andb_true_iff in I2. destruct I2 as [A B].
  split; [apply sort_soff_in; exact I1 |]. split; [apply Z.geb_le in A; lia |]. split; [apply Z.gtb_lt in B; lia |].
  intros y Iy Ly Sy. apply I3; [apply sort_soff_in; exact Iy |].
  apply andb_true_iff. split; [apply Z.geb_le; lia | apply Z.gtb_lt; lia].
Qed.

Lemma break_sets_resolved m fuel di l d r :
  d_status d = Live -> 0 <= l -> resolve_line di l = Some r ->
  let d' := exec_cmd m di fuel d (CBreak l) in
  d_bps d' = d_bps d ++ [r_start r] /\ d_m d' = d_m d.
Proof.
  intros L P R d'. unfold d', exec_cmd, do_break. rewrite L.
  assert (Q : (l <? 0) = false) by (apply Z.ltb_ge; exact P). rewrite Q, R. split; reflexivity.
Qed.

(* ---------- T6: step / next progress ---------- *)

Lemma step_progress m di fuel d stmt :
  d_status d = Live -> blocked (d_st d) = false ->
  find_nonempty m di (pc (d_st d)) = Ok stmt ->
  let d' := exec_cmd m di fuel d CStep in
  d_status d' = Live ->
  finished m (d_st d') = true \/
  In (pc (d_st d')) (d_bps d) \/
  exists r, find_nonempty m di (pc (d_st d')) = Ok (Some r) /\ stmt_neq (Some r) stmt = true.
Proof.
  intros L B F d' L'. unfold d', exec_cmd, do_step in *. rewrite L, B, F in *.
  pose proof (cpu_run_stop m di (d_bps d) (TStep stmt) fuel (d_m d)) as S.
  destruct (cpu_run m di (d_bps d) (TStep stmt) fuel (d_m d)) as [x | x [a|] | k x | x | x]; simpl in *;
    try discriminate.
  - left. exact S.
  - right. left. destruct S as [S1 [S2 _]]. unfold d_st. simpl. rewrite S1. exact S2.
  - right. right. exact (proj2 S).
Qed.

Lemma cpu_next_stop m di bps fuel x :
  match cpu_next m di bps fuel x with
  | RBp x' (HitUser a) => pc (ms x') = a /\ In a bps
  | RBp _ HitTemp => False
  | _ => True
  end.
Proof.
  unfold cpu_next.
  destruct ((pc (ms x) <? 0) || (pc (ms x) >=? code_len m)); [exact I |].
  destruct (decode (skipn (Z.to_nat (pc (ms x))) (m_code m))) as [| | i size]; try exact I.
  pose proof (mtick_shape m x) as Sh.
  destruct i; try (destruct (mtick m x) as [? | ? [?|] | | |]; try contradiction; exact I).
  - pose proof (cpu_run_stop m di bps (TNext (pc (ms x) + size)) fuel x) as S.
    destruct (cpu_run m di bps (TNext (pc (ms x) + size)) fuel x) as [x' | x' [a|] | | |]; try exact I.
    destruct S as [S1 [S2 _]]. split; assumption.
  - destruct (nthZ (m_literals m) idx); [| exact I].
    destruct (mtick m x) as [? | ? [?|] | | |]; try contradiction; exact I.
Qed.

(* what next() guarantees when it skips a call: control is at the return
   address - NOT that the activation is the one the command was issued in *)
Lemma cpu_next_call_returns m di bps fuel x t size x' :
  (pc (ms x) <? 0) || (pc (ms x) >=? code_len m) = false ->
  decode (skipn (Z.to_nat (pc (ms x))) (m_code m)) = DOk (ICall t) size ->
  cpu_next m di bps fuel x = RDone x' ->
  finished m (ms x') = true \/ pc (ms x') = pc (ms x) + size.
Proof.
  intros R D. unfold cpu_next. rewrite R, D.
  pose proof (cpu_run_stop m di bps (TNext (pc (ms x) + size)) fuel x) as S.
  destruct (cpu_run m di bps (TNext (pc (ms x) + size)) fuel x) as [x1 | x1 [a|] | | |];
    intros H; inversion H; subst.
  - left. exact S.
  - right. exact (proj2 S).
Qed.

Lemma next_loop_stop m di bps stmt fuel0 : forall fuel x,
  match next_loop m di bps stmt fuel0 fuel x with
  | RDone x' => halted (ms x') = true \/
                exists new, find_nonempty m di (pc (ms x')) = Ok new /\ stmt_neq new stmt = true
  | RBp x' (HitUser a) => pc (ms x') = a /\ In a bps
  | RBp _ HitTemp => False
  | _ => True
  end.
Proof.
  induction fuel; intros x; simpl; [exact I |].
  destruct (halted (ms x)) eqn:Hh; [left; exact Hh |].
  pose proof (cpu_next_stop m di bps fuel0 x) as S.
  destruct (cpu_next m di bps fuel0 x) as [x' | x' [a|] | k x' | x' | x']; try exact I; try exact S.
  destruct (find_nonempty m di (pc (ms x'))) as [new | k] eqn:F; [| exact I].
  destruct (stmt_neq new stmt) eqn:Q.
  - right. exists new. split; assumption.
  - apply IHfuel.
Qed.

Lemma next_progress m di fuel d stmt :
  d_status d = Live -> blocked (d_st d) = false ->
  find_nonempty m di (pc (d_st d)) = Ok stmt ->
  let d' := exec_cmd m di fuel d CNext in
  d_status d' = Live ->
  halted (d_st d') = true \/
  In (pc (d_st d')) (d_bps d) \/
  exists new, find_nonempty m di (pc (d_st d')) = Ok new /\ stmt_neq new stmt = true.
Proof.
  intros L B F d' L'. unfold d', exec_cmd, do_next in *. rewrite L, B, F in *.
  pose proof (next_loop_stop m di (d_bps d) stmt fuel fuel (d_m d)) as S.
  destruct (next_loop m di (d_bps d) stmt fuel fuel (d_m d)) as [x | x [a|] | k x | x | x]; simpl in *;
    try discriminate.
  - destruct S as [S | S]; [left; exact S | right; right; exact S].
  - right. left. destruct S as [S1 S2]. unfold d_st. simpl. rewrite S1. exact S2.
  - contradiction.
Qed.

(* ---------- concrete witnesses (modules produced by the real compiler, -O0 -g) ---------- *)

(* CALL down(2)
   PRINT "back"
   SUB down(n%)
   IF n% > 0 THEN
   PRINT n%
   CALL down(n% - 1)
   PRINT "up"; n%
   END IF
   END SUB *)
Definition wit_code : list Z :=
  [5; 0; 0; 0; 6; 100; 23; 0; 0; 0; 0; 60; 5; 0; 0; 0; 26; 52; 43; 0; 0; 60; 27; 2; 2; 91; 23; 0; 1; 0; 0;
   77; 0; 0; 18; 52; 105; 102; 29; 0; 0; 0; 84; 52; 77; 0; 0; 18; 60; 27; 2; 2; 77; 0; 0; 18; 56; 93; 5;
   0; 0; 0; 26; 52; 43; 0; 1; 56; 52; 77; 0; 0; 18; 39; 0; 5; 27; 2; 2; 28; 0; 0; 0; 84; 91].
Definition wit_literals : list str := [[98; 97; 99; 107]; [117; 112]].
Definition wit_stmts : list (Z * Z) :=
  [(11, 17); (17, 25); (26, 31); (31, 43); (43, 52); (52, 63); (63, 79); (79, 84); (84, 85)].
Definition wit_di : dbginfo :=
  [mkRec 11 17 1 0 0; mkRec 17 25 2 13 1; mkRec 26 31 3 26 2; mkRec 31 43 4 39 3; mkRec 43 52 5 54 4;
   mkRec 52 63 6 63 5; mkRec 63 79 7 81 6; mkRec 79 84 8 96 7; mkRec 84 85 9 103 8].
Definition wit_module : module := mkModule wit_code wit_literals [] 0 (Some wit_stmts).
Definition no_script : script := mkScript [] [] [] [].
Definition wit_fuel : nat := Z.to_nat 2000.

(* D25: next, issued at line 6 (CALL down(n% - 1)) in the activation n% = 2,
   returns at line 7 inside the activation n% = 1: one frame deeper, machine
   running, no user breakpoint involved *)
Lemma next_skips_calls_refuted :
  exists m di sc fuel h,
    loads_clean m = true /\
    let d := session m di sc fuel h in
    let d' := exec_cmd m di fuel d CNext in
    d_status d = Live /\ d_status d' = Live /\ mres (d_m d') = false /\
    d_bps d = [] /\ d_msgs d' = [] /\ halted (d_st d') = false /\
    cur_line m di (d_st d) = Some 6 /\ cur_line m di (d_st d') = Some 7 /\
    depth (d_st d) = 2 /\ depth (d_st d') = 3.
Proof.
  exists wit_module, wit_di, no_script, wit_fuel, [CStep; CStep; CStep; CStep].
  vm_compute. repeat split; reflexivity.
Qed.

(* PRINT 1
   x% = 1
   y% = x% \ (x% - 1)
   PRINT 2
   PRINT 3 *)
Definition wit2_code : list Z :=
  [5; 0; 0; 0; 6; 100; 23; 0; 0; 0; 2; 52; 56; 60; 27; 2; 2; 56; 95; 0; 0; 72; 0; 0; 72; 0; 0; 56; 93; 25;
   95; 0; 1; 52; 60; 60; 27; 2; 2; 52; 39; 0; 3; 60; 27; 2; 2; 91].
Definition wit2_stmts : list (Z * Z) := [(11, 17); (17, 21); (21, 33); (33, 39); (39, 47)].
Definition wit2_di : dbginfo :=
  [mkRec 11 17 1 0 0; mkRec 17 21 2 8 1; mkRec 21 33 3 15 2; mkRec 33 39 4 34 3; mkRec 39 47 5 42 4].
Definition wit2_module : module := mkModule wit2_code [] [] 0 (Some wit2_stmts).

(* D25c: the free run prints once and halts with a trap; continue; continue
   resumes behind the trapping instruction and prints three times *)
Lemma transparent_refuted :
  exists m di sc fuel h sf N,
    loads_clean m = true /\
    let d := session m di sc fuel h in
    d_status d = Live /\ halted (d_st d) = true /\ mres (d_m d) = true /\
    run m fuel (init_state m sc) 0 = (sf, StHalt, N) /\
    reason sf = H_TRAP /\
    length (events sf) = 1%nat /\ length (events (d_st d)) = 3%nat /\ mn (d_m d) > N.
Proof.
  exists wit2_module, wit2_di, no_script, wit_fuel, [CContinue; CContinue].
  eexists. eexists. vm_compute. repeat split; reflexivity.
Qed.

(* non-vacuity of the guarded theorems: a session that steps, sets and hits a
   breakpoint and runs to the end without ever driving a finished machine *)
Lemma session_example :
  let d := session wit_module wit_di no_script wit_fuel [CStep; CBreak 7; CContinue; CContinue; CDelbr 7; CNext; CContinue] in
  d_status d = Live /\ mres (d_m d) = false /\ halted (d_st d) = true /\ reason (d_st d) = H_INSTRUCTION /\
  d_bps d = [] /\ length (events (d_st d)) = 5%nat.
Proof. vm_compute. repeat split; reflexivity. Qed.

(* ---------- the tick counter never decreases; events form a chain ---------- *)

Definition rstate (r : rres) : mach :=
  match r with RDone x | RBp x _ | RCrash _ x | RNeedIn x | RFuel x => x end.

Lemma mtick_mn m x : mn x <= mn (rstate (mtick m x)).
Proof. unfold mtick. destruct (tick m (ms x)); simpl; lia. Qed.

Lemma run_loop_mn m di bps t : forall fuel x, mn x <= mn (rstate (run_loop m di bps t fuel x)).
Proof.
  induction fuel; intros x; simpl; [lia |].
  destruct (halted (ms x)); [simpl; lia |].
  destruct (pc (ms x) >=? code_len m); [simpl; lia |].
  pose proof (mtick_mn m x) as M.
  destruct (mtick m x) as [x' | x' h | k x' | x' | x']; simpl in *; try lia.
  destruct (check_bps m di bps t (ms x')) as [[h|] | k]; simpl; try lia.
  specialize (IHfuel x'). lia.
Qed.

Lemma cpu_run_mn m di bps t fuel x : mn x <= mn (rstate (cpu_run m di bps t fuel x)).
Proof. unfold cpu_run. apply (run_loop_mn m di bps t fuel (mkMach _ None (mn x) _)). Qed.

Lemma cpu_next_mn m di bps fuel x : mn x <= mn (rstate (cpu_next m di bps fuel x)).
Proof.
  unfold cpu_next.
  destruct ((pc (ms x) <? 0) || (pc (ms x) >=? code_len m)); [simpl; lia |].
  destruct (decode (skipn (Z.to_nat (pc (ms x))) (m_code m))) as [| | i size]; try (simpl; lia).
  pose proof (mtick_mn m x) as M.
  destruct i; try exact M.
  - pose proof (cpu_run_mn m di bps (TNext (pc (ms x) + size)) fuel x) as R.
    destruct (cpu_run m di bps (TNext (pc (ms x) + size)) fuel x) as [x' | x' [a|] | | |]; exact R.
  - destruct (nthZ (m_literals m) idx); [exact M | simpl; lia].
Qed.

Lemma next_loop_mn m di bps stmt fuel0 : forall fuel x,
  mn x <= mn (rstate (next_loop m di bps stmt fuel0 fuel x)).
Proof.
  induction fuel; intros x; simpl; [lia |].
  destruct (halted (ms x)); [simpl; lia |].
  pose proof (cpu_next_mn m di bps fuel0 x) as N.
  destruct (cpu_next m di bps fuel0 x) as [x' | x' h | k x' | x' | x']; simpl in *; try lia.
  destruct (find_nonempty m di (pc (ms x'))); [| simpl; lia].
  destruct (stmt_neq a stmt); [simpl; lia |]. specialize (IHfuel x'). lia.
Qed.

Lemma finish_mn d r b : d_m (finish d r b) = rstate r.
Proof. destruct r as [x | x [a|] | k x | x | x]; reflexivity. Qed.

Lemma exec_cmd_mn m di fuel d c : mn (d_m d) <= mn (d_m (exec_cmd m di fuel d c)).
Proof.
  unfold exec_cmd. destruct (d_status d); try lia.
  destruct c.
  - destruct (blocked (d_st d)); [simpl; lia |]. unfold do_step.
    destruct (find_nonempty m di (pc (d_st d))); [| simpl; lia]. rewrite finish_mn. apply cpu_run_mn.
  - destruct (blocked (d_st d)); [simpl; lia |]. unfold do_next.
    destruct (find_nonempty m di (pc (d_st d))); [| simpl; lia]. rewrite finish_mn. apply next_loop_mn.
  - destruct (blocked (d_st d)); [simpl; lia |]. rewrite finish_mn. apply mtick_mn.
  - destruct (blocked (d_st d)); [simpl; lia |]. rewrite finish_mn. apply cpu_next_mn.
  - destruct (blocked (d_st d)); [simpl; lia |]. rewrite finish_mn. apply cpu_run_mn.
  - unfold do_break. destruct (l <? 0); [simpl; lia |]. destruct (resolve_line di l); simpl; lia.
  - unfold do_delbr. destruct (l <? 0); [simpl; lia |]. destruct (resolve_line di l); [| simpl; lia].
    destruct (existsb _ _); simpl; lia.
Qed.

Lemma exec_cmd_dead m di fuel d c : d_status d <> Live -> exec_cmd m di fuel d c = d.
Proof. intros N. unfold exec_cmd. destruct (d_status d); try reflexivity. contradiction. Qed.

Lemma exec_cmds_snoc m di fuel d h c :
  exec_cmds m di fuel d (h ++ [c]) = exec_cmd m di fuel (exec_cmds m di fuel d h) c.
Proof. unfold exec_cmds. rewrite fold_left_app. reflexivity. Qed.

(* the events after h ++ [c] extend the events after h *)
Lemma events_chain m di sc fuel h c :
  loads_clean m = true ->
  let d := session m di sc fuel h in
  let d' := session m di sc fuel (h ++ [c]) in
  d_status d' = Live ->
  mn (d_m d) <= mn (d_m d') /\ exists l, events (d_st d') = l ++ events (d_st d).
Proof.
  intros C d d' L'.
  assert (E' : d' = exec_cmd m di fuel d c) by (unfold d', d, session; apply exec_cmds_snoc).
  assert (L : d_status d = Live).
  { destruct (d_status d) eqn:Es; try reflexivity;
      rewrite E', exec_cmd_dead in L' by congruence; congruence. }
  pose proof (exec_cmd_mn m di fuel d c) as M. rewrite <- E' in M.
  split; [exact M |].
  destruct (session_inv m di sc fuel h C L) as [sp [T [P [E _]]]].
  destruct (session_inv m di sc fuel (h ++ [c]) C L') as [sp' [T' [P' [Ee' _]]]].
  fold d in T, P, E. fold d' in T', P', Ee'.
  replace (Z.to_nat (mn (d_m d'))) with
      (Z.to_nat (mn (d_m d)) + (Z.to_nat (mn (d_m d')) - Z.to_nat (mn (d_m d))))%nat in T' by lia.
  rewrite (ticks_add m _ _ _ _ T) in T'.
  destruct (ticks_ext m _ _ _ T') as [l Hl]. exists l.
  change (events (ms (d_m d')) = l ++ events (ms (d_m d))).
  rewrite <- (eqh_events _ _ E), <- (eqh_events _ _ Ee'). exact Hl.
Qed.

(* ---------- run() returns at the FIRST tick after which a predicate holds ---------- *)

Lemma mtick_count m x : mn (rstate (mtick m x)) = mn x + 1.
Proof. unfold mtick. destruct (tick m (ms x)); reflexivity. Qed.

Lemma mtick_state m x x' : mtick m x = RDone x' -> tick m (ms x) = Next (ms x').
Proof. unfold mtick. destruct (tick m (ms x)); intros H; inversion H; reflexivity. Qed.

Lemma run_loop_halted m di bps t fuel x :
  halted (ms x) = true -> rstate (run_loop m di bps t fuel x) = x.
Proof. intros H. destruct fuel; simpl; [reflexivity |]. rewrite H. reflexivity. Qed.

(* no breakpoint predicate holds and the machine is running *)
Definition quiet (m : module) (di : dbginfo) (bps : list Z) (t : tbp) (s : st) : Prop :=
  check_bps m di bps t s = Ok None /\ halted s = false.

Lemma run_loop_first m di bps t : forall fuel x k sk,
  (0 < k)%nat -> Z.of_nat k < mn (rstate (run_loop m di bps t fuel x)) - mn x ->
  ticks m k (ms x) = Some sk -> quiet m di bps t sk.
Proof.
  induction fuel; intros x k sk K L T; simpl in L; [lia |].
  destruct (halted (ms x)); [simpl in L; lia |].
  destruct (pc (ms x) >=? code_len m); [simpl in L; lia |].
  pose proof (mtick_count m x) as MC.
  destruct (mtick m x) as [x' | x' h | c x' | x' | x'] eqn:Em; simpl in *; try lia.
  pose proof (mtick_state m x x' Em) as Tk.
  destruct (check_bps m di bps t (ms x')) as [[h|] | c] eqn:C; simpl in L; try lia.
  destruct k as [|k']; [lia |]. simpl in T. rewrite Tk in T.
  destruct k' as [|k''].
  - simpl in T. inversion T; subst sk. split; [exact C |].
    destruct (halted (ms x')) eqn:Hh; [| reflexivity].
    rewrite (run_loop_halted m di bps t fuel x' Hh) in L. lia.
  - apply (IHfuel x' (S k'') sk); [lia | lia | exact T].
Qed.

Lemma continue_first_breakpoint m di fuel d :
  d_status d = Live -> blocked (d_st d) = false ->
  let d' := exec_cmd m di fuel d CContinue in
  forall k sk, (0 < k)%nat -> Z.of_nat k < mn (d_m d') - mn (d_m d) ->
  ticks m k (set_halt (d_st d) false H_NONE) = Some sk ->
  user_hit (d_bps d) (pc sk) = None /\ halted sk = false.
Proof.
  intros L B d' k sk K Lk T. unfold d', exec_cmd in Lk. rewrite L, B in Lk. rewrite finish_mn in Lk.
  unfold cpu_run in Lk.
  destruct (run_loop_first m di (d_bps d) TNoTemp fuel _ k sk K Lk T) as [Q1 Q2].
  split; [| exact Q2]. unfold check_bps in Q1.
  destruct (user_hit (d_bps d) (pc sk)); [discriminate | reflexivity].
Qed.

(* step: every state strictly before the stop is in no statement or in the
   statement the step started in (and on no user breakpoint, and running) *)
Lemma step_first_change m di fuel d stmt :
  d_status d = Live -> blocked (d_st d) = false ->
  find_nonempty m di (pc (d_st d)) = Ok (Some stmt) ->
  let d' := exec_cmd m di fuel d CStep in
  forall k sk, (0 < k)%nat -> Z.of_nat k < mn (d_m d') - mn (d_m d) ->
  ticks m k (set_halt (d_st d) false H_NONE) = Some sk ->
  user_hit (d_bps d) (pc sk) = None /\ halted sk = false /\
  (find_nonempty m di (pc sk) = Ok None \/
   exists r, find_nonempty m di (pc sk) = Ok (Some r) /\ rec_eqb r stmt = true).
Proof.
  intros L B F d' k sk K Lk T. unfold d', exec_cmd, do_step in Lk. rewrite L, B, F in Lk.
  rewrite finish_mn in Lk. unfold cpu_run in Lk.
  destruct (run_loop_first m di (d_bps d) (TStep (Some stmt)) fuel _ k sk K Lk T) as [Q1 Q2].
  unfold check_bps in Q1.
  destruct (user_hit (d_bps d) (pc sk)); [discriminate |].
  split; [reflexivity |]. split; [exact Q2 |].
  destruct (find_nonempty m di (pc sk)) as [[r|] | c]; try discriminate.
  - right. exists r. split; [reflexivity |]. destruct (rec_eqb r stmt); [reflexivity | discriminate].
  - left. reflexivity.
Qed.
