(* Proofs about the debugger model (Models/Debugger.v) over the machine model.
   Main invariant: whatever the command history, the machine component is the
   state reached by [mn] applications of [tick] to the initial state, up to the
   two fields the debugger itself overwrites (halted, reason); and as long as
   the debugger never drives a finished machine ([mres] = false) it is exactly
   a prefix of the free run. *)
From Coq Require Import ZArith List Bool Lia.
From QV Require Import Sx Strs Fl Cell Machine Cpu Debugger MachineFrame.
Import ListNotations.
Open Scope Z_scope.

(* ---------- n applications of tick ---------- *)

Fixpoint ticks (m : module) (n : nat) (s : st) : option st :=
  match n with
  | O => Some s
  | S k => match tick m s with Next s' => ticks m k s' | _ => None end
  end.

Lemma ticks_snoc m n : forall s a b,
  ticks m n s = Some a -> tick m a = Next b -> ticks m (S n) s = Some b.
Proof.
  induction n; intros s a b H T; simpl in *.
  - inversion H; subst. rewrite T. reflexivity.
  - destruct (tick m s) eqn:E; try discriminate. apply (IHn _ _ _ H T).
Qed.

Lemma ticks_add m a : forall b s s1, ticks m a s = Some s1 -> ticks m (a + b) s = ticks m b s1.
Proof.
  induction a; intros b s s1 H; simpl in *.
  - inversion H; reflexivity.
  - destruct (tick m s); try discriminate. apply IHa; assumption.
Qed.

Lemma ticks_prefix m n : forall j s a, ticks m n s = Some a -> (j <= n)%nat -> exists b, ticks m j s = Some b.
Proof.
  induction n; intros j s a H L.
  - assert (j = O) by lia. subst. exists s. reflexivity.
  - destruct j; [exists s; reflexivity |]. simpl in *.
    destruct (tick m s); try discriminate. apply (IHn j s0 a H). lia.
Qed.

Lemma ticks_ext m n : forall s a, ticks m n s = Some a -> ext (events s) (events a).
Proof.
  induction n; intros s a H; simpl in *.
  - inversion H; apply ext_refl.
  - pose proof (tick_ext m s) as E. destruct (tick m s) eqn:T; try discriminate.
    eapply ext_trans; [exact E | apply IHn; exact H].
Qed.

(* all states before index n are running: not halted, pc inside the code *)
Definition finished (m : module) (s : st) : bool := halted s || (pc s >=? code_len m).
Definition alive (m : module) (s : st) : Prop := finished m s = false.
Definition prefix_alive (m : module) (s0 : st) (n : nat) : Prop :=
  forall j sj, (j < n)%nat -> ticks m j s0 = Some sj -> alive m sj.

(* ---------- the invariant ---------- *)

Definition Inv (m : module) (s0 : st) (x : mach) : Prop :=
  exists sp,
    ticks m (Z.to_nat (mn x)) s0 = Some sp /\ 0 <= mn x /\ eqh sp (ms x) /\
    (mres x = false ->
       halted sp = halted (ms x) /\
       (halted sp = true -> reason (ms x) = reason sp \/ reason (ms x) = H_BREAKPOINT) /\
       prefix_alive m s0 (Z.to_nat (mn x))).

Definition rres_ok (m : module) (s0 : st) (r : rres) : Prop :=
  match r with
  | RDone x | RBp x _ | RFuel x => Inv m s0 x
  | RCrash _ _ | RNeedIn _ => True
  end.

(* the debugger overwrites halted/reason *)
Lemma Inv_edit m s0 x h r l res' :
  Inv m s0 x ->
  (res' = false -> mres x = false /\ h = halted (ms x) /\
                   (h = true -> r = H_BREAKPOINT \/ r = reason (ms x))) ->
  Inv m s0 (mkMach (set_halt (ms x) h r) l (mn x) res').
Proof.
  intros [sp [T [P [E HS]]]] G. exists sp. simpl.
  split; [exact T |]. split; [exact P |]. split; [apply eqh_set_halt_r; exact E |].
  intros H. destruct (G H) as [G1 [G2 G3]]. destruct (HS G1) as [S1 [S2 S3]].
  split; [congruence |]. split; [| exact S3].
  intros Hh. subst h. rewrite <- S1 in G3.
  destruct (G3 Hh) as [-> | ->]; [right; reflexivity | apply (S2 Hh)].
Qed.

Lemma Inv_mtick m s0 x : Inv m s0 x -> rres_ok m s0 (mtick m x).
Proof.
  intros [sp [T [P [E HS]]]]. unfold mtick.
  destruct (tick m (ms x)) as [s' | k s' | s'] eqn:Tk; simpl; try exact I.
  destruct (tick_eqh m sp (ms x) E) as [K Q]. rewrite Tk in K, Q.
  destruct (tick m sp) as [sp' | |] eqn:Tp; simpl in K, Q; try contradiction.
  exists sp'. simpl.
  assert (N : Z.to_nat (mn x + 1) = S (Z.to_nat (mn x))) by lia.
  split; [rewrite N; apply (ticks_snoc m _ s0 sp sp' T Tp) |].
  split; [lia |]. split; [exact Q |].
  intros R. apply orb_false_iff in R. destruct R as [R R3]. apply orb_false_iff in R. destruct R as [R1 R2].
  destruct (HS R1) as [S1 [S2 S3]].
  assert (Hsp : halted sp = false) by congruence.
  destruct (tick_nh m sp (ms x) sp' E Hsp R2 Tp) as [s2' [T2 [Q2 [H2 F2]]]].
  rewrite Tk in T2. inversion T2; subst s2'.
  split; [congruence |]. split.
  - intros Hh. left. rewrite (F2 Hh). reflexivity.
  - rewrite N. intros j sj Lj Tj.
    destruct (Nat.eq_dec j (Z.to_nat (mn x))) as [-> | Nj].
    + rewrite T in Tj. inversion Tj; subst sj. unfold alive, finished.
      rewrite Hsp, (eqh_pc _ _ E), R3. reflexivity.
    + apply (S3 j sj); [lia | exact Tj].
Qed.

Lemma run_loop_inv m di bps t s0 : forall fuel x,
  Inv m s0 x -> rres_ok m s0 (run_loop m di bps t fuel x).
Proof.
  induction fuel; intros x HI; simpl; [exact HI |].
  destruct (halted (ms x)) eqn:Hh; [exact HI |].
  destruct (pc (ms x) >=? code_len m).
  - simpl. unfold with_st. apply Inv_edit; [exact HI |].
    intros R. split; [exact R |]. split; [symmetry; exact Hh |]. intros Hx. discriminate.
  - pose proof (Inv_mtick m s0 x HI) as HM.
    destruct (mtick m x) as [x' | x' h | k x' | x' | x'] eqn:Em; simpl in *; try exact HM.
    destruct (check_bps m di bps t (ms x')) as [[h|] | k]; simpl.
    + apply (Inv_edit m s0 x' (halted (ms x')) H_BREAKPOINT (Some h) (mres x') HM).
      intros R. split; [exact R |]. split; [reflexivity |]. intros _. left. reflexivity.
    + apply IHfuel. exact HM.
    + exact I.
Qed.

Lemma cpu_run_inv m di bps t s0 fuel x :
  Inv m s0 x -> rres_ok m s0 (cpu_run m di bps t fuel x).
Proof.
  intros HI. unfold cpu_run. apply run_loop_inv.
  apply (Inv_edit m s0 x false H_NONE None (mres x || halted (ms x)) HI).
  intros R. apply orb_false_iff in R. destruct R as [R1 R2].
  split; [exact R1 |]. split; [congruence |]. discriminate.
Qed.

Lemma cpu_next_inv m di bps s0 fuel x :
  Inv m s0 x -> rres_ok m s0 (cpu_next m di bps fuel x).
Proof.
  intros HI. unfold cpu_next.
  destruct ((pc (ms x) <? 0) || (pc (ms x) >=? code_len m)); [exact I |].
  destruct (decode (skipn (Z.to_nat (pc (ms x))) (m_code m))) as [| | i size]; try exact I.
  pose proof (Inv_mtick m s0 x HI) as HM.
  destruct i; try exact HM.
  - pose proof (cpu_run_inv m di bps (TNext (pc (ms x) + size)) s0 fuel x HI) as HR.
    destruct (cpu_run m di bps (TNext (pc (ms x) + size)) fuel x) as [x' | x' [a|] | | |]; exact HR.
  - destruct (nthZ (m_literals m) idx); [exact HM | exact I].
Qed.

Lemma next_loop_inv m di bps stmt s0 fuel0 : forall fuel x,
  Inv m s0 x -> rres_ok m s0 (next_loop m di bps stmt fuel0 fuel x).
Proof.
  induction fuel; intros x HI; simpl; [exact HI |].
  destruct (halted (ms x)); [exact HI |].
  pose proof (cpu_next_inv m di bps s0 fuel0 x HI) as HN.
  destruct (cpu_next m di bps fuel0 x) as [x' | x' h | k x' | x' | x']; simpl in *; try exact HN.
  destruct (find_nonempty m di (pc (ms x'))); [| exact I].
  destruct (stmt_neq a stmt); [exact HN | apply IHfuel; exact HN].
Qed.

Lemma start_loop_inv m di s0 : forall fuel x,
  Inv m s0 x -> rres_ok m s0 (start_loop m di fuel x).
Proof.
  induction fuel; intros x HI; simpl; [exact HI |].
  destruct (halted (ms x)); [exact HI |].
  destruct (dfind_stmt m di (pc (ms x))) as [[r|] | k]; try exact HI; [| exact I].
  pose proof (Inv_mtick m s0 x HI) as HM.
  destruct (mtick m x) as [x' | x' h | k x' | x' | x']; simpl in *; try exact HM.
  apply IHfuel; exact HM.
Qed.

(* ---------- sessions ---------- *)

Definition dInv (m : module) (s0 : st) (d : dbg) : Prop := d_status d = Live -> Inv m s0 (d_m d).

Lemma finish_inv m s0 d r b : rres_ok m s0 r -> dInv m s0 (finish d r b).
Proof.
  intros H. unfold dInv, finish.
  destruct r as [x | x [a|] | k x | x | x]; simpl; intros L; try discriminate; exact H.
Qed.

Lemma exec_cmd_inv m di fuel s0 d c : dInv m s0 d -> dInv m s0 (exec_cmd m di fuel d c).
Proof.
  intros HD. unfold exec_cmd.
  destruct (d_status d) eqn:Es; try exact HD.
  assert (HI : Inv m s0 (d_m d)) by (apply HD; exact Es).
  assert (Hsame : forall bp st ms_, dInv m s0 (mkDbg (d_m d) bp st ms_)) by (intros; intro; exact HI).
  destruct c.
  - destruct (blocked (d_st d)); [apply Hsame |].
    unfold do_step. destruct (find_nonempty m di (pc (d_st d))); [| apply Hsame].
    apply finish_inv. apply cpu_run_inv. exact HI.
  - destruct (blocked (d_st d)); [apply Hsame |].
    unfold do_next. destruct (find_nonempty m di (pc (d_st d))); [| apply Hsame].
    apply finish_inv. apply next_loop_inv. exact HI.
  - destruct (blocked (d_st d)); [apply Hsame |]. apply finish_inv. apply Inv_mtick. exact HI.
  - destruct (blocked (d_st d)); [apply Hsame |]. apply finish_inv. apply cpu_next_inv. exact HI.
  - destruct (blocked (d_st d)); [apply Hsame |]. apply finish_inv. apply cpu_run_inv. exact HI.
  - unfold do_break. destruct (l <? 0); [apply Hsame |].
    destruct (resolve_line di l); apply Hsame.
  - unfold do_delbr. destruct (l <? 0); [apply Hsame |].
    destruct (resolve_line di l); [| apply Hsame].
    destruct (existsb _ _); apply Hsame.
Qed.

Lemma exec_cmds_inv m di fuel s0 : forall h d, dInv m s0 d -> dInv m s0 (exec_cmds m di fuel d h).
Proof.
  induction h as [|c h IH]; intros d HD; simpl; [exact HD |].
  apply IH. apply exec_cmd_inv. exact HD.
Qed.

(* load_instructions leaves the machine alone when the code decodes linearly
   (no unknown opcode met by the linear sweep); true of every compiled module *)
Fixpoint sweep_clean (m : module) (fuel : nat) (addr : Z) : bool :=
  match fuel with
  | O => true
  | S f =>
    if addr >=? code_len m then true
    else
      match decode (skipn (Z.to_nat addr) (m_code m)) with
      | DOk (IPushStr idx) size =>
        match nthZ (m_literals m) idx with Some _ => sweep_clean m f (addr + size) | None => true end
      | DOk _ size => sweep_clean m f (addr + size)
      | DUnknown => false
      | DTrunc => true
      end
  end.

Definition loads_clean (m : module) : bool := sweep_clean m (S (length (m_code m))) 0.

Lemma sweep_clean_ok m s : forall fuel addr,
  sweep_clean m fuel addr = true ->
  match sweep m fuel addr s with Next s' => s' = s | _ => True end.
Proof.
  induction fuel; intros addr H; simpl in *; [reflexivity |].
  destruct (addr >=? code_len m); [reflexivity |].
  destruct (decode (skipn (Z.to_nat addr) (m_code m))) as [| | i size]; try discriminate; try exact I.
  destruct i; try (apply IHfuel; exact H).
  destruct (nthZ (m_literals m) idx); [apply IHfuel; exact H | exact I].
Qed.

Lemma Inv_init m s0 : Inv m s0 (mkMach s0 None 0 false).
Proof.
  exists s0. simpl. split; [reflexivity |]. split; [lia |]. split; [apply eqh_refl |].
  intros _. split; [reflexivity |]. split; [intros _; left; reflexivity |].
  intros j sj L. lia.
Qed.

Lemma start_inv m di fuel s0 : loads_clean m = true -> dInv m s0 (start m di fuel s0).
Proof.
  intros C. unfold start.
  pose proof (sweep_clean_ok m s0 _ _ C) as HS.
  destruct (sweep m (S (length (m_code m))) 0 s0) as [s | k s | s]; try (intro L; discriminate).
  subst s.
  destruct (negb (pc s0 =? 0)); [intro L; discriminate |].
  pose proof (start_loop_inv m di s0 fuel _ (Inv_init m s0)) as HL.
  destruct (start_loop m di fuel (mkMach s0 None 0 false)) as [x | x h | k x | x | x] eqn:E.
  - intro L. exact HL.
  - apply finish_inv. exact HL.
  - apply finish_inv. exact HL.
  - apply finish_inv. exact HL.
  - apply finish_inv. exact HL.
Qed.

Lemma session_inv m di sc fuel h :
  loads_clean m = true -> dInv m (init_state m sc) (session m di sc fuel h).
Proof. intros C. unfold session. apply exec_cmds_inv. apply start_inv. exact C. Qed.

(* ---------- the free run (Cpu.run) in terms of ticks ---------- *)

Lemma run_spec m : forall fuel s k sf N,
  run m fuel s k = (sf, StHalt, N) ->
  exists n, ticks m n s = Some sf /\ N = k + Z.of_nat n /\ finished m sf = true /\ prefix_alive m s n.
Proof.
  induction fuel; intros s k sf N H; simpl in H; [inversion H |].
  fold (finished m s) in H.
  destruct (finished m s) eqn:F.
  - inversion H; subst. exists O. simpl. split; [reflexivity |]. split; [lia |]. split; [exact F |].
    intros j sj L. lia.
  - destruct (tick m s) as [s' | |] eqn:T; try (inversion H; fail).
    destruct (IHfuel s' (k + 1) sf N H) as [n [T' [EN [F' PA]]]].
    exists (S n). simpl. rewrite T. split; [exact T' |]. split; [lia |]. split; [exact F' |].
    intros j sj L Tj. destruct j; simpl in Tj.
    + inversion Tj; subst. exact F.
    + rewrite T in Tj. apply (PA j sj); [lia | exact Tj].
Qed.

Lemma first_finished m s0 n n' a b :
  ticks m n s0 = Some a -> prefix_alive m s0 n -> finished m a = true ->
  ticks m n' s0 = Some b -> prefix_alive m s0 n' -> finished m b = true ->
  n = n' /\ a = b.
Proof.
  intros Ta Pa Fa Tb Pb Fb.
  destruct (lt_eq_lt_dec n n') as [[L | E] | L].
  - specialize (Pb n a L Ta). unfold alive in Pb. congruence.
  - subst. rewrite Ta in Tb. inversion Tb. split; reflexivity.
  - specialize (Pa n' b L Tb). unfold alive in Pa. congruence.
Qed.

(* ---------- T1: commands only tick ---------- *)

Lemma commands_only_tick m di sc fuel h :
  loads_clean m = true ->
  let d := session m di sc fuel h in
  d_status d = Live ->
  exists sp, ticks m (Z.to_nat (mn (d_m d))) (init_state m sc) = Some sp /\
             set_halt sp false 0 = set_halt (d_st d) false 0.
Proof.
  intros C d L. destruct (session_inv m di sc fuel h C L) as [sp [T [P [E _]]]].
  exists sp. split; [exact T | exact E].
Qed.

Lemma events_are_tick_events m di sc fuel h :
  loads_clean m = true ->
  let d := session m di sc fuel h in
  d_status d = Live ->
  exists sp, ticks m (Z.to_nat (mn (d_m d))) (init_state m sc) = Some sp /\
             events (d_st d) = events sp.
Proof.
  intros C d L. destruct (session_inv m di sc fuel h C L) as [sp [T [P [E _]]]].
  exists sp. split; [exact T | symmetry; apply eqh_events; exact E].
Qed.

(* ---------- T2: prefix of the free run ---------- *)

Lemma events_prefix_of_free_run m di sc fuel h fuel' sf N :
  loads_clean m = true ->
  let d := session m di sc fuel h in
  d_status d = Live -> mres (d_m d) = false ->
  run m fuel' (init_state m sc) 0 = (sf, StHalt, N) ->
  mn (d_m d) <= N /\ exists l, events sf = l ++ events (d_st d).
Proof.
  intros C d L R HR.
  destruct (session_inv m di sc fuel h C L) as [sp [T [P [E HS]]]].
  destruct (HS R) as [S1 [S2 S3]].
  destruct (run_spec m fuel' _ 0 sf N HR) as [n [Tn [EN [Fn PAn]]]].
  assert (Le : (Z.to_nat (mn (d_m d)) <= n)%nat).
  { destruct (le_lt_dec (Z.to_nat (mn (d_m d))) n) as [Le | Lt]; [exact Le |].
    specialize (S3 n sf Lt Tn). unfold alive in S3. congruence. }
  split; [lia |].
  replace n with (Z.to_nat (mn (d_m d)) + (n - Z.to_nat (mn (d_m d))))%nat in Tn by lia.
  rewrite (ticks_add m _ _ _ _ T) in Tn.
  destruct (ticks_ext m _ _ _ Tn) as [l Hl]. exists l. rewrite Hl. f_equal.
  exact (eqh_events _ _ E).
Qed.

(* ---------- T3: transparency ---------- *)

Lemma transparent m di sc fuel h fuel' sf N :
  loads_clean m = true ->
  let d := session m di sc fuel h in
  d_status d = Live -> mres (d_m d) = false -> halted (d_st d) = true ->
  run m fuel' (init_state m sc) 0 = (sf, StHalt, N) ->
  set_halt (d_st d) true 0 = set_halt sf true 0 /\
  halted sf = true /\
  (reason (d_st d) = reason sf \/ reason (d_st d) = H_BREAKPOINT) /\
  events (d_st d) = events sf /\
  mn (d_m d) = N.
Proof.
  intros C d L R Hh HR.
  destruct (session_inv m di sc fuel h C L) as [sp [T [P [E HS]]]].
  destruct (HS R) as [S1 [S2 S3]].
  destruct (run_spec m fuel' _ 0 sf N HR) as [n [Tn [EN [Fn PAn]]]].
  assert (Fsp : finished m sp = true).
  { unfold finished. replace (halted sp) with true; [reflexivity |]. rewrite S1. symmetry. exact Hh. }
  destruct (first_finished m _ _ _ _ _ T S3 Fsp Tn PAn Fn) as [En Es]. subst sf.
  split; [| split; [| split; [| split]]].
  - symmetry. apply (f_equal (fun s => set_halt s true 0)) in E. exact E.
  - rewrite S1. exact Hh.
  - refine (S2 _). rewrite S1. exact Hh.
  - symmetry. exact (eqh_events _ _ E).
  - rewrite EN, <- En, Z2Nat.id by exact P. reflexivity.
Qed.
