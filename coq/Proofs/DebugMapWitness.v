(* Concrete marker streams (taken from what the real compiler emits) that show
   where the unchanged code violates C11. *)
From Coq Require Import ZArith List Bool Lia.
From QV Require Import DebugMap DebugMapProofs DebugMapFinalize DebugMapCover.
Import ListNotations.
Open Scope Z_scope.

(* the statements that were being generated when the instruction at [addr]
   was emitted, innermost first (the collector's stack at that moment) *)
Fixpoint open_at (l : list item) (off : Z) (stack : list node) (addr : Z) : option (list node) :=
  match l with
  | [] => None
  | Ins sz :: r => if off =? addr then Some stack else open_at r (off + sz) stack addr
  | Start n :: r => open_at r off (n :: stack) addr
  | End n :: r => open_at r off (tl stack) addr
  | EmptyBlock :: r => open_at r off stack addr
  end.

Definition st (i : Z) := mkNode i KStmt.
Definition bl (i a b : Z) := mkNode i (KBlock a b).

(* ---- witness 1 -------------------------------------------------------
     x = 1
     WHILE x < 3
       x = x + 1
       IF x = 2 THEN PRINT 1002
     WEND
   compiled at -O0 -g.  The WEND record is synthesised from the child with the
   greatest start offset (the PRINT nested in the single-line IF), so it
   starts inside the IF statement's range. *)
Definition w1_mid : list item :=
  [Start (st 5); Ins 3; Ins 1; Ins 1; Ins 1; Ins 3; End (st 5);
   Start (st 6); Ins 3; Ins 1; Ins 1; Ins 1; Ins 1; Ins 5;
     Start (st 7); Ins 1; Ins 3; Ins 1; Ins 3; End (st 7);
     Ins 5; End (st 6)].
Definition w1_pre : list item := [Ins 3; Ins 3; Ins 1; Ins 1; Ins 1; Ins 5].
Definition w1 : list item :=
  [Ins 5; Ins 1; Ins 5;
   Start (st 1); Ins 1; Ins 1; Ins 3; End (st 1);
   Start (bl 2 3 4)] ++ (w1_pre ++ w1_mid ++ [Ins 5]) ++ [End (bl 2 3 4); Ins 1].

Definition w1_table : list rec :=
  [mkRec 1 11 16; mkRec 3 16 30; mkRec 5 30 39; mkRec 6 39 64; mkRec 7 51 59; mkRec 4 59 69].

Lemma w1_debug_map : debug_map w1 = DOk [] w1_table [] 70.
Proof. vm_compute. reflexivity. Qed.

Ltac ins := apply good_ins; [lia|].
Ltac fl := repeat (first [apply flat_nil | apply flat_ins; [lia|] | apply flat_empty]).

Lemma w1_good : good true w1.
Proof.
  unfold w1. simpl. ins. ins. ins.
  apply (good_stmt true (st 1) [Ins 1; Ins 1; Ins 3]); [reflexivity| |].
  { ins. ins. ins. apply good_nil. }
  apply (good_block true (bl 2 3 4) w1_pre w1_mid [Ins 5] [Ins 1]); [reflexivity| | | | |].
  - unfold w1_pre. fl.
  - unfold w1_mid.
    apply (good_stmt false (st 5) [Ins 3; Ins 1; Ins 1; Ins 1; Ins 3]); [reflexivity| |].
    { repeat ins. apply good_nil. }
    apply (good_stmt false (st 6)
             [Ins 3; Ins 1; Ins 1; Ins 1; Ins 1; Ins 5;
              Start (st 7); Ins 1; Ins 3; Ins 1; Ins 3; End (st 7); Ins 5]);
      [reflexivity| |apply good_nil].
    repeat ins.
    apply (good_stmt true (st 7) [Ins 1; Ins 3; Ins 1; Ins 3]); [reflexivity| |].
    { repeat ins. apply good_nil. }
    ins. apply good_nil.
  - fl.
  - left. vm_compute. reflexivity.
  - ins. apply good_nil.
Qed.

Lemma final_laminar_refuted_lemma :
  exists l, good true l /\
  exists routines stmts others sz, debug_map l = DOk routines stmts others sz /\
  exists r1 r2, In r1 stmts /\ In r2 stmts /\ ~ rec_laminar r1 r2.
Proof.
  exists w1. split; [exact w1_good|].
  exists [], w1_table, [], 70. split; [exact w1_debug_map|].
  exists (mkRec 6 39 64), (mkRec 4 59 69). split; [simpl; tauto|]. split; [simpl; tauto|].
  unfold rec_laminar, laminar. simpl. lia.
Qed.

(* the jump that ends the single-line IF (offset 59) was emitted while the IF
   statement (node 6) was the innermost open node; the lookup answers WEND *)
Lemma attribution_refuted_lemma :
  exists l, good true l /\
  exists routines stmts others sz, debug_map l = DOk routines stmts others sz /\
  exists addr n rest r,
    open_at l 0 [] addr = Some (n :: rest) /\ nk n = KStmt /\
    find_stmt stmts addr = FFound r /\ r_node r <> nid n.
Proof.
  exists w1. split; [exact w1_good|].
  exists [], w1_table, [], 70. split; [exact w1_debug_map|].
  exists 59, (st 6), [bl 2 3 4], (mkRec 4 59 69).
  split; [vm_compute; reflexivity|]. split; [reflexivity|].
  split; [vm_compute; reflexivity|]. simpl. lia.
Qed.

(* ---- witness 2 -------------------------------------------------------
     x = 1
     IF x > 30000 * x THEN
       CONST k = 5
     END IF
     PRINT 1005
   The IF block has no non-empty child (CONST emits no code) and its only
   _empty_block marker (the missing ELSE body) sits at the end offset of the
   block, which "start <= addr < end" excludes: no IF / END IF record is
   synthesised and the condition code belongs to no statement. *)
Definition w2 : list item :=
  [Ins 5; Ins 1; Ins 5;
   Start (st 1); Ins 1; Ins 1; Ins 3; End (st 1);
   Start (bl 2 3 4);
     Ins 3; Ins 3; Ins 1; Ins 3; Ins 1; Ins 1; Ins 1; Ins 5;
     Start (st 5); End (st 5);
     Ins 5; EmptyBlock;
   End (bl 2 3 4);
   Start (st 6); Ins 1; Ins 3; Ins 1; Ins 3; End (st 6);
   Ins 1].

Definition w2_table : list rec := [mkRec 1 11 16; mkRec 5 34 34; mkRec 6 39 47].

Lemma w2_debug_map : debug_map w2 = DOk [] w2_table [] 48.
Proof. vm_compute. reflexivity. Qed.

Ltac wins := apply wf_ins; [lia|].

Lemma w2_wf : wf_markers w2.
Proof.
  unfold w2. repeat wins.
  apply (wf_node (st 1) [Ins 1; Ins 1; Ins 3]). { repeat wins. apply wf_nil. }
  apply (wf_node (bl 2 3 4)
           [Ins 3; Ins 3; Ins 1; Ins 3; Ins 1; Ins 1; Ins 1; Ins 5;
            Start (st 5); End (st 5); Ins 5; EmptyBlock]).
  { repeat wins. apply (wf_node (st 5) []); [apply wf_nil|].
    wins. apply wf_empty. apply wf_nil. }
  apply (wf_node (st 6) [Ins 1; Ins 3; Ins 1; Ins 3]). { repeat wins. apply wf_nil. }
  wins. apply wf_nil.
Qed.

Lemma body_covered_refuted_lemma :
  exists l, wf_markers l /\
  exists routines stmts others sz, debug_map l = DOk routines stmts others sz /\
  exists s n bs be addr,
    run (cinit 0) l = COk s /\ In (n, bs, be) (c_nodes s) /\ is_block_node n = true /\
    bs <= addr < be /\ find_stmt stmts addr = FNone.
Proof.
  exists w2. split; [exact w2_wf|].
  exists [], w2_table, [], 48. split; [exact w2_debug_map|].
  eexists. exists (bl 2 3 4), 16, 39, 16.
  split; [vm_compute; reflexivity|].
  split; [simpl; tauto|]. split; [reflexivity|]. split; [lia|]. vm_compute. reflexivity.
Qed.

(* ---- non-vacuity: a program whose table is what the property wants ----
     FOR-like block with an empty body between two statements:
       Start B; cond; EmptyBlock; step; End B                                *)
Definition w3 : list item :=
  [Ins 5; Ins 1; Ins 5;
   Start (bl 1 2 3); Ins 3; Ins 5; EmptyBlock; Ins 5; End (bl 1 2 3);
   Start (st 4); Ins 1; Ins 2; End (st 4);
   Ins 1].

Lemma w3_debug_map :
  debug_map w3 = DOk [] [mkRec 2 11 19; mkRec 3 19 24; mkRec 4 24 27] [] 28.
Proof. vm_compute. reflexivity. Qed.

Lemma w3_good : good true w3.
Proof.
  unfold w3. ins. ins. ins.
  apply (good_block true (bl 1 2 3) [Ins 3; Ins 5; EmptyBlock; Ins 5] [] [] _);
    [reflexivity| | | | |].
  - fl.
  - apply good_nil.
  - fl.
  - right. exists 8. split; vm_compute; auto.
  - apply (good_stmt true (st 4) [Ins 1; Ins 2]); [reflexivity| |].
    + ins. ins. apply good_nil.
    + ins. apply good_nil.
Qed.
