(* C14 - [canon] is idempotent: the canonical text is its own canonical text.
   The rendered lines are shown to be a lexer image ([lay_ok]) that normalises
   to the same lines. *)
From Coq Require Import ZArith List Bool Lia.
From QV Require Import Sx Strs Lex LexChars LexSpan LexTok LexTokSpec LexLayout LexProofs.
Import ListNotations.
Open Scope Z_scope.

(* ---------------------------------------------------------------- *)
(* which token may follow which in a lexer image *)

Definition is_nl_tok (t : token) : bool := match t with TNewline => true | _ => false end.

Definition follows (t1 t2 : token) : bool :=
  match t1 with
  | TStr _ false | TRem _ _ | TApos _ => is_nl_tok t2
  | TData _ p => match t2 with
                 | TNewline => true
                 | TColon => negb (data_inq false p)
                 | _ => false
                 end
  | _ => true
  end.

Fixpoint chain (l : list token) : bool :=
  match l with
  | [] => true
  | t1 :: r => match r with t2 :: _ => follows t1 t2 | [] => true end && chain r
  end.

Lemma text_hd t c :
  tok_ok t = true -> hd_error (text t) = Some c ->
  (c = 10 -> t = TNewline) /\ (c = 58 -> t = TColon).
Proof.
  intros Hok Hh. destruct t; cbn [tok_ok text] in *.
  - destruct run as [|x r]; [discriminate|]. simpl in Hh. inversion Hh; subst x.
    apply andb_true_iff in Hok as [Hw _]. simpl in Hw. apply andb_true_iff in Hw as [Ha _].
    destruct (disp_alpha c Ha) as (D1 & _ & _ & D4 & _).
    split; intros ->; [now vm_compute in D1 | now vm_compute in D4].
  - destruct run as [|x r]; [discriminate|]. simpl in Hh. inversion Hh; subst x.
    repeat (apply andb_true_iff in Hok as [Hok ?]).
    assert (Hc' : (is_digit c || (c =? 46)) = true).
    { destruct (is_digit c); [reflexivity|]. simpl in *. now apply andb_true_iff in Hok as [-> _]. }
    destruct (disp_numstart c Hc') as (D1 & _ & _ & D4 & _).
    split; intros ->; [now vm_compute in D1 | now vm_compute in D4].
  - simpl in Hh. inversion Hh; subst c. split; discriminate.
  - destruct closed; simpl in Hh; inversion Hh; subst c; split; discriminate.
  - destruct o as [|x [|y [|z o]]]; try discriminate; simpl in Hh; inversion Hh; subst x.
    + split; intros ->; now vm_compute in Hok.
    + apply andb_true_iff in Hok as [Hok _]. apply andb_true_iff in Hok as [Hok _].
      split; intros ->; now vm_compute in Hok.
  - simpl in Hh. inversion Hh; subst c. split; [discriminate | reflexivity].
  - destruct kw as [|x r]; [discriminate|]. simpl in Hh. inversion Hh; subst x.
    repeat (apply andb_true_iff in Hok as [Hok ?]).
    destruct (disp_alpha c Hok) as (D1 & _ & _ & D4 & _).
    split; intros ->; [now vm_compute in D1 | now vm_compute in D4].
  - destruct kw as [|x r]; [discriminate|]. simpl in Hh. inversion Hh; subst x.
    repeat (apply andb_true_iff in Hok as [Hok ?]).
    destruct (disp_alpha c Hok) as (D1 & _ & _ & D4 & _).
    split; intros ->; [now vm_compute in D1 | now vm_compute in D4].
  - simpl in Hh. inversion Hh; subst c. split; discriminate.
  - simpl in Hh. inversion Hh; subst c. split; [reflexivity | discriminate].
Qed.

Lemma first_tok ws t :
  forallb is_blank ws = true -> tok_ok t = true ->
  (at_eol (hd_error (ws ++ text t)) = true -> t = TNewline) /\
  (ohd is_colon (hd_error (ws ++ text t)) = true -> t = TColon).
Proof.
  intros Hw Hok. destruct ws as [|b ws].
  - destruct (tok_ok_text t Hok) as (c & u & Ht & _). cbn [app]. rewrite Ht. cbn [hd_error at_eol ohd].
    assert (Hh : hd_error (text t) = Some c) by now rewrite Ht.
    destruct (text_hd t c Hok Hh) as [T1 T2]. unfold is_colon.
    split; intro E; apply Z.eqb_eq in E; auto.
  - cbn [app hd_error at_eol ohd]. simpl in Hw. apply andb_true_iff in Hw as [Hb _].
    unfold is_colon. split; intro E; exfalso; bz.
Qed.

Lemma lay_chain l nxt :
  lay_ok l nxt = true -> forallb tok_ok (map snd l) = true /\ chain (map snd l) = true.
Proof.
  induction l as [|[ws t] l IH]; [auto|]. cbn [lay_ok map snd forallb chain]. intro H.
  apply andb_true_iff in H as [H H4]. apply andb_true_iff in H as [H H3].
  apply andb_true_iff in H as [H1 H2]. destruct (IH H4) as [I1 I2].
  split; [now rewrite H2, I1|]. rewrite I2, andb_true_r.
  destruct l as [|[ws' t'] l']; [reflexivity|]. cbn [map snd].
  cbn [lay_ok] in H4. apply andb_true_iff in H4 as [H4 _]. apply andb_true_iff in H4 as [H4 _].
  apply andb_true_iff in H4 as [W1 W2].
  destruct (first_tok ws' t' W1 W2) as [F1 F2]. cbn [hd_lay] in H3.
  destruct t; cbn [stops follows] in *; try reflexivity.
  - destruct closed; [reflexivity|]. simpl in H3. now rewrite (F1 H3).
  - apply orb_true_iff in H3 as [H3|H3].
    + now rewrite (F1 H3).
    + apply andb_true_iff in H3 as [H3 H3']. now rewrite (F2 H3').
  - now rewrite (F1 H3).
  - now rewrite (F1 H3).
Qed.

(* ---------------------------------------------------------------- *)
(* normalisation keeps all that *)

Lemma lower_ch_idem c : lower_ch (lower_ch c) = lower_ch c.
Proof.
  unfold lower_ch. destruct (is_upper c) eqn:E; [|now rewrite E].
  assert (is_upper (c + 32) = false) as -> by bz. reflexivity.
Qed.

Lemma lower_idem s : lower (lower s) = lower s.
Proof. unfold lower. rewrite map_map. apply map_ext. intro. apply lower_ch_idem. Qed.

Lemma same_case_lower run : same_case run (lower run).
Proof. unfold same_case. now rewrite lower_idem. Qed.

Lemma norm_op_idem o : norm_op (norm_op o) = norm_op o.
Proof.
  unfold norm_op.
  destruct (str_eqb o [62; 60]) eqn:E1; [reflexivity|].
  destruct (str_eqb o [61; 60]) eqn:E2; [reflexivity|].
  destruct (str_eqb o [61; 62]) eqn:E3; [reflexivity|].
  now rewrite E1, E2, E3.
Qed.

Lemma relch_cases c : is_relch c = true -> c = 60 \/ c = 61 \/ c = 62.
Proof. unfold is_relch. intro H. b2p_in H. lia. Qed.

Lemma norm_op_ok o : tok_ok (TOp o) = true -> tok_ok (TOp (norm_op o)) = true.
Proof.
  cbn [tok_ok]. destruct o as [|c [|d [|e o]]]; try discriminate.
  - intro H. unfold norm_op. cbn [str_eqb]. rewrite !andb_false_r. exact H.
  - intro H. apply andb_true_iff in H as [H Hne]. apply andb_true_iff in H as [Hc Hd].
    destruct (relch_cases c Hc) as [-> | [-> | ->]], (relch_cases d Hd) as [-> | [-> | ->]];
      try discriminate; reflexivity.
Qed.

Lemma norm_tok_ok t : tok_ok t = true -> forallb tok_ok (norm_tok t) = true.
Proof.
  destruct t; cbn [norm_tok forallb]; rewrite ?andb_true_r; auto.
  - cbn [tok_ok]. pose proof (same_case_lower run) as Hc.
    now rewrite <- (same_case_word _ _ Hc), <- (same_case_rem _ _ Hc), <- (same_case_dat _ _ Hc).
  - apply norm_op_ok.
  - cbn [tok_ok]. pose proof (same_case_lower kw) as Hc.
    now rewrite <- (same_case_word _ _ Hc), <- (same_case_rem _ _ Hc), <- (same_case_dat _ _ Hc).
  - cbn [tok_ok]. pose proof (same_case_lower kw) as Hc.
    rewrite <- (same_case_word _ _ Hc), <- (same_case_rem _ _ Hc). intro H.
    apply andb_true_iff in H as [H _]. apply andb_true_iff in H as [H _].
    apply andb_true_iff in H as [H _]. now rewrite H.
Qed.

Lemma norm_tok_fixed t t' : In t' (norm_tok t) -> norm_tok t' = [t'].
Proof.
  destruct t; cbn [norm_tok In]; intro H; try contradiction; destruct H as [<- | []];
    cbn [norm_tok]; rewrite ?lower_idem, ?norm_op_idem; reflexivity.
Qed.

Lemma norm_tok_small t : norm_tok t = [] \/ exists t', norm_tok t = [t'].
Proof. destruct t; cbn [norm_tok]; eauto. Qed.

Lemma follows_norm t t2 t' :
  In t' (norm_tok t) -> follows t t2 = true ->
  (forall x, In x (norm_tok t2) -> follows t' x = true) /\
  (norm_tok t2 = [] -> forall y, follows t' y = true).
Proof.
  destruct t; cbn [norm_tok In]; intros Hin Hf; try contradiction; destruct Hin as [<- | []];
    cbn [follows] in *; try (split; intros; reflexivity).
  - destruct closed; [split; intros; reflexivity|].
    destruct t2; try discriminate. cbn [norm_tok In]. split; [intros x [<- | []]; reflexivity|discriminate].
  - destruct t2; try discriminate; cbn [norm_tok In];
      (split; [intros x [<- | []]; auto | discriminate]).
  - destruct t2; try discriminate. cbn [norm_tok In]. split; [intros x [<- | []]; reflexivity|discriminate].
Qed.

Lemma chain_fm l : chain l = true -> chain (flat_map norm_tok l) = true.
Proof.
  induction l as [|t r IH]; [auto|]. cbn [chain flat_map]. intro H.
  apply andb_true_iff in H as [Hf Hr]. specialize (IH Hr).
  destruct (norm_tok_small t) as [E | (t' & E)]; rewrite E; [exact IH|].
  cbn [app chain]. rewrite IH, andb_true_r.
  destruct r as [|t2 r2]; [reflexivity|].
  assert (Hin : In t' (norm_tok t)) by (rewrite E; now left).
  destruct (follows_norm t t2 t' Hin Hf) as [N1 N2].
  cbn [flat_map]. destruct (norm_tok t2) as [|x xs] eqn:E2.
  - cbn [app]. destruct (flat_map norm_tok r2); [reflexivity | now apply N2].
  - cbn [app]. apply N1. now left.
Qed.

Lemma forallb_fm l :
  forallb tok_ok l = true -> forallb tok_ok (flat_map norm_tok l) = true.
Proof.
  induction l as [|t r IH]; [auto|]. cbn [forallb flat_map]. intro H.
  apply andb_true_iff in H as [H1 H2]. rewrite forallb_app, (norm_tok_ok _ H1), (IH H2). reflexivity.
Qed.

Lemma fixed_fm l : Forall (fun t => norm_tok t = [t]) (flat_map norm_tok l).
Proof.
  apply Forall_forall. intros x Hx. apply in_flat_map in Hx as (t & _ & Hx).
  now apply (norm_tok_fixed t).
Qed.

(* ---------------------------------------------------------------- *)
(* lines *)

Definition line_ok (l : list token) : bool :=
  forallb tok_ok l && forallb (fun t => negb (is_nl_tok t)) l && chain l.

Lemma lines_first r :
  match lines r with
  | h :: _ => hd_error h = match r with
                           | [] => None
                           | t :: _ => if is_nl_tok t then None else Some t
                           end
  | [] => False
  end.
Proof.
  destruct r as [|t r]; [reflexivity|].
  destruct t; cbn [lines is_nl_tok]; destruct (lines r); reflexivity.
Qed.

Lemma lines_ok l :
  forallb tok_ok l = true -> chain l = true -> forallb line_ok (lines l) = true.
Proof.
  induction l as [|t r IH]; [reflexivity|]. cbn [forallb chain]. intros Ht Hc.
  apply andb_true_iff in Ht as [T1 T2]. apply andb_true_iff in Hc as [C1 C2].
  specialize (IH T2 C2).
  destruct (is_nl_tok t) eqn:En.
  - destruct t; try discriminate. cbn [lines forallb]. now rewrite IH.
  - rewrite lines_cons by (intros ->; discriminate).
    pose proof (lines_first r) as Hf.
    destruct (lines r) as [|h tl]; [contradiction|].
    cbn [forallb] in *. apply andb_true_iff in IH as [I1 I2]. rewrite I2, andb_true_r.
    unfold line_ok in *. apply andb_true_iff in I1 as [I1 I3]. apply andb_true_iff in I1 as [I0 I1].
    cbn [forallb chain]. rewrite T1, I0, En, I1, I3. cbn [negb andb]. rewrite andb_true_r.
    destruct h as [|x h']; [reflexivity|]. simpl in Hf.
    destruct r as [|t2 r2]; [discriminate|]. destruct (is_nl_tok t2); [discriminate|].
    inversion Hf; subst x. exact C1.
Qed.

Lemma forallb_filter {A} (p q : A -> bool) l :
  forallb p l = true -> forallb p (filter q l) = true.
Proof.
  induction l as [|a l IH]; [auto|]. cbn [forallb filter]. intro H.
  apply andb_true_iff in H as [H1 H2]. destruct (q a); cbn [forallb]; [now rewrite H1, IH | now apply IH].
Qed.

Lemma forallb_filter_self {A} (q : A -> bool) l : forallb q (filter q l) = true.
Proof.
  induction l as [|a l IH]; [auto|]. cbn [filter]. destruct (q a) eqn:E; cbn [forallb]; [now rewrite E|exact IH].
Qed.

Lemma filter_all {A} (q : A -> bool) l : forallb q l = true -> filter q l = l.
Proof.
  induction l as [|a l IH]; [auto|]. cbn [forallb filter]. intro H.
  apply andb_true_iff in H as [H1 H2]. now rewrite H1, IH.
Qed.

Lemma lines_nonl l : forallb (fun t => negb (is_nl_tok t)) l = true -> lines l = [l].
Proof.
  induction l as [|t r IH]; [reflexivity|]. cbn [forallb]. intro H.
  apply andb_true_iff in H as [H1 H2].
  rewrite lines_cons by (intros ->; discriminate). now rewrite (IH H2).
Qed.

(* ---------------------------------------------------------------- *)
(* the layout of the rendered text *)

Fixpoint lay_rest (prev : token) (r : list token) : list ltok :=
  match r with
  | [] => []
  | t :: r' => ((if is_data_tok prev then [] else [32]), t) :: lay_rest t r'
  end.

Definition lay_line (l : list token) : list ltok :=
  match l with [] => [] | t :: r => ([], t) :: lay_rest t r end.

Definition lay_lines (ls : list (list token)) : list ltok :=
  flat_map (fun l => lay_line l ++ [([], TNewline)]) ls.

Definition flat (ls : list (list token)) : list token :=
  flat_map (fun l => l ++ [TNewline]) ls.

Fixpoint rrest (prev : token) (r : list token) : str :=
  match r with
  | [] => []
  | t :: r' => (if is_data_tok prev then [] else [32]) ++ text t ++ rrest t r'
  end.

Lemma render_line_rrest t r : render_line (t :: r) = text t ++ rrest t r.
Proof.
  revert t; induction r as [|t2 r IH]; intro t.
  - simpl. now rewrite app_nil_r.
  - change (render_line (t :: t2 :: r))
      with (text t ++ (if is_data_tok t then [] else [32]) ++ render_line (t2 :: r)).
    rewrite IH. reflexivity.
Qed.

Lemma unlex_app l1 l2 tail : unlex (l1 ++ l2) tail = unlex l1 (unlex l2 tail).
Proof.
  induction l1 as [|[ws t] l1 IH]; [reflexivity|]. cbn [app unlex]. now rewrite IH.
Qed.

Lemma unlex_lay_rest prev r X : unlex (lay_rest prev r) X = rrest prev r ++ X.
Proof.
  revert prev; induction r as [|t r IH]; intro prev; [reflexivity|].
  cbn [lay_rest unlex rrest]. rewrite IH. now rewrite <- !app_assoc.
Qed.

Lemma unlex_lay_line l X : unlex (lay_line l) X = render_line l ++ X.
Proof.
  destruct l as [|t r]; [reflexivity|].
  cbn [lay_line unlex app]. rewrite unlex_lay_rest, render_line_rrest. now rewrite <- app_assoc.
Qed.

Lemma lay_lines_cons l ls :
  lay_lines (l :: ls) = (lay_line l ++ [([], TNewline)]) ++ lay_lines ls.
Proof. reflexivity. Qed.

Lemma flat_cons l ls : flat (l :: ls) = (l ++ [TNewline]) ++ flat ls.
Proof. reflexivity. Qed.

Lemma render_cons l ls : render (l :: ls) = (render_line l ++ [10]) ++ render ls.
Proof. reflexivity. Qed.

Lemma render_unlex ls : unlex (lay_lines ls) [] = render ls.
Proof.
  induction ls as [|l ls IH]; [reflexivity|].
  rewrite lay_lines_cons, render_cons, !unlex_app, IH, unlex_lay_line.
  cbn [unlex app]. now rewrite <- app_assoc.
Qed.

Lemma map_snd_lay_rest prev r : map snd (lay_rest prev r) = r.
Proof. revert prev; induction r as [|t r IH]; intro prev; [reflexivity|]. cbn [lay_rest map snd]. now rewrite IH. Qed.

Lemma map_snd_lay_lines ls : map snd (lay_lines ls) = flat ls.
Proof.
  induction ls as [|l ls IH]; [reflexivity|].
  rewrite lay_lines_cons, flat_cons, !map_app.
  f_equal; [|exact IH].
  destruct l as [|t r]; [reflexivity|]. cbn [lay_line map snd app]. now rewrite map_snd_lay_rest.
Qed.

(* every token ends at a newline; every token that does not run to the end of
   its line ends at a blank *)
Ltac conc c :=
  try change (is_numsuffix c) with false; try change (is_suffix c) with false;
  try change (is_numch c) with false; try change (is_alnum c) with false;
  try change (is_sign c) with false; try change (is_relch c) with false;
  try change (is_digit c) with false; try change (is_ho c) with false;
  try change (is_colon c) with false; try change (10 =? 10) with true;
  try change (32 =? 10) with false.

Ltac fin :=
  rewrite ?andb_false_r, ?orb_true_r; cbn [andb negb orb];
  repeat match goal with
         | |- context [is_nil ?x] => destruct (is_nil x)
         | |- context [if ?b then _ else _] => destruct b
         end; reflexivity.

Lemma stops_nl t : stops t (Some 10) = true.
Proof.
  destruct t; cbn [stops]; unfold onhd, ohd, at_eol; conc 10; try reflexivity; try fin.
  destruct o as [|c [|d o]]; try reflexivity. conc 10. fin.
Qed.

Definition eol_kind (t : token) : bool :=
  match t with TStr _ false | TRem _ _ | TApos _ | TData _ _ => true | _ => false end.

Lemma stops_blank t : eol_kind t = false -> stops t (Some 32) = true.
Proof.
  destruct t; cbn [stops eol_kind]; unfold onhd, ohd, at_eol; conc 32; intro He;
    try discriminate; try reflexivity; try fin.
  - destruct closed; [reflexivity | discriminate].
  - destruct o as [|c [|d o]]; try reflexivity. conc 32. fin.
Qed.

Lemma lay_rest_ok prev r :
  tok_ok prev = true -> forallb tok_ok r = true ->
  forallb (fun t => negb (is_nl_tok t)) r = true -> chain (prev :: r) = true ->
  lay_ok (lay_rest prev r) (Some 10) = true /\
  stops prev (hd_lay (lay_rest prev r) (Some 10)) = true.
Proof.
  revert prev; induction r as [|t r IH]; intros prev Hp Hr Hn Hc.
  - split; [reflexivity | apply stops_nl].
  - cbn [forallb] in Hr, Hn. apply andb_true_iff in Hr as [R1 R2].
    apply andb_true_iff in Hn as [N1 N2].
    change (chain (prev :: t :: r)) with (follows prev t && chain (t :: r)) in Hc.
    apply andb_true_iff in Hc as [C1 C2].
    destruct (IH t R1 R2 N2 C2) as [I1 I2].
    cbn [lay_rest lay_ok hd_lay]. rewrite R1, I1, I2.
    destruct (tok_ok_text t R1) as (c & u & Ht & _).
    destruct prev; cbn [is_data_tok follows] in *; cbn [forallb is_blank app hd_error andb];
      try (split; [reflexivity | now apply stops_blank]).
    + (* string: only a closed one can be followed by a token on the line *)
      destruct closed; [split; [reflexivity | reflexivity]|].
      destruct t; discriminate.
    + (* DATA: followed by a colon *)
      destruct t; try discriminate. cbn [text app hd_error stops at_eol ohd].
      split; [reflexivity|]. rewrite C1. reflexivity.
    + destruct t; discriminate.
    + destruct t; discriminate.
Qed.

Lemma lay_line_ok l : line_ok l = true -> lay_ok (lay_line l) (Some 10) = true.
Proof.
  unfold line_ok. intro H. apply andb_true_iff in H as [H H3]. apply andb_true_iff in H as [H1 H2].
  destruct l as [|t r]; [reflexivity|]. cbn [forallb] in H1, H2.
  apply andb_true_iff in H1 as [T1 T2]. apply andb_true_iff in H2 as [_ N2].
  destruct (lay_rest_ok t r T1 T2 N2 H3) as [L1 L2].
  cbn [lay_line lay_ok forallb]. now rewrite T1, L1, L2.
Qed.

Lemma lay_lines_ok ls : forallb line_ok ls = true -> lay_ok (lay_lines ls) None = true.
Proof.
  induction ls as [|l ls IH]; [reflexivity|]. cbn [forallb]. intro H.
  apply andb_true_iff in H as [H1 H2]. rewrite lay_lines_cons.
  rewrite <- app_assoc, lay_ok_app. cbn [app hd_lay text hd_error lay_ok forallb tok_ok stops].
  now rewrite (lay_line_ok _ H1), (IH H2).
Qed.

(* ---------------------------------------------------------------- *)
(* normalising the rendered lines gives the lines back *)

Lemma fm_fixed l : Forall (fun t => norm_tok t = [t]) l -> flat_map norm_tok l = l.
Proof.
  induction 1 as [|t l Ht _ IH]; [reflexivity|]. cbn [flat_map]. now rewrite Ht, IH.
Qed.

Lemma lines_flat ls :
  forallb (fun l => forallb (fun t => negb (is_nl_tok t)) l) ls = true ->
  lines (flat ls) = ls ++ [[]].
Proof.
  induction ls as [|l ls IH]; [reflexivity|]. cbn [forallb]. intro H.
  apply andb_true_iff in H as [H1 H2]. rewrite flat_cons.
  rewrite <- app_assoc. cbn [app]. rewrite lines_app_nl, (lines_nonl _ H1), (IH H2). reflexivity.
Qed.

Lemma lines_in l : forall line x, In line (lines l) -> In x line -> In x l.
Proof.
  induction l as [|t r IH]; intros line x Hl Hx.
  - simpl in Hl. destruct Hl as [<- | []]. contradiction.
  - destruct (is_nl_tok t) eqn:En.
    + destruct t; try discriminate. cbn [lines] in Hl. destruct Hl as [<- | Hl]; [contradiction|].
      right. now apply (IH line).
    + rewrite lines_cons in Hl by (intros ->; discriminate).
      destruct (lines r) as [|h tl] eqn:E.
      * destruct Hl as [<- | []]. destruct Hx as [<- | []]. now left.
      * destruct Hl as [<- | Hl].
        -- destruct Hx as [<- | Hx]; [now left|]. right. apply (IH h); [now left | exact Hx].
        -- right. apply (IH line); [now right | exact Hx].
Qed.

Theorem canon_idempotent s : canon (canon s) = canon s.
Proof.
  unfold canon at 2 3. unfold lex.
  destruct (lex_layout s) as [l tail] eqn:El. cbn [fst].
  destruct (lex_lay_ok _ _ _ El) as (_ & Hok & _).
  destruct (lay_chain _ _ Hok) as [A1 A2].
  set (LS := normalise (map snd l)).
  assert (Hlines : forallb line_ok LS = true).
  { unfold LS, normalise. apply forallb_filter. apply lines_ok; [now apply forallb_fm | now apply chain_fm]. }
  assert (Hkeep : forallb keep_line LS = true) by apply forallb_filter_self.
  rewrite <- (render_unlex LS).
  rewrite (canon_layout (lay_lines LS) [] (lay_lines_ok _ Hlines) eq_refl).
  rewrite render_unlex. f_equal.
  rewrite map_snd_lay_lines. unfold normalise at 1.
  assert (Hfix : Forall (fun t => norm_tok t = [t]) (flat LS)).
  { apply Forall_forall. intros x Hx. unfold flat in Hx. apply in_flat_map in Hx as (line & Hl & Hx).
    apply in_app_or in Hx as [Hx | [<- | []]]; [|reflexivity].
    unfold LS, normalise in Hl. apply filter_In in Hl as [Hl _].
    pose proof (fixed_fm (map snd l)) as Hf. rewrite Forall_forall in Hf.
    apply Hf. now apply (lines_in _ line). }
  rewrite (fm_fixed _ Hfix).
  assert (Hnonl : forallb (fun l0 => forallb (fun t => negb (is_nl_tok t)) l0) LS = true).
  { clear -Hlines. induction LS as [|a LS IH]; [reflexivity|]. cbn [forallb] in *.
    apply andb_true_iff in Hlines as [H1 H2]. rewrite (IH H2), andb_true_r.
    unfold line_ok in H1. apply andb_true_iff in H1 as [H1 _]. now apply andb_true_iff in H1 as [_ H1]. }
  rewrite (lines_flat _ Hnonl), filter_app. cbn [filter keep_line]. rewrite app_nil_r.
  now apply filter_all.
Qed.
