(* C15, text part: the model of parse_data accepts exactly the texts generated
   by the item grammar of Models/DataSpec.v and returns their items. *)
From Coq Require Import ZArith List Bool Lia.
From QV Require Import Sx Strs DataText DataSpec.
Import ListNotations.
Open Scope Z_scope.

(* ---------- small facts on lists and characters ---------- *)

Lemma drop_while_all p a b :
  forallb p a = true -> drop_while p (a ++ b) = drop_while p b.
Proof.
  induction a as [|c a IH]; simpl; intro H; [reflexivity|].
  apply andb_true_iff in H as [H1 H2]. rewrite H1. now apply IH.
Qed.

Lemma drop_while_head p c r : p c = false -> drop_while p (c :: r) = c :: r.
Proof. intro H. simpl. now rewrite H. Qed.

Lemma forallb_rev {A} (p : A -> bool) l : forallb p (rev l) = forallb p l.
Proof.
  induction l as [|a l IH]; simpl; [reflexivity|].
  rewrite forallb_app, IH. simpl. rewrite andb_true_r. apply andb_comm.
Qed.

(* s = kept ++ dropped-at-the-end *)
Lemma drop_while_split p s :
  exists a, s = a ++ drop_while p s /\ forallb p a = true.
Proof.
  induction s as [|c s IH]; simpl.
  - exists []. split; reflexivity.
  - destruct (p c) eqn:E.
    + destruct IH as [a [H1 H2]]. exists (c :: a). split.
      * simpl. now f_equal.
      * simpl. now rewrite E.
    + exists []. split; reflexivity.
Qed.

Lemma drop_while_hd p s :
  match drop_while p s with c :: _ => p c = false | [] => True end.
Proof.
  induction s as [|c s IH]; simpl; [exact I|].
  destruct (p c) eqn:E; [exact IH | exact E].
Qed.

Lemma drop_while_end_split p s :
  exists w, s = drop_while_end p s ++ w /\ forallb p w = true.
Proof.
  unfold drop_while_end.
  destruct (drop_while_split p (rev s)) as [a [H1 H2]].
  exists (rev a). split.
  - rewrite <- rev_app_distr, <- H1. now rewrite rev_involutive.
  - now rewrite forallb_rev.
Qed.

Lemma last_ch_snoc s c : last_ch (s ++ [c]) = Some c.
Proof. unfold last_ch. now rewrite rev_app_distr. Qed.

Lemma drop_while_end_last p s :
  match last_ch (drop_while_end p s) with Some c => p c = false | None => True end.
Proof.
  unfold drop_while_end, last_ch. rewrite rev_involutive.
  pose proof (drop_while_hd p (rev s)) as H.
  destruct (drop_while p (rev s)); exact H.
Qed.

Lemma drop_while_end_keep p s c :
  p c = false -> drop_while_end p (s ++ [c]) = s ++ [c].
Proof.
  intro H. unfold drop_while_end. rewrite rev_app_distr. simpl. rewrite H.
  simpl. now rewrite rev_involutive.
Qed.

Lemma drop_while_end_all p a b :
  forallb p b = true -> drop_while_end p (a ++ b) = drop_while_end p a.
Proof.
  intro H. unfold drop_while_end. rewrite rev_app_distr.
  rewrite drop_while_all; [reflexivity | now rewrite forallb_rev].
Qed.

Lemma is_blank_py_space c : is_blank c = true -> is_py_space c = true.
Proof.
  unfold is_blank, is_py_space. intro H.
  apply orb_true_iff in H as [H|H]; apply Z.eqb_eq in H; subst; reflexivity.
Qed.

Lemma all_blank_py_space w : all_blank w = true -> forallb is_py_space w = true.
Proof.
  unfold all_blank. induction w as [|c w IH]; simpl; [reflexivity|].
  intro H. apply andb_true_iff in H as [H1 H2].
  rewrite (is_blank_py_space _ H1). now apply IH.
Qed.

Lemma plain_text_app a b : plain_text (a ++ b) = plain_text a && plain_text b.
Proof. unfold plain_text. apply forallb_app. Qed.

Lemma plain_char c s :
  plain_text s = true -> In c s -> is_blank c = false -> is_py_space c = false.
Proof.
  unfold plain_text. intros H Hin Hb.
  rewrite forallb_forall in H. specialize (H c Hin).
  rewrite Hb in H. rewrite orb_false_r in H. now apply negb_true_iff in H.
Qed.

(* in a plain text, what str.strip() removes at the end are blanks *)
Lemma plain_py_space_blank w :
  plain_text w = true -> forallb is_py_space w = true -> all_blank w = true.
Proof.
  unfold plain_text, all_blank. induction w as [|c w IH]; simpl; [reflexivity|].
  intros H1 H2. apply andb_true_iff in H1 as [Ha Hb]. apply andb_true_iff in H2 as [Hc Hd].
  rewrite Hc in Ha. simpl in Ha. rewrite Ha. now apply IH.
Qed.

Lemma no_char_app c a b : no_char c (a ++ b) = no_char c a && no_char c b.
Proof. unfold no_char. apply forallb_app. Qed.

Lemma all_blank_app a b : all_blank (a ++ b) = all_blank a && all_blank b.
Proof. unfold all_blank. apply forallb_app. Qed.

Lemma blank_not_comma c : is_blank c = true -> (c =? ch_comma) = false.
Proof.
  unfold is_blank. intro H. apply orb_true_iff in H as [H|H]; apply Z.eqb_eq in H; subst; reflexivity.
Qed.

Lemma blank_not_quote c : is_blank c = true -> (c =? ch_quote) = false.
Proof.
  unfold is_blank. intro H. apply orb_true_iff in H as [H|H]; apply Z.eqb_eq in H; subst; reflexivity.
Qed.

Lemma all_blank_no_comma w : all_blank w = true -> no_char ch_comma w = true.
Proof.
  unfold all_blank, no_char. induction w as [|c w IH]; simpl; [reflexivity|].
  intro H. apply andb_true_iff in H as [H1 H2].
  rewrite (blank_not_comma _ H1). simpl. now apply IH.
Qed.

(* str.strip() of an unquoted item followed by blanks *)
Lemma py_strip_plain c r w :
  is_py_space c = false ->
  match last_ch (c :: r) with Some d => is_py_space d = false | None => False end ->
  forallb is_py_space w = true ->
  py_strip ((c :: r) ++ w) = c :: r.
Proof.
  intros Hc Hl Hw. unfold py_strip.
  replace (drop_while is_py_space ((c :: r) ++ w)) with ((c :: r) ++ w)
    by (simpl; now rewrite Hc).
  rewrite drop_while_end_all by exact Hw.
  destruct (rev (c :: r)) as [|d t] eqn:E.
  - unfold last_ch in Hl. rewrite E in Hl. contradiction.
  - unfold last_ch in Hl. rewrite E in Hl.
    assert (Hs : c :: r = rev t ++ [d]).
    { rewrite <- (rev_involutive (c :: r)), E. reflexivity. }
    rewrite Hs. now apply drop_while_end_keep.
Qed.

(* ---------- running the tokeniser over a segment ---------- *)

Lemma pd_run_app q a b :
  pd_run q (a ++ b) = match pd_run q a with Some q' => pd_run q' b | None => None end.
Proof.
  revert q; induction a as [|c a IH]; intro q; simpl; [reflexivity|].
  destruct (pd_step q c); [apply IH | reflexivity].
Qed.

Lemma run_blanks_before w items item :
  all_blank w = true -> pd_run (PBefore, items, item) w = Some (PBefore, items, item).
Proof.
  unfold all_blank. induction w as [|c w IH]; simpl; intro H; [reflexivity|].
  apply andb_true_iff in H as [H1 H2]. rewrite H1. now apply IH.
Qed.

Lemma run_blanks_after w items item :
  all_blank w = true -> pd_run (PAfter, items, item) w = Some (PAfter, items, item).
Proof.
  unfold all_blank. induction w as [|c w IH]; simpl; intro H; [reflexivity|].
  apply andb_true_iff in H as [H1 H2]. rewrite H1. now apply IH.
Qed.

Lemma run_unq s items item :
  no_char ch_comma s = true -> pd_run (PUnq, items, item) s = Some (PUnq, items, item ++ s).
Proof.
  unfold no_char. revert item; induction s as [|c s IH]; simpl; intros item H.
  - now rewrite app_nil_r.
  - apply andb_true_iff in H as [H1 H2]. apply negb_true_iff in H1. rewrite H1.
    rewrite IH by exact H2. now rewrite <- app_assoc.
Qed.

Lemma run_quo s items item :
  no_char ch_quote s = true -> pd_run (PQuo, items, item) s = Some (PQuo, items, item ++ s).
Proof.
  unfold no_char. revert item; induction s as [|c s IH]; simpl; intros item H.
  - now rewrite app_nil_r.
  - apply andb_true_iff in H as [H1 H2]. apply negb_true_iff in H1. rewrite H1.
    rewrite IH by exact H2. now rewrite <- app_assoc.
Qed.

(* ---------- grammar -> tokeniser ---------- *)

(* what an ok unquoted item looks like *)
Lemma plain_ok_inv u :
  plain_ok u = true ->
  exists c r, u = c :: r /\ is_blank c = false /\ (c =? ch_quote) = false /\
              no_char ch_comma u = true /\
              match last_ch u with Some d => is_blank d = false | None => False end.
Proof.
  destruct u as [|c r]; simpl; [discriminate|].
  intro H. repeat (apply andb_true_iff in H as [H ?]).
  exists c, r. repeat split.
  - now apply negb_true_iff in H.
  - now apply negb_true_iff.
  - assumption.
  - destruct (last_ch (c :: r)); [now apply negb_true_iff | discriminate].
Qed.

Definition fld_plain (f : field) : bool := plain_text (render_field f).

(* state reached after the text of a field, started in PBefore with item = [] *)
Lemma run_field_empty w items :
  all_blank w = true ->
  pd_run (PBefore, items, []) w = Some (PBefore, items, []).
Proof. apply run_blanks_before. Qed.

Lemma run_field_plain w1 u w2 items :
  all_blank w1 = true -> plain_ok u = true -> all_blank w2 = true ->
  pd_run (PBefore, items, []) (w1 ++ u ++ w2) = Some (PUnq, items, u ++ w2).
Proof.
  intros H1 Hu H2. destruct (plain_ok_inv u Hu) as [c [r [-> [Hb [Hq [Hc _]]]]]].
  rewrite pd_run_app, run_blanks_before by exact H1.
  change ((c :: r) ++ w2) with (c :: (r ++ w2)). cbn [pd_run pd_step].
  rewrite Hb. simpl in Hc. apply andb_true_iff in Hc as [Hc1 Hc2].
  apply negb_true_iff in Hc1. rewrite Hc1, Hq.
  rewrite run_unq.
  - reflexivity.
  - rewrite no_char_app. rewrite (all_blank_no_comma _ H2).
    unfold no_char in *. now rewrite Hc2.
Qed.

Lemma run_field_quoted w1 q w2 items :
  all_blank w1 = true -> no_char ch_quote q = true -> all_blank w2 = true ->
  pd_run (PBefore, items, []) (w1 ++ ch_quote :: q ++ ch_quote :: w2)
  = Some (PAfter, items ++ [DItem q], []).
Proof.
  intros H1 Hq H2.
  rewrite pd_run_app, run_blanks_before by exact H1.
  cbn [pd_run pd_step]. change (is_blank ch_quote) with false.
  change (ch_quote =? ch_comma) with false. change (ch_quote =? ch_quote) with true.
  cbv iota. rewrite pd_run_app, run_quo by exact Hq.
  cbn [pd_run pd_step]. change (ch_quote =? ch_quote) with true. cbv iota.
  simpl app. now apply run_blanks_after.
Qed.

Lemma run_field_open w1 q items :
  all_blank w1 = true -> no_char ch_quote q = true ->
  pd_run (PBefore, items, []) (w1 ++ ch_quote :: q) = Some (PQuo, items, q).
Proof.
  intros H1 Hq.
  rewrite pd_run_app, run_blanks_before by exact H1.
  cbn [pd_run pd_step]. change (is_blank ch_quote) with false.
  change (ch_quote =? ch_comma) with false. change (ch_quote =? ch_quote) with true.
  cbv iota. now rewrite run_quo by exact Hq.
Qed.

Lemma strip_plain_field u w2 :
  plain_ok u = true -> all_blank w2 = true -> plain_text u = true ->
  py_strip (u ++ w2) = u.
Proof.
  intros Hu H2 Hp. destruct (plain_ok_inv u Hu) as [c [r [-> [Hb [_ [_ Hl]]]]]].
  apply py_strip_plain.
  - apply (plain_char c (c :: r)); [exact Hp | now left | exact Hb].
  - destruct (last_ch (c :: r)) as [d|] eqn:E; [|contradiction].
    apply (plain_char d (c :: r)); [exact Hp | | exact Hl].
    unfold last_ch in E. destruct (rev (c :: r)) as [|d' t] eqn:E2; [discriminate|].
    inversion E; subst. apply in_rev. rewrite E2. now left.
  - now apply all_blank_py_space.
Qed.

(* a complete (not open) field followed by a comma *)
Lemma run_field_comma f items :
  field_ok f = true -> is_open f = false -> fld_plain f = true ->
  pd_run (PBefore, items, []) (render_field f ++ [ch_comma])
  = Some (PBefore, items ++ [item_of f], []).
Proof.
  unfold fld_plain. destruct f as [w|w1 u w2|w1 q w2|w1 q]; simpl; intros Hok Hop Hpl;
    try discriminate.
  - rewrite pd_run_app, run_blanks_before by exact Hok. reflexivity.
  - apply andb_true_iff in Hok as [Hok H2]. apply andb_true_iff in Hok as [H1 Hu].
    rewrite app_assoc, pd_run_app, <- app_assoc, (run_field_plain _ _ _ _ H1 Hu H2).
    cbn [pd_run pd_step]. change (ch_comma =? ch_comma) with true. cbv iota.
    rewrite strip_plain_field; [reflexivity | exact Hu | exact H2 |].
    rewrite !plain_text_app in Hpl. apply andb_true_iff in Hpl as [_ Hpl].
    now apply andb_true_iff in Hpl as [Hpl _].
  - apply andb_true_iff in Hok as [Hok H2]. apply andb_true_iff in Hok as [H1 Hq].
    replace ((w1 ++ ch_quote :: q ++ ch_quote :: w2) ++ [ch_comma])
      with ((w1 ++ ch_quote :: q ++ ch_quote :: w2) ++ [ch_comma]) by reflexivity.
    rewrite pd_run_app, (run_field_quoted _ _ _ _ H1 Hq H2). reflexivity.
Qed.

(* the last field, then the end of the text *)
Lemma run_field_finish f items :
  field_ok f = true -> fld_plain f = true ->
  option_map pd_finish (pd_run (PBefore, items, []) (render_field f))
  = Some (items ++ [item_of f]).
Proof.
  unfold fld_plain. destruct f as [w|w1 u w2|w1 q w2|w1 q]; simpl; intros Hok Hpl.
  - rewrite run_blanks_before by exact Hok. reflexivity.
  - apply andb_true_iff in Hok as [Hok H2]. apply andb_true_iff in Hok as [H1 Hu].
    rewrite (run_field_plain _ _ _ _ H1 Hu H2). simpl.
    rewrite strip_plain_field; [reflexivity | exact Hu | exact H2 |].
    rewrite !plain_text_app in Hpl. apply andb_true_iff in Hpl as [_ Hpl].
    now apply andb_true_iff in Hpl as [Hpl _].
  - apply andb_true_iff in Hok as [Hok H2]. apply andb_true_iff in Hok as [H1 Hq].
    rewrite (run_field_quoted _ _ _ _ H1 Hq H2). reflexivity.
  - apply andb_true_iff in Hok as [H1 Hq].
    rewrite (run_field_open _ _ _ H1 Hq). reflexivity.
Qed.

Lemma render_cons f g r : render (f :: g :: r) = render_field f ++ ch_comma :: render (g :: r).
Proof. reflexivity. Qed.

Lemma fields_ok_cons f g r :
  fields_ok (f :: g :: r) = field_ok f && negb (is_open f) && fields_ok (g :: r).
Proof. reflexivity. Qed.

Lemma render_parse_from fs : forall items,
  fields_ok fs = true -> plain_text (render fs) = true ->
  option_map pd_finish (pd_run (PBefore, items, []) (render fs)) = Some (items ++ map item_of fs).
Proof.
  induction fs as [|f r IH]; intros items Hok Hpl; [discriminate|].
  destruct r as [|g r].
  - simpl in *. now apply run_field_finish.
  - rewrite fields_ok_cons in Hok. apply andb_true_iff in Hok as [Hok Hr].
    apply andb_true_iff in Hok as [Hf Hop]. apply negb_true_iff in Hop.
    rewrite render_cons in *. rewrite plain_text_app in Hpl. apply andb_true_iff in Hpl as [Hp1 Hp2].
    change (ch_comma :: render (g :: r)) with ([ch_comma] ++ render (g :: r)) in *.
    rewrite plain_text_app in Hp2. apply andb_true_iff in Hp2 as [_ Hp2].
    rewrite app_assoc, pd_run_app, (run_field_comma f items Hf Hop Hp1).
    rewrite (IH (items ++ [item_of f]) Hr Hp2).
    simpl map. now rewrite <- app_assoc.
Qed.

Theorem data_render_parse fs :
  fields_ok fs = true -> plain_text (render fs) = true ->
  parse_data (render fs) = Some (map item_of fs).
Proof. intros H1 H2. unfold parse_data, pd_init. now rewrite (render_parse_from fs [] H1 H2). Qed.

(* ---------- tokeniser -> grammar ---------- *)

Definition prefix_of (done : list field) : str :=
  flat_map (fun f => render_field f ++ [ch_comma]) done.

Definition done_ok (done : list field) : bool :=
  forallb (fun f => field_ok f && negb (is_open f)) done.

(* invariant: state, completed fields, text of the field being read *)
Inductive inv : pstate -> list field -> str -> Prop :=
| InvB done w :
    done_ok done = true -> all_blank w = true ->
    inv (PBefore, map item_of done, []) done w
| InvU done w1 c r :
    done_ok done = true -> all_blank w1 = true ->
    is_blank c = false -> (c =? ch_quote) = false -> no_char ch_comma (c :: r) = true ->
    inv (PUnq, map item_of done, c :: r) done (w1 ++ c :: r)
| InvQ done w1 q :
    done_ok done = true -> all_blank w1 = true -> no_char ch_quote q = true ->
    inv (PQuo, map item_of done, q) done (w1 ++ ch_quote :: q)
| InvA done w1 q w2 :
    done_ok done = true -> all_blank w1 = true -> no_char ch_quote q = true ->
    all_blank w2 = true ->
    inv (PAfter, map item_of done ++ [DItem q], []) done (w1 ++ ch_quote :: q ++ ch_quote :: w2).

Lemma done_ok_snoc done f :
  done_ok (done ++ [f]) = done_ok done && (field_ok f && negb (is_open f)).
Proof. unfold done_ok. rewrite forallb_app. simpl. now rewrite andb_true_r. Qed.

Lemma prefix_snoc done f : prefix_of (done ++ [f]) = prefix_of done ++ render_field f ++ [ch_comma].
Proof. unfold prefix_of. rewrite flat_map_app. simpl. now rewrite app_nil_r. Qed.

Lemma map_snoc {A B} (g : A -> B) l a : map g (l ++ [a]) = map g l ++ [g a].
Proof. now rewrite map_app. Qed.

(* an unquoted raw item splits into the trimmed item and trailing blanks *)
Lemma unq_field c r :
  is_blank c = false -> (c =? ch_quote) = false -> no_char ch_comma (c :: r) = true ->
  plain_text (c :: r) = true ->
  exists u w2, c :: r = u ++ w2 /\ py_strip (c :: r) = u /\ plain_ok u = true /\ all_blank w2 = true.
Proof.
  intros Hb Hq Hc Hp.
  assert (Hsp : is_py_space c = false).
  { apply (plain_char c (c :: r)); [exact Hp | now left | exact Hb]. }
  unfold py_strip. rewrite (drop_while_head _ _ _ Hsp).
  destruct (drop_while_end_split is_py_space (c :: r)) as [w [Hs Hw]].
  set (u := drop_while_end is_py_space (c :: r)) in *.
  exists u, w. split; [exact Hs|]. split; [reflexivity|].
  assert (Hpw : plain_text w = true).
  { rewrite Hs in Hp. rewrite plain_text_app in Hp. now apply andb_true_iff in Hp as [_ Hp]. }
  split; [|now apply plain_py_space_blank].
  (* u starts with c *)
  destruct u as [|c' u'] eqn:Eu.
  - (* impossible: then c :: r = w, all white space *)
    simpl in Hs. rewrite <- Hs in Hw. simpl in Hw. now rewrite Hsp in Hw.
  - assert (c' = c) by (simpl in Hs; now inversion Hs). subst c'.
    unfold plain_ok. rewrite Hb, Hq. simpl negb. cbn [andb].
    assert (Hcu : no_char ch_comma (c :: u') = true).
    { rewrite Hs in Hc. rewrite no_char_app in Hc. now apply andb_true_iff in Hc as [Hc _]. }
    rewrite Hcu. cbn [andb].
    pose proof (drop_while_end_last is_py_space (c :: r)) as Hl. fold u in Hl. rewrite Eu in Hl.
    destruct (last_ch (c :: u')) as [d|] eqn:El.
    + apply negb_true_iff. destruct (is_blank d) eqn:Ed; [|reflexivity].
      apply is_blank_py_space in Ed. congruence.
    + unfold last_ch in El. destruct (rev (c :: u')) eqn:Er; [|discriminate].
      apply (f_equal (@length Z)) in Er. rewrite rev_length in Er. discriminate.
Qed.

(* one character *)
Lemma inv_step q done p c q' :
  inv q done p -> plain_text p = true -> pd_step q c = Some q' ->
  exists done' p', inv q' done' p' /\ prefix_of done' ++ p' = prefix_of done ++ p ++ [c].
Proof.
  intros Hinv Hpl Hstep. destruct Hinv as [done w Hd Hw | done w1 c0 r Hd Hw Hb Hq Hc
                                          | done w1 q Hd Hw Hq | done w1 q w2 Hd Hw Hq Hw2];
    cbn [pd_step] in Hstep.
  - (* PBefore *)
    destruct (is_blank c) eqn:Eb.
    + inversion Hstep; subst. exists done, (w ++ [c]). split; [|reflexivity].
      constructor; [exact Hd|]. rewrite all_blank_app, Hw. simpl. now rewrite Eb.
    + destruct (c =? ch_comma) eqn:Ec.
      * inversion Hstep; subst. apply Z.eqb_eq in Ec. subst c.
        exists (done ++ [FEmpty w]), []. split.
        -- replace (map item_of done ++ [DEmpty]) with (map item_of (done ++ [FEmpty w]))
             by (now rewrite map_snoc).
           constructor; [|reflexivity].
           rewrite done_ok_snoc, Hd. simpl. now rewrite Hw.
        -- rewrite prefix_snoc. simpl. now rewrite app_nil_r.
      * destruct (c =? ch_quote) eqn:Eq.
        -- inversion Hstep; subst. apply Z.eqb_eq in Eq. subst c.
           exists done, (w ++ ch_quote :: []). split; [|reflexivity].
           now constructor.
        -- inversion Hstep; subst. exists done, (w ++ c :: []). split; [|reflexivity].
           constructor; try assumption. unfold no_char. simpl. now rewrite Ec.
  - (* PUnq *)
    destruct (c =? ch_comma) eqn:Ec.
    + inversion Hstep; subst. apply Z.eqb_eq in Ec. subst c.
      assert (Hp : plain_text (c0 :: r) = true).
      { rewrite plain_text_app in Hpl. now apply andb_true_iff in Hpl as [_ Hpl]. }
      destruct (unq_field c0 r Hb Hq Hc Hp) as [u [w2 [Hs [Hst [Hu Hw2]]]]].
      exists (done ++ [FPlain w1 u w2]), []. split.
      * rewrite Hst.
        replace (map item_of done ++ [DItem u]) with (map item_of (done ++ [FPlain w1 u w2]))
          by (now rewrite map_snoc).
        constructor; [|reflexivity]. rewrite done_ok_snoc, Hd. simpl. now rewrite Hw, Hu, Hw2.
      * rewrite prefix_snoc. simpl. rewrite app_nil_r, <- Hs. now rewrite <- !app_assoc.
    + inversion Hstep; subst. exists done, (w1 ++ c0 :: (r ++ [c])). split.
      * change (c0 :: r ++ [c]) with ((c0 :: r) ++ [c]).
        change ((c0 :: r) ++ [c]) with (c0 :: (r ++ [c])).
        constructor; try assumption.
        change (c0 :: r ++ [c]) with ((c0 :: r) ++ [c]). rewrite no_char_app, Hc.
        unfold no_char. simpl. now rewrite Ec.
      * now rewrite <- !app_assoc.
  - (* PQuo *)
    destruct (c =? ch_quote) eqn:Eq.
    + inversion Hstep; subst. apply Z.eqb_eq in Eq. subst c.
      exists done, (w1 ++ ch_quote :: q ++ ch_quote :: []). split.
      * now constructor.
      * rewrite <- !app_assoc. reflexivity.
    + inversion Hstep; subst. exists done, (w1 ++ ch_quote :: (q ++ [c])). split.
      * constructor; try assumption. rewrite no_char_app, Hq. unfold no_char. simpl. now rewrite Eq.
      * rewrite <- !app_assoc. reflexivity.
  - (* PAfter *)
    destruct (is_blank c) eqn:Eb.
    + inversion Hstep; subst. exists done, (w1 ++ ch_quote :: q ++ ch_quote :: (w2 ++ [c])). split.
      * constructor; try assumption. rewrite all_blank_app, Hw2. simpl. now rewrite Eb.
      * rewrite <- !app_assoc. simpl. rewrite <- !app_assoc. reflexivity.
    + destruct (c =? ch_comma) eqn:Ec; [|discriminate].
      inversion Hstep; subst. apply Z.eqb_eq in Ec. subst c.
      exists (done ++ [FQuoted w1 q w2]), []. split.
      * replace (map item_of done ++ [DItem q]) with (map item_of (done ++ [FQuoted w1 q w2]))
          by (now rewrite map_snoc).
        constructor; [|reflexivity]. rewrite done_ok_snoc, Hd. simpl. now rewrite Hw, Hq, Hw2.
      * rewrite prefix_snoc. simpl. rewrite app_nil_r. rewrite <- !app_assoc. reflexivity.
Qed.

(* the end of the text *)
Lemma inv_finish q done p :
  inv q done p -> plain_text p = true ->
  exists f, field_ok f = true /\ render_field f = p /\ map item_of (done ++ [f]) = pd_finish q.
Proof.
  intros Hinv Hpl. destruct Hinv as [done w Hd Hw | done w1 c0 r Hd Hw Hb Hq Hc
                                    | done w1 q Hd Hw Hq | done w1 q w2 Hd Hw Hq Hw2].
  - exists (FEmpty w). split; [exact Hw|]. split; [reflexivity|]. now rewrite map_snoc.
  - assert (Hp : plain_text (c0 :: r) = true).
    { rewrite plain_text_app in Hpl. now apply andb_true_iff in Hpl as [_ Hpl]. }
    destruct (unq_field c0 r Hb Hq Hc Hp) as [u [w2 [Hs [Hst [Hu Hw2]]]]].
    exists (FPlain w1 u w2). split; [simpl; now rewrite Hw, Hu, Hw2|].
    split; [simpl; now rewrite <- Hs|]. rewrite map_snoc. simpl. now rewrite Hst.
  - exists (FOpen w1 q). split; [simpl; now rewrite Hw, Hq|]. split; [reflexivity|].
    now rewrite map_snoc.
  - exists (FQuoted w1 q w2). split; [simpl; now rewrite Hw, Hq, Hw2|]. split; [reflexivity|].
    now rewrite map_snoc.
Qed.

Lemma prefix_cons g done : prefix_of (g :: done) = render_field g ++ ch_comma :: prefix_of done.
Proof. unfold prefix_of. simpl. now rewrite <- app_assoc. Qed.

Lemma render_snoc done f : render (done ++ [f]) = prefix_of done ++ render_field f.
Proof.
  induction done as [|g done IH]; [reflexivity|].
  rewrite prefix_cons. destruct done as [|h done].
  - simpl. now rewrite <- app_assoc.
  - change ((g :: h :: done) ++ [f]) with (g :: h :: (done ++ [f])).
    rewrite render_cons. change (h :: done ++ [f]) with ((h :: done) ++ [f]). rewrite IH.
    now rewrite <- app_assoc.
Qed.

Lemma fields_ok_snoc done f : fields_ok (done ++ [f]) = done_ok done && field_ok f.
Proof.
  induction done as [|g done IH]; [simpl; reflexivity|].
  destruct done as [|h done].
  - simpl. now rewrite andb_true_r.
  - change ((g :: h :: done) ++ [f]) with (g :: h :: (done ++ [f])).
    rewrite fields_ok_cons. change (h :: done ++ [f]) with ((h :: done) ++ [f]). rewrite IH.
    unfold done_ok. cbn [forallb]. now rewrite !andb_assoc.
Qed.

Lemma plain_mid a b c : plain_text (a ++ b ++ c) = true -> plain_text b = true.
Proof.
  rewrite !plain_text_app. intro H. apply andb_true_iff in H as [_ H].
  now apply andb_true_iff in H as [H _].
Qed.

Lemma parse_render_from t : forall q done p q',
  inv q done p -> plain_text (prefix_of done ++ p ++ t) = true -> pd_run q t = Some q' ->
  exists fs, fields_ok fs = true /\ render fs = prefix_of done ++ p ++ t /\
             map item_of fs = pd_finish q'.
Proof.
  induction t as [|c t IH]; intros q done p q' Hinv Hpl Hrun.
  - simpl in Hrun. inversion Hrun; subst q'. rewrite app_nil_r in *.
    assert (Hp : plain_text p = true).
    { rewrite plain_text_app in Hpl. now apply andb_true_iff in Hpl as [_ Hpl]. }
    destruct (inv_finish q done p Hinv Hp) as [f [Hf [Hr Hi]]].
    exists (done ++ [f]). split; [|split].
    + rewrite fields_ok_snoc, Hf. destruct Hinv; now rewrite H.
    + now rewrite render_snoc, Hr.
    + exact Hi.
  - simpl in Hrun. destruct (pd_step q c) as [q1|] eqn:Es; [|discriminate].
    assert (Hp : plain_text p = true) by (now apply (plain_mid _ _ _ Hpl)).
    destruct (inv_step q done p c q1 Hinv Hp Es) as [done' [p' [Hinv' Heq]]].
    assert (Htxt : prefix_of done' ++ p' ++ t = prefix_of done ++ p ++ c :: t).
    { rewrite app_assoc, Heq. rewrite <- !app_assoc. reflexivity. }
    destruct (IH q1 done' p' q' Hinv') as [fs [H1 [H2 H3]]].
    + now rewrite Htxt.
    + exact Hrun.
    + exists fs. split; [exact H1|]. split; [now rewrite H2, Htxt | exact H3].
Qed.

Theorem data_parse_render t items :
  plain_text t = true -> parse_data t = Some items -> data_items_spec t items.
Proof.
  unfold parse_data. intros Hpl H.
  destruct (pd_run pd_init t) as [q'|] eqn:E; [|discriminate].
  simpl in H. inversion H; subst items.
  assert (Hinv : inv pd_init [] []).
  { unfold pd_init. apply (InvB [] []); reflexivity. }
  destruct (parse_render_from t pd_init [] [] q' Hinv Hpl E) as [fs [H1 [H2 H3]]].
  exists fs. split; [exact H1|]. split; [exact H2 | exact H3].
Qed.

Theorem data_items_iff t items :
  plain_text t = true -> (parse_data t = Some items <-> data_items_spec t items).
Proof.
  intro Hpl. split.
  - now apply data_parse_render.
  - intros [fs [H1 [H2 H3]]]. subst t items. now apply data_render_parse.
Qed.

Theorem data_rejected_iff t :
  plain_text t = true -> (parse_data t = None <-> forall items, ~ data_items_spec t items).
Proof.
  intro Hpl. split.
  - intros Hn items Hs. apply (data_items_iff t items Hpl) in Hs. congruence.
  - intro H. destruct (parse_data t) as [items|] eqn:E; [|reflexivity].
    exfalso. apply (H items). now apply (data_items_iff t items Hpl).
Qed.

(* a DATA statement never has an empty item list *)
Definition nonempty_state (q : pstate) : Prop :=
  let '(s, items, _) := q in s = PAfter -> items <> [].

Lemma nonempty_step q c q' : nonempty_state q -> pd_step q c = Some q' -> nonempty_state q'.
Proof.
  destruct q as [[s items] item]. unfold nonempty_state. intros H Hs.
  destruct s; cbn [pd_step] in Hs.
  - destruct (is_blank c); [inversion Hs; subst; discriminate|].
    destruct (c =? ch_comma); [inversion Hs; subst; discriminate|].
    destruct (c =? ch_quote); inversion Hs; subst; discriminate.
  - destruct (c =? ch_comma); inversion Hs; subst; discriminate.
  - destruct (c =? ch_quote); inversion Hs; subst.
    + intros _ E. now apply app_eq_nil in E as [_ E].
    + discriminate.
  - destruct (is_blank c); [inversion Hs; subst; exact H|].
    destruct (c =? ch_comma); [inversion Hs; subst; discriminate | discriminate].
Qed.

Lemma nonempty_run t : forall q q', nonempty_state q -> pd_run q t = Some q' -> nonempty_state q'.
Proof.
  induction t as [|c t IH]; intros q q' H Hr; simpl in Hr.
  - now inversion Hr; subst.
  - destruct (pd_step q c) as [q1|] eqn:E; [|discriminate].
    apply (IH q1 q' (nonempty_step q c q1 H E) Hr).
Qed.

Theorem parse_data_nonempty t items : parse_data t = Some items -> items <> [].
Proof.
  unfold parse_data. destruct (pd_run pd_init t) as [q'|] eqn:E; [|discriminate].
  simpl. intro H. inversion H; subst items.
  assert (Hn : nonempty_state q').
  { apply (nonempty_run t pd_init q'); [|exact E]. unfold pd_init, nonempty_state. discriminate. }
  destruct q' as [[s its] item]. unfold nonempty_state in Hn. destruct s; simpl.
  - destruct item; intro X; now apply app_eq_nil in X as [_ X].
  - intro X; now apply app_eq_nil in X as [_ X].
  - intro X; now apply app_eq_nil in X as [_ X].
  - now apply Hn.
Qed.
