(* The disassembly of assembled items shows the listing after resolution:
   dis_items lits (assemble lits l) = expected_dis lits l. *)
From Coq Require Import String.
From Coq Require Import ZArith List Bool Lia.
From QV Require Import Sx Strs Fl Dec Machine Cpu Instrs Codec InstrCheck Listing.
From QV Require Import CodecProofs SectionProofs.
Import ListNotations.
Open Scope Z_scope.

(* ------------------------------------------------------------------ *)
(* mk_plain *)

Lemma mk_plain_name op vals i : mk_plain op vals = Some i -> instr_name i = op.
Proof.
  unfold mk_plain. destruct (find _ _) as [j|] eqn:F; [|discriminate].
  destruct (Nat.eqb _ _); [|discriminate]. intros [= <-].
  apply find_some in F. destruct F as (_ & E). now apply str_eqb_eq.
Qed.

Definition ov3 (a b c : Z) : list oval := [OvZ a; OvZ b; OvZ c].

Lemma candidates_operands a b c :
  Forall (fun i => instr_operands i = firstn (length (instr_operands i)) (ov3 a b c))
         (candidates a b c).
Proof. unfold candidates. repeat (constructor; [reflexivity|]). constructor. Qed.

Lemma firstn_vals vals :
  (length vals <= 3)%nat ->
  map OvZ vals = firstn (length vals) (ov3 (nth 0 vals 0) (nth 1 vals 0) (nth 2 vals 0)).
Proof.
  destruct vals as [|a [|b [|c [|d r]]]]; simpl; intros H; try reflexivity. lia.
Qed.

Lemma mk_plain_operands op vals i : mk_plain op vals = Some i -> instr_operands i = map OvZ vals.
Proof.
  unfold mk_plain. destruct (find _ _) as [j|] eqn:F; [|discriminate].
  destruct (Nat.eqb _ _) eqn:N; [|discriminate]. intros [= <-].
  apply find_some in F. destruct F as (I & _).
  pose proof (candidates_operands (nth 0 vals 0) (nth 1 vals 0) (nth 2 vals 0)) as C.
  rewrite Forall_forall in C. specialize (C _ I). apply Nat.eqb_eq in N.
  rewrite C, N. symmetry. apply firstn_vals.
  rewrite <- N, C. rewrite firstn_length. unfold ov3. simpl length. lia.
Qed.

(* ------------------------------------------------------------------ *)
(* dis_args by instruction class *)

Definition tok_of_oval (o : oval) : dtok :=
  match o with OvZ z => TNum z | OvF f => TFlt f end.

Definition is_label_instr (i : instr) : bool :=
  match i with ICall _ | IJmp _ | IJz _ | IErrhand _ => true | _ => false end.
Definition is_pushstr (i : instr) : bool :=
  match i with IPushStr _ => true | _ => false end.

Lemma dis_args_plain i :
  is_label_instr i = false -> is_pushstr i = false ->
  dis_args i = map tok_of_oval (instr_operands i).
Proof. destruct i; simpl; intros; try reflexivity; discriminate. Qed.

Lemma dis_args_label i t :
  is_label_instr i = true -> instr_operands i = [OvZ t] -> dis_args i = [THex t].
Proof. destruct i; simpl; intros H E; try discriminate; injection E as <-; reflexivity. Qed.

Lemma dis_args_pushstr i z :
  is_pushstr i = true -> instr_operands i = [OvZ z] -> i = IPushStr z.
Proof. destruct i; simpl; intros H E; try discriminate. injection E as <-. reflexivity. Qed.

(* mnemonics of the special classes *)
Lemma name_label_instr i :
  is_label_instr i = true ->
  instr_name i = L "call" \/ instr_name i = L "jmp" \/ instr_name i = L "jz" \/
  instr_name i = L "errhand".
Proof. destruct i; simpl; intros; try discriminate; auto. Qed.

Lemma label_instr_of_name i :
  (instr_name i = L "call" \/ instr_name i = L "jmp" \/ instr_name i = L "jz" \/
   instr_name i = L "errhand") -> is_label_instr i = true.
Proof.
  intros H. destruct i; try reflexivity; exfalso;
    cbv in H; repeat (destruct H as [H|H]; try discriminate); try discriminate.
Qed.

Lemma pushstr_of_name i : instr_name i = L "push$" -> is_pushstr i = true.
Proof.
  intros H. destruct i; try reflexivity; exfalso; simpl in H; try discriminate H.
  unfold smallc in H;
    repeat (match type of H with context [if ?b then _ else _] => destruct b end);
    simpl in H; discriminate H.
Qed.

Lemma name_of_pushstr i : is_pushstr i = true -> instr_name i = L "push$".
Proof. destruct i; simpl; intros; try discriminate; reflexivity. Qed.

Lemma str_eqb_refl s : str_eqb s s = true.
Proof. now apply str_eqb_eq. Qed.

Lemma str_eqb_false a b : str_eqb a b = false -> a <> b.
Proof. intros H E. subst. rewrite str_eqb_refl in H. discriminate. Qed.

Lemma is_label_op_names op :
  is_label_op op = true -> op = L "call" \/ op = L "jmp" \/ op = L "jz".
Proof.
  unfold is_label_op. intros H. apply orb_true_iff in H. destruct H as [H|H].
  - apply orb_true_iff in H. destruct H as [H|H]; apply str_eqb_eq in H; auto.
  - apply str_eqb_eq in H; auto.
Qed.

Lemma is_label_op_false op :
  is_label_op op = false -> op <> L "call" /\ op <> L "jmp" /\ op <> L "jz".
Proof.
  unfold is_label_op. intros H. apply orb_false_iff in H. destruct H as (H & H3).
  apply orb_false_iff in H. destruct H as (H1 & H2).
  repeat split; now apply str_eqb_false.
Qed.

Lemma dis_entry_plain lits off i :
  is_pushstr i = false ->
  dis_entry lits off i = Some (mkDline off (instr_name i) (dis_args i) None).
Proof. destruct i; simpl; intros; try reflexivity; discriminate. Qed.

Lemma map_tok_ovz vals : map tok_of_oval (map OvZ vals) = map TNum vals.
Proof. induction vals; simpl; congruence. Qed.

(* an instruction of an ordinary mnemonic on numeric operands *)
Lemma plain_entry lits off op vals i :
  mk_plain op vals = Some i ->
  is_label_op op = false -> str_eqb op (L "errhand") = false -> str_eqb op (L "push$") = false ->
  dis_entry lits off i = Some (mkDline off op (map TNum vals) None).
Proof.
  intros M E1 E2 E3.
  pose proof (mk_plain_name _ _ _ M) as N. pose proof (mk_plain_operands _ _ _ M) as O.
  apply is_label_op_false in E1. destruct E1 as (C1 & C2 & C3).
  apply str_eqb_false in E2, E3.
  assert (is_label_instr i = false) as LI.
  { destruct (is_label_instr i) eqn:X; [|reflexivity]. exfalso.
    apply name_label_instr in X. rewrite N in X. intuition congruence. }
  assert (is_pushstr i = false) as PS.
  { destruct (is_pushstr i) eqn:X; [|reflexivity]. exfalso.
    apply name_of_pushstr in X. congruence. }
  rewrite (dis_entry_plain _ _ _ PS), N, (dis_args_plain _ LI PS), O, map_tok_ovz. reflexivity.
Qed.

(* a label instruction *)
Lemma label_entry lits off op t i :
  mk_plain op [t] = Some i ->
  (op = L "call" \/ op = L "jmp" \/ op = L "jz" \/ op = L "errhand") ->
  dis_entry lits off i = Some (mkDline off op [THex t] None).
Proof.
  intros M C.
  pose proof (mk_plain_name _ _ _ M) as N. pose proof (mk_plain_operands _ _ _ M) as O.
  assert (is_label_instr i = true) as LI by (apply label_instr_of_name; rewrite N; exact C).
  assert (is_pushstr i = false) as PS by (destruct i; try reflexivity; discriminate).
  rewrite (dis_entry_plain _ _ _ PS), N, (dis_args_label _ t LI O). reflexivity.
Qed.

Lemma lit_index_spec lits s j :
  lit_index lits s = Some j -> 0 <= j < len lits /\ nth_error lits (Z.to_nat j) = Some s.
Proof.
  unfold lit_index.
  assert (forall l i j,
    (fix go (l : list str) (i : Z) {struct l} : option Z :=
       match l with
       | [] => None
       | x :: r => if str_eqb x s then Some i else go r (i + 1)
       end) l i = Some j ->
    i <= j /\ j - i < len l /\ nth_error l (Z.to_nat (j - i)) = Some s) as G.
  { induction l as [|x r IH]; intros i k H; [discriminate|].
    destruct (str_eqb x s) eqn:E.
    - injection H as <-. apply str_eqb_eq in E. subst x.
      rewrite Z.sub_diag. pose proof (len_nonneg r). rewrite len_cons.
      split; [lia|]. split; [lia|]. reflexivity.
    - apply IH in H. destruct H as (H1 & H2 & H3). rewrite len_cons.
      replace (Z.to_nat (k - i)) with (S (Z.to_nat (k - (i + 1)))) by lia.
      split; [lia|]. split; [lia|]. exact H3. }
  intros H. apply G in H. rewrite Z.sub_0_r in H. destruct H as (H1 & H2 & H3).
  repeat split; try lia. exact H3.
Qed.

Lemma pushstr_entry lits off s j i :
  mk_plain (L "push$") [j] = Some i -> lit_index lits s = Some j ->
  dis_entry lits off i = Some (mkDline off (L "push$") [TNum j] (Some s)).
Proof.
  intros M LI. pose proof (mk_plain_name _ _ _ M) as N. pose proof (mk_plain_operands _ _ _ M) as O.
  pose proof (dis_args_pushstr i j (pushstr_of_name _ N) O) as ->.
  apply lit_index_spec in LI. destruct LI as (R & NE).
  unfold dis_entry, nth_lit, u16_of. simpl dis_args. unfold u16_of.
  replace (j <? 0) with false by lia. rewrite NE.
  destruct (j <? 0) eqn:X; [lia|]. reflexivity.
Qed.

Lemma of_plain_inv op vals w : of_plain op vals = AOk w -> exists i, mk_plain op vals = Some i /\ w = WI i.
Proof. unfold of_plain. destruct (mk_plain op vals); [|discriminate]. intros [= <-]. eauto. Qed.

Ltac break H :=
  repeat (match type of H with
          | context [match ?a with _ => _ end] =>
            let E := fresh "E" in destruct a eqn:E; try discriminate H
          end).

(* ------------------------------------------------------------------ *)
(* one instruction: the disassembly entry is what the specification says *)

Lemma asm_one_spec lits labels op args w off :
  asm_one lits (fun n => assoc n labels) op args = AOk w ->
  exists toks c, spec_args lits labels op args = Some (toks, c) /\
                 dis_entry lits off (instr_of_w w) = Some (mkDline off op toks c).
Proof.
  intros H. unfold asm_one in H. unfold spec_args.
  destruct (is_label_op op) eqn:E1.
  { break H. subst. apply of_plain_inv in H. destruct H as (i & M & ->).
    exists [THex z], None. split; [reflexivity|]. simpl instr_of_w.
    apply label_entry; [assumption|]. apply is_label_op_names in E1. intuition. }
  destruct (str_eqb op (L "errhand")) eqn:E2.
  { apply str_eqb_eq in E2. break H; subst.
    - apply of_plain_inv in H. destruct H as (i & M & ->).
      exists [THex z], None. split; [reflexivity|]. apply label_entry; auto.
    - apply of_plain_inv in H. destruct H as (i & M & ->).
      exists [THex z], None. split; [reflexivity|]. apply label_entry; auto. }
  destruct (str_eqb op (L "io")) eqn:E3.
  { apply str_eqb_eq in E3. break H; subst.
    apply of_plain_inv in H. destruct H as (i & M & ->).
    exists [TNum z; TNum z0], None. split; [reflexivity|].
    apply (plain_entry lits off _ [z; z0]); auto. }
  destruct (str_eqb op (L "push$")) eqn:E4.
  { apply str_eqb_eq in E4. break H; subst.
    apply of_plain_inv in H. destruct H as (i & M & ->).
    exists [TNum z], (Some s0). split; [reflexivity|]. now apply pushstr_entry. }
  destruct (str_eqb op (L "push!")) eqn:E5.
  { apply str_eqb_eq in E5. break H; subst. injection H as <-.
    exists [TFlt (fl_of_bits32 z)], None. split; reflexivity. }
  destruct (str_eqb op (L "push#")) eqn:E6.
  { apply str_eqb_eq in E6. break H; subst. injection H as <-.
    exists [TFlt (fl_of_bits (pack64 f))], None. split; reflexivity. }
  destruct (str_eqb op (L "push%") || str_eqb op (L "push&")) eqn:E7.
  { break H; subst. apply of_plain_inv in H. destruct H as (i & M & ->).
    exists [TNum z], None. split; [reflexivity|].
    apply (plain_entry lits off _ [z]); auto. }
  break H. apply of_plain_inv in H. destruct H as (i & M & ->).
  exists (map TNum l), None. split; [reflexivity|]. now apply plain_entry.
Qed.

(* ------------------------------------------------------------------ *)
(* sizes: what the assembler emits for a mnemonic has the size the generated
   table gives that mnemonic *)

Ltac tsize :=
  match goal with
  | |- table_size ?n = Some ?l =>
    let v := eval vm_compute in (table_size n) in
    change (table_size n) with v; f_equal;
    rewrite ?len_cons, ?len_app; len_solve
  end.

Ltac size_case := inv_ops; simpl instr_name; tsize.

Lemma plain_size i bs : encode_plain i = Some bs -> table_size (instr_name i) = Some (len bs).
Proof.
  intros H.
  destruct i; simpl in H; try discriminate; try solve [size_case].
  - (* IConv *)
    unfold conv_opcode, in_range in H.
    destruct (_ && _) eqn:E in H; [|discriminate].
    assert (1 <= src <= 4 /\ 1 <= dst <= 4 /\ src <> dst) as (? & ? & ?) by lia.
    assert (src = 1 \/ src = 2 \/ src = 3 \/ src = 4) as Hs by lia.
    assert (dst = 1 \/ dst = 2 \/ dst = 3 \/ dst = 4) as Hd by lia.
    destruct Hs as [-> | [-> | [-> | ->]]]; destruct Hd as [-> | [-> | [-> | ->]]];
      try lia; vm_compute in H; size_case.
  - (* IDeref *)
    unfold deref_opcode, in_range in H.
    destruct (ty =? 1) eqn:E1.
    + assert (ty = 1) by lia; subst. size_case.
    + destruct (_ && _) eqn:E in H; [|discriminate].
      assert (ty = 2 \/ ty = 3 \/ ty = 4 \/ ty = 5) as Ht by lia.
      destruct Ht as [-> | [-> | [-> | ->]]]; vm_compute in H; size_case.
  - (* IPushC *)
    unfold in_range in H. destruct (_ && _) eqn:E in H; [|discriminate].
    assert (ty = 1 \/ ty = 2 \/ ty = 3 \/ ty = 4) as Ht by lia.
    assert (c = -2 \/ c = -1 \/ c = 0 \/ c = 1 \/ c = 2) as Hc by lia.
    destruct Ht as [-> | [-> | [-> | ->]]]; destruct Hc as [-> | [-> | [-> | [-> | ->]]]];
      vm_compute in H; size_case.
  - (* IRead *)
    unfold ty_slot, in_range in H.
    destruct (_ && _) eqn:E in H.
    + assert (ty = 1 \/ ty = 2 \/ ty = 3 \/ ty = 4 \/ ty = 5) as Ht by lia.
      destruct local_; destruct Ht as [-> | [-> | [-> | [-> | ->]]]];
        simpl Z.add in H; simpl Z.sub in H; size_case.
    + destruct (ty =? 7) eqn:E7; [|discriminate]. assert (ty = 7) by lia; subst.
      destruct local_; simpl Z.add in H; size_case.
  - (* IReadidx *)
    unfold ty_slot, in_range in H.
    destruct (_ && _) eqn:E in H.
    + assert (ty = 1 \/ ty = 2 \/ ty = 3 \/ ty = 4 \/ ty = 5) as Ht by lia.
      destruct local_; destruct Ht as [-> | [-> | [-> | [-> | ->]]]];
        simpl Z.add in H; simpl Z.sub in H; size_case.
    + destruct (ty =? 7) eqn:E7; [|discriminate]. assert (ty = 7) by lia; subst.
      destruct local_; simpl Z.add in H; size_case.
  - destruct local_; size_case.
  - destruct local_; size_case.
Qed.

(* shape of what asm_one produces *)
Lemma asm_one_shape lits lab op args w :
  asm_one lits lab op args = AOk w ->
  (exists vals i, mk_plain op vals = Some i /\ w = WI i) \/
  (op = L "push!" /\ exists b, w = WPushS b) \/
  (op = L "push#" /\ exists b, w = WPushD b).
Proof.
  intros H. unfold asm_one in H.
  destruct (is_label_op op) eqn:E1.
  { break H; subst; apply of_plain_inv in H; destruct H as (i & M & ->); left; eauto. }
  destruct (str_eqb op (L "errhand")) eqn:E2.
  { break H; subst; apply of_plain_inv in H; destruct H as (i & M & ->); left; eauto. }
  destruct (str_eqb op (L "io")) eqn:E3.
  { break H; subst; apply of_plain_inv in H; destruct H as (i & M & ->); left; eauto. }
  destruct (str_eqb op (L "push$")) eqn:E4.
  { break H; subst; apply of_plain_inv in H; destruct H as (i & M & ->); left; eauto. }
  destruct (str_eqb op (L "push!")) eqn:E5.
  { apply str_eqb_eq in E5. break H; subst. injection H as <-. right; left; eauto. }
  destruct (str_eqb op (L "push#")) eqn:E6.
  { apply str_eqb_eq in E6. break H; subst. injection H as <-. right; right; eauto. }
  destruct (str_eqb op (L "push%") || str_eqb op (L "push&")) eqn:E7.
  { break H; subst; apply of_plain_inv in H; destruct H as (i & M & ->); left; eauto. }
  break H. apply of_plain_inv in H. destruct H as (i & M & ->). left; eauto.
Qed.

Lemma asm_one_size lits lab op args w bs :
  asm_one lits lab op args = AOk w -> encode_w w = Some bs -> table_size op = Some (len bs).
Proof.
  intros H E. apply asm_one_shape in H.
  destruct H as [(vals & i & M & ->) | [(-> & b & ->) | (-> & b & ->)]].
  - simpl in E. rewrite <- (mk_plain_name _ _ _ M). now apply plain_size.
  - simpl in E. size_case.
  - simpl in E. size_case.
Qed.

(* the operand index of push$ stays below the literal count *)
Lemma asm_one_small lits lab op args w :
  asm_one lits lab op args = AOk w -> len lits <= 32768 -> pushstr_small w.
Proof.
  intros H B. unfold asm_one in H.
  assert (forall vals i, mk_plain op vals = Some i -> str_eqb op (L "push$") = false ->
                         pushstr_small (WI i)) as NP.
  { intros vals i M E. apply str_eqb_false in E. pose proof (mk_plain_name _ _ _ M) as N.
    destruct i; simpl; auto. exfalso. apply E. rewrite <- N. reflexivity. }
  destruct (is_label_op op) eqn:E1.
  { apply is_label_op_names in E1.
    break H; subst; apply of_plain_inv in H; destruct H as (i & M & ->);
      apply (NP _ _ M); destruct E1 as [-> | [-> | ->]]; reflexivity. }
  destruct (str_eqb op (L "errhand")) eqn:E2.
  { apply str_eqb_eq in E2.
    break H; subst; apply of_plain_inv in H; destruct H as (i & M & ->); apply (NP _ _ M); reflexivity. }
  destruct (str_eqb op (L "io")) eqn:E3.
  { apply str_eqb_eq in E3.
    break H; subst; apply of_plain_inv in H; destruct H as (i & M & ->); apply (NP _ _ M); reflexivity. }
  destruct (str_eqb op (L "push$")) eqn:E4.
  { apply str_eqb_eq in E4. break H; subst. apply of_plain_inv in H. destruct H as (i & M & ->).
    pose proof (mk_plain_name _ _ _ M) as N. pose proof (mk_plain_operands _ _ _ M) as O.
    pose proof (dis_args_pushstr i z (pushstr_of_name _ N) O) as ->.
    match goal with X : lit_index _ _ = Some _ |- _ => apply lit_index_spec in X; simpl; lia end. }
  destruct (str_eqb op (L "push!")) eqn:E5.
  { break H; subst. injection H as <-. exact I. }
  destruct (str_eqb op (L "push#")) eqn:E6.
  { break H; subst. injection H as <-. exact I. }
  destruct (str_eqb op (L "push%") || str_eqb op (L "push&")) eqn:E7.
  { break H; subst; apply of_plain_inv in H; destruct H as (i & M & ->); now apply (NP _ _ M). }
  break H. apply of_plain_inv in H. destruct H as (i & M & ->). now apply (NP _ _ M).
Qed.

(* ------------------------------------------------------------------ *)
(* label tables *)

Lemma abind_inv {A B} (x : ares A) (f : A -> ares B) b :
  abind x f = AOk b -> exists a, x = AOk a /\ f a = AOk b.
Proof. destruct x; simpl; try discriminate. eauto. Qed.

Lemma enc_size_inv w n : enc_size w = AOk n -> exists bs, encode_w w = Some bs /\ n = len bs.
Proof. unfold enc_size. destruct (encode_w w); [|discriminate]. intros [= <-]. eauto. Qed.

Lemma label_pass_spec lits : forall l off acc labels e,
  label_pass lits l off acc = AOk (labels, e) -> spec_labels l off acc = Some labels.
Proof.
  induction l as [|it r IH]; intros off acc labels e H.
  - simpl in H. injection H as <- <-. reflexivity.
  - destruct it as [n | | op args]; simpl in H |- *.
    + eauto.
    + eauto.
    + apply abind_inv in H. destruct H as (w & Hw & H).
      apply abind_inv in H. destruct H as (n & Hn & H).
      apply enc_size_inv in Hn. destruct Hn as (bs & Hb & ->).
      rewrite (asm_one_size _ _ _ _ _ _ Hw Hb). eauto.
Qed.

(* ------------------------------------------------------------------ *)
(* the whole code section *)

Lemma emit_dis lits labels : forall l ws code off fuel,
  emit_pass lits (fun n => assoc n labels) l = AOk ws ->
  encode_code ws = Some code -> len lits <= 32768 -> (length ws <= fuel)%nat ->
  exists dl, spec_lines lits labels l off = Some dl /\ dis_from fuel lits off code = DisOk dl.
Proof.
  induction l as [|it r IH]; intros ws code off fuel H E B F.
  - simpl in H. injection H as <-. simpl in E. injection E as <-.
    exists []. split; [reflexivity|]. destruct fuel; reflexivity.
  - destruct it as [n | | op args].
    + simpl in H |- *. eauto.
    + simpl in H |- *. eauto.
    + cbn [emit_pass] in H. apply abind_inv in H. destruct H as (w & Hw & H).
      apply abind_inv in H. destruct H as (ws' & Hr & [= <-]).
      simpl in E. apply cat2_inv in E. destruct E as (x & y & Hx & Hy & ->).
      pose proof (asm_one_small _ _ _ _ _ Hw B) as SM.
      pose proof (asm_one_size _ _ _ _ _ _ Hw Hx) as TS.
      destruct (asm_one_spec _ _ _ _ _ off Hw) as (toks & c & SA & DE).
      pose proof (encode_w_nonempty _ _ Hx SM) as NE.
      destruct fuel as [|f]; [simpl in F; lia|].
      destruct (IH ws' y (off + len x) f Hr Hy B) as (dl & SL & DF); [simpl in F; lia|].
      exists (mkDline off op toks c :: dl). split.
      * cbn [spec_lines]. rewrite TS, SA, SL. reflexivity.
      * destruct x as [|b0 x']; [unfold len in NE; simpl in NE; lia|].
        change ((b0 :: x') ++ y) with (b0 :: (x' ++ y)).
        cbn [dis_from].
        change (b0 :: x' ++ y) with ((b0 :: x') ++ y).
        rewrite (decode_encode_w _ _ y Hx SM), DE, skipn_len_app, DF. reflexivity.
Qed.

Theorem disasm_matches_listing lits l code labels :
  assemble lits l = AOk (code, labels) -> len lits <= 32768 ->
  exists dl, expected_dis lits l = Some dl /\ dis_items lits code = DisOk dl /\
             disasm lits code = DisOk (render_dis dl).
Proof.
  unfold assemble, assemble_w. intros H B.
  apply abind_inv in H. destruct H as ((ws & labels') & H & H2).
  apply abind_inv in H. destruct H as ((lt & e) & HL & H).
  apply abind_inv in H. destruct H as (ws0 & HE & [= -> ->]).
  destruct (encode_code ws) as [bs|] eqn:EC; [|discriminate]. injection H2 as -> ->.
  assert (Forall pushstr_small ws) as SM.
  { clear -HE B. revert ws HE. generalize (fun n : str => assoc n labels) as lab.
    induction l as [|it r IH]; intros lab ws H.
    - simpl in H. injection H as <-. constructor.
    - destruct it as [n | | op args]; simpl in H; eauto.
      apply abind_inv in H. destruct H as (w & Hw & H).
      apply abind_inv in H. destruct H as (ws' & Hr & [= <-]).
      constructor; [eapply asm_one_small; eauto | eauto]. }
  destruct (emit_dis lits labels l ws code 0 (length code) HE EC B) as (dl & SL & DF).
  { now apply encode_code_length. }
  exists dl. unfold expected_dis, disasm, dis_items.
  rewrite (label_pass_spec _ _ _ _ _ _ HL), SL, DF. auto.
Qed.
