(* C14 - [canon] is invariant under every rewriting of the catalogue of
   Models/Lex.v (r_case, r_blank, r_comment, r_relop) and under all finite
   compositions of them, in either direction. *)
From Coq Require Import ZArith List Bool Lia.
From QV Require Import Sx Strs Lex LexChars LexSpan LexTok LexTokSpec LexLayout.
Import ListNotations.
Open Scope Z_scope.

(* ---------------------------------------------------------------- *)
(* canon through layouts *)

Lemma canon_lex s l tail :
  lex_layout s = (l, tail) -> canon s = render (normalise (map snd l)).
Proof. intro H. unfold canon, lex. now rewrite H. Qed.

Lemma canon_layout l tail :
  lay_ok l (hd_error tail) = true -> forallb is_blank tail = true ->
  canon (unlex l tail) = render (normalise (map snd l)).
Proof. intros H1 H2. apply (canon_lex _ l tail). now apply relex. Qed.

Definition nt (l : list ltok) : list token := flat_map norm_tok (map snd l).

Lemma nt_app a b : nt (a ++ b) = nt a ++ nt b.
Proof. unfold nt. now rewrite map_app, flat_map_app. Qed.

Lemma nt_cons ws t l : nt ((ws, t) :: l) = norm_tok t ++ nt l.
Proof. reflexivity. Qed.

Lemma normalise_nt l : normalise (map snd l) = filter keep_line (lines (nt l)).
Proof. reflexivity. Qed.

(* the frame of every invariance proof: the new layout is a lexer image and
   normalises to the same token lines *)
Lemma canon_same s l tail l' tail' :
  lex_layout s = (l, tail) ->
  lay_ok l' (hd_error tail') = true -> forallb is_blank tail' = true ->
  filter keep_line (lines (nt l')) = filter keep_line (lines (nt l)) ->
  canon (unlex l' tail') = canon s.
Proof.
  intros Hs H1 H2 Hn. rewrite (canon_lex s l tail Hs), (canon_layout l' tail' H1 H2).
  now rewrite !normalise_nt, Hn.
Qed.

(* ---------------------------------------------------------------- *)
(* letter case *)

Lemma lower_cons_inv c r run' :
  lower (c :: r) = lower run' ->
  exists c' r', run' = c' :: r' /\ lower_ch c = lower_ch c' /\ lower r = lower r'.
Proof.
  destruct run' as [|c' r']; simpl; intro H; [discriminate|].
  inversion H. eauto.
Qed.

Lemma lower_forall_alnum r : forall r', lower r = lower r' ->
  forallb is_alnum r = forallb is_alnum r'.
Proof.
  induction r as [|c r IH]; intros [|c' r'] H; simpl in *; try discriminate; [reflexivity|].
  inversion H. rewrite (lower_ch_alnum _ _ H1), (IH _ H2). reflexivity.
Qed.

Lemma same_case_word a b : same_case a b -> is_word a = is_word b.
Proof.
  unfold same_case. destruct a as [|c r]; intro H.
  - destruct b; [reflexivity | discriminate].
  - apply lower_cons_inv in H as (c' & r' & -> & H1 & H2). simpl.
    now rewrite (lower_ch_alpha _ _ H1), (lower_forall_alnum _ _ H2).
Qed.

Lemma same_case_rem a b : same_case a b -> is_rem a = is_rem b.
Proof. unfold same_case, is_rem. now intros ->. Qed.

Lemma same_case_dat a b : same_case a b -> is_dat a = is_dat b.
Proof. unfold same_case, is_dat. now intros ->. Qed.

(* a letter in another case ends the token before it in the same way *)
Lemma stops_case p c c' :
  is_alpha c = true -> lower_ch c = lower_ch c' ->
  stops p (Some c) = stops p (Some c').
Proof.
  intros Ha H.
  destruct (alpha_case_pred c c' Ha H) as (P1 & P2 & P3 & P4 & P5 & P6 & P7 & P8 & P9).
  pose proof (lower_ch_alnum _ _ H) as P0.
  destruct p; cbn [stops]; unfold onhd, ohd, at_eol; try reflexivity;
    rewrite ?P0, ?P1, ?P2, ?P3, ?P4, ?P5, ?P7, ?P8; try reflexivity.
  destruct o as [|x [|y o]]; try reflexivity.
  rewrite ?P9, ?P5, ?P6. reflexivity.
Qed.

(* the first character of a word with blanks in front, in two spellings *)
Lemma hd_case (ws : str) run run' rest rest' p :
  is_word run = true -> same_case run run' ->
  stops p (hd_error (ws ++ run ++ rest)) = true ->
  stops p (hd_error (ws ++ run' ++ rest')) = true.
Proof.
  intros Hw Hc. destruct ws as [|b ws]; [|auto].
  destruct run as [|c r]; [discriminate|].
  apply lower_cons_inv in Hc as (c' & r' & -> & H1 & _).
  simpl in Hw. apply andb_true_iff in Hw as [Ha _]. cbn [app hd_error].
  now rewrite (stops_case p c c' Ha H1).
Qed.

Lemma r_case_canon s s' : r_case s s' -> canon s' = canon s.
Proof.
  intros [s0 l1 ws run suf l2 tail run' Hl Hc
         | s0 l1 ws kw p l2 tail kw' Hl Hc
         | s0 l1 ws kw b l2 tail kw' Hl Hc];
    destruct (lex_lay_ok _ _ _ Hl) as (_ & Hok & Htl);
    destruct (mid_parts _ _ _ _ _ Hok) as (M1 & M2 & M3 & M4 & M5).
  - apply (canon_same _ _ _ _ _ Hl); [|exact Htl|].
    + apply (replace_mid _ _ _ _ _ _ _ Hok M2); [| exact M4 |].
      * cbn [tok_ok] in *. now rewrite <- (same_case_word _ _ Hc), <- (same_case_rem _ _ Hc),
          <- (same_case_dat _ _ Hc).
      * cbn [tok_ok] in M3. apply andb_true_iff in M3 as [Hw _].
        apply (lay_ok_mono l1 _ _ (fun p => hd_case ws run run' suf suf p Hw Hc) M1).
    + rewrite !nt_app, !nt_cons. cbn [norm_tok]. unfold same_case in Hc. now rewrite Hc.
  - apply (canon_same _ _ _ _ _ Hl); [|exact Htl|].
    + apply (replace_mid _ _ _ _ _ _ _ Hok M2); [| exact M4 |].
      * cbn [tok_ok] in *. now rewrite <- (same_case_word _ _ Hc), <- (same_case_rem _ _ Hc),
          <- (same_case_dat _ _ Hc).
      * cbn [tok_ok] in M3. repeat (apply andb_true_iff in M3 as [M3 _]).
        apply (lay_ok_mono l1 _ _ (fun q => hd_case ws kw kw' p p q M3 Hc) M1).
    + rewrite !nt_app, !nt_cons. cbn [norm_tok]. unfold same_case in Hc. now rewrite Hc.
  - apply (canon_same _ _ _ _ _ Hl); [|exact Htl|].
    + apply (replace_mid _ _ _ _ _ _ _ Hok M2); [| exact M4 |].
      * cbn [tok_ok] in *. now rewrite <- (same_case_word _ _ Hc), <- (same_case_rem _ _ Hc).
      * cbn [tok_ok] in M3. repeat (apply andb_true_iff in M3 as [M3 _]).
        apply (lay_ok_mono l1 _ _ (fun q => hd_case ws kw kw' b b q M3 Hc) M1).
    + rewrite !nt_app, !nt_cons. cbn [norm_tok]. unfold same_case in Hc. now rewrite Hc.
Qed.

(* ---------------------------------------------------------------- *)
(* blanks *)

Lemma r_blank_canon s s' : r_blank s s' -> canon s' = canon s.
Proof.
  intros [s0 l1 ws t l2 tail ws' Hl Hw Hs | s0 l tail tail' Hl Hw Hs];
    destruct (lex_lay_ok _ _ _ Hl) as (_ & Hok & Htl).
  - destruct (mid_parts _ _ _ _ _ Hok) as (M1 & M2 & M3 & M4 & M5).
    apply (canon_same _ _ _ _ _ Hl); [|exact Htl|].
    + apply (replace_mid _ _ _ _ _ _ _ Hok Hw); [exact M3 | exact M4 |].
      now apply (sep_ok_lay _ _ _ _ M1).
    + now rewrite !nt_app, !nt_cons.
  - apply (canon_same _ _ _ _ _ Hl); [|exact Hw|reflexivity].
    apply (lay_ok_last _ _ _ Hok). unfold tail_ok in Hs.
    destruct (last_tok l); [exact Hs | exact I].
Qed.

(* ---------------------------------------------------------------- *)
(* comments and empty lines *)

Lemma lines_nonempty l : lines l <> [].
Proof.
  induction l as [|t l IH]; [discriminate|]. simpl.
  destruct t; destruct (lines l); discriminate.
Qed.

Lemma lines_cons t l :
  t <> TNewline ->
  lines (t :: l) = match lines l with h :: tl => (t :: h) :: tl | [] => [[t]] end.
Proof. destruct t; try reflexivity. congruence. Qed.

Lemma lines_app_nl a b : lines (a ++ TNewline :: b) = lines a ++ lines b.
Proof.
  induction a as [|t a IH]; [reflexivity|].
  destruct t; try (cbn [app lines]; rewrite IH;
    destruct (lines a) as [|h tl] eqn:E; [now destruct (lines_nonempty a) | reflexivity]).
Qed.

(* a line that is dropped may be inserted at the start of any line *)
Lemma insert_line A X B :
  (A = [] \/ exists A', A = A' ++ [TNewline]) ->
  lines X = [X] -> keep_line X = false ->
  filter keep_line (lines (A ++ X ++ TNewline :: B)) = filter keep_line (lines (A ++ B)).
Proof.
  intros [-> | (A' & ->)] HX Hk.
  - cbn [app]. rewrite lines_app_nl, HX. cbn [app filter]. now rewrite Hk.
  - rewrite <- !app_assoc. cbn [app]. rewrite !lines_app_nl, HX.
    rewrite !filter_app. cbn [filter]. now rewrite Hk.
Qed.

Lemma line_start_nt l1 :
  line_start l1 = true -> nt l1 = [] \/ exists A', nt l1 = A' ++ [TNewline].
Proof.
  unfold line_start. destruct (last_tok l1) as [t|] eqn:E.
  - destruct t; try discriminate. intros _. right.
    apply last_tok_inv in E as (l0 & ws & ->). exists (nt l0). now rewrite nt_app.
  - intros _. left. apply last_tok_nil_inv in E. now subst.
Qed.

Lemma line_start_lay l1 oc oc' :
  line_start l1 = true -> lay_ok l1 oc = true -> lay_ok l1 oc' = true.
Proof.
  intros Hs H. apply (lay_ok_last _ _ _ H). unfold line_start in Hs.
  destruct (last_tok l1) as [t|]; [|exact I]. now destruct t.
Qed.

Lemma rem_body_parts b :
  rem_body_ok b = true ->
  forallb not_nl b = true /\ negb (hd_is is_dollar b) = true /\ negb (hd_is is_alnum b) = true.
Proof.
  unfold rem_body_ok. intro H. apply andb_true_iff in H as [H H3].
  apply andb_true_iff in H as [H1 H2]. auto.
Qed.

Lemma r_comment_canon s s' : r_comment s s' -> canon s' = canon s.
Proof.
  intros [s0 l1 ws b l2 tail b' Hl Hb
         | s0 l1 ws kw b l2 tail b' Hl Hb
         | s0 l1 ws l2 tail ws1 b Hl Hw Hb Hs
         | s0 l tail b Hl Hb Hs
         | s0 l1 l2 tail ws Hl Hst Hw
         | s0 l1 l2 tail ws b Hl Hst Hw Hb
         | s0 l1 l2 tail ws kw b Hl Hst Hw Hk Hb];
    destruct (lex_lay_ok _ _ _ Hl) as (_ & Hok & Htl).
  - (* text of an apostrophe comment *)
    destruct (mid_parts _ _ _ _ _ Hok) as (M1 & M2 & M3 & M4 & M5).
    apply (canon_same _ _ _ _ _ Hl); [|exact Htl|].
    + apply (replace_mid _ _ _ _ _ _ _ Hok M2); [exact Hb | exact M4 |].
      cbn [text] in *. now rewrite (hd_error_app_cons ws 39 b' b).
    + now rewrite !nt_app, !nt_cons.
  - (* text of a REM comment *)
    destruct (mid_parts _ _ _ _ _ Hok) as (M1 & M2 & M3 & M4 & M5).
    destruct (rem_body_parts _ Hb) as (B1 & B2 & B3).
    cbn [tok_ok] in M3.
    apply andb_true_iff in M3 as [M3 _]. apply andb_true_iff in M3 as [M3 _].
    apply andb_true_iff in M3 as [M3 _]. apply andb_true_iff in M3 as [K1 K2].
    apply (canon_same _ _ _ _ _ Hl); [|exact Htl|].
    + apply (replace_mid _ _ _ _ _ _ _ Hok M2); [| exact M4 |].
      * cbn [tok_ok]. now rewrite K1, K2, B1, B2, B3.
      * cbn [text] in *. destruct kw as [|c kw]; [discriminate|].
        cbn [app] in *. now rewrite (hd_error_app_cons ws c (kw ++ b') (kw ++ b)).
    + now rewrite !nt_app, !nt_cons.
  - (* a comment added at the end of a line *)
    destruct (mid_parts _ _ _ _ _ Hok) as (M1 & M2 & M3 & M4 & M5).
    apply (canon_same _ _ _ _ _ Hl); [|exact Htl|].
    + pose proof (sep_ok_lay _ _ _ _ M1 Hs) as Hsep. cbn [text] in Hsep.
      rewrite lay_ok_app. cbn [lay_ok hd_lay app text hd_error stops at_eol tok_ok forallb].
      rewrite Hsep, Hw, Hb, M5. reflexivity.
    + now rewrite !nt_app, !nt_cons.
  - (* a comment added at the end of the text *)
    apply (canon_same _ _ _ _ _ Hl); [|reflexivity|].
    + pose proof (sep_ok_lay _ _ _ _ Hok Hs) as Hsep. cbn [text] in Hsep.
      rewrite lay_ok_app. cbn [lay_ok hd_lay text stops at_eol tok_ok hd_error].
      rewrite Hsep, Htl, Hb. reflexivity.
    + rewrite nt_app, nt_cons. cbn [norm_tok nt map flat_map app]. now rewrite app_nil_r.
  - (* an empty line *)
    rewrite lay_ok_app in Hok. apply andb_true_iff in Hok as [O1 O2].
    apply (canon_same _ _ _ _ _ Hl); [|exact Htl|].
    + rewrite lay_ok_app. cbn [lay_ok stops tok_ok]. rewrite Hw, O2.
      now rewrite (line_start_lay _ _ _ Hst O1).
    + rewrite !nt_app, nt_cons. cbn [norm_tok].
      apply (insert_line (nt l1) [] (nt l2) (line_start_nt _ Hst)); reflexivity.
  - (* a line holding an apostrophe comment *)
    rewrite lay_ok_app in Hok. apply andb_true_iff in Hok as [O1 O2].
    apply (canon_same _ _ _ _ _ Hl); [|exact Htl|].
    + rewrite lay_ok_app. cbn [lay_ok hd_lay app text hd_error stops at_eol tok_ok forallb].
      rewrite Hw, Hb, O2. now rewrite (line_start_lay _ _ _ Hst O1).
    + rewrite !nt_app, !nt_cons. cbn [norm_tok].
      apply (insert_line (nt l1) [] (nt l2) (line_start_nt _ Hst)); reflexivity.
  - (* a line holding a REM comment *)
    rewrite lay_ok_app in Hok. apply andb_true_iff in Hok as [O1 O2].
    destruct (rem_body_parts _ Hb) as (B1 & B2 & B3).
    apply (canon_same _ _ _ _ _ Hl); [|exact Htl|].
    + rewrite lay_ok_app. cbn [lay_ok hd_lay app text hd_error stops at_eol tok_ok forallb].
      rewrite Hw, Hk, B1, B2, B3, O2. now rewrite (line_start_lay _ _ _ Hst O1).
    + rewrite !nt_app, !nt_cons. cbn [norm_tok].
      apply (insert_line (nt l1) [TRem (lower kw) []] (nt l2) (line_start_nt _ Hst));
        reflexivity.
Qed.

(* ---------------------------------------------------------------- *)
(* comparison operators *)

Lemma r_relop_canon s s' : r_relop s s' -> canon s' = canon s.
Proof.
  intros [s0 l1 ws o l2 tail o' Hl Ho Ho' Hn Hs].
  destruct (lex_lay_ok _ _ _ Hl) as (_ & Hok & Htl).
  destruct (mid_parts _ _ _ _ _ Hok) as (M1 & M2 & M3 & M4 & M5).
  apply (canon_same _ _ _ _ _ Hl); [|exact Htl|].
  - apply (replace_mid _ _ _ _ _ _ _ Hok M2).
    + destruct o' as [|c [|d [|e o']]]; try discriminate. exact Ho'.
    + destruct o' as [|c [|d [|e o']]]; try discriminate. reflexivity.
    + now apply (sep_ok_lay _ _ _ _ M1).
  - rewrite !nt_app, !nt_cons. cbn [norm_tok]. now rewrite Hn.
Qed.

(* ---------------------------------------------------------------- *)
(* all of them, and all finite compositions *)

Theorem canon_invariant s s' : rewrite1 s s' -> canon s' = canon s.
Proof.
  intros [a b H | a b H | a b H | a b H].
  - now apply r_case_canon.
  - now apply r_blank_canon.
  - now apply r_comment_canon.
  - now apply r_relop_canon.
Qed.

Theorem canon_invariant_star s s' : rewrites s s' -> canon s' = canon s.
Proof.
  induction 1 as [s | s s1 s2 H1 _ IH | s s1 s2 H1 _ IH].
  - reflexivity.
  - rewrite IH. now apply canon_invariant.
  - rewrite IH. symmetry. now apply canon_invariant.
Qed.

(* compositions compose *)
Lemma rewrites_trans a b c : rewrites a b -> rewrites b c -> rewrites a c.
Proof.
  induction 1; intro H2; [exact H2 | |].
  - eapply rws_step; eauto.
  - eapply rws_back; eauto.
Qed.

Lemma rewrites_sym a b : rewrites a b -> rewrites b a.
Proof.
  induction 1 as [s | s s1 s2 H1 _ IH | s s1 s2 H1 _ IH].
  - apply rws_refl.
  - apply (rewrites_trans _ _ _ IH). eapply rws_back; [exact H1 | apply rws_refl].
  - apply (rewrites_trans _ _ _ IH). eapply rws_step; [exact H1 | apply rws_refl].
Qed.
