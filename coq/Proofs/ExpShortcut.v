(* The executable IExp (Models/Cpu.v exp_tail: guard + shortcut for exponents above 64) is
   the same function as the direct transcription exp_tail_ref (a ** b, then push). *)
From Coq Require Import ZArith List Bool Lia ZifyBool.
From QV Require Import Sx Strs Fl Dec NumFmt Cell Machine Cpu.
Import ListNotations.
Open Scope Z_scope.

Lemma pow_big x y : 64 < y -> 1 < Z.abs x -> 2 ^ 65 <= Z.abs (x ^ y).
Proof.
  intros Hy Hx. rewrite Z.abs_pow.
  apply Z.le_trans with (2 ^ y).
  - apply Z.pow_le_mono_r; lia.
  - apply Z.pow_le_mono_l; lia.
Qed.

Lemma pow_small x y : 64 < y -> Z.abs x <= 1 ->
  x ^ y = (if x =? 0 then 0 else if x =? 1 then 1 else if Z.odd y then -1 else 1).
Proof.
  intros Hy Hx.
  destruct (x =? 0) eqn:E0; [apply Z.eqb_eq in E0; subst; apply Z.pow_0_l; lia|].
  destruct (x =? 1) eqn:E1; [apply Z.eqb_eq in E1; subst; apply Z.pow_1_l; lia|].
  assert (x = -1) by lia. subst x.
  assert (Hm : forall k, 0 <= k -> (-1) ^ (2 * k) = 1).
  { intros k Hk. rewrite Z.pow_mul_r by lia. change ((-1) ^ 2) with 1. apply Z.pow_1_l; lia. }
  destruct (Z.odd y) eqn:Eo.
  - apply Z.odd_spec in Eo. destruct Eo as [k ->].
    replace (2 * k + 1) with (Z.succ (2 * k)) by lia. rewrite Z.pow_succ_r by lia. rewrite Hm by lia. reflexivity.
  - assert (Ee : Z.even y = true) by (rewrite <- Z.negb_odd, Eo; reflexivity).
    apply Z.even_spec in Ee. destruct Ee as [k ->]. apply Hm; lia.
Qed.

Lemma py_pow_int_nonneg x y : 0 <= y -> py_pow (PInt x) (PInt y) = PowV (PInt (x ^ y)).
Proof. intros H. unfold py_pow. destruct (y >=? 0) eqn:E; [reflexivity|lia]. Qed.

Theorem exp_tail_same a b s : exp_tail a b s = exp_tail_ref a b s.
Proof.
  unfold exp_tail.
  destruct (pow_surely_overflows a b) eqn:G.
  - (* certain overflow: the push of a ** b traps with the same code on the same state *)
    unfold exp_tail_ref.
    destruct a as [x|x| | | |], b as [y|y| | | |]; try discriminate G; cbn [pow_surely_overflows] in G;
      apply andb_prop in G; destruct G as [Gy Gx];
      cbn [pv cell_ty]; rewrite py_pow_int_nonneg by lia;
      pose proof (pow_big x y ltac:(lia) ltac:(lia)) as Hb;
      change (2 ^ 65) with 36893488147419103232 in Hb;
      unfold push, bind; cbn [mk_cell].
    + unfold in_int. destruct (_ && _) eqn:E; [lia|reflexivity].
    + unfold in_long. destruct (_ && _) eqn:E; [lia|reflexivity].
  - destruct (pow_small_base a b) as [v|] eqn:Sm; [|reflexivity].
    unfold exp_tail_ref.
    destruct a as [x|x| | | |], b as [y|y| | | |]; try discriminate Sm; cbn [pow_small_base] in Sm;
      destruct ((y >? 64) && (Z.abs x <=? 1)) eqn:E; try discriminate Sm;
      apply andb_prop in E; destruct E as [Ey Ex];
      cbn [pv cell_ty]; rewrite py_pow_int_nonneg by lia;
      rewrite (pow_small x y) by lia; inversion Sm; reflexivity.
Qed.
