(* Type- and stack-safety of the instruction semantics relative to the abstract
   stack effect [eff] (Models/Verifier.v): the core lemma of C03 and of the
   guarded totality statement of C07. *)
From Coq Require Import ZArith List Bool Lia.
From QV Require Import Sx Strs Fl Dec NumFmt Cell Using Print Machine Cpu Verifier.
Import ListNotations.
Open Scope Z_scope.

Lemma tys_cons_inv l a r : tys l = a :: r -> exists c l', l = c :: l' /\ cell_ty c = a /\ tys l' = r.
Proof. destruct l as [|c l']; simpl; intro H; [discriminate|]. inversion H; subst. eauto. Qed.

Definition safe_out (i : instr) (s : st) (t' : list Z) (o : out unit) : Prop :=
  match o with
  | R _ s' => tys (stack s') = t' /\ heap s' = heap s /\ cur s' = cur s /\ events s' = events s
  | T c kw _ => ok_trap c = true /\ kw = true
  | ZD _ => True
  | X _ _ => crash_guard i (stack s) = true
  | NI _ => False
  end.

Opaque in_int in_long to_single Z.shiftl Z.shiftr smant fadd fsub fmul fdiv fcmp of_Z fneg fabs
       py_slice py_find lstrip_sp rstrip_sp cp437_decode spaces Z.land Z.lor Z.lxor Z.lnot
       Z.abs Z.sgn Z.div Z.modulo Z.mul Z.add Z.sub Z.opp feqb fzero is_zero cmp0
       py_upper py_lower fmt_int fmt_float Z.compare.

(* expose the shape of the abstract stack demanded by eff *)
Ltac shape H :=
  repeat match type of H with
         | context[match ?t with [] => _ | _ :: _ => _ end] =>
           let a := fresh "a" in let r := fresh "r" in let E := fresh "E" in
           destruct t as [|a r] eqn:E; [discriminate|]
         | context[if ?b then _ else _] =>
           let E := fresh "C" in destruct b eqn:E; [|discriminate]
         end.

Ltac inv_stacks :=
  repeat match goal with
         | H : tys _ = _ :: _ |- _ =>
           let c := fresh "c" in let l := fresh "l" in
           apply tys_cons_inv in H; destruct H as (c & l & ? & ? & ?); subst
         end.

Ltac break_one :=
  match goal with
  | |- context[if ?b then _ else _] => destruct b eqn:?
  | |- context[match ?x with FNaN => _ | FInf _ => _ | FFin _ _ _ => _ end] => destruct x eqn:?
  | |- context[match ?x with [] => _ | _ :: _ => _ end] => destruct x eqn:?
  | |- context[match ?x with Eq => _ | Lt => _ | Gt => _ end] => destruct x eqn:?
  | |- context[match ?x with Some _ => _ | None => _ end] => destruct x eqn:?
  end.
Ltac break_if := repeat (break_one; cbn).

Ltac crunch :=
  cbn; unfold push, push_opt, repush, bind, mk_cell, ret, trap, type_mismatch, push_cell, upd_stack, crashM, modify, get,
       py_add, py_sub, py_mul, pv;
  cbn; break_if; cbn; repeat split; auto.

Ltac destr_cells :=
  repeat match goal with
         | c : cell |- _ => destruct c; cbn in *; try discriminate
         end.

Ltac solve_instr H s :=
  cbn [eff] in H; shape H; inversion H; subst; clear H; inv_stacks;
  destr_cells;
  unfold safe_out, exec, bitwise, arith_prelude, pop_int, pop_long, pop_str, pop_ty, bind, pop, get;
  repeat match goal with Hs : stack _ = _ |- _ => rewrite Hs; clear Hs end;
  crunch.



Lemma numeric_cases a : numeric a = true -> a = 1 \/ a = 2 \/ a = 3 \/ a = 4.
Proof. unfold numeric. intro H. apply andb_true_iff in H as [H1 H2]. apply Z.leb_le in H1, H2. lia. Qed.

Lemma cmp_str_some x : forall y, exists r, cmp_vals (CStr x) (CStr y) = Some r /\ (r = 0 \/ r = -1 \/ r = 1).
Proof.
  induction x as [|c x IH]; intros [|d y]; cbn; eauto.
  destruct (c <? d); [eauto|]. destruct (c >? d); [eauto|]. apply IH.
Qed.

Theorem eff_sound m i s t' : eff i (tys (stack s)) = Some t' -> safe_out i s t' (exec m i s).
Proof.
  intro H. destruct i; try (cbn [eff] in H; discriminate).
  all: try (solve [solve_instr H s]).
  all: match goal with
       | |- safe_out ICmp ?s0 _ _ =>
         cbn [eff] in H; shape H; inversion H; subst; clear H; inv_stacks;
         destr_cells;
         unfold safe_out, exec, bind, pop;
         repeat match goal with Hs : stack s0 = _ |- _ => rewrite Hs; clear Hs end;
         try (crunch; fail);
         cbn;
         match goal with |- context[cmp_vals (CStr ?x) (CStr ?y)] =>
           destruct (cmp_str_some x y) as (r0 & Hr & _); cbn in Hr; rewrite Hr end;
         crunch
       | |- safe_out (IConv _ _) ?s0 _ _ =>
         cbn [eff] in H; shape H; inversion H; subst; clear H; inv_stacks;
         repeat match goal with C : _ && _ = true |- _ => apply andb_true_iff in C; destruct C end;
         match goal with C : (_ =? _) = true |- _ => apply Z.eqb_eq in C; subst end;
         repeat match goal with C : numeric _ = true |- _ => apply numeric_cases in C end;
         repeat match goal with C : _ = _ \/ _ |- _ => destruct C as [?|[?|[?|?]]]; subst end;
         destr_cells;
         unfold safe_out, exec, pop_ty, bind, pop;
         repeat match goal with Hs : stack s0 = _ |- _ => rewrite Hs; clear Hs end;
         crunch
       | |- safe_out (IPushC _ _) _ _ _ =>
         cbn [eff] in H; shape H; inversion H; subst; clear H;
         repeat match goal with C : numeric _ = true |- _ => apply numeric_cases in C end;
         repeat match goal with C : _ = _ \/ _ |- _ => destruct C as [?|[?|[?|?]]]; subst end;
         unfold safe_out, exec; crunch
       | _ => idtac
       end.
  - (* ICmp *)
    cbn [eff] in H; shape H; inversion H; subst; clear H; inv_stacks.
    destr_cells.
    all: unfold safe_out, exec, bind, pop.
    all: repeat match goal with Hs : stack _ = _ |- _ => rewrite Hs; clear Hs end.
    all: try (crunch; fail).
    all: cbn -[cmp_vals].
    all: match goal with |- context[cmp_vals (CStr ?x) (CStr ?y)] =>
           destruct (cmp_str_some x y) as (r0 & Hr & _); rewrite Hr end.
    all: crunch.
  - (* IDupl *)
    cbn [eff] in H; shape H; inversion H; subst; clear H; inv_stacks.
    unfold safe_out, exec, bind, get.
    match goal with Hs : stack _ = _ |- _ => rewrite Hs; cbn; rewrite Hs end.
    cbn. repeat split; auto.
Qed.

(* ---- straight-line blocks ---- *)

Fixpoint exec_list (m : module) (l : list instr) : M unit :=
  match l with
  | [] => ret tt
  | i :: r => bind (exec m i) (fun _ => exec_list m r)
  end.

Definition block_out (l : list instr) (s : st) (t' : list Z) (o : out unit) : Prop :=
  match o with
  | R _ s' => tys (stack s') = t' /\ heap s' = heap s /\ cur s' = cur s /\ events s' = events s
  | T c kw _ => ok_trap c = true /\ kw = true
  | ZD _ => True
  | X _ _ => False
  | NI _ => False
  end.

Lemma block_safe m l : forall s t',
  eff_list l (tys (stack s)) = Some t' -> block_out l s t' (exec_list m l s).
Proof.
  induction l as [|i l IH]; intros s t' H.
  - cbn in *. inversion H; subst. cbn. auto.
  - cbn [eff_list] in H. destruct (eff i (tys (stack s))) as [t1|] eqn:E; [|discriminate].
    pose proof (eff_sound m i s t1 E) as Hs.
    cbn [exec_list]. unfold bind. destruct (exec m i s) as [u s1|c kw s1|s1|k s1|s1]; cbn in Hs |- *.
    + destruct Hs as (Ht & Hh & Hc & He).
      rewrite <- Ht in H. specialize (IH s1 t' H).
      destruct (exec_list m l s1); cbn in IH |- *.
      * destruct IH as (A & B & C & D). repeat split; congruence.
      * exact IH.
      * exact I.
      * exact IH.
      * exact IH.
    + exact Hs.
    + exact I.
    + discriminate Hs.
    + exact Hs.
Qed.

Lemma ok_trap_not_type_confusion c :
  ok_trap c = true -> c <> T_TYPE_MISMATCH /\ c <> T_STACK_EMPTY /\ c <> T_INVALID_OP_CODE /\
                      c <> T_INVALID_VAR_IDX /\ c <> T_NULL_REFERENCE.
Proof.
  unfold ok_trap. intro H. apply orb_true_iff in H as [H|H]; apply Z.eqb_eq in H; subst;
    repeat split; discriminate.
Qed.

(* ---- a well-typed stack instruction never makes tick fail (C07) ---- *)
From QV Require Import ErrProofs.

Lemma stack_pre_exec s size : stack (pre_exec s size) = stack s.
Proof. destruct s; reflexivity. Qed.

Lemma ttarget_set_trapped s a : ttarget_ (set_trapped_addr s a) = ttarget_ s.
Proof. destruct s; reflexivity. Qed.

(* exec does not change the armed handler except through errhand, which is not a stack instruction *)
Theorem tick_total_on_typed_stack_instr m s i size t' :
  in_code m s ->
  decode (skipn (Z.to_nat (pc s)) (m_code m)) = DOk i size ->
  eff i (tys (stack s)) = Some t' ->
  (forall s3 c kw, exec m i (pre_exec s size) = T c kw s3 -> ttarget_ s3 <> TNext) ->
  (forall s3, exec m i (pre_exec s size) = ZD s3 -> ttarget_ s3 <> TNext) ->
  exists s', tick m s = Next s'.
Proof.
  intros Hc Hd He HT HZ.
  assert (Hn : forall idx, i <> IPushStr idx).
  { intros idx ->. cbn in He. discriminate. }
  rewrite <- (stack_pre_exec s size) in He.
  pose proof (eff_sound m i (pre_exec s size) t' He) as Hs.
  destruct (exec m i (pre_exec s size)) as [u s3|c kw s3|s3|k s3|s3] eqn:E; cbn in Hs.
  - rewrite (tick_ok_shape m s i size u s3 Hc Hd Hn E). apply end_check_next. eauto.
  - destruct Hs as [_ ->].
    rewrite (tick_trapped_shape m s i size c true s3 Hc Hd Hn E). apply end_check_next.
    apply do_trap_total. rewrite ttarget_set_trapped. eapply HT. reflexivity.
  - rewrite (tick_zerodiv_shape m s i size s3 Hc Hd Hn E). apply end_check_next.
    apply do_trap_total. rewrite ttarget_set_trapped. eapply HZ. reflexivity.
  - unfold crash_guard in Hs. discriminate Hs.
  - contradiction.
Qed.
