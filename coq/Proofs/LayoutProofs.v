(* Proofs about Models/Layout.v (pure layout) and about the memory
   instructions of Models/Cpu.v.  Statements used by Props/C04.v. *)
From Coq Require Import ZArith List Bool Lia.
From QV Require Import Sx Strs Layout.
Import ListNotations.
Open Scope Z_scope.

(* ================================================================== *)
(* 1. well-formed declarations                                         *)

(* Pass2.process_dim_pre rejects a static dimension with lbound > ubound *)
Fixpoint wf_ty (t : ty) : Prop :=
  match t with
  | TArray bs e => Forall (fun b => fst b <= snd b) bs /\ wf_ty e
  | _ => True
  end.

Definition wf_fields (fs : fields) : Prop := Forall (fun f => wf_ty (snd f)) fs.
Definition wf_env (env : renv) : Prop := Forall (fun r => wf_fields (snd r)) env.
Definition wf_decls (ds : decls) : Prop := Forall (fun d => wf_ty (snd d)) ds.

(* ================================================================== *)
(* 2. the specification: access paths                                  *)

Inductive step := SIdx (idxs : list Z) | SFld (f : str).

(* [denotes env t p o k]: inside an object of type t, the well-formed path p
   (index tuples within the declared bounds, existing field names) ends at a
   scalar cell of builtin type k, o cells after the start of the object.
   The offsets are those the code generator and the machine compute:
   get_dotted_index for field chains, _exec_arridx for index tuples. *)
Inductive denotes : renv -> ty -> list step -> Z -> Z -> Prop :=
| DScalar env k : denotes env (TBuiltin k) [] 0 k
| DField env n fs env' f off ft p o k :
    lookup_rec env n = Some (fs, env') ->
    field_offset env' fs f 0 = Some (off, ft) ->
    denotes env' ft p o k ->
    denotes env (TRecord n) (SFld f :: p) (off + o) k
| DElem env bs e idxs num es p o k :
    elem_number bs idxs = Some num ->
    type_size env e = Some es ->
    denotes env e p o k ->
    denotes env (TArray bs e) (SIdx idxs :: p) (header_size bs + num * es + o) k.

(* first declaration of a name (dict lookup) *)
Fixpoint decl_ty (ds : decls) (v : str) : option ty :=
  match ds with
  | [] => None
  | (n, t) :: r => if str_eqb v n then Some t else decl_ty r v
  end.

(* ================================================================== *)
(* 3. sizes are non-negative                                           *)

Lemma sum_opt_app a b :
  sum_opt (a ++ b) =
  match sum_opt a, sum_opt b with Some x, Some y => Some (x + y) | _, _ => None end.
Proof.
  induction a as [|[x|] a IH]; simpl.
  - destruct (sum_opt b); [f_equal|]; reflexivity.
  - rewrite IH. destruct (sum_opt a), (sum_opt b); try reflexivity. f_equal. lia.
  - reflexivity.
Qed.

Lemma prod_dims_pos bs : Forall (fun b => fst b <= snd b) bs -> 1 <= prod_list (dims bs).
Proof.
  induction 1 as [|[lb ub] bs H _ IH]; simpl in *; [lia | nia].
Qed.

Lemma header_size_ge bs : 3 <= header_size bs.
Proof. unfold header_size, rank. lia. Qed.

Lemma size_with_nonneg rs t z :
  (forall n s, rs n = Some s -> 0 <= s) -> wf_ty t -> size_with rs t = Some z -> 0 <= z.
Proof.
  intros Hrs. revert z. induction t as [k|n|bs e IH|e IH]; simpl; intros z Hw Hs.
  - inversion Hs; lia.
  - eauto.
  - destruct Hw as [Hb He]. destruct (size_with rs e) as [es|] eqn:E; [|discriminate].
    inversion Hs; subst. specialize (IH es He eq_refl).
    pose proof (prod_dims_pos bs Hb). pose proof (header_size_ge bs). nia.
  - inversion Hs; lia.
Qed.

Lemma sum_fields_nonneg rs (fs : fields) z :
  (forall n s, rs n = Some s -> 0 <= s) -> wf_fields fs ->
  sum_opt (map (fun f => size_with rs (snd f)) fs) = Some z -> 0 <= z.
Proof.
  intros Hrs Hw. revert z. induction Hw as [|[n t] fs Ht _ IH]; simpl; intros z Hs.
  - inversion Hs; lia.
  - destruct (size_with rs t) as [a|] eqn:E; [|discriminate].
    destruct (sum_opt _) as [b|]; [|discriminate]. inversion Hs; subst.
    pose proof (size_with_nonneg rs t a Hrs Ht E). specialize (IH b eq_refl). lia.
Qed.

Lemma rec_size_nonneg env : wf_env env -> forall n s, rec_size env n = Some s -> 0 <= s.
Proof.
  induction 1 as [|[n' fs] env Hf _ IH]; simpl; intros n s Hs; [discriminate|].
  destruct (str_eqb n n'); [|eauto].
  eapply sum_fields_nonneg; eauto.
Qed.

Lemma type_size_nonneg env t z :
  wf_env env -> wf_ty t -> type_size env t = Some z -> 0 <= z.
Proof.
  intros He Ht. unfold type_size. apply size_with_nonneg; auto. now apply rec_size_nonneg.
Qed.

Lemma lookup_rec_size env n fs env' :
  lookup_rec env n = Some (fs, env') ->
  rec_size env n = sum_opt (map (fun f => type_size env' (snd f)) fs).
Proof.
  induction env as [|[n' fs'] env IH]; simpl; [discriminate|].
  destruct (str_eqb n n'); intro H; [inversion H; subst; reflexivity | auto].
Qed.

Lemma lookup_rec_wf env n fs env' :
  wf_env env -> lookup_rec env n = Some (fs, env') -> wf_fields fs /\ wf_env env'.
Proof.
  induction 1 as [|[n' fs'] env Hf He IH]; simpl; [discriminate|].
  destruct (str_eqb n n'); intro H; [inversion H; subst; auto | auto].
Qed.

(* ================================================================== *)
(* 4. fields                                                           *)

Lemma field_offset_ge env fs f acc off ft :
  wf_env env -> wf_fields fs -> field_offset env fs f acc = Some (off, ft) -> acc <= off.
Proof.
  intros He Hw. revert acc. induction Hw as [|[n t] fs Ht _ IH]; simpl; intros acc H; [discriminate|].
  destruct (str_eqb f n); [inversion H; lia|].
  destruct (type_size env t) as [sz|] eqn:E; [|discriminate].
  pose proof (type_size_nonneg env t sz He Ht E). apply IH in H. lia.
Qed.

(* a field lies inside the record: [off, off + size) within [acc, acc + total) *)
Lemma field_offset_range env fs f acc off ft total :
  wf_env env -> wf_fields fs ->
  field_offset env fs f acc = Some (off, ft) ->
  sum_opt (map (fun f => type_size env (snd f)) fs) = Some total ->
  wf_ty ft /\ exists sz, type_size env ft = Some sz /\ acc <= off /\ off + sz <= acc + total.
Proof.
  intros He Hw. revert acc total. induction Hw as [|[n t] fs Ht Hfs IH]; simpl; intros acc total H Hs;
    [discriminate|].
  destruct (type_size env t) as [sz|] eqn:E; [|destruct (str_eqb f n); discriminate].
  destruct (sum_opt _) as [rest|] eqn:Er; [|discriminate]. inversion Hs; subst.
  pose proof (type_size_nonneg env t sz He Ht E).
  assert (0 <= rest).
  { eapply sum_fields_nonneg with (rs := rec_size env); eauto. now apply rec_size_nonneg. }
  destruct (str_eqb f n).
  - inversion H; subst. split; [assumption|]. exists sz. repeat split; auto; lia.
  - destruct (IH _ _ H eq_refl) as [W [s [A [B C]]]]. split; [assumption|]. exists s. repeat split; auto; lia.
Qed.

(* fields_disjoint: two different fields of one record occupy disjoint cell ranges *)
Lemma fields_disjoint env fs f1 f2 acc o1 t1 o2 t2 s1 s2 :
  wf_env env -> wf_fields fs ->
  field_offset env fs f1 acc = Some (o1, t1) ->
  field_offset env fs f2 acc = Some (o2, t2) ->
  type_size env t1 = Some s1 -> type_size env t2 = Some s2 ->
  f1 <> f2 ->
  o1 + s1 <= o2 \/ o2 + s2 <= o1.
Proof.
  intros He Hw. revert acc. induction Hw as [|[n t] fs Ht Hfs IH]; simpl; intros acc H1 H2 S1 S2 Hne;
    [discriminate|].
  destruct (str_eqb f1 n) eqn:E1, (str_eqb f2 n) eqn:E2.
  - apply str_eqb_eq in E1, E2. congruence.
  - inversion H1; subst. rewrite S1 in H2. apply field_offset_ge in H2; auto.
  - inversion H2; subst. rewrite S2 in H1. apply field_offset_ge in H1; auto.
  - destruct (type_size env t); [|discriminate]. eauto.
Qed.

Lemma str_eq_dec (a b : str) : {a = b} + {a <> b}.
Proof. apply list_eq_dec, Z.eq_dec. Qed.

(* ================================================================== *)
(* 5. arrays: mixed-radix row-major indexing                           *)

Lemma elem_number_range bs idxs n :
  Forall (fun b => fst b <= snd b) bs -> elem_number bs idxs = Some n ->
  0 <= n < prod_list (dims bs).
Proof.
  intros Hb. revert idxs n. induction Hb as [|[lb ub] bs H _ IH]; intros [|i is_] n; simpl; intro E;
    try discriminate.
  - inversion E; lia.
  - destruct ((i <? lb) || (i >? ub)) eqn:C; [discriminate|].
    destruct (elem_number bs is_) as [r|] eqn:Er; [|discriminate]. inversion E; subst.
    apply orb_false_iff in C as [C1 C2]. apply Z.ltb_ge in C1.
    assert (i <= ub) by (destruct (Z.gtb_spec i ub); [discriminate | lia]).
    specialize (IH _ _ Er). simpl in H. nia.
Qed.

(* key lemma: row-major numbering is injective on in-range index tuples *)
Lemma elem_number_inj bs i1 i2 n :
  Forall (fun b => fst b <= snd b) bs ->
  elem_number bs i1 = Some n -> elem_number bs i2 = Some n -> i1 = i2.
Proof.
  intros Hb. revert i1 i2 n.
  induction Hb as [|[lb ub] bs H Hbs IH]; intros [|a i1] [|b i2] n; simpl; intros E1 E2;
    try discriminate; try reflexivity.
  destruct ((a <? lb) || (a >? ub)) eqn:C1; [discriminate|].
  destruct ((b <? lb) || (b >? ub)) eqn:C2; [discriminate|].
  destruct (elem_number bs i1) as [r1|] eqn:R1; [|discriminate].
  destruct (elem_number bs i2) as [r2|] eqn:R2; [|discriminate].
  inversion E1; inversion E2; subst.
  pose proof (elem_number_range _ _ _ Hbs R1). pose proof (elem_number_range _ _ _ Hbs R2).
  assert (a = b) by nia. subst b.
  assert (r1 = r2) by lia. subst r2.
  f_equal. eauto.
Qed.

Lemma elem_number_length bs idxs n : elem_number bs idxs = Some n -> length idxs = length bs.
Proof.
  revert idxs n. induction bs as [|[lb ub] bs IH]; intros [|i is_] n; simpl; intro E; try discriminate; auto.
  destruct ((i <? lb) || (i >? ub)); [discriminate|].
  destruct (elem_number bs is_) eqn:R; [|discriminate]. f_equal. eauto.
Qed.

(* arridx_in_segment, pure part: the cell is after the header and inside the
   header_size + array_cells cells of the array *)
Lemma elem_index_in_array base es bs idxs c :
  Forall (fun b => fst b <= snd b) bs -> 0 < es ->
  elem_index base es bs idxs = Some c ->
  base + header_size bs <= c /\ c + es <= base + header_size bs + array_cells es bs.
Proof.
  intros Hb Hes. unfold elem_index, array_cells.
  destruct (elem_number bs idxs) as [n|] eqn:E; [|discriminate]. intro H; inversion H; subst.
  pose proof (elem_number_range _ _ _ Hb E). nia.
Qed.

(* two different in-range index tuples give element ranges that do not overlap *)
Lemma elem_index_disjoint base es bs i1 i2 c1 c2 :
  Forall (fun b => fst b <= snd b) bs -> 0 < es ->
  elem_index base es bs i1 = Some c1 -> elem_index base es bs i2 = Some c2 ->
  i1 <> i2 -> c1 + es <= c2 \/ c2 + es <= c1.
Proof.
  intros Hb Hes. unfold elem_index.
  destruct (elem_number bs i1) as [n1|] eqn:E1; [|discriminate].
  destruct (elem_number bs i2) as [n2|] eqn:E2; [|discriminate].
  intros H1 H2 Hne. inversion H1; inversion H2; subst.
  assert (n1 <> n2).
  { intro; subst. apply Hne. eapply elem_number_inj; eauto. }
  nia.
Qed.

(* the loop of _exec_arridx computes elem_index *)
Lemma arridx_acc_spec es bs : forall idxs n acc,
  elem_number bs idxs = Some n -> arridx_acc es idxs bs acc = acc + n * es.
Proof.
  induction bs as [|[lb ub] bs IH]; intros [|i is_] n acc; simpl; intro E; try discriminate.
  - inversion E; lia.
  - destruct ((i <? lb) || (i >? ub)); [discriminate|].
    destruct (elem_number bs is_) as [r|] eqn:R; [|discriminate]. inversion E; subst.
    rewrite (IH _ _ _ R). lia.
Qed.

(* Array.__init__ allocates at least the cells indexing can reach; it
   over-allocates exactly when rank >= 2 and element_size >= 2 *)
Lemma heap_array_cells_fold es bs acc :
  fold_left (fun a b => a * ((snd b - fst b + 1) * es)) bs acc
  = acc * (prod_list (dims bs) * es ^ Z.of_nat (length bs)).
Proof.
  revert acc. induction bs as [|[lb ub] bs IH]; intro acc.
  - simpl. lia.
  - cbn [fold_left dims map prod_list length fst snd].
    rewrite IH, Nat2Z.inj_succ, Z.pow_succ_r by lia. fold (dims bs). ring.
Qed.

Lemma heap_array_cells_eq es bs : heap_array_cells es bs = prod_list (dims bs) * es ^ rank bs.
Proof. unfold heap_array_cells, rank. rewrite heap_array_cells_fold. lia. Qed.

Lemma heap_array_cells_ge es bs :
  Forall (fun b => fst b <= snd b) bs -> 1 <= es -> bs <> [] ->
  array_cells es bs <= heap_array_cells es bs.
Proof.
  intros Hb Hes Hne. rewrite heap_array_cells_eq. unfold array_cells, rank.
  pose proof (prod_dims_pos bs Hb).
  destruct bs as [|b bs]; [congruence|].
  cbn [length]. rewrite Nat2Z.inj_succ, Z.pow_succ_r by lia.
  assert (0 < es ^ Z.of_nat (length bs)) by (apply Z.pow_pos_nonneg; lia).
  nia.
Qed.

(* ================================================================== *)
(* 6. paths inside an object                                           *)

Theorem paths_in_object env t p o k :
  denotes env t p o k -> wf_env env -> wf_ty t ->
  forall sz, type_size env t = Some sz -> 0 <= o < sz.
Proof.
  induction 1 as [env k | env n fs env' f off ft p o k Hl Hf Hd IH
                  | env bs e idxs num es p o k Hn He Hd IH]; intros Hwe Hwt sz Hs.
  - inversion Hs; lia.
  - unfold type_size in Hs; simpl in Hs. rewrite (lookup_rec_size _ _ _ _ Hl) in Hs.
    destruct (lookup_rec_wf _ _ _ _ Hwe Hl) as [Wf We'].
    destruct (field_offset_range _ _ _ _ _ _ _ We' Wf Hf Hs) as [Wt [s [A [B C]]]].
    specialize (IH We' Wt s A). lia.
  - destruct Hwt as [Hb Hwe']. unfold type_size in Hs, He; simpl in Hs. rewrite He in Hs.
    inversion Hs; subst. specialize (IH Hwe Hwe' es He).
    pose proof (elem_number_range _ _ _ Hb Hn). pose proof (header_size_ge bs). nia.
Qed.

Lemma field_offset_same_name env fs f acc o1 t1 o2 t2 :
  field_offset env fs f acc = Some (o1, t1) -> field_offset env fs f acc = Some (o2, t2) ->
  o1 = o2 /\ t1 = t2.
Proof. intros A B. rewrite A in B. inversion B; auto. Qed.

(* two well-formed paths into the same object that reach the same cell are the same path *)
Theorem paths_injective env t p1 o k1 :
  denotes env t p1 o k1 -> wf_env env -> wf_ty t ->
  forall sz, type_size env t = Some sz ->
  forall p2 k2, denotes env t p2 o k2 -> p1 = p2 /\ k1 = k2.
Proof.
  induction 1 as [env k | env n fs env' f off ft p o k Hl Hf Hd IH
                  | env bs e idxs num es p o k Hn He Hd IH]; intros Hwe Hwt sz Hs p2 k2 D2.
  - inversion D2; subst. auto.
  - inversion D2 as [| ? ? fs2 env2 f2 off2 ft2 q o2 ? Hl2 Hf2 Hd2 Heq |]; subst.
    rewrite Hl in Hl2. inversion Hl2; subst fs2 env2.
    destruct (lookup_rec_wf _ _ _ _ Hwe Hl) as [Wf We'].
    unfold type_size in Hs; simpl in Hs. rewrite (lookup_rec_size _ _ _ _ Hl) in Hs.
    destruct (field_offset_range _ _ _ _ _ _ _ We' Wf Hf Hs) as [Wt1 [s1 [A1 [B1 C1]]]].
    destruct (field_offset_range _ _ _ _ _ _ _ We' Wf Hf2 Hs) as [Wt2 [s2 [A2 [B2 C2]]]].
    pose proof (paths_in_object _ _ _ _ _ Hd We' Wt1 _ A1).
    pose proof (paths_in_object _ _ _ _ _ Hd2 We' Wt2 _ A2).
    destruct (str_eq_dec f f2) as [->|Hne].
    + destruct (field_offset_same_name _ _ _ _ _ _ _ _ Hf Hf2) as [-> ->].
      assert (o2 = o) by lia. subst o2.
      destruct (IH We' Wt1 _ A1 _ _ Hd2) as [-> ->]. auto.
    + destruct (fields_disjoint _ _ _ _ _ _ _ _ _ _ _ We' Wf Hf Hf2 A1 A2 Hne); lia.
  - inversion D2 as [| | ? ? ? idxs2 num2 es2 q o2 ? Hn2 He2 Hd2 Heq]; subst.
    rewrite He in He2. inversion He2; subst es2.
    destruct Hwt as [Hb Hwe'].
    pose proof (paths_in_object _ _ _ _ _ Hd Hwe Hwe' _ He).
    pose proof (paths_in_object _ _ _ _ _ Hd2 Hwe Hwe' _ He).
    assert (num2 = num) by nia. subst num2.
    assert (o2 = o) by lia. subst o2.
    rewrite (elem_number_inj _ _ _ _ Hb Hn Hn2).
    destruct (IH Hwe Hwe' _ He _ _ Hd2) as [-> ->]. auto.
Qed.

(* ================================================================== *)
(* 7. variables of a routine / of the global area                      *)

Lemma var_idx_field env ds v acc :
  var_idx_from env ds v acc = option_map fst (field_offset env ds v acc).
Proof.
  revert acc. induction ds as [|[n t] ds IH]; simpl; intro acc; [reflexivity|].
  destruct (str_eqb v n); [reflexivity|]. destruct (type_size env t); auto.
Qed.

Lemma decl_ty_field env ds v acc i t :
  field_offset env ds v acc = Some (i, t) -> decl_ty ds v = Some t.
Proof.
  revert acc. induction ds as [|[n t'] ds IH]; simpl; intro acc; [discriminate|].
  destruct (str_eqb v n); [intro H; inversion H; reflexivity|].
  destruct (type_size env t'); [eauto | discriminate].
Qed.

Lemma var_idx_field_ex env ds v acc i t :
  var_idx_from env ds v acc = Some i -> decl_ty ds v = Some t ->
  field_offset env ds v acc = Some (i, t).
Proof.
  rewrite var_idx_field. destruct (field_offset env ds v acc) as [[i' t']|] eqn:E; simpl; [|discriminate].
  intros H D. inversion H; subst. rewrite (decl_ty_field _ _ _ _ _ _ E) in D. inversion D; reflexivity.
Qed.

(* paths_in_frame: every well-formed access path (variable, in-range indices,
   field chain) denotes a cell inside [0, total) where total is the sum of the
   declared sizes (the frame size, resp. the size of the global area) *)
Theorem paths_in_frame env ds v i t p o k total :
  wf_env env -> wf_decls ds ->
  var_idx_from env ds v 0 = Some i -> decl_ty ds v = Some t ->
  denotes env t p o k ->
  sizes_sum env ds = Some total ->
  0 <= i + o < total.
Proof.
  intros He Hd Hi Ht D Hs.
  pose proof (var_idx_field_ex _ _ _ _ _ _ Hi Ht) as F.
  destruct (field_offset_range _ _ _ _ _ _ _ He Hd F Hs) as [Wt [sz [A [B C]]]].
  pose proof (paths_in_object _ _ _ _ _ D He Wt _ A). lia.
Qed.

(* paths_disjoint: two well-formed paths that denote the same cell are the
   same variable and the same path *)
Theorem paths_disjoint env ds total v1 i1 t1 p1 o1 k1 v2 i2 t2 p2 o2 k2 :
  wf_env env -> wf_decls ds -> sizes_sum env ds = Some total ->
  var_idx_from env ds v1 0 = Some i1 -> decl_ty ds v1 = Some t1 -> denotes env t1 p1 o1 k1 ->
  var_idx_from env ds v2 0 = Some i2 -> decl_ty ds v2 = Some t2 -> denotes env t2 p2 o2 k2 ->
  i1 + o1 = i2 + o2 ->
  v1 = v2 /\ p1 = p2 /\ k1 = k2.
Proof.
  intros He Hd Hs Hi1 Ht1 D1 Hi2 Ht2 D2 Heq.
  pose proof (var_idx_field_ex _ _ _ _ _ _ Hi1 Ht1) as F1.
  pose proof (var_idx_field_ex _ _ _ _ _ _ Hi2 Ht2) as F2.
  destruct (field_offset_range _ _ _ _ _ _ _ He Hd F1 Hs) as [W1 [s1 [A1 [B1 C1]]]].
  destruct (field_offset_range _ _ _ _ _ _ _ He Hd F2 Hs) as [W2 [s2 [A2 [B2 C2]]]].
  pose proof (paths_in_object _ _ _ _ _ D1 He W1 _ A1).
  pose proof (paths_in_object _ _ _ _ _ D2 He W2 _ A2).
  destruct (str_eq_dec v1 v2) as [->|Hne].
  - rewrite F1 in F2. inversion F2; subst. assert (o2 = o1) by lia. subst o2.
    destruct (paths_injective _ _ _ _ _ D1 He W1 _ A1 _ _ D2) as [-> ->]. auto.
  - destruct (fields_disjoint _ _ _ _ _ _ _ _ _ _ _ He Hd F1 F2 A1 A2 Hne); lia.
Qed.

Lemma frame_size_sum env ps ls : frame_size env ps ls = sizes_sum env (ps ++ ls).
Proof.
  unfold frame_size, params_size, local_vars_size, sizes_sum. rewrite map_app, sum_opt_app.
  reflexivity.
Qed.

(* local variables of a routine: params ++ locals, frame operands of `frame` *)
Corollary local_paths_in_frame env ps ls v i t p o k fsz :
  wf_env env -> wf_decls (ps ++ ls) ->
  local_var_idx env ps ls v = Some i -> decl_ty (ps ++ ls) v = Some t ->
  denotes env t p o k -> frame_size env ps ls = Some fsz -> 0 <= i + o < fsz.
Proof. intros. rewrite frame_size_sum in *. eapply paths_in_frame; eauto. Qed.

(* a field chain is addressed by get_dotted_index *)
Lemma denotes_dotted env t chain o k :
  denotes env t (map SFld chain) o k -> dotted_index env t chain = Some o.
Proof.
  revert env t o. induction chain as [|f rest IH]; intros env t o D; simpl in *.
  - inversion D; subst; reflexivity.
  - inversion D as [| ? n fs env' ? off ft ? o' ? Hl Hf Hd |]; subst. simpl.
    rewrite Hl, Hf, (IH _ _ _ Hd). reflexivity.
Qed.

(* an element of an array (of records), then a field chain: arridx, then refidx
   with get_dotted_index of the array's type (gen_lvalue_ref) *)
Lemma denotes_elem_dotted env bs e idxs chain o k :
  denotes env (TArray bs e) (SIdx idxs :: map SFld chain) o k ->
  exists es c d, type_size env e = Some es /\ elem_index 0 es bs idxs = Some c /\
                 dotted_index env e chain = Some d /\ o = c + d.
Proof.
  intro D. inversion D as [| | ? ? ? ? num es ? o' ? Hn He Hd]; subst.
  exists es, (header_size bs + num * es), o'. unfold elem_index. rewrite Hn.
  repeat split; auto; try lia. eapply denotes_dotted; eauto.
Qed.

(* ---- D14: the frame instruction pops params_size cells, the callers push one
   value per parameter ---- *)

Lemma params_size_fixed_ok env ps :
  Forall (fun d => type_size env (snd d) = Some 1) ps ->
  params_size env ps = Some (params_size_fixed ps).
Proof.
  unfold params_size, sizes_sum, params_size_fixed.
  induction 1 as [|[n t] ps H _ IH]; [reflexivity|].
  cbn [map sum_opt snd length]. simpl in H. rewrite H, IH. f_equal. lia.
Qed.

(* STATIC names: `_static_<routine>_<name>` is injective because identifiers
   (grammar: Word(alphas, alphanums) + optional type character) contain no underscore *)
Lemma app_no_us_inj (r1 r2 n1 n2 : str) :
  ~ In ch_us r1 -> ~ In ch_us r2 ->
  r1 ++ ch_us :: n1 = r2 ++ ch_us :: n2 -> r1 = r2 /\ n1 = n2.
Proof.
  revert r2. induction r1 as [|a r1 IH]; intros [|b r2] H1 H2 E; simpl in *.
  - inversion E; auto.
  - inversion E; subst. exfalso; apply H2; auto.
  - inversion E; subst. exfalso; apply H1; auto.
  - inversion E; subst. destruct (IH r2) as [-> ->]; auto.
Qed.

Lemma static_full_name_inj r1 n1 r2 n2 :
  ~ In ch_us r1 -> ~ In ch_us r2 ->
  static_full_name r1 n1 = static_full_name r2 n2 -> r1 = r2 /\ n1 = n2.
Proof.
  unfold static_full_name. intros H1 H2 E. apply app_inv_head in E.
  apply app_no_us_inj; auto.
Qed.

(* a STATIC name never equals a SHARED name (which starts with a letter) *)
Lemma static_not_shared r n (g : str) c :
  hd_error g = Some c -> c <> ch_us -> static_full_name r n <> g.
Proof.
  unfold static_full_name, static_prefix. intros H Hc E. subst g. simpl in H. inversion H. unfold ch_us in *. congruence.
Qed.

(* ================================================================== *)
(* 8. the memory instructions of the machine model (Models/Cpu.v)      *)

From QV Require Import Fl Cell Machine Cpu.

(* ---- Python list indexing on non-negative indices ---- *)

Lemma nthZ_nat {A} (l : list A) i : 0 <= i -> nthZ l i = nth_error l (Z.to_nat i).
Proof.
  intro H. unfold nthZ.
  assert (E : (i <? 0) = false) by (apply Z.ltb_ge; lia). cbv zeta. rewrite !E. simpl.
  destruct (i >=? Z.of_nat (length l)) eqn:C; [|reflexivity].
  symmetry. apply nth_error_None. apply Z.geb_le in C. lia.
Qed.

Lemma set_nth_length {A} (l : list A) n a : length (set_nth l n a) = length l.
Proof. revert n; induction l as [|x l IH]; intros [|n]; simpl; auto. Qed.

Lemma nth_error_set_nth_eq {A} (l : list A) n a :
  (n < length l)%nat -> nth_error (set_nth l n a) n = Some a.
Proof.
  revert n; induction l as [|x l IH]; intros [|n]; simpl; intro H; try lia; auto.
  apply IH; lia.
Qed.

Lemma nth_error_set_nth_neq {A} (l : list A) n m a :
  n <> m -> nth_error (set_nth l n a) m = nth_error l m.
Proof.
  revert n m; induction l as [|x l IH]; intros [|n] [|m]; simpl; intro H; auto; try congruence.
Qed.

Lemma setZ_nat {A} (l : list A) i a :
  0 <= i < Z.of_nat (length l) -> setZ l i a = Some (set_nth l (Z.to_nat i) a).
Proof.
  intro H. unfold setZ.
  assert (E : (i <? 0) = false) by (apply Z.ltb_ge; lia). cbv zeta. rewrite !E. simpl.
  assert (C : (i >=? Z.of_nat (length l)) = false).
  { destruct (i >=? Z.of_nat (length l)) eqn:C; [apply Z.geb_le in C; lia | reflexivity]. }
  rewrite C. reflexivity.
Qed.

Lemma setZ_none {A} (l : list A) i a :
  Z.of_nat (length l) <= i -> setZ l i a = None.
Proof.
  intro H. unfold setZ.
  assert (E : (i <? 0) = false) by (apply Z.ltb_ge; lia). cbv zeta. rewrite !E. simpl.
  assert (C : (i >=? Z.of_nat (length l)) = true) by (apply Z.geb_le; lia).
  rewrite C. reflexivity.
Qed.

Lemma set_nth_app_last {A} (h : list A) x y : set_nth (h ++ [x]) (length h) y = h ++ [y].
Proof. induction h; simpl; [reflexivity | now rewrite IHh]. Qed.

Lemma nth_error_app_last {A} (h : list A) x : nth_error (h ++ [x]) (length h) = Some x.
Proof. induction h; simpl; auto. Qed.

(* ---- cells of the heap ---- *)

(* the content of cell i of segment g; None = no such cell *)
Definition cellat (h : list seg) (g i : nat) : option (option cell) :=
  match nth_error h g with Some sg => nth_error (s_cells sg) i | None => None end.

Definition upd_heap (h : list seg) (g j : nat) (c : option cell) : list seg :=
  match nth_error h g with
  | Some sg => set_nth h g (mkSeg (set_nth (s_cells sg) j c) (s_kind sg))
  | None => h
  end.

Lemma upd_heap_length h g j c : length (upd_heap h g j c) = length h.
Proof. unfold upd_heap. destruct (nth_error h g); [apply set_nth_length | reflexivity]. Qed.

Lemma cellat_upd_same h g j c sg :
  nth_error h g = Some sg -> (j < length (s_cells sg))%nat ->
  cellat (upd_heap h g j c) g j = Some c.
Proof.
  intros Hg Hj. unfold cellat, upd_heap. rewrite Hg.
  rewrite nth_error_set_nth_eq by (apply nth_error_Some; congruence). simpl.
  now apply nth_error_set_nth_eq.
Qed.

Lemma cellat_upd_other h g j c g' j' :
  (g', j') <> (g, j) -> cellat (upd_heap h g j c) g' j' = cellat h g' j'.
Proof.
  intro Hne. unfold cellat, upd_heap. destruct (nth_error h g) as [sg|] eqn:Hg; [|reflexivity].
  destruct (Nat.eq_dec g g') as [<-|Hgg].
  - rewrite nth_error_set_nth_eq by (apply nth_error_Some; congruence). rewrite Hg. simpl.
    apply nth_error_set_nth_neq. congruence.
  - now rewrite nth_error_set_nth_neq.
Qed.

(* segments keep their kind and their number of cells: nothing is moved *)
Lemma upd_heap_shape h g j c g' :
  option_map (fun sg => (length (s_cells sg), s_kind sg)) (nth_error (upd_heap h g j c) g')
  = option_map (fun sg => (length (s_cells sg), s_kind sg)) (nth_error h g').
Proof.
  unfold upd_heap. destruct (nth_error h g) as [sg|] eqn:Hg; [|reflexivity].
  destruct (Nat.eq_dec g g') as [<-|Hgg].
  - rewrite nth_error_set_nth_eq by (apply nth_error_Some; congruence). rewrite Hg. simpl.
    now rewrite set_nth_length.
  - now rewrite nth_error_set_nth_neq.
Qed.

(* read_over_write, the frame lemma about seg_set / set_nth: after the cell
   (g, j) is written, it holds the value and EVERY other cell of EVERY segment
   is unchanged *)
Theorem upd_read_over_write h g j c sg :
  nth_error h g = Some sg -> (j < length (s_cells sg))%nat ->
  cellat (upd_heap h g j c) g j = Some c /\
  (forall g' j', (g', j') <> (g, j) -> cellat (upd_heap h g j c) g' j' = cellat h g' j') /\
  length (upd_heap h g j c) = length h.
Proof.
  intros. repeat split.
  - eapply cellat_upd_same; eauto.
  - intros. now apply cellat_upd_other.
  - apply upd_heap_length.
Qed.

(* ---- state plumbing ---- *)

Definition with_hs (s : st) (h : list seg) (stk : list cell) : st := set_stack (set_heap s h) stk.

Lemma seg_set_ok g i c s sg :
  0 <= g -> nth_error (heap s) (Z.to_nat g) = Some sg ->
  0 <= i < Z.of_nat (length (s_cells sg)) ->
  seg_set g i c s = R tt (set_heap s (upd_heap (heap s) (Z.to_nat g) (Z.to_nat i) c)).
Proof.
  intros Hg Hs Hi. unfold seg_set, bind, get_seg.
  rewrite nthZ_nat, Hs by assumption. rewrite setZ_nat by assumption.
  assert (Hlt : 0 <= g < Z.of_nat (length (heap s))).
  { split; [assumption|]. assert (Z.to_nat g < length (heap s))%nat by (apply nth_error_Some; congruence). lia. }
  rewrite setZ_nat by assumption. unfold upd_heap. rewrite Hs. reflexivity.
Qed.

Definition scope_ok (local_ : bool) (s : st) (g : Z) : Prop :=
  if local_ then cur s = Some g else g = 0.

(* ---- store / storeidx / storeref ---- *)

Theorem store_ok m l i v rest s g sg :
  stack s = v :: rest -> scope_ok l s g -> 0 <= g ->
  nth_error (heap s) (Z.to_nat g) = Some sg -> 0 <= i < Z.of_nat (length (s_cells sg)) ->
  exec m (IStore l i) s
  = R tt (with_hs s (upd_heap (heap s) (Z.to_nat g) (Z.to_nat i) (Some v)) rest).
Proof.
  intros Hst Hsc Hg Hs Hi. cbv beta iota delta [exec]. unfold bind at 1. unfold pop. rewrite Hst.
  destruct l; simpl in Hsc.
  - unfold bind at 1. unfold cur_frame. simpl. rewrite Hsc.
    unfold bind at 1. unfold get_seg. simpl. rewrite nthZ_nat, Hs by assumption.
    rewrite setZ_nat by assumption.
    rewrite (seg_set_ok g i (Some v) (set_stack s rest) sg) by (simpl; assumption).
    destruct s; reflexivity.
  - subst g. unfold bind at 1. unfold get_seg. simpl. rewrite nthZ_nat, Hs by lia.
    rewrite setZ_nat by assumption.
    rewrite (seg_set_ok 0 i (Some v) (set_stack s rest) sg) by (simpl; assumption || lia).
    destruct s; reflexivity.
Qed.

Theorem storeidx_ok m l v0 i v rest s g sg :
  stack s = v :: rest -> scope_ok l s g -> 0 <= g ->
  nth_error (heap s) (Z.to_nat g) = Some sg -> 0 <= v0 + i < Z.of_nat (length (s_cells sg)) ->
  exec m (IStoreidx l v0 i) s
  = R tt (with_hs s (upd_heap (heap s) (Z.to_nat g) (Z.to_nat (v0 + i)) (Some v)) rest).
Proof.
  intros Hst Hsc Hg Hs Hi. cbv beta iota delta [exec]. unfold bind at 1. unfold pop. rewrite Hst.
  assert (Hg' : (if l then cur_frame else ret 0) (set_stack s rest) = R g (set_stack s rest)).
  { destruct l; simpl in Hsc; [unfold cur_frame; simpl; now rewrite Hsc | subst; reflexivity]. }
  unfold bind at 1. rewrite Hg'.
  unfold bind at 1. unfold get_seg. simpl. rewrite nthZ_nat, Hs by assumption.
  rewrite setZ_nat by assumption.
  rewrite (seg_set_ok g (v0 + i) (Some v) (set_stack s rest) sg) by (simpl; assumption).
  destruct s; reflexivity.
Qed.

Theorem storeref_ok m g i v rest s sg :
  stack s = CRef g i :: v :: rest -> 0 <= g ->
  nth_error (heap s) (Z.to_nat g) = Some sg -> 0 <= i < Z.of_nat (length (s_cells sg)) ->
  exec m IStoreref s
  = R tt (with_hs s (upd_heap (heap s) (Z.to_nat g) (Z.to_nat i) (Some v)) rest).
Proof.
  intros Hst Hg Hs Hi. cbv beta iota delta [exec].
  unfold bind at 1. unfold pop_ref, bind at 1, pop_ty, bind at 1, pop. rewrite Hst. simpl.
  unfold bind at 1. simpl.
  rewrite (seg_set_ok g i (Some v) _ sg) by (simpl; assumption).
  destruct s; reflexivity.
Qed.

(* ---- read / readidx / deref ---- *)

Lemma read_var_ok l i s g sg :
  scope_ok l s g -> 0 <= g -> nth_error (heap s) (Z.to_nat g) = Some sg -> 0 <= i ->
  read_var l i s = match nth_error (s_cells sg) (Z.to_nat i) with
                   | Some c => R c s
                   | None => T T_INVALID_VAR_IDX true s
                   end.
Proof.
  intros Hsc Hg Hs Hi. unfold read_var, bind at 1.
  assert (Hg' : scope_seg l s = R g s).
  { unfold scope_seg. destruct l; simpl in Hsc; [unfold cur_frame; now rewrite Hsc | subst; reflexivity]. }
  rewrite Hg'. unfold bind at 1, get_seg. rewrite nthZ_nat, Hs by assumption.
  rewrite nthZ_nat by assumption. destruct (nth_error (s_cells sg) (Z.to_nat i)); reflexivity.
Qed.

Lemma write_var_ok l i c s g sg :
  scope_ok l s g -> 0 <= g -> nth_error (heap s) (Z.to_nat g) = Some sg ->
  0 <= i < Z.of_nat (length (s_cells sg)) ->
  write_var l i c s = R tt (set_heap s (upd_heap (heap s) (Z.to_nat g) (Z.to_nat i) (Some c))).
Proof.
  intros Hsc Hg Hs Hi. unfold write_var, bind at 1.
  assert (Hg' : scope_seg l s = R g s).
  { unfold scope_seg. destruct l; simpl in Hsc; [unfold cur_frame; now rewrite Hsc | subst; reflexivity]. }
  rewrite Hg'. unfold bind at 1, get_seg. rewrite nthZ_nat, Hs by assumption.
  rewrite setZ_nat by assumption. now apply seg_set_ok with (sg := sg).
Qed.

(* reading a cell that holds a value pushes it and changes nothing in memory *)
Theorem read_set_pure m l ty i s g sg c :
  (ty =? 7) = false -> scope_ok l s g -> 0 <= g ->
  nth_error (heap s) (Z.to_nat g) = Some sg -> 0 <= i ->
  nth_error (s_cells sg) (Z.to_nat i) = Some (Some c) ->
  exec m (IRead l ty i) s = R tt (set_stack s (c :: stack s)).
Proof.
  intros Hty Hsc Hg Hs Hi Hc. cbv beta iota delta [exec]. unfold read_generic. rewrite Hty.
  unfold bind at 1. rewrite (read_var_ok l i s g sg) by assumption. rewrite Hc. reflexivity.
Qed.

(* read_unset_default: a never-written cell reads as 0 / "" (and the default is
   materialised in that very cell) *)
Theorem read_unset_default m l ty i s g sg :
  (ty =? 7) = false -> scope_ok l s g -> 0 <= g ->
  nth_error (heap s) (Z.to_nat g) = Some sg -> 0 <= i ->
  nth_error (s_cells sg) (Z.to_nat i) = Some None ->
  exec m (IRead l ty i) s
  = R tt (with_hs s (upd_heap (heap s) (Z.to_nat g) (Z.to_nat i) (Some (default_cell ty)))
                  (default_cell ty :: stack s)).
Proof.
  intros Hty Hsc Hg Hs Hi Hc. cbv beta iota delta [exec]. unfold read_generic. rewrite Hty.
  unfold bind at 1. rewrite (read_var_ok l i s g sg) by assumption. rewrite Hc.
  assert (Hlt : 0 <= i < Z.of_nat (length (s_cells sg))).
  { split; [assumption|]. assert (Z.to_nat i < length (s_cells sg))%nat by (apply nth_error_Some; congruence). lia. }
  unfold bind at 1. rewrite (write_var_ok l i _ s g sg) by assumption.
  destruct s; reflexivity.
Qed.

(* the faithful readidx: the cell var+idx is read, but when it is unset the
   default is written into cell idx (D15) *)
Theorem readidx_set_pure m l ty v i s g sg c :
  (ty =? 7) = false -> scope_ok l s g -> 0 <= g ->
  nth_error (heap s) (Z.to_nat g) = Some sg -> 0 <= v + i ->
  nth_error (s_cells sg) (Z.to_nat (v + i)) = Some (Some c) ->
  exec m (IReadidx l ty v i) s = R tt (set_stack s (c :: stack s)).
Proof.
  intros Hty Hsc Hg Hs Hi Hc. cbv beta iota delta [exec]. rewrite Hty. unfold read_generic. rewrite Hty.
  unfold bind at 1. rewrite (read_var_ok l (v + i) s g sg) by assumption. rewrite Hc. reflexivity.
Qed.

(* the repaired instruction: write_var(scope, var + idx, value) *)
Definition exec_readidx_fixed (l : bool) (ty v i : Z) : M unit :=
  if ty =? 7 then crashM CrAssert else read_generic l ty (v + i) (v + i).

Theorem readidx_fixed_pure l ty v i s g sg :
  (ty =? 7) = false -> scope_ok l s g -> 0 <= g ->
  nth_error (heap s) (Z.to_nat g) = Some sg -> 0 <= v + i ->
  (forall c, nth_error (s_cells sg) (Z.to_nat (v + i)) = Some (Some c) ->
     exec_readidx_fixed l ty v i s = R tt (set_stack s (c :: stack s))) /\
  (nth_error (s_cells sg) (Z.to_nat (v + i)) = Some None ->
     exec_readidx_fixed l ty v i s
     = R tt (with_hs s (upd_heap (heap s) (Z.to_nat g) (Z.to_nat (v + i)) (Some (default_cell ty)))
                     (default_cell ty :: stack s))).
Proof.
  intros Hty Hsc Hg Hs Hvi. unfold exec_readidx_fixed. rewrite Hty. set (m := mkModule [] [] [] 0 None).
  change (read_generic l ty (v + i) (v + i)) with (exec m (IRead l ty (v + i))).
  split; intros.
  - eapply read_set_pure; eauto.
  - eapply read_unset_default; eauto.
Qed.

(* after the fix commit for D15 the instruction is the repaired one *)
Lemma readidx_is_fixed m l ty v i s : exec m (IReadidx l ty v i) s = exec_readidx_fixed l ty v i s.
Proof. reflexivity. Qed.

(* deref: through a reference (parameters, array elements) *)
Theorem deref_set_pure m ty g i rest s sg c :
  stack s = CRef g i :: rest -> 0 <= g -> nth_error (heap s) (Z.to_nat g) = Some sg -> 0 <= i ->
  nth_error (s_cells sg) (Z.to_nat i) = Some (Some c) ->
  exec m (IDeref ty) s = R tt (set_stack s (c :: rest)).
Proof.
  intros Hst Hg Hs Hi Hc. cbv beta iota delta [exec].
  unfold bind at 1. unfold pop_ref, bind at 1, pop_ty, bind at 1, pop. rewrite Hst. simpl.
  unfold bind at 1. unfold seg_get, bind at 1, get_seg. simpl.
  rewrite nthZ_nat, Hs by assumption. rewrite nthZ_nat, Hc by assumption. simpl.
  destruct s; reflexivity.
Qed.

Theorem deref_unset_default m ty g i rest s sg :
  stack s = CRef g i :: rest -> 0 <= g -> nth_error (heap s) (Z.to_nat g) = Some sg -> 0 <= i ->
  nth_error (s_cells sg) (Z.to_nat i) = Some None ->
  exec m (IDeref ty) s
  = R tt (with_hs s (upd_heap (heap s) (Z.to_nat g) (Z.to_nat i) (Some (default_cell ty)))
                  (default_cell ty :: rest)).
Proof.
  intros Hst Hg Hs Hi Hc. cbv beta iota delta [exec].
  unfold bind at 1. unfold pop_ref, bind at 1, pop_ty, bind at 1, pop. rewrite Hst. simpl.
  unfold bind at 1. unfold seg_get, bind at 1, get_seg. simpl.
  rewrite nthZ_nat, Hs by assumption. rewrite nthZ_nat, Hc by assumption. simpl.
  assert (Hlt : 0 <= i < Z.of_nat (length (s_cells sg))).
  { split; [assumption|]. assert (Z.to_nat i < length (s_cells sg))%nat by (apply nth_error_Some; congruence). lia. }
  unfold bind at 1.
  rewrite (seg_set_ok g i _ _ sg) by (simpl; assumption).
  destruct s; reflexivity.
Qed.

(* pushref / refidx: a reference names the (segment, cell) it was made from *)
Theorem pushrefl_ok m i s g :
  cur s = Some g -> exec m (IPushrefl i) s = R tt (set_stack s (CRef g i :: stack s)).
Proof.
  intro Hc. cbv beta iota delta [exec]. unfold bind, cur_frame. rewrite Hc. reflexivity.
Qed.

Theorem pushrefg_ok m i s : exec m (IPushrefg i) s = R tt (set_stack s (CRef 0 i :: stack s)).
Proof. reflexivity. Qed.

Theorem refidx_ok m g i z rest s :
  stack s = CI z :: CRef g i :: rest ->
  exec m IRefidx s = R tt (set_stack s (CRef g (i + z) :: rest)).
Proof.
  intro Hst. cbv beta iota delta [exec]. unfold bind at 1, pop. rewrite Hst.
  unfold bind at 1. unfold pop_ref, bind at 1, pop_ty, bind at 1, pop. simpl.
  destruct s; reflexivity.
Qed.

(* ---- frame: fresh locals, by-value temporaries, by-reference parameters ---- *)

(* what `frame` does with the popped arguments: parameter k-1 is popped
   first; a reference is stored as it is, any other value is appended to the
   NEW frame as a temporary and the parameter refers to that temporary *)
Fixpoint bind_args (g : Z) (k : nat) (stk : list cell) (cells : list (option cell))
  : option (list (option cell) * list cell) :=
  match k with
  | O => Some (cells, stk)
  | S k' =>
    match stk with
    | [] => None
    | v :: r =>
      match v with
      | CRef _ _ => bind_args g k' r (set_nth cells k' (Some v))
      | _ => bind_args g k' r
               (set_nth (cells ++ [Some v]) k' (Some (CRef g (Z.of_nat (length cells)))))
      end
    end
  end.

Definition frame_loop (g : Z) : nat -> M unit :=
  fix go (k : nat) : M unit :=
    match k with
    | O => ret tt
    | S k' =>
      let idx := Z.of_nat k' in
      do v <- pop;
      (match v with
       | CRef _ _ => seg_set g idx (Some v)
       | _ =>
         do sg <- get_seg g;
         let n := Z.of_nat (length (s_cells sg)) in
         (fun s => match setZ (heap s) g (mkSeg (s_cells sg ++ [Some v]) (s_kind sg)) with
                   | Some h => R tt (set_heap s h)
                   | None => X CrAssert s
                   end);;
         seg_set g idx (Some (CRef g n))
       end);;
      go k'
    end.

Lemma exec_frame_eq m p l :
  exec m (IFrame p l) =
  (do ret_addr <- pop_long;
   do s <- get;
   do g <- alloc_seg (mkSeg (repeat None (Z.to_nat (p + l))) (SFrame (cur s) (pc s) ret_addr (p + l)));
   modify (fun s => set_cur s (Some g));;
   frame_loop g (Z.to_nat p);;
   push 2 (PInt ret_addr)).
Proof. reflexivity. Qed.

Lemma bind_R {A B} (m : M A) (f : A -> M B) s a s' : m s = R a s' -> bind m f s = f a s'.
Proof. intro H. unfold bind. now rewrite H. Qed.

Lemma frame_step_ref g k s H cells kind x y r :
  heap s = H ++ [mkSeg cells kind] -> g = Z.of_nat (length H) -> (k < length cells)%nat ->
  stack s = CRef x y :: r ->
  frame_loop g (S k) s
  = frame_loop g k (with_hs s (H ++ [mkSeg (set_nth cells k (Some (CRef x y))) kind]) r).
Proof.
  intros Hh Hg Hk Hst.
  assert (Hnth : nth_error (heap s) (Z.to_nat g) = Some (mkSeg cells kind)).
  { rewrite Hh, Hg, Nat2Z.id. apply nth_error_app_last. }
  cbn [frame_loop].
  erewrite bind_R by (unfold pop; rewrite Hst; reflexivity).
  erewrite bind_R by (apply seg_set_ok with (sg := mkSeg cells kind); simpl; try assumption; lia).
  f_equal. simpl. unfold upd_heap. rewrite Hnth. simpl.
  rewrite Hh, Hg, !Nat2Z.id, set_nth_app_last. destruct s; reflexivity.
Qed.

Lemma frame_step_val g k s H cells kind v r :
  heap s = H ++ [mkSeg cells kind] -> g = Z.of_nat (length H) -> (k < length cells)%nat ->
  stack s = v :: r -> (cell_ty v =? 7) = false ->
  frame_loop g (S k) s
  = frame_loop g k (with_hs s (H ++ [mkSeg (set_nth (cells ++ [Some v]) k
                                              (Some (CRef g (Z.of_nat (length cells))))) kind]) r).
Proof.
  intros Hh Hg Hk Hst Hty.
  assert (Hnth : nth_error (heap s) (Z.to_nat g) = Some (mkSeg cells kind)).
  { rewrite Hh, Hg, Nat2Z.id. apply nth_error_app_last. }
  assert (Hg0 : 0 <= g) by lia.
  assert (Hlen : 0 <= g < Z.of_nat (length (heap s))) by (rewrite Hh, app_length; simpl; lia).
  assert (Hstep : forall c,
    (do sg <- get_seg g;
     (fun s0 => match setZ (heap s0) g (mkSeg (s_cells sg ++ [c]) (s_kind sg)) with
                | Some h => R tt (set_heap s0 h)
                | None => X CrAssert s0
                end);;
     seg_set g (Z.of_nat k) (Some (CRef g (Z.of_nat (length (s_cells sg)))))) (set_stack s r)
    = R tt (with_hs s (H ++ [mkSeg (set_nth (cells ++ [c]) k
                                      (Some (CRef g (Z.of_nat (length cells))))) kind]) r)).
  { intro c.
    erewrite bind_R by (unfold get_seg; simpl; rewrite nthZ_nat, Hnth by assumption; reflexivity).
    simpl s_cells. simpl s_kind.
    erewrite bind_R by (simpl; rewrite setZ_nat by assumption; reflexivity).
    erewrite seg_set_ok with (sg := mkSeg (cells ++ [c]) kind).
    - f_equal. simpl. unfold upd_heap.
      rewrite Hh, Hg, !Nat2Z.id, set_nth_app_last, nth_error_app_last. simpl.
      rewrite set_nth_app_last. destruct s; reflexivity.
    - assumption.
    - simpl. rewrite Hh, Hg, !Nat2Z.id, set_nth_app_last. apply nth_error_app_last.
    - simpl. rewrite app_length. simpl. lia. }
  cbn [frame_loop].
  erewrite bind_R by (unfold pop; rewrite Hst; reflexivity).
  destruct v; try discriminate Hty; (erewrite bind_R by (apply Hstep)); reflexivity.
Qed.

Lemma with_hs_with_hs s h1 st1 h2 st2 : with_hs (with_hs s h1 st1) h2 st2 = with_hs s h2 st2.
Proof. destruct s; reflexivity. Qed.

Lemma frame_loop_ok g k : forall s H cells kind cells' stk',
  heap s = H ++ [mkSeg cells kind] -> g = Z.of_nat (length H) ->
  (k <= length cells)%nat ->
  bind_args g k (stack s) cells = Some (cells', stk') ->
  frame_loop g k s = R tt (with_hs s (H ++ [mkSeg cells' kind]) stk').
Proof.
  induction k as [|k IH]; intros s H cells kind cells' stk' Hh Hg Hk Hb.
  - simpl in Hb. inversion Hb; subst. simpl. unfold ret, with_hs. rewrite <- Hh. destruct s; reflexivity.
  - simpl in Hb. destruct (stack s) as [|v r] eqn:Hst; [discriminate|].
    destruct (cell_ty v =? 7) eqn:Hty.
    + destruct v; try discriminate Hty.
      rewrite (frame_step_ref g k s H cells kind seg idx r) by (auto; lia).
      rewrite (IH (with_hs s (H ++ [mkSeg (set_nth cells k (Some (CRef seg idx))) kind]) r)
                  H (set_nth cells k (Some (CRef seg idx))) kind cells' stk');
        [ now rewrite with_hs_with_hs | reflexivity | assumption | rewrite set_nth_length; lia | exact Hb ].
    + rewrite (frame_step_val g k s H cells kind v r) by (auto; lia).
      assert (Hb' : bind_args g k r (set_nth (cells ++ [Some v]) k (Some (CRef g (Z.of_nat (length cells)))))
                    = Some (cells', stk')) by (destruct v; try discriminate Hty; exact Hb).
      rewrite (IH (with_hs s (H ++ [mkSeg (set_nth (cells ++ [Some v]) k
                                              (Some (CRef g (Z.of_nat (length cells))))) kind]) r)
                  H (set_nth (cells ++ [Some v]) k (Some (CRef g (Z.of_nat (length cells))))) kind cells' stk');
        [ now rewrite with_hs_with_hs | reflexivity | assumption
        | rewrite set_nth_length, app_length; simpl; lia | exact Hb' ].
Qed.

(* what bind_args produces *)
Lemma bind_args_spec g k : forall stk cells cells' stk',
  bind_args g k stk cells = Some (cells', stk') -> (k <= length cells)%nat ->
  exists vals,
    length vals = k /\ stk = rev vals ++ stk' /\
    (length cells <= length cells')%nat /\
    (forall j, (k <= j < length cells)%nat -> nth_error cells' j = nth_error cells j) /\
    (forall j a, nth_error vals j = Some a ->
       match a with
       | CRef _ _ => nth_error cells' j = Some (Some a)
       | _ => exists n, (length cells <= n)%nat /\
                        nth_error cells' j = Some (Some (CRef g (Z.of_nat n))) /\
                        nth_error cells' n = Some (Some a)
       end).
Proof.
  induction k as [|k IH]; intros stk cells cells' stk' Hb Hk.
  - simpl in Hb. inversion Hb; subst. exists []. repeat split; auto.
    intros j a Hj. destruct j; discriminate.
  - simpl in Hb. destruct stk as [|v r]; [discriminate|].
    set (cells1 := match v with
                   | CRef _ _ => set_nth cells k (Some v)
                   | _ => set_nth (cells ++ [Some v]) k (Some (CRef g (Z.of_nat (length cells))))
                   end).
    assert (Hb1 : bind_args g k r cells1 = Some (cells', stk')) by (destruct v; exact Hb).
    assert (Hl1 : (length cells <= length cells1)%nat).
    { subst cells1. destruct v; rewrite set_nth_length; try rewrite app_length; simpl; lia. }
    destruct (IH r cells1 cells' stk' Hb1) as [vals [Hlen [Hstk [Hle [Hun Hpar]]]]]; [lia|].
    exists (vals ++ [v]). repeat split.
    + rewrite app_length. simpl. lia.
    + rewrite rev_app_distr. simpl. now rewrite Hstk.
    + lia.
    + intros j Hj. rewrite Hun by lia. subst cells1.
      destruct v; rewrite nth_error_set_nth_neq by lia; try reflexivity;
        rewrite nth_error_app1 by lia; reflexivity.
    + intros j a Hj. destruct (Nat.lt_ge_cases j k) as [Hlt|Hge].
      * rewrite nth_error_app1 in Hj by lia. specialize (Hpar j a Hj).
        destruct a; auto; destruct Hpar as [n [A [B C]]]; exists n; repeat split; auto; lia.
      * rewrite nth_error_app2 in Hj by lia. rewrite Hlen in Hj.
        destruct (j - k)%nat as [|d] eqn:Hd; [|destruct d; discriminate].
        simpl in Hj. inversion Hj; subst a. assert (j = k) by lia. subst j.
        assert (Hk' : nth_error cells' k = nth_error cells1 k) by (apply Hun; lia).
        subst cells1.
        destruct v;
          try (exists (length cells); split; [lia|]; split;
               [ rewrite Hk', nth_error_set_nth_eq by (rewrite app_length; simpl; lia); reflexivity
               | rewrite Hun by (rewrite set_nth_length, app_length; simpl; lia);
                 rewrite nth_error_set_nth_neq by lia;
                 rewrite nth_error_app2 by lia; rewrite Nat.sub_diag; reflexivity ]).
        rewrite Hk', nth_error_set_nth_eq by lia. reflexivity.
Qed.

Lemma bind_args_total g k : forall stk cells,
  (k <= length stk)%nat -> exists cells' stk', bind_args g k stk cells = Some (cells', stk').
Proof.
  induction k as [|k IH]; intros stk cells Hk; simpl.
  - eauto.
  - destruct stk as [|v r]; [simpl in Hk; lia|]. simpl in Hk.
    destruct v; apply IH; lia.
Qed.

(* frame_fresh *)
Theorem frame_ok m p l s ret_addr stk cells' stk' :
  stack s = CL ret_addr :: stk -> 0 <= p -> 0 <= l -> in_long ret_addr = true ->
  bind_args (Z.of_nat (length (heap s))) (Z.to_nat p) stk (repeat None (Z.to_nat (p + l)))
    = Some (cells', stk') ->
  exec m (IFrame p l) s
  = R tt (set_cur (with_hs s (heap s ++ [mkSeg cells' (SFrame (cur s) (pc s) ret_addr (p + l))])
                          (CL ret_addr :: stk'))
                  (Some (Z.of_nat (length (heap s))))).
Proof.
  intros Hst Hp Hl Hra Hb. rewrite exec_frame_eq.
  unfold bind at 1. unfold pop_long, bind at 1, pop_ty, bind at 1, pop. rewrite Hst. simpl.
  unfold bind at 1. simpl. unfold bind at 1. unfold alloc_seg. simpl.
  unfold bind at 1. unfold modify. unfold bind at 1.
  rewrite (frame_loop_ok _ _ _ (heap s) (repeat None (Z.to_nat (p + l)))
             (SFrame (cur s) (pc s) ret_addr (p + l)) cells' stk'); auto.
  - unfold push, bind, mk_cell. rewrite Hra. simpl. destruct s; reflexivity.
  - rewrite repeat_length. lia.
Qed.

(* ---- arridx: the machine computes Layout.elem_index ---- *)

Definition pop_longs : nat -> list Z -> M (list Z) :=
  fix go (k : nat) (acc : list Z) : M (list Z) :=
    match k with
    | O => ret acc
    | S k' => do z <- pop_long; go k' (acc ++ [z])
    end.

Definition bounds_loop (g : Z) : list Z -> Z -> list (Z * Z) -> M (list (Z * Z) * Z) :=
  fix go (l : list Z) (b : Z) (acc : list (Z * Z)) : M (list (Z * Z) * Z) :=
    match l with
    | [] => ret (acc, b)
    | i :: r =>
      do cl <- seg_get g b; do lb <- cell_val_Z cl;
      do cu <- seg_get g (b + 1); do ub <- cell_val_Z cu;
      if (i <? lb) || (i >? ub) then trap T_INDEX_OUT_OF_RANGE
      else go r (b + 2) (acc ++ [(lb, ub)])
    end.

Definition idx_loop (es : Z) : list Z -> list (Z * Z) -> list Z -> Z -> Z :=
  fix go (l : list Z) (bs : list (Z * Z)) (ds : list Z) (acc : Z) : Z :=
    match l, bs, ds with
    | i :: l', (lb, _) :: bs', _ :: ds' => go l' bs' ds' (acc + Cpu.prod_list ds' * es * (i - lb))
    | _, _, _ => acc
    end.

Lemma exec_arridx_eq n :
  exec_arridx n =
  (do (g, base) <- pop_ref;
   do idxs <- pop_longs (Z.to_nat n) [];
   do c1 <- seg_get g (base + 1);
   do nd <- cell_val_Z c1;
   (if negb (nd =? n) then trap T_INVALID_DIMENSIONS else ret tt);;
   do c2 <- seg_get g (base + 2);
   do es <- cell_val_Z c2;
   do bl <- bounds_loop g (rev idxs) (base + 3) [];
   let '(bounds, b0) := bl in
   let dims := map (fun '(lb, ub) => ub - lb + 1) bounds in
   push_cell (CRef g (idx_loop es (rev idxs) bounds dims b0))).
Proof. reflexivity. Qed.

Lemma cpu_prod_list l : Cpu.prod_list l = Layout.prod_list l.
Proof. induction l; simpl; congruence. Qed.

Lemma pop_longs_ok l : forall acc s rest,
  stack s = map CL l ++ rest ->
  pop_longs (length l) acc s = R (acc ++ l) (set_stack s rest).
Proof.
  induction l as [|z l IH]; intros acc s rest Hst; simpl in *.
  - unfold ret. rewrite app_nil_r. subst rest. destruct s; reflexivity.
  - erewrite bind_R by (unfold pop_long, pop_ty; erewrite bind_R by (erewrite bind_R by (unfold pop; rewrite Hst; reflexivity); reflexivity); reflexivity).
    rewrite (IH (acc ++ [z]) (set_stack s (map CL l ++ rest)) rest) by reflexivity.
    rewrite <- app_assoc. simpl. try (f_equal; destruct s; reflexivity).
Qed.

Lemma seg_get_ok g i s sg c :
  0 <= g -> nth_error (heap s) (Z.to_nat g) = Some sg -> 0 <= i ->
  nth_error (s_cells sg) (Z.to_nat i) = Some c -> seg_get g i s = R c s.
Proof.
  intros Hg Hs Hi Hc. unfold seg_get.
  erewrite bind_R by (unfold get_seg; rewrite nthZ_nat, Hs by assumption; reflexivity).
  rewrite nthZ_nat, Hc by assumption. reflexivity.
Qed.

(* the header written by initarr* / Array.__init__ at [base] *)
Definition has_header (cells : list (option cell)) (base es : Z) (bs : list (Z * Z)) : Prop :=
  nth_error cells (Z.to_nat (base + 1)) = Some (Some (CL (rank bs))) /\
  nth_error cells (Z.to_nat (base + 2)) = Some (Some (CL es)) /\
  forall k lb ub, nth_error bs k = Some (lb, ub) ->
    nth_error cells (Z.to_nat (base + 3 + 2 * Z.of_nat k)) = Some (Some (CL lb)) /\
    nth_error cells (Z.to_nat (base + 3 + 2 * Z.of_nat k + 1)) = Some (Some (CL ub)).

Lemma bounds_loop_ok g s sg base : 0 <= g -> 0 <= base ->
  nth_error (heap s) (Z.to_nat g) = Some sg ->
  forall bsl l k0 acc num,
  (forall k lb ub, nth_error bsl k = Some (lb, ub) ->
     nth_error (s_cells sg) (Z.to_nat (base + 3 + 2 * (k0 + Z.of_nat k))) = Some (Some (CL lb)) /\
     nth_error (s_cells sg) (Z.to_nat (base + 3 + 2 * (k0 + Z.of_nat k) + 1)) = Some (Some (CL ub))) ->
  0 <= k0 ->
  elem_number bsl l = Some num ->
  bounds_loop g l (base + 3 + 2 * k0) acc s
  = R (acc ++ bsl, base + 3 + 2 * (k0 + Z.of_nat (length bsl))) s.
Proof.
  intros Hg Hb Hs. induction bsl as [|[lb ub] bsl IH]; intros [|i l] k0 acc num Hh Hk Hn; simpl in Hn;
    try discriminate.
  - simpl. unfold ret. rewrite app_nil_r, Z.add_0_r. reflexivity.
  - destruct ((i <? lb) || (i >? ub)) eqn:C; [discriminate|].
    destruct (elem_number bsl l) as [r|] eqn:Er; [|discriminate].
    destruct (Hh 0%nat lb ub eq_refl) as [H1 H2]. rewrite Z.add_0_r in H1, H2.
    cbn [bounds_loop].
    erewrite bind_R by (eapply seg_get_ok; eauto; lia).
    erewrite bind_R by reflexivity.
    erewrite bind_R by (eapply seg_get_ok; eauto; lia).
    erewrite bind_R by reflexivity.
    rewrite C.
    replace (base + 3 + 2 * k0 + 2) with (base + 3 + 2 * (k0 + 1)) by lia.
    rewrite (IH l (k0 + 1) (acc ++ [(lb, ub)]) r); [| | lia | exact Er].
    + rewrite <- app_assoc. simpl app. cbn [length]. rewrite Nat2Z.inj_succ. do 3 f_equal. lia.
    + intros k lb' ub' Hk'. specialize (Hh (S k) lb' ub' Hk').
      replace (k0 + 1 + Z.of_nat k) with (k0 + Z.of_nat (S k)) by lia. exact Hh.
Qed.

Lemma idx_loop_spec es bs : forall l acc,
  idx_loop es l bs (map (fun '(lb, ub) => ub - lb + 1) bs) acc = arridx_acc es l bs acc.
Proof.
  induction bs as [|[lb ub] bs IH]; intros [|i l] acc; simpl; try reflexivity.
  rewrite IH, cpu_prod_list. unfold dims.
  replace (map (fun '(lb0, ub0) => ub0 - lb0 + 1) bs)
    with (map (fun b : Z * Z => snd b - fst b + 1) bs)
    by (apply map_ext; intros [a b]; reflexivity).
  reflexivity.
Qed.

(* arridx_in_segment, machine part: on an array whose header is at [base] of
   segment g, arridx with in-range indices returns the reference
   (g, elem_index base es bounds idxs) *)
Theorem arridx_ok m g base es bs idxs rest s sg c :
  stack s = CRef g base :: map CL (rev idxs) ++ rest ->
  0 <= g -> 0 <= base -> nth_error (heap s) (Z.to_nat g) = Some sg ->
  has_header (s_cells sg) base es bs ->
  elem_index base es bs idxs = Some c ->
  exec m (IArridx (rank bs)) s = R tt (set_stack s (CRef g c :: rest)).
Proof.
  intros Hst Hg Hb Hs [H1 [H2 H3]] He.
  unfold elem_index in He. destruct (elem_number bs idxs) as [num|] eqn:En; [|discriminate].
  inversion He; subst c. pose proof (elem_number_length _ _ _ En) as Hlen.
  change (exec m (IArridx (rank bs))) with (exec_arridx (rank bs)). rewrite exec_arridx_eq.
  erewrite bind_R by (unfold pop_ref, pop_ty; erewrite bind_R by (erewrite bind_R by (unfold pop; rewrite Hst; reflexivity); reflexivity); reflexivity).
  cbv beta iota.
  assert (Hn : Z.to_nat (rank bs) = length (rev idxs)).
  { unfold rank. rewrite Nat2Z.id, rev_length. lia. }
  rewrite Hn.
  erewrite bind_R by (apply pop_longs_ok with (rest := rest); reflexivity).
  simpl app.
  erewrite bind_R by (eapply seg_get_ok; simpl; eauto; lia).
  erewrite bind_R by reflexivity.
  rewrite Z.eqb_refl. simpl negb. cbv iota.
  erewrite bind_R by reflexivity.
  erewrite bind_R by (eapply seg_get_ok; simpl; eauto; lia).
  erewrite bind_R by reflexivity.
  rewrite rev_involutive.
  replace (base + 3) with (base + 3 + 2 * 0) by lia.
  erewrite bind_R.
  2: { eapply (bounds_loop_ok g _ sg base Hg Hb) with (bsl := bs) (k0 := 0); simpl; eauto; try lia;
       try (intros k lb ub Hk; rewrite Z.add_0_l; now apply H3). }
  cbv beta iota zeta. rewrite !app_nil_l.
  rewrite idx_loop_spec. rewrite (arridx_acc_spec _ _ _ _ _ En).
  replace (base + 3 + 2 * (0 + Z.of_nat (length bs)) + num * es)
    with (base + header_size bs + num * es) by (unfold header_size, rank; lia).
  unfold push_cell, upd_stack. destruct s; reflexivity.
Qed.

(* the cell is inside the segment whenever the segment holds the whole array *)
Corollary arridx_in_segment base es bs idxs c n :
  Forall (fun b => fst b <= snd b) bs -> 0 < es -> 0 <= base ->
  elem_index base es bs idxs = Some c ->
  base + header_size bs + array_cells es bs <= n ->
  base + header_size bs <= c /\ c + es <= n.
Proof.
  intros Hb Hes Hbase He Hn. destruct (elem_index_in_array _ _ _ _ _ Hb Hes He). lia.
Qed.

(* a dynamic array lives in its own segment of header_size + heap_array_cells
   cells (allocarr / Array.__init__): every well-formed path into the array
   stays inside that segment *)
Theorem heap_array_paths_in_segment env bs e p o k es :
  denotes env (TArray bs e) p o k -> wf_env env -> wf_ty (TArray bs e) ->
  type_size env e = Some es -> 1 <= es -> bs <> [] ->
  0 <= o < header_size bs + heap_array_cells es bs.
Proof.
  intros D He Hw Hes H1 Hne.
  assert (Hs : type_size env (TArray bs e) = Some (Layout.prod_list (dims bs) * es + header_size bs)).
  { unfold type_size in *. simpl. now rewrite Hes. }
  pose proof (paths_in_object _ _ _ _ _ D He Hw _ Hs) as Hr.
  destruct Hw as [Hb _].
  pose proof (heap_array_cells_ge es bs Hb H1 Hne) as Hge. unfold array_cells in Hge. lia.
Qed.

(* ================================================================== *)
(* 9. witnesses for the two defects of the unchanged tree              *)

(* D14: TYPE r: a, b AS INTEGER / SUB f(p AS r): one argument is pushed, two cells are popped *)
Definition d14_env : renv := [([114], [([97], TBuiltin 1); ([98], TBuiltin 1)])].
Definition d14_params : decls := [([112], TRecord [114])].

Lemma frame_pops_what_callers_push_refuted : exists env ps,
  wf_env env /\ wf_decls ps /\
  params_size env ps <> Some (params_size_fixed ps).
Proof.
  exists d14_env, d14_params. repeat split.
  - repeat constructor.
  - repeat constructor.
  - vm_compute. discriminate.
Qed.


