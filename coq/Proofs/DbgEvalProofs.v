(* Proofs about Models/DbgEval.v (the debugger's expression evaluator) and its
   relation to the machine (Models/Cpu.v), the storage layout (Models/Layout.v,
   Proofs/LayoutProofs.v) and the constant folder (Models/Fold.v,
   Proofs/FoldProofs.v).  Statements used by Props/C13.v. *)
From Coq Require Import ZArith List Bool Lia.
From QV Require Import Sx Strs Fl Cell Machine Cpu Layout Fold LayoutProofs FoldProofs DbgEval.
Import ListNotations.
Open Scope Z_scope.

(* ================================================================== *)
(* 0. induction over expressions (indices are a nested list)           *)

Section DexprInd.
Variable P : dexpr -> Prop.
Hypothesis Hnum : forall ty v, P (ENum ty v).
Hypothesis Hstr : forall s, P (EStr s).
Hypothesis Hlv : forall n idx path, Forall P idx -> P (ELv n idx path).
Hypothesis Hbin : forall op l r, P l -> P r -> P (EBin op l r).
Hypothesis Hun : forall op a, P a -> P (EUn op a).
Hypothesis Hpar : forall a, P a -> P (EParen a).

Fixpoint dexpr_ind' (e : dexpr) : P e :=
  match e with
  | ENum ty v => Hnum ty v
  | EStr s => Hstr s
  | ELv n idx path =>
    Hlv n idx path ((fix go (l : list dexpr) : Forall P l :=
                       match l with
                       | [] => Forall_nil P
                       | x :: r => Forall_cons x (dexpr_ind' x) (go r)
                       end) idx)
  | EBin op l r => Hbin op l r (dexpr_ind' l) (dexpr_ind' r)
  | EUn op a => Hun op a (dexpr_ind' a)
  | EParen a => Hpar a (dexpr_ind' a)
  end.
End DexprInd.

(* ================================================================== *)
(* 1. evaluation only READS the machine: it is a function of the heap  *)
(*    and the current-frame register, and returns no state             *)

Lemma frame_info_ext s s' : heap s = heap s' -> cur s = cur s' -> frame_info s = frame_info s'.
Proof. intros H1 H2. unfold frame_info. rewrite H1, H2. reflexivity. Qed.

Lemma eval_lvalue_ext di s s' n idxr path : heap s = heap s' -> cur s = cur s' ->
  eval_lvalue di s n idxr path = eval_lvalue di s' n idxr path.
Proof.
  intros H1 H2. unfold eval_lvalue. rewrite (frame_info_ext s s' H1 H2), H1. reflexivity.
Qed.

Lemma deval_lv di s n idx path :
  deval di s (ELv n idx path) = eval_lvalue di s n (map (deval di s) idx) path.
Proof. reflexivity. Qed.

Theorem deval_ext di s s' : heap s = heap s' -> cur s = cur s' ->
  forall e, deval di s e = deval di s' e.
Proof.
  intros H1 H2. apply (dexpr_ind' (fun e => deval di s e = deval di s' e)).
  - reflexivity.
  - reflexivity.
  - intros n idx path HF. rewrite !deval_lv.
    rewrite (eval_lvalue_ext di s s') by assumption. f_equal.
    induction HF as [|x r Hx _ IH]; [reflexivity|]. cbn [map]. rewrite Hx, IH. reflexivity.
  - intros op l r Hl Hr. cbn [deval]. rewrite Hl, Hr. reflexivity.
  - intros op a Ha. cbn [deval]. rewrite Ha. reflexivity.
  - intros a Ha. cbn [deval]. exact Ha.
Qed.

Theorem dbg_print_reads_only di s s' e : heap s = heap s' -> cur s = cur s' ->
  dbg_print di s e = dbg_print di s' e.
Proof. intros H1 H2. unfold dbg_print. rewrite (deval_ext di s s' H1 H2). reflexivity. Qed.

(* in particular the operand stack, the program counter, the halt flag, the
   trap state, the devices and the output do not matter *)
Corollary dbg_print_ignores_control di s e :
  dbg_print di s e = dbg_print di (mkSt 0 0 [] (heap s) (cur s) false H_NONE None true TNone false 0 false 0 0 None
                                        Fold.empty_script []) e.
Proof. apply dbg_print_reads_only; reflexivity. Qed.

(* ================================================================== *)
(* 2. names                                                            *)

Definition in_frame (s : st) (g : Z) (sg : seg) (cs : Z) : Prop :=
  cur s = Some g /\ 0 <= g /\ nth_error (heap s) (Z.to_nat g) = Some sg /\
  exists prev ra orig, s_kind sg = SFrame prev cs ra orig.

Lemma frame_info_ok s g sg cs : in_frame s g sg cs -> frame_info s = Ok (g, cs).
Proof.
  intros (Hc & Hg & Hs & prev & ra & orig & Hk). unfold frame_info.
  rewrite Hc, nthZ_nat, Hs, Hk by assumption. reflexivity.
Qed.

Definition not_const (di : dbginfo) (cs : Z) (n : str) : Prop :=
  assoc (r_consts (find_routine di cs)) n = None /\ assoc (d_gconsts di) n = None.

(* the common prefix of eval_lvalue for a name that is not a constant *)
Lemma eval_lvalue_var di s g sg cs n idxr path :
  in_frame s g sg cs -> not_const di cs n ->
  eval_lvalue di s n idxr path =
  match eval_var di (find_routine di cs) g n with
  | EvalErr => XEvalErr | Crash k => XCrash k | Unmod => XUn
  | Ok (g0, i0) =>
    match get_cell (heap s) g0 i0 with
    | EvalErr => XEvalErr | Crash k => XCrash k | Unmod => XUn
    | Ok c0 =>
      match (match c0 with
             | Some (CRef g1 i1) => rdo c1 <- get_cell (heap s) g1 i1; Ok (g1, i1, c1)
             | _ => Ok (g0, i0, c0)
             end) with
      | EvalErr => XEvalErr | Crash k => XCrash k | Unmod => XUn
      | Ok (g1, i1, c1) =>
        match main_type di n with
        | TBuiltin _ =>
          match c1 with
          | None => XEvalErr
          | Some c => xres_of_sval (Ok (cell_sval c))
          end
        | TArray _ elem | TDynArray elem =>
          xres_of_sval (
            rdo ab <- read_array (heap s) (d_env di) elem g1 i1;
            let '(t, bs) := ab in
            if negb (is_nil idxr) then
              rdo vals <- idx_values idxr;
              rdo ints <- idx_ints vals;
              rdo v <- array_at elem t bs ints;
              match path with
              | [] => Ok v
              | _ => match v with SRec _ => get_field v path | _ => EvalErr end
              end
            else
              match path with
              | [] => Ok SObj
              | _ => EvalErr
              end)
        | TRecord m =>
          xres_of_sval (
            rdo v <- read_struct (heap s) (d_env di) m g1 i1;
            if negb (is_nil idxr) then EvalErr else get_field v path)
        end
      end
    end
  end.
Proof.
  intros Hf [Hl Hg]. unfold eval_lvalue. rewrite (frame_info_ok s g sg cs Hf), Hl, Hg. reflexivity.
Qed.

Theorem unknown_name_eval_error di s g sg cs n idx path :
  in_frame s g sg cs -> not_const di cs n ->
  has_key (d_globals di) n = false ->
  local_var_idx (d_env di) (r_params (find_routine di cs)) (r_locals (find_routine di cs)) n = None ->
  dbg_print di s (ELv n idx path) = DEvalError.
Proof.
  intros Hf Hc Hg Hl. unfold dbg_print. rewrite deval_lv, (eval_lvalue_var di s g sg cs) by assumption.
  unfold eval_var. rewrite Hg, Hl. reflexivity.
Qed.

(* evaluation after the program has returned from its main frame (cur_frame
   is None): every variable lookup raises AttributeError out of do_print *)
Theorem no_frame_crashes di s n idx path :
  cur s = None -> dbg_print di s (ELv n idx path) = DCrash K_ATTR.
Proof.
  intro Hc. unfold dbg_print. rewrite deval_lv. unfold eval_lvalue, frame_info. rewrite Hc. reflexivity.
Qed.

(* ================================================================== *)
(* 3. scalars: the debugger returns the content of the cell the        *)
(*    machine's read instruction pushes (same index function)          *)

Lemma get_cell_ok h g i sg c :
  0 <= g -> nth_error h (Z.to_nat g) = Some sg -> 0 <= i ->
  nth_error (s_cells sg) (Z.to_nat i) = Some c -> get_cell h g i = Ok c.
Proof.
  intros Hg Hs Hi Hc. unfold get_cell. rewrite nthZ_nat, Hs by assumption.
  rewrite nthZ_nat, Hc by assumption. reflexivity.
Qed.

Definition pv_of (c : cell) : pyval := Cpu.pv c.

Lemma scalar_value c : (cell_ty c =? 7) = false ->
  dres_of (xres_of_sval (Ok (cell_sval c))) = DVal (pv_of c).
Proof. destruct c; simpl; intro H; try reflexivity; discriminate. Qed.

Theorem local_scalar_agrees di m s g sg cs n k idx c :
  in_frame s g sg cs -> not_const di cs n ->
  main_type di n = TBuiltin k ->
  has_key (d_globals di) n = false ->
  local_var_idx (d_env di) (r_params (find_routine di cs)) (r_locals (find_routine di cs)) n = Some idx ->
  0 <= idx ->
  nth_error (s_cells sg) (Z.to_nat idx) = Some (Some c) ->
  (cell_ty c =? 7) = false ->
  dbg_print di s (ELv n [] []) = DVal (pv_of c) /\
  exec m (IRead true (cell_ty c) idx) s = R tt (set_stack s (c :: stack s)).
Proof.
  intros Hf Hc Ht Hg Hl Hi Hcell Hty. split.
  - unfold dbg_print. rewrite deval_lv, (eval_lvalue_var di s g sg cs) by assumption.
    unfold eval_var. rewrite Hg, Hl.
    destruct Hf as (Hcur & Hg0 & Hs & _).
    rewrite (get_cell_ok (heap s) g idx sg (Some c)) by assumption.
    rewrite Ht.
    destruct c; try discriminate Hty; reflexivity.
  - destruct Hf as (Hcur & Hg0 & Hs & _).
    apply read_set_pure with (g := g) (sg := sg); assumption.
Qed.

Theorem global_scalar_agrees di m s g sg cs sg0 n k idx c :
  in_frame s g sg cs -> not_const di cs n ->
  main_type di n = TBuiltin k ->
  has_key (d_globals di) n = true ->
  global_var_idx (d_env di) (d_globals di) n = Some idx ->
  0 <= idx ->
  nth_error (heap s) 0 = Some sg0 ->
  nth_error (s_cells sg0) (Z.to_nat idx) = Some (Some c) ->
  (cell_ty c =? 7) = false ->
  dbg_print di s (ELv n [] []) = DVal (pv_of c) /\
  exec m (IRead false (cell_ty c) idx) s = R tt (set_stack s (c :: stack s)).
Proof.
  intros Hf Hc Ht Hg Hl Hi Hs0 Hcell Hty. split.
  - unfold dbg_print. rewrite deval_lv, (eval_lvalue_var di s g sg cs) by assumption.
    unfold eval_var. rewrite Hg, Hl.
    rewrite (get_cell_ok (heap s) 0 idx sg0 (Some c)) by (try assumption; lia).
    rewrite Ht.
    destruct c; try discriminate Hty; reflexivity.
  - apply read_set_pure with (g := 0) (sg := sg0); try assumption; try reflexivity; lia.
Qed.

(* parameters: the frame cell holds a reference (to the caller's variable,
   array element, record field, or to a temporary appended to the callee's
   frame for a by-value argument); the debugger follows it once, the generated
   code reads the reference and dereferences it *)
Theorem param_agrees di m s g sg cs n k idx g1 i1 sg1 c :
  in_frame s g sg cs -> not_const di cs n ->
  main_type di n = TBuiltin k ->
  has_key (d_globals di) n = false ->
  local_var_idx (d_env di) (r_params (find_routine di cs)) (r_locals (find_routine di cs)) n = Some idx ->
  0 <= idx ->
  nth_error (s_cells sg) (Z.to_nat idx) = Some (Some (CRef g1 i1)) ->
  0 <= g1 -> nth_error (heap s) (Z.to_nat g1) = Some sg1 -> 0 <= i1 ->
  nth_error (s_cells sg1) (Z.to_nat i1) = Some (Some c) ->
  (cell_ty c =? 7) = false ->
  dbg_print di s (ELv n [] []) = DVal (pv_of c) /\
  exec m (IRead true 7 idx) s = R tt (set_stack s (CRef g1 i1 :: stack s)) /\
  exec m (IDeref (cell_ty c)) (set_stack s (CRef g1 i1 :: stack s)) = R tt (set_stack s (c :: stack s)).
Proof.
  intros Hf Hc Ht Hg Hl Hi Hcell Hg1 Hs1 Hi1 Hc1 Hty. split; [|split].
  - unfold dbg_print. rewrite deval_lv, (eval_lvalue_var di s g sg cs) by assumption.
    unfold eval_var. rewrite Hg, Hl.
    destruct Hf as (Hcur & Hg0 & Hs & _).
    rewrite (get_cell_ok (heap s) g idx sg (Some (CRef g1 i1))) by assumption.
    rewrite (get_cell_ok (heap s) g1 i1 sg1 (Some c)) by assumption.
    cbn [rbind]. rewrite Ht.
    destruct c; try discriminate Hty; reflexivity.
  - destruct Hf as (Hcur & Hg0 & Hs & _).
    cbv beta iota delta [exec]. unfold read_generic. cbn [Z.eqb Pos.eqb].
    unfold bind at 1. rewrite (read_var_ok true idx s g sg) by assumption. rewrite Hcell. reflexivity.
  - destruct Hf as (Hcur & Hg0 & Hs & _).
    rewrite (deref_set_pure m (cell_ty c) g1 i1 (stack s) (set_stack s (CRef g1 i1 :: stack s)) sg1 c);
      try assumption; try reflexivity.
Qed.

(* ================================================================== *)
(* 4. arrays: the nested lists of read_array, indexed by QArray.at,    *)
(*    select the cell the machine's arridx computes (row-major), for   *)
(*    every rank                                                       *)

Lemma read_loop_nth rd stride : forall n b l,
  read_loop rd stride n b = Ok l ->
  length l = n /\
  forall k, (k < n)%nat -> exists x, rd (b + Z.of_nat k * stride) = Ok x /\ nth_error l k = Some x.
Proof.
  induction n as [|n IH]; intros b l H; cbn [read_loop] in H.
  - inversion H; subst. split; [reflexivity|]. intros k Hk. lia.
  - destruct (rd b) as [x| |k0|] eqn:Ex; cbn [rbind] in H; try discriminate.
    destruct (read_loop rd stride n (b + stride)) as [r| |k0|] eqn:Er; cbn [rbind] in H; try discriminate.
    inversion H; subst l. destruct (IH _ _ Er) as [Hlen Hnth]. split; [simpl; congruence|].
    intros [|k] Hk.
    + exists x. split; [|reflexivity]. replace (b + Z.of_nat 0 * stride) with b by lia. exact Ex.
    + destruct (Hnth k ltac:(lia)) as (y & Hy & Hn). exists y. split; [|exact Hn].
      replace (b + Z.of_nat (S k) * stride) with (b + stride + Z.of_nat k * stride) by lia. exact Hy.
Qed.

Lemma in_range_of lb ub i : (i <? lb) || (i >? ub) = false -> lb <= i <= ub.
Proof.
  intro C. apply orb_false_iff in C as [C1 C2]. apply Z.ltb_ge in C1.
  destruct (Z.gtb_spec i ub); [discriminate | lia].
Qed.

(* in-range index tuple: QArray.at returns the leaf read at the row-major offset *)
Lemma read_sub_at leaf es : forall bs base t idxs n,
  bs <> [] ->
  read_sub leaf es bs base = Ok t ->
  elem_number bs idxs = Some n ->
  exists x, leaf (base + n * es) = Ok x /\ arr_at t idxs bs = Ok x.
Proof.
  induction bs as [|[lb ub] bs' IH]; intros base t idxs n Hne Hr He; [congruence|].
  destruct idxs as [|i rest]; [discriminate He|].
  cbn [elem_number] in He.
  destruct ((i <? lb) || (i >? ub)) eqn:C; [discriminate|].
  destruct (elem_number bs' rest) as [r|] eqn:Er; [|discriminate].
  inversion He; subst n; clear He.
  cbn [read_sub] in Hr.
  destruct (read_loop (read_sub leaf es bs') (prod_list (dims bs') * es) (Z.to_nat (ub - lb + 1)) base)
    as [l| |k0|] eqn:El; cbn [rbind] in Hr; try discriminate.
  inversion Hr; subst t; clear Hr.
  destruct (read_loop_nth _ _ _ _ _ El) as [Hlen Hnth].
  pose proof (in_range_of _ _ _ C) as Hrg.
  assert (Hk : (Z.to_nat (i - lb) < Z.to_nat (ub - lb + 1))%nat) by lia.
  destruct (Hnth _ Hk) as (x & Hx & Hn).
  rewrite Z2Nat.id in Hx by lia.
  cbn [arr_at]. rewrite C, Hn.
  destruct bs' as [|b2 bs''].
  - destruct rest as [|i2 rest']; [|discriminate Er].
    cbn [elem_number] in Er. inversion Er; subst r.
    cbn [read_sub] in Hx. exists x. split; [|reflexivity].
    cbn [dims map prod_list] in Hx |- *.
    replace (base + ((i - lb) * 1 + 0) * es) with (base + (i - lb) * (1 * es)) by lia. exact Hx.
  - destruct rest as [|i2 rest']; [destruct b2; discriminate Er|].
    assert (Hne' : b2 :: bs'' <> []) by discriminate.
    destruct (IH _ _ _ _ Hne' Hx Er) as (y & Hy & Ha).
    exists y. split; [|exact Ha].
    replace (base + ((i - lb) * prod_list (dims (b2 :: bs'')) + r) * es)
      with (base + (i - lb) * (prod_list (dims (b2 :: bs'')) * es) + r * es) by lia.
    exact Hy.
Qed.

(* an index outside its bounds (all earlier ones inside): EvalError *)
Lemma read_sub_oor leaf es : forall bs base t idxs,
  bs <> [] ->
  read_sub leaf es bs base = Ok t ->
  length idxs = length bs ->
  elem_number bs idxs = None ->
  arr_at t idxs bs = EvalErr.
Proof.
  induction bs as [|[lb ub] bs' IH]; intros base t idxs Hne Hr Hlen He; [congruence|].
  destruct idxs as [|i rest]; [discriminate Hlen|].
  cbn [elem_number] in He. cbn [arr_at].
  destruct ((i <? lb) || (i >? ub)) eqn:C; [reflexivity|].
  destruct (elem_number bs' rest) as [r|] eqn:Er; [discriminate|].
  cbn [read_sub] in Hr.
  destruct (read_loop (read_sub leaf es bs') (prod_list (dims bs') * es) (Z.to_nat (ub - lb + 1)) base)
    as [l| |k0|] eqn:El; cbn [rbind] in Hr; try discriminate.
  inversion Hr; subst t; clear Hr.
  destruct (read_loop_nth _ _ _ _ _ El) as [_ Hnth].
  pose proof (in_range_of _ _ _ C) as Hrg.
  assert (Hk : (Z.to_nat (i - lb) < Z.to_nat (ub - lb + 1))%nat) by lia.
  destruct (Hnth _ Hk) as (x & Hx & Hn).
  rewrite Hn.
  destruct bs' as [|b2 bs''].
  - destruct rest as [|i2 rest']; [discriminate Er | discriminate Hlen].
  - destruct rest as [|i2 rest']; [discriminate Hlen|].
    assert (Hne' : b2 :: bs'' <> []) by discriminate.
    apply (IH _ _ _ Hne' Hx); [|exact Er]. simpl in Hlen |- *. lia.
Qed.

(* the header at [base] as the debugger reads it *)
Lemma read_bounds_ok h g sg base : 0 <= g -> nth_error h (Z.to_nat g) = Some sg -> 0 <= base ->
  forall bsl k0, 0 <= k0 ->
  (forall k lb ub, nth_error bsl k = Some (lb, ub) ->
     nth_error (s_cells sg) (Z.to_nat (base + 3 + 2 * (k0 + Z.of_nat k))) = Some (Some (CL lb)) /\
     nth_error (s_cells sg) (Z.to_nat (base + 3 + 2 * (k0 + Z.of_nat k) + 1)) = Some (Some (CL ub))) ->
  read_bounds h g (length bsl) (base + 3 + 2 * k0) = Ok bsl.
Proof.
  intros Hg Hs Hb. induction bsl as [|[lb ub] bsl IH]; intros k0 Hk Hh; [reflexivity|].
  destruct (Hh 0%nat lb ub eq_refl) as [H1 H2]. rewrite Z.add_0_r in H1, H2.
  cbn [length read_bounds].
  rewrite (get_cell_ok h g (base + 3 + 2 * k0) sg _ Hg Hs ltac:(lia) H1). cbn [rbind cell_int].
  rewrite (get_cell_ok h g (base + 3 + 2 * k0 + 1) sg _ Hg Hs ltac:(lia) H2). cbn [rbind cell_int].
  replace (base + 3 + 2 * k0 + 2) with (base + 3 + 2 * (k0 + 1)) by lia.
  rewrite (IH (k0 + 1)); [reflexivity | lia |].
  intros k lb' ub' Hk'. specialize (Hh (S k) lb' ub' Hk').
  replace (k0 + 1 + Z.of_nat k) with (k0 + Z.of_nat (S k)) by lia. exact Hh.
Qed.

Definition cell_leaf (h : list seg) (g : Z) : Z -> res atree :=
  fun b => rdo c <- get_cell h g b; Ok (ACell c).

Lemma read_array_ok h env k g sg base es bs t :
  0 <= g -> nth_error h (Z.to_nat g) = Some sg -> 0 <= base ->
  has_header (s_cells sg) base es bs -> bs <> [] ->
  read_sub (cell_leaf h g) es bs (base + header_size bs) = Ok t ->
  read_array h env (TBuiltin k) g base = Ok (t, bs).
Proof.
  intros Hg Hs Hb [H1 [H2 H3]] Hne Ht. unfold read_array.
  rewrite (get_cell_ok h g (base + 1) sg _ Hg Hs ltac:(lia) H1). cbn [rbind cell_int].
  rewrite (get_cell_ok h g (base + 2) sg _ Hg Hs ltac:(lia) H2). cbn [rbind cell_int].
  unfold rank. rewrite Nat2Z.id.
  replace (base + 3) with (base + 3 + 2 * 0) by lia.
  rewrite (read_bounds_ok h g sg base Hg Hs Hb bs 0 ltac:(lia)).
  2: { intros j lb ub Hj. rewrite Z.add_0_l. now apply H3. }
  cbn [rbind]. destruct bs as [|b0 bs']; [congruence|].
  unfold header_size, rank in Ht.
  replace (base + 3 + 2 * 0 + 2 * Z.of_nat (length (b0 :: bs')))
    with (base + (3 + Z.of_nat (length (b0 :: bs')) * 2)) by lia.
  unfold cell_leaf in Ht. rewrite Ht. reflexivity.
Qed.

Definition ilit (z : Z) : dexpr := ENum 2 (PInt z).

Lemma idx_values_lits di s idxs :
  idx_values (map (deval di s) (map ilit idxs)) = Ok (map (fun z => Some (PInt z)) idxs).
Proof.
  induction idxs as [|z r IH]; [reflexivity|].
  cbn [map idx_values]. unfold ilit at 1. cbn [deval]. cbn [py_type_conv Z.eqb Pos.eqb orb].
  cbn [rbind]. rewrite IH. reflexivity.
Qed.

Lemma idx_ints_lits idxs : idx_ints (map (fun z => Some (PInt z)) idxs) = Ok idxs.
Proof.
  induction idxs as [|z r IH]; [reflexivity|].
  cbn [map idx_ints index_of rbind]. rewrite IH. reflexivity.
Qed.

Lemma is_nil_map {A B} (f : A -> B) l : is_nil (map f l) = is_nil l.
Proof. destruct l; reflexivity. Qed.

(* a static array of scalars in the current frame: element access *)
Theorem element_agrees di m s g sg cs n bs0 k base es bs idxs cidx c t :
  in_frame s g sg cs -> not_const di cs n ->
  main_type di n = TArray bs0 (TBuiltin k) ->
  has_key (d_globals di) n = false ->
  local_var_idx (d_env di) (r_params (find_routine di cs)) (r_locals (find_routine di cs)) n = Some base ->
  0 <= base ->
  nth_error (s_cells sg) (Z.to_nat base) = Some None ->
  has_header (s_cells sg) base es bs -> bs <> [] ->
  Forall (fun b => fst b <= snd b) bs -> 0 < es ->
  read_sub (cell_leaf (heap s) g) es bs (base + header_size bs) = Ok t ->
  elem_index base es bs idxs = Some cidx ->
  nth_error (s_cells sg) (Z.to_nat cidx) = Some (Some c) ->
  (cell_ty c =? 7) = false ->
  dbg_print di s (ELv n (map ilit idxs) []) = DVal (pv_of c) /\
  forall s1 rest, heap s1 = heap s -> stack s1 = CRef g base :: map CL (rev idxs) ++ rest ->
    exec m (IArridx (rank bs)) s1 = R tt (set_stack s1 (CRef g cidx :: rest)) /\
    exec m (IDeref (cell_ty c)) (set_stack s1 (CRef g cidx :: rest)) = R tt (set_stack s1 (c :: rest)).
Proof.
  intros Hf Hc Ht Hg Hl Hb Hres Hh Hne Hbs Hes Hrd Hei Hcell Hty.
  pose proof Hf as (Hcur & Hg0 & Hs & _).
  pose proof (elem_index_in_array base es bs idxs cidx Hbs Hes Hei) as [Hlo _].
  assert (Hci : 0 <= cidx) by (unfold header_size, rank in Hlo; lia).
  split.
  - unfold dbg_print. rewrite deval_lv, (eval_lvalue_var di s g sg cs) by assumption.
    unfold eval_var. rewrite Hg, Hl.
    rewrite (get_cell_ok (heap s) g base sg None) by assumption.
    rewrite Ht.
    rewrite (read_array_ok (heap s) (d_env di) k g sg base es bs t) by assumption.
    cbn [rbind].
    unfold elem_index in Hei. destruct (elem_number bs idxs) as [num|] eqn:En; [|discriminate].
    inversion Hei; subst cidx; clear Hei.
    assert (Hidx : is_nil idxs = false).
    { destruct idxs; [|reflexivity]. destruct bs as [|[a b] r]; [congruence | discriminate En]. }
    rewrite !is_nil_map, Hidx. cbn [negb].
    rewrite idx_values_lits. cbn [rbind]. rewrite idx_ints_lits. cbn [rbind].
    unfold array_at. rewrite (elem_number_length _ _ _ En), Nat.eqb_refl. cbn [negb].
    destruct (read_sub_at _ _ _ _ _ _ _ Hne Hrd En) as (x & Hx & Ha).
    rewrite Ha. cbn [rbind].
    unfold cell_leaf in Hx.
    rewrite (get_cell_ok (heap s) g _ sg (Some c) Hg0 Hs Hci Hcell) in Hx.
    cbn [rbind] in Hx. inversion Hx; subst x.
    destruct c; try discriminate Hty; reflexivity.
  - intros s1 rest Hheap Hst. split.
    + apply (arridx_ok m g base es bs idxs rest s1 sg cidx); try assumption. rewrite Hheap. exact Hs.
    + rewrite (deref_set_pure m (cell_ty c) g cidx rest (set_stack s1 (CRef g cidx :: rest)) sg c);
        try assumption; try reflexivity.
      replace (heap (set_stack s1 (CRef g cidx :: rest))) with (heap s1) by (destruct s1; reflexivity).
      rewrite Hheap. exact Hs.
Qed.

(* the debugger's read_array reads EVERY cell of the array; it succeeds when
   the array lies inside its segment *)
Lemma read_loop_total rd stride : forall n b,
  (forall k, (k < n)%nat -> exists x, rd (b + Z.of_nat k * stride) = Ok x) ->
  exists l, read_loop rd stride n b = Ok l.
Proof.
  induction n as [|n IH]; intros b H; [eexists; reflexivity|].
  destruct (H 0%nat ltac:(lia)) as (x & Hx). replace (b + Z.of_nat 0 * stride) with b in Hx by lia.
  destruct (IH (b + stride)) as (l & Hl).
  { intros k Hk. destruct (H (S k) ltac:(lia)) as (y & Hy). exists y.
    replace (b + stride + Z.of_nat k * stride) with (b + Z.of_nat (S k) * stride) by lia. exact Hy. }
  exists (x :: l). cbn [read_loop]. rewrite Hx. cbn [rbind]. rewrite Hl. reflexivity.
Qed.

Lemma read_sub_total h g sg es : 0 <= g -> nth_error h (Z.to_nat g) = Some sg -> 0 < es ->
  forall bs base, Forall (fun b => fst b <= snd b) bs -> 0 <= base ->
  base + prod_list (dims bs) * es <= Z.of_nat (length (s_cells sg)) ->
  exists t, read_sub (cell_leaf h g) es bs base = Ok t.
Proof.
  intros Hg Hs Hes. induction bs as [|[lb ub] bs IH]; intros base Hb H0 Hfit.
  - cbn [read_sub]. unfold cell_leaf. cbn [dims map prod_list] in Hfit.
    destruct (nth_error (s_cells sg) (Z.to_nat base)) as [c|] eqn:E.
    + rewrite (get_cell_ok h g base sg c) by assumption. eexists; reflexivity.
    + apply nth_error_None in E. lia.
  - inversion Hb as [|? ? Hlu Hb']; subst. cbn [fst snd] in Hlu.
    change (dims ((lb, ub) :: bs)) with ((ub - lb + 1) :: dims bs) in Hfit. cbn [prod_list] in Hfit.
    pose proof (prod_dims_pos bs Hb') as Hp.
    cbn [read_sub].
    destruct (read_loop_total (read_sub (cell_leaf h g) es bs) (prod_list (dims bs) * es)
                              (Z.to_nat (ub - lb + 1)) base) as (l & Hl).
    { intros k Hk.
      assert (Hk' : Z.of_nat k + 1 <= ub - lb + 1) by lia.
      assert (Hs' : 0 < prod_list (dims bs) * es) by nia.
      apply IH; [assumption | nia | nia]. }
    rewrite Hl. eexists; reflexivity.
Qed.

(* element access, with the premise "the array lies inside the frame" *)
Theorem element_agrees_in_segment di m s g sg cs n bs0 k base es bs idxs cidx c :
  in_frame s g sg cs -> not_const di cs n ->
  main_type di n = TArray bs0 (TBuiltin k) ->
  has_key (d_globals di) n = false ->
  local_var_idx (d_env di) (r_params (find_routine di cs)) (r_locals (find_routine di cs)) n = Some base ->
  0 <= base ->
  nth_error (s_cells sg) (Z.to_nat base) = Some None ->
  has_header (s_cells sg) base es bs -> bs <> [] ->
  Forall (fun b => fst b <= snd b) bs -> 0 < es ->
  base + header_size bs + array_cells es bs <= Z.of_nat (length (s_cells sg)) ->
  elem_index base es bs idxs = Some cidx ->
  nth_error (s_cells sg) (Z.to_nat cidx) = Some (Some c) ->
  (cell_ty c =? 7) = false ->
  dbg_print di s (ELv n (map ilit idxs) []) = DVal (pv_of c) /\
  forall s1 rest, heap s1 = heap s -> stack s1 = CRef g base :: map CL (rev idxs) ++ rest ->
    exec m (IArridx (rank bs)) s1 = R tt (set_stack s1 (CRef g cidx :: rest)) /\
    exec m (IDeref (cell_ty c)) (set_stack s1 (CRef g cidx :: rest)) = R tt (set_stack s1 (c :: rest)).
Proof.
  intros Hf Hc Ht Hg Hl Hb Hres Hh Hne Hbs Hes Hfit Hei Hcell Hty.
  pose proof Hf as (Hcur & Hg0 & Hs & _).
  destruct (read_sub_total (heap s) g sg es Hg0 Hs Hes bs (base + header_size bs) Hbs) as (t & Ht').
  - unfold header_size, rank. lia.
  - unfold array_cells in Hfit. lia.
  - eapply element_agrees; eauto.
Qed.

(* a never-assigned element: the debugger shows the default the machine's deref materialises *)
Theorem element_unset_default di s g sg cs n bs0 k base es bs idxs cidx t :
  in_frame s g sg cs -> not_const di cs n ->
  main_type di n = TArray bs0 (TBuiltin k) ->
  has_key (d_globals di) n = false ->
  local_var_idx (d_env di) (r_params (find_routine di cs)) (r_locals (find_routine di cs)) n = Some base ->
  0 <= base ->
  nth_error (s_cells sg) (Z.to_nat base) = Some None ->
  has_header (s_cells sg) base es bs -> bs <> [] ->
  Forall (fun b => fst b <= snd b) bs -> 0 < es ->
  read_sub (cell_leaf (heap s) g) es bs (base + header_size bs) = Ok t ->
  elem_index base es bs idxs = Some cidx ->
  nth_error (s_cells sg) (Z.to_nat cidx) = Some None ->
  1 <= k <= 5 ->
  dbg_print di s (ELv n (map ilit idxs) []) = DVal (pv_of (default_cell k)).
Proof.
  intros Hf Hc Ht Hg Hl Hb Hres Hh Hne Hbs Hes Hrd Hei Hcell Hk.
  pose proof Hf as (Hcur & Hg0 & Hs & _).
  pose proof (elem_index_in_array base es bs idxs cidx Hbs Hes Hei) as [Hlo _].
  assert (Hci : 0 <= cidx) by (unfold header_size, rank in Hlo; lia).
  unfold dbg_print. rewrite deval_lv, (eval_lvalue_var di s g sg cs) by assumption.
  unfold eval_var. rewrite Hg, Hl.
  rewrite (get_cell_ok (heap s) g base sg None) by assumption.
  rewrite Ht.
  rewrite (read_array_ok (heap s) (d_env di) k g sg base es bs t) by assumption.
  cbn [rbind].
  unfold elem_index in Hei. destruct (elem_number bs idxs) as [num|] eqn:En; [|discriminate].
  inversion Hei; subst cidx; clear Hei.
  assert (Hidx : is_nil idxs = false).
  { destruct idxs; [|reflexivity]. destruct bs as [|[a b] r]; [congruence | discriminate En]. }
  rewrite !is_nil_map, Hidx. cbn [negb].
  rewrite idx_values_lits. cbn [rbind]. rewrite idx_ints_lits. cbn [rbind].
  unfold array_at. rewrite (elem_number_length _ _ _ En), Nat.eqb_refl. cbn [negb].
  destruct (read_sub_at _ _ _ _ _ _ _ Hne Hrd En) as (x & Hx & Ha).
  rewrite Ha. cbn [rbind].
  unfold cell_leaf in Hx.
  rewrite (get_cell_ok (heap s) g _ sg None Hg0 Hs Hci Hcell) in Hx.
  cbn [rbind] in Hx. inversion Hx; subst x.
  assert (Hk' : k = 1 \/ k = 2 \/ k = 3 \/ k = 4 \/ k = 5) by lia.
  destruct Hk' as [-> | [-> | [-> | [-> | ->]]]]; reflexivity.
Qed.

(* wrong number of subscripts, or a subscript outside lbound..ubound: EvalError *)
Theorem out_of_range_eval_error di s g sg cs n bs0 k base es bs idxs t :
  in_frame s g sg cs -> not_const di cs n ->
  main_type di n = TArray bs0 (TBuiltin k) ->
  has_key (d_globals di) n = false ->
  local_var_idx (d_env di) (r_params (find_routine di cs)) (r_locals (find_routine di cs)) n = Some base ->
  0 <= base ->
  nth_error (s_cells sg) (Z.to_nat base) = Some None ->
  has_header (s_cells sg) base es bs -> bs <> [] ->
  read_sub (cell_leaf (heap s) g) es bs (base + header_size bs) = Ok t ->
  idxs <> [] ->
  elem_number bs idxs = None ->
  dbg_print di s (ELv n (map ilit idxs) []) = DEvalError.
Proof.
  intros Hf Hc Ht Hg Hl Hb Hres Hh Hne Hrd Hidx En.
  pose proof Hf as (Hcur & Hg0 & Hs & _).
  unfold dbg_print. rewrite deval_lv, (eval_lvalue_var di s g sg cs) by assumption.
  unfold eval_var. rewrite Hg, Hl.
  rewrite (get_cell_ok (heap s) g base sg None) by assumption.
  rewrite Ht.
  rewrite (read_array_ok (heap s) (d_env di) k g sg base es bs t) by assumption.
  cbn [rbind].
  assert (Hn : is_nil idxs = false) by (destruct idxs; [congruence | reflexivity]).
  rewrite !is_nil_map, Hn. cbn [negb].
  rewrite idx_values_lits. cbn [rbind]. rewrite idx_ints_lits. cbn [rbind].
  unfold array_at.
  destruct (Nat.eqb (length idxs) (length bs)) eqn:El; cbn [negb]; [|reflexivity].
  apply Nat.eqb_eq in El.
  rewrite (read_sub_oor _ _ _ _ _ _ Hne Hrd El En). reflexivity.
Qed.

(* ================================================================== *)
(* 5. arithmetic: over numeric leaves that hold a value of their       *)
(*    static type, the debugger computes exactly what the compiler's   *)
(*    constant folder computes on the values read                      *)

Section FoldTie.
Variable di : dbginfo.
Variable s : st.
Variable rho : str -> Z * pyval.      (* static type and value of each variable *)

Definition good_var (n : str) : Prop :=
  lv_type di n false [] = Some (fst (rho n)) /\
  is_num (fst (rho n)) = true /\
  eval_lvalue di s n [] [] = XV (snd (rho n)) /\
  py_type_conv (fst (rho n)) (snd (rho n)) = FVal (snd (rho n)).

Fixpoint to_c (e : dexpr) : cexpr :=
  match e with
  | ENum ty v => CNum ty v
  | EStr t => CStrLit t
  | ELv n _ _ => CNum (fst (rho n)) (snd (rho n))
  | EBin op l r => CBin op (to_c l) (to_c r)
  | EUn op a => CUn op (to_c a)
  | EParen a => CParen (to_c a)
  end.

Fixpoint num_expr (e : dexpr) : Prop :=
  match e with
  | ENum ty _ => is_num ty = true
  | EStr _ => False
  | ELv n idx path => idx = [] /\ path = [] /\ good_var n
  | EBin _ l r => num_expr l /\ num_expr r
  | EUn _ a => num_expr a
  | EParen a => num_expr a
  end.

Lemma is_num_not6 t : is_num t = true -> (t =? 6) = false.
Proof. intro H. destruct (is_num_cases t H) as [-> | [-> | [-> | ->]]]; reflexivity. Qed.

Lemma bin_type_num op lt rt : is_num lt = true -> is_num rt = true -> is_num (bin_type op lt rt) = true.
Proof.
  intros Hl Hr.
  destruct (is_num_cases lt Hl) as [-> | [-> | [-> | ->]]];
  destruct (is_num_cases rt Hr) as [-> | [-> | [-> | ->]]]; destruct op; reflexivity.
Qed.

Lemma un_type_num op t : is_num t = true -> is_num (un_type op t) = true.
Proof.
  intro H. destruct (is_num_cases t H) as [-> | [-> | [-> | ->]]]; destruct op; reflexivity.
Qed.

Lemma dbin_type_num op lt rt : is_num lt = true -> is_num rt = true -> dbin_type op lt rt = bin_type op lt rt.
Proof. intros Hl Hr. unfold dbin_type. rewrite (is_num_not6 lt Hl), (is_num_not6 rt Hr). reflexivity. Qed.

Theorem deval_is_fold : forall e, num_expr e ->
  dtype di e = Some (static_type (to_c e)) /\
  is_num (static_type (to_c e)) = true /\
  deval di s e = XF (fold_eval (to_c e)).
Proof.
  induction e as [ty v | t | n idx path | op l IHl r IHr | op a IHa | a IHa]; cbn [num_expr]; intro H.
  - repeat split; try assumption; reflexivity.
  - contradiction.
  - destruct H as (-> & -> & (Ht & Hn & Hv & Hc)).
    repeat split; [exact Ht | exact Hn |].
    rewrite deval_lv. cbn [map]. rewrite Hv. cbn [to_c fold_eval]. rewrite Hc. reflexivity.
  - destruct H as [H1 H2]. destruct (IHl H1) as (Tl & Nl & El). destruct (IHr H2) as (Tr & Nr & Er).
    cbn [dtype to_c static_type]. rewrite Tl, Tr.
    rewrite (dbin_type_num op _ _ Nl Nr).
    repeat split; [apply bin_type_num; assumption|].
    cbn [deval fold_eval]. rewrite Tl, Tr, Nl, Nr. cbn [andb].
    rewrite (dbin_type_num op _ _ Nl Nr), El, Er. cbn [xbind].
    destruct (coerce_res (bin_type op (static_type (to_c l)) (static_type (to_c r))) (fold_eval (to_c l)));
      cbn [vbind fbind xbind]; try reflexivity.
    destruct (coerce_res (bin_type op (static_type (to_c l)) (static_type (to_c r))) (fold_eval (to_c r)));
      cbn [vbind fbind]; reflexivity.
  - destruct (IHa H) as (Ta & Na & Ea).
    cbn [dtype to_c static_type]. rewrite Ta. cbn [option_map].
    repeat split; [apply un_type_num; assumption|].
    cbn [deval fold_eval]. rewrite Ta, Na, Ea. reflexivity.
  - destruct (IHa H) as (Ta & Na & Ea). cbn [dtype to_c static_type deval fold_eval]. auto.
Qed.

Corollary dbg_print_is_fold e : num_expr e -> dbg_print di s e = dres_of (XF (fold_eval (to_c e))).
Proof. intro H. unfold dbg_print. destruct (deval_is_fold e H) as (_ & _ & ->). reflexivity. Qed.

End FoldTie.

(* a scalar INTEGER local variable holding z is a good leaf *)
Lemma int_local_good di s g sg cs rho n idx z :
  in_frame s g sg cs -> not_const di cs n ->
  main_type di n = TBuiltin 1 ->
  has_key (d_globals di) n = false ->
  local_var_idx (d_env di) (r_params (find_routine di cs)) (r_locals (find_routine di cs)) n = Some idx ->
  0 <= idx ->
  nth_error (s_cells sg) (Z.to_nat idx) = Some (Some (CI z)) ->
  rho n = (1, PInt z) ->
  good_var di s rho n.
Proof.
  intros Hf Hc Ht Hg Hl Hi Hcell Hr. unfold good_var. rewrite Hr. cbn [fst snd].
  repeat split.
  - unfold lv_type. rewrite Ht. reflexivity.
  - rewrite (eval_lvalue_var di s g sg cs) by assumption.
    unfold eval_var. rewrite Hg, Hl.
    destruct Hf as (Hcur & Hg0 & Hs & _).
    rewrite (get_cell_ok (heap s) g idx sg (Some (CI z))) by assumption.
    rewrite Ht. reflexivity.
Qed.

Local Opaque wrap.

(* the folder's value on two INTEGER operands is an int *)
Lemma fold_eval_int_shape op a b v : In op int_ops ->
  fold_eval (CBin op (CNum 1 (PInt a)) (CNum 1 (PInt b))) = FVal v -> exists x, v = PInt x.
Proof.
  intros Hop.
  destruct op; cbn in Hop; try (exfalso; intuition discriminate); clear Hop;
    cbn -[wrap Z.land Z.lor Z.lxor Z.lnot Z.modulo Z.div Z.mul Z.add Z.sub];
    repeat match goal with |- context [if ?c then _ else _] => destruct c end;
    intro H; inversion H; eauto.
Qed.

(* INTEGER x INTEGER, the 16 operators for which the folder is proved sound
   (FoldProofs.fold_sound_int): what the debugger prints is what the program
   computes *)
Theorem int_binop_agrees di m s g sg cs rho x y ix iy op a b :
  In op int_ops ->
  in_frame s g sg cs -> not_const di cs x -> not_const di cs y ->
  main_type di x = TBuiltin 1 -> main_type di y = TBuiltin 1 ->
  has_key (d_globals di) x = false -> has_key (d_globals di) y = false ->
  local_var_idx (d_env di) (r_params (find_routine di cs)) (r_locals (find_routine di cs)) x = Some ix ->
  local_var_idx (d_env di) (r_params (find_routine di cs)) (r_locals (find_routine di cs)) y = Some iy ->
  0 <= ix -> 0 <= iy ->
  nth_error (s_cells sg) (Z.to_nat ix) = Some (Some (CI a)) ->
  nth_error (s_cells sg) (Z.to_nat iy) = Some (Some (CI b)) ->
  in_int a = true -> in_int b = true ->
  rho x = (1, PInt a) -> rho y = (1, PInt b) ->
  let e := EBin op (ELv x [] []) (ELv y [] []) in
  let c := CBin op (CNum 1 (PInt a)) (CNum 1 (PInt b)) in
  (* the debugger = the folder on the values read *)
  dbg_print di s e = dres_of (XF (fold_eval c)) /\
  (* the variable reads push the cells the literal pushes of [c] push *)
  (exists i j, push_lit 1 (PInt a) = CgOk [i] /\ push_lit 1 (PInt b) = CgOk [j] /\
     (forall s1, heap s1 = heap s -> cur s1 = cur s -> exec m (IRead true 1 ix) s1 = exec m i s1) /\
     (forall s1, heap s1 = heap s -> cur s1 = cur s -> exec m (IRead true 1 iy) s1 = exec m j s1)) /\
  (* hence a printed value is the cell the program computes *)
  (forall v, dbg_print di s e = DVal v -> exists cell, rt_eval c = RVal cell /\ pv_of cell = v).
Proof.
  intros Hop Hf Hcx Hcy Htx Hty Hgx Hgy Hlx Hly Hix Hiy Hca Hcb Ha Hb Hrx Hry e c.
  assert (Gx : good_var di s rho x) by (eapply int_local_good; eauto).
  assert (Gy : good_var di s rho y) by (eapply int_local_good; eauto).
  assert (Hnum : num_expr di s rho e) by (unfold e; cbn [num_expr]; split; (split; [reflexivity | split; [reflexivity | assumption]])).
  assert (Hc : to_c rho e = c) by (unfold e, c; cbn [to_c]; rewrite Hrx, Hry; reflexivity).
  assert (Hd : dbg_print di s e = dres_of (XF (fold_eval c))) by (rewrite <- Hc; apply dbg_print_is_fold; exact Hnum).
  split; [exact Hd|]. split.
  - destruct (exec_lit_int m 1 a (or_introl eq_refl) Ha) as (i & Pi & Ei).
    destruct (exec_lit_int m 1 b (or_introl eq_refl) Hb) as (j & Pj & Ej).
    exists i, j. split; [exact Pi|]. split; [exact Pj|].
    destruct Hf as (Hcur & Hg0 & Hs & _).
    split; intros s1 Hh1 Hc1.
    + rewrite Ei. change 1 with (cell_ty (CI a)) at 1.
      rewrite (read_set_pure m true (cell_ty (CI a)) ix s1 g sg (CI a)); try assumption; try reflexivity.
      * simpl. rewrite Hc1. exact Hcur.
      * rewrite Hh1. exact Hs.
    + rewrite Ej. change 1 with (cell_ty (CI b)) at 1.
      rewrite (read_set_pure m true (cell_ty (CI b)) iy s1 g sg (CI b)); try assumption; try reflexivity.
      * simpl. rewrite Hc1. exact Hcur.
      * rewrite Hh1. exact Hs.
  - intros v Hv. rewrite Hd in Hv.
    destruct (fold_eval c) as [v0| | | |k0|] eqn:Ef; cbn [dres_of] in Hv; try discriminate.
    2: { destruct k0; discriminate. }
    inversion Hv; subst v0; clear Hv.
    destruct (fold_eval_int_shape op a b v Hop Ef) as (z & ->).
    destruct (fold_sound_int op a b Hop Ha Hb) as (S1 & _ & _).
    assert (Hs : static_type c = 1 \/ static_type c = 2).
    { unfold c. cbn [static_type]. destruct op; cbn in Hop; try (exfalso; intuition discriminate); auto. }
    assert (Hfold : fold c = Folded (static_type c) (PInt z)).
    { unfold fold. fold c in Ef. rewrite Ef. destruct Hs as [-> | ->]; reflexivity. }
    destruct (S1 _ _ Hfold) as (cell & Hcv & Hrt).
    exists cell. split; [exact Hrt|].
    destruct Hs as [Hs | Hs]; rewrite Hs in Hcv; cbn in Hcv; inversion Hcv; reflexivity.
Qed.

(* ================================================================== *)
(* 7. record fields: read_struct + get_field return the cell at        *)
(*    base + memlayout.get_dotted_index, the operand of readidx        *)

(* the type of the field a path of names ends in (Lvalue.type on records) *)
Fixpoint dotted_type (env : renv) (t : ty) (path : list str) : option ty :=
  match path with
  | [] => Some t
  | f :: rest =>
    match t with
    | TRecord n =>
      match lookup_rec env n with
      | None => None
      | Some (fs, env') =>
        match field_offset env' fs f 0 with
        | None => None
        | Some (_, ft) => dotted_type env' ft rest
        end
      end
    | _ => None
    end
  end.

Definition cell_or_default (ft : ty) (c : option cell) : sval :=
  match c with Some c' => cell_sval c' | None => SV (default_val ft) end.

(* the value the debugger holds for a field of type ft stored at cell i *)
Definition field_val (h : list seg) (env : renv) (g : Z) (ft : ty) (i : Z) : res sval :=
  match ft with
  | TRecord m => read_struct h env m g i
  | _ => rdo c <- get_cell h g i; Ok (cell_or_default ft c)
  end.

Lemma field_offset_shift env f : forall fs a d,
  field_offset env fs f (a + d) =
  match field_offset env fs f a with Some (o, t) => Some (o + d, t) | None => None end.
Proof.
  induction fs as [|[f0 t0] fs IH]; intros a d; [reflexivity|].
  cbn [field_offset]. destruct (str_eqb f f0); [reflexivity|].
  destruct (type_size env t0) as [sz|]; [|reflexivity].
  replace (a + d + sz) with (a + sz + d) by lia. apply IH.
Qed.

Lemma read_fields_assoc h env g : forall fs idx l,
  read_fields h (fun m i => read_struct h env m g i) (type_size env) g fs idx = Ok l ->
  forall f off ft, field_offset env fs f idx = Some (off, ft) ->
  exists v, assoc l f = Some v /\ field_val h env g ft off = Ok v.
Proof.
  induction fs as [|[f0 t0] fs IH]; intros idx l Hr f off ft Ho; [discriminate Ho|].
  cbn [read_fields] in Hr. cbn [field_offset] in Ho.
  assert (Hfv : (match t0 with
                 | TRecord m => read_struct h env m g idx
                 | _ => rdo c <- get_cell h g idx;
                        Ok (match c with Some c' => cell_sval c' | None => SV (default_val t0) end)
                 end) = field_val h env g t0 idx) by (destruct t0; reflexivity).
  rewrite Hfv in Hr.
  destruct (field_val h env g t0 idx) as [v0| |k0|] eqn:Ev; cbn [rbind] in Hr; try discriminate.
  destruct (type_size env t0) as [sz|] eqn:Es; [|discriminate].
  destruct (read_fields h (fun m i => read_struct h env m g i) (type_size env) g fs (idx + sz))
    as [rest| |k0|] eqn:Er; cbn [rbind] in Hr; try discriminate.
  inversion Hr; subst l; clear Hr.
  cbn [assoc].
  destruct (str_eqb f f0) eqn:Ef.
  - inversion Ho; subst off ft. exists v0. split; [reflexivity | exact Ev].
  - exact (IH _ _ Er f off ft Ho).
Qed.

Lemma read_struct_is_rec h g : forall env n base v,
  read_struct h env n g base = Ok v -> exists l, v = SRec l.
Proof.
  induction env as [|[n0 fs] env' IH]; intros n base v Hr; [discriminate Hr|].
  cbn [read_struct] in Hr. destruct (str_eqb n n0).
  - destruct (read_fields h (fun m i => read_struct h env' m g i) (type_size env') g fs base)
      as [l| |k0|]; cbn [rbind] in Hr; try discriminate.
    inversion Hr. eauto.
  - eauto.
Qed.

Theorem read_struct_path h g : forall env n base v,
  read_struct h env n g base = Ok v ->
  forall path off ft, path <> [] ->
  dotted_index env (TRecord n) path = Some off ->
  dotted_type env (TRecord n) path = Some ft ->
  (forall m, ft <> TRecord m) ->
  exists c, get_cell h g (base + off) = Ok c /\ get_field v path = Ok (cell_or_default ft c).
Proof.
  induction env as [|[n0 fs] env' IH]; intros n base v Hr path off ft Hne Hd Hp Hft; [discriminate Hr|].
  destruct path as [|f rest]; [congruence|].
  cbn [read_struct] in Hr.
  cbn [dotted_index user_type_name lookup_rec] in Hd.
  cbn [dotted_type lookup_rec] in Hp.
  destruct (str_eqb n n0) eqn:En.
  - destruct (read_fields h (fun m i => read_struct h env' m g i) (type_size env') g fs base)
      as [l| |k0|] eqn:El; cbn [rbind] in Hr; try discriminate.
    inversion Hr; subst v; clear Hr.
    destruct (field_offset env' fs f 0) as [[o ft0]|] eqn:Eo; [|discriminate Hd].
    destruct (dotted_index env' ft0 rest) as [o'|] eqn:Ed; [|discriminate Hd].
    inversion Hd; subst off; clear Hd.
    assert (Eo' : field_offset env' fs f base = Some (base + o, ft0)).
    { replace base with (0 + base) at 1 by lia. rewrite field_offset_shift, Eo. f_equal. f_equal. lia. }
    destruct (read_fields_assoc h env' g fs base l El f (base + o) ft0 Eo') as (vf & Ha & Hv).
    cbn [get_field]. rewrite Ha.
    destruct rest as [|f2 r2].
    + cbn [dotted_index] in Ed. inversion Ed; subst o'.
      cbn [dotted_type] in Hp. inversion Hp; subst ft0.
      unfold field_val in Hv.
      destruct ft as [k|m|bs e|e]; try (exfalso; eapply Hft; reflexivity).
      all: destruct (get_cell h g (base + o)) as [c| |k0|] eqn:Ec; cbn [rbind] in Hv; try discriminate;
        inversion Hv; subst vf; exists c; (split; [replace (base + (o + 0)) with (base + o) by lia; exact Ec | reflexivity]).
    + destruct ft0 as [k|m|bs e|e]; try discriminate Hp.
      cbn [field_val] in Hv.
      destruct (read_struct_is_rec h g env' m (base + o) vf Hv) as (l2 & ->).
      assert (Hne2 : f2 :: r2 <> []) by discriminate.
      destruct (IH m (base + o) (SRec l2) Hv (f2 :: r2) o' ft Hne2 Ed Hp Hft) as (c & Hc & Hg).
      exists c. split; [replace (base + (o + o')) with (base + o + o') by lia; exact Hc | exact Hg].
  - change (dotted_index env' (TRecord n) (f :: rest) = Some off) in Hd.
    change (dotted_type env' (TRecord n) (f :: rest) = Some ft) in Hp.
    exact (IH n base v Hr (f :: rest) off ft Hne Hd Hp Hft).
Qed.

(* a field path of a record variable of the current frame *)
Theorem field_agrees di m s g sg cs n rn base path off ft c0 c v :
  in_frame s g sg cs -> not_const di cs n ->
  main_type di n = TRecord rn ->
  has_key (d_globals di) n = false ->
  local_var_idx (d_env di) (r_params (find_routine di cs)) (r_locals (find_routine di cs)) n = Some base ->
  0 <= base ->
  nth_error (s_cells sg) (Z.to_nat base) = Some c0 ->
  (forall g1 i1, c0 <> Some (CRef g1 i1)) ->
  read_struct (heap s) (d_env di) rn g base = Ok v ->
  path <> [] ->
  dotted_index (d_env di) (TRecord rn) path = Some off ->
  dotted_type (d_env di) (TRecord rn) path = Some ft ->
  (forall m0, ft <> TRecord m0) ->
  0 <= base + off ->
  nth_error (s_cells sg) (Z.to_nat (base + off)) = Some (Some c) ->
  (cell_ty c =? 7) = false ->
  dbg_print di s (ELv n [] path) = DVal (pv_of c) /\
  exec m (IReadidx true (cell_ty c) base off) s = R tt (set_stack s (c :: stack s)).
Proof.
  intros Hf Hc Ht Hg Hl Hb Hc0 Hnr Hrs Hne Hd Hp Hft Hbo Hcell Hty.
  pose proof Hf as (Hcur & Hg0 & Hs & _).
  split.
  - unfold dbg_print. rewrite deval_lv, (eval_lvalue_var di s g sg cs) by assumption.
    unfold eval_var. rewrite Hg, Hl.
    rewrite (get_cell_ok (heap s) g base sg c0) by assumption.
    assert (Hfol : (match c0 with
                    | Some (CRef g1 i1) => rdo c1 <- get_cell (heap s) g1 i1; Ok (g1, i1, c1)
                    | _ => Ok (g, base, c0)
                    end) = Ok (g, base, c0)).
    { destruct c0 as [[ | | | | |g1 i1]|]; try reflexivity. exfalso. eapply Hnr. reflexivity. }
    rewrite Hfol. rewrite Ht. cbn [map is_nil negb]. rewrite Hrs. cbn [rbind].
    destruct (read_struct_path (heap s) g (d_env di) rn base v Hrs path off ft Hne Hd Hp Hft) as (cc & Hcc & Hgf).
    rewrite Hgf.
    rewrite (get_cell_ok (heap s) g (base + off) sg (Some c) Hg0 Hs Hbo Hcell) in Hcc.
    inversion Hcc; subst cc. cbn [cell_or_default].
    destruct c; try discriminate Hty; reflexivity.
  - apply readidx_set_pure with (g := g) (sg := sg); assumption.
Qed.

(* ================================================================== *)
(* 6. a concrete stopped program (non-vacuity and refutations)         *)

(* TYPE pt: x AS INTEGER, y AS LONG.   DIM SHARED g%.   CONST c% = 7.
   main:  a%, b%, u!, v!, arr(1 TO 2, 0 TO 1) AS LONG, p AS pt
   SUB (code 100..200) with parameter q% (by reference to a%), locals lq AS pt, w AS DOUBLE,
   and STATIC st% (globals cell 1, not in the debugger's global_vars) *)
Definition n_a : str := [97; 37].       Definition n_b : str := [98; 37].
Definition n_u : str := [117; 33].      Definition n_v : str := [118; 33].
Definition n_arr : str := [97; 114; 114].  Definition n_p : str := [112].
Definition n_g : str := [103; 37].      Definition n_q : str := [113; 37].
Definition n_lq : str := [108; 113].    Definition n_w : str := [119].
Definition n_c : str := [99; 37].       Definition n_st : str := [115; 116; 37].
Definition n_x : str := [120].          Definition n_y : str := [121].
Definition n_pt : str := [112; 116].

Definition ex_env : renv := [(n_pt, [(n_x, TBuiltin 1); (n_y, TBuiltin 2)])].
Definition ex_main : routine :=
  mkRoutine 0 0 []
    [(n_a, TBuiltin 1); (n_b, TBuiltin 1); (n_u, TBuiltin 3); (n_v, TBuiltin 3);
     (n_arr, TArray [(1, 2); (0, 1)] (TBuiltin 2)); (n_p, TRecord n_pt)] [].
Definition ex_sub : routine :=
  mkRoutine 100 200 [(n_q, TBuiltin 1)] [(n_lq, TRecord n_pt); (n_w, TBuiltin 4)] [].
Definition ex_di : dbginfo :=
  mkDI ex_env [(n_g, TBuiltin 1)] [(n_c, Some (PInt 7))] ex_main [ex_sub].

Definition f15 : fl := FFin false 3 (-1).
Definition ex_globals : seg := mkSeg [Some (CI 11); Some (CI 5)] SGlobals.
Definition ex_mainframe : seg :=
  mkSeg [Some (CI 3); Some (CI 4); Some (CS f15); Some (CS f_1_6);
         None; Some (CL 2); Some (CL 1); Some (CL 1); Some (CL 2); Some (CL 0); Some (CL 1);
         Some (CL 10); Some (CL 11); Some (CL 20); None;
         Some (CI 8); Some (CL 9)] (SFrame None 10 0 17).
Definition ex_subframe : seg :=
  mkSeg [Some (CRef 1 0); Some (CI 40); Some (CL 41); Some (CD f_0_1)] (SFrame (Some 1) 105 50 4).
Definition ex_state (c : option Z) : st :=
  mkSt 60 0 [] [ex_globals; ex_mainframe; ex_subframe] c false H_NONE None true TNone false 0 false 0 0 None
       Fold.empty_script [].
Definition in_main : st := ex_state (Some 1).
Definition in_sub : st := ex_state (Some 2).
Definition finished : st := ex_state None.

Definition lv (n : str) : dexpr := ELv n [] [].

(* what works *)
Example ex_values :
  dbg_print ex_di in_main (lv n_a) = DVal (PInt 3) /\
  dbg_print ex_di in_main (lv n_g) = DVal (PInt 11) /\
  dbg_print ex_di in_main (lv n_c) = DVal (PInt 7) /\
  dbg_print ex_di in_main (ELv n_arr [ilit 2; ilit 0] []) = DVal (PInt 20) /\
  dbg_print ex_di in_main (ELv n_arr [ilit 2; ilit 1] []) = DVal (PInt 0) /\
  dbg_print ex_di in_main (ELv n_arr [ilit 3; ilit 0] []) = DEvalError /\
  dbg_print ex_di in_main (ELv n_arr [ilit 1] []) = DEvalError /\
  dbg_print ex_di in_main (ELv n_p [] [n_y]) = DVal (PInt 9) /\
  dbg_print ex_di in_main (EBin OAdd (lv n_a) (EBin OMul (lv n_b) (ENum 1 (PInt 2)))) = DVal (PInt 11) /\
  dbg_print ex_di in_main (lv n_q) = DEvalError /\
  dbg_print ex_di in_sub (lv n_q) = DVal (PInt 3) /\
  dbg_print ex_di in_sub (lv n_g) = DVal (PInt 11) /\
  dbg_print ex_di in_sub (lv n_a) = DEvalError.
Proof. vm_compute. repeat split; reflexivity. Qed.

(* D01 inherited from the folder: 1.5 < 1.6 on two SINGLE variables prints 0;
   the program computes -1 (FoldProofs.fold_cmp_float_refuted) *)
Theorem cmp_float_refuted :
  dbg_print ex_di in_main (EBin OLt (lv n_u) (lv n_v)) = DVal (PInt 0) /\
  rt_eval (CBin OLt (CNum 3 (PFlt f15)) (CNum 3 (PFlt f_1_6))) = RVal (CI (-1)).
Proof. split; [vm_compute; reflexivity | exact (proj2 fold_cmp_float_refuted)]. Qed.

(* D43: exceptions other than EvalError escape do_print *)
Theorem crash_refuted :
  dbg_print ex_di in_main (EBin OIntdiv (lv n_a) (ENum 1 (PInt 0))) = DCrash K_ZERODIV /\
  dbg_print ex_di in_main (EBin OMul (lv n_a) (ENum 1 (PInt 20000))) = DCrash K_OVERFLOW /\
  dbg_print ex_di in_main (EBin ODiv (ENum 1 (PInt 1)) (ENum 1 (PInt 3))) = DCrash K_OVERFLOW /\
  dbg_print ex_di in_main (ELv n_c [ilit 1] []) = DCrash K_VALUE /\
  dbg_print ex_di in_main (EBin OAdd (ELv n_a [] [n_x]) (ENum 1 (PInt 1))) = DCrash K_COMPILE /\
  dbg_print ex_di finished (lv n_a) = DCrash K_ATTR.
Proof. vm_compute. repeat split; reflexivity. Qed.

(* STATIC variables are not in the debugger's global_vars: the program reads
   globals cell 1 (value 5), the debugger reports an unknown variable *)
Theorem static_refuted : forall m,
  exec m (IRead false 1 1) in_sub = R tt (set_stack in_sub (CI 5 :: stack in_sub)) /\
  dbg_print ex_di in_sub (lv n_st) = DEvalError.
Proof. intro m. split; [reflexivity | vm_compute; reflexivity]. Qed.

(* names are TYPED in the main routine whatever the current frame: the field
   y of the SUB's local record lq (cell 2, value 41) is shown as the content
   of cell 1 (the value of lq.x), the DOUBLE local w is added as a SINGLE *)
Theorem typed_in_main_refuted : forall m,
  exec m (IReadidx true 2 1 1) in_sub = R tt (set_stack in_sub (CL 41 :: stack in_sub)) /\
  dbg_print ex_di in_sub (ELv n_lq [] [n_y]) = DVal (PInt 40) /\
  dtype ex_di (lv n_w) = Some 3.
Proof. intro m. split; [reflexivity | split; [vm_compute; reflexivity | reflexivity]]. Qed.

(* a field or a subscript on a scalar is ignored instead of being rejected *)
Theorem scalar_path_refuted :
  dbg_print ex_di in_main (ELv n_a [] [n_x]) = DVal (PInt 3) /\
  dbg_print ex_di in_main (ELv n_a [ilit 1] []) = DVal (PInt 3).
Proof. vm_compute. split; reflexivity. Qed.

(* the general theorems instantiated on the example (premises are satisfiable) *)
Lemma ex_in_frame : in_frame in_main 1 ex_mainframe 10.
Proof. unfold in_frame. repeat split; try reflexivity; try lia. exists None, 0, 17. reflexivity. Qed.

Example ex_local_scalar : forall m,
  dbg_print ex_di in_main (lv n_b) = DVal (PInt 4) /\
  exec m (IRead true 1 1) in_main = R tt (set_stack in_main (CI 4 :: stack in_main)).
Proof.
  intro m.
  assert (P1 : not_const ex_di 10 n_b) by (split; reflexivity).
  exact (local_scalar_agrees ex_di m in_main 1 ex_mainframe 10 n_b 1 1 (CI 4) ex_in_frame P1
           eq_refl eq_refl eq_refl ltac:(lia) eq_refl eq_refl).
Qed.

Example ex_element : forall m s1 rest,
  heap s1 = heap in_main -> stack s1 = CRef 1 4 :: CL 0 :: CL 2 :: rest ->
  dbg_print ex_di in_main (ELv n_arr [ilit 2; ilit 0] []) = DVal (PInt 20) /\
  exec m (IArridx 2) s1 = R tt (set_stack s1 (CRef 1 13 :: rest)).
Proof.
  intros m s1 rest Hh Hst.
  assert (P1 : not_const ex_di 10 n_arr) by (split; reflexivity).
  assert (P2 : has_header (s_cells ex_mainframe) 4 1 [(1, 2); (0, 1)]).
  { unfold has_header. split; [reflexivity|]. split; [reflexivity|].
    intros k lb ub Hk. destruct k as [|[|k]]; simpl in Hk; try (destruct k; discriminate Hk);
      inversion Hk; subst; split; reflexivity. }
  assert (P3 : [(1, 2); (0, 1)] <> ([] : list (Z * Z))) by discriminate.
  assert (P4 : Forall (fun b : Z * Z => fst b <= snd b) [(1, 2); (0, 1)]) by (repeat constructor; simpl; lia).
  assert (P5 : 4 + header_size [(1, 2); (0, 1)] + array_cells 1 [(1, 2); (0, 1)]
               <= Z.of_nat (length (s_cells ex_mainframe))) by (cbv; intro H; discriminate H).
  destruct (element_agrees_in_segment ex_di m in_main 1 ex_mainframe 10 n_arr [(1, 2); (0, 1)] 2 4 1
              [(1, 2); (0, 1)] [2; 0] 13 (CL 20) ex_in_frame P1 eq_refl eq_refl eq_refl ltac:(lia) eq_refl
              P2 P3 P4 ltac:(lia) P5 eq_refl eq_refl eq_refl) as [H1 H2].
  split; [exact H1|]. destruct (H2 s1 rest Hh Hst) as [H3 _]. exact H3.
Qed.

Example ex_int_binop :
  exists cell, dbg_print ex_di in_main (EBin OMul (lv n_a) (lv n_b)) = DVal (PInt 12) /\
               rt_eval (CBin OMul (CNum 1 (PInt 3)) (CNum 1 (PInt 4))) = RVal cell /\ pv_of cell = PInt 12.
Proof.
  exists (CI 12). vm_compute. repeat split; reflexivity.
Qed.
