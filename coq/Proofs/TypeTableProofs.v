(* The generated operator-typing table of the code (Gen/TypeTable.v) satisfies the
   declarative rule (Models/TypeRules.v).  Finite domain: vm_compute sweeps. *)
From Coq Require Import ZArith List Bool Lia.
From QV Require Import TypeTable TypeRules.
Import ListNotations.
Open Scope Z_scope.

Lemma bin_verdict_sweep : forallb bin_entry_verdict_ok binop_table = true.
Proof. vm_compute. reflexivity. Qed.

Lemma bin_exact_sweep :
  forallb (fun e => intdiv_float e || bin_entry_exact_ok e) binop_table = true.
Proof. vm_compute. reflexivity. Qed.

Lemma un_sweep : forallb un_entry_ok unop_table = true.
Proof. vm_compute. reflexivity. Qed.

Lemma coerce_sweep : forallb coerce_entry_ok coerce_table = true.
Proof. vm_compute. reflexivity. Qed.

Lemma bin_keys_domain : bin_keys = bin_domain.
Proof. vm_compute. reflexivity. Qed.

Lemma un_keys_domain : un_keys = un_domain.
Proof. vm_compute. reflexivity. Qed.

Lemma coerce_keys_domain : coerce_keys = coerce_domain.
Proof. vm_compute. reflexivity. Qed.

Lemma verdict_kind_eq x y :
  match verdict_kind x, verdict_kind y with
  | None, None => true
  | Some a, Some b => Bool.eqb a b
  | _, _ => false
  end = true -> verdict_kind x = verdict_kind y.
Proof.
  destruct (verdict_kind x) as [a|], (verdict_kind y) as [b|]; try discriminate; try reflexivity.
  intros H. apply eqb_prop in H. congruence.
Qed.

Lemma opt_eqb_eq x y : opt_eqb x y = true -> x = y.
Proof.
  destruct x as [a|], y as [b|]; simpl; try discriminate; try reflexivity.
  intros H. apply Z.eqb_eq in H. congruence.
Qed.

(* acceptance and string/number kind of every operator application *)
Lemma type_table_ok op a b ty raised :
  In (op, a, b, ty, raised) binop_table ->
  verdict_kind (effective ty raised) = verdict_kind (rule_bin op a b).
Proof.
  intros H. pose proof bin_verdict_sweep as S. rewrite forallb_forall in S.
  specialize (S _ H). simpl in S. apply verdict_kind_eq. exact S.
Qed.

(* the exact result type, except integer division with a floating operand *)
Lemma type_table_exact_partial op a b ty raised :
  In (op, a, b, ty, raised) binop_table ->
  intdiv_float (op, a, b, ty, raised) = false ->
  effective ty raised = rule_bin op a b.
Proof.
  intros H G. pose proof bin_exact_sweep as S. rewrite forallb_forall in S.
  specialize (S _ H). rewrite G in S. simpl in S. apply opt_eqb_eq. exact S.
Qed.

Lemma unop_table_ok op a ty raised :
  In (op, a, ty, raised) unop_table -> effective ty raised = rule_un op a.
Proof.
  intros H. pose proof un_sweep as S. rewrite forallb_forall in S.
  specialize (S _ H). simpl in S. apply opt_eqb_eq. exact S.
Qed.

Lemma coercible_ok a b v :
  In (a, b, v) coerce_table -> (v = 1 <-> rule_coerce a b = true) /\ (v = 0 \/ v = 1).
Proof.
  intros H. pose proof coerce_sweep as S. rewrite forallb_forall in S.
  specialize (S _ H). simpl in S. apply andb_true_iff in S. destruct S as [S1 S2].
  apply eqb_prop in S1. split.
  - rewrite <- S1. rewrite Z.eqb_eq. tauto.
  - apply orb_true_iff in S2. rewrite !Z.eqb_eq in S2. exact S2.
Qed.

(* the tables are total on the domain *)
Lemma bin_table_total op a b :
  In op bin_ops -> In a kinds -> In b kinds ->
  exists ty raised, In (op, a, b, ty, raised) binop_table.
Proof.
  intros Ho Ha Hb.
  assert (Hd : In (op, a, b) bin_domain).
  { unfold bin_domain. apply in_flat_map. exists op. split; [assumption|].
    apply in_flat_map. exists a. split; [assumption|]. apply in_map. assumption. }
  rewrite <- bin_keys_domain in Hd. unfold bin_keys in Hd. apply in_map_iff in Hd.
  destruct Hd as [[[[[op' a'] b'] ty] raised] [E Hin]]. inversion E; subst.
  exists ty, raised. assumption.
Qed.

Lemma un_table_total op a :
  In op un_ops -> In a kinds -> exists ty raised, In (op, a, ty, raised) unop_table.
Proof.
  intros Ho Ha.
  assert (Hd : In (op, a) un_domain).
  { unfold un_domain. apply in_flat_map. exists op. split; [assumption|]. apply in_map. assumption. }
  rewrite <- un_keys_domain in Hd. unfold un_keys in Hd. apply in_map_iff in Hd.
  destruct Hd as [[[[op' a'] ty] raised] [E Hin]]. inversion E; subst.
  exists ty, raised. assumption.
Qed.

Lemma coerce_table_total a b :
  In a kinds -> In b kinds -> exists v, In (a, b, v) coerce_table.
Proof.
  intros Ha Hb.
  assert (Hd : In (a, b) coerce_domain).
  { unfold coerce_domain. apply in_flat_map. exists a. split; [assumption|]. apply in_map. assumption. }
  rewrite <- coerce_keys_domain in Hd. unfold coerce_keys in Hd. apply in_map_iff in Hd.
  destruct Hd as [[[a' b'] v] [E Hin]]. inversion E; subst. exists v. assumption.
Qed.

(* consequences used as fault lemmas *)

Lemma rule_bin_mixed_none op a b :
  numeric a = true -> is_string b = true -> rule_bin op a b = None.
Proof.
  intros Ha Hb. assert (Hb' : numeric b = false).
  { unfold is_string in Hb. apply Z.eqb_eq in Hb. subst. reflexivity. }
  assert (Ha' : is_string a = false).
  { unfold numeric, is_string in *. apply andb_true_iff in Ha. destruct Ha as [H1 H2].
    apply Z.leb_le in H1, H2. apply Z.eqb_neq. lia. }
  unfold rule_bin. rewrite Ha, Hb, Hb', Ha'. simpl.
  destruct (is_cmp op); [reflexivity|].
  destruct (is_logical_bin op || (op =? OP_MOD) || (op =? OP_INTDIV)); [reflexivity|].
  destruct (op =? OP_DIV); [reflexivity|].
  rewrite andb_false_r. reflexivity.
Qed.

Lemma rule_bin_mixed_none' op a b :
  is_string a = true -> numeric b = true -> rule_bin op a b = None.
Proof.
  intros Ha Hb. assert (Ha' : numeric a = false).
  { unfold is_string in Ha. apply Z.eqb_eq in Ha. subst. reflexivity. }
  assert (Hb' : is_string b = false).
  { unfold numeric, is_string in *. apply andb_true_iff in Hb. destruct Hb as [H1 H2].
    apply Z.leb_le in H1, H2. apply Z.eqb_neq. lia. }
  unfold rule_bin. rewrite Ha, Hb, Hb', Ha'. simpl.
  destruct (is_cmp op); [reflexivity|].
  destruct (is_logical_bin op || (op =? OP_MOD) || (op =? OP_INTDIV)); [reflexivity|].
  destruct (op =? OP_DIV); [reflexivity|].
  rewrite andb_false_r. reflexivity.
Qed.

Lemma verdict_none r : verdict_kind r = None -> r = None.
Proof. destruct r; simpl; [discriminate | reflexivity]. Qed.

(* a string combined with a number is rejected for every binary operator *)
Lemma string_number_rejected op a b ty raised :
  In (op, a, b, ty, raised) binop_table ->
  (numeric a = true /\ is_string b = true) \/ (is_string a = true /\ numeric b = true) ->
  effective ty raised = None.
Proof.
  intros H M. apply verdict_none. rewrite (type_table_ok _ _ _ _ _ H).
  destruct M as [[Ha Hb] | [Ha Hb]].
  - rewrite rule_bin_mixed_none by assumption. reflexivity.
  - rewrite rule_bin_mixed_none' by assumption. reflexivity.
Qed.

Lemma record_sweep :
  forallb (fun e : Z * Z * Z * Z * Z =>
             let '(op, a, b, ty, raised) := e in
             implb ((6 <=? a) || (6 <=? b))
                   (match effective ty raised with None => true | Some _ => false end))
          binop_table = true.
Proof. vm_compute. reflexivity. Qed.

(* a record operand is rejected for every binary operator *)
Lemma record_operand_rejected op a b ty raised :
  In (op, a, b, ty, raised) binop_table -> 6 <= a \/ 6 <= b -> effective ty raised = None.
Proof.
  intros H M. pose proof record_sweep as S. rewrite forallb_forall in S.
  specialize (S _ H). simpl in S.
  assert (G : (6 <=? a) || (6 <=? b) = true).
  { apply orb_true_iff. destruct M; [left | right]; apply Z.leb_le; assumption. }
  rewrite G in S. simpl in S. destruct (effective ty raised); [discriminate | reflexivity].
Qed.
