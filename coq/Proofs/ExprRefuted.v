(* Witnesses: outside the guard of the proved theorem the generated code and
   the reference semantics disagree on the unchanged tree (D06, D32). *)
From Coq Require Import ZArith List Bool Lia.
From QV Require Import Sx Strs Fl Cell Machine Cpu SemBase ExprCodegen.
Import ListNotations.
Open Scope Z_scope.

Definition m0 : module := mkModule [] [] [] 0 None.
Definition st0 : st := init_state m0 (mkScript [] [] [] []).

Definition disagrees (e : pexpr) : Prop :=
  exists st' v v',
    exec_list m0 (cg e) st0 = R tt st' /\ stack st' = [v] /\
    peval no_quirks (fun _ => None) e = POk v' /\ v <> v'.

Definition e_idiv : pexpr := PBin OIDiv (PUn UNeg (PLit (CI 7))) (PLit (CI 2)).
Definition e_mod : pexpr := PBin OMod (PUn UNeg (PLit (CI 7))) (PLit (CI 2)).
Definition e_pow : pexpr := PBin OPow (PLit (CI 2)) (PUn UNeg (PLit (CI 1))).

Lemma idiv_refuted : q_ty e_idiv = Some TI /\ disagrees e_idiv.
Proof.
  split; [reflexivity|].
  eexists. exists (CI (-4)), (CI (-3)).
  split; [vm_compute; reflexivity|]. split; [reflexivity|]. split; [vm_compute; reflexivity|].
  discriminate.
Qed.

Lemma mod_refuted : q_ty e_mod = Some TI /\ disagrees e_mod.
Proof.
  split; [reflexivity|].
  eexists. exists (CI 1), (CI (-1)).
  split; [vm_compute; reflexivity|]. split; [reflexivity|]. split; [vm_compute; reflexivity|].
  discriminate.
Qed.

Lemma pow_refuted : q_ty e_pow = Some TI /\ disagrees e_pow.
Proof.
  split; [reflexivity|].
  eexists. exists (CI 0), (CS (FFin false 1 (-1))).
  split; [vm_compute; reflexivity|]. split; [reflexivity|]. split; [vm_compute; reflexivity|].
  discriminate.
Qed.
