(* Stack discipline of expression code: executing cg e (Models/ExprCodegen.v)
   with Cpu.exec never touches the operand stack below its start, for EVERY
   pure expression e (well typed or not) and every machine state. *)
From Coq Require Import ZArith List Bool Lia.
From QV Require Import Sx Strs Fl Dec NumFmt Cell Using Print Machine Cpu SemBase ExprCodegen.
Import ListNotations.
Open Scope Z_scope.

Definition suffix {A} (s l : list A) : Prop := exists p, l = p ++ s.

Lemma suffix_refl {A} (s : list A) : suffix s s.
Proof. exists []. reflexivity. Qed.
Lemma suffix_cons {A} (s l : list A) a : suffix s l -> suffix s (a :: l).
Proof. intros [p ->]. exists (a :: p). reflexivity. Qed.
Lemma suffix_trans {A} (a b c : list A) : suffix a b -> suffix b c -> suffix a c.
Proof. intros [p ->] [r ->]. exists (r ++ p). now rewrite app_assoc. Qed.
#[export] Hint Resolve suffix_refl suffix_cons : sfx.

(* what an instruction sequence may do to the stack, seen from base s: on
   success the stack satisfies P, on any failure the base is still there *)
Definition post (P : list cell -> Prop) (s : list cell) (o : out unit) : Prop :=
  match o with
  | R _ st' => P (stack st')
  | T _ _ st' | ZD st' | X _ st' | NI st' => suffix s (stack st')
  end.

Definition one_on (s : list cell) : list cell -> Prop := fun l => exists v, l = v :: s.

Lemma post_weaken P s s' o : post P s' o -> suffix s s' -> post P s o.
Proof. destruct o; simpl; intros H Hs; auto; eapply suffix_trans; eauto. Qed.

Lemma post_impl (P Q : list cell -> Prop) s o : post P s o -> (forall l, P l -> Q l) -> post Q s o.
Proof. destruct o; simpl; auto. Qed.

Lemma bind_post (P Q : list cell -> Prop) s (ma : M unit) (mb : M unit) st :
  post P s (ma st) ->
  (forall st1, P (stack st1) -> post Q s (mb st1)) ->
  post Q s (bind ma (fun _ => mb) st).
Proof.
  unfold bind. destruct (ma st); simpl; auto.
Qed.

Lemma exec_list_app m a b st :
  exec_list m (a ++ b) st = bind (exec_list m a) (fun _ => exec_list m b) st.
Proof.
  unfold bind.
  revert st; induction a as [|i a IH]; intro st; simpl.
  - reflexivity.
  - unfold bind. destruct (exec m i st); try reflexivity. apply IH.
Qed.

Local Opaque fadd fsub fmul fdiv fround ffloor to_single of_Z fcmp py_pow fneg fabs
      Z.pow Z.land Z.lor Z.lxor Z.lnot Z.div Z.modulo fl_of_bits32 fl_of_bits in_int in_long.

(* brute force: run the instruction on a state whose stack top is explicit *)
Ltac crush :=
  repeat (simpl;
          match goal with
          | |- context [match ?x with _ => _ end] =>
            match type of x with
            | _ => destruct x eqn:?
            end
          end);
  simpl; unfold one_on; eauto 6 with sfx.

Lemma mk_cell_cases ty v st :
  (exists c, mk_cell ty v st = R c st) \/ (exists code, mk_cell ty v st = T code true st)
  \/ (exists k, mk_cell ty v st = X k st).
Proof.
  unfold mk_cell, ret, trap, crashM.
  repeat match goal with
         | |- context [match ?x with _ => _ end] => destruct x
         end; eauto.
Qed.

Lemma push_post ty v st :
  post (one_on (stack st)) (stack st) (push ty v st).
Proof.
  unfold push, bind. destruct (mk_cell_cases ty v st) as [[c ->] | [[code ->] | [k ->]]]; simpl;
    unfold one_on; eauto with sfx.
Qed.

Lemma push_cell_post c st : post (one_on (stack st)) (stack st) (push_cell c st).
Proof. destruct st; simpl. unfold one_on. eauto. Qed.

Local Opaque Z.eqb nthZ setZ.

Ltac go :=
  cbn -[push push_cell mk_cell];
  match goal with
  | |- post _ _ (push _ _ _) => apply push_post
  | |- post _ _ (push_cell _ _) => apply push_cell_post
  | |- context [if ?c then _ else _] => destruct c eqn:?; go
  | |- context [match ?x with _ => _ end] =>
    lazymatch type of x with
    | out _ => fail
    | _ => idtac
    end; destruct x eqn:?; go
  | _ => simpl; unfold one_on; eauto 6 with sfx
  end.

Ltac unf :=
  unfold exec;
  unfold exp_tail, exp_tail_ref, arith_prelude, bitwise, read_generic, push_opt, pop_ty, pop_int, pop_long, pop_str,
    pop_ref, repush, write_var, read_var, seg_set, scope_seg, cur_frame, get_seg;
  unfold bind, pop, type_mismatch, trap, trap_badkw, crashM, ret.

Ltac start H :=
  intro H; match goal with |- context [exec _ _ ?st] => destruct st end;
  simpl in H; subst; unf.

(* ---- instructions that push one cell ---- *)
Definition pushes (i : instr) : bool :=
  match i with
  | IPushI _ | IPushL _ | IPushS _ | IPushD _ | IPushC _ _ | IPushStr _ | IRead true _ _ => true
  | _ => false
  end.

Lemma pushes_post m i st :
  pushes i = true -> post (one_on (stack st)) (stack st) (exec m i st).
Proof.
  destruct i; try discriminate; intros Hp; destruct st; unf; go.
Qed.

(* ---- pop one, push one ---- *)
Definition unary_shape (i : instr) : bool :=
  match i with
  | INeg | INot | IConv _ _ | IEq | INe | ILt | IGt | ILe | IGe => true
  | _ => false
  end.

Lemma unary_post m i st v s :
  unary_shape i = true -> stack st = v :: s -> post (one_on s) s (exec m i st).
Proof.
  destruct i; try discriminate; intros _; start H; go.
Qed.

(* ---- pop two, push one ---- *)
Definition binary_shape (i : instr) : bool :=
  match i with
  | IAdd | ISub | IMul | IDiv | IIdiv | IMod | IExp | ICmp | IAnd | IOr | IXor | IEqv | IImp => true
  | _ => false
  end.

Lemma binary_post m i st b a s :
  binary_shape i = true -> stack st = b :: a :: s -> post (one_on s) s (exec m i st).
Proof.
  destruct i; try discriminate; intros _; start H; go.
Qed.

(* ---- instruction lists ---- *)

Lemma exec_list_one m i st : exec_list m [i] st = exec m i st.
Proof. simpl. unfold bind, ret. destruct (exec m i st) as [[] ?| | | |]; reflexivity. Qed.

Lemma exec_list_nil_post m st v s : stack st = v :: s -> post (one_on s) s (exec_list m [] st).
Proof. intro H. simpl. unfold one_on. eauto. Qed.

Lemma conv_code_post m a b st v s :
  stack st = v :: s -> post (one_on s) s (exec_list m (conv_code a b) st).
Proof.
  intro H. unfold conv_code. destruct (vty_eqb a b).
  - eapply exec_list_nil_post; eauto.
  - rewrite exec_list_one. eapply unary_post; eauto.
Qed.

Lemma op_instrs_post m o st b a s :
  stack st = b :: a :: s -> post (one_on s) s (exec_list m (op_instrs o) st).
Proof.
  intro H.
  destruct o; cbn [op_instrs];
    try (rewrite exec_list_one; eapply binary_post; [reflexivity | eassumption]);
    (change (exec_list m [ICmp; ?j] st) with (bind (exec m ICmp) (fun _ => exec_list m [j]) st);
     eapply bind_post;
     [ eapply binary_post; [reflexivity | eassumption]
     | intros st1 [v Hv]; rewrite exec_list_one; eapply unary_post; [reflexivity | eassumption] ]).
Qed.

Fixpoint lits_numeric (e : pexpr) : bool :=
  match e with
  | PLit c => is_numeric c
  | PStrLit _ _ | PVar _ _ => true
  | PUn _ a | PPar a => lits_numeric a
  | PBin _ l r => lits_numeric l && lits_numeric r
  end.

Lemma push_lit_post m c st :
  is_numeric c = true -> post (one_on (stack st)) (stack st) (exec_list m (push_lit c) st).
Proof.
  intro Hn. unfold push_lit.
  destruct (small_const c).
  - rewrite exec_list_one. apply pushes_post. reflexivity.
  - destruct c; try discriminate; rewrite exec_list_one; apply pushes_post; reflexivity.
Qed.

(* seq: run a, then b on the grown stack *)
Lemma seq_post m a b st (P Q : list cell -> Prop) s :
  post P s (exec_list m a st) ->
  (forall st1, P (stack st1) -> post Q s (exec_list m b st1)) ->
  post Q s (exec_list m (a ++ b) st).
Proof.
  intros Ha Hb. rewrite exec_list_app. eapply bind_post; eauto.
Qed.

Theorem stack_discipline_gen m e :
  lits_numeric e = true ->
  forall st, post (one_on (stack st)) (stack st) (exec_list m (cg e) st).
Proof.
  induction e as [c | idx s0 | i t | o a IH | o l IHl r IHr | a IH]; intros Hl st; cbn [cg].
  - apply push_lit_post. exact Hl.
  - rewrite exec_list_one. apply pushes_post. reflexivity.
  - rewrite exec_list_one. apply pushes_post. reflexivity.
  - (* unary *)
    simpl in Hl.
    eapply seq_post; [apply IH; exact Hl|].
    intros st1 [v Hv].
    destruct o.
    + rewrite exec_list_one. eapply unary_post; [reflexivity | eassumption].
    + destruct (q_ty a).
      * eapply seq_post; [eapply conv_code_post; eassumption|].
        intros st2 [v2 Hv2]. rewrite exec_list_one. eapply unary_post; [reflexivity | eassumption].
      * rewrite exec_list_one. eapply unary_post; [reflexivity | eassumption].
    + eapply exec_list_nil_post; eassumption.
  - (* binary *)
    simpl in Hl. apply andb_true_iff in Hl as [Hl1 Hl2].
    assert (Hgen : forall c1 c2 : list instr,
               (forall st1 v s, stack st1 = v :: s -> post (one_on s) s (exec_list m c1 st1)) ->
               (forall st1 v s, stack st1 = v :: s -> post (one_on s) s (exec_list m c2 st1)) ->
               post (one_on (stack st)) (stack st)
                    (exec_list m (cg l ++ c1 ++ cg r ++ c2 ++ op_instrs o) st)).
    { intros c1 c2 H1 H2.
      eapply seq_post; [apply IHl; exact Hl1|].
      intros st1 [v1 Hv1].
      eapply seq_post; [eapply H1; eassumption|].
      intros st2 [v1' Hv1'].
      eapply seq_post.
      { eapply post_weaken; [apply IHr; exact Hl2|]. rewrite Hv1'. auto with sfx. }
      intros st3 [v2 Hv2]. rewrite Hv1' in Hv2.
      eapply seq_post.
      { eapply post_weaken; [eapply H2; eassumption|]. auto with sfx. }
      intros st4 [v2' Hv2'].
      eapply op_instrs_post; eassumption. }
    destruct (q_ty l) as [lt|]; [destruct (q_ty r) as [rt|]; [destruct (q_ty (PBin o l r)) as [nt|]|]|].
    + apply Hgen; intros; eapply conv_code_post; eassumption.
    + apply (Hgen [] []); intros; eapply exec_list_nil_post; eassumption.
    + apply (Hgen [] []); intros; eapply exec_list_nil_post; eassumption.
    + apply (Hgen [] []); intros; eapply exec_list_nil_post; eassumption.
  - apply IH. exact Hl.
Qed.

(* the statement in plain words: whatever happens, the cells that were on the
   stack before are still there, in place *)
Theorem stack_discipline m e st :
  lits_numeric e = true ->
  match exec_list m (cg e) st with
  | R _ st' => exists v, stack st' = v :: stack st
  | T _ _ st' | ZD st' | X _ st' | NI st' => exists p, stack st' = p ++ stack st
  end.
Proof.
  intro H. pose proof (stack_discipline_gen m e H st) as P.
  destruct (exec_list m (cg e) st); simpl in P; exact P.
Qed.
