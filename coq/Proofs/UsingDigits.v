(* Digit-string lemmas for C19: how nat_digits, Python's fixed-point format
   (py_fixed), thousands grouping (group3) and int -> float (of_Z) relate to
   the arithmetic definitions of the specification (frac_digits, int_grouped). *)
From Coq Require Import ZArith List Bool Lia ZifyBool.
From QV Require Import Sx Strs Fl Dec Using UsingSpec.
Import ListNotations.
Open Scope Z_scope.
Ltac Zify.zify_post_hook ::= Z.to_euclidean_division_equations.

(* ---------- nat_digits ---------- *)

Lemma pow2_S n : 2 ^ Z.of_nat (S n) = 2 * 2 ^ Z.of_nat n.
Proof. rewrite Nat2Z.inj_succ, Z.pow_succ_r by lia. reflexivity. Qed.

Lemma pow2_pos n : 0 < 2 ^ Z.of_nat n.
Proof. apply Z.pow_pos_nonneg; lia. Qed.

Lemma digits_fuel_indep : forall f1 f2 z acc,
  0 <= z -> z < 2 ^ Z.of_nat (S f1) -> z < 2 ^ Z.of_nat (S f2) ->
  digits_fuel f1 z acc = digits_fuel f2 z acc.
Proof.
  induction f1 as [|f1 IH]; intros f2 z acc Hz H1 H2.
  - change (2 ^ Z.of_nat 1) with 2 in H1.
    destruct f2 as [|f2]; [reflexivity|]. cbn [digits_fuel].
    destruct (Z.ltb_spec z 10); [reflexivity | lia].
  - destruct f2 as [|f2].
    + change (2 ^ Z.of_nat 1) with 2 in H2. cbn [digits_fuel].
      destruct (Z.ltb_spec z 10); [reflexivity | lia].
    + cbn [digits_fuel]. destruct (Z.ltb_spec z 10); [reflexivity|].
      rewrite pow2_S in H1, H2.
      pose proof (pow2_pos (S f1)). pose proof (pow2_pos (S f2)).
      apply IH.
      * apply Z.div_pos; lia.
      * apply Z.div_lt_upper_bound; lia.
      * apply Z.div_lt_upper_bound; lia.
Qed.

Lemma log2_fuel z : 0 <= z -> z < 2 ^ Z.of_nat (S (Z.to_nat (Z.log2 z))).
Proof.
  intro Hz. rewrite Nat2Z.inj_succ, Z2Nat.id by apply Z.log2_nonneg.
  destruct (Z.eq_dec z 0) as [->|Hn]; [reflexivity|].
  apply Z.log2_spec; lia.
Qed.

Lemma nat_digits_fuel f z : 0 <= z -> z < 2 ^ Z.of_nat (S f) -> digits_fuel f z [] = nat_digits z.
Proof.
  intros Hz H. unfold nat_digits. apply digits_fuel_indep; [exact Hz | exact H | now apply log2_fuel].
Qed.

Lemma nat_digits_small z : 0 <= z < 10 -> nat_digits z = [ch_0 + z].
Proof.
  intros [H0 H1]. unfold nat_digits. destruct (Z.to_nat (Z.log2 z)); cbn [digits_fuel].
  - reflexivity.
  - destruct (Z.ltb_spec z 10); [reflexivity | lia].
Qed.

Lemma nat_digits_step z : 10 <= z -> nat_digits z = nat_digits (z / 10) ++ [ch_0 + z mod 10].
Proof.
  intro H. unfold nat_digits at 1.
  pose proof (log2_fuel z ltac:(lia)) as Hlt.
  destruct (Z.to_nat (Z.log2 z)) as [|f].
  - change (2 ^ Z.of_nat 1) with 2 in Hlt. lia.
  - cbn [digits_fuel]. destruct (Z.ltb_spec z 10); [lia|].
    rewrite digits_fuel_app. f_equal.
    apply nat_digits_fuel.
    + apply Z.div_pos; lia.
    + rewrite pow2_S in Hlt. pose proof (pow2_pos (S f)).
      apply Z.div_lt_upper_bound; lia.
Qed.

Lemma nat_digits_nonempty z : nat_digits z <> [].
Proof.
  unfold nat_digits. destruct (Z.to_nat (Z.log2 z)) as [|f]; cbn [digits_fuel].
  - discriminate.
  - destruct (z <? 10); [discriminate|]. rewrite digits_fuel_app.
    intro E. apply app_eq_nil in E. destruct E; discriminate.
Qed.

(* ---------- frac_digits ---------- *)

Lemma frac_digits_length k r : length (frac_digits k r) = k.
Proof.
  revert r; induction k as [|k IH]; intro r; cbn [frac_digits]; [reflexivity|].
  rewrite app_length, IH. simpl. lia.
Qed.

Lemma frac_digits_zero k : frac_digits k 0 = repeat ch_0 k.
Proof.
  induction k as [|k IH]; cbn [frac_digits]; [reflexivity|].
  change (0 / 10) with 0. rewrite IH. change (ch_0 + 0 mod 10) with ch_0.
  clear IH. induction k as [|k IH]; [reflexivity|]. cbn [repeat app]. now rewrite IH.
Qed.

Lemma repeat_snoc {A} (x : A) n : repeat x n ++ [x] = x :: repeat x n.
Proof. induction n as [|n IH]; [reflexivity|]. cbn [repeat app]. now rewrite IH. Qed.

Lemma pow10_S k : 10 ^ Z.of_nat (S k) = 10 * 10 ^ Z.of_nat k.
Proof. rewrite Nat2Z.inj_succ, Z.pow_succ_r by lia. reflexivity. Qed.

Lemma pow10_pos k : 0 < 10 ^ Z.of_nat k.
Proof. apply Z.pow_pos_nonneg; lia. Qed.

(* the decimal digits of D, zero-padded to at least k+1 digits, are the digits
   of D / 10^k followed by the k digits of D mod 10^k *)
Lemma pad_digits_split : forall (k : nat) D, 0 <= D ->
  pad_zeros (Z.of_nat k + 1) (nat_digits D) =
  nat_digits (D / 10 ^ Z.of_nat k) ++ frac_digits k (D mod 10 ^ Z.of_nat k).
Proof.
  induction k as [|k IH]; intros D HD.
  - change (10 ^ Z.of_nat 0) with 1. rewrite Z.div_1_r. cbn [frac_digits]. rewrite app_nil_r.
    unfold pad_zeros. pose proof (nat_digits_nonempty D).
    destruct (nat_digits D) as [|c l] eqn:E; [congruence|].
    replace (Z.to_nat (Z.of_nat 0 + 1 - Z.of_nat (length (c :: l)))) with 0%nat
      by (cbn [length]; lia).
    reflexivity.
  - rewrite pow10_S. pose proof (pow10_pos k) as Hp.
    cbn [frac_digits].
    destruct (Z_lt_le_dec D 10) as [Hs|Hs].
    + (* one digit *)
      rewrite nat_digits_small by lia.
      assert (E1 : D / (10 * 10 ^ Z.of_nat k) = 0) by (apply Z.div_small; lia).
      assert (E2 : D mod (10 * 10 ^ Z.of_nat k) = D) by (apply Z.mod_small; lia).
      rewrite E1, E2. rewrite (Z.div_small D 10) by lia. rewrite (Z.mod_small D 10) by lia.
      rewrite frac_digits_zero. rewrite nat_digits_small by lia.
      unfold pad_zeros. cbn [length].
      replace (Z.to_nat (Z.of_nat (S k) + 1 - Z.of_nat 1)) with (S k) by lia.
      change (ch_0 + 0) with ch_0. cbn [repeat app]. reflexivity.
    + rewrite (nat_digits_step D) by lia.
      assert (Epad : pad_zeros (Z.of_nat (S k) + 1) (nat_digits (D / 10) ++ [ch_0 + D mod 10])
                     = pad_zeros (Z.of_nat k + 1) (nat_digits (D / 10)) ++ [ch_0 + D mod 10]).
      { unfold pad_zeros. rewrite app_length. cbn [length].
        replace (Z.to_nat (Z.of_nat (S k) + 1 - Z.of_nat (length (nat_digits (D / 10)) + 1)))
          with (Z.to_nat (Z.of_nat k + 1 - Z.of_nat (length (nat_digits (D / 10))))) by lia.
        now rewrite app_assoc. }
      rewrite Epad, IH by (apply Z.div_pos; lia).
      rewrite <- app_assoc.
      assert (E1 : D / 10 / 10 ^ Z.of_nat k = D / (10 * 10 ^ Z.of_nat k))
        by (rewrite Z.div_div by lia; reflexivity).
      assert (E2 : D mod (10 * 10 ^ Z.of_nat k) = D mod 10 + 10 * ((D / 10) mod 10 ^ Z.of_nat k))
        by (apply Z.rem_mul_r; lia).
      assert (E3 : (D mod (10 * 10 ^ Z.of_nat k)) / 10 = (D / 10) mod 10 ^ Z.of_nat k).
      { rewrite E2. rewrite Z.add_comm, Z.mul_comm, Z.div_add_l by lia.
        rewrite (Z.div_small (D mod 10) 10) by (apply Z.mod_pos_bound; lia). lia. }
      assert (E4 : (D mod (10 * 10 ^ Z.of_nat k)) mod 10 = D mod 10).
      { rewrite E2. rewrite (Z.mul_comm 10), Z.mod_add by lia.
        apply Z.mod_mod; lia. }
      rewrite E1, E3, E4. reflexivity.
Qed.

Lemma nat_digits_length_ge z (k : nat) : 10 ^ Z.of_nat k <= z -> (S k <= length (nat_digits z))%nat.
Proof.
  revert z; induction k as [|k IH]; intros z H.
  - pose proof (nat_digits_nonempty z). destruct (nat_digits z); [congruence | simpl; lia].
  - rewrite pow10_S in H. pose proof (pow10_pos k).
    rewrite nat_digits_step by lia. rewrite app_length. cbn [length].
    assert (10 ^ Z.of_nat k <= z / 10) by (apply Z.div_le_lower_bound; lia).
    specialize (IH _ H1). lia.
Qed.

Lemma pad_zeros_id n s : n <= Z.of_nat (length s) -> pad_zeros n s = s.
Proof. intro H. unfold pad_zeros. replace (Z.to_nat (n - Z.of_nat (length s))) with 0%nat by lia. reflexivity. Qed.

(* the last three digits *)
Lemma nat_digits_split3 z : 1000 <= z ->
  nat_digits z = nat_digits (z / 1000) ++ frac_digits 3 (z mod 1000).
Proof.
  intro H. pose proof (pad_digits_split 3 z ltac:(lia)) as E.
  change (10 ^ Z.of_nat 3) with 1000 in E. rewrite <- E.
  symmetry. apply pad_zeros_id.
  pose proof (nat_digits_length_ge z 3 H). change (Z.of_nat 3 + 1) with 4. lia.
Qed.

(* ---------- thousands grouping ---------- *)

Lemma group3_rev_3 c r : group3_rev (c :: r) 3 = ch_comma :: group3_rev (c :: r) 0.
Proof. reflexivity. Qed.

Lemma group3_snoc3 X a b c : X <> [] ->
  group3 (X ++ [a; b; c]) = group3 X ++ [ch_comma; a; b; c].
Proof.
  intro HX. unfold group3. rewrite rev_app_distr. cbn [rev app].
  destruct (rev X) as [|x R] eqn:E.
  - exfalso. apply HX. rewrite <- (rev_involutive X), E. reflexivity.
  - cbn [group3_rev]. change (group3_rev (x :: R) 3) with (ch_comma :: group3_rev (x :: R) 0).
    cbn [rev]. rewrite <- !app_assoc. reflexivity.
Qed.

Lemma frac_digits_3 r : exists a b c, frac_digits 3 r = [a; b; c].
Proof. cbn [frac_digits app]. eauto. Qed.

Lemma group3_short_1 a : group3 [a] = [a].
Proof. reflexivity. Qed.
Lemma group3_short_2 a b : group3 [a; b] = [a; b].
Proof. reflexivity. Qed.
Lemma group3_short_3 a b c : group3 [a; b; c] = [a; b; c].
Proof. reflexivity. Qed.

Lemma group3_lt_1000 z : 0 <= z < 1000 -> group3 (nat_digits z) = nat_digits z.
Proof.
  intros [H0 H1].
  destruct (Z_lt_le_dec z 10).
  - rewrite nat_digits_small by lia. reflexivity.
  - rewrite nat_digits_step by lia.
    destruct (Z_lt_le_dec (z / 10) 10).
    + rewrite nat_digits_small by lia. reflexivity.
    + rewrite (nat_digits_step (z / 10)) by lia.
      rewrite nat_digits_small by lia. reflexivity.
Qed.

Lemma group3_int_grouped : forall fuel z, 0 <= z -> z < 2 ^ Z.of_nat (S fuel) ->
  group3 (nat_digits z) = int_grouped fuel z.
Proof.
  induction fuel as [|f IH]; intros z Hz Hlt.
  - change (2 ^ Z.of_nat 1) with 2 in Hlt. cbn [int_grouped]. apply group3_lt_1000. lia.
  - cbn [int_grouped]. destruct (Z.ltb_spec z 1000) as [Hs|Hs].
    + apply group3_lt_1000. lia.
    + rewrite nat_digits_split3 by lia.
      destruct (frac_digits_3 (z mod 1000)) as (a & b & c & E). rewrite E.
      rewrite group3_snoc3 by apply nat_digits_nonempty.
      rewrite IH; [reflexivity | apply Z.div_pos; lia |].
      rewrite pow2_S in Hlt. pose proof (pow2_pos (S f)).
      apply Z.div_lt_upper_bound; lia.
Qed.

Lemma group3_spec z : 0 <= z ->
  group3 (nat_digits z) = int_grouped (Z.to_nat (Z.log2 z)) z.
Proof. intro Hz. apply group3_int_grouped; [exact Hz | now apply log2_fuel]. Qed.

Lemma span_digits_stop ip rest c :
  forallb is_digit ip = true -> is_digit c = false ->
  span_digits (ip ++ c :: rest) = (ip, c :: rest).
Proof.
  intros H Hc. induction ip as [|d ip IH]; cbn [span_digits app].
  - now rewrite Hc.
  - cbn [forallb] in H. apply andb_true_iff in H as [Hd Hr]. rewrite Hd, (IH Hr). reflexivity.
Qed.

Lemma group_int_part_point ip fp :
  forallb is_digit ip = true ->
  group_int_part (ip ++ [ch_dot] ++ fp) = group3 ip ++ [ch_dot] ++ fp.
Proof.
  intro H. unfold group_int_part. cbn [app].
  rewrite span_digits_stop by (exact H || reflexivity). reflexivity.
Qed.

(* ---------- py_fixed ---------- *)

(* the integer the digits of '{:.kf}'.format(x) spell: |x| * 10^k rounded half-even *)
Definition fixed_scaled (m e k : Z) : Z :=
  let '(N, q) := if m <=? 0 then (0, 0) else exact_dec m e in
  let s := q + k in
  if s >=? 0 then N * 10 ^ s
  else let p := 10 ^ (- s) in
       let d := N / p in
       let r := N - d * p in
       if 2 * r >? p then d + 1 else if 2 * r <? p then d
       else if Z.odd d then d + 1 else d.

Lemma exact_dec_nonneg m e N q : 0 <= m -> exact_dec m e = (N, q) -> 0 <= N /\ q <= 0.
Proof.
  intros Hm E. unfold exact_dec in E. destruct (Z.geb_spec e 0) as [He|He]; inversion E; subst.
  - rewrite Z.shiftl_mul_pow2 by lia. split; [|lia]. apply Z.mul_nonneg_nonneg; [lia|].
    apply Z.pow_nonneg; lia.
  - split; [|lia]. apply Z.mul_nonneg_nonneg; [lia|]. apply Z.pow_nonneg; lia.
Qed.

Lemma fixed_scaled_nonneg m e k : 0 <= fixed_scaled m e k.
Proof.
  unfold fixed_scaled.
  set (Nq := if m <=? 0 then (0, 0) else exact_dec m e).
  assert (H : 0 <= fst Nq).
  { unfold Nq. destruct (Z.leb_spec m 0) as [Hm|Hm]; [simpl; lia|].
    destruct (exact_dec m e) as [N q] eqn:E.
    destruct (exact_dec_nonneg m e N q ltac:(lia) E). simpl. lia. }
  destruct Nq as [N q]. cbn [fst] in H.
  destruct (q + k >=? 0).
  - apply Z.mul_nonneg_nonneg; [lia|]. apply Z.pow_nonneg; lia.
  - cbv zeta.
    assert (Hp : 0 <= 10 ^ (- (q + k))) by (apply Z.pow_nonneg; lia).
    assert (Hd : 0 <= N / 10 ^ (- (q + k))).
    { destruct (Z.eq_dec (10 ^ (- (q + k))) 0) as [E0|E0].
      - rewrite E0. rewrite Zdiv_0_r. lia.
      - apply Z.div_pos; lia. }
    destruct (_ >? _); [lia|]. destruct (_ <? _); [lia|]. destruct (Z.odd _); lia.
Qed.

Lemma py_fixed_unfold n m e prec :
  py_fixed (FFin n m e) prec =
  let D := fixed_scaled m e prec in
  let ds := pad_zeros (prec + 1) (nat_digits D) in
  let ip := firstn (length ds - Z.to_nat prec) ds in
  let fp := skipn (length ds - Z.to_nat prec) ds in
  if prec <=? 0 then ip else ip ++ [ch_dot] ++ fp.
Proof.
  unfold py_fixed, fixed_scaled.
  destruct (if m <=? 0 then (0, 0) else exact_dec m e) as [N q]. reflexivity.
Qed.

Lemma py_fixed_digits n m e (k : nat) : (1 <= k)%nat ->
  py_fixed (FFin n m e) (Z.of_nat k) =
  let D := fixed_scaled m e (Z.of_nat k) in
  nat_digits (D / 10 ^ Z.of_nat k) ++ [ch_dot] ++ frac_digits k (D mod 10 ^ Z.of_nat k).
Proof.
  intro Hk. rewrite py_fixed_unfold.
  set (D := fixed_scaled m e (Z.of_nat k)).
  pose proof (fixed_scaled_nonneg m e (Z.of_nat k)) as HD. fold D in HD.
  cbv zeta.
  rewrite (pad_digits_split k D HD).
  set (A := nat_digits (D / 10 ^ Z.of_nat k)).
  set (B := frac_digits k (D mod 10 ^ Z.of_nat k)).
  assert (HB : length B = k) by apply frac_digits_length.
  rewrite Nat2Z.id.
  replace (length (A ++ B) - k)%nat with (length A) by (rewrite app_length; lia).
  rewrite firstn_app, Nat.sub_diag, firstn_all, firstn_O, app_nil_r.
  rewrite skipn_app, Nat.sub_diag, skipn_all, skipn_O. cbn [app].
  destruct (Z.leb_spec (Z.of_nat k) 0); [lia | reflexivity].
Qed.

(* ---------- int -> float is exact below 2^53 ---------- *)

Lemma strip_pos_spec : forall p e p' e', strip_pos p e = (p', e') -> 0 <= e ->
  e <= e' /\ Zpos p * 2 ^ e = Zpos p' * 2 ^ e'.
Proof.
  induction p as [p IH|p IH|]; intros e p' e' H He; cbn [strip_pos] in H.
  - inversion H; subst. split; lia.
  - apply IH in H; [|lia]. destruct H as [H1 H2]. split; [lia|].
    rewrite <- H2. rewrite Z.pow_add_r by lia. change (2 ^ 1) with 2.
    change (Z.pos p~0) with (2 * Z.pos p). ring.
  - inversion H; subst. split; lia.
Qed.

Lemma bits_le_53 a : 0 < a < 2 ^ 53 -> bits a <= 53.
Proof.
  intros [H0 H1]. unfold bits. destruct (Z.leb_spec a 0); [lia|].
  assert (Z.log2 a < 53) by (apply Z.log2_lt_pow2; lia). lia.
Qed.

Lemma of_Z_exact a : 0 < a < 2 ^ 53 ->
  exists m e, of_Z a = FFin false m e /\ 0 < m /\ 0 <= e /\ m * 2 ^ e = a.
Proof.
  intros Ha. unfold of_Z.
  destruct (Z.eqb_spec a 0); [lia|].
  destruct (Z.ltb_spec a 0); [lia|].
  rewrite Z.abs_eq by lia.
  unfold round64, round_gen.
  destruct (Z.leb_spec a 0); [lia|].
  pose proof (bits_le_53 a Ha) as Hb.
  assert (Hb0 : 0 < bits a).
  { unfold bits. destruct (Z.leb_spec a 0); [lia|]. pose proof (Z.log2_nonneg a). lia. }
  destruct (Z.leb_spec (Z.max (0 + bits a - 53) (-1074)) 0); [|lia].
  destruct (Z.gtb_spec (bits a + 0) 1024); [lia|].
  unfold norm. destruct a as [|p|p]; try lia.
  destruct (strip_pos p 0) as [p' e'] eqn:E.
  destruct (strip_pos_spec p 0 p' e' E ltac:(lia)) as [Hs1 Hs2].
  exists (Z.pos p'), e'. repeat split; try lia.
Qed.

Lemma fixed_scaled_int m e a k : 0 < m -> 0 <= e -> m * 2 ^ e = a -> 0 <= k ->
  fixed_scaled m e k = a * 10 ^ k.
Proof.
  intros Hm He Hv Hk. unfold fixed_scaled.
  destruct (Z.leb_spec m 0); [lia|].
  unfold exact_dec. destruct (Z.geb_spec e 0); [|lia].
  rewrite Z.shiftl_mul_pow2 by lia. rewrite Hv.
  destruct (Z.geb_spec (0 + k) 0); [|lia]. reflexivity.
Qed.

Lemma fixed_scaled_zero e k : 0 <= k -> fixed_scaled 0 e k = 0.
Proof.
  intro Hk. unfold fixed_scaled. change (0 <=? 0) with true. cbv beta iota zeta.
  destruct (Z.geb_spec (0 + k) 0); [apply Z.mul_0_l | lia].
Qed.

(* the scaled value of the specification is the one Python's format computes *)
Lemma fixed_scaled_spec n m e k :
  scaled_round (UFlt (FFin n m e)) k = Some (fixed_scaled m e k).
Proof.
  unfold scaled_round, fixed_scaled.
  destruct (Z.leb_spec m 0) as [Hm|Hm].
  - f_equal. cbv beta iota zeta.
    destruct (Z.geb_spec (0 + k) 0); [symmetry; apply Z.mul_0_l|].
    rewrite Zdiv_0_l. rewrite Z.mul_0_l, Z.sub_0_r, Z.mul_0_r.
    assert (Hp : 0 < 10 ^ (- (0 + k))) by (apply Z.pow_pos_nonneg; lia).
    destruct (Z.gtb_spec 0 (10 ^ (- (0 + k)))); [lia|].
    destruct (Z.ltb_spec 0 (10 ^ (- (0 + k)))); [reflexivity | lia].
  - destruct (exact_dec m e) as [N q] eqn:E. f_equal.
    destruct (Z.geb_spec (q + k) 0) as [Hs|Hs]; destruct (Z.leb_spec 0 (q + k)); try lia;
      try reflexivity.
    unfold rne_div. cbv zeta.
    assert (Hp : 0 < 10 ^ (- (q + k))) by (apply Z.pow_pos_nonneg; lia).
    set (p := 10 ^ (- (q + k))) in *.
    assert (Er : N - N / p * p = N mod p) by (rewrite Z.mod_eq by lia; ring).
    rewrite Er.
    destruct (Z.gtb_spec (2 * (N mod p)) p); destruct (Z.ltb_spec (2 * (N mod p)) p);
      destruct (Z.ltb_spec p (2 * (N mod p))); try lia; try reflexivity.
    rewrite <- Z.negb_odd. destruct (Z.odd (N / p)); reflexivity.
Qed.
