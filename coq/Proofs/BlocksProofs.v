(* Lemmas about Models/Blocks.v against Models/BlocksSpec.v *)
From Coq Require Import ZArith List Bool Lia.
From QV Require Import Blocks BlocksSpec.
Import ListNotations.
Open Scope Z_scope.

(* ---- basics ------------------------------------------------------------ *)

Lemma bkind_eqb_true a b : bkind_eqb a b = true -> a = b.
Proof. destruct a, b; simpl; congruence. Qed.

Lemma bkind_eqb_refl a : bkind_eqb a a = true.
Proof. destruct a; reflexivity. Qed.

Lemma bkind_eqb_false a b : bkind_eqb a b = false -> a <> b.
Proof. intros H E; subst; rewrite bkind_eqb_refl in H; discriminate. Qed.

Lemma opener_not_ender k b : opener k = Some b -> ender k = None.
Proof. destruct k; simpl; congruence. Qed.

Lemma ender_not_opener k b : ender k = Some b -> opener k = None.
Proof. destruct k; simpl; congruence. Qed.

Section TreeInd.
  Variable P : tree -> Prop.
  Hypothesis Hs : forall s, P (TStmt s).
  Hypothesis Hb : forall k o b e, Forall P b -> P (TBlock k o b e).
  Fixpoint tree_ind' (t : tree) : P t :=
    match t with
    | TStmt s => Hs s
    | TBlock k o b e =>
      Hb k o b e ((fix go (l : list tree) : Forall P l :=
                     match l with
                     | [] => Forall_nil _
                     | x :: r => Forall_cons _ (tree_ind' x) (go r)
                     end) b)
    end.
End TreeInd.

Lemma flatten_forest_app a b : flatten_forest (a ++ b) = flatten_forest a ++ flatten_forest b.
Proof. unfold flatten_forest. apply flat_map_app. Qed.

Lemma flatten_forest_cons t ts : flatten_forest (t :: ts) = flatten t ++ flatten_forest ts.
Proof. reflexivity. Qed.

(* ---- create_block against body_ok -------------------------------------- *)

Lemma if_scan_skip b1 : forall r,
  Forall (fun t => is_else t = false) b1 -> if_scan false (b1 ++ r) = if_scan false r.
Proof.
  induction b1 as [|t b1 IH]; intros r H; simpl; [reflexivity|].
  inversion H as [|? ? Ht Hr]; subst.
  destruct t as [s|k o b e]; simpl.
  - unfold is_else in Ht. destruct (sk s); try discriminate; apply IH; assumption.
  - apply IH; assumption.
Qed.

Lemma if_scan_after_else b :
  Forall (fun t => is_if_marker t = false) b -> if_scan true b = COk.
Proof.
  induction b as [|t b IH]; intros H; simpl; [reflexivity|].
  inversion H as [|? ? Ht Hr]; subst.
  destruct t as [s|k o b' e]; simpl.
  - unfold is_if_marker in Ht. destruct (sk s); try discriminate; apply IH; assumption.
  - apply IH; assumption.
Qed.

Lemma if_scan_complete b : if_body b -> if_scan false b = COk.
Proof.
  intros H. destruct H as [b H | b1 s b2 H1 Hs H2].
  - rewrite <- (app_nil_r b). rewrite if_scan_skip by assumption. reflexivity.
  - rewrite if_scan_skip by assumption. simpl. rewrite Hs.
    apply if_scan_after_else; assumption.
Qed.

Lemma if_scan_true_sound b :
  if_scan true b = COk -> Forall (fun t => is_if_marker t = false) b.
Proof.
  induction b as [|t b IH]; intros H; [constructor|].
  destruct t as [s|k o b' e]; simpl in H.
  - destruct (sk s) eqn:E; try discriminate;
      (constructor; [unfold is_if_marker; rewrite E; reflexivity | apply IH; assumption]).
  - constructor; [reflexivity | apply IH; assumption].
Qed.

Lemma if_body_cons t b : is_else t = false -> if_body b -> if_body (t :: b).
Proof.
  intros Ht H. destruct H as [b H | b1 s b2 H1 Hs H2].
  - apply ifb_noelse. constructor; assumption.
  - change (t :: b1 ++ TStmt s :: b2) with ((t :: b1) ++ TStmt s :: b2).
    apply ifb_else; try assumption. constructor; assumption.
Qed.

Lemma if_scan_false_sound b : if_scan false b = COk -> if_body b.
Proof.
  induction b as [|t b IH]; intros H.
  - apply ifb_noelse. constructor.
  - destruct t as [s|k o b' e]; simpl in H.
    + destruct (sk s) eqn:E;
        try (apply if_body_cons; [unfold is_else; rewrite E; reflexivity | apply IH; assumption]).
      (* SElse *)
      change (TStmt s :: b) with ([] ++ TStmt s :: b).
      apply ifb_else; [constructor | assumption | apply if_scan_true_sound; assumption].
    + apply if_body_cons; [reflexivity | apply IH; assumption].
Qed.

Lemma existsb_eqb_in n l : existsb (Z.eqb n) l = true <-> In n l.
Proof.
  rewrite existsb_exists. split.
  - intros [x [Hx E]]. apply Z.eqb_eq in E. subst. assumption.
  - intros H. exists n. split; [assumption | apply Z.eqb_refl].
Qed.

Lemma NoDup_snoc (x : Z) l : NoDup l -> ~ In x l -> NoDup (l ++ [x]).
Proof.
  induction l as [|y l IH]; intros Hn Hx; simpl.
  - constructor; [intros [] | constructor].
  - inversion Hn as [|? ? Hy Hl]; subst. constructor.
    + intros Hin. apply in_app_or in Hin. destruct Hin as [Hin | [E | []]].
      * contradiction.
      * subst. apply Hx. left. reflexivity.
    + apply IH; [assumption|]. intros Hin. apply Hx. right. assumption.
Qed.

Lemma type_scan_complete b : forall names ns,
  map field_name b = map Some ns -> NoDup (names ++ ns) -> type_scan names b = COk.
Proof.
  induction b as [|t b IH]; intros names ns Hm Hn; simpl; [reflexivity|].
  destruct ns as [|n ns]; [discriminate|]. simpl in Hm.
  inversion Hm as [[Ht Hr]].
  destruct t as [s|k o b' e]; simpl in Ht; [|discriminate].
  destruct (sk s) eqn:E; try discriminate. inversion Ht; subst name.
  destruct (existsb (Z.eqb n) names) eqn:Ex.
  - exfalso. apply existsb_eqb_in in Ex.
    apply NoDup_remove_2 in Hn. apply Hn. apply in_or_app. left. assumption.
  - apply (IH (names ++ [n]) ns); [assumption|].
    rewrite <- app_assoc. simpl. assumption.
Qed.

Lemma type_scan_sound b : forall names,
  NoDup names -> type_scan names b = COk ->
  exists ns, map field_name b = map Some ns /\ NoDup (names ++ ns).
Proof.
  induction b as [|t b IH]; intros names Hn H.
  - exists []. rewrite app_nil_r. split; [reflexivity | assumption].
  - destruct t as [s|k o b' e]; simpl in H; [|discriminate].
    destruct (sk s) eqn:E; try discriminate.
    destruct (existsb (Z.eqb name) names) eqn:Ex; [discriminate|].
    assert (Hn' : NoDup (names ++ [name])).
    { apply NoDup_snoc; [assumption|].
      intros Hin. apply existsb_eqb_in in Hin. congruence. }
    destruct (IH _ Hn' H) as [ns [Hm Hd]].
    exists (name :: ns). split.
    + simpl. rewrite E. f_equal. assumption.
    + rewrite <- app_assoc in Hd. simpl in Hd. assumption.
Qed.

Lemma opener_for k : opener k = Some BFor -> exists v, k = SFor v.
Proof. destruct k; simpl; try discriminate. eauto. Qed.
Lemma ender_for k : ender k = Some BFor -> exists v, k = SNext v.
Proof. destruct k; simpl; try discriminate. eauto. Qed.
Lemma opener_do k : opener k = Some BDo -> exists c, k = SDo c.
Proof. destruct k; simpl; try discriminate. eauto. Qed.
Lemma ender_do k : ender k = Some BDo -> exists c, k = SLoop c.
Proof. destruct k; simpl; try discriminate. eauto. Qed.

Lemma create_block_complete k o e b :
  opener (sk o) = Some k -> ender (sk e) = Some k -> body_ok false k o b e ->
  create_block k o e b = COk.
Proof.
  intros Ho He Hb. destruct k; simpl in *; try reflexivity.
  - apply if_scan_complete; assumption.
  - destruct (opener_for _ Ho) as [v Ev]. destruct (ender_for _ He) as [w Ew].
    unfold for_ok in Hb. rewrite Ev, Ew in *. destruct w as [w|]; [|reflexivity].
    subst. rewrite Z.eqb_refl. reflexivity.
  - destruct (opener_do _ Ho) as [c Ec]. destruct (ender_do _ He) as [d Ed].
    unfold do_ok in Hb. rewrite Ec, Ed in *. destruct c, d; try reflexivity. contradiction.
  - destruct Hb as [Hb | [s [r [Hb [Hs | [Hf _]]]]]]; subst; simpl; try reflexivity.
    + rewrite Hs. reflexivity.
    + discriminate.
  - destruct Hb as [ns [Hm Hn]]. apply (type_scan_complete b [] ns); assumption.
Qed.

Lemma create_block_sound k o e b :
  opener (sk o) = Some k -> ender (sk e) = Some k -> create_block k o e b = COk ->
  body_ok false k o b e.
Proof.
  intros Ho He H. destruct k; simpl in *; try exact I.
  - apply if_scan_false_sound; assumption.
  - destruct (opener_for _ Ho) as [v Ev]. destruct (ender_for _ He) as [w Ew].
    unfold for_ok. rewrite Ev, Ew in *. destruct w as [w|]; [|exact I].
    destruct (Z.eqb v w) eqn:E; [apply Z.eqb_eq; assumption | discriminate].
  - destruct (opener_do _ Ho) as [c Ec]. destruct (ender_do _ He) as [d Ed].
    unfold do_ok. rewrite Ec, Ed in *. destruct c, d; try exact I. discriminate.
  - unfold select_body. destruct b as [|t r]; [left; reflexivity|].
    destruct t as [s|k' o' b' e']; [|discriminate].
    destruct (sk s) eqn:E; try discriminate.
    right. exists s, r. split; [reflexivity | left; assumption].
  - destruct (type_scan_sound b [] (NoDup_nil _) H) as [ns [Hm Hn]].
    exists ns. split; assumption.
Qed.

(* ---- completeness of the assembler: a well-formed forest is re-assembled - *)

Lemma step_plain stack cur s :
  opener (sk s) = None -> ender (sk s) = None ->
  step stack cur s = SOk stack (cur ++ [TStmt s]).
Proof. intros Ho He. unfold step. rewrite Ho, He. reflexivity. Qed.

Lemma run_tree t : wfa t ->
  forall stack cur rest, run stack cur (flatten t ++ rest) = run stack (cur ++ [t]) rest.
Proof.
  induction t as [s | k o b e IH] using tree_ind'; intros Hw stack cur rest.
  - inversion Hw; subst. simpl. rewrite step_plain by assumption. reflexivity.
  - inversion Hw as [| ? ? ? ? Ho He Hkids Hbody]; subst.
    assert (Hforest : forall cur' rest',
      run ((k, o, cur) :: stack) cur' (flatten_forest b ++ rest')
      = run ((k, o, cur) :: stack) (cur' ++ b) rest').
    { clear Hw Hbody. induction b as [|t b IHb]; intros cur' rest'.
      - simpl. rewrite app_nil_r. reflexivity.
      - inversion IH as [|? ? IHt IHr]; subst. inversion Hkids as [|? ? Ht Hr]; subst.
        rewrite flatten_forest_cons, <- app_assoc. rewrite (IHt Ht).
        rewrite (IHb IHr Hr). rewrite <- app_assoc. reflexivity. }
    simpl. unfold step at 1. rewrite Ho.
    rewrite <- app_assoc. fold (flatten_forest b). rewrite Hforest. simpl.
    unfold step. rewrite (ender_not_opener _ _ He), He, bkind_eqb_refl.
    rewrite (create_block_complete k o e b Ho He Hbody). reflexivity.
Qed.

Lemma run_forest ts : Forall wfa ts ->
  forall stack cur rest,
    run stack cur (flatten_forest ts ++ rest) = run stack (cur ++ ts) rest.
Proof.
  induction ts as [|t ts IH]; intros Hw stack cur rest.
  - simpl. rewrite app_nil_r. reflexivity.
  - inversion Hw; subst. rewrite flatten_forest_cons, <- app_assoc.
    rewrite run_tree by assumption. rewrite IH by assumption.
    rewrite <- app_assoc. reflexivity.
Qed.

Lemma assemble_complete_asm ts : Forall wfa ts -> assemble (flatten_forest ts) = ROk ts.
Proof.
  intros Hw. unfold assemble. rewrite <- (app_nil_r (flatten_forest ts)).
  rewrite run_forest by assumption. reflexivity.
Qed.

(* ---- soundness of the assembler ---------------------------------------- *)

Fixpoint consumed (stack : list frame) (cur : list tree) : list stmt :=
  match stack with
  | [] => flatten_forest cur
  | (_, o, prev) :: st => consumed st prev ++ o :: flatten_forest cur
  end.

Definition frame_ok (f : frame) : Prop :=
  let '(k, o, prev) := f in opener (sk o) = Some k /\ Forall wfa prev.

Definition inv (stack : list frame) (cur : list tree) : Prop :=
  Forall frame_ok stack /\ Forall wfa cur.

Lemma consumed_app stack a b :
  consumed stack (a ++ b) = consumed stack a ++ flatten_forest b.
Proof.
  destruct stack as [|[[k o] prev] st]; simpl.
  - apply flatten_forest_app.
  - rewrite flatten_forest_app. rewrite <- app_assoc. reflexivity.
Qed.

Lemma step_sound stack cur s stack' cur' :
  step stack cur s = SOk stack' cur' -> inv stack cur ->
  inv stack' cur' /\ consumed stack' cur' = consumed stack cur ++ [s].
Proof.
  intros H [Hst Hcur]. unfold step in H.
  destruct (opener (sk s)) as [k|] eqn:Ho.
  - inversion H; subst. split.
    + split; [constructor; [split; assumption | assumption] | constructor].
    + simpl. reflexivity.
  - destruct (ender (sk s)) as [ke|] eqn:He.
    + destruct stack as [|[[ko o] prev] st]; [discriminate|].
      destruct (bkind_eqb ko ke) eqn:Ek; [|discriminate].
      apply bkind_eqb_true in Ek. subst ke.
      destruct (create_block ko o s cur) eqn:Ec; try discriminate.
      inversion H; subst. inversion Hst as [|? ? Hf Hst']; subst.
      simpl in Hf. destruct Hf as [Hoo Hprev].
      split.
      * split; [assumption|]. apply Forall_app. split; [assumption|].
        constructor; [|constructor].
        apply wfa_block; try assumption. apply create_block_sound; assumption.
      * rewrite consumed_app. simpl. rewrite app_nil_r.
        rewrite <- !app_assoc. simpl. reflexivity.
    + inversion H; subst. split.
      * split; [assumption|]. apply Forall_app. split; [assumption|].
        constructor; [apply wfa_stmt; assumption | constructor].
      * rewrite consumed_app. simpl. reflexivity.
Qed.

Lemma run_sound l : forall stack cur ts,
  run stack cur l = ROk ts -> inv stack cur ->
  Forall wfa ts /\ flatten_forest ts = consumed stack cur ++ l.
Proof.
  induction l as [|s l IH]; intros stack cur ts H Hinv; simpl in H.
  - destruct stack as [|[[k o] prev] st]; [|discriminate].
    inversion H; subst. destruct Hinv as [_ Hc]. split; [assumption|].
    simpl. rewrite app_nil_r. reflexivity.
  - destruct (step stack cur s) as [stack' cur'| |] eqn:Es; try discriminate.
    destruct (step_sound _ _ _ _ _ Es Hinv) as [Hinv' Hcons].
    destruct (IH _ _ _ H Hinv') as [Hw Hf]. split; [assumption|].
    rewrite Hf, Hcons, <- app_assoc. reflexivity.
Qed.

Lemma assemble_sound_asm l ts :
  assemble l = ROk ts -> Forall wfa ts /\ flatten_forest ts = l.
Proof.
  intros H. apply (run_sound l [] [] ts H). split; constructor.
Qed.

Lemma assemble_iff_balanced_asm l :
  (exists ts, assemble l = ROk ts) <-> balanced_asm l.
Proof.
  split.
  - intros [ts H]. exists ts. apply assemble_sound_asm; assumption.
  - intros [ts [Hw Hf]]. exists ts. subst l. apply assemble_complete_asm; assumption.
Qed.

(* the parse is unique *)
Lemma balanced_asm_unique ts1 ts2 :
  Forall wfa ts1 -> Forall wfa ts2 -> flatten_forest ts1 = flatten_forest ts2 -> ts1 = ts2.
Proof.
  intros H1 H2 E. apply assemble_complete_asm in H1. apply assemble_complete_asm in H2.
  rewrite E in H1. congruence.
Qed.
