(* Lemmas about the machine model used by C07 (totality, interrupt, trap causes). *)
From Coq Require Import ZArith List Bool Lia.
From QV Require Import Sx Strs Fl Cell Machine Cpu.
Import ListNotations.
Open Scope Z_scope.

(* ---------- keyboard interrupt ---------- *)

Definition interrupted (s : st) : st :=
  set_halt (set_last_trap (set_irq s false) (Some T_KEYBOARD_INTERRUPT) true) true H_TRAP.

Lemma interrupt_stops m s :
  irq s = true ->
  (ttarget_ s = TNone \/ handler_active s = true) ->
  tick m s = Next (interrupted s).
Proof.
  intros Hi Hh. unfold tick. rewrite Hi. unfold do_trap, interrupted.
  destruct s as [pc0 ppc stk hp cu hl rs lt kw tt ha ta iq dp di lr sc ev].
  cbn in *. destruct Hh as [-> | ->].
  - destruct ha; reflexivity.
  - reflexivity.
Qed.

Lemma interrupted_preserves s :
  pc (interrupted s) = pc s /\ stack (interrupted s) = stack s /\ heap (interrupted s) = heap s /\
  cur (interrupted s) = cur s /\ events (interrupted s) = events s /\
  data_part (interrupted s) = data_part s /\ data_idx (interrupted s) = data_idx s /\
  scr (interrupted s) = scr s /\
  halted (interrupted s) = true /\ reason (interrupted s) = H_TRAP /\
  last_trap (interrupted s) = Some T_KEYBOARD_INTERRUPT.
Proof. destruct s; cbn; repeat split; reflexivity. Qed.

(* with a handler armed (and not active) the interrupt is routed to the handler
   like any other error: this is why the property says "when no handler is armed" *)
Lemma interrupt_goes_to_handler m s a :
  irq s = true -> ttarget_ s = TAddr a -> handler_active s = false ->
  tick m s = Next (set_handler_active
                     (set_pc (set_last_trap (set_irq s false) (Some T_KEYBOARD_INTERRUPT) true) a) true).
Proof.
  intros Hi Ht Ha. unfold tick. rewrite Hi. unfold do_trap.
  destruct s; cbn in *. subst. reflexivity.
Qed.

(* ---------- a halted run stays where it is (harness loop) ---------- *)

Lemma run_halted m fuel s n : halted s = true -> run m (S fuel) s n = (s, StHalt, n).
Proof. intro H. cbn. rewrite H. reflexivity. Qed.

(* ---------- reported error category matches the cause ---------- *)

(* a trapping instruction with no handler armed halts with that trap code *)
Lemma do_trap_halts m c s :
  ttarget_ s = TNone ->
  do_trap m c true s = Next (set_halt (set_last_trap s (Some c) true) true H_TRAP).
Proof. intro H. unfold do_trap. destruct s; cbn in *. subst. destruct handler_active; reflexivity. Qed.

(* division by zero: INTEGER and LONG operands of \ , MOD and / *)
Lemma idiv_zero m s x r :
  stack s = CI 0 :: CI x :: r -> exec m IIdiv s = ZD (set_stack s r).
Proof. intro H. unfold exec, bind, pop. rewrite H. cbn. reflexivity. Qed.

Lemma mod_zero m s x r :
  stack s = CI 0 :: CI x :: r -> exec m IMod s = ZD (set_stack s r).
Proof. intro H. unfold exec, bind, pop. rewrite H. cbn. reflexivity. Qed.

Lemma idiv_zero_long m s x r :
  stack s = CL 0 :: CL x :: r -> exec m IIdiv s = ZD (set_stack s r).
Proof. intro H. unfold exec, bind, pop. rewrite H. cbn. reflexivity. Qed.

Lemma div_zero_int m s x r :
  stack s = CI 0 :: CI x :: r -> exec m IDiv s = ZD (set_stack s r).
Proof. intro H. unfold exec, bind, pop. rewrite H. cbn. reflexivity. Qed.

Lemma div_zero_double m s x r neg :
  stack s = CD (FFin neg 0 0) :: CD x :: r -> exec m IDiv s = ZD (set_stack s r).
Proof. intro H. unfold exec, bind, pop. rewrite H. cbn. reflexivity. Qed.

(* numeric overflow: a result outside the cell type *)
Lemma push_int_overflow z s :
  in_int z = false -> push 1 (PInt z) s = T T_INVALID_CELL_VALUE true s.
Proof. intro H. unfold push, bind, mk_cell. rewrite H. reflexivity. Qed.

Lemma push_long_overflow z s :
  in_long z = false -> push 2 (PInt z) s = T T_INVALID_CELL_VALUE true s.
Proof. intro H. unfold push, bind, mk_cell. rewrite H. reflexivity. Qed.

Lemma add_int_overflow m s x y r :
  stack s = CI y :: CI x :: r -> in_int (x + y) = false ->
  exec m IAdd s = T T_INVALID_CELL_VALUE true (set_stack s r).
Proof.
  intros H Ho. unfold exec, bind, pop. rewrite H. cbn.
  unfold push_opt, py_add, pv. rewrite push_int_overflow by exact Ho. reflexivity.
Qed.

Lemma mul_long_overflow m s x y r :
  stack s = CL y :: CL x :: r -> in_long (x * y) = false ->
  exec m IMul s = T T_INVALID_CELL_VALUE true (set_stack s r).
Proof.
  intros H Ho. unfold exec, arith_prelude, bind, pop. rewrite H. cbn.
  unfold push_opt, py_mul, pv. rewrite push_long_overflow by exact Ho. reflexivity.
Qed.

(* illegal function argument *)
Lemma chr_illegal m s c r :
  stack s = CI c :: r -> (c < 0 \/ c > 255) ->
  exec m IChr s = T T_INVALID_OPERAND_VALUE true (set_stack s r).
Proof.
  intros H Hc. unfold exec, pop_int, pop_ty, bind, pop. rewrite H. cbn.
  replace ((c <? 0) || (c >? 255)) with true; [reflexivity|].
  symmetry. apply orb_true_iff. destruct Hc; [left; apply Z.ltb_lt | right; apply Z.gtb_lt]; lia.
Qed.

Lemma asc_empty m s r :
  stack s = CStr [] :: r -> exec m IAsc s = T T_INVALID_OPERAND_VALUE true (set_stack s r).
Proof. intro H. unfold exec, pop_str, pop_ty, bind, pop. rewrite H. reflexivity. Qed.

Lemma space_negative m s n r :
  stack s = CI n :: r -> n < 0 -> exec m ISpace s = T T_INVALID_OPERAND_VALUE true (set_stack s r).
Proof.
  intros H Hn. unfold exec, pop_int, pop_ty, bind, pop. rewrite H. cbn.
  replace (n <? 0) with true by (symmetry; apply Z.ltb_lt; lia). reflexivity.
Qed.

(* device failure: reading past the last DATA item *)
Lemma read_past_data m s ty r :
  stack s = CI ty :: r -> nthZ (m_data m) (data_part s) = None ->
  dev_read m s = T T_DEVICE_ERROR true (set_stack s r).
Proof.
  intros H Hd. unfold dev_read, pop_int, pop_ty, bind, pop, get. rewrite H. cbn.
  destruct s; cbn in *. rewrite Hd. reflexivity.
Qed.

(* ---------- the guard-free part of totality: tick is a total function whose
   result is one of three shapes; host exceptions are exactly the Crash shape *)
Lemma tick_shape m s :
  (exists s', tick m s = Next s') \/ (exists k s', tick m s = Crash k s') \/
  (exists s', tick m s = NeedInput s').
Proof. destruct (tick m s); eauto. Qed.
