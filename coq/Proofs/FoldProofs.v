(* Lemmas about Models/Fold.v: the folder as it is (sound on integer operands,
   refuted elsewhere) and the folder after fixes/C02-fold.diff (sound). *)
From Coq Require Import ZArith List Bool Lia ZifyBool.
From QV Require Import Sx Strs Fl Dec NumFmt Cell Machine Cpu Fold.
Import ListNotations.
Open Scope Z_scope.
Ltac Zify.zify_post_hook ::= Z.to_euclidean_division_equations.

(* ---------- the state monad on a known stack ---------- *)

Definition st_push (s : st) (c : cell) : st := set_stack s (c :: stack s).

Lemma stack_set_stack s l : stack (set_stack s l) = l.
Proof. reflexivity. Qed.

Lemma set_stack_set_stack s l l' : set_stack (set_stack s l) l' = set_stack s l'.
Proof. reflexivity. Qed.

Lemma push_cell_eq c s : push_cell c s = R tt (st_push s c).
Proof. reflexivity. Qed.

Lemma pop_cons s c r : stack s = c :: r -> pop s = R c (set_stack s r).
Proof. intros H. unfold pop. rewrite H. reflexivity. Qed.

Lemma run_instrs_app m a b s :
  run_instrs m (a ++ b) s =
  match run_instrs m a s with
  | R _ s' => run_instrs m b s'
  | T c k s' => T c k s'
  | ZD s' => ZD s'
  | X k s' => X k s'
  | NI s' => NI s'
  end.
Proof.
  revert s. induction a as [|i a IH]; intros s; simpl.
  - reflexivity.
  - unfold bind. destruct (exec m i s); try reflexivity. apply IH.
Qed.

(* ---------- integer ranges ---------- *)

Lemma wrap16_in_int x : (wrap 16 x =? x) = in_int x.
Proof.
  unfold wrap, in_int. change (2 ^ (16 - 1)) with 32768. change (2 ^ 16) with 65536.
  destruct (Z.eqb_spec ((x + 32768) mod 65536 - 32768) x); lia.
Qed.

Lemma wrap64_long x : - 2 ^ 63 <= x < 2 ^ 63 -> (wrap 64 x =? x) = true.
Proof.
  unfold wrap. change (2 ^ (64 - 1)) with 9223372036854775808.
  change (2 ^ 64) with 18446744073709551616. change (2 ^ 63) with 9223372036854775808.
  intros H. apply Z.eqb_eq. lia.
Qed.

Definition in_ty (ty z : Z) : bool := if ty =? 1 then in_int z else in_long z.
Definition cell_i (ty z : Z) : cell := if ty =? 1 then CI z else CL z.

(* x in [-2^n, 2^n)  <->  x / 2^n is 0 or -1: closed under the bitwise operators *)
Lemma range_div n x : 0 < n -> (- 2 ^ n <= x < 2 ^ n <-> (x / 2 ^ n = 0 \/ x / 2 ^ n = -1)).
Proof.
  intros Hn. assert (0 < 2 ^ n) by (apply Z.pow_pos_nonneg; lia). split; intros; nia.
Qed.

Lemma range_bitop (f : Z -> Z -> Z) n a b :
  0 < n ->
  (forall x y k, 0 <= k -> Z.shiftr (f x y) k = f (Z.shiftr x k) (Z.shiftr y k)) ->
  f 0 0 = 0 \/ f 0 0 = -1 -> f 0 (-1) = 0 \/ f 0 (-1) = -1 ->
  f (-1) 0 = 0 \/ f (-1) 0 = -1 -> f (-1) (-1) = 0 \/ f (-1) (-1) = -1 ->
  - 2 ^ n <= a < 2 ^ n -> - 2 ^ n <= b < 2 ^ n -> - 2 ^ n <= f a b < 2 ^ n.
Proof.
  intros Hn Hs H00 H01 H10 H11 Ha Hb.
  apply range_div in Ha; [|lia]. apply range_div in Hb; [|lia]. apply range_div; [lia|].
  rewrite <- !Z.shiftr_div_pow2 in * by lia. rewrite Hs by lia.
  destruct Ha as [-> | ->], Hb as [-> | ->]; assumption.
Qed.

Lemma land_range n a b : 0 < n -> - 2 ^ n <= a < 2 ^ n -> - 2 ^ n <= b < 2 ^ n ->
  - 2 ^ n <= Z.land a b < 2 ^ n.
Proof.
  intros. apply (range_bitop Z.land); auto.
  intros; apply Z.shiftr_land.
Qed.

Lemma lor_range n a b : 0 < n -> - 2 ^ n <= a < 2 ^ n -> - 2 ^ n <= b < 2 ^ n ->
  - 2 ^ n <= Z.lor a b < 2 ^ n.
Proof.
  intros. apply (range_bitop Z.lor); auto.
  intros; apply Z.shiftr_lor.
Qed.

Lemma lxor_range n a b : 0 < n -> - 2 ^ n <= a < 2 ^ n -> - 2 ^ n <= b < 2 ^ n ->
  - 2 ^ n <= Z.lxor a b < 2 ^ n.
Proof.
  intros. apply (range_bitop Z.lxor); auto.
  intros; apply Z.shiftr_lxor.
Qed.

Lemma lnot_range n a : - 2 ^ n <= a < 2 ^ n -> - 2 ^ n <= Z.lnot a < 2 ^ n.
Proof. unfold Z.lnot. lia. Qed.

(* ---------- integer literals and operators on the machine ---------- *)

Definition lit (ty z : Z) : cexpr := CNum ty (PInt z).

Lemma push_int_ok ty z s : ty = 1 \/ ty = 2 ->
  push ty (PInt z) s =
  if in_ty ty z then R tt (st_push s (cell_i ty z)) else T T_INVALID_CELL_VALUE true s.
Proof.
  intros [-> | ->]; unfold push, bind, in_ty, cell_i; simpl.
  - destruct (in_int z); reflexivity.
  - destruct (in_long z); reflexivity.
Qed.

Lemma exec_lit_int m ty z : ty = 1 \/ ty = 2 -> in_ty ty z = true ->
  exists i, push_lit ty (PInt z) = CgOk [i] /\
            forall s, exec m i s = R tt (st_push s (cell_i ty z)).
Proof.
  intros Hty Hz. unfold push_lit, small_const.
  destruct ((-2 <=? z) && (z <=? 2)).
  - eexists; split; [reflexivity|]. intros s.
    assert (E : exec m (IPushC ty z) s = push ty (PInt z) s) by (destruct Hty as [-> | ->]; reflexivity).
    rewrite E, push_int_ok, Hz by assumption. reflexivity.
  - destruct Hty as [-> | ->]; unfold in_ty in Hz; simpl in Hz; rewrite Hz.
    + eexists; split; [reflexivity|]. intros s. simpl. rewrite (push_int_ok 1) by auto.
      unfold in_ty; simpl. rewrite Hz. reflexivity.
    + eexists; split; [reflexivity|]. intros s. simpl. rewrite (push_int_ok 2) by auto.
      unfold in_ty; simpl. rewrite Hz. reflexivity.
Qed.

Definition chk (ty x : Z) : rres :=
  if in_ty ty x then RVal (cell_i ty x) else RTrap T_INVALID_CELL_VALUE.

Definition int_bin_result (ty : Z) (op : binop) (a b : Z) : rres :=
  match op with
  | OAdd => chk ty (a + b) | OSub => chk ty (a - b) | OMul => chk ty (a * b)
  | OAnd => chk ty (Z.land a b) | OOr => chk ty (Z.lor a b) | OXor => chk ty (Z.lxor a b)
  | OEqv => chk ty (Z.lnot (Z.lxor a b)) | OImp => chk ty (Z.lor (Z.lnot a) b)
  | OMod => if b =? 0 then RTrap T_DIVISION_BY_ZERO else chk ty (a mod b)
  | OIntdiv => if b =? 0 then RTrap T_DIVISION_BY_ZERO else chk ty (a / b)
  | OEq | ONe | OLt | OGt | OLe | OGe => RVal (CI (cmp_int op a b))
  | ODiv | OExp => RUnmodelled
  end.

Definition int_op (op : binop) : bool :=
  match op with ODiv | OExp => false | _ => true end.

Local Opaque in_int in_long push_lit.

Lemma rt_int_bin ty op a b : ty = 1 \/ ty = 2 -> int_op op = true ->
  in_ty ty a = true -> in_ty ty b = true ->
  rt_eval (CBin op (lit ty a) (lit ty b)) = int_bin_result ty op a b.
Proof.
  intros Hty Hop Ha Hb.
  set (m := expr_module []).
  destruct (exec_lit_int m ty a Hty Ha) as (ia & Pa & Ea).
  destruct (exec_lit_int m ty b Hty Hb) as (ib & Pb & Eb).
  unfold rt_eval, cg_expr, lit.
  destruct Hty as [-> | ->]; destruct op; try discriminate Hop; clear Hop;
    cbn -[in_int in_long push_lit exec];
    rewrite Pa, Pb; cbn -[in_int in_long push_lit exec];
    fold m; unfold bind; rewrite Ea, Eb.
  all: unfold int_bin_result, chk, in_ty, cell_i.
  all: cbn -[in_int in_long].
  all: try (destruct (b =? 0); [reflexivity|]; cbn -[in_int in_long]).
  all: rewrite ?push_int_ok by auto.
  all: unfold in_ty, cell_i; cbn -[in_int in_long].
  (* arithmetic / logical: one range test *)
  all: try (match goal with |- context [in_int ?x] => destruct (in_int x) end; reflexivity).
  all: try (match goal with |- context [in_long ?x] => destruct (in_long x) end; reflexivity).
  (* comparisons *)
  all: unfold cmp_int, qbool.
  all: destruct (Z.compare_spec a b) as [E | E | E];
       [ subst b; rewrite ?Z.eqb_refl, ?Z.ltb_irrefl, ?Z.leb_refl, ?Z.gtb_ltb, ?Z.geb_leb, ?Z.ltb_irrefl, ?Z.leb_refl
       | replace (a =? b) with false by lia; replace (a <? b) with true by lia;
         replace (a >? b) with false by lia; replace (a <=? b) with true by lia;
         replace (a >=? b) with false by lia
       | replace (a =? b) with false by lia; replace (a <? b) with false by lia;
         replace (a >? b) with true by lia; replace (a <=? b) with false by lia;
         replace (a >=? b) with true by lia ].
  all: try reflexivity.
Qed.

Definition wrapok (ty x : Z) : bool := if ty =? 1 then wrap 16 x =? x else wrap 64 x =? x.

Definition chkf (T x : Z) : foldres := if wrapok T x then Folded T (PInt x) else NotFolded.

Definition int_bin_fold (ty : Z) (op : binop) (a b : Z) : foldres :=
  match op with
  | OAdd => chkf ty (a + b) | OSub => chkf ty (a - b) | OMul => chkf ty (a * b)
  | OAnd => chkf ty (Z.land a b) | OOr => chkf ty (Z.lor a b) | OXor => chkf ty (Z.lxor a b)
  | OEqv => chkf ty (Z.lnot (Z.lxor a b)) | OImp => chkf ty (Z.lor (Z.lnot a) b)
  | OMod => if b =? 0 then NotFolded else chkf ty (a mod b)
  | OIntdiv => if b =? 0 then NotFolded else chkf ty (a / b)
  | OEq | ONe | OLt | OGt | OLe | OGe => Folded 1 (PInt (cmp_int op a b))
  | ODiv | OExp => FoldUnmodelled
  end.

Local Opaque wrap.

Lemma fold_int_bin ty op a b : ty = 1 \/ ty = 2 -> int_op op = true ->
  fold (CBin op (lit ty a) (lit ty b)) = int_bin_fold ty op a b.
Proof.
  intros Hty Hop. unfold fold, lit.
  destruct Hty as [-> | ->]; destruct op; try discriminate Hop; clear Hop;
    unfold int_bin_fold, chkf, wrapok; cbn -[wrap];
    try (destruct (b =? 0); [reflexivity|]; cbn -[wrap]);
    try (match goal with |- context [wrap ?n ?x =? ?x] => destruct (wrap n x =? x) end);
    reflexivity.
Qed.

(* ---------- soundness statement for one constant expression ---------- *)

Definition sound_at (e : cexpr) : Prop :=
  (forall ty v, fold e = Folded ty v ->
     exists c, cell_of_val ty v = Some c /\ rt_eval e = RVal c) /\
  (forall code, rt_eval e = RTrap code -> fold e = NotFolded) /\
  (forall k, fold e <> CompilerCrash k).

Definition int_ops : list binop :=
  [OAdd; OSub; OMul; OAnd; OOr; OXor; OEqv; OImp; OMod; OIntdiv; OEq; ONe; OLt; OGt; OLe; OGe].

Lemma int_ops_int_op op : In op int_ops -> int_op op = true.
Proof. unfold int_ops; simpl; intuition subst; reflexivity. Qed.

Lemma sound_chk ty x e : ty = 1 \/ ty = 2 ->
  fold e = chkf ty x -> rt_eval e = chk ty x -> wrapok ty x = in_ty ty x -> sound_at e.
Proof.
  intros Hty Hf Hr Hw. unfold sound_at, chkf, chk in *. rewrite Hf, Hr, Hw.
  destruct (in_ty ty x); repeat split; intros; try discriminate.
  inversion H; subst. exists (cell_i ty0 x). split; [|reflexivity].
  destruct Hty as [-> | ->]; reflexivity.
Qed.

Lemma sound_const e ty z c :
  fold e = Folded ty (PInt z) -> rt_eval e = RVal c -> cell_of_val ty (PInt z) = Some c -> sound_at e.
Proof.
  intros Hf Hr Hc. unfold sound_at. rewrite Hf, Hr. repeat split; intros; try discriminate.
  inversion H; subst. eauto.
Qed.

Lemma sound_notfolded e code :
  fold e = NotFolded -> rt_eval e = RTrap code -> sound_at e.
Proof.
  intros Hf Hr. unfold sound_at. rewrite Hf, Hr. repeat split; intros; discriminate.
Qed.

Theorem fold_sound_int : forall op a b, In op int_ops -> in_int a = true -> in_int b = true ->
  sound_at (CBin op (CNum 1 (PInt a)) (CNum 1 (PInt b))).
Proof.
  intros op a b Hop Ha Hb.
  pose proof (int_ops_int_op op Hop) as Hi.
  pose proof (fold_int_bin 1 op a b (or_introl eq_refl) Hi) as Hf.
  pose proof (rt_int_bin 1 op a b (or_introl eq_refl) Hi Ha Hb) as Hr.
  unfold lit in *.
  assert (W : forall x, wrapok 1 x = in_ty 1 x) by (intros; apply wrap16_in_int).
  destruct op; try discriminate Hi; unfold int_bin_fold in Hf; unfold int_bin_result in Hr;
    try (eapply (sound_chk 1); eauto; fail);
    try (destruct (b =? 0);
         [ eapply sound_notfolded; eauto | eapply (sound_chk 1); eauto ]; fail);
    eapply sound_const; eauto; reflexivity.
Qed.


(* ---------- LONG operands ---------- *)

Transparent in_int in_long.
Lemma in_long_iff z : in_long z = true <-> - 2 ^ 31 <= z < 2 ^ 31.
Proof. unfold in_long. change (2 ^ 31) with 2147483648. lia. Qed.
Lemma in_int_iff z : in_int z = true <-> - 2 ^ 15 <= z < 2 ^ 15.
Proof. unfold in_int. change (2 ^ 15) with 32768. lia. Qed.
Opaque in_int in_long.

Lemma in_long_wrapok x : in_long x = true -> wrapok 2 x = in_ty 2 x.
Proof.
  intros H. unfold wrapok, in_ty. simpl. rewrite H. apply wrap64_long.
  apply in_long_iff in H. change (2 ^ 31) with 2147483648 in H.
  change (2 ^ 63) with 9223372036854775808. lia.
Qed.

Definition long_ops : list binop :=
  [OAnd; OOr; OXor; OEqv; OImp; OMod; OEq; ONe; OLt; OGt; OLe; OGe].

(* the operators whose result can leave the LONG range *)
Definition long_arith_ops : list binop := [OAdd; OSub; OMul; OIntdiv].

Definition long_raw (op : binop) (a b : Z) : Z :=
  match op with
  | OAdd => a + b | OSub => a - b | OMul => a * b | OIntdiv => a / b
  | OAnd => Z.land a b | OOr => Z.lor a b | OXor => Z.lxor a b
  | OEqv => Z.lnot (Z.lxor a b) | OImp => Z.lor (Z.lnot a) b
  | OMod => a mod b
  | _ => 0
  end.

Lemma long_logical_in_long op a b : In op [OAnd; OOr; OXor; OEqv; OImp] ->
  in_long a = true -> in_long b = true -> in_long (long_raw op a b) = true.
Proof.
  intros Hop Ha Hb. apply in_long_iff in Ha. apply in_long_iff in Hb. apply in_long_iff.
  destruct Hop as [<- | [<- | [<- | [<- | [<- | []]]]]]; unfold long_raw.
  - apply land_range; auto; lia.
  - apply lor_range; auto; lia.
  - apply lxor_range; auto; lia.
  - apply lnot_range. apply lxor_range; auto; lia.
  - apply lor_range; auto; try lia. apply lnot_range; auto.
Qed.

Lemma mod_in_long a b : in_long b = true -> b <> 0 -> in_long (a mod b) = true.
Proof.
  intros Hb Hn. apply in_long_iff in Hb. apply in_long_iff.
  change (2 ^ 31) with 2147483648 in *.
  destruct (Z_lt_le_dec 0 b) as [Hp | Hp].
  - pose proof (Z.mod_pos_bound a b Hp) as Hm. set (r := a mod b) in *. clearbody r. lia.
  - assert (Hq : b < 0) by lia.
    pose proof (Z.mod_neg_bound a b Hq) as Hm. set (r := a mod b) in *. clearbody r. lia.
Qed.

Theorem fold_sound_long : forall op a b, In op long_ops -> in_long a = true -> in_long b = true ->
  sound_at (CBin op (CNum 2 (PInt a)) (CNum 2 (PInt b))).
Proof.
  intros op a b Hop Ha Hb.
  assert (Hi : int_op op = true) by (unfold long_ops in Hop; simpl in Hop; intuition subst; reflexivity).
  pose proof (fold_int_bin 2 op a b (or_intror eq_refl) Hi) as Hf.
  pose proof (rt_int_bin 2 op a b (or_intror eq_refl) Hi Ha Hb) as Hr.
  unfold lit in *.
  assert (L : forall o, In o [OAnd; OOr; OXor; OEqv; OImp] -> wrapok 2 (long_raw o a b) = in_ty 2 (long_raw o a b))
    by (intros; apply in_long_wrapok, long_logical_in_long; auto).
  unfold long_ops in Hop; simpl in Hop.
  destruct Hop as [<- | [<- | [<- | [<- | [<- | [<- | Hop]]]]]];
    unfold int_bin_fold in Hf; unfold int_bin_result in Hr.
  - eapply (sound_chk 2); eauto. apply (L OAnd); simpl; auto.
  - eapply (sound_chk 2); eauto. apply (L OOr); simpl; auto.
  - eapply (sound_chk 2); eauto. apply (L OXor); simpl; auto 6.
  - eapply (sound_chk 2); eauto. apply (L OEqv); simpl; auto 6.
  - eapply (sound_chk 2); eauto. apply (L OImp); simpl; auto 8.
  - destruct (Z.eqb_spec b 0).
    + eapply sound_notfolded; eauto.
    + eapply (sound_chk 2); eauto. apply in_long_wrapok, mod_in_long; auto.
  - destruct Hop as [<- | [<- | [<- | [<- | [<- | [<- | []]]]]]];
      eapply sound_const; eauto; reflexivity.
Qed.

(* + - * \ on LONG operands: sound exactly when the result is a LONG; the folder
   checks 64 bits (ctypes.c_long), so every result passes its test *)
Theorem fold_long_arith_partial : forall op a b, In op long_arith_ops ->
  in_long a = true -> in_long b = true ->
  in_long (long_raw op a b) = true ->
  sound_at (CBin op (CNum 2 (PInt a)) (CNum 2 (PInt b))).
Proof.
  intros op a b Hop Ha Hb Hg.
  assert (Hi : int_op op = true) by (unfold long_arith_ops in Hop; simpl in Hop; intuition subst; reflexivity).
  pose proof (fold_int_bin 2 op a b (or_intror eq_refl) Hi) as Hf.
  pose proof (rt_int_bin 2 op a b (or_intror eq_refl) Hi Ha Hb) as Hr.
  unfold lit in *. unfold long_arith_ops in Hop; simpl in Hop.
  destruct Hop as [<- | [<- | [<- | [<- | []]]]];
    unfold int_bin_fold in Hf; unfold int_bin_result in Hr; simpl in Hg.
  - eapply (sound_chk 2); eauto. apply in_long_wrapok; auto.
  - eapply (sound_chk 2); eauto. apply in_long_wrapok; auto.
  - eapply (sound_chk 2); eauto. apply in_long_wrapok; auto.
  - destruct (Z.eqb_spec b 0).
    + eapply sound_notfolded; eauto.
    + eapply (sound_chk 2); eauto. apply in_long_wrapok; auto.
Qed.

(* the folder never refuses + - * on two LONG literals: its range test is 64 bits wide *)
Lemma fold_long_arith_always_folds : forall op a b, In op [OAdd; OSub; OMul] ->
  in_long a = true -> in_long b = true ->
  fold (CBin op (CNum 2 (PInt a)) (CNum 2 (PInt b))) = Folded 2 (PInt (long_raw op a b)).
Proof.
  intros op a b Hop Ha Hb.
  apply in_long_iff in Ha. apply in_long_iff in Hb. change (2 ^ 31) with 2147483648 in *.
  assert (Hi : int_op op = true) by (simpl in Hop; intuition subst; reflexivity).
  pose proof (fold_int_bin 2 op a b (or_intror eq_refl) Hi) as Hf. unfold lit in Hf. rewrite Hf.
  simpl in Hop. destruct Hop as [<- | [<- | [<- | []]]]; unfold int_bin_fold, chkf, wrapok; simpl;
    rewrite wrap64_long; try reflexivity; change (2 ^ 63) with 9223372036854775808; nia.
Qed.

(* ---------- refutations (witnesses evaluated by the kernel) ---------- *)

Definition f_1_5 : fl := FFin false 3 (-1).
Definition f_1_6 : fl := fl_of_bits 4609884578576439706.
Definition f_0_1 : fl := fl_of_bits 4591870180066957722.
Definition f_2_5 : fl := FFin false 5 (-1).
Definition f_3e10 : fl := fl_of_bits 4763665526503243776.
Definition f_1e10 : fl := fl_of_bits 4756540486875873280.
Definition f_3e38 : fl := fl_of_bits 5182576905729208970.

(* D02: 2000000000& + 2000000000& *)
Theorem fold_long_overflow_refuted :
  exists a b v, in_long a = true /\ in_long b = true /\
    fold (CBin OAdd (CNum 2 (PInt a)) (CNum 2 (PInt b))) = Folded 2 (PInt v) /\
    in_long v = false /\
    rt_eval (CBin OAdd (CNum 2 (PInt a)) (CNum 2 (PInt b))) = RTrap T_INVALID_CELL_VALUE /\
    rt_eval (CNum 2 (PInt v)) = RAsmCrash KStruct.
Proof. exists 2000000000, 2000000000, 4000000000. vm_compute. repeat split; reflexivity. Qed.

(* -2147483648& \ -1& *)
Theorem fold_long_intdiv_refuted :
  exists a b v, in_long a = true /\ in_long b = true /\
    fold (CBin OIntdiv (CNum 2 (PInt a)) (CNum 2 (PInt b))) = Folded 2 (PInt v) /\
    in_long v = false /\
    rt_eval (CBin OIntdiv (CNum 2 (PInt a)) (CNum 2 (PInt b))) = RTrap T_INVALID_CELL_VALUE.
Proof. exists (-2147483648), (-1), 2147483648. vm_compute. repeat split; reflexivity. Qed.

(* D01: 1.5 < 1.6 *)
Theorem fold_cmp_float_refuted :
  fold (CBin OLt (CNum 3 (PFlt f_1_5)) (CNum 3 (PFlt f_1_6))) = Folded 1 (PInt 0) /\
  rt_eval (CBin OLt (CNum 3 (PFlt f_1_5)) (CNum 3 (PFlt f_1_6))) = RVal (CI (-1)).
Proof. vm_compute. split; reflexivity. Qed.

(* D03: "a" = "b" crashes the compiler; "1" = "2" is folded to 12 *)
Theorem fold_string_cmp_refuted :
  fold (CBin OEq (CStrLit [97]) (CStrLit [98])) = CompilerCrash KValue /\
  rt_eval (CBin OEq (CStrLit [97]) (CStrLit [98])) = RVal (CI 0) /\
  fold (CBin OEq (CStrLit [49]) (CStrLit [50])) = Folded 1 (PInt 12) /\
  rt_eval (CBin OEq (CStrLit [49]) (CStrLit [50])) = RVal (CI 0).
Proof. vm_compute. repeat split; reflexivity. Qed.

(* D04 / D33: the clamp of UnaryOp.eval *)
Theorem fold_neg_clamp_refuted :
  (* -(3e10#) becomes -2147483648# *)
  fold (CUn UNeg (CNum 4 (PFlt f_3e10))) = Folded 4 (PFlt (of_Z (-2147483648))) /\
  rt_eval (CUn UNeg (CNum 4 (PFlt f_3e10))) = RVal (CD (fneg f_3e10)) /\
  (* -(-32768%) overflows at run time, is folded to -32768 *)
  fold (CUn UNeg (CNum 1 (PInt (-32768)))) = Folded 1 (PInt (-32768)) /\
  rt_eval (CUn UNeg (CNum 1 (PInt (-32768)))) = RTrap T_INVALID_CELL_VALUE /\
  (* NOT 1e10# overflows at run time, is folded to -2147483648 *)
  fold (CUn UNot (CNum 4 (PFlt f_1e10))) = Folded 2 (PInt (-2147483648)) /\
  rt_eval (CUn UNot (CNum 4 (PFlt f_1e10))) = RTrap T_INVALID_CELL_VALUE.
Proof. vm_compute. repeat split; reflexivity. Qed.

(* a SINGLE literal keeps its double value in the folder, the machine loads it rounded *)
Theorem fold_single_literal_refuted :
  exists v, fold (CBin OAdd (CNum 3 (PFlt f_0_1)) (CNum 4 (PFlt f_one))) = Folded 4 (PFlt v) /\
            rt_eval (CBin OAdd (CNum 3 (PFlt f_0_1)) (CNum 4 (PFlt f_one))) <> RVal (CD v).
Proof.
  exists (match fold (CBin OAdd (CNum 3 (PFlt f_0_1)) (CNum 4 (PFlt f_one))) with
          | Folded _ (PFlt v) => v | _ => FNaN end).
  split; [vm_compute; reflexivity | vm_compute; discriminate].
Qed.

(* a SINGLE sum that overflows is folded into a literal the assembler cannot encode *)
Theorem fold_single_overflow_refuted :
  exists v, fold (CBin OAdd (CNum 3 (PFlt f_3e38)) (CNum 3 (PFlt f_3e38))) = Folded 3 (PFlt v) /\
            rt_eval (CBin OAdd (CNum 3 (PFlt f_3e38)) (CNum 3 (PFlt f_3e38))) = RTrap T_INVALID_CELL_VALUE /\
            rt_eval (CNum 3 (PFlt v)) = RAsmCrash KOverflow.
Proof.
  exists (match fold (CBin OAdd (CNum 3 (PFlt f_3e38)) (CNum 3 (PFlt f_3e38))) with
          | Folded _ (PFlt v) => v | _ => FNaN end).
  vm_compute. repeat split; reflexivity.
Qed.

(* \ on a float operand: typed SINGLE and folded with float floor division,
   computed on LONG operands (rounded) at run time *)
Theorem fold_intdiv_float_refuted :
  fold (CBin OIntdiv (CNum 1 (PInt 7)) (CNum 3 (PFlt f_2_5))) = Folded 3 (PFlt (of_Z 2)) /\
  rt_eval (CBin OIntdiv (CNum 1 (PInt 7)) (CNum 3 (PFlt f_2_5))) = RVal (CL 3).
Proof. vm_compute. split; reflexivity. Qed.

(* ^ with a negative exponent: TypeError in the compiler (D32 at run time: 0) *)
Theorem fold_exp_negative_refuted :
  fold (CBin OExp (CNum 1 (PInt 2)) (CNum 1 (PInt (-1)))) = CompilerCrash KType /\
  rt_eval (CBin OExp (CNum 1 (PInt 2)) (CNum 1 (PInt (-1)))) = RVal (CI 0).
Proof. vm_compute. split; reflexivity. Qed.

(* the folded literal -0# is assembled as push0#: the sign is lost *)
Theorem fold_negative_zero_refuted :
  fold (CUn UNeg (CNum 4 (PFlt (fzero false)))) = Folded 4 (PFlt (fzero true)) /\
  rt_eval (CUn UNeg (CNum 4 (PFlt (fzero false)))) = RVal (CD (fzero true)) /\
  rt_eval (CNum 4 (PFlt (fzero true))) = RVal (CD (fzero false)).
Proof. vm_compute. repeat split; reflexivity. Qed.

(* logical operators on a float operand are not range checked: 1e10# AND 1e10# *)
Theorem fold_logical_float_refuted :
  exists v, fold (CBin OAnd (CNum 4 (PFlt f_1e10)) (CNum 4 (PFlt f_1e10))) = Folded 2 (PInt v) /\
            in_long v = false /\
            rt_eval (CBin OAnd (CNum 4 (PFlt f_1e10)) (CNum 4 (PFlt f_1e10))) = RTrap T_INVALID_CELL_VALUE.
Proof. exists 10000000000. vm_compute. repeat split; reflexivity. Qed.

(* ---------- static array bounds ---------- *)

Theorem static_bound_agrees : forall ty z, ty = 1 \/ ty = 2 -> in_ty ty z = true ->
  static_bound (CNum ty (PInt z)) = BVal z /\ rt_bound (CNum ty (PInt z)) = RVal (CL z).
Proof.
  intros ty z Hty Hz. split.
  - destruct Hty as [-> | ->]; reflexivity.
  - set (m := expr_module []).
    destruct (exec_lit_int m ty z Hty Hz) as (i & Pi & Ei).
    assert (Hl : in_long z = true).
    { destruct Hty as [-> | ->]; unfold in_ty in Hz; simpl in Hz; auto.
      apply in_int_iff in Hz. apply in_long_iff.
      change (2 ^ 15) with 32768 in Hz. change (2 ^ 31) with 2147483648. lia. }
    unfold rt_bound, cg_expr.
    destruct Hty as [-> | ->]; cbn -[in_int in_long push_lit exec]; rewrite Pi;
      cbn -[in_int in_long push_lit exec]; fold m; unfold bind; rewrite Ei;
      unfold cell_i; cbn -[in_int in_long]; try reflexivity.
    rewrite (push_int_ok 2) by auto. unfold in_ty, cell_i. simpl. rewrite Hl. reflexivity.
Qed.

(* a bound whose folder value differs from the run-time value: 0 TO -(1.5 < 1.6) *)
Theorem static_bound_refuted :
  static_bound (CUn UNeg (CParen (CBin OLt (CNum 3 (PFlt f_1_5)) (CNum 3 (PFlt f_1_6))))) = BVal 0 /\
  rt_bound (CUn UNeg (CParen (CBin OLt (CNum 3 (PFlt f_1_5)) (CNum 3 (PFlt f_1_6))))) = RVal (CL 1).
Proof. vm_compute. split; reflexivity. Qed.
