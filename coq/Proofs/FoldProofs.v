(* Lemmas about Models/Fold.v: the folder as it is (sound on integer operands,
   refuted elsewhere) and the folder after fixes/C02-fold.diff (sound). *)
From Coq Require Import ZArith List Bool Lia ZifyBool.
From QV Require Import Sx Strs Fl Dec NumFmt Cell Machine Cpu Fold ExpShortcut.
Import ListNotations.
Open Scope Z_scope.
Ltac Zify.zify_post_hook ::= Z.to_euclidean_division_equations.

(* ---------- the state monad on a known stack ---------- *)

Definition st_push (s : st) (c : cell) : st := set_stack s (c :: stack s).

Lemma stack_set_stack s l : stack (set_stack s l) = l.
Proof. reflexivity. Qed.

Lemma set_stack_set_stack s l l' : set_stack (set_stack s l) l' = set_stack s l'.
Proof. reflexivity. Qed.

Lemma push_cell_eq c s : push_cell c s = R tt (st_push s c).
Proof. reflexivity. Qed.

Lemma pop_cons s c r : stack s = c :: r -> pop s = R c (set_stack s r).
Proof. intros H. unfold pop. rewrite H. reflexivity. Qed.

Lemma run_instrs_app m a b s :
  run_instrs m (a ++ b) s =
  match run_instrs m a s with
  | R _ s' => run_instrs m b s'
  | T c k s' => T c k s'
  | ZD s' => ZD s'
  | X k s' => X k s'
  | NI s' => NI s'
  end.
Proof.
  revert s. induction a as [|i a IH]; intros s; simpl.
  - reflexivity.
  - unfold bind. destruct (exec m i s); try reflexivity. apply IH.
Qed.

(* ---------- integer ranges ---------- *)

Lemma wrap16_in_int x : (wrap 16 x =? x) = in_int x.
Proof.
  unfold wrap, in_int. change (2 ^ (16 - 1)) with 32768. change (2 ^ 16) with 65536.
  destruct (Z.eqb_spec ((x + 32768) mod 65536 - 32768) x); lia.
Qed.

Lemma wrap64_long x : - 2 ^ 63 <= x < 2 ^ 63 -> (wrap 64 x =? x) = true.
Proof.
  unfold wrap. change (2 ^ (64 - 1)) with 9223372036854775808.
  change (2 ^ 64) with 18446744073709551616. change (2 ^ 63) with 9223372036854775808.
  intros H. apply Z.eqb_eq. lia.
Qed.

Definition in_ty (ty z : Z) : bool := if ty =? 1 then in_int z else in_long z.
Definition cell_i (ty z : Z) : cell := if ty =? 1 then CI z else CL z.

(* x in [-2^n, 2^n)  <->  x / 2^n is 0 or -1: closed under the bitwise operators *)
Lemma range_div n x : 0 < n -> (- 2 ^ n <= x < 2 ^ n <-> (x / 2 ^ n = 0 \/ x / 2 ^ n = -1)).
Proof.
  intros Hn. assert (0 < 2 ^ n) by (apply Z.pow_pos_nonneg; lia). split; intros; nia.
Qed.

Lemma range_bitop (f : Z -> Z -> Z) n a b :
  0 < n ->
  (forall x y k, 0 <= k -> Z.shiftr (f x y) k = f (Z.shiftr x k) (Z.shiftr y k)) ->
  f 0 0 = 0 \/ f 0 0 = -1 -> f 0 (-1) = 0 \/ f 0 (-1) = -1 ->
  f (-1) 0 = 0 \/ f (-1) 0 = -1 -> f (-1) (-1) = 0 \/ f (-1) (-1) = -1 ->
  - 2 ^ n <= a < 2 ^ n -> - 2 ^ n <= b < 2 ^ n -> - 2 ^ n <= f a b < 2 ^ n.
Proof.
  intros Hn Hs H00 H01 H10 H11 Ha Hb.
  apply range_div in Ha; [|lia]. apply range_div in Hb; [|lia]. apply range_div; [lia|].
  rewrite <- !Z.shiftr_div_pow2 in * by lia. rewrite Hs by lia.
  destruct Ha as [-> | ->], Hb as [-> | ->]; assumption.
Qed.

Lemma land_range n a b : 0 < n -> - 2 ^ n <= a < 2 ^ n -> - 2 ^ n <= b < 2 ^ n ->
  - 2 ^ n <= Z.land a b < 2 ^ n.
Proof.
  intros. apply (range_bitop Z.land); auto.
  intros; apply Z.shiftr_land.
Qed.

Lemma lor_range n a b : 0 < n -> - 2 ^ n <= a < 2 ^ n -> - 2 ^ n <= b < 2 ^ n ->
  - 2 ^ n <= Z.lor a b < 2 ^ n.
Proof.
  intros. apply (range_bitop Z.lor); auto.
  intros; apply Z.shiftr_lor.
Qed.

Lemma lxor_range n a b : 0 < n -> - 2 ^ n <= a < 2 ^ n -> - 2 ^ n <= b < 2 ^ n ->
  - 2 ^ n <= Z.lxor a b < 2 ^ n.
Proof.
  intros. apply (range_bitop Z.lxor); auto.
  intros; apply Z.shiftr_lxor.
Qed.

Lemma lnot_range n a : - 2 ^ n <= a < 2 ^ n -> - 2 ^ n <= Z.lnot a < 2 ^ n.
Proof. unfold Z.lnot. lia. Qed.

(* ---------- integer literals and operators on the machine ---------- *)

Definition lit (ty z : Z) : cexpr := CNum ty (PInt z).

Lemma push_int_ok ty z s : ty = 1 \/ ty = 2 ->
  push ty (PInt z) s =
  if in_ty ty z then R tt (st_push s (cell_i ty z)) else T T_INVALID_CELL_VALUE true s.
Proof.
  intros [-> | ->]; unfold push, bind, in_ty, cell_i; simpl.
  - destruct (in_int z); reflexivity.
  - destruct (in_long z); reflexivity.
Qed.

Lemma exec_lit_int m ty z : ty = 1 \/ ty = 2 -> in_ty ty z = true ->
  exists i, push_lit ty (PInt z) = CgOk [i] /\
            forall s, exec m i s = R tt (st_push s (cell_i ty z)).
Proof.
  intros Hty Hz. unfold push_lit, small_const.
  destruct ((-2 <=? z) && (z <=? 2)).
  - eexists; split; [reflexivity|]. intros s.
    assert (E : exec m (IPushC ty z) s = push ty (PInt z) s) by (destruct Hty as [-> | ->]; reflexivity).
    rewrite E, push_int_ok, Hz by assumption. reflexivity.
  - destruct Hty as [-> | ->]; unfold in_ty in Hz; simpl in Hz; rewrite Hz.
    + eexists; split; [reflexivity|]. intros s. simpl. rewrite (push_int_ok 1) by auto.
      unfold in_ty; simpl. rewrite Hz. reflexivity.
    + eexists; split; [reflexivity|]. intros s. simpl. rewrite (push_int_ok 2) by auto.
      unfold in_ty; simpl. rewrite Hz. reflexivity.
Qed.

Definition chk (ty x : Z) : rres :=
  if in_ty ty x then RVal (cell_i ty x) else RTrap T_INVALID_CELL_VALUE.

Definition int_bin_result (ty : Z) (op : binop) (a b : Z) : rres :=
  match op with
  | OAdd => chk ty (a + b) | OSub => chk ty (a - b) | OMul => chk ty (a * b)
  | OAnd => chk ty (Z.land a b) | OOr => chk ty (Z.lor a b) | OXor => chk ty (Z.lxor a b)
  | OEqv => chk ty (Z.lnot (Z.lxor a b)) | OImp => chk ty (Z.lor (Z.lnot a) b)
  | OMod => if b =? 0 then RTrap T_DIVISION_BY_ZERO else chk ty (a mod b)
  | OIntdiv => if b =? 0 then RTrap T_DIVISION_BY_ZERO else chk ty (a / b)
  | OEq | ONe | OLt | OGt | OLe | OGe => RVal (CI (cmp_int op a b))
  | ODiv | OExp => RUnmodelled
  end.

Definition int_op (op : binop) : bool :=
  match op with ODiv | OExp => false | _ => true end.

Local Opaque in_int in_long push_lit.

Lemma rt_int_bin ty op a b : ty = 1 \/ ty = 2 -> int_op op = true ->
  in_ty ty a = true -> in_ty ty b = true ->
  rt_eval (CBin op (lit ty a) (lit ty b)) = int_bin_result ty op a b.
Proof.
  intros Hty Hop Ha Hb.
  set (m := expr_module []).
  destruct (exec_lit_int m ty a Hty Ha) as (ia & Pa & Ea).
  destruct (exec_lit_int m ty b Hty Hb) as (ib & Pb & Eb).
  unfold rt_eval, cg_expr, lit.
  destruct Hty as [-> | ->]; destruct op; try discriminate Hop; clear Hop;
    cbn -[in_int in_long push_lit exec];
    rewrite Pa, Pb; cbn -[in_int in_long push_lit exec];
    fold m; unfold bind; rewrite Ea, Eb.
  all: unfold int_bin_result, chk, in_ty, cell_i.
  all: cbn -[in_int in_long].
  all: try (destruct (b =? 0); [reflexivity|]; cbn -[in_int in_long]).
  all: rewrite ?push_int_ok by auto.
  all: unfold in_ty, cell_i; cbn -[in_int in_long].
  (* arithmetic / logical: one range test *)
  all: try (match goal with |- context [in_int ?x] => destruct (in_int x) end; reflexivity).
  all: try (match goal with |- context [in_long ?x] => destruct (in_long x) end; reflexivity).
  (* comparisons *)
  all: unfold cmp_int, qbool.
  all: destruct (Z.compare_spec a b) as [E | E | E];
       [ subst b; rewrite ?Z.eqb_refl, ?Z.ltb_irrefl, ?Z.leb_refl, ?Z.gtb_ltb, ?Z.geb_leb, ?Z.ltb_irrefl, ?Z.leb_refl
       | replace (a =? b) with false by lia; replace (a <? b) with true by lia;
         replace (a >? b) with false by lia; replace (a <=? b) with true by lia;
         replace (a >=? b) with false by lia
       | replace (a =? b) with false by lia; replace (a <? b) with false by lia;
         replace (a >? b) with true by lia; replace (a <=? b) with false by lia;
         replace (a >=? b) with true by lia ].
  all: try reflexivity.
Qed.

Definition wrapok (ty x : Z) : bool := if ty =? 1 then wrap 16 x =? x else wrap 64 x =? x.

Definition chkf (T x : Z) : foldres := if wrapok T x then Folded T (PInt x) else NotFolded.

Definition int_bin_fold (ty : Z) (op : binop) (a b : Z) : foldres :=
  match op with
  | OAdd => chkf ty (a + b) | OSub => chkf ty (a - b) | OMul => chkf ty (a * b)
  | OAnd => chkf ty (Z.land a b) | OOr => chkf ty (Z.lor a b) | OXor => chkf ty (Z.lxor a b)
  | OEqv => chkf ty (Z.lnot (Z.lxor a b)) | OImp => chkf ty (Z.lor (Z.lnot a) b)
  | OMod => if b =? 0 then NotFolded else chkf ty (a mod b)
  | OIntdiv => if b =? 0 then NotFolded else chkf ty (a / b)
  | OEq | ONe | OLt | OGt | OLe | OGe => Folded 1 (PInt (cmp_int op a b))
  | ODiv | OExp => FoldUnmodelled
  end.

Local Opaque wrap.

Lemma fold_int_bin ty op a b : ty = 1 \/ ty = 2 -> int_op op = true ->
  fold (CBin op (lit ty a) (lit ty b)) = int_bin_fold ty op a b.
Proof.
  intros Hty Hop. unfold fold, lit.
  destruct Hty as [-> | ->]; destruct op; try discriminate Hop; clear Hop;
    unfold int_bin_fold, chkf, wrapok; cbn -[wrap];
    try (destruct (b =? 0); [reflexivity|]; cbn -[wrap]);
    try (match goal with |- context [wrap ?n ?x =? ?x] => destruct (wrap n x =? x) end);
    reflexivity.
Qed.

(* ---------- soundness statement for one constant expression ---------- *)

Definition sound_at (e : cexpr) : Prop :=
  (forall ty v, fold e = Folded ty v ->
     exists c, cell_of_val ty v = Some c /\ rt_eval e = RVal c) /\
  (forall code, rt_eval e = RTrap code -> fold e = NotFolded) /\
  (forall k, fold e <> CompilerCrash k).

Definition int_ops : list binop :=
  [OAdd; OSub; OMul; OAnd; OOr; OXor; OEqv; OImp; OMod; OIntdiv; OEq; ONe; OLt; OGt; OLe; OGe].

Lemma int_ops_int_op op : In op int_ops -> int_op op = true.
Proof. unfold int_ops; simpl; intuition subst; reflexivity. Qed.

Lemma sound_chk ty x e : ty = 1 \/ ty = 2 ->
  fold e = chkf ty x -> rt_eval e = chk ty x -> wrapok ty x = in_ty ty x -> sound_at e.
Proof.
  intros Hty Hf Hr Hw. unfold sound_at, chkf, chk in *. rewrite Hf, Hr, Hw.
  destruct (in_ty ty x); repeat split; intros; try discriminate.
  inversion H; subst. exists (cell_i ty0 x). split; [|reflexivity].
  destruct Hty as [-> | ->]; reflexivity.
Qed.

Lemma sound_const e ty z c :
  fold e = Folded ty (PInt z) -> rt_eval e = RVal c -> cell_of_val ty (PInt z) = Some c -> sound_at e.
Proof.
  intros Hf Hr Hc. unfold sound_at. rewrite Hf, Hr. repeat split; intros; try discriminate.
  inversion H; subst. eauto.
Qed.

Lemma sound_notfolded e code :
  fold e = NotFolded -> rt_eval e = RTrap code -> sound_at e.
Proof.
  intros Hf Hr. unfold sound_at. rewrite Hf, Hr. repeat split; intros; discriminate.
Qed.

Theorem fold_sound_int : forall op a b, In op int_ops -> in_int a = true -> in_int b = true ->
  sound_at (CBin op (CNum 1 (PInt a)) (CNum 1 (PInt b))).
Proof.
  intros op a b Hop Ha Hb.
  pose proof (int_ops_int_op op Hop) as Hi.
  pose proof (fold_int_bin 1 op a b (or_introl eq_refl) Hi) as Hf.
  pose proof (rt_int_bin 1 op a b (or_introl eq_refl) Hi Ha Hb) as Hr.
  unfold lit in *.
  assert (W : forall x, wrapok 1 x = in_ty 1 x) by (intros; apply wrap16_in_int).
  destruct op; try discriminate Hi; unfold int_bin_fold in Hf; unfold int_bin_result in Hr;
    try (eapply (sound_chk 1); eauto; fail);
    try (destruct (b =? 0);
         [ eapply sound_notfolded; eauto | eapply (sound_chk 1); eauto ]; fail);
    eapply sound_const; eauto; reflexivity.
Qed.


(* ---------- LONG operands ---------- *)

Transparent in_int in_long.
Lemma in_long_iff z : in_long z = true <-> - 2 ^ 31 <= z < 2 ^ 31.
Proof. unfold in_long. change (2 ^ 31) with 2147483648. lia. Qed.
Lemma in_int_iff z : in_int z = true <-> - 2 ^ 15 <= z < 2 ^ 15.
Proof. unfold in_int. change (2 ^ 15) with 32768. lia. Qed.
Opaque in_int in_long.

Lemma in_long_wrapok x : in_long x = true -> wrapok 2 x = in_ty 2 x.
Proof.
  intros H. unfold wrapok, in_ty. simpl. rewrite H. apply wrap64_long.
  apply in_long_iff in H. change (2 ^ 31) with 2147483648 in H.
  change (2 ^ 63) with 9223372036854775808. lia.
Qed.

Definition long_ops : list binop :=
  [OAnd; OOr; OXor; OEqv; OImp; OMod; OEq; ONe; OLt; OGt; OLe; OGe].

(* the operators whose result can leave the LONG range *)
Definition long_arith_ops : list binop := [OAdd; OSub; OMul; OIntdiv].

Definition long_raw (op : binop) (a b : Z) : Z :=
  match op with
  | OAdd => a + b | OSub => a - b | OMul => a * b | OIntdiv => a / b
  | OAnd => Z.land a b | OOr => Z.lor a b | OXor => Z.lxor a b
  | OEqv => Z.lnot (Z.lxor a b) | OImp => Z.lor (Z.lnot a) b
  | OMod => a mod b
  | _ => 0
  end.

Lemma long_logical_in_long op a b : In op [OAnd; OOr; OXor; OEqv; OImp] ->
  in_long a = true -> in_long b = true -> in_long (long_raw op a b) = true.
Proof.
  intros Hop Ha Hb. apply in_long_iff in Ha. apply in_long_iff in Hb. apply in_long_iff.
  destruct Hop as [<- | [<- | [<- | [<- | [<- | []]]]]]; unfold long_raw.
  - apply land_range; auto; lia.
  - apply lor_range; auto; lia.
  - apply lxor_range; auto; lia.
  - apply lnot_range. apply lxor_range; auto; lia.
  - apply lor_range; auto; try lia. apply lnot_range; auto.
Qed.

Lemma mod_in_long a b : in_long b = true -> b <> 0 -> in_long (a mod b) = true.
Proof.
  intros Hb Hn. apply in_long_iff in Hb. apply in_long_iff.
  change (2 ^ 31) with 2147483648 in *.
  destruct (Z_lt_le_dec 0 b) as [Hp | Hp].
  - pose proof (Z.mod_pos_bound a b Hp) as Hm. set (r := a mod b) in *. clearbody r. lia.
  - assert (Hq : b < 0) by lia.
    pose proof (Z.mod_neg_bound a b Hq) as Hm. set (r := a mod b) in *. clearbody r. lia.
Qed.

Theorem fold_sound_long : forall op a b, In op long_ops -> in_long a = true -> in_long b = true ->
  sound_at (CBin op (CNum 2 (PInt a)) (CNum 2 (PInt b))).
Proof.
  intros op a b Hop Ha Hb.
  assert (Hi : int_op op = true) by (unfold long_ops in Hop; simpl in Hop; intuition subst; reflexivity).
  pose proof (fold_int_bin 2 op a b (or_intror eq_refl) Hi) as Hf.
  pose proof (rt_int_bin 2 op a b (or_intror eq_refl) Hi Ha Hb) as Hr.
  unfold lit in *.
  assert (L : forall o, In o [OAnd; OOr; OXor; OEqv; OImp] -> wrapok 2 (long_raw o a b) = in_ty 2 (long_raw o a b))
    by (intros; apply in_long_wrapok, long_logical_in_long; auto).
  unfold long_ops in Hop; simpl in Hop.
  destruct Hop as [<- | [<- | [<- | [<- | [<- | [<- | Hop]]]]]];
    unfold int_bin_fold in Hf; unfold int_bin_result in Hr.
  - eapply (sound_chk 2); eauto. apply (L OAnd); simpl; auto.
  - eapply (sound_chk 2); eauto. apply (L OOr); simpl; auto.
  - eapply (sound_chk 2); eauto. apply (L OXor); simpl; auto 6.
  - eapply (sound_chk 2); eauto. apply (L OEqv); simpl; auto 6.
  - eapply (sound_chk 2); eauto. apply (L OImp); simpl; auto 8.
  - destruct (Z.eqb_spec b 0).
    + eapply sound_notfolded; eauto.
    + eapply (sound_chk 2); eauto. apply in_long_wrapok, mod_in_long; auto.
  - destruct Hop as [<- | [<- | [<- | [<- | [<- | [<- | []]]]]]];
      eapply sound_const; eauto; reflexivity.
Qed.

(* + - * \ on LONG operands: sound exactly when the result is a LONG; the folder
   checks 64 bits (ctypes.c_long), so every result passes its test *)
Theorem fold_long_arith_partial : forall op a b, In op long_arith_ops ->
  in_long a = true -> in_long b = true ->
  in_long (long_raw op a b) = true ->
  sound_at (CBin op (CNum 2 (PInt a)) (CNum 2 (PInt b))).
Proof.
  intros op a b Hop Ha Hb Hg.
  assert (Hi : int_op op = true) by (unfold long_arith_ops in Hop; simpl in Hop; intuition subst; reflexivity).
  pose proof (fold_int_bin 2 op a b (or_intror eq_refl) Hi) as Hf.
  pose proof (rt_int_bin 2 op a b (or_intror eq_refl) Hi Ha Hb) as Hr.
  unfold lit in *. unfold long_arith_ops in Hop; simpl in Hop.
  destruct Hop as [<- | [<- | [<- | [<- | []]]]];
    unfold int_bin_fold in Hf; unfold int_bin_result in Hr; simpl in Hg.
  - eapply (sound_chk 2); eauto. apply in_long_wrapok; auto.
  - eapply (sound_chk 2); eauto. apply in_long_wrapok; auto.
  - eapply (sound_chk 2); eauto. apply in_long_wrapok; auto.
  - destruct (Z.eqb_spec b 0).
    + eapply sound_notfolded; eauto.
    + eapply (sound_chk 2); eauto. apply in_long_wrapok; auto.
Qed.

(* the folder never refuses + - * on two LONG literals: its range test is 64 bits wide *)
Lemma fold_long_arith_always_folds : forall op a b, In op [OAdd; OSub; OMul] ->
  in_long a = true -> in_long b = true ->
  fold (CBin op (CNum 2 (PInt a)) (CNum 2 (PInt b))) = Folded 2 (PInt (long_raw op a b)).
Proof.
  intros op a b Hop Ha Hb.
  apply in_long_iff in Ha. apply in_long_iff in Hb. change (2 ^ 31) with 2147483648 in *.
  assert (Hi : int_op op = true) by (simpl in Hop; intuition subst; reflexivity).
  pose proof (fold_int_bin 2 op a b (or_intror eq_refl) Hi) as Hf. unfold lit in Hf. rewrite Hf.
  simpl in Hop. destruct Hop as [<- | [<- | [<- | []]]]; unfold int_bin_fold, chkf, wrapok; simpl;
    rewrite wrap64_long; try reflexivity; change (2 ^ 63) with 9223372036854775808; nia.
Qed.

(* ---------- refutations (witnesses evaluated by the kernel) ---------- *)

Definition f_1_5 : fl := FFin false 3 (-1).
Definition f_1_6 : fl := fl_of_bits 4609884578576439706.
Definition f_0_1 : fl := fl_of_bits 4591870180066957722.
Definition f_2_5 : fl := FFin false 5 (-1).
Definition f_3e10 : fl := fl_of_bits 4763665526503243776.
Definition f_1e10 : fl := fl_of_bits 4756540486875873280.
Definition f_3e38 : fl := fl_of_bits 5182576905729208970.

(* D02: 2000000000& + 2000000000& *)
Theorem fold_long_overflow_refuted :
  exists a b v, in_long a = true /\ in_long b = true /\
    fold (CBin OAdd (CNum 2 (PInt a)) (CNum 2 (PInt b))) = Folded 2 (PInt v) /\
    in_long v = false /\
    rt_eval (CBin OAdd (CNum 2 (PInt a)) (CNum 2 (PInt b))) = RTrap T_INVALID_CELL_VALUE /\
    rt_eval (CNum 2 (PInt v)) = RAsmCrash KStruct.
Proof. exists 2000000000, 2000000000, 4000000000. vm_compute. repeat split; reflexivity. Qed.

(* -2147483648& \ -1& *)
Theorem fold_long_intdiv_refuted :
  exists a b v, in_long a = true /\ in_long b = true /\
    fold (CBin OIntdiv (CNum 2 (PInt a)) (CNum 2 (PInt b))) = Folded 2 (PInt v) /\
    in_long v = false /\
    rt_eval (CBin OIntdiv (CNum 2 (PInt a)) (CNum 2 (PInt b))) = RTrap T_INVALID_CELL_VALUE.
Proof. exists (-2147483648), (-1), 2147483648. vm_compute. repeat split; reflexivity. Qed.

(* D01: 1.5 < 1.6 *)
Theorem fold_cmp_float_refuted :
  fold (CBin OLt (CNum 3 (PFlt f_1_5)) (CNum 3 (PFlt f_1_6))) = Folded 1 (PInt 0) /\
  rt_eval (CBin OLt (CNum 3 (PFlt f_1_5)) (CNum 3 (PFlt f_1_6))) = RVal (CI (-1)).
Proof. vm_compute. split; reflexivity. Qed.

(* D03: "a" = "b" crashes the compiler; "1" = "2" is folded to 12 *)
Theorem fold_string_cmp_refuted :
  fold (CBin OEq (CStrLit [97]) (CStrLit [98])) = CompilerCrash KValue /\
  rt_eval (CBin OEq (CStrLit [97]) (CStrLit [98])) = RVal (CI 0) /\
  fold (CBin OEq (CStrLit [49]) (CStrLit [50])) = Folded 1 (PInt 12) /\
  rt_eval (CBin OEq (CStrLit [49]) (CStrLit [50])) = RVal (CI 0).
Proof. vm_compute. repeat split; reflexivity. Qed.

(* D04 / D33: the clamp of UnaryOp.eval *)
Theorem fold_neg_clamp_refuted :
  (* -(3e10#) becomes -2147483648# *)
  fold (CUn UNeg (CNum 4 (PFlt f_3e10))) = Folded 4 (PFlt (of_Z (-2147483648))) /\
  rt_eval (CUn UNeg (CNum 4 (PFlt f_3e10))) = RVal (CD (fneg f_3e10)) /\
  (* -(-32768%) overflows at run time, is folded to -32768 *)
  fold (CUn UNeg (CNum 1 (PInt (-32768)))) = Folded 1 (PInt (-32768)) /\
  rt_eval (CUn UNeg (CNum 1 (PInt (-32768)))) = RTrap T_INVALID_CELL_VALUE /\
  (* NOT 1e10# overflows at run time, is folded to -2147483648 *)
  fold (CUn UNot (CNum 4 (PFlt f_1e10))) = Folded 2 (PInt (-2147483648)) /\
  rt_eval (CUn UNot (CNum 4 (PFlt f_1e10))) = RTrap T_INVALID_CELL_VALUE.
Proof. vm_compute. repeat split; reflexivity. Qed.

(* a SINGLE literal keeps its double value in the folder, the machine loads it rounded *)
Theorem fold_single_literal_refuted :
  exists v, fold (CBin OAdd (CNum 3 (PFlt f_0_1)) (CNum 4 (PFlt f_one))) = Folded 4 (PFlt v) /\
            rt_eval (CBin OAdd (CNum 3 (PFlt f_0_1)) (CNum 4 (PFlt f_one))) <> RVal (CD v).
Proof.
  exists (match fold (CBin OAdd (CNum 3 (PFlt f_0_1)) (CNum 4 (PFlt f_one))) with
          | Folded _ (PFlt v) => v | _ => FNaN end).
  split; [vm_compute; reflexivity | vm_compute; discriminate].
Qed.

(* a SINGLE sum that overflows is folded into a literal the assembler cannot encode *)
Theorem fold_single_overflow_refuted :
  exists v, fold (CBin OAdd (CNum 3 (PFlt f_3e38)) (CNum 3 (PFlt f_3e38))) = Folded 3 (PFlt v) /\
            rt_eval (CBin OAdd (CNum 3 (PFlt f_3e38)) (CNum 3 (PFlt f_3e38))) = RTrap T_INVALID_CELL_VALUE /\
            rt_eval (CNum 3 (PFlt v)) = RAsmCrash KOverflow.
Proof.
  exists (match fold (CBin OAdd (CNum 3 (PFlt f_3e38)) (CNum 3 (PFlt f_3e38))) with
          | Folded _ (PFlt v) => v | _ => FNaN end).
  vm_compute. repeat split; reflexivity.
Qed.

(* \ on a float operand: typed SINGLE and folded with float floor division,
   computed on LONG operands (rounded) at run time *)


(* ^ with a negative exponent: TypeError in the compiler (D32 at run time: 0) *)
Theorem fold_exp_negative_refuted :
  fold (CBin OExp (CNum 1 (PInt 2)) (CNum 1 (PInt (-1)))) = CompilerCrash KType /\
  rt_eval (CBin OExp (CNum 1 (PInt 2)) (CNum 1 (PInt (-1)))) = RVal (CI 0).
Proof. vm_compute. split; reflexivity. Qed.

(* the folded literal -0# is assembled as push0#: the sign is lost *)
Theorem fold_negative_zero_refuted :
  fold (CUn UNeg (CNum 4 (PFlt (fzero false)))) = Folded 4 (PFlt (fzero true)) /\
  rt_eval (CUn UNeg (CNum 4 (PFlt (fzero false)))) = RVal (CD (fzero true)) /\
  rt_eval (CNum 4 (PFlt (fzero true))) = RVal (CD (fzero false)).
Proof. vm_compute. repeat split; reflexivity. Qed.

(* logical operators on a float operand are not range checked: 1e10# AND 1e10# *)
Theorem fold_logical_float_refuted :
  exists v, fold (CBin OAnd (CNum 4 (PFlt f_1e10)) (CNum 4 (PFlt f_1e10))) = Folded 2 (PInt v) /\
            in_long v = false /\
            rt_eval (CBin OAnd (CNum 4 (PFlt f_1e10)) (CNum 4 (PFlt f_1e10))) = RTrap T_INVALID_CELL_VALUE.
Proof. exists 10000000000. vm_compute. repeat split; reflexivity. Qed.

(* ---------- static array bounds ---------- *)

Theorem static_bound_agrees : forall ty z, ty = 1 \/ ty = 2 -> in_ty ty z = true ->
  static_bound (CNum ty (PInt z)) = BVal z /\ rt_bound (CNum ty (PInt z)) = RVal (CL z).
Proof.
  intros ty z Hty Hz. split.
  - destruct Hty as [-> | ->]; reflexivity.
  - set (m := expr_module []).
    destruct (exec_lit_int m ty z Hty Hz) as (i & Pi & Ei).
    assert (Hl : in_long z = true).
    { destruct Hty as [-> | ->]; unfold in_ty in Hz; simpl in Hz; auto.
      apply in_int_iff in Hz. apply in_long_iff.
      change (2 ^ 15) with 32768 in Hz. change (2 ^ 31) with 2147483648. lia. }
    unfold rt_bound, cg_expr.
    destruct Hty as [-> | ->]; cbn -[in_int in_long push_lit exec]; rewrite Pi;
      cbn -[in_int in_long push_lit exec]; fold m; unfold bind; rewrite Ei;
      unfold cell_i; cbn -[in_int in_long]; try reflexivity.
    rewrite (push_int_ok 2) by auto. unfold in_ty, cell_i. simpl. rewrite Hl. reflexivity.
Qed.

(* a bound whose folder value differs from the run-time value: 0 TO -(1.5 < 1.6) *)
Theorem static_bound_refuted :
  static_bound (CUn UNeg (CParen (CBin OLt (CNum 3 (PFlt f_1_5)) (CNum 3 (PFlt f_1_6))))) = BVal 0 /\
  rt_bound (CUn UNeg (CParen (CBin OLt (CNum 3 (PFlt f_1_5)) (CNum 3 (PFlt f_1_6))))) = RVal (CL 1).
Proof. vm_compute. split; reflexivity. Qed.




(* ---------- DOUBLE operands ---------- *)

Definition dbl (x : fl) : cexpr := CNum 4 (PFlt x).
Definition neg_zero : fl := FFin true 0 0.

Transparent push_lit.
Lemma exec_lit_dbl m x : x <> neg_zero ->
  exists i, push_lit 4 (PFlt x) = CgOk [i] /\ forall s, exec m i s = R tt (st_push s (CD x)).
Proof.
  intros Hx. unfold neg_zero in Hx.
  destruct x as [| n | n mm e].
  - eexists; split; [reflexivity|]. intros; reflexivity.
  - eexists; split; [reflexivity|]. intros; reflexivity.
  - destruct n; destruct mm as [|[p|p|]|p]; destruct e as [|[q|q|]|q];
      try congruence; eexists; (split; [reflexivity|]); intros; reflexivity.
Qed.
Opaque push_lit.

Definition flop (op : binop) (x y : fl) : fl :=
  match op with OAdd => fadd x y | OSub => fsub x y | OMul => fmul x y | _ => fdiv x y end.

Local Opaque fadd fsub fmul fdiv.

(* + - * on two DOUBLE literals: both sides apply the same Fl operation to the
   same operands; a result that overflows to inf (or is NaN) is that same inf /
   NaN on both sides, DOUBLE cells hold every float and nothing traps *)
Theorem fold_float_arith_sound : forall op x y, In op [OAdd; OSub; OMul] ->
  x <> neg_zero -> y <> neg_zero ->
  fold (CBin op (dbl x) (dbl y)) = Folded 4 (PFlt (flop op x y)) /\
  rt_eval (CBin op (dbl x) (dbl y)) = RVal (CD (flop op x y)).
Proof.
  intros op x y Hop Hx Hy.
  set (m := expr_module []).
  destruct (exec_lit_dbl m x Hx) as (ia & Pa & Ea).
  destruct (exec_lit_dbl m y Hy) as (ib & Pb & Eb).
  simpl in Hop. unfold dbl.
  destruct Hop as [<- | [<- | [<- | []]]]; (split; [reflexivity|]);
    unfold rt_eval, cg_expr; cbn -[push_lit exec]; rewrite Pa, Pb; cbn -[push_lit exec];
    fold m; unfold bind; rewrite Ea, Eb; reflexivity.
Qed.

(* / on two DOUBLE literals: a zero divisor is ZeroDivisionError in the folder
   (not folded) and DIVISION_BY_ZERO on the machine; otherwise the same fdiv *)
Theorem fold_float_div_sound : forall x y, x <> neg_zero -> y <> neg_zero ->
  (is_zero y = true ->
     fold (CBin ODiv (dbl x) (dbl y)) = NotFolded /\
     rt_eval (CBin ODiv (dbl x) (dbl y)) = RTrap T_DIVISION_BY_ZERO) /\
  (is_zero y = false ->
     fold (CBin ODiv (dbl x) (dbl y)) = Folded 4 (PFlt (fdiv x y)) /\
     rt_eval (CBin ODiv (dbl x) (dbl y)) = RVal (CD (fdiv x y))).
Proof.
  intros x y Hx Hy.
  set (m := expr_module []).
  destruct (exec_lit_dbl m x Hx) as (ia & Pa & Ea).
  destruct (exec_lit_dbl m y Hy) as (ib & Pb & Eb).
  unfold dbl.
  split; intros Hz; (split; [unfold fold; cbn; rewrite Hz; reflexivity|]);
    unfold rt_eval, cg_expr; cbn -[push_lit exec]; rewrite Pa, Pb; cbn -[push_lit exec];
    fold m; unfold bind; rewrite Ea, Eb; cbn; rewrite Hz; reflexivity.
Qed.

(* ---------- the folder after the fix ---------- *)

Lemma ty_cases ty :
  ty = 1 \/ ty = 2 \/ ty = 3 \/ ty = 4 \/ ty = 5 \/ (forall v, checked ty v = None).
Proof.
  destruct ty as [|p|p]; try (repeat right; intros [z|f|s]; reflexivity).
  destruct p as [[q|q|]|[q|q|]|]; auto 10;
    try (repeat right; intros [z|f|s]; reflexivity);
    destruct q as [r|r|]; auto 10; repeat right; intros [z|f|s]; reflexivity.
Qed.

Local Opaque of_Z fcmp fround to_single in_int in_long.

Lemma checked_cell ty v v' : checked ty v = Some v' ->
  exists c, cell_of_val ty v' = Some c /\ forall s, mk_cell ty v s = R c s.
Proof.
  intros H.
  destruct (ty_cases ty) as [->|[->|[->|[->|[->|Hn]]]]]; [..| rewrite Hn in H; discriminate];
    destruct v as [z|f|s0]; cbn in H; try discriminate.
  - destruct (in_int z) eqn:E; inversion H; subst.
    eexists; split; [reflexivity|]. intros; cbn. rewrite E. reflexivity.
  - destruct (fcmp (of_Z (-32768)) f) as [[]|] eqn:E1; try discriminate;
      destruct (fcmp f (of_Z 32767)) as [[]|] eqn:E2; try discriminate;
      destruct (fround f) as [z|] eqn:E3; try discriminate; inversion H; subst;
      (eexists; split; [reflexivity|]); intros; cbn; rewrite E1, E2, E3; reflexivity.
  - destruct (in_long z) eqn:E; inversion H; subst.
    eexists; split; [reflexivity|]. intros; cbn. rewrite E. reflexivity.
  - destruct (fcmp (of_Z (-2147483648)) f) as [[]|] eqn:E1; try discriminate;
      destruct (fcmp f (of_Z 2147483648)) as [[]|] eqn:E2; try discriminate;
      destruct (fround f) as [z|] eqn:E3; try discriminate; inversion H; subst;
      (eexists; split; [reflexivity|]); intros; cbn; rewrite E1, E2, E3; reflexivity.
  - destruct (to_single (of_Z z)) as [g|] eqn:E; try discriminate; inversion H; subst.
    eexists; split; [reflexivity|]. intros; cbn. rewrite E. reflexivity.
  - destruct (to_single f) as [g|] eqn:E; try discriminate; inversion H; subst.
    eexists; split; [reflexivity|]. intros; cbn. rewrite E. reflexivity.
  - inversion H; subst. eexists; split; [reflexivity|]. intros; reflexivity.
  - inversion H; subst. eexists; split; [reflexivity|]. intros; reflexivity.
  - inversion H; subst. eexists; split; [reflexivity|]. intros; reflexivity.
Qed.

(* push ty v when checked says it is holdable *)
Lemma push_checked ty v v' : checked ty v = Some v' ->
  exists c, cell_of_val ty v' = Some c /\
            forall s, push ty v s = R tt (st_push s c).
Proof.
  intros H. destruct (checked_cell ty v v' H) as (c & Hc & Hm).
  exists c. split; [assumption|]. intros s. unfold push, bind. rewrite Hm. reflexivity.
Qed.


Lemma cell_cases ty v c : cell_of_val ty v = Some c ->
  (ty = 1 /\ exists z, v = PInt z /\ c = CI z) \/
  (ty = 2 /\ exists z, v = PInt z /\ c = CL z) \/
  (ty = 3 /\ exists f, v = PFlt f /\ c = CS f) \/
  (ty = 4 /\ exists f, v = PFlt f /\ c = CD f) \/
  (ty = 5 /\ exists t, v = PStrV t /\ c = CStr t).
Proof.
  intros H.
  destruct ty as [|p|p]; try (destruct v; discriminate).
  destruct p as [[q|q|]|[q|q|]|]; try (destruct v; discriminate);
    try (destruct q as [r|r|]; try (destruct v; discriminate));
    destruct v; try discriminate; inversion H; subst; eauto 12.
Qed.

Ltac use_push Hk s st0 :=
  let cc := fresh "cc" in let Hcc := fresh "Hcc" in let Hp := fresh "Hp" in
  destruct (push_checked _ _ _ Hk) as (cc & Hcc & Hp);
  exists cc; split; [assumption|]; rewrite Hp; reflexivity.

Lemma run_conv m from to v a c s st0 :
  conv_fixed from to v = FxV a -> cell_of_val from v = Some c ->
  exists ca, cell_of_val to a = Some ca /\
    run_instrs m (conv_code from to) (set_stack s (c :: st0)) = R tt (set_stack s (ca :: st0)).
Proof.
  intros H Hc. unfold conv_fixed in H. unfold conv_code.
  destruct (from =? to) eqn:E.
  - apply Z.eqb_eq in E. subst to. inversion H; subst. exists c. split; [assumption|reflexivity].
  - destruct (cell_cases _ _ _ Hc) as [(-> & z & -> & ->) | [(-> & z & -> & ->) |
      [(-> & f & -> & ->) | [(-> & f & -> & ->) | (-> & t & -> & ->)]]]];
      try discriminate; unfold fx_checked in H; cbn -[checked push];
      unfold bind; cbn -[checked push].
    + destruct (checked to (if (to =? 3) || (to =? 4) then PFlt (of_Z z) else PInt z)) as [w|] eqn:Hk;
        [|discriminate]. inversion H; subst. use_push Hk s st0.
    + destruct (checked to (if (to =? 3) || (to =? 4) then PFlt (of_Z z) else PInt z)) as [w|] eqn:Hk;
        [|discriminate]. inversion H; subst. use_push Hk s st0.
    + destruct ((to =? 1) || (to =? 2)).
      * destruct f as [| n | n mm e]; try discriminate.
        destruct (fround (FFin n mm e)) as [z|]; [|discriminate].
        destruct (checked to (PInt z)) as [w|] eqn:Hk; [|discriminate]. inversion H; subst.
        use_push Hk s st0.
      * destruct (checked to (PFlt f)) as [w|] eqn:Hk; [|discriminate]. inversion H; subst.
        use_push Hk s st0.
    + destruct ((to =? 1) || (to =? 2)).
      * destruct f as [| n | n mm e]; try discriminate.
        destruct (fround (FFin n mm e)) as [z|]; [|discriminate].
        destruct (checked to (PInt z)) as [w|] eqn:Hk; [|discriminate]. inversion H; subst.
        use_push Hk s st0.
      * destruct (checked to (PFlt f)) as [w|] eqn:Hk; [|discriminate]. inversion H; subst.
        use_push Hk s st0.
Qed.


(* ---------- operators ---------- *)

Lemma str_cmp_range x y r : cmp_vals (CStr x) (CStr y) = Some r -> r = -1 \/ r = 0 \/ r = 1.
Proof.
  revert y r. induction x as [|c x IH]; intros [|d y] r H; simpl in H.
  - inversion H; auto.
  - inversion H; auto.
  - inversion H; auto.
  - destruct (c <? d); [inversion H; auto|]. destruct (c >? d); [inversion H; auto|].
    apply (IH y r H).
Qed.

Transparent in_int.
Lemma in_int_m1 : in_int (-1) = true. Proof. reflexivity. Qed.
Lemma in_int_0 : in_int 0 = true. Proof. reflexivity. Qed.
Lemma in_int_1 : in_int 1 = true. Proof. reflexivity. Qed.
Opaque in_int.

(* the comparison tail: a three-way result r on the stack, then eq/ne/lt/gt/le/ge *)
Lemma run_cmp_tail m i op r s st0 :
  r = -1 \/ r = 0 \/ r = 1 ->
  (op, i) = (OEq, IEq) \/ (op, i) = (ONe, INe) \/ (op, i) = (OLt, ILt) \/
  (op, i) = (OGt, IGt) \/ (op, i) = (OLe, ILe) \/ (op, i) = (OGe, IGe) ->
  exec m i (set_stack s (CI r :: st0)) = R tt (set_stack s (CI (cmp_test op r) :: st0)).
Proof.
  intros Hr Hop.
  destruct Hop as [E | [E | [E | [E | [E | E]]]]]; inversion E; subst;
    destruct Hr as [-> | [-> | ->]]; cbn; unfold push, bind; cbn;
    rewrite ?in_int_m1, ?in_int_0, ?in_int_1; reflexivity.
Qed.

Definition cmp_instr (op : binop) : instr :=
  match op with
  | OEq => IEq | ONe => INe | OLt => ILt | OGt => IGt | OLe => ILe | _ => IGe
  end.

Lemma op_code_cmp op : is_cmp op = true -> op_code op = [ICmp; cmp_instr op].
Proof. destruct op; try discriminate; reflexivity. Qed.

Lemma cmp_instr_ok op : is_cmp op = true ->
  (op, cmp_instr op) = (OEq, IEq) \/ (op, cmp_instr op) = (ONe, INe) \/
  (op, cmp_instr op) = (OLt, ILt) \/ (op, cmp_instr op) = (OGt, IGt) \/
  (op, cmp_instr op) = (OLe, ILe) \/ (op, cmp_instr op) = (OGe, IGe).
Proof. destruct op; try discriminate; simpl; auto 10. Qed.

(* cmp on two cells of the same type leaves the three-way result of cmp3 *)
Lemma run_icmp m ot a b ca cb r s st0 :
  cell_of_val ot a = Some ca -> cell_of_val ot b = Some cb -> cmp3 a b = Some r ->
  (r = -1 \/ r = 0 \/ r = 1) /\
  exec m ICmp (set_stack s (cb :: ca :: st0)) = R tt (set_stack s (CI r :: st0)).
Proof.
  intros Ha Hb Hc.
  destruct (cell_cases _ _ _ Ha) as [(-> & x & -> & ->) | [(-> & x & -> & ->) |
      [(-> & x & -> & ->) | [(-> & x & -> & ->) | (-> & x & -> & ->)]]]];
    destruct (cell_cases _ _ _ Hb) as [(E & y & -> & ->) | [(E & y & -> & ->) |
      [(E & y & -> & ->) | [(E & y & -> & ->) | (E & y & -> & ->)]]]]; try discriminate E;
    clear E Ha Hb; unfold cmp3 in Hc.
  - inversion Hc; subst. cbn; unfold push, bind; cbn.
    destruct (x ?= y); (split; [auto|]); rewrite ?in_int_m1, ?in_int_0, ?in_int_1; reflexivity.
  - inversion Hc; subst. cbn; unfold push, bind; cbn.
    destruct (x ?= y); (split; [auto|]); rewrite ?in_int_m1, ?in_int_0, ?in_int_1; reflexivity.
  - inversion Hc; subst. cbn; unfold push, bind; cbn.
    destruct (fcmp x y) as [[]|]; (split; [auto|]); rewrite ?in_int_m1, ?in_int_0, ?in_int_1; reflexivity.
  - inversion Hc; subst. cbn; unfold push, bind; cbn.
    destruct (fcmp x y) as [[]|]; (split; [auto|]); rewrite ?in_int_m1, ?in_int_0, ?in_int_1; reflexivity.
  - pose proof (str_cmp_range _ _ _ Hc) as Hr. split; [assumption|].
    cbn -[cmp_vals]. rewrite Hc. unfold push, bind.
    destruct Hr as [-> | [-> | ->]]; cbn; rewrite ?in_int_m1, ?in_int_0, ?in_int_1; reflexivity.
Qed.


Local Opaque py_pow fadd fsub fmul fdiv checked.

Lemma run_two m i j s s1 s2 :
  exec m i s = R tt s1 -> exec m j s1 = R tt s2 -> run_instrs m [i; j] s = R tt s2.
Proof. intros H1 H2. cbn [run_instrs]. unfold bind. rewrite H1, H2. reflexivity. Qed.

Lemma run_binop m op ot T a b w v ca cb s st0 :
  raw_op op a b = RawV w -> checked T w = Some v ->
  cell_of_val ot a = Some ca -> cell_of_val ot b = Some cb ->
  (if is_cmp op then T = 1 else T = ot) ->
  exists cv, cell_of_val T v = Some cv /\
    run_instrs m (op_code op) (set_stack s (cb :: ca :: st0)) = R tt (set_stack s (cv :: st0)).
Proof.
  intros Hraw Hk Ha Hb HT. unfold raw_op in Hraw.
  destruct (is_cmp op) eqn:Hcmp.
  - subst T. destruct (cmp3 a b) as [r|] eqn:Hc; [|discriminate]. inversion Hraw; subst w.
    destruct (run_icmp m ot a b ca cb r s st0 Ha Hb Hc) as (Hr & Hi).
    pose proof (run_cmp_tail m (cmp_instr op) op r s st0 Hr (cmp_instr_ok op Hcmp)) as Ht.
    destruct (push_checked _ _ _ Hk) as (cc & Hcc & _).
    assert (Hv : v = PInt (cmp_test op r)).
    { Transparent checked. unfold checked in Hk. Opaque checked.
      destruct (in_int (cmp_test op r)); inversion Hk; reflexivity. }
    subst v. exists (CI (cmp_test op r)). split; [reflexivity|].
    rewrite (op_code_cmp op Hcmp). apply (run_two _ _ _ _ _ _ Hi Ht).
  - subst T.
    destruct (cell_cases _ _ _ Ha) as [(-> & x & -> & ->) | [(-> & x & -> & ->) |
        [(-> & x & -> & ->) | [(-> & x & -> & ->) | (-> & x & -> & ->)]]]];
      destruct (cell_cases _ _ _ Hb) as [(E & y & -> & ->) | [(E & y & -> & ->) |
        [(E & y & -> & ->) | [(E & y & -> & ->) | (E & y & -> & ->)]]]]; try discriminate E;
      clear E Ha Hb;
      destruct op; try discriminate Hcmp; try discriminate Hraw; cbn in Hraw;
      try (destruct (y =? 0) eqn:Ey; [discriminate Hraw|]);
      try (destruct (is_zero y) eqn:Ey; [discriminate Hraw|]);
      try (match type of Hraw with context [py_pow ?p ?q] =>
             destruct (py_pow p q) eqn:Ep; try discriminate Hraw end);
      inversion Hraw; subst w;
      destruct (push_checked _ _ _ Hk) as (cc & Hcc & Hp);
      exists cc; (split; [assumption|]);
      cbn -[push exp_tail]; unfold bind; cbn -[push exp_tail];
      rewrite ?exp_tail_same; unfold exp_tail_ref; cbn -[push];
      rewrite ?Ey, ?Ep; cbn -[push]; rewrite Hp; reflexivity.
Qed.


(* ---------- unary operators ---------- *)

Lemma run_neg m ty v w c s st0 :
  cell_of_val ty v = Some c ->
  match v with
  | PInt z => checked ty (PInt (- z))
  | PFlt f => checked ty (PFlt (fneg f))
  | PStrV _ => None
  end = Some w ->
  exists cw, cell_of_val ty w = Some cw /\
    exec m INeg (set_stack s (c :: st0)) = R tt (set_stack s (cw :: st0)).
Proof.
  intros Hc Hk.
  destruct (cell_cases _ _ _ Hc) as [(-> & x & -> & ->) | [(-> & x & -> & ->) |
      [(-> & x & -> & ->) | [(-> & x & -> & ->) | (-> & x & -> & ->)]]]]; try discriminate Hk;
    destruct (push_checked _ _ _ Hk) as (cc & Hcc & Hp); exists cc; (split; [assumption|]);
    cbn -[push]; unfold bind; cbn -[push]; rewrite Hp; reflexivity.
Qed.

Lemma run_not m rty z c w s st0 :
  cell_of_val rty (PInt z) = Some c -> checked rty (PInt (Z.lnot z)) = Some w ->
  exists cw, cell_of_val rty w = Some cw /\
    exec m INot (set_stack s (c :: st0)) = R tt (set_stack s (cw :: st0)).
Proof.
  intros Hc Hk.
  destruct (cell_cases _ _ _ Hc) as [(-> & x & E & ->) | [(-> & x & E & ->) |
      [(-> & x & E & ->) | [(-> & x & E & ->) | (-> & x & E & ->)]]]]; try discriminate E;
    inversion E; subst x;
    destruct (push_checked _ _ _ Hk) as (cc & Hcc & Hp); exists cc; (split; [assumption|]);
    cbn -[push]; unfold bind; cbn -[push]; rewrite Hp; reflexivity.
Qed.

(* ---------- literals ---------- *)

Lemma is_num_cases ty : is_num ty = true -> ty = 1 \/ ty = 2 \/ ty = 3 \/ ty = 4.
Proof. unfold is_num. lia. Qed.

Lemma py_type_conv_int ty v v' : ty = 1 \/ ty = 2 -> py_type_conv ty v = FVal v' ->
  exists z, v' = PInt z.
Proof.
  intros Hty H. unfold py_type_conv in H.
  destruct Hty as [-> | ->]; cbn in H;
    (destruct v as [z|f|t];
     [ inversion H; eauto
     | destruct f as [| n | n mm e]; try discriminate;
       destruct (ftrunc (FFin n mm e)); inversion H; eauto
     | destruct (negb (ascii t)); try discriminate;
       destruct (py_int t); inversion H; eauto ]).
Qed.

Lemma py_type_conv_flt ty v v' : ty = 3 \/ ty = 4 -> py_type_conv ty v = FVal v' ->
  exists f, v' = PFlt f.
Proof.
  intros Hty H. unfold py_type_conv in H.
  destruct Hty as [-> | ->]; cbn in H;
    (destruct v as [z|f|t];
     [ destruct (of_Z_opt z); inversion H; eauto
     | inversion H; eauto
     | destruct (negb (ascii t)); try discriminate;
       destruct (py_float t); inversion H; eauto ]).
Qed.

Transparent checked push_lit of_Z.

Lemma run_lit_fixed m ty v' v'' : is_num ty = true -> (ty = 1 \/ ty = 2 -> exists z, v' = PInt z) ->
  (ty = 3 \/ ty = 4 -> exists f, v' = PFlt f) -> checked ty v' = Some v'' ->
  exists i c, push_lit_fixed ty v' = CgOk [i] /\ cell_of_val ty v'' = Some c /\
    forall s st0, exec m i (set_stack s st0) = R tt (set_stack s (c :: st0)).
Proof.
  intros Hn Hi Hf Hk.
  destruct (is_num_cases ty Hn) as [-> | [-> | [-> | ->]]].
  - destruct Hi as (z & ->); auto. cbn in Hk. destruct (in_int z) eqn:E; inversion Hk; subst.
    destruct (exec_lit_int m 1 z (or_introl eq_refl) E) as (i & Pi & Ei).
    exists i, (CI z). repeat split; auto. intros. rewrite Ei. reflexivity.
  - destruct Hi as (z & ->); auto. cbn in Hk. destruct (in_long z) eqn:E; inversion Hk; subst.
    destruct (exec_lit_int m 2 z (or_intror eq_refl) E) as (i & Pi & Ei).
    exists i, (CL z). repeat split; auto. intros. rewrite Ei. reflexivity.
  - destruct Hf as (f & ->); auto. cbn in Hk.
    destruct (to_single f) as [g|] eqn:E; inversion Hk; subst.
    destruct f as [| n | n mm e];
      [ | | destruct n; destruct mm as [|[p|p|]|p]; destruct e as [|[q|q|]|q] ];
      cbn; rewrite ?E;
      (eexists; eexists; split; [reflexivity|]; split; [reflexivity|]);
      intros; cbn; unfold push, bind; cbn;
      try (rewrite E; reflexivity);
      try (change (of_Z 0) with (FFin false 0 0) in *; rewrite E; reflexivity);
      try (change (fzero false) with (FFin false 0 0) in *; rewrite E; reflexivity);
      try (change (of_Z 1) with (FFin false 1 0) in *; rewrite E; reflexivity);
      try (change (of_Z (-1)) with (FFin true 1 0) in *; rewrite E; reflexivity);
      try (change (of_Z 2) with (FFin false 1 1) in *; rewrite E; reflexivity);
      try (change (of_Z (-2)) with (FFin true 1 1) in *; rewrite E; reflexivity).
  - destruct Hf as (f & ->); auto. cbn in Hk. inversion Hk; subst.
    destruct f as [| n | n mm e];
      [ | | destruct n; destruct mm as [|[p|p|]|p]; destruct e as [|[q|q|]|q] ];
      cbn; (eexists; eexists; split; [reflexivity|]; split; [reflexivity|]);
      intros; reflexivity.
Qed.

Opaque checked push_lit of_Z.


(* ---------- string literals ---------- *)

Fixpoint strs (e : cexpr) : list str :=
  match e with
  | CNum _ _ => []
  | CStrLit s => [s]
  | CBin _ l r => strs l ++ strs r
  | CUn _ a => strs a
  | CParen a => strs a
  end.

Lemma str_index_spec s l : forall k i, str_index s l k = Some i ->
  k <= i /\ nth_error l (Z.to_nat (i - k)) = Some s.
Proof.
  induction l as [|x r IH]; intros k i H; simpl in H; [discriminate|].
  destruct (str_eqb x s) eqn:E.
  - inversion H; subst. apply str_eqb_eq in E. subst. split; [lia|].
    replace (i - i) with 0 by lia. reflexivity.
  - destruct (IH _ _ H) as (Hle & Hn). split; [lia|].
    replace (Z.to_nat (i - k)) with (S (Z.to_nat (i - (k + 1)))) by lia. exact Hn.
Qed.

Lemma str_index_in s l : forall k, In s l -> exists i, str_index s l k = Some i.
Proof.
  induction l as [|x r IH]; intros k H; [destruct H|]. simpl.
  destruct (str_eqb x s) eqn:E; [eauto|].
  destruct H as [-> | H]; [|eauto].
  assert (str_eqb s s = true) by (apply str_eqb_eq; reflexivity). congruence.
Qed.

Lemma nthZ_of_nth {A} (l : list A) i x : 0 <= i -> nth_error l (Z.to_nat i) = Some x -> nthZ l i = Some x.
Proof.
  intros Hi Hn. unfold nthZ.
  assert (Hlt : (Z.to_nat i < length l)%nat) by (apply nth_error_Some; congruence).
  replace (i <? 0) with false by lia. cbn.
  replace ((i <? 0) || (i >=? Z.of_nat (length l))) with false by lia. exact Hn.
Qed.

Lemma run_str m lits t : m_literals m = lits -> In t lits ->
  exists i, str_index t lits 0 = Some i /\
    forall s st0, exec m (IPushStr i) (set_stack s st0) = R tt (set_stack s (CStr t :: st0)).
Proof.
  intros Hm Hin. destruct (str_index_in t lits 0 Hin) as (i & Hi). exists i. split; [assumption|].
  destruct (str_index_spec _ _ _ _ Hi) as (Hle & Hn). rewrite Z.sub_0_r in Hn.
  intros s st0. cbn. rewrite Hm, (nthZ_of_nth _ _ _ Hle Hn). reflexivity.
Qed.

Lemma lits_of_incl e : forall acc t, In t acc -> In t (lits_of e acc).
Proof.
  induction e; intros acc t H; simpl; auto.
  destruct (str_index s acc 0); auto. apply in_or_app; auto.
Qed.

Lemma lits_of_strs e : forall acc t, In t (strs e) -> In t (lits_of e acc).
Proof.
  induction e; intros acc t H; simpl in *; auto.
  - destruct H.
  - destruct H as [<- | []]. destruct (str_index s acc 0) eqn:E.
    + destruct (str_index_spec _ _ _ _ E) as (_ & Hn). eapply nth_error_In; eauto.
    + apply in_or_app; right; simpl; auto.
  - apply in_app_or in H. destruct H as [H | H].
    + apply lits_of_incl. apply IHe1; assumption.
    + apply IHe2; assumption.
Qed.

(* ---------- the generated code computes what the fixed folder computes ---------- *)

Lemma fx_checked_some ty v w : fx_checked ty v = FxV w -> checked ty v = Some w.
Proof. unfold fx_checked. destruct (checked ty v); intros H; inversion H; reflexivity. Qed.

Lemma fixed_run m lits : m_literals m = lits -> forall e v,
  (forall t, In t (strs e) -> In t lits) -> eval_fixed e = FxV v ->
  type_ok_fixed e = true /\
  exists l c, cg_fixed lits e = CgOk l /\ cell_of_val (static_type_fixed e) v = Some c /\
    forall s st0, run_instrs m l (set_stack s st0) = R tt (set_stack s (c :: st0)).
Proof.
  intros Hm. induction e as [ty v0 | t | op l IHl r IHr | op a IHa | a IHa]; intros v Hs He.
  - (* literal *)
    cbn [eval_fixed] in He. destruct (py_type_conv ty v0) as [v'| | | | |] eqn:Ep; try discriminate.
    destruct (is_num ty) eqn:Hn; [|discriminate]. apply fx_checked_some in He.
    destruct (run_lit_fixed m ty v' v Hn
                (fun H => py_type_conv_int ty v0 v' H Ep) (fun H => py_type_conv_flt ty v0 v' H Ep) He)
      as (i & c & Pi & Hc & Ei).
    split; [exact Hn|]. exists [i], c. cbn [cg_fixed static_type_fixed]. rewrite Ep.
    repeat split; auto. intros. cbn [run_instrs]. unfold bind. rewrite Ei. reflexivity.
  - (* string literal *)
    cbn [eval_fixed] in He. inversion He as [Hv]; clear He; subst v.
    destruct (run_str m lits t Hm (Hs t (or_introl eq_refl))) as (i & Hi & Ei).
    split; [reflexivity|]. exists [IPushStr i], (CStr t). cbn [cg_fixed static_type_fixed]. rewrite Hi.
    repeat split; auto. intros. cbn [run_instrs]. unfold bind. rewrite Ei. reflexivity.
  - (* binary *)
    cbn [eval_fixed] in He.
    set (lt := static_type_fixed l) in *. set (rt := static_type_fixed r) in *.
    destruct ((is_num lt && is_num rt) || ((lt =? 5) && (rt =? 5) && (is_cmp op || is_add op))) eqn:Hg;
      [|discriminate]. cbn [negb] in He.
    destruct (eval_fixed l) as [lv| |] eqn:El; try discriminate. cbn [fx_bind] in He.
    destruct (conv_fixed lt (operand_type_fixed op lt rt) lv) as [xa| |] eqn:Ca; try discriminate.
    cbn [fx_bind] in He.
    destruct (eval_fixed r) as [rv| |] eqn:Er; try discriminate. cbn [fx_bind] in He.
    destruct (conv_fixed rt (operand_type_fixed op lt rt) rv) as [xb| |] eqn:Cb; try discriminate.
    cbn [fx_bind] in He.
    destruct (raw_op op xa xb) as [w| |] eqn:Ho; try discriminate. apply fx_checked_some in He.
    destruct (IHl lv (fun t H => Hs t (in_or_app _ _ _ (or_introl H))) eq_refl)
      as (Tl & ll & cl & Gl & Vl & Rl).
    destruct (IHr rv (fun t H => Hs t (in_or_app _ _ _ (or_intror H))) eq_refl)
      as (Tr & lr & cr & Gr & Vr & Rr).
    fold lt in Vl. fold rt in Vr.
    split; [cbn [type_ok_fixed]; rewrite Tl, Tr; fold lt; fold rt; rewrite Hg; reflexivity|].
    set (ot := operand_type_fixed op lt rt) in *.
    assert (HT : if is_cmp op then bin_type_fixed op lt rt = 1
                 else bin_type_fixed op lt rt = ot).
    { unfold ot, operand_type_fixed. destruct (is_cmp op) eqn:Hc; [|reflexivity].
      destruct op; try discriminate Hc; reflexivity. }
    cbn [cg_fixed static_type_fixed]. fold lt. fold rt. fold ot. rewrite Gl, Gr. cbn [cg_app].
    eexists.
    assert (Hrun : forall s st0, exists cv,
              cell_of_val (bin_type_fixed op lt rt) v = Some cv /\
              run_instrs m (ll ++ conv_code lt ot ++ lr ++ conv_code rt ot ++ op_code op)
                (set_stack s st0) = R tt (set_stack s (cv :: st0))).
    { intros s st0.
      destruct (run_conv m lt ot lv xa cl s st0 Ca Vl) as (ca & Va & Rca).
      destruct (run_conv m rt ot rv xb cr s (ca :: st0) Cb Vr) as (cb & Vb & Rcb).
      destruct (run_binop m op ot _ xa xb w v ca cb s st0 Ho He Va Vb HT) as (cv & Vv & Rop).
      exists cv. split; [assumption|].
      rewrite run_instrs_app, Rl. rewrite run_instrs_app, Rca.
      rewrite run_instrs_app.
      change (set_stack s (ca :: st0)) with (set_stack (set_stack s (ca :: st0)) (ca :: st0)).
      rewrite Rr. change (set_stack (set_stack s (ca :: st0)) (cr :: ca :: st0))
        with (set_stack s (cr :: ca :: st0)).
      rewrite run_instrs_app, Rcb. exact Rop. }
    destruct (Hrun (init_state m empty_script) []) as (cv & Vv & _).
    exists cv. repeat split; auto. intros s st0.
    destruct (Hrun s st0) as (cv' & Vv' & Rv'). rewrite Vv in Vv'. inversion Vv'; subst. exact Rv'.
  - (* unary *)
    cbn [eval_fixed] in He. set (aty := static_type_fixed a) in *.
    destruct (is_num aty) eqn:Hn; [|discriminate]. cbn [negb] in He.
    destruct (eval_fixed a) as [va| |] eqn:Ea; try discriminate. cbn [fx_bind] in He.
    destruct (IHa va Hs eq_refl) as (Ta & la & ca & Ga & Va & Ra). fold aty in Va.
    split; [cbn [type_ok_fixed]; rewrite Ta; fold aty; rewrite Hn; reflexivity|].
    cbn [cg_fixed static_type_fixed]. rewrite Ga. cbn [cg_app]. fold aty.
    destruct op.
    + (* NEG *)
      assert (Hk : match va with
                   | PInt z => checked aty (PInt (- z))
                   | PFlt f => checked aty (PFlt (fneg f))
                   | PStrV _ => None end = Some v).
      { destruct va; try discriminate; apply fx_checked_some; assumption. }
      eexists.
      assert (Hrun : forall s st0, exists cw, cell_of_val aty v = Some cw /\
                run_instrs m (la ++ [INeg]) (set_stack s st0) = R tt (set_stack s (cw :: st0))).
      { intros s st0. destruct (run_neg m aty va v ca s st0 Va Hk) as (cw & Vw & Rw).
        exists cw. split; [assumption|]. rewrite run_instrs_app, Ra. cbn [run_instrs]. unfold bind.
        rewrite Rw. reflexivity. }
      destruct (Hrun (init_state m empty_script) []) as (cw & Vw & _).
      exists cw. repeat split; auto. intros s st0.
      destruct (Hrun s st0) as (cw' & Vw' & Rw'). cbn [un_type] in *. rewrite Vw in Vw'. inversion Vw'; subst. exact Rw'.
    + (* PLUS *)
      inversion He; subst. exists la, ca. repeat split; auto.
    + (* NOT *)
      set (rty := if aty =? 1 then 1 else 2) in *.
      destruct (conv_fixed aty rty va) as [w0| |] eqn:Cw; try discriminate. cbn [fx_bind] in He.
      destruct w0 as [z| |]; try discriminate. apply fx_checked_some in He.
      eexists.
      assert (Hrun : forall s st0, exists cw, cell_of_val rty v = Some cw /\
                run_instrs m (la ++ conv_code aty rty ++ [INot]) (set_stack s st0)
                = R tt (set_stack s (cw :: st0))).
      { intros s st0. destruct (run_conv m aty rty va (PInt z) ca s st0 Cw Va) as (cz & Vz & Rz).
        destruct (run_not m rty z cz v s st0 Vz He) as (cw & Vw & Rw).
        exists cw. split; [assumption|]. rewrite run_instrs_app, Ra. rewrite run_instrs_app, Rz.
        cbn [run_instrs]. unfold bind. rewrite Rw. reflexivity. }
      destruct (Hrun (init_state m empty_script) []) as (cw & Vw & _).
      exists cw. repeat split; auto. intros s st0.
      destruct (Hrun s st0) as (cw' & Vw' & Rw'). cbn [un_type] in *. fold rty in Vw'.
      rewrite Vw in Vw'. inversion Vw'; subst. exact Rw'.
  - (* parentheses *)
    cbn [eval_fixed] in He. destruct (IHa v Hs He) as (Ta & la & ca & Ga & Va & Ra).
    split; [exact Ta|]. exists la, ca. repeat split; auto.
Qed.

(* the folder after the fix: a folded literal is exactly the cell the generated
   code computes, for EVERY constant expression, operator, type and value *)
Theorem fold_fixed_sound : forall e ty v, fold_fixed e = Folded ty v ->
  exists c, cell_of_val ty v = Some c /\ rt_eval_fixed e = RVal c.
Proof.
  intros e ty v H. unfold fold_fixed in H.
  destruct (eval_fixed e) as [w| |] eqn:E; try discriminate. inversion H; subst.
  set (lits := lits_of e []). set (m := expr_module lits).
  destruct (fixed_run m lits eq_refl e v (fun t Ht => lits_of_strs e [] t Ht) E)
    as (Tok & l & c & G & V & Rn).
  exists c. split; [assumption|]. unfold rt_eval_fixed. rewrite Tok. cbn [negb].
  fold lits. rewrite G. fold m.
  change (init_state m empty_script) with (set_stack (init_state m empty_script) []).
  rewrite Rn. reflexivity.
Qed.

Theorem fold_fixed_keeps_traps : forall e code, rt_eval_fixed e = RTrap code ->
  forall ty v, fold_fixed e <> Folded ty v.
Proof.
  intros e code Hr ty v Hf. destruct (fold_fixed_sound e ty v Hf) as (c & _ & Hc).
  rewrite Hr in Hc. discriminate.
Qed.

Theorem fold_fixed_never_crashes : forall e k, fold_fixed e <> CompilerCrash k.
Proof. intros e k. unfold fold_fixed. destruct (eval_fixed e); discriminate. Qed.
