(* Proofs about the peephole model (Models/Peephole.v):
   (b) list level: every result of [optimize] is reached from the input by
       finitely many of the seven rewrites, applied to windows that contain no
       PMark; the sequence of PMarks is unchanged;
   (c) debug markers: erase_marks commutes with optimize up to rewriting, and
       the offset/label computation of the assembler ignores debug markers;
   (a) machine level: each rewrite is sound for Cpu.exec on every state (or
       refuted by a witness where the compile-time evaluator is wrong). *)
From Coq Require Import ZArith List Bool Lia Relations.
From QV Require Import Sx Strs Fl Cell Machine Cpu Peephole ExpShortcut.
Import ListNotations.
Open Scope Z_scope.

(* ================================================================== *)
(* list lemmas *)

Lemma skipn_nth_cons : forall (l : list pins) n,
  (n < length l)%nat -> skipn n l = nth n l nop :: skipn (S n) l.
Proof.
  induction l as [|a l IH]; intros n H; simpl in H; [lia|].
  destruct n; [reflexivity|]. simpl. apply IH. lia.
Qed.

Lemma firstn_len_app : forall (pre r : list pins), firstn (length pre) (pre ++ r) = pre.
Proof. induction pre; simpl; intros; [reflexivity | now rewrite IHpre]. Qed.

Lemma skipn_Slen_app : forall (pre : list pins) x r, skipn (S (length pre)) (pre ++ x :: r) = r.
Proof. induction pre; simpl; intros; [reflexivity | apply IHpre]. Qed.

Lemma nth_len_app : forall (pre : list pins) x r, nth (length pre) (pre ++ x :: r) nop = x.
Proof. induction pre; simpl; intros; [reflexivity | apply IHpre]. Qed.

Lemma del_at : forall pre x post k,
  Z.to_nat k = length pre -> del (pre ++ x :: post) k = pre ++ post.
Proof.
  intros. unfold del. rewrite H, firstn_len_app, skipn_Slen_app. reflexivity.
Qed.

Lemma setn_at : forall pre x post k y,
  Z.to_nat k = length pre -> setn (pre ++ x :: post) k y = pre ++ y :: post.
Proof.
  intros. unfold setn. rewrite H, firstn_len_app, skipn_Slen_app. reflexivity.
Qed.

Lemma window1 : forall l i, 0 <= i < Z.of_nat (length l) ->
  exists pre post, l = pre ++ get l i :: post /\ Z.to_nat i = length pre.
Proof.
  intros l i H. exists (firstn (Z.to_nat i) l), (skipn (S (Z.to_nat i)) l).
  assert (Hn : (Z.to_nat i < length l)%nat) by lia.
  split.
  - unfold get. rewrite <- skipn_nth_cons by exact Hn. symmetry. apply firstn_skipn.
  - rewrite firstn_length. lia.
Qed.

Lemma window2 : forall l i, 0 < i < Z.of_nat (length l) ->
  exists pre post, l = pre ++ get l (i - 1) :: get l i :: post /\ Z.to_nat i = S (length pre).
Proof.
  intros l i H.
  set (n := Z.to_nat (i - 1)).
  assert (Hi : Z.to_nat i = S n) by (unfold n; lia).
  assert (Hn : (S n < length l)%nat) by lia.
  exists (firstn n l), (skipn (S (S n)) l). split.
  - unfold get. fold n. rewrite Hi.
    rewrite <- (skipn_nth_cons l (S n)) by lia.
    rewrite <- (skipn_nth_cons l n) by lia.
    symmetry. apply firstn_skipn.
  - rewrite firstn_length. lia.
Qed.

Lemma window3 : forall l i, 1 < i < Z.of_nat (length l) ->
  exists pre post, l = pre ++ get l (i - 2) :: get l (i - 1) :: get l i :: post
                   /\ Z.to_nat i = S (S (length pre)).
Proof.
  intros l i H.
  set (n := Z.to_nat (i - 2)).
  assert (Hi : Z.to_nat i = S (S n)) by (unfold n; lia).
  assert (Hi1 : Z.to_nat (i - 1) = S n) by (unfold n; lia).
  exists (firstn n l), (skipn (S (S (S n))) l). split.
  - unfold get. fold n. rewrite Hi, Hi1.
    rewrite <- (skipn_nth_cons l (S (S n))) by lia.
    rewrite <- (skipn_nth_cons l (S n)) by lia.
    rewrite <- (skipn_nth_cons l n) by lia.
    symmetry. apply firstn_skipn.
  - rewrite firstn_length. lia.
Qed.

Lemma app_cons_assoc : forall (pre : list pins) a r, pre ++ a :: r = (pre ++ [a]) ++ r.
Proof. intros. now rewrite <- app_assoc. Qed.

Lemma len_snoc : forall (pre : list pins) a, length (pre ++ [a]) = S (length pre).
Proof. intros. rewrite app_length. simpl. lia. Qed.

Lemma zs_eqb_eq : forall a b, zs_eqb a b = true -> a = b.
Proof.
  induction a as [|x a IH]; destruct b as [|y b]; simpl; intros H; try discriminate; [reflexivity|].
  apply andb_true_iff in H. destruct H as [H1 H2]. apply Z.eqb_eq in H1. subst. f_equal. now apply IH.
Qed.

(* ================================================================== *)
(* (b) the rewrite relation and the loop *)

Section ListLevel.
Variable convf : Z -> pyval -> fres.
Variable f1 : unop -> Z -> pyval -> fres.
Variable f2 : binop -> Z -> pyval -> pyval -> fres.

(* window -> replacement; no constructor mentions PMark, the after-halt rule
   excludes it explicitly *)
Inductive rw1 : list pins -> list pins -> Prop :=
| rw_push_conv : forall tc v dst v',
    convf dst v = FVal v' -> rw1 [PPush tc v; PConv tc dst] [PPush dst v']
| rw_read_store : forall sc tc args, rw1 [PRead sc tc args; PStore sc args] []
| rw_push_un : forall tc v o v',
    f1 o tc v = FVal v' -> rw1 [PPush tc v; PUn o] [PPush tc v']
| rw_push_bin : forall tc a b o v',
    f2 o tc a b = FVal v' -> rw1 [PPush tc a; PPush tc b; PBin o] [PPush tc v']
| rw_jmp_jmp : forall j1 j2, is_jump j1 = true -> is_jump j2 = true -> rw1 [j1; j2] [j1]
| rw_push_jz_taken : forall v t, py_eq0 v = true -> rw1 [PPush 1 v; PJz t] [PJmp t]
| rw_push_jz_never : forall v t, py_eq0 v = false -> rw1 [PPush 1 v; PJz t] []
| rw_after_halt : forall x, is_mark x = false -> rw1 [PHalt; x] [PHalt].

Definition rewrites (l l' : list pins) : Prop :=
  exists pre w w' post, l = pre ++ w ++ post /\ l' = pre ++ w' ++ post /\ rw1 w w'.

Definition rewrites_star := clos_refl_trans (list pins) rewrites.

Lemma rw1_no_mark : forall w w', rw1 w w' ->
  forallb (fun p => negb (is_mark p)) w = true /\ forallb (fun p => negb (is_mark p)) w' = true.
Proof.
  intros w w' H. destruct H; simpl; try (split; reflexivity).
  - destruct j1, j2; simpl in *; try discriminate; split; reflexivity.
  - rewrite H. split; reflexivity.
Qed.

Lemma prev_not_nop_pos : forall l i p,
  (if 0 <? i then get l (i - 1) else nop) = p -> p <> nop -> 0 < i.
Proof.
  intros l i p H Hn. destruct (0 <? i) eqn:E; [now apply Z.ltb_lt | congruence].
Qed.

Lemma prev2_not_nop_pos : forall l i p,
  (if 1 <? i then get l (i - 2) else nop) = p -> p <> nop -> 1 < i.
Proof.
  intros l i p H Hn. destruct (1 <? i) eqn:E; [now apply Z.ltb_lt | congruence].
Qed.

Ltac pos_from H :=
  match type of H with
  | (if 0 <? ?i then get ?l (?i - 1) else nop) = ?p =>
    let Hp := fresh "Hpos" in
    assert (Hp : 0 < i) by (apply (prev_not_nop_pos l i p H); unfold nop; discriminate);
    rewrite (proj2 (Z.ltb_lt 0 i) Hp) in H
  end.

Lemma r_push_conv_sound : forall l i l' i',
  0 <= i < Z.of_nat (length l) ->
  r_push_conv convf l i (get l i) (if 0 <? i then get l (i - 1) else nop) = Some (SNext l' i') ->
  l' = l \/ rewrites l l'.
Proof.
  intros l i l' i' Hr H. unfold r_push_conv in H.
  destruct (get l i) eqn:Hc; try discriminate.
  destruct (if 0 <? i then get l (i - 1) else nop) eqn:Hp; try discriminate.
  pos_from Hp.
  destruct (src =? tc) eqn:Hst; try discriminate. apply Z.eqb_eq in Hst. subst tc.
  destruct (convf dst v) eqn:Hv; inversion H; subst; [|now left].
  right.
  destruct (window2 l i ltac:(lia)) as (pre & post & Hl & Hlen).
  rewrite Hc, Hp in Hl.
  exists pre, [PPush src v; PConv src dst], [PPush dst v0], post.
  split; [exact Hl|]. split; [|now constructor].
  rewrite Hl at 1.
  rewrite setn_at by lia.
  rewrite app_cons_assoc. rewrite del_at by (rewrite len_snoc; lia).
  now rewrite <- app_assoc.
Qed.

Lemma r_read_store_sound : forall l i l' i',
  0 <= i < Z.of_nat (length l) ->
  r_read_store l i (get l i) (if 0 <? i then get l (i - 1) else nop) = Some (SNext l' i') ->
  l' = l \/ rewrites l l'.
Proof.
  intros l i l' i' Hr H. unfold r_read_store in H.
  destruct (get l i) eqn:Hc; try discriminate.
  destruct (if 0 <? i then get l (i - 1) else nop) eqn:Hp; try discriminate.
  pos_from Hp.
  destruct ((scope =? scope0) && zs_eqb args args0) eqn:Hst; try discriminate.
  apply andb_true_iff in Hst. destruct Hst as [Hs Ha]. apply Z.eqb_eq in Hs. apply zs_eqb_eq in Ha. subst.
  inversion H; subst. right.
  destruct (window2 l i ltac:(lia)) as (pre & post & Hl & Hlen).
  rewrite Hc, Hp in Hl.
  exists pre, [PRead scope0 tc args0; PStore scope0 args0], [], post.
  split; [exact Hl|]. split; [|constructor].
  rewrite Hl at 1.
  rewrite app_cons_assoc. rewrite del_at by (rewrite len_snoc; lia).
  rewrite <- app_assoc. simpl. rewrite del_at by lia. reflexivity.
Qed.

Lemma r_push_un_sound : forall l i l' i',
  0 <= i < Z.of_nat (length l) ->
  r_push_un f1 l i (get l i) (if 0 <? i then get l (i - 1) else nop) = Some (SNext l' i') ->
  l' = l \/ rewrites l l'.
Proof.
  intros l i l' i' Hr H. unfold r_push_un in H.
  destruct (get l i) eqn:Hc; try discriminate.
  destruct (if 0 <? i then get l (i - 1) else nop) eqn:Hp; try discriminate.
  pos_from Hp.
  destruct (f1 o tc v) eqn:Hv; inversion H; subst.
  right.
  destruct (window2 l i ltac:(lia)) as (pre & post & Hl & Hlen).
  rewrite Hc, Hp in Hl.
  exists pre, [PPush tc v; PUn o], [PPush tc v0], post.
  split; [exact Hl|]. split; [|now constructor].
  rewrite Hl at 1.
  rewrite setn_at by lia.
  rewrite app_cons_assoc. rewrite del_at by (rewrite len_snoc; lia).
  now rewrite <- app_assoc.
Qed.

Lemma r_push_bin_sound : forall l i l' i',
  0 <= i < Z.of_nat (length l) ->
  r_push_bin f2 l i (get l i) (if 0 <? i then get l (i - 1) else nop)
             (if 1 <? i then get l (i - 2) else nop) = Some (SNext l' i') ->
  l' = l \/ rewrites l l'.
Proof.
  intros l i l' i' Hr H. unfold r_push_bin in H.
  destruct (get l i) eqn:Hc; try discriminate.
  destruct (if 0 <? i then get l (i - 1) else nop) eqn:Hp; try discriminate.
  destruct (if 1 <? i then get l (i - 2) else nop) eqn:Hp2; try discriminate.
  assert (Hpos2 : 1 < i) by (apply (prev2_not_nop_pos l i _ Hp2); unfold nop; discriminate).
  rewrite (proj2 (Z.ltb_lt 1 i) Hpos2) in Hp2.
  assert (Hpos : 0 <? i = true) by (apply Z.ltb_lt; lia). rewrite Hpos in Hp.
  destruct (tc =? tc0) eqn:Hst; try discriminate. apply Z.eqb_eq in Hst. subst tc0.
  destruct (f2 o tc v0 v) eqn:Hv; inversion H; subst; [|now left].
  right.
  destruct (window3 l i ltac:(lia)) as (pre & post & Hl & Hlen).
  rewrite Hc, Hp, Hp2 in Hl.
  exists pre, [PPush tc v0; PPush tc v; PBin o], [PPush tc v1], post.
  split; [exact Hl|]. split; [|now constructor].
  rewrite Hl at 1.
  rewrite setn_at by lia.
  rewrite (app_cons_assoc pre (PPush tc v1)).
  rewrite (app_cons_assoc (pre ++ [PPush tc v1]) (PPush tc v)).
  rewrite del_at by (rewrite !len_snoc; lia).
  rewrite <- app_assoc. simpl.
  rewrite del_at by (rewrite len_snoc; lia).
  now rewrite <- app_assoc.
Qed.

Lemma is_jump_not_nop : forall p, is_jump p = true -> p <> nop.
Proof. intros p H E. subst. discriminate. Qed.

Lemma r_jmp_jmp_sound : forall l i l' i',
  0 <= i < Z.of_nat (length l) ->
  r_jmp_jmp l i (get l i) (if 0 <? i then get l (i - 1) else nop) = Some (SNext l' i') ->
  l' = l \/ rewrites l l'.
Proof.
  intros l i l' i' Hr H. unfold r_jmp_jmp in H.
  destruct (is_jump (get l i)) eqn:Hc; simpl in H; try discriminate.
  destruct (is_jump (if 0 <? i then get l (i - 1) else nop)) eqn:Hp; try discriminate.
  assert (Hpos : 0 < i).
  { destruct (0 <? i) eqn:E; [now apply Z.ltb_lt | discriminate]. }
  rewrite (proj2 (Z.ltb_lt 0 i) Hpos) in Hp.
  inversion H; subst. right.
  destruct (window2 l i ltac:(lia)) as (pre & post & Hl & Hlen).
  exists pre, [get l (i - 1); get l i], [get l (i - 1)], post.
  split; [exact Hl|]. split; [|now constructor].
  rewrite Hl at 1.
  rewrite app_cons_assoc. rewrite del_at by (rewrite len_snoc; lia).
  now rewrite <- app_assoc.
Qed.

Lemma r_tail_sound : forall l i l' i',
  0 <= i < Z.of_nat (length l) ->
  r_tail l i (get l i) (if 0 <? i then get l (i - 1) else nop) = SNext l' i' ->
  l' = l \/ rewrites l l'.
Proof.
  intros l i l' i' Hr H. unfold r_tail in H.
  destruct (if 0 <? i then get l (i - 1) else nop) eqn:Hp.
  - (* prev1 = push: only rule 6 can fire *)
    pos_from Hp.
    destruct (get l i) eqn:Hc; try (inversion H; subst; now left).
    destruct (tc =? 1) eqn:Htc; [|inversion H; subst; now left].
    apply Z.eqb_eq in Htc. subst tc.
    destruct (window2 l i ltac:(lia)) as (pre & post & Hl & Hlen).
    rewrite Hc, Hp in Hl.
    destruct (py_eq0 v) eqn:Hz; inversion H; subst l' i'; right.
    + exists pre, [PPush 1 v; PJz l0], [PJmp l0], post.
      split; [exact Hl|]. split; [|now constructor].
      rewrite Hl at 1.
      rewrite del_at by lia. rewrite setn_at by lia. reflexivity.
    + exists pre, [PPush 1 v; PJz l0], [], post.
      split; [exact Hl|]. split; [|now constructor].
      rewrite Hl at 1.
      rewrite app_cons_assoc. rewrite del_at by (rewrite len_snoc; lia).
      rewrite <- app_assoc. simpl. rewrite del_at by lia. reflexivity.
  - destruct (get l i); inversion H; subst; now left.
  - destruct (get l i); inversion H; subst; now left.
  - destruct (get l i); inversion H; subst; now left.
  - destruct (get l i); inversion H; subst; now left.
  - destruct (get l i); inversion H; subst; now left.
  - destruct (get l i); inversion H; subst; now left.
  - destruct (get l i); inversion H; subst; now left.
  - destruct (get l i); inversion H; subst; now left.
  - destruct (get l i); inversion H; subst; now left.
  - destruct (get l i); inversion H; subst; now left.
  - (* prev1 = halt: rule 7 *)
    pos_from Hp.
    assert (Hsame : (let '(l1, i1) :=
               match get l i with
               | PJz t => (l, i)
               | _ => (l, i)
               end in (l1, i1)) = (l, i)) by (destruct (get l i); reflexivity).
    destruct (is_mark (get l i)) eqn:Hm.
    + destruct (get l i); simpl in Hm; try discriminate; inversion H; subst; now left.
    + assert (H' : SNext (del l i) (i - 1 + 1) = SNext l' i') by (destruct (get l i); simpl in Hm; try discriminate; exact H).
      inversion H'; subst l' i'. right.
      destruct (window2 l i ltac:(lia)) as (pre & post & Hl & Hlen).
      rewrite Hp in Hl.
      exists pre, [PHalt; get l i], [PHalt], post.
      split; [exact Hl|]. split; [|now constructor].
      rewrite Hl at 1.
      rewrite app_cons_assoc. rewrite del_at by (rewrite len_snoc; lia).
      now rewrite <- app_assoc.
  - destruct (get l i); inversion H; subst; now left.
  - destruct (get l i); inversion H; subst; now left.
Qed.

Lemma step_rewrites : forall l i l' i',
  0 <= i < Z.of_nat (length l) ->
  step convf f1 f2 l i = SNext l' i' -> l' = l \/ rewrites l l'.
Proof.
  intros l i l' i' Hr H. unfold step in H.
  destruct (r_push_conv convf l i (get l i) (if 0 <? i then get l (i - 1) else nop)) as [r|] eqn:E1;
    simpl in H. { subst r. eapply r_push_conv_sound; eauto. }
  destruct (r_read_store l i (get l i) (if 0 <? i then get l (i - 1) else nop)) as [r|] eqn:E2;
    simpl in H. { subst r. eapply r_read_store_sound; eauto. }
  destruct (r_push_un f1 l i (get l i) (if 0 <? i then get l (i - 1) else nop)) as [r|] eqn:E3;
    simpl in H. { subst r. eapply r_push_un_sound; eauto. }
  destruct (r_push_bin f2 l i (get l i) (if 0 <? i then get l (i - 1) else nop)
                       (if 1 <? i then get l (i - 2) else nop)) as [r|] eqn:E4;
    simpl in H. { subst r. eapply r_push_bin_sound; eauto. }
  destruct (r_jmp_jmp l i (get l i) (if 0 <? i then get l (i - 1) else nop)) as [r|] eqn:E5;
    simpl in H. { subst r. eapply r_jmp_jmp_sound; eauto. }
  eapply r_tail_sound; eauto.
Qed.

(* every result of the loop, for every fuel, start index and list *)
Lemma opt_loop_steps : forall fuel l i,
  rewrites_star l (fst (opt_loop convf f1 f2 fuel l i)).
Proof.
  induction fuel as [|f IH]; intros l i; simpl; [apply rt_refl|].
  destruct l as [|a l0]; [apply rt_refl|].
  set (l := a :: l0) in *.
  destruct (i <? Z.of_nat (length l)) eqn:Hlt; [|apply rt_refl].
  apply Z.ltb_lt in Hlt.
  set (i0 := if i <? 0 then 0 else i).
  assert (Hr : 0 <= i0 < Z.of_nat (length l)).
  { unfold i0. destruct (i <? 0) eqn:E.
    - split; [lia|]. unfold l. simpl length. lia.
    - apply Z.ltb_ge in E. lia. }
  destruct (step convf f1 f2 l i0) as [l' i'| |] eqn:Hs; try apply rt_refl.
  destruct (step_rewrites l i0 l' i' Hr Hs) as [-> | Hrw].
  - apply IH.
  - eapply rt_trans; [apply rt_step; exact Hrw | apply IH].
Qed.

Lemma marks_app : forall a b, marks (a ++ b) = marks a ++ marks b.
Proof. intros. unfold marks. apply filter_app. Qed.

Lemma erase_app : forall a b, erase_marks (a ++ b) = erase_marks a ++ erase_marks b.
Proof. intros. unfold erase_marks. apply filter_app. Qed.

Lemma no_mark_filter : forall w, forallb (fun p => negb (is_mark p)) w = true ->
  marks w = [] /\ erase_marks w = w.
Proof.
  induction w as [|x w IH]; simpl; intros H; [split; reflexivity|].
  apply andb_true_iff in H. destruct H as [Hx Hw]. destruct (IH Hw) as [IH1 IH2].
  unfold marks, erase_marks in *. simpl.
  destruct x; simpl in *; try discriminate; rewrite ?IH1, ?IH2; split; reflexivity.
Qed.

Lemma rewrites_marks : forall l l', rewrites l l' -> marks l' = marks l.
Proof.
  intros l l' (pre & w & w' & post & -> & -> & H).
  destruct (rw1_no_mark _ _ H) as [Hw Hw'].
  rewrite !marks_app.
  rewrite (proj1 (no_mark_filter _ Hw)), (proj1 (no_mark_filter _ Hw')). reflexivity.
Qed.

Lemma rewrites_erase : forall l l', rewrites l l' -> rewrites (erase_marks l) (erase_marks l').
Proof.
  intros l l' (pre & w & w' & post & -> & -> & H).
  destruct (rw1_no_mark _ _ H) as [Hw Hw'].
  exists (erase_marks pre), w, w', (erase_marks post).
  rewrite !erase_app.
  rewrite (proj2 (no_mark_filter _ Hw)), (proj2 (no_mark_filter _ Hw')). auto.
Qed.

Lemma star_marks : forall l l', rewrites_star l l' -> marks l' = marks l.
Proof.
  intros l l' H. induction H.
  - now apply rewrites_marks.
  - reflexivity.
  - congruence.
Qed.

Lemma star_erase : forall l l', rewrites_star l l' ->
  rewrites_star (erase_marks l) (erase_marks l').
Proof.
  intros l l' H. induction H.
  - apply rt_step. now apply rewrites_erase.
  - apply rt_refl.
  - eapply rt_trans; eauto.
Qed.

End ListLevel.

(* ---- instantiated at the evaluators of the model ---- *)

Definition rewrites_m := rewrites conv_fold fold1 fold2.
Definition rewrites_star_m := rewrites_star conv_fold fold1 fold2.

Theorem optimize_steps : forall fuel l, rewrites_star_m l (optimize fuel l).
Proof. intros. unfold optimize, optimize_st. apply opt_loop_steps. Qed.

(* no rewrite window contains a PMark: in particular no rule fires across a label *)
Theorem rewrite_window_no_mark : forall l l', rewrites_m l l' ->
  exists pre w w' post, l = pre ++ w ++ post /\ l' = pre ++ w' ++ post /\
    forallb (fun p => negb (is_mark p)) w = true /\ forallb (fun p => negb (is_mark p)) w' = true.
Proof.
  intros l l' (pre & w & w' & post & H1 & H2 & H).
  exists pre, w, w', post. repeat split; auto; apply (rw1_no_mark _ _ _ _ _ H).
Qed.

Theorem optimize_keeps_marks : forall fuel l, marks (optimize fuel l) = marks l.
Proof. intros. eapply star_marks. apply optimize_steps. Qed.

(* (c) with and without debug markers: both results are rewritings of the
   unoptimised marker-free code *)
Theorem markers_only_block_rules : forall fuel fuel' l,
  rewrites_star_m (erase_marks l) (optimize fuel (erase_marks l)) /\
  rewrites_star_m (erase_marks l) (erase_marks (optimize fuel' l)).
Proof.
  intros. split.
  - apply optimize_steps.
  - apply star_erase. apply optimize_steps.
Qed.

Definition rewrites_equiv := clos_refl_sym_trans (list pins) rewrites_m.

Lemma star_equiv : forall a b, rewrites_star_m a b -> rewrites_equiv a b.
Proof.
  intros a b H. induction H.
  - now apply rst_step.
  - apply rst_refl.
  - eapply rst_trans; eauto.
Qed.

Theorem markers_results_equivalent : forall fuel fuel' l,
  rewrites_equiv (optimize fuel (erase_marks l)) (erase_marks (optimize fuel' l)).
Proof.
  intros. destruct (markers_only_block_rules fuel fuel' l) as [A B].
  eapply rst_trans; [apply rst_sym; apply star_equiv; exact A | apply star_equiv; exact B].
Qed.

(* ================================================================== *)
(* (c) the assembler's offsets and label targets ignore debug markers *)

Theorem assemble_ignores_marks : forall size routine_of l off cur,
  asm_go size routine_of (erase_marks l) off cur = asm_go size routine_of l off cur.
Proof.
  intros size routine_of l. induction l as [|p l IH]; intros off cur; [reflexivity|].
  destruct p; try (change (erase_marks (?x :: l)) with (x :: erase_marks l); simpl; now rewrite IH).
  destruct k.
  - change (erase_marks (PMark MLabel id :: l)) with (PMark MLabel id :: erase_marks l).
    simpl. now rewrite IH.
  - change (erase_marks (PMark MDbgStart id :: l)) with (erase_marks l). simpl. apply IH.
  - change (erase_marks (PMark MDbgEnd id :: l)) with (erase_marks l). simpl. apply IH.
  - change (erase_marks (PMark MEmpty id :: l)) with (erase_marks l). simpl. apply IH.
Qed.

Section AsmFacts.
Variable size : pins -> Z.
Variable routine_of : Z -> option Z.
Hypothesis size_pos : forall p, is_mark p = false -> 0 < size p.

Lemma asm_go_nonmark : forall p l off cur, is_mark p = false ->
  asm_go size routine_of (p :: l) off cur =
  let o := asm_go size routine_of l (off + size p) cur in
  mkAsm ((p, off, cur) :: a_code o) (a_labels o) (a_len o).
Proof. intros p l off cur H. destruct p; try reflexivity; discriminate. Qed.

Lemma asm_len_ge : forall l off cur, off <= a_len (asm_go size routine_of l off cur).
Proof.
  induction l as [|p l IH]; intros off cur; [simpl; lia|].
  destruct (is_mark p) eqn:Hm.
  - destruct p; try discriminate. destruct k; simpl; apply IH.
  - rewrite asm_go_nonmark by exact Hm. simpl.
    specialize (IH (off + size p) cur). specialize (size_pos p Hm). lia.
Qed.

Lemma asm_labels_range : forall l off cur id a,
  In (id, a) (a_labels (asm_go size routine_of l off cur)) ->
  off <= a <= a_len (asm_go size routine_of l off cur).
Proof.
  induction l as [|p l IH]; intros off cur id a H; [simpl in H; contradiction|].
  destruct (is_mark p) eqn:Hm.
  - destruct p; try discriminate. destruct k; simpl in *.
    + destruct H as [H|H].
      * inversion H; subst. split; [lia | apply asm_len_ge].
      * exact (IH _ _ _ _ H).
    + exact (IH _ _ _ _ H).
    + exact (IH _ _ _ _ H).
    + exact (IH _ _ _ _ H).
  - rewrite asm_go_nonmark in * by exact Hm. simpl in *.
    specialize (IH _ _ _ _ H). specialize (size_pos p Hm). lia.
Qed.

Lemma asm_app : forall l1 l2 off cur, exists cur2,
  a_labels (asm_go size routine_of (l1 ++ l2) off cur) =
    a_labels (asm_go size routine_of l1 off cur) ++
    a_labels (asm_go size routine_of l2 (a_len (asm_go size routine_of l1 off cur)) cur2) /\
  a_len (asm_go size routine_of (l1 ++ l2) off cur) =
    a_len (asm_go size routine_of l2 (a_len (asm_go size routine_of l1 off cur)) cur2).
Proof.
  induction l1 as [|p l1 IH]; intros l2 off cur; simpl.
  - exists cur. split; reflexivity.
  - destruct p; simpl; try apply IH.
    destruct k; simpl; try apply IH.
    destruct (IH l2 off (match routine_of id with Some c => c | None => cur end)) as (c2 & A & B).
    exists c2. rewrite A, B. split; reflexivity.
Qed.

(* the instruction deleted after an unconditional transfer (or after halt) does
   not start at the address of any label: it can only be reached by falling
   through, which the transfer never does *)
Theorem dead_instruction_not_a_target : forall pre j x post id a,
  is_mark j = false -> is_mark x = false ->
  In (id, a) (a_labels (asm size routine_of (pre ++ j :: x :: post))) ->
  a <> a_len (asm size routine_of (pre ++ [j])).
Proof.
  intros pre j x post id a Hj Hx Hin. unfold asm in *.
  destruct (asm_app pre (j :: x :: post) 0 0) as (c2 & A & _).
  destruct (asm_app pre [j] 0 0) as (c3 & _ & B).
  rewrite A in Hin. rewrite B. clear A B.
  set (L1 := a_len (asm_go size routine_of pre 0 0)) in *.
  assert (HL : a_len (asm_go size routine_of [j] L1 c3) = L1 + size j).
  { destruct j; simpl in *; try reflexivity. discriminate. }
  rewrite HL. pose proof (size_pos j Hj) as Pj. pose proof (size_pos x Hx) as Px.
  apply in_app_or in Hin. destruct Hin as [Hin|Hin].
  - apply asm_labels_range in Hin. fold L1 in Hin. lia.
  - assert (Hin' : In (id, a) (a_labels (asm_go size routine_of post (L1 + size j + size x) c2))).
    { destruct j; simpl in Hj; try discriminate; simpl in Hin;
        destruct x; simpl in Hx; try discriminate; simpl in Hin; exact Hin. }
    apply asm_labels_range in Hin'. lia.
Qed.

End AsmFacts.

(* ================================================================== *)
(* (a) machine level: the rewrites are sound for Cpu.exec, on every state *)

Local Arguments in_int z : simpl never.
Local Arguments in_long z : simpl never.
Local Arguments of_Z z : simpl never.
Local Arguments to_single x : simpl never.
Local Arguments fround x : simpl never.
Local Arguments Z.lnot a : simpl never.
Local Arguments Z.pow x y : simpl never.

(* a literal the code generator can emit for [push<tc>]: the operand fits the
   instruction's encoding (SINGLE operands are stored as binary32) *)
Definition lit_ok (tc : Z) (v : pyval) : Prop :=
  (tc = 1 /\ exists z, v = PInt z /\ in_int z = true) \/
  (tc = 2 /\ exists z, v = PInt z /\ in_long z = true) \/
  (tc = 3 /\ exists f, v = PFlt f /\ to_single f = Some f) \/
  (tc = 4 /\ exists f, v = PFlt f).

(* the push instructions execute [Machine.push] of their operand *)
Lemma exec_push_forms : forall m,
  (forall z, exec m (IPushI z) = push 1 (PInt z)) /\
  (forall z, exec m (IPushL z) = push 2 (PInt z)) /\
  (forall f, exec m (IPushS f) = push 3 (PFlt f)) /\
  (forall f, exec m (IPushD f) = push 4 (PFlt f)) /\
  (forall c, exec m (IPushC 1 c) = push 1 (PInt c)) /\
  (forall c, exec m (IPushC 2 c) = push 2 (PInt c)).
Proof. intros. repeat split; reflexivity. Qed.

Lemma st_eta : forall s x, set_stack (set_stack s x) (stack s) = s.
Proof. destruct s; reflexivity. Qed.

Lemma st_eta2 : forall s x y, set_stack (set_stack (set_stack s x) y) (stack s) = s.
Proof. destruct s; reflexivity. Qed.

Ltac brange :=
  unfold in_int, in_long in *;
  repeat match goal with
         | H : _ && _ = true |- _ => apply andb_true_iff in H; destruct H
         | H : _ && _ = false |- _ => apply andb_false_iff in H
         | H : (_ <=? _) = true |- _ => apply Z.leb_le in H
         | H : (_ <? _) = true |- _ => apply Z.ltb_lt in H
         | H : (_ <=? _) = false |- _ => apply Z.leb_gt in H
         | H : (_ <? _) = false |- _ => apply Z.ltb_ge in H
         | H : (_ >? _) = true |- _ => apply Z.gtb_lt in H
         | H : (_ =? _) = true |- _ => apply Z.eqb_eq in H
         | H : (_ =? _) = false |- _ => apply Z.eqb_neq in H
         end.

(* ---- rule 1: push + conv ---- *)

Ltac split_hyp Hf :=
  repeat (simpl in Hf; match type of Hf with
          | context [match ?x with _ => _ end] => destruct x eqn:?; try discriminate Hf
          end).

Theorem rule_push_conv_sound : forall m src dst v v' s,
  lit_ok src v -> (dst = 1 \/ dst = 2 \/ dst = 3 \/ dst = 4) ->
  conv_fold dst v = FVal v' ->
  (push src v ;; exec m (IConv src dst)) s = push dst v' s.
Proof.
  intros m src dst v v' s Hl Hd Hf.
  destruct Hl as [[-> (z & -> & Hz)] | [[-> (z & -> & Hz)] | [[-> (f & -> & Hs)] | [-> (f & ->)]]]];
    unfold push at 1, bind, mk_cell; rewrite ?Hz, ?Hs; unfold ret, push_cell, upd_stack;
    destruct Hd as [-> | [-> | [-> | ->]]];
    simpl; unfold bind, pop_ty, pop; simpl;
    unfold conv_fold, py_float_of, py_round in Hf; simpl in Hf; split_hyp Hf;
    inversion Hf; subst; simpl; destruct s; reflexivity.
Qed.

(* the guard on SINGLE literals is needed: a push! operand that is not a
   binary32 value is rounded by the assembler, the folder rounds the double *)
Definition f_half_plus : fl := FFin false 4503599627370497 (-53).   (* 0.5 + 2^-53 *)

Definition pm0 : module := mkModule [] [] [] 0 None.
Definition ps0 : st := init_state pm0 (mkScript [] [] [] []).

(* what the assembler emits for push! x: the operand packed with '>f' *)
Definition asm_single (f : fl) : fl := match to_single f with Some f' => f' | None => f end.

Theorem rule_push_conv_refuted_unrounded_single :
  exists v', conv_fold 1 (PFlt f_half_plus) = FVal v' /\
    (exec pm0 (IPushS (asm_single f_half_plus)) ;; exec pm0 (IConv 3 1)) ps0 <> push 1 v' ps0.
Proof. exists (PInt 1). split; [reflexivity|]. vm_compute. discriminate. Qed.

(* ---- rule 6: push% + jz ---- *)

Theorem rule_push_jz_sound : forall m t s,
  (push 1 (PInt 0) ;; exec m (IJz t)) s = exec m (IJmp t) s /\
  (forall n, in_int n = true -> n <> 0 -> (push 1 (PInt n) ;; exec m (IJz t)) s = ret tt s).
Proof.
  intros m t s. split.
  - destruct s; reflexivity.
  - intros n Hn Hz. unfold push, bind, mk_cell. rewrite Hn. simpl.
    unfold bind, pop_int, pop_ty, pop, bind; simpl.
    destruct (n =? 0) eqn:E; [brange; contradiction|].
    destruct s; reflexivity.
Qed.

(* ---- rule 2: read + store of the same variable ---- *)

Lemma set_nth_same : forall (A : Type) (l : list A) n a, nth_error l n = Some a -> set_nth l n a = l.
Proof.
  induction l as [|x l IH]; intros n a H; destruct n; simpl in *; try discriminate.
  - inversion H; reflexivity.
  - f_equal. now apply IH.
Qed.

Lemma nthZ_setZ_same : forall (A : Type) (l : list A) i a, nthZ l i = Some a -> setZ l i a = Some l.
Proof.
  intros A l i a H. unfold nthZ, setZ in *.
  destruct ((_ <? 0) || (_ >=? _)); [discriminate|].
  f_equal. now apply set_nth_same.
Qed.

Lemma set_nth_length : forall (A : Type) (l : list A) n a, length (set_nth l n a) = length l.
Proof. induction l; intros; destruct n; simpl; auto. Qed.

Lemma nth_error_set_nth : forall (A : Type) (l : list A) n a,
  (n < length l)%nat -> nth_error (set_nth l n a) n = Some a.
Proof.
  induction l as [|x l IH]; intros n a H; simpl in H; [lia|].
  destruct n; simpl; [reflexivity|]. apply IH. lia.
Qed.

Lemma setZ_then_nthZ : forall (A : Type) (l l' : list A) i a b,
  nthZ l i = Some a -> setZ l i b = Some l' -> nthZ l' i = Some b.
Proof.
  intros A l l' i a b H Hs. unfold nthZ, setZ in *.
  destruct ((_ <? 0) || (_ >=? _)) eqn:E; [discriminate|].
  inversion Hs; subst. rewrite set_nth_length. rewrite E.
  apply nth_error_set_nth. apply nth_error_Some. congruence.
Qed.

Lemma setZ_some : forall (A : Type) (l : list A) i a b,
  nthZ l i = Some a -> exists l', setZ l i b = Some l'.
Proof.
  intros A l i a b H. unfold nthZ, setZ in *.
  destruct ((_ <? 0) || (_ >=? _)); [discriminate|]. eexists; reflexivity.
Qed.

(* store into variable cell (g, i): the common body of IStore and write_var *)
Definition store_at (g i : Z) (c : cell) : M unit :=
  do sg <- get_seg g;
  match setZ (s_cells sg) i (Some c) with
  | Some _ => seg_set g i (Some c)
  | None => trap T_INVALID_VAR_IDX
  end.

Lemma write_var_store_at : forall loc i c,
  write_var loc i c = (do g <- scope_seg loc; store_at g i c).
Proof. reflexivity. Qed.

Lemma seg_eta : forall sg, mkSeg (s_cells sg) (s_kind sg) = sg.
Proof. destruct sg; reflexivity. Qed.

Lemma set_heap_same : forall s, set_heap s (heap s) = s.
Proof. destruct s; reflexivity. Qed.

(* storing the value a cell already holds changes nothing *)
Lemma store_at_same : forall g i c s sg,
  nthZ (heap s) g = Some sg -> nthZ (s_cells sg) i = Some (Some c) ->
  store_at g i c s = R tt s.
Proof.
  intros g i c s sg Hg Hc. unfold store_at, bind, get_seg. rewrite Hg.
  rewrite (nthZ_setZ_same _ _ _ _ Hc).
  unfold seg_set, bind, get_seg. rewrite Hg. rewrite (nthZ_setZ_same _ _ _ _ Hc).
  rewrite seg_eta. rewrite (nthZ_setZ_same _ _ _ _ Hg). now rewrite set_heap_same.
Qed.

(* read_var succeeds exactly when the scope has a segment and the index is in range *)
Lemma read_var_inv : forall loc i s oc s',
  read_var loc i s = R oc s' ->
  s' = s /\ exists g sg, scope_seg loc s = R g s /\ nthZ (heap s) g = Some sg /\
                        nthZ (s_cells sg) i = Some oc.
Proof.
  intros loc i s oc s' H. unfold read_var, bind in H.
  destruct (scope_seg loc s) as [g s1| | | |] eqn:Hsc; try discriminate.
  assert (s1 = s).
  { destruct loc; simpl in Hsc; unfold cur_frame, ret in Hsc.
    - destruct (cur s); inversion Hsc; reflexivity.
    - inversion Hsc; reflexivity. }
  subst s1. unfold get_seg in H.
  destruct (nthZ (heap s) g) as [sg|] eqn:Hg; try discriminate.
  destruct (nthZ (s_cells sg) i) as [c|] eqn:Hc; try discriminate.
  unfold ret in H. inversion H; subst. split; [reflexivity|].
  exists g, sg. auto.
Qed.

Lemma pushed_popped : forall s c h,
  set_stack
    {| pc := pc s; prev_pc := prev_pc s; stack := c :: stack s; heap := h; cur := cur s;
       halted := halted s; reason := reason s; last_trap := last_trap s; last_kw_ok := last_kw_ok s;
       ttarget_ := ttarget_ s; handler_active := handler_active s; trapped_addr := trapped_addr s;
       irq := irq s; data_part := data_part s; data_idx := data_idx s; last_rnd := last_rnd s;
       scr := scr s; events := events s |} (stack s) = set_heap s h.
Proof. destruct s; reflexivity. Qed.

(* the sequence  read<X> v ; store<X> v  on a state where reading v succeeds:
   if the cell holds a value nothing changes at all; if it is unset the only
   effect is that it now holds the default of the read's type *)
Theorem rule_read_store_sound : forall m loc ty i s oc,
  ty <> 7 -> read_var loc i s = R oc s ->
  (exec m (IRead loc ty i) ;; exec m (IStore loc i)) s =
  match oc with
  | Some _ => R tt s
  | None => write_var loc i (default_cell ty) s
  end.
Proof.
  intros m loc ty i s oc Hty Hr.
  destruct (read_var_inv _ _ _ _ _ Hr) as (_ & g & sg & Hsc & Hg & Hc).
  assert (E7 : ty =? 7 = false) by (apply Z.eqb_neq; exact Hty).
  simpl exec. unfold read_generic. rewrite E7. unfold bind at 1 2. rewrite Hr.
  destruct oc as [c|].
  - (* the cell is set *)
    unfold repush, push_cell, upd_stack.
    unfold bind at 1, pop. simpl stack. cbv beta iota.
    rewrite (pushed_popped s c (heap s)). rewrite set_heap_same.
    destruct loc; simpl in Hsc.
    + unfold bind at 1. rewrite Hsc.
      change (store_at g i c s = R tt s). eapply store_at_same; eauto.
    + unfold ret in Hsc. inversion Hsc; subst g.
      change (store_at 0 i c s = R tt s). eapply store_at_same; eauto.
  - (* the cell is unset: the read materialises the default, the store writes it again *)
    destruct (setZ_some _ (s_cells sg) i None (Some (default_cell ty)) Hc) as (cells' & Hset).
    destruct (setZ_some _ (heap s) g sg (mkSeg cells' (s_kind sg)) Hg) as (heap' & Hh).
    assert (Hst : store_at g i (default_cell ty) s = R tt (set_heap s heap')).
    { unfold store_at, bind, get_seg. rewrite Hg, Hset.
      unfold seg_set, bind, get_seg. rewrite Hg, Hset, Hh. reflexivity. }
    assert (Hw : write_var loc i (default_cell ty) s = R tt (set_heap s heap')).
    { rewrite write_var_store_at. unfold bind. rewrite Hsc. exact Hst. }
    rewrite Hw. unfold bind at 1. rewrite Hw.
    unfold repush, push_cell, upd_stack.
    unfold bind at 1, pop. simpl stack. cbv beta iota.
    change (stack (set_heap s heap')) with (stack s).
    set (s1 := set_heap s heap').
    assert (Hs : set_stack
      {| pc := pc s1; prev_pc := prev_pc s1; stack := default_cell ty :: stack s; heap := heap s1;
         cur := cur s1; halted := halted s1; reason := reason s1; last_trap := last_trap s1;
         last_kw_ok := last_kw_ok s1; ttarget_ := ttarget_ s1; handler_active := handler_active s1;
         trapped_addr := trapped_addr s1; irq := irq s1; data_part := data_part s1;
         data_idx := data_idx s1; last_rnd := last_rnd s1; scr := scr s1; events := events s1 |}
      (stack s) = s1) by (unfold s1; destruct s; reflexivity).
    rewrite Hs.
    assert (Hg1 : nthZ (heap s1) g = Some (mkSeg cells' (s_kind sg))).
    { unfold s1; simpl. eapply setZ_then_nthZ; eauto. }
    assert (Hc1 : nthZ (s_cells (mkSeg cells' (s_kind sg))) i = Some (Some (default_cell ty))).
    { simpl. eapply setZ_then_nthZ; eauto. }
    destruct loc; simpl in Hsc.
    + unfold bind at 1.
      assert (Hsc1 : cur_frame s1 = R g s1).
      { unfold cur_frame in *. unfold s1; simpl. destruct (cur s); inversion Hsc; reflexivity. }
      rewrite Hsc1.
      change (store_at g i (default_cell ty) s1 = R tt s1). eapply store_at_same; eauto.
    + unfold ret in Hsc. inversion Hsc; subst g.
      change (store_at 0 i (default_cell ty) s1 = R tt s1). eapply store_at_same; eauto.
Qed.

(* observability: a later read of the same variable (same type) returns the
   same value and leaves the same state whether or not the pair was executed *)
Theorem read_after_materialise : forall m loc ty i s s',
  ty <> 7 -> read_var loc i s = R None s ->
  write_var loc i (default_cell ty) s = R tt s' ->
  exec m (IRead loc ty i) s' = exec m (IRead loc ty i) s.
Proof.
  intros m loc ty i s s' Hty Hr Hw.
  destruct (read_var_inv _ _ _ _ _ Hr) as (_ & g & sg & Hsc & Hg & Hc).
  assert (E7 : ty =? 7 = false) by (apply Z.eqb_neq; exact Hty).
  assert (Hrhs : exec m (IRead loc ty i) s = R tt (set_stack s' (default_cell ty :: stack s'))).
  { simpl exec. unfold read_generic. rewrite E7. unfold bind at 1. rewrite Hr.
    unfold bind at 1. rewrite Hw. reflexivity. }
  rewrite Hrhs.
  (* in s' the cell holds the default *)
  rewrite write_var_store_at in Hw. unfold bind at 1 in Hw. rewrite Hsc in Hw.
  destruct (setZ_some _ (s_cells sg) i None (Some (default_cell ty)) Hc) as (cells' & Hset).
  destruct (setZ_some _ (heap s) g sg (mkSeg cells' (s_kind sg)) Hg) as (heap' & Hh).
  assert (Hst : store_at g i (default_cell ty) s = R tt (set_heap s heap')).
  { unfold store_at, bind, get_seg. rewrite Hg, Hset.
    unfold seg_set, bind, get_seg. rewrite Hg, Hset, Hh. reflexivity. }
  rewrite Hst in Hw. inversion Hw; subst s'. clear Hw.
  assert (Hr' : read_var loc i (set_heap s heap') = R (Some (default_cell ty)) (set_heap s heap')).
  { unfold read_var, bind.
    assert (Hsc1 : scope_seg loc (set_heap s heap') = R g (set_heap s heap')).
    { destruct loc; simpl in *; unfold cur_frame, ret in *; simpl.
      - destruct (cur s); inversion Hsc; reflexivity.
      - inversion Hsc; reflexivity. }
    rewrite Hsc1. unfold get_seg. simpl heap.
    rewrite (setZ_then_nthZ _ _ _ _ _ _ Hg Hh). cbn [s_cells].
    rewrite (setZ_then_nthZ _ _ _ _ _ _ Hc Hset). reflexivity. }
  simpl exec. unfold read_generic. rewrite E7. unfold bind at 1. rewrite Hr'. reflexivity.
Qed.

(* ---- rule 3: push + not/neg ---- *)

Definition un_instr (o : unop) : instr := match o with UNot => INot | UNeg => INeg end.

(* INTEGER and LONG operands: the fold is right except for the negation of
   the most negative value, which traps at run time and is clamped by
   UnaryOp.eval *)
Theorem rule_push_unary_sound_partial : forall m o tc z v' s,
  (tc = 1 /\ in_int z = true) \/ (tc = 2 /\ in_long z = true) ->
  (o = UNeg -> z <> (if tc =? 1 then -32768 else -2147483648)) ->
  fold1 o tc (PInt z) = FVal v' ->
  (push tc (PInt z) ;; exec m (un_instr o)) s = push tc v' s.
Proof.
  intros m o tc z v' s Htc Hmin Hf.
  destruct Htc as [[-> Hz] | [-> Hz]];
    unfold push at 1, bind, mk_cell; rewrite Hz; unfold ret, push_cell, upd_stack;
    destruct o; simpl; unfold bind, pop; simpl;
    unfold fold1, lit_value in Hf; simpl in Hf.
  - (* NOT % *)
    assert (E : (Z.lnot z >? 32767) || (Z.lnot z <? -32768) = false).
    { unfold Z.lnot. brange. apply orb_false_iff. split; [rewrite Z.gtb_ltb; apply Z.ltb_ge|apply Z.ltb_ge]; lia. }
    rewrite E in Hf. inversion Hf; subst. destruct s; reflexivity.
  - (* NEG % *)
    assert (E : (- z >? 32767) || (- z <? -32768) = false).
    { specialize (Hmin eq_refl). simpl in Hmin. brange.
      apply orb_false_iff. split; [rewrite Z.gtb_ltb; apply Z.ltb_ge|apply Z.ltb_ge]; lia. }
    rewrite E in Hf. inversion Hf; subst. destruct s; reflexivity.
  - (* NOT & *)
    assert (E : (Z.lnot z >? 2147483647) || (Z.lnot z <? -2147483648) = false).
    { unfold Z.lnot. brange. apply orb_false_iff. split; [rewrite Z.gtb_ltb; apply Z.ltb_ge|apply Z.ltb_ge]; lia. }
    rewrite E in Hf. inversion Hf; subst. destruct s; reflexivity.
  - (* NEG & *)
    assert (E : (- z >? 2147483647) || (- z <? -2147483648) = false).
    { specialize (Hmin eq_refl). simpl in Hmin. brange.
      apply orb_false_iff. split; [rewrite Z.gtb_ltb; apply Z.ltb_ge|apply Z.ltb_ge]; lia. }
    rewrite E in Hf. inversion Hf; subst. destruct s; reflexivity.
Qed.

(* push% -32768; neg: traps at run time (INVALID_CELL_VALUE), folded to push% -32768 *)
Theorem rule_push_unary_refuted_int_min :
  exists v', fold1 UNeg 1 (PInt (-32768)) = FVal v' /\
    (push 1 (PInt (-32768)) ;; exec pm0 INeg) ps0 <> push 1 v' ps0.
Proof. exists (PInt (-32768)). split; [reflexivity|]. vm_compute. discriminate. Qed.

Theorem rule_push_unary_refuted_long_min :
  exists v', fold1 UNeg 2 (PInt (-2147483648)) = FVal v' /\
    (push 2 (PInt (-2147483648)) ;; exec pm0 INeg) ps0 <> push 2 v' ps0.
Proof. exists (PInt (-2147483648)). split; [reflexivity|]. vm_compute. discriminate. Qed.

(* push! 2^35; neg: the machine pushes -2^35, the fold clamps to -2^31 (D04/D33) *)
Theorem rule_push_unary_refuted_float_clamp :
  exists v', fold1 UNeg 3 (PFlt (FFin false 1 35)) = FVal v' /\
    (push 3 (PFlt (FFin false 1 35)) ;; exec pm0 INeg) ps0 <> push 3 v' ps0.
Proof. exists (PInt (-2147483648)). split; [reflexivity|]. vm_compute. discriminate. Qed.

(* push! 1.5; not: TYPE_MISMATCH at run time, folded to push! -3 *)
Theorem rule_push_unary_refuted_float_not :
  exists v', fold1 UNot 3 (PFlt (FFin false 3 (-1))) = FVal v' /\
    (push 3 (PFlt (FFin false 3 (-1))) ;; exec pm0 INot) ps0 <> push 3 v' ps0.
Proof. exists (PInt (-3)). split; [reflexivity|]. vm_compute. discriminate. Qed.

(* ---- rule 4: push + push + binary op ---- *)

Ltac split_hyp2 Hf :=
  repeat (simpl in Hf; try unfold limit in Hf; simpl in Hf;
          match type of Hf with
          | context [match ?x with _ => _ end] => destruct x eqn:?; try discriminate Hf
          end).

Definition bin_instr (o : binop) : instr :=
  match o with
  | BAdd => IAdd | BSub => ISub | BMul => IMul | BDiv => IDiv | BAnd => IAnd | BOr => IOr
  | BXor => IXor | BEqv => IEqv | BImp => IImp | BIdiv => IIdiv | BMod => IMod | BExp => IExp
  end.

Lemma two_pushed_popped : forall s a b,
  set_stack
    (set_stack
       {| pc := pc s; prev_pc := prev_pc s; stack := b :: a :: stack s; heap := heap s; cur := cur s;
          halted := halted s; reason := reason s; last_trap := last_trap s; last_kw_ok := last_kw_ok s;
          ttarget_ := ttarget_ s; handler_active := handler_active s; trapped_addr := trapped_addr s;
          irq := irq s; data_part := data_part s; data_idx := data_idx s; last_rnd := last_rnd s;
          scr := scr s; events := events s |} (a :: stack s)) (stack s) = s.
Proof. destruct s; reflexivity. Qed.

(* INTEGER operands, every operator but "/" (whose result type is SINGLE):
   whenever the pass folds, the machine computes the same cell *)
Local Opaque exp_tail.
Theorem rule_push_binary_sound_partial : forall m o a b v' s,
  in_int a = true -> in_int b = true -> o <> BDiv ->
  fold2 o 1 (PInt a) (PInt b) = FVal v' ->
  (push 1 (PInt a) ;; push 1 (PInt b) ;; exec m (bin_instr o)) s = push 1 v' s.
Proof.
  intros m o a b v' s Ha Hb Hdiv Hf.
  unfold bind at 1. unfold push at 1, bind at 1, mk_cell. rewrite Ha. unfold ret, push_cell, upd_stack.
  unfold bind at 1. unfold push at 1, bind at 1, mk_cell. rewrite Hb. unfold ret, push_cell, upd_stack.
  simpl stack.
  unfold fold2, lit_value in Hf; simpl in Hf.
  destruct o; try congruence; simpl in Hf; simpl;
    unfold bitwise, arith_prelude, bind, pop, push_opt; simpl;
    rewrite ?exp_tail_same; try unfold exp_tail_ref; simpl;
    split_hyp2 Hf; inversion Hf; subst; simpl; try (destruct s; reflexivity).
Qed.

(* LONG operands: the same, as long as the folded value is a LONG (limit()
   checks against the 64-bit c_long) *)
Theorem rule_push_binary_long_sound_partial : forall m o a b z s,
  in_long a = true -> in_long b = true -> o <> BDiv ->
  fold2 o 2 (PInt a) (PInt b) = FVal (PInt z) -> in_long z = true ->
  (push 2 (PInt a) ;; push 2 (PInt b) ;; exec m (bin_instr o)) s = push 2 (PInt z) s.
Proof.
  intros m o a b z s Ha Hb Hdiv Hf Hz.
  unfold bind at 1. unfold push at 1, bind at 1, mk_cell. rewrite Ha. unfold ret, push_cell, upd_stack.
  unfold bind at 1. unfold push at 1, bind at 1, mk_cell. rewrite Hb. unfold ret, push_cell, upd_stack.
  simpl stack.
  unfold fold2, lit_value in Hf; simpl in Hf.
  destruct o; try congruence; simpl in Hf; simpl;
    unfold bitwise, arith_prelude, bind, pop, push_opt; simpl;
    rewrite ?exp_tail_same; try unfold exp_tail_ref; simpl;
    split_hyp2 Hf; inversion Hf; subst; simpl; try (destruct s; reflexivity).
Qed.

(* LONG overflow (D02): 2000000000 + 2000000000 traps at run time; the pass
   folds it to a push& whose operand no push& instruction can encode *)
Theorem rule_push_binary_refuted_long_range :
  exists z, fold2 BAdd 2 (PInt 2000000000) (PInt 2000000000) = FVal (PInt z) /\ in_long z = false.
Proof. exists 4000000000. split; reflexivity. Qed.

(* INTEGER "/": 1 / 2 is the SINGLE 0.5 at run time, folded to push% 0.5 (an INTEGER 0) *)
Theorem rule_push_binary_refuted_int_div :
  exists v', fold2 BDiv 1 (PInt 1) (PInt 2) = FVal v' /\
    (push 1 (PInt 1) ;; push 1 (PInt 2) ;; exec pm0 IDiv) ps0 <> push 1 v' ps0.
Proof. exists (PFlt (FFin false 1 (-1))). split; [reflexivity|]. vm_compute. discriminate. Qed.

(* ---- rules 5 and 7: the deleted instruction cannot be reached ---- *)

Definition jump_like (j : instr) : Prop :=
  (exists t, j = IJmp t) \/ j = IIjmp \/ j = IRet \/ j = IRetv.

(* control never falls through jmp / ijmp / ret / retv: whenever such an
   instruction completes, the state (including the next pc) does not depend on
   the pc it was entered with, i.e. on the address of the instruction after it *)
Theorem rule_jmp_jmp : forall m j s p r,
  jump_like j -> exec m j (set_pc s p) = R tt r -> exec m j s = R tt r.
Proof.
  intros m j s p r Hj H.
  destruct Hj as [[t ->] | [-> | [-> | ->]]].
  - simpl in *. unfold modify in *. inversion H. destruct s; reflexivity.
  - simpl in *. unfold bind, pop_long, pop_ty, bind, pop in *. simpl in *.
    destruct (stack s) as [|c l]; try discriminate.
    destruct (cell_ty c =? 2); simpl in *; try discriminate.
    destruct c; simpl in *; try discriminate.
    unfold modify in *. inversion H. destruct s; reflexivity.
  - simpl in *. unfold bind, get in *. simpl in *.
    destruct (handler_active s); simpl in *; try discriminate.
    unfold cur_frame in *. simpl in *.
    destruct (cur s) as [g|]; try discriminate.
    unfold get_seg in *. simpl in *.
    destruct (nthZ (heap s) g) as [sg|]; try discriminate.
    destruct (s_kind sg); simpl in *; try discriminate.
    unfold modify, pop_long, pop_ty, bind, pop in *. simpl in *.
    destruct (stack s) as [|c l]; try discriminate.
    destruct (cell_ty c =? 2); simpl in *; try discriminate.
    destruct c; simpl in *; try discriminate.
    inversion H. destruct s; reflexivity.
  - simpl in *. unfold bind, get in *. simpl in *.
    destruct (handler_active s); simpl in *; try discriminate.
    unfold cur_frame in *. simpl in *.
    destruct (cur s) as [g|]; try discriminate.
    unfold get_seg in *. simpl in *.
    destruct (nthZ (heap s) g) as [sg|]; try discriminate.
    destruct (s_kind sg); simpl in *; try discriminate.
    unfold modify, pop_long, pop_ty, bind, pop in *. simpl in *.
    destruct (stack s) as [|rv l]; try discriminate.
    destruct rv; simpl in *;
      try (destruct l as [|c l']; try discriminate;
           destruct (cell_ty c =? 2); simpl in *; try discriminate;
           destruct c; simpl in *; try discriminate;
           unfold repush, push_cell, upd_stack in *; simpl in *;
           inversion H; destruct s; reflexivity).
    unfold seg_get, bind, get_seg in *. simpl in *.
    destruct (nthZ (heap s) seg) as [sg'|]; try discriminate.
    destruct (nthZ (s_cells sg') idx) as [oc|]; simpl in *; try discriminate.
    destruct l as [|c l']; try discriminate.
    destruct (cell_ty c =? 2); simpl in *; try discriminate.
    destruct c; simpl in *; try discriminate.
    destruct oc; simpl in *; try discriminate.
    unfold repush, push_cell, upd_stack in *; simpl in *.
    inversion H. destruct s; reflexivity.
Qed.

(* halt stops the machine: nothing after it executes *)
Theorem rule_after_halt : forall m s,
  exists s', exec m IHalt s = R tt s' /\ halted s' = true /\
    forall fuel t, run m fuel s' t = (s', (match fuel with O => StFuel | _ => StHalt end), t).
Proof.
  intros m s. eexists. split; [reflexivity|]. split; [reflexivity|].
  intros fuel t. destruct fuel; reflexivity.
Qed.

(* ================================================================== *)
(* termination of the loop: 3 * len - i decreases in every iteration *)

Lemma length_del : forall l i, 0 <= i < Z.of_nat (length l) ->
  Z.of_nat (length (del l i)) = Z.of_nat (length l) - 1.
Proof.
  intros l i H. unfold del. rewrite app_length, firstn_length, skipn_length. lia.
Qed.

Lemma length_setn : forall l i x, 0 <= i < Z.of_nat (length l) ->
  Z.of_nat (length (setn l i x)) = Z.of_nat (length l).
Proof.
  intros l i x H. unfold setn. rewrite app_length, firstn_length.
  replace (length (x :: skipn (S (Z.to_nat i)) l)) with (S (length (skipn (S (Z.to_nat i)) l))) by reflexivity.
  rewrite skipn_length. lia.
Qed.

Section Measure.
Variable convf : Z -> pyval -> fres.
Variable f1 : unop -> Z -> pyval -> fres.
Variable f2 : binop -> Z -> pyval -> pyval -> fres.

Definition lenZ (l : list pins) : Z := Z.of_nat (length l).

(* what every iteration guarantees *)
Definition decreases (l : list pins) (i : Z) (l' : list pins) (i' : Z) : Prop :=
  3 * lenZ l' - i' < 3 * lenZ l - i /\ i' <= lenZ l' /\ -1 <= i'.

Ltac len_side :=
  repeat (first [rewrite length_del by len_side | rewrite length_setn by len_side]); lia.

Ltac lens := unfold decreases, lenZ in *; len_side.

Lemma step_decreases : forall l i l' i',
  0 <= i < lenZ l -> step convf f1 f2 l i = SNext l' i' -> decreases l i l' i'.
Proof.
  intros l i l' i' Hr H. unfold lenZ in Hr. unfold step in H.
  set (cur := get l i) in *.
  set (prev1 := if 0 <? i then get l (i - 1) else nop) in *.
  set (prev2 := if 1 <? i then get l (i - 2) else nop) in *.
  assert (P1 : prev1 <> nop -> 0 < i).
  { intro Hn. unfold prev1 in Hn. destruct (0 <? i) eqn:E; [now apply Z.ltb_lt | congruence]. }
  assert (P2 : prev2 <> nop -> 1 < i).
  { intro Hn. unfold prev2 in Hn. destruct (1 <? i) eqn:E; [now apply Z.ltb_lt | congruence]. }
  (* rule 1 *)
  destruct (r_push_conv convf l i cur prev1) as [r|] eqn:E1; simpl in H.
  { subst r. unfold r_push_conv in E1.
    destruct cur; try discriminate. destruct prev1 eqn:Hp; try discriminate.
    assert (0 < i) by (apply P1; unfold nop; discriminate).
    destruct (src =? tc); try discriminate.
    destruct (convf dst v); inversion E1; subst; lens. }
  destruct (r_read_store l i cur prev1) as [r|] eqn:E2; simpl in H.
  { subst r. unfold r_read_store in E2.
    destruct cur; try discriminate. destruct prev1 eqn:Hp; try discriminate.
    assert (0 < i) by (apply P1; unfold nop; discriminate).
    destruct ((scope =? scope0) && zs_eqb args args0); inversion E2; subst; lens. }
  destruct (r_push_un f1 l i cur prev1) as [r|] eqn:E3; simpl in H.
  { subst r. unfold r_push_un in E3.
    destruct cur; try discriminate. destruct prev1 eqn:Hp; try discriminate.
    assert (0 < i) by (apply P1; unfold nop; discriminate).
    destruct (f1 o tc v); inversion E3; subst; lens. }
  destruct (r_push_bin f2 l i cur prev1 prev2) as [r|] eqn:E4; simpl in H.
  { subst r. unfold r_push_bin in E4.
    destruct cur; try discriminate. destruct prev1 eqn:Hp; try discriminate.
    destruct prev2 eqn:Hp2; try discriminate.
    assert (1 < i) by (apply P2; unfold nop; discriminate).
    destruct (tc =? tc0); try discriminate.
    destruct (f2 o tc v0 v); inversion E4; subst; lens. }
  destruct (r_jmp_jmp l i cur prev1) as [r|] eqn:E5; simpl in H.
  { subst r. unfold r_jmp_jmp in E5.
    destruct (is_jump cur); simpl in E5; try discriminate.
    destruct (is_jump prev1) eqn:Hj; try discriminate.
    assert (0 < i) by (apply P1; intro E; rewrite E in Hj; discriminate).
    inversion E5; subst; lens. }
  (* rules 6, 7 and the increment *)
  unfold r_tail in H.
  destruct prev1 eqn:Hp.
  - assert (0 < i) by (apply P1; unfold nop; discriminate).
    destruct cur; try (inversion H; subst; lens).
    destruct (tc =? 1); [|inversion H; subst; lens].
    destruct (py_eq0 v); inversion H; subst; lens.
  - destruct cur; inversion H; subst; lens.
  - destruct cur; inversion H; subst; lens.
  - destruct cur; inversion H; subst; lens.
  - destruct cur; inversion H; subst; lens.
  - destruct cur; inversion H; subst; lens.
  - destruct cur; inversion H; subst; lens.
  - destruct cur; inversion H; subst; lens.
  - destruct cur; inversion H; subst; lens.
  - destruct cur; inversion H; subst; lens.
  - destruct cur; inversion H; subst; lens.
  - assert (0 < i) by (apply P1; unfold nop; discriminate).
    destruct cur; simpl in H; inversion H; subst; lens.
  - destruct cur; inversion H; subst; lens.
  - destruct cur; inversion H; subst; lens.
Qed.

Lemma opt_loop_terminates : forall fuel l i,
  i <= lenZ l -> 3 * lenZ l - Z.max 0 i < Z.of_nat fuel ->
  snd (opt_loop convf f1 f2 fuel l i) <> OFuel.
Proof.
  induction fuel as [|f IH]; intros l i Hi Hm.
  - unfold lenZ in *. lia.
  - simpl. destruct l as [|a l0]; [simpl; discriminate|].
    set (l := a :: l0) in *.
    destruct (i <? Z.of_nat (length l)) eqn:Hlt; [|simpl; discriminate].
    apply Z.ltb_lt in Hlt.
    set (i0 := if i <? 0 then 0 else i).
    assert (Hi0 : i0 = Z.max 0 i) by (unfold i0; destruct (i <? 0) eqn:E; [apply Z.ltb_lt in E | apply Z.ltb_ge in E]; lia).
    assert (Hl1 : 1 <= Z.of_nat (length l)) by (unfold l; simpl length; lia).
    assert (Hr : 0 <= i0 < lenZ l) by (unfold lenZ in *; lia).
    destruct (step convf f1 f2 l i0) as [l' i'| |] eqn:Hs; try (simpl; discriminate).
    destruct (step_decreases l i0 l' i' Hr Hs) as (D1 & D2 & D3).
    apply IH; [exact D2|]. unfold lenZ in *. lia.
Qed.

End Measure.

(* the fuel the harness uses always suffices: the model's loop terminates *)
Theorem optimize_terminates : forall l, snd (optimize_st (opt_fuel l) l) <> OFuel.
Proof.
  intros l. unfold optimize_st. apply opt_loop_terminates.
  - unfold lenZ. lia.
  - unfold lenZ, opt_fuel. lia.
Qed.
