(* Proofs about the peephole model (Models/Peephole.v):
   (b) list level: every result of [optimize] is reached from the input by
       finitely many of the seven rewrites, applied to windows that contain no
       PMark; the sequence of PMarks is unchanged;
   (c) debug markers: erase_marks commutes with optimize up to rewriting, and
       the offset/label computation of the assembler ignores debug markers;
   (a) machine level: each rewrite is sound for Cpu.exec on every state (or
       refuted by a witness where the compile-time evaluator is wrong). *)
From Coq Require Import ZArith List Bool Lia Relations.
From QV Require Import Sx Strs Fl Cell Machine Cpu Peephole.
Import ListNotations.
Open Scope Z_scope.

(* ================================================================== *)
(* list lemmas *)

Lemma skipn_nth_cons : forall (l : list pins) n,
  (n < length l)%nat -> skipn n l = nth n l nop :: skipn (S n) l.
Proof.
  induction l as [|a l IH]; intros n H; simpl in H; [lia|].
  destruct n; [reflexivity|]. simpl. apply IH. lia.
Qed.

Lemma firstn_len_app : forall (pre r : list pins), firstn (length pre) (pre ++ r) = pre.
Proof. induction pre; simpl; intros; [reflexivity | now rewrite IHpre]. Qed.

Lemma skipn_Slen_app : forall (pre : list pins) x r, skipn (S (length pre)) (pre ++ x :: r) = r.
Proof. induction pre; simpl; intros; [reflexivity | apply IHpre]. Qed.

Lemma nth_len_app : forall (pre : list pins) x r, nth (length pre) (pre ++ x :: r) nop = x.
Proof. induction pre; simpl; intros; [reflexivity | apply IHpre]. Qed.

Lemma del_at : forall pre x post k,
  Z.to_nat k = length pre -> del (pre ++ x :: post) k = pre ++ post.
Proof.
  intros. unfold del. rewrite H, firstn_len_app, skipn_Slen_app. reflexivity.
Qed.

Lemma setn_at : forall pre x post k y,
  Z.to_nat k = length pre -> setn (pre ++ x :: post) k y = pre ++ y :: post.
Proof.
  intros. unfold setn. rewrite H, firstn_len_app, skipn_Slen_app. reflexivity.
Qed.

Lemma window1 : forall l i, 0 <= i < Z.of_nat (length l) ->
  exists pre post, l = pre ++ get l i :: post /\ Z.to_nat i = length pre.
Proof.
  intros l i H. exists (firstn (Z.to_nat i) l), (skipn (S (Z.to_nat i)) l).
  assert (Hn : (Z.to_nat i < length l)%nat) by lia.
  split.
  - unfold get. rewrite <- skipn_nth_cons by exact Hn. symmetry. apply firstn_skipn.
  - rewrite firstn_length. lia.
Qed.

Lemma window2 : forall l i, 0 < i < Z.of_nat (length l) ->
  exists pre post, l = pre ++ get l (i - 1) :: get l i :: post /\ Z.to_nat i = S (length pre).
Proof.
  intros l i H.
  set (n := Z.to_nat (i - 1)).
  assert (Hi : Z.to_nat i = S n) by (unfold n; lia).
  assert (Hn : (S n < length l)%nat) by lia.
  exists (firstn n l), (skipn (S (S n)) l). split.
  - unfold get. fold n. rewrite Hi.
    rewrite <- (skipn_nth_cons l (S n)) by lia.
    rewrite <- (skipn_nth_cons l n) by lia.
    symmetry. apply firstn_skipn.
  - rewrite firstn_length. lia.
Qed.

Lemma window3 : forall l i, 1 < i < Z.of_nat (length l) ->
  exists pre post, l = pre ++ get l (i - 2) :: get l (i - 1) :: get l i :: post
                   /\ Z.to_nat i = S (S (length pre)).
Proof.
  intros l i H.
  set (n := Z.to_nat (i - 2)).
  assert (Hi : Z.to_nat i = S (S n)) by (unfold n; lia).
  assert (Hi1 : Z.to_nat (i - 1) = S n) by (unfold n; lia).
  exists (firstn n l), (skipn (S (S (S n))) l). split.
  - unfold get. fold n. rewrite Hi, Hi1.
    rewrite <- (skipn_nth_cons l (S (S n))) by lia.
    rewrite <- (skipn_nth_cons l (S n)) by lia.
    rewrite <- (skipn_nth_cons l n) by lia.
    symmetry. apply firstn_skipn.
  - rewrite firstn_length. lia.
Qed.

Lemma app_cons_assoc : forall (pre : list pins) a r, pre ++ a :: r = (pre ++ [a]) ++ r.
Proof. intros. now rewrite <- app_assoc. Qed.

Lemma len_snoc : forall (pre : list pins) a, length (pre ++ [a]) = S (length pre).
Proof. intros. rewrite app_length. simpl. lia. Qed.

Lemma zs_eqb_eq : forall a b, zs_eqb a b = true -> a = b.
Proof.
  induction a as [|x a IH]; destruct b as [|y b]; simpl; intros H; try discriminate; [reflexivity|].
  apply andb_true_iff in H. destruct H as [H1 H2]. apply Z.eqb_eq in H1. subst. f_equal. now apply IH.
Qed.

(* ================================================================== *)
(* (b) the rewrite relation and the loop *)

Section ListLevel.
Variable convf : Z -> pyval -> fres.
Variable f1 : unop -> Z -> pyval -> fres.
Variable f2 : binop -> Z -> pyval -> pyval -> fres.

(* window -> replacement; no constructor mentions PMark, the after-halt rule
   excludes it explicitly *)
Inductive rw1 : list pins -> list pins -> Prop :=
| rw_push_conv : forall tc v dst v',
    convf dst v = FVal v' -> rw1 [PPush tc v; PConv tc dst] [PPush dst v']
| rw_read_store : forall sc tc args, rw1 [PRead sc tc args; PStore sc args] []
| rw_push_un : forall tc v o v',
    f1 o tc v = FVal v' -> rw1 [PPush tc v; PUn o] [PPush tc v']
| rw_push_bin : forall tc a b o v',
    f2 o tc a b = FVal v' -> rw1 [PPush tc a; PPush tc b; PBin o] [PPush tc v']
| rw_jmp_jmp : forall j1 j2, is_jump j1 = true -> is_jump j2 = true -> rw1 [j1; j2] [j1]
| rw_push_jz_taken : forall v t, py_eq0 v = true -> rw1 [PPush 1 v; PJz t] [PJmp t]
| rw_push_jz_never : forall v t, py_eq0 v = false -> rw1 [PPush 1 v; PJz t] []
| rw_after_halt : forall x, is_mark x = false -> rw1 [PHalt; x] [PHalt].

Definition rewrites (l l' : list pins) : Prop :=
  exists pre w w' post, l = pre ++ w ++ post /\ l' = pre ++ w' ++ post /\ rw1 w w'.

Definition rewrites_star := clos_refl_trans (list pins) rewrites.

Lemma rw1_no_mark : forall w w', rw1 w w' ->
  forallb (fun p => negb (is_mark p)) w = true /\ forallb (fun p => negb (is_mark p)) w' = true.
Proof.
  intros w w' H. destruct H; simpl; try (split; reflexivity).
  - destruct j1, j2; simpl in *; try discriminate; split; reflexivity.
  - rewrite H. split; reflexivity.
Qed.

Lemma prev_not_nop_pos : forall l i p,
  (if 0 <? i then get l (i - 1) else nop) = p -> p <> nop -> 0 < i.
Proof.
  intros l i p H Hn. destruct (0 <? i) eqn:E; [now apply Z.ltb_lt | congruence].
Qed.

Lemma prev2_not_nop_pos : forall l i p,
  (if 1 <? i then get l (i - 2) else nop) = p -> p <> nop -> 1 < i.
Proof.
  intros l i p H Hn. destruct (1 <? i) eqn:E; [now apply Z.ltb_lt | congruence].
Qed.

Ltac pos_from H :=
  match type of H with
  | (if 0 <? ?i then get ?l (?i - 1) else nop) = ?p =>
    let Hp := fresh "Hpos" in
    assert (Hp : 0 < i) by (apply (prev_not_nop_pos l i p H); unfold nop; discriminate);
    rewrite (proj2 (Z.ltb_lt 0 i) Hp) in H
  end.

Lemma r_push_conv_sound : forall l i l' i',
  0 <= i < Z.of_nat (length l) ->
  r_push_conv convf l i (get l i) (if 0 <? i then get l (i - 1) else nop) = Some (SNext l' i') ->
  l' = l \/ rewrites l l'.
Proof.
  intros l i l' i' Hr H. unfold r_push_conv in H.
  destruct (get l i) eqn:Hc; try discriminate.
  destruct (if 0 <? i then get l (i - 1) else nop) eqn:Hp; try discriminate.
  pos_from Hp.
  destruct (src =? tc) eqn:Hst; try discriminate. apply Z.eqb_eq in Hst. subst tc.
  destruct (convf dst v) eqn:Hv; inversion H; subst; [|now left].
  right.
  destruct (window2 l i ltac:(lia)) as (pre & post & Hl & Hlen).
  rewrite Hc, Hp in Hl.
  exists pre, [PPush src v; PConv src dst], [PPush dst v0], post.
  split; [exact Hl|]. split; [|now constructor].
  rewrite Hl at 1.
  rewrite setn_at by lia.
  rewrite app_cons_assoc. rewrite del_at by (rewrite len_snoc; lia).
  now rewrite <- app_assoc.
Qed.

Lemma r_read_store_sound : forall l i l' i',
  0 <= i < Z.of_nat (length l) ->
  r_read_store l i (get l i) (if 0 <? i then get l (i - 1) else nop) = Some (SNext l' i') ->
  l' = l \/ rewrites l l'.
Proof.
  intros l i l' i' Hr H. unfold r_read_store in H.
  destruct (get l i) eqn:Hc; try discriminate.
  destruct (if 0 <? i then get l (i - 1) else nop) eqn:Hp; try discriminate.
  pos_from Hp.
  destruct ((scope =? scope0) && zs_eqb args args0) eqn:Hst; try discriminate.
  apply andb_true_iff in Hst. destruct Hst as [Hs Ha]. apply Z.eqb_eq in Hs. apply zs_eqb_eq in Ha. subst.
  inversion H; subst. right.
  destruct (window2 l i ltac:(lia)) as (pre & post & Hl & Hlen).
  rewrite Hc, Hp in Hl.
  exists pre, [PRead scope0 tc args0; PStore scope0 args0], [], post.
  split; [exact Hl|]. split; [|constructor].
  rewrite Hl at 1.
  rewrite app_cons_assoc. rewrite del_at by (rewrite len_snoc; lia).
  rewrite <- app_assoc. simpl. rewrite del_at by lia. reflexivity.
Qed.

Lemma r_push_un_sound : forall l i l' i',
  0 <= i < Z.of_nat (length l) ->
  r_push_un f1 l i (get l i) (if 0 <? i then get l (i - 1) else nop) = Some (SNext l' i') ->
  l' = l \/ rewrites l l'.
Proof.
  intros l i l' i' Hr H. unfold r_push_un in H.
  destruct (get l i) eqn:Hc; try discriminate.
  destruct (if 0 <? i then get l (i - 1) else nop) eqn:Hp; try discriminate.
  pos_from Hp.
  destruct (f1 o tc v) eqn:Hv; inversion H; subst.
  right.
  destruct (window2 l i ltac:(lia)) as (pre & post & Hl & Hlen).
  rewrite Hc, Hp in Hl.
  exists pre, [PPush tc v; PUn o], [PPush tc v0], post.
  split; [exact Hl|]. split; [|now constructor].
  rewrite Hl at 1.
  rewrite setn_at by lia.
  rewrite app_cons_assoc. rewrite del_at by (rewrite len_snoc; lia).
  now rewrite <- app_assoc.
Qed.

Lemma r_push_bin_sound : forall l i l' i',
  0 <= i < Z.of_nat (length l) ->
  r_push_bin f2 l i (get l i) (if 0 <? i then get l (i - 1) else nop)
             (if 1 <? i then get l (i - 2) else nop) = Some (SNext l' i') ->
  l' = l \/ rewrites l l'.
Proof.
  intros l i l' i' Hr H. unfold r_push_bin in H.
  destruct (get l i) eqn:Hc; try discriminate.
  destruct (if 0 <? i then get l (i - 1) else nop) eqn:Hp; try discriminate.
  destruct (if 1 <? i then get l (i - 2) else nop) eqn:Hp2; try discriminate.
  assert (Hpos2 : 1 < i) by (apply (prev2_not_nop_pos l i _ Hp2); unfold nop; discriminate).
  rewrite (proj2 (Z.ltb_lt 1 i) Hpos2) in Hp2.
  assert (Hpos : 0 <? i = true) by (apply Z.ltb_lt; lia). rewrite Hpos in Hp.
  destruct (tc =? tc0) eqn:Hst; try discriminate. apply Z.eqb_eq in Hst. subst tc0.
  destruct (f2 o tc v0 v) eqn:Hv; inversion H; subst; [|now left].
  right.
  destruct (window3 l i ltac:(lia)) as (pre & post & Hl & Hlen).
  rewrite Hc, Hp, Hp2 in Hl.
  exists pre, [PPush tc v0; PPush tc v; PBin o], [PPush tc v1], post.
  split; [exact Hl|]. split; [|now constructor].
  rewrite Hl at 1.
  rewrite setn_at by lia.
  rewrite (app_cons_assoc pre (PPush tc v1)).
  rewrite (app_cons_assoc (pre ++ [PPush tc v1]) (PPush tc v)).
  rewrite del_at by (rewrite !len_snoc; lia).
  rewrite <- app_assoc. simpl.
  rewrite del_at by (rewrite len_snoc; lia).
  now rewrite <- app_assoc.
Qed.

Lemma is_jump_not_nop : forall p, is_jump p = true -> p <> nop.
Proof. intros p H E. subst. discriminate. Qed.

Lemma r_jmp_jmp_sound : forall l i l' i',
  0 <= i < Z.of_nat (length l) ->
  r_jmp_jmp l i (get l i) (if 0 <? i then get l (i - 1) else nop) = Some (SNext l' i') ->
  l' = l \/ rewrites l l'.
Proof.
  intros l i l' i' Hr H. unfold r_jmp_jmp in H.
  destruct (is_jump (get l i)) eqn:Hc; simpl in H; try discriminate.
  destruct (is_jump (if 0 <? i then get l (i - 1) else nop)) eqn:Hp; try discriminate.
  assert (Hpos : 0 < i).
  { destruct (0 <? i) eqn:E; [now apply Z.ltb_lt | discriminate]. }
  rewrite (proj2 (Z.ltb_lt 0 i) Hpos) in Hp.
  inversion H; subst. right.
  destruct (window2 l i ltac:(lia)) as (pre & post & Hl & Hlen).
  exists pre, [get l (i - 1); get l i], [get l (i - 1)], post.
  split; [exact Hl|]. split; [|now constructor].
  rewrite Hl at 1.
  rewrite app_cons_assoc. rewrite del_at by (rewrite len_snoc; lia).
  now rewrite <- app_assoc.
Qed.

Lemma r_tail_sound : forall l i l' i',
  0 <= i < Z.of_nat (length l) ->
  r_tail l i (get l i) (if 0 <? i then get l (i - 1) else nop) = SNext l' i' ->
  l' = l \/ rewrites l l'.
Proof.
  intros l i l' i' Hr H. unfold r_tail in H.
  destruct (if 0 <? i then get l (i - 1) else nop) eqn:Hp.
  - (* prev1 = push: only rule 6 can fire *)
    pos_from Hp.
    destruct (get l i) eqn:Hc; try (inversion H; subst; now left).
    destruct (tc =? 1) eqn:Htc; [|inversion H; subst; now left].
    apply Z.eqb_eq in Htc. subst tc.
    destruct (window2 l i ltac:(lia)) as (pre & post & Hl & Hlen).
    rewrite Hc, Hp in Hl.
    destruct (py_eq0 v) eqn:Hz; inversion H; subst l' i'; right.
    + exists pre, [PPush 1 v; PJz l0], [PJmp l0], post.
      split; [exact Hl|]. split; [|now constructor].
      rewrite Hl at 1.
      rewrite del_at by lia. rewrite setn_at by lia. reflexivity.
    + exists pre, [PPush 1 v; PJz l0], [], post.
      split; [exact Hl|]. split; [|now constructor].
      rewrite Hl at 1.
      rewrite app_cons_assoc. rewrite del_at by (rewrite len_snoc; lia).
      rewrite <- app_assoc. simpl. rewrite del_at by lia. reflexivity.
  - destruct (get l i); inversion H; subst; now left.
  - destruct (get l i); inversion H; subst; now left.
  - destruct (get l i); inversion H; subst; now left.
  - destruct (get l i); inversion H; subst; now left.
  - destruct (get l i); inversion H; subst; now left.
  - destruct (get l i); inversion H; subst; now left.
  - destruct (get l i); inversion H; subst; now left.
  - destruct (get l i); inversion H; subst; now left.
  - destruct (get l i); inversion H; subst; now left.
  - destruct (get l i); inversion H; subst; now left.
  - (* prev1 = halt: rule 7 *)
    pos_from Hp.
    assert (Hsame : (let '(l1, i1) :=
               match get l i with
               | PJz t => (l, i)
               | _ => (l, i)
               end in (l1, i1)) = (l, i)) by (destruct (get l i); reflexivity).
    destruct (is_mark (get l i)) eqn:Hm.
    + destruct (get l i); simpl in Hm; try discriminate; inversion H; subst; now left.
    + assert (H' : SNext (del l i) (i - 1 + 1) = SNext l' i') by (destruct (get l i); simpl in Hm; try discriminate; exact H).
      inversion H'; subst l' i'. right.
      destruct (window2 l i ltac:(lia)) as (pre & post & Hl & Hlen).
      rewrite Hp in Hl.
      exists pre, [PHalt; get l i], [PHalt], post.
      split; [exact Hl|]. split; [|now constructor].
      rewrite Hl at 1.
      rewrite app_cons_assoc. rewrite del_at by (rewrite len_snoc; lia).
      now rewrite <- app_assoc.
  - destruct (get l i); inversion H; subst; now left.
  - destruct (get l i); inversion H; subst; now left.
Qed.

Lemma step_rewrites : forall l i l' i',
  0 <= i < Z.of_nat (length l) ->
  step convf f1 f2 l i = SNext l' i' -> l' = l \/ rewrites l l'.
Proof.
  intros l i l' i' Hr H. unfold step in H.
  destruct (r_push_conv convf l i (get l i) (if 0 <? i then get l (i - 1) else nop)) as [r|] eqn:E1;
    simpl in H. { subst r. eapply r_push_conv_sound; eauto. }
  destruct (r_read_store l i (get l i) (if 0 <? i then get l (i - 1) else nop)) as [r|] eqn:E2;
    simpl in H. { subst r. eapply r_read_store_sound; eauto. }
  destruct (r_push_un f1 l i (get l i) (if 0 <? i then get l (i - 1) else nop)) as [r|] eqn:E3;
    simpl in H. { subst r. eapply r_push_un_sound; eauto. }
  destruct (r_push_bin f2 l i (get l i) (if 0 <? i then get l (i - 1) else nop)
                       (if 1 <? i then get l (i - 2) else nop)) as [r|] eqn:E4;
    simpl in H. { subst r. eapply r_push_bin_sound; eauto. }
  destruct (r_jmp_jmp l i (get l i) (if 0 <? i then get l (i - 1) else nop)) as [r|] eqn:E5;
    simpl in H. { subst r. eapply r_jmp_jmp_sound; eauto. }
  eapply r_tail_sound; eauto.
Qed.

(* every result of the loop, for every fuel, start index and list *)
Lemma opt_loop_steps : forall fuel l i,
  rewrites_star l (fst (opt_loop convf f1 f2 fuel l i)).
Proof.
  induction fuel as [|f IH]; intros l i; simpl; [apply rt_refl|].
  destruct l as [|a l0]; [apply rt_refl|].
  set (l := a :: l0) in *.
  destruct (i <? Z.of_nat (length l)) eqn:Hlt; [|apply rt_refl].
  apply Z.ltb_lt in Hlt.
  set (i0 := if i <? 0 then 0 else i).
  assert (Hr : 0 <= i0 < Z.of_nat (length l)).
  { unfold i0. destruct (i <? 0) eqn:E.
    - split; [lia|]. unfold l. simpl length. lia.
    - apply Z.ltb_ge in E. lia. }
  destruct (step convf f1 f2 l i0) as [l' i'| |] eqn:Hs; try apply rt_refl.
  destruct (step_rewrites l i0 l' i' Hr Hs) as [-> | Hrw].
  - apply IH.
  - eapply rt_trans; [apply rt_step; exact Hrw | apply IH].
Qed.

Lemma marks_app : forall a b, marks (a ++ b) = marks a ++ marks b.
Proof. intros. unfold marks. apply filter_app. Qed.

Lemma erase_app : forall a b, erase_marks (a ++ b) = erase_marks a ++ erase_marks b.
Proof. intros. unfold erase_marks. apply filter_app. Qed.

Lemma no_mark_filter : forall w, forallb (fun p => negb (is_mark p)) w = true ->
  marks w = [] /\ erase_marks w = w.
Proof.
  induction w as [|x w IH]; simpl; intros H; [split; reflexivity|].
  apply andb_true_iff in H. destruct H as [Hx Hw]. destruct (IH Hw) as [IH1 IH2].
  unfold marks, erase_marks in *. simpl.
  destruct x; simpl in *; try discriminate; rewrite ?IH1, ?IH2; split; reflexivity.
Qed.

Lemma rewrites_marks : forall l l', rewrites l l' -> marks l' = marks l.
Proof.
  intros l l' (pre & w & w' & post & -> & -> & H).
  destruct (rw1_no_mark _ _ H) as [Hw Hw'].
  rewrite !marks_app.
  rewrite (proj1 (no_mark_filter _ Hw)), (proj1 (no_mark_filter _ Hw')). reflexivity.
Qed.

Lemma rewrites_erase : forall l l', rewrites l l' -> rewrites (erase_marks l) (erase_marks l').
Proof.
  intros l l' (pre & w & w' & post & -> & -> & H).
  destruct (rw1_no_mark _ _ H) as [Hw Hw'].
  exists (erase_marks pre), w, w', (erase_marks post).
  rewrite !erase_app.
  rewrite (proj2 (no_mark_filter _ Hw)), (proj2 (no_mark_filter _ Hw')). auto.
Qed.

Lemma star_marks : forall l l', rewrites_star l l' -> marks l' = marks l.
Proof.
  intros l l' H. induction H.
  - now apply rewrites_marks.
  - reflexivity.
  - congruence.
Qed.

Lemma star_erase : forall l l', rewrites_star l l' ->
  rewrites_star (erase_marks l) (erase_marks l').
Proof.
  intros l l' H. induction H.
  - apply rt_step. now apply rewrites_erase.
  - apply rt_refl.
  - eapply rt_trans; eauto.
Qed.

End ListLevel.

(* ---- instantiated at the evaluators of the model ---- *)

Definition rewrites_m := rewrites conv_fold fold1 fold2.
Definition rewrites_star_m := rewrites_star conv_fold fold1 fold2.

Theorem optimize_steps : forall fuel l, rewrites_star_m l (optimize fuel l).
Proof. intros. unfold optimize, optimize_st. apply opt_loop_steps. Qed.

(* no rewrite window contains a PMark: in particular no rule fires across a label *)
Theorem rewrite_window_no_mark : forall l l', rewrites_m l l' ->
  exists pre w w' post, l = pre ++ w ++ post /\ l' = pre ++ w' ++ post /\
    forallb (fun p => negb (is_mark p)) w = true /\ forallb (fun p => negb (is_mark p)) w' = true.
Proof.
  intros l l' (pre & w & w' & post & H1 & H2 & H).
  exists pre, w, w', post. repeat split; auto; apply (rw1_no_mark _ _ _ _ _ H).
Qed.

Theorem optimize_keeps_marks : forall fuel l, marks (optimize fuel l) = marks l.
Proof. intros. eapply star_marks. apply optimize_steps. Qed.

(* (c) with and without debug markers: both results are rewritings of the
   unoptimised marker-free code *)
Theorem markers_only_block_rules : forall fuel fuel' l,
  rewrites_star_m (erase_marks l) (optimize fuel (erase_marks l)) /\
  rewrites_star_m (erase_marks l) (erase_marks (optimize fuel' l)).
Proof.
  intros. split.
  - apply optimize_steps.
  - apply star_erase. apply optimize_steps.
Qed.

Definition rewrites_equiv := clos_refl_sym_trans (list pins) rewrites_m.

Lemma star_equiv : forall a b, rewrites_star_m a b -> rewrites_equiv a b.
Proof.
  intros a b H. induction H.
  - now apply rst_step.
  - apply rst_refl.
  - eapply rst_trans; eauto.
Qed.

Theorem markers_results_equivalent : forall fuel fuel' l,
  rewrites_equiv (optimize fuel (erase_marks l)) (erase_marks (optimize fuel' l)).
Proof.
  intros. destruct (markers_only_block_rules fuel fuel' l) as [A B].
  eapply rst_trans; [apply rst_sym; apply star_equiv; exact A | apply star_equiv; exact B].
Qed.
