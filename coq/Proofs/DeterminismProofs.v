(* Lemmas for C20 (determinism). *)
From Coq Require Import ZArith List Bool Lia Permutation.
From QV Require Import Sx Strs Machine Cpu Determinism.
Import ListNotations.
Open Scope Z_scope.

(* ---------- run: fuel independence ---------- *)

Lemma run_fuel_mono m : forall f s t s' k n,
  run m f s t = (s', k, n) -> k <> StFuel ->
  forall f', (f <= f')%nat -> run m f' s t = (s', k, n).
Proof.
  induction f as [|f IH]; intros s t s' k n H Hk f' Hle.
  - simpl in H. inversion H; subst. congruence.
  - destruct f' as [|f']; [lia|].
    simpl in *. destruct (halted s || (pc s >=? code_len m)); [exact H|].
    destruct (tick m s) as [s1 | c s1 | s1]; try exact H.
    apply IH; [exact H | exact Hk | lia].
Qed.

Lemma run_deterministic_gen m s t f1 f2 s1 k1 n1 s2 k2 n2 :
  run m f1 s t = (s1, k1, n1) -> run m f2 s t = (s2, k2, n2) ->
  k1 <> StFuel -> k2 <> StFuel ->
  s1 = s2 /\ k1 = k2 /\ n1 = n2.
Proof.
  intros H1 H2 Hk1 Hk2.
  destruct (Nat.le_ge_cases f1 f2) as [L | L].
  - pose proof (run_fuel_mono m f1 s t s1 k1 n1 H1 Hk1 f2 L) as E.
    rewrite E in H2. inversion H2; auto.
  - pose proof (run_fuel_mono m f2 s t s2 k2 n2 H2 Hk2 f1 L) as E.
    rewrite E in H1. inversion H1; auto.
Qed.

Lemma run_deterministic m sc f1 f2 s1 n1 s2 n2 :
  run m f1 (init_state m sc) 0 = (s1, StHalt, n1) ->
  run m f2 (init_state m sc) 0 = (s2, StHalt, n2) ->
  s1 = s2 /\ events s1 = events s2 /\ n1 = n2.
Proof.
  intros H1 H2.
  destruct (run_deterministic_gen m _ _ _ _ _ _ _ _ _ _ H1 H2) as (E & _ & N); try discriminate.
  subst. auto.
Qed.

(* ---------- run: composition, and two machines side by side ---------- *)

Lemma run_split m : forall a b s t, run m (a + b) s t = cont m b (run m a s t).
Proof.
  induction a as [|a IH]; intros b s t.
  - reflexivity.
  - simpl. destruct (halted s || (pc s >=? code_len m)); [reflexivity|].
    destruct (tick m s) as [s1 | c s1 | s1]; try reflexivity.
    apply IH.
Qed.

Lemma sched_runs m1 m2 : forall order a b s1 s2,
  sched m1 m2 order (run m1 a s1 0) (run m2 b s2 0) =
  (run m1 (a + count_b true order) s1 0, run m2 (b + count_b false order) s2 0).
Proof.
  induction order as [|x o IH]; intros a b s1 s2.
  - unfold count_b; simpl. now rewrite !Nat.add_0_r.
  - destruct x; simpl sched.
    + rewrite <- run_split. rewrite IH. unfold count_b; simpl.
      f_equal. f_equal. lia.
    + rewrite <- run_split. rewrite IH. unfold count_b; simpl.
      f_equal. f_equal. lia.
Qed.

Lemma interleaving_independent m1 m2 order s1 s2 :
  sched m1 m2 order (s1, StFuel, 0) (s2, StFuel, 0) =
  (run m1 (count_b true order) s1 0, run m2 (count_b false order) s2 0).
Proof. exact (sched_runs m1 m2 order 0%nat 0%nat s1 s2). Qed.

(* ---------- dict ---------- *)
Section DictFacts.
  Context {K V : Type}.
  Variable keqb : K -> K -> bool.
  Hypothesis keqb_spec : forall a b, keqb a b = true <-> a = b.

  Lemma keqb_refl a : keqb a a = true.
  Proof. now apply keqb_spec. Qed.

  Lemma keqb_trans_l a b c : keqb a b = true -> keqb a c = keqb b c.
  Proof. intros H. apply keqb_spec in H. now subst. Qed.

  Lemma mem_In k l : mem keqb k l = true <-> In k l.
  Proof.
    unfold mem. rewrite existsb_exists. split.
    - intros (x & Hx & E). apply keqb_spec in E. now subst.
    - intros H. exists k. split; [exact H | apply keqb_refl].
  Qed.

  Lemma mem_ext k l1 l2 : (forall x, In x l1 <-> In x l2) -> mem keqb k l1 = mem keqb k l2.
  Proof.
    intros H. apply eq_true_iff_eq. rewrite !mem_In. apply H.
  Qed.

  Lemma mem_perm k l1 l2 : Permutation l1 l2 -> mem keqb k l1 = mem keqb k l2.
  Proof.
    intros P. apply mem_ext. intros x. split; apply Permutation_in; [exact P | now apply Permutation_sym].
  Qed.

  Lemma mem_app k l1 l2 : mem keqb k (l1 ++ l2) = mem keqb k l1 || mem keqb k l2.
  Proof. apply existsb_app. Qed.

  Lemma dict_get_set (d : list (K * V)) k' v k :
    dict_get keqb (dict_set keqb d k' v) k = if keqb k k' then Some v else dict_get keqb d k.
  Proof.
    induction d as [|[k0 v0] r IH]; simpl.
    - reflexivity.
    - destruct (keqb k' k0) eqn:E0; simpl.
      + apply keqb_spec in E0. subst k0. destruct (keqb k k'); reflexivity.
      + destruct (keqb k k0) eqn:E1.
        * apply keqb_spec in E1. subst k0.
          destruct (keqb k k') eqn:E2; [|reflexivity].
          apply keqb_spec in E2. subst k'. rewrite keqb_refl in E0. discriminate.
        * exact IH.
  Qed.

  Lemma dict_get_mem (d : list (K * V)) k :
    mem keqb k (dict_keys d) = match dict_get keqb d k with Some _ => true | None => false end.
  Proof.
    induction d as [|[k0 v0] r IH]; simpl; [reflexivity|].
    destruct (keqb k k0); simpl; [reflexivity | exact IH].
  Qed.

  Lemma dict_keys_set (d : list (K * V)) k v :
    dict_keys (dict_set keqb d k v) =
    if mem keqb k (dict_keys d) then dict_keys d else dict_keys d ++ [k].
  Proof.
    induction d as [|[k0 v0] r IH]; simpl; [reflexivity|].
    destruct (keqb k k0) eqn:E; simpl; [reflexivity|].
    unfold dict_keys in *. rewrite IH. unfold mem.
    destruct (existsb (keqb k) (map fst r)); reflexivity.
  Qed.
End DictFacts.

Lemma Zeqb_spec a b : Z.eqb a b = true <-> a = b.
Proof. apply Z.eqb_eq. Qed.

Lemma okey_eqb_spec a b : okey_eqb a b = true <-> a = b.
Proof.
  destruct a as [x|], b as [y|]; simpl; split; intros H; try discriminate; try reflexivity.
  - apply str_eqb_eq in H. now subst.
  - inversion H. now apply str_eqb_eq.
Qed.

(* ---------- DEFtype ---------- *)

Lemma deftype_lookup : forall letters tab ty k,
  letter_type (apply_deftype tab letters ty) k =
  if mem Z.eqb k (map lower letters) then Some ty else letter_type tab k.
Proof.
  unfold letter_type, apply_deftype.
  induction letters as [|l r IH]; intros tab ty k; simpl.
  - reflexivity.
  - rewrite IH. rewrite (dict_get_set Z.eqb Zeqb_spec).
    destruct (mem Z.eqb k (map lower r)); [now rewrite orb_true_r|].
    rewrite orb_false_r. reflexivity.
Qed.

Lemma deftype_order_irrelevant letters letters' tab ty :
  Permutation letters letters' ->
  forall k, letter_type (apply_deftype tab letters ty) k =
            letter_type (apply_deftype tab letters' ty) k.
Proof.
  intros P k. rewrite !deftype_lookup.
  rewrite (mem_perm Z.eqb Zeqb_spec k (map lower letters) (map lower letters')); [reflexivity|].
  now apply Permutation_map.
Qed.

(* lookup-equivalent tables stay lookup-equivalent *)
Lemma deftype_ext letters letters' t1 t2 ty :
  Permutation letters letters' ->
  (forall k, letter_type t1 k = letter_type t2 k) ->
  forall k, letter_type (apply_deftype t1 letters ty) k =
            letter_type (apply_deftype t2 letters' ty) k.
Proof.
  intros P E k. rewrite !deftype_lookup. rewrite E.
  rewrite (mem_perm Z.eqb Zeqb_spec k (map lower letters) (map lower letters')); [reflexivity|].
  now apply Permutation_map.
Qed.

(* every statement's letter set enumerated in an arbitrary order *)
Inductive stmts_perm : list (list Z * Z) -> list (list Z * Z) -> Prop :=
| sp_nil : stmts_perm [] []
| sp_cons l l' ty r r' : Permutation l l' -> stmts_perm r r' -> stmts_perm ((l, ty) :: r) ((l', ty) :: r').

Lemma deftypes_order_irrelevant : forall s s', stmts_perm s s' ->
  forall t1 t2, (forall k, letter_type t1 k = letter_type t2 k) ->
  forall k, letter_type (apply_deftypes t1 s) k = letter_type (apply_deftypes t2 s') k.
Proof.
  induction 1 as [|l l' ty r r' P _ IH]; intros t1 t2 E k; simpl.
  - apply E.
  - apply IH. intros k'. now apply deftype_ext.
Qed.

(* ---------- labels ---------- *)
Definition ins_ok (ins : str -> list str -> list str) : Prop :=
  forall x l y, In y (ins x l) <-> y = x \/ In y l.

Lemma ins_front_ok : ins_ok ins_front.
Proof. intros x l y. simpl. split; intros [H|H]; auto. Qed.

Lemma ins_back_ok : ins_ok ins_back.
Proof.
  intros x l y. unfold ins_back. rewrite in_app_iff. simpl. split.
  - intros [H|[H|[]]]; auto.
  - intros [H|H]; auto.
Qed.

Definition same_set (a b : list str) : Prop := forall x, In x a <-> In x b.

Lemma declare_same i1 i2 : ins_ok i1 -> ins_ok i2 ->
  forall decls s1 s2 i, same_set s1 s2 ->
  match declare i1 decls s1 i, declare i2 decls s2 i with
  | inl r1, inl r2 => same_set r1 r2
  | inr a, inr b => a = b
  | _, _ => False
  end.
Proof.
  intros O1 O2. induction decls as [|d r IH]; intros s1 s2 i E; simpl.
  - exact E.
  - rewrite (mem_ext str_eqb str_eqb_eq d s1 s2 E).
    destruct (mem str_eqb d s2); [reflexivity|].
    apply IH. intros x. rewrite (O1 d s1 x), (O2 d s2 x), (E x). reflexivity.
Qed.

Lemma first_undefined_same uses : forall s1 s2 i, same_set s1 s2 ->
  first_undefined uses s1 i = first_undefined uses s2 i.
Proof.
  induction uses as [|u r IH]; intros s1 s2 i E; simpl; [reflexivity|].
  rewrite (mem_ext str_eqb str_eqb_eq u s1 s2 E).
  destruct (mem str_eqb u s2); [now apply IH | reflexivity].
Qed.

Lemma labels_set_membership_only i1 i2 decls uses :
  ins_ok i1 -> ins_ok i2 -> check_labels i1 decls uses = check_labels i2 decls uses.
Proof.
  intros O1 O2. unfold check_labels.
  pose proof (declare_same i1 i2 O1 O2 decls [] [] 0%nat (fun x => iff_refl _)) as H.
  destruct (declare i1 decls [] 0) as [r1|a], (declare i2 decls [] 0) as [r2|b]; try contradiction.
  - now rewrite (first_undefined_same uses r1 r2 0%nat H).
  - now subst.
Qed.

(* membership itself: any enumeration of the same set answers alike *)
Lemma labels_membership_perm x l1 l2 :
  Permutation l1 l2 -> mem str_eqb x l1 = mem str_eqb x l2.
Proof. apply (mem_perm str_eqb str_eqb_eq). Qed.

(* ---------- DATA grouping ---------- *)
Section DataFacts.
  Context {K I : Type}.
  Variable keqb : K -> K -> bool.
  Hypothesis keqb_spec : forall a b, keqb a b = true <-> a = b.

  Let ext := fun (d : list (K * list I)) (st : K * list I) => dict_extend keqb d (fst st) (snd st).

  Lemma group_keys_gen : forall stmts (d : list (K * list I)),
    dict_keys (fold_left ext stmts d) = dict_keys d ++ first_occ keqb (dict_keys d) (map fst stmts).
  Proof.
    induction stmts as [|[k it] r IH]; intros d; simpl.
    - now rewrite app_nil_r.
    - rewrite IH. unfold ext, dict_extend. simpl.
      rewrite !(dict_keys_set keqb).
      destruct (mem keqb k (dict_keys d)); [reflexivity|].
      now rewrite <- app_assoc.
  Qed.

  Lemma group_keys (stmts : list (K * list I)) :
    dict_keys (group_data keqb stmts) = first_occ keqb [] (map fst stmts).
  Proof. unfold group_data. apply (group_keys_gen stmts []). Qed.

  Lemma group_items_gen : forall stmts (d : list (K * list I)) k,
    dict_get keqb (fold_left ext stmts d) k =
    match dict_get keqb d k with
    | Some old => Some (old ++ items_of keqb k stmts)
    | None => if mem keqb k (map fst stmts) then Some (items_of keqb k stmts) else None
    end.
  Proof.
    induction stmts as [|[k' it] r IH]; intros d k; simpl.
    - destruct (dict_get keqb d k); [now rewrite app_nil_r | reflexivity].
    - rewrite IH. unfold ext, dict_extend. simpl.
      rewrite (dict_get_set keqb keqb_spec).
      destruct (keqb k k') eqn:E.
      + apply keqb_spec in E. subst k'.
        destruct (dict_get keqb d k); simpl; now rewrite <- ?app_assoc.
      + simpl. reflexivity.
  Qed.

  Lemma group_items (stmts : list (K * list I)) k :
    dict_get keqb (group_data keqb stmts) k =
    if mem keqb k (map fst stmts) then Some (items_of keqb k stmts) else None.
  Proof. unfold group_data. apply (group_items_gen stmts [] k). Qed.

  (* keys are pairwise distinct, so index_of is the position of the part *)
  Lemma first_occ_not_seen : forall ks seen k,
    In k (first_occ keqb seen ks) -> mem keqb k seen = false.
  Proof.
    induction ks as [|x r IH]; intros seen k H; simpl in H; [contradiction|].
    destruct (mem keqb x seen) eqn:E.
    - now apply IH.
    - destruct H as [<- | H]; [exact E|].
      apply IH in H. rewrite (mem_app keqb) in H. now apply orb_false_iff in H.
  Qed.

  Lemma first_occ_nodup : forall ks seen, NoDup (first_occ keqb seen ks).
  Proof.
    induction ks as [|x r IH]; intros seen; simpl; [constructor|].
    destruct (mem keqb x seen); [apply IH|].
    constructor; [|apply IH].
    intros H. apply first_occ_not_seen in H.
    rewrite (mem_app keqb) in H. apply orb_false_iff in H. destruct H as [_ H].
    simpl in H. rewrite (keqb_refl keqb keqb_spec) in H. discriminate.
  Qed.
End DataFacts.

(* ---------- literal table ---------- *)
Lemma literal_table_gen : forall occ tab,
  fold_left add_literal occ tab = tab ++ first_occ str_eqb tab occ.
Proof.
  induction occ as [|v r IH]; intros tab; simpl.
  - now rewrite app_nil_r.
  - rewrite IH. unfold add_literal.
    destruct (mem str_eqb v tab); [reflexivity|]. now rewrite <- app_assoc.
Qed.

Lemma literal_table_first_occurrence occ : literal_table occ = first_occ str_eqb [] occ.
Proof. apply (literal_table_gen occ []). Qed.
