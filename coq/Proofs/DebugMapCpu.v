(* The lookup as the machine model uses it (Models/Cpu.v find_stmt, a left fold
   over (start, end) pairs, used by RESUME / RESUME NEXT) is the lookup of
   Models/DebugMap.v (filter, stable sort by size, head). *)
From Coq Require Import ZArith List Bool Lia.
From QV Require Import DebugMap DebugMapProofs Cpu.
Import ListNotations.
Open Scope Z_scope.

Definition rng (r : rec) : Z * Z := (r_start r, r_end r).

Definition merge (best : option (Z * Z)) (m : option rec) : option (Z * Z) :=
  match best, m with
  | None, None => None
  | None, Some x => Some (rng x)
  | Some p, None => Some p
  | Some (a', b'), Some x => if rsize x <? b' - a' then Some (rng x) else Some (a', b')
  end.

Definition fstep (addr : Z) (best : option (Z * Z)) (p : Z * Z) : option (Z * Z) :=
  let '(a, b) := p in
  if (a <=? addr) && (addr <? b) then
    match best with
    | Some (a', b') => if b - a <? b' - a' then Some (a, b) else best
    | None => Some (a, b)
    end
  else best.

Lemma cpu_find_stmt_fold stmts addr :
  Cpu.find_stmt stmts addr = fold_left (fstep addr) stmts None.
Proof. reflexivity. Qed.

Ltac brk :=
  repeat (match goal with
          | |- context [?u <? ?v] => destruct (Z.ltb_spec u v)
          | |- context [?u <=? ?v] => destruct (Z.leb_spec u v)
          end; cbn -[Z.sub Z.ltb Z.leb]);
  try reflexivity; try (exfalso; lia).

Lemma fstep_rng addr best x :
  fstep addr best (rng x) =
  if contains addr x then
    match best with
    | Some (a', b') => if rsize x <? b' - a' then Some (rng x) else best
    | None => Some (rng x)
    end
  else best.
Proof. reflexivity. Qed.

Lemma fold_merge addr l : forall best,
  fold_left (fstep addr) (map rng l) best =
  merge best (first_min rsize (filter (contains addr) l)).
Proof.
  induction l as [|x l IH]; intros best.
  - simpl. destruct best as [[a b]|]; reflexivity.
  - change (fold_left (fstep addr) (map rng (x :: l)) best)
      with (fold_left (fstep addr) (map rng l) (fstep addr best (rng x))).
    rewrite IH, fstep_rng.
    change (filter (contains addr) (x :: l))
      with (if contains addr x then x :: filter (contains addr) l else filter (contains addr) l).
    destruct (contains addr x); [|reflexivity].
    change (first_min rsize (x :: filter (contains addr) l))
      with (match first_min rsize (filter (contains addr) l) with
            | None => Some x
            | Some m => if rsize x <=? rsize m then Some x else Some m
            end).
    destruct (first_min rsize (filter (contains addr) l)) as [m|];
      destruct best as [[a' b']|]; unfold merge, rng, rsize; cbn -[Z.sub Z.ltb Z.leb]; brk.
Qed.

Lemma machine_lookup_lemma stmts addr :
  Cpu.find_stmt (map rng stmts) addr =
  match DebugMap.find_stmt stmts addr with
  | FFound r => Some (rng r)
  | _ => None
  end.
Proof.
  rewrite cpu_find_stmt_fold, fold_merge, find_stmt_char.
  destruct (first_min rsize (filter (contains addr) stmts)); reflexivity.
Qed.
