(* convert_index_to_line_col: the recorded line of a source offset, and the
   column convention (property C11). *)
From Coq Require Import ZArith List Bool Lia.
From QV Require Import DebugMap.
Import ListNotations.
Open Scope Z_scope.

Ltac some_eq := apply f_equal; apply f_equal2; [try reflexivity; lia | try reflexivity; lia].

(* number of newline characters in a text *)
Fixpoint count_nl (l : list Z) : Z :=
  match l with
  | [] => 0
  | c :: r => (if c =? 10 then 1 else 0) + count_nl r
  end.

Lemma count_nl_nonneg l : 0 <= count_nl l.
Proof. induction l as [|c l IH]; simpl; [lia|]. destruct (c =? 10); lia. Qed.

Lemma idx2lc_none text : forall k line col,
  (length text <= k)%nat -> idx2lc text k line col = None.
Proof.
  induction text as [|c r IH]; intros k line col H; simpl; [reflexivity|].
  destruct k as [|k]; [simpl in H; lia|]. simpl in H.
  destruct (c =? 10); apply IH; lia.
Qed.

Lemma idx2lc_line text : forall k line col,
  (k < length text)%nat ->
  exists c, idx2lc text k line col = Some (line + count_nl (firstn k text), c).
Proof.
  induction text as [|ch r IH]; intros k line col H; simpl in H; [lia|].
  destruct k as [|k]; simpl.
  - exists col. some_eq.
  - destruct (ch =? 10).
    + destruct (IH k (line + 1) 1) as (c & E); [lia|]. exists c. rewrite E. some_eq.
    + destruct (IH k line (col + 1)) as (c & E); [lia|]. exists c. rewrite E. some_eq.
Qed.

(* no newline before the offset: the column just counts characters *)
Lemma idx2lc_col_sameline text : forall k line col,
  (k < length text)%nat -> count_nl (firstn k text) = 0 ->
  idx2lc text k line col = Some (line, col + Z.of_nat k).
Proof.
  induction text as [|ch r IH]; intros k line col H N; simpl in H; [lia|].
  destruct k as [|k]; simpl.
  - some_eq.
  - simpl in N. pose proof (count_nl_nonneg (firstn k r)).
    destruct (ch =? 10); [lia|].
    rewrite IH; [|lia|lia]. some_eq.
Qed.

Lemma idx2lc_skip a : forall r k line col,
  exists line' col', idx2lc (a ++ r) (length a + k) line col = idx2lc r k line' col' /\
                     line' = line + count_nl a.
Proof.
  induction a as [|ch a IH]; intros r k line col; simpl.
  - exists line, col. split; [reflexivity | lia].
  - destruct (ch =? 10).
    + destruct (IH r k (line + 1) 1) as (l' & c' & E & L). exists l', c'. split; [auto | lia].
    + destruct (IH r k line (col + 1)) as (l' & c' & E & L). exists l', c'. split; [auto | lia].
Qed.

(* offset j into the line that follows a newline: column 1 + j *)
Lemma idx2lc_col_nextline a b j line col :
  (j < length b)%nat -> count_nl (firstn j b) = 0 ->
  idx2lc (a ++ 10 :: b) (length a + S j) line col = Some (line + count_nl a + 1, 1 + Z.of_nat j).
Proof.
  intros H N. destruct (idx2lc_skip a (10 :: b) (S j) line col) as (l' & c' & E & L).
  rewrite E. simpl. rewrite idx2lc_col_sameline by auto. subst l'. reflexivity.
Qed.

Lemma line_correct_lemma text off :
  0 <= off < Z.of_nat (length text) ->
  exists col, index_to_line_col text off =
              Some (1 + count_nl (firstn (Z.to_nat off) text), col).
Proof.
  intros H. unfold index_to_line_col.
  destruct (off <? 0) eqn:E; [apply Z.ltb_lt in E; lia|].
  apply idx2lc_line. lia.
Qed.

Lemma line_none_lemma text off :
  off < 0 \/ Z.of_nat (length text) <= off -> index_to_line_col text off = None.
Proof.
  intros H. unfold index_to_line_col.
  destruct (off <? 0) eqn:E; [reflexivity|]. apply Z.ltb_ge in E.
  apply idx2lc_none. lia.
Qed.

(* the column convention: 0-based on the first line, 1-based afterwards *)
Lemma col_first_line_lemma text off :
  0 <= off < Z.of_nat (length text) -> count_nl (firstn (Z.to_nat off) text) = 0 ->
  index_to_line_col text off = Some (1, off).
Proof.
  intros H N. unfold index_to_line_col.
  destruct (off <? 0) eqn:E; [apply Z.ltb_lt in E; lia|].
  rewrite idx2lc_col_sameline by (auto; lia). some_eq.
Qed.

Lemma col_later_line_lemma a b j :
  (j < length b)%nat -> count_nl (firstn j b) = 0 ->
  index_to_line_col (a ++ 10 :: b) (Z.of_nat (length a + S j)) =
  Some (2 + count_nl a, 1 + Z.of_nat j).
Proof.
  intros H N. unfold index_to_line_col.
  destruct (Z.of_nat (length a + S j) <? 0) eqn:E; [apply Z.ltb_lt in E; lia|].
  rewrite Nat2Z.id, idx2lc_col_nextline by auto. some_eq.
Qed.
